"""Seeded, structured op-script generators, one family per property (DESIGN.md §6.1).
Every random choice comes from the `random.Random` handed in; the script text is the replay."""
import os
import random

U64 = 2 ** 64 - 1
MAXD = 65534
LPM = {0: 6, 1: 4, 2: 3, 3: 3}

PAYLOADS_SMALL = [0, 1, 2, 3, 4, 5, 8]
PAYLOADS_ALL = [0, 1, 2, 3, 4, 5, 8, 16, 200]


def lpm(p):
    return LPM.get(p, 2)


def hexs(b):
    return b.hex() if b else "-"


RS_VARIANTS = ["u64", "arr", "vec", "sv"]


class Hist:
    """tracks what the script has pushed so far (timestamps and canonical byte offsets)"""
    _rs_counter = 0

    def __init__(self, p, hdr=b"", caches=()):
        # which of the library's ResampleState impls feeds the caches of this history (number, array,
        # Vec, spilled SmallVec - same files for all of them): cycles through the variants
        Hist._rs_counter += 1
        self.rs = RS_VARIANTS[Hist._rs_counter % len(RS_VARIANTS)]
        self.p = p
        self.ls = p + 2
        self.ms = lpm(p) * self.ls
        self.ts = []
        self.full = None
        self.off = 0
        self.sections = []          # (ts, offset)
        self.ops = []
        self.hdr = hdr
        self.caches = list(caches)

    def cachespec(self):
        return ",".join(str(b) for b in self.caches) if self.caches else "-"

    def new(self):
        self.ops.append(f"new p={self.p} hdr={hexs(self.hdr)} caches={self.cachespec()}" + (f" rs={self.rs}" if self.caches and self.rs != "u64" else ""))

    def reopen(self, cb="none", hdr=None, p=None, ext=0, caches=None):
        self.ops.append("close")
        self.open(cb=cb, hdr=hdr, p=p, ext=ext, caches=caches)

    def open(self, cb="none", hdr=None, p=None, ext=0, caches=None):
        h = "any" if hdr is None else hexs(hdr)
        ps = "any" if p is None else str(p)
        c = self.cachespec() if caches is None else (",".join(map(str, caches)) or "-")
        self.ops.append(f"open p={ps} hdr={h} caches={c} cb={cb} ext={ext}" + (f" rs={self.rs}" if c != "-" and self.rs != "u64" else ""))

    def _account(self, t):
        if self.full is None or t - self.full > MAXD:
            self.sections.append((t, self.off))
            self.full = t
            self.off += self.ms
        self.off += self.ls
        self.ts.append(t)

    def last(self):
        return self.ts[-1] if self.ts else None

    def push(self, t, rng=None, pl=None):
        if pl is None:
            r = rng or random
            pl = bytes(r.randrange(256) for _ in range(self.p))
        self.ops.append(f"push ts={t} pl={hexs(pl)}")
        if (not self.ts or t > self.ts[-1]) and len(pl) == self.p and t <= U64:
            self._account(t)

    def pushrun(self, ts0, step, count, seed):
        self.ops.append(f"pushrun ts0={ts0} step={step} count={count} seed={seed}")
        t = ts0
        for _ in range(count):
            if self.ts and t <= self.ts[-1]:
                break
            if t > U64:
                break
            self._account(t)
            t += step

    def op(self, line):
        self.ops.append(line)

    def script(self):
        return "\n".join(self.ops) + "\n"

    # ------------------------------------------------------------ history shapes
    def seg_dense(self, rng, count=None, step=None):
        start = (self.last() + rng.choice([1, 1, 2, 7, 100, MAXD, MAXD + 1, MAXD + 2])) if self.ts else rng.choice([0, 1, 5, 1000, 1 << 32, rng.randrange(1 << 40)])
        step = step or rng.choice([1, 1, 2, 3, 10, 100, 1000])
        count = count or rng.randrange(1, 40)
        self.pushrun(start, step, count, rng.randrange(1 << 30))

    def seg_edge(self, rng):
        """lines exactly where a 16-bit delta runs out"""
        if self.full is None:
            self.push(rng.choice([0, 1, 12345, 1 << 33]), rng)
        f = self.full
        for d in (MAXD - 1, MAXD, MAXD + 1, MAXD + 2):
            t = f + d
            if t > self.last() and t <= U64:
                self.push(t, rng)

    def seg_sparse(self, rng, count=None):
        """every line opens its own section"""
        count = count or rng.randrange(1, 12)
        start = (self.last() + rng.choice([MAXD + 1, MAXD + 2, 100000, 1 << 20])) if self.ts else rng.choice([0, 7, 1 << 20])
        step = rng.choice([MAXD + 1, MAXD + 2, 70000, 100000, 1 << 24])
        self.pushrun(start, step, count, rng.randrange(1 << 30))

    def seg_gap(self, rng):
        if not self.ts:
            self.push(rng.choice([0, 3, 1 << 16]), rng)
        self.push(self.last() + rng.choice([MAXD + 1, 200000, 1 << 32, 1 << 48]), rng)

    def random_history(self, rng, nseg=None):
        nseg = nseg or rng.randrange(1, 6)
        for _ in range(nseg):
            rng.choice([self.seg_dense, self.seg_dense, self.seg_edge, self.seg_sparse, self.seg_gap])(rng)

    def fill_to_boundary(self, rng, boundary, lines_before):
        """dense lines until the next section would start `lines_before` lines before byte `boundary`"""
        target = boundary - lines_before * self.ls
        if self.full is None:
            self.push(rng.choice([0, 5, 1000]), rng)
        n = (target - self.off) // self.ls
        # stay inside the current section: at most MAXD - (last - full) more ticks
        room = MAXD - (self.last() - self.full)
        if n <= 0:
            return False
        if n > room:
            # open new sections on the way with dense runs
            while n > 0:
                room = MAXD - (self.last() - self.full)
                k = min(n, room)
                if k > 0:
                    self.pushrun(self.last() + 1, 1, k, rng.randrange(1 << 30))
                    n -= k
                if n > 0:
                    if n * self.ls <= self.ms + self.ls:
                        break
                    self.push(self.last() + MAXD + 1, rng)
                    n = (target - self.off) // self.ls
            return True
        self.pushrun(self.last() + 1, 1, n, rng.randrange(1 << 30))
        return True

    # ------------------------------------------------------------ bounds
    def critical_values(self):
        vals = {0, 1, U64, U64 - 1}
        for t in self.ts[:3] + self.ts[-3:]:
            vals.update({max(t - 1, 0), t, min(t + 1, U64)})
        for f, _ in self.sections:
            for d in (MAXD - 1, MAXD, MAXD + 1):
                vals.add(min(f + d, U64))
            vals.update({max(f - 1, 0), f, min(f + 1, U64)})
        return sorted(vals)

    def some_values(self, rng, k):
        vals = self.critical_values()
        extra = []
        for _ in range(k):
            if self.ts and rng.random() < 0.6:
                t = rng.choice(self.ts)
                extra.append(max(0, min(U64, t + rng.choice([-1, 0, 0, 1]))))
            else:
                extra.append(rng.choice(vals))
        return extra


def bound(kind, v):
    return "U" if kind == "U" else f"{kind}:{v}"


def rand_bound(rng, h):
    k = rng.choice(["I", "I", "E", "U"])
    return bound(k, h.some_values(rng, 1)[0])


ALL_KINDS = ["I", "E", "U"]


# ====================================================================== per property

def _histories(rng, tier, payloads=None, nseg=None):
    n = 12 if tier == "quick" else 120
    payloads = payloads or PAYLOADS_ALL
    for i in range(n):
        p = payloads[i % len(payloads)] if i < len(payloads) * 2 else rng.choice(payloads)
        h = Hist(p, hdr=bytes(rng.randrange(256) for _ in range(rng.choice([0, 0, 1, 5]))))
        h.new()
        h.random_history(rng, nseg)
        yield h


def big_sparse(p, count, seed=7, ts0=3, step=70000, caches=()):
    h = Hist(p, caches=caches)
    h.new()
    h.pushrun(ts0, step, count, seed)
    return h


def lines_for_bytes(p, nbytes, sparse):
    ls = p + 2
    per = (lpm(p) + 1) * ls if sparse else ls
    return nbytes // per + 2


def huge_read_battery():
    """full reads of more than 4 MiB (line sizes that do and do not divide 64 KiB), dense with a few pauses"""
    out = []
    for p, n in ((8, 440000), (98, 44000), (14, 280000)):
        h = Hist(p)
        h.new()
        h.pushrun(1700000000, 3, n // 2, 3)
        h.pushrun(h.last() + 100000, 1, n - n // 2, 4)
        h.op("len")
        h.op("read_all s=U e=U")
        h.op(f"read_first_n n={n} s=U e=U")
        out.append((f"huge-read-p{p}", h.script()))
    return out


def gen_C01(rng, tier):
    out = all_bytes_battery(["read_all s=U e=U"]) + marker_word_battery(["read_all s=U e=U"])
    out += payload_marker_battery(["read_all s=U e=U"])
    out += mixed_session_battery(rng, ["read_all s=U e=U"])
    out += reader_buffer_end_battery(tier, ["read_all s=U e=U"])
    out += payload_sweep_battery(["read_all s=U e=U"])
    out += huge_read_battery()
    # directed: sparse series spanning several read buffers, so that consecutive
    # 16 KiB boundaries split sections (every payload class)
    for p in ([0, 1, 2, 3, 4, 8] if tier == "quick" else [0, 1, 2, 3, 4, 5, 8, 16, 200]):
        h = big_sparse(p, lines_for_bytes(p, 3 * 16384 + 500, True), seed=p + 1)
        h.op("read_all s=U e=U")
        h.reopen()
        h.op("read_all s=U e=U")
        out.append((f"sparse-p{p}", h.script()))
    # directed: dense series over several buffers, marker-like payload bytes
    for p in [0, 2, 4]:
        h = Hist(p)
        h.new()
        n = lines_for_bytes(p, 2 * 16384 + 100, False)
        t = 1
        while n > 0:
            k = min(n, 60000)
            h.pushrun(t, 1, k, 11 + p)
            t = h.last() + 70000
            n -= k
        h.op("read_all s=U e=U")
        out.append((f"dense-p{p}", h.script()))
    # payloads that look like markers; timestamps with FF bytes
    for p in [2, 4, 8]:
        h = Hist(p)
        h.new()
        for t in [0xFFFF, 0xFFFF + 1, 0xFFFF0000, 0xFFFFFFFF, 0xFFFF00000000, 0xFFFFFFFFFFFF, U64 - 70000, U64 - 1, U64]:
            h.push(t, pl=b"\xff" * p)
        h.op("read_all s=U e=U")
        out.append((f"markerlike-p{p}", h.script()))
    # one line larger than the read buffer
    if tier != "quick":
        for p in [16383, 20000]:
            h = Hist(p)
            h.new()
            h.pushrun(5, 1, 4, 3)
            h.pushrun(10 ** 6, 70000, 3, 4)
            h.op("read_all s=U e=U")
            out.append((f"huge-p{p}", h.script()))
    for h in _histories(rng, tier):
        h.op("read_all s=U e=U")
        if rng.random() < 0.5:
            h.reopen()
            h.seg_dense(rng)
            h.op("read_all s=U e=U")
        out.append(("rand", h.script()))
    return out


def full_section_battery(opfmt):
    """a COMPLETELY full section: one line for every delta 0..65534 (65535 lines), then the next
    section; bounds of every kind on and around its first and last line.  Result sets are kept
    small (the bounds are near each other)."""
    out = []
    for p in [0, 4]:
        f = 10000
        h = Hist(p)
        h.new()
        h.pushrun(f, 1, MAXD + 1, 3)          # f .. f+65534
        h.pushrun(f + MAXD + 1, 1, 3, 4)      # next section
        last = f + MAXD
        for a, b in [(last - 2, last), (last - 2, last + 1), (last, last), (last - 1, last + 2), (f, f + 1),
                     (last + 1, last + 3), (last - 3, last - 1)]:
            for ks in ("I", "E"):
                for ke in ("I", "E"):
                    h.op(opfmt.format(s=f"{ks}:{a}", e=f"{ke}:{b}"))
            if a > f:
                h.op(opfmt.format(s=f"I:{a}", e="U"))
        h.op(opfmt.format(s=f"I:{last - 1}", e=f"I:{U64}"))
        # spans of a whole full section and more
        for s_, e_ in [("U", "U"), (f"I:{f}", f"I:{last}"), (f"I:{f}", f"E:{last}"), (f"E:{f}", f"I:{last + 2}"), (f"I:{f + 1}", "U")]:
            h.op(opfmt.format(s=s_, e=e_))
        out.append((f"full-section-p{p}", h.script()))
    # two completely full sections in a row (payload 1 has 4-line section headers)
    for p in [1]:
        h = Hist(p)
        h.new()
        h.pushrun(10000, 1, 2 * (MAXD + 1), 3)
        h.pushrun(h.last() + 1, 1, 3, 4)
        for s_, e_ in [("U", "U"), ("I:10000", f"I:{10000 + 2 * MAXD + 1}"), (f"I:{10000 + MAXD}", f"I:{10000 + MAXD + 1}")]:
            h.op(opfmt.format(s=s_, e=e_))
        out.append((f"two-full-sections-p{p}", h.script()))
    return out


def wide_line_bounds_battery(opfmt):
    """lines WIDER than a kilobyte (a scan that treats wide lines differently from narrow ones, or steps over a
    line by the wrong width): payloads around 1022 .. 5000 bytes filled with 00, with EE and with FF, two sections,
    every kind of bound inside a section"""
    out = []
    for p in (1021, 1022, 1023, 1024, 2000, 5000):
        for fill in (0x00, 0xEE, 0xFF):
            h = Hist(p)
            h.new()
            T0 = 5000
            for i in range(12):
                h.push(T0 + 10 * i, pl=bytes([fill]) * p)
            for i in range(4):
                h.push(T0 + 200000 + 10 * i, pl=bytes([fill ^ 0x5A]) * p)
            for s_, e_ in (("I:%d" % T0, "I:%d" % (T0 + 43)), ("I:%d" % (T0 + 20), "I:%d" % (T0 + 70)), ("I:%d" % (T0 + 20), "E:%d" % (T0 + 70)),
                           ("U", "I:%d" % (T0 + 55)), ("E:%d" % (T0 + 10), "E:%d" % (T0 + 110)), ("I:%d" % (T0 + 100), "I:%d" % (T0 + 200015)),
                           ("U", "E:%d" % (T0 + 200020)), ("I:%d" % (T0 + 35), "U")):
                h.op(opfmt.format(s=s_, e=e_))
            out.append((f"wide-lines-p{p}-{fill:02x}", h.script()))
    return out


def gen_range_reads(rng, tier, opfmt, payloads=None, extra_n=None):
    """histories with gaps; bound pairs from the critical values of each history"""
    out = []
    # interleaved: the same queries are repeated after every append (an answer remembered from
    # before the append would be stale); bounds sit on and just after the last line
    for p in (0, 4):
        h = Hist(p)
        h.new()
        for t in (7, 8, 100002, 100003):
            h.push(t, rng)
        for _ in range(5):
            last = h.last()
            qs = [("U", "U"), (f"I:{last}", f"I:{last + 1}"), ("U", f"I:{last + 1}"), ("U", f"E:{last + 1}"),
                  ("U", f"E:{last + 2}"), (f"I:{last - 1}", f"I:{last + 2}"), (f"E:{last}", "U"), (f"I:{last + 1}", f"I:{last + 1}")]
            for rep in range(2):
                for s_, e_ in qs:
                    h.op(opfmt.format(s=s_, e=e_))
            h.push(last + 1, rng)
            for s_, e_ in qs:
                h.op(opfmt.format(s=s_, e=e_))
        # the very same query immediately before and immediately after an append
        for k in range(8):
            last = h.last()
            s_, e_ = [("U", f"I:{last + 1}"), (f"I:{last}", f"I:{last + 1}"), ("U", f"E:{last + 2}"), (f"I:{last + 1}", f"I:{last + 1}"),
                      ("U", "U"), (f"E:{last - 1}", f"I:{last + 1}"), (f"I:7", f"I:{last + 1}"), (f"I:100002", f"E:{last + 2}")][k]
            h.op(opfmt.format(s=s_, e=e_))
            h.push(last + 1, rng)
            h.op(opfmt.format(s=s_, e=e_))
        out.append((f"interleaved-p{p}", h.script()))
    # directed: gap, end in gap, excluded start, excluded zero
    h = Hist(0)
    h.new()
    for t in (0, 10, 200000, 200010):
        h.push(t)
    for s, e in [("I:0", "I:100000"), ("E:0", "U"), ("E:10", "U"), ("U", "E:0"), ("U", "E:1"), ("I:11", "I:199999"),
                 ("I:5", "I:200005"), ("E:200000", "U"), ("I:300000", "U"), ("U", "I:5"), ("I:10", "I:10"), ("E:10", "E:200000")]:
        h.op(opfmt.format(s=s, e=e))
    out.append(("directed-gap", h.script()))
    # directed: the last section starts within 65534 of u64::MAX (section start + 65534 does not fit)
    # and holds several lines; every kind of bound on, between and around them
    for p in (4, 8):
        for base in (U64 - 10, U64 - MAXD, U64 - MAXD + 1, U64 - 70000):
            h = Hist(p)
            h.new()
            h.push(1000, rng)
            ts = sorted(set(t for t in (base, base + 3, base + 5, U64 - 1, U64) if base <= t <= U64))
            for t in ts:
                h.push(t, rng)
            vals = sorted(set(v for t in ts for v in (t - 1, t, t + 1) if 0 <= v <= U64))
            for a in vals:
                for ks in ("I", "E"):
                    h.op(opfmt.format(s=f"{ks}:{a}", e="U"))
                    h.op(opfmt.format(s=f"{ks}:{a}", e=f"I:{U64}"))
                    h.op(opfmt.format(s=f"{ks}:{a}", e=f"E:{U64}"))
                    h.op(opfmt.format(s="U", e=f"{ks}:{a}"))
            out.append((f"last-section-near-max-p{p}-{U64 - base}", h.script()))
    nh = 10 if tier == "quick" else 200
    for i in range(nh):
        p = (payloads or PAYLOADS_SMALL)[i % len(payloads or PAYLOADS_SMALL)]
        h = Hist(p)
        h.new()
        h.random_history(rng, rng.randrange(1, 5))
        vals = h.critical_values()
        pairs = []
        if tier == "quick":
            for _ in range(40):
                pairs.append((rng.choice(ALL_KINDS), rng.choice(vals), rng.choice(ALL_KINDS), rng.choice(vals)))
        else:
            if len(vals) <= 24:
                for a in vals:
                    for b in vals:
                        pairs.append((rng.choice(ALL_KINDS), a, rng.choice(ALL_KINDS), b))
            for _ in range(150):
                pairs.append((rng.choice(ALL_KINDS), rng.choice(vals), rng.choice(ALL_KINDS), rng.choice(vals)))
        if rng.random() < 0.3:
            h.reopen()
        # directed: every critical value as a one-sided bound of each kind
        cv = vals if len(vals) <= 60 else rng.sample(vals, 60)
        for v in cv:
            pairs.append(("I", v, "U", 0))
            pairs.append(("E", v, "U", 0))
            pairs.append(("U", 0, "I", v))
            pairs.append(("U", 0, "E", v))
        for (ks, a, ke, b) in pairs:
            h.op(opfmt.format(s=bound(ks, a), e=bound(ke, b)))
        out.append(("rand", h.script()))
    out += wide_line_bounds_battery(opfmt)      # last: callers that take a prefix of the list keep what they had
    return out


def prefilled_reads_battery():
    """the read calls APPEND to the caller's vectors: with items already in them (newer, older and equal
    timestamps than what the read returns) the call behaves the same and leaves them alone"""
    out = []
    for p in (0, 4):
        h = Hist(p)
        h.new()
        h.pushrun(6999990, 3, 12, 3)                   # around the harness's prefilled timestamps 7_000_000 + i
        h.pushrun(h.last() + 100000, 7, 30, 4)
        for pre in (1, 3, 50):
            h.op(f"read_all s=U e=U pre={pre}")
            h.op(f"read_all s=I:7000000 e=I:{h.ts[-10]} pre={pre}")
            h.op(f"read_all s=I:{h.ts[-5]} e=U pre={pre}")
            h.op(f"read_first_n n=4 s=U e=U pre={pre}")
            h.op(f"read_n n=5 s=U e=U pre={pre}")
        out.append((f"prefilled-reads-p{p}", h.script()))
    return out


def gen_C02(rng, tier):
    return (full_section_battery("read_all s={s} e={e}") + rebuilt_index_reads_battery(tier, ["read_all s={s} e={e}"])
            + buffer_end_start_sweep(tier, lambda s: [f"read_all s=I:{s} e=U"])
            + cursor_alias_battery(tier, lambda T1, T2, L: [f"read_all s=I:{T2} e=U", f"read_all s=I:{T2 - 5} e=I:{L - 2}", f"read_all s=I:{T1} e=E:{T2}"])
            + extreme_bounds_battery(["read_all s={s} e={e}"]) + prefilled_reads_battery()
            + gen_range_reads(rng, tier, "read_all s={s} e={e}"))


def gen_C14(rng, tier):
    # the count is compared with the specification's count of the lines a read of that range must return;
    # where both the count and the read are asked for (cursor battery) the read is judged as well
    return (full_section_battery("n_lines s={s} e={e}") + gen_range_reads(rng, tier, "n_lines s={s} e={e}")
            + extreme_bounds_battery(["n_lines s={s} e={e}", "read_all s={s} e={e}"])
            + reader_buffer_end_battery(tier, ["n_lines s=U e=U", "read_all s=U e=U", "n_lines s=I:1004 e=U", "read_all s=I:1004 e=U"])
            + cursor_alias_battery(tier, lambda T1, T2, L: [f"n_lines s=I:{T2} e=U", f"read_all s=I:{T2} e=U",
                                                              f"n_lines s=I:{T2 - 5} e=I:{L - 2}", f"read_all s=I:{T2 - 5} e=I:{L - 2}"]))


def big_section_tail_battery():
    """sections LARGER than a 16 KiB scan buffer with consecutive timestamps: first-n reads and the paging
    loop whose start falls on the last lines of such a section (the last section and an earlier one)"""
    out = []
    for p, n in ((8, 2001), (0, 9000)):
        for later in (False, True):
            h = Hist(p)
            h.new()
            h.pushrun(10000, 1, n, 3)
            last = h.last()
            if later:
                h.pushrun(last + 100000, 10, 50, 4)
            for st in (last, last - 1, last - 2):
                h.op(f"read_first_n n=5 s=I:{st} e=U")
                h.op(f"read_first_n n=5 s=E:{st - 1} e=U")
                h.op(f"read_first_n n=1 s=I:{st} e=I:{last}")
                h.op(f"read_all s=I:{st} e=I:{last + 5}")
            for pg in (n - 1, n - 2, 1000, 667, 400):
                h.op(f"page n={pg}")
            out.append((f"big-section-tail-p{p}" + ("-later" if later else ""), h.script()))
    return out


def gen_C13(rng, tier):
    out = buffer_end_start_sweep(tier, lambda s: [f"read_first_n n=100000 s=I:{s} e=U"])
    out += big_section_tail_battery()
    out += extreme_bounds_battery(["read_first_n n=3 s={s} e={e}", "read_first_n n=40 s={s} e={e}"])
    out += [(n, sc) for n, sc in full_section_battery("read_first_n n=7 s={s} e={e}")]
    # the read calls APPEND to the caller's vectors: with items already in them the answer is the same
    for p in (0, 4):
        h = Hist(p)
        h.new()
        h.pushrun(1000, 7, 40, 3)
        h.pushrun(h.last() + 100000, 7, 30, 4)
        h.pushrun(h.last() + 100000, 7, 25, 5)
        for pre in (1, 3, 50):
            for n in (1, 2, 5, 60, 95, 200):
                h.op(f"read_first_n n={n} s=U e=U pre={pre}")
                h.op(f"read_first_n n={n} s=I:1100 e=I:{h.ts[-10]} pre={pre}")
            h.op(f"read_all s=I:1100 e=I:{h.ts[-10]} pre={pre}")
        out.append((f"prefilled-vectors-p{p}", h.script()))
    # n used as "no limit": far beyond anything stored, up to usize::MAX - the answer is the full read of the range
    for p in (0, 4):
        h = Hist(p)
        h.new()
        h.pushrun(1000, 7, 12, 3)
        h.pushrun(h.last() + 100000, 7, 5, 4)
        for n in (1 << 31, 1 << 40, 1 << 61, (1 << 63) - 1, 1 << 63, U64):
            h.op(f"read_first_n n={n} s=U e=U")
            h.op(f"read_first_n n={n} s=E:1007 e=I:{h.ts[-2]}")
        h.op(f"page n={U64}")
        h.op(f"page n={1 << 40}")
        h.reopen()
        h.op(f"read_first_n n={U64} s=U e=U")
        out.append((f"huge-n-p{p}", h.script()))
    # very sparse series (every line opens a section) and LARGE n: thousands of section headers lie
    # between the first and the n-th line of the range
    for p, count in ([(8, 3000), (0, 1500)] if tier == "quick" else [(8, 6000), (4, 3000), (0, 3000), (2, 3000)]):
        h = Hist(p)
        h.new()
        h.pushrun(86400, 86400, count, 5)
        for n in (count // 2 + 51, count - 500, count - 1, count, count + 7):
            h.op(f"read_first_n n={n} s=U e=U")
            h.op(f"read_first_n n={n} s=E:{86400 * 3} e=I:{86400 * (count - 2)}")
        h.op(f"page n={count - 500}")
        out.append((f"sparse-large-n-p{p}", h.script()))
    for i, n in enumerate([1, 2, 3, 7]):
        out += [(f"first{n}", s) for _, s in gen_range_reads(random.Random(rng.randrange(1 << 30)), "quick", f"read_first_n n={n} s={{s}} e={{e}}")[:(3 if tier == "quick" else 11)]]
    nh = 8 if tier == "quick" else 60
    for i in range(nh):
        p = PAYLOADS_SMALL[i % len(PAYLOADS_SMALL)]
        h = Hist(p)
        h.new()
        h.random_history(rng, rng.randrange(1, 4))
        L = len(h.ts)
        for n in sorted({1, 2, 3, max(L - 1, 1), L, L + 1}):
            h.op(f"page n={n}")
            h.op(f"read_first_n n={n} s=U e=U")
        out.append(("page", h.script()))
    return out


def gen_C12(rng, tier):
    out = torn_tail_battery(rng)      # accessors after a torn-tail repair (several sections lost)
    acc = ["len", "is_empty", "range", "last_line", "payload_size"]
    out += index_lag_battery(rng, acc + ["read_all s=U e=U"])
    out += empty_reopen_battery(acc + ["read_all s=U e=U"])
    out += many_sections_battery(acc)
    # "the contents" are what a full read returns: accessors and the full read side by side on files
    # with a section header near the end of a read buffer
    out += reader_buffer_end_battery(tier, acc + ["read_all s=U e=U"])
    # the FIRST append of a series torn at every byte (inside its first line included: a stub shorter than a line),
    # then reopened: the series is empty again, says so, and accepts appends
    for p in [0, 1, 2, 4, 6, 100]:
        h = Hist(p)
        h.new()
        h.push(1000, pl=bytes([5] * p))
        H = header_len(p, 0)
        h.op("close")
        h.op("save 0")
        keeps = sorted(set([1, 2, 3, p, p + 1, p + 2, p + 3, h.ms - 1, h.ms, h.ms + 1, h.ms + h.ls - 1]))
        for keep in keeps:
            if keep <= 0 or keep >= h.ms + h.ls:
                continue
            h.op("restore 0")
            h.op(f"cut data {H + keep}")
            h.op("open p=any hdr=any caches=- cb=none ext=0")
            for a in acc:
                h.op(a)
            h.op(f"push ts=7 pl={hexs(bytes([6] * p))}")
            h.op("len")
            h.op("range")
            h.op("close")
        out.append((f"torn-first-append-p{p}", h.script()))
    # the smallest series: empty, one line, two lines, each seen again after a reopen
    for p in [0, 1, 2, 3, 4, 8, 40]:
        h = Hist(p)
        h.new()
        t = rng.choice([0, 7, 1 << 33, U64 - 3])
        for k in range(3):
            for a in acc:
                h.op(a)
            h.reopen()
            for a in acc:
                h.op(a)
            h.push(t + k, rng)
        for a in acc:
            h.op(a)
        if marker_free(p, h.ts):
            out.append((f"tiny-p{p}", h.script()))
    for h0 in _histories(rng, tier, PAYLOADS_SMALL + [16]):
        h = Hist(h0.p, hdr=h0.hdr)
        h.new()
        for a in acc:
            h.op(a)
        # refused appends on an empty series must not show in the accessors
        h.push(5, rng, pl=bytes(h.p + 1))
        for a in acc:
            h.op(a)
        for _ in range(rng.randrange(1, 5)):
            rng.choice([h.seg_dense, h.seg_edge, h.seg_sparse, h.seg_gap])(rng)
            for a in acc:
                h.op(a)
            # refused appends (wrong length with a newer timestamp, stale timestamp) change no accessor
            h.push(h.last() + 500, rng, pl=bytes(h.p + 1))
            h.push(h.last(), rng)
            for a in acc:
                h.op(a)
            if rng.random() < 0.4:
                h.reopen()
                for a in acc:
                    h.op(a)
        out.append(("acc", h.script()))
    # after an index rebuild of a large file
    for p in [0, 3, 4]:
        h = big_sparse(p, lines_for_bytes(p, 2 * 16384 + 300, True), seed=p + 5)
        h.op("close")
        h.op("rm index")
        h.open()
        for a in acc:
            h.op(a)
        out.append((f"rebuild-p{p}", h.script()))
    return out


def all_bytes_battery(ops_after):
    """timestamps whose eight bytes are all different and non-zero, for every section layout:
    a byte-order / slice slip in one layout shows up in the file bytes and in what is read back"""
    out = []
    for p in [0, 1, 2, 3, 4, 5, 8]:
        h = Hist(p)
        h.new()
        for t in [0x0102030405060708, 0x0102030405060709, 0x1112131415161718, 0x8182838485868788,
                  0xF1F2F3F4F5F6F7F8, U64 - 70000, U64]:
            if marker_free(p, [t]):
                h.push(t, pl=bytes((0xA0 + i) % 256 for i in range(p)))
        for o in ops_after:
            h.op(o)
        h.reopen()
        for o in ops_after:
            h.op(o)
        out.append((f"allbytes-p{p}", h.script()))
    return out


def gen_C15(rng, tier):
    out = all_bytes_battery(["files", "read_all s=U e=U"])
    # after a torn-tail repair the next appends must again give the canonical bytes
    out += torn_tail_battery(rng)
    out += index_lag_battery(rng, ["files"])
    out += empty_reopen_battery(["files"])
    # completely dense sections: one line for every time unit, up to and across the largest delta, with
    # reopens on the way - the bytes are those of the canonical encoding (no section before it is needed)
    for p, reopen_at in ((0, None), (2, 40000), (5, 65534)):
        h = Hist(p)
        h.new()
        if reopen_at:
            h.pushrun(10000, 1, reopen_at, 3)
            h.reopen()
            h.pushrun(10000 + reopen_at, 1, MAXD + 3 - reopen_at, 4)
        else:
            h.pushrun(10000, 1, MAXD, 3)              # deltas 0..65533
            h.op("files")
            h.pushrun(10000 + MAXD, 1, 1, 4)          # delta 65534: still fits
            h.op("files")
            h.pushrun(10000 + MAXD + 1, 1, 2, 5)      # 65535: the next section
        h.op("files")
        h.op("close")
        h.op("files")
        out.append((f"dense-full-section-p{p}", h.script()))
    # ... and after an index rebuilt from a data file spanning several read buffers (a section the
    # rebuild misses makes the next append open a section too many)
    out += [x for x in gen_C06(random.Random(rng.randrange(1 << 30)), tier) if x[0].startswith("big")]
    out += chunk_end_battery(tier)
    out += payload_sweep_battery(["files"])
    for h0 in _histories(rng, tier, PAYLOADS_SMALL + [16]):
        h = Hist(h0.p, hdr=h0.hdr)
        h.new()
        for _ in range(rng.randrange(1, 5)):
            rng.choice([h.seg_dense, h.seg_edge, h.seg_sparse, h.seg_gap])(rng)
            h.op("files")
            r = rng.random()
            if r < 0.3:
                h.reopen()
            elif r < 0.5:
                h.op("close")
                h.op("rm index")
                h.open()
            elif r < 0.6:
                h.op("close")
                h.op("cut index 4")
                h.open()
        h.op("files")
        out.append(("canon", h.script()))
    for p in [0, 2, 4]:
        h = big_sparse(p, lines_for_bytes(p, 2 * 16384 + 300, True), seed=p + 9)
        h.op("close")
        h.op("rm index")
        h.open()
        h.pushrun(h.last() + 1, 1, 5, 3)
        h.op("files")
        out.append((f"rebuild-append-p{p}", h.script()))
    return out


def gen_C07(rng, tier):
    out = gen_C15(rng, tier)
    out = [(n, s.replace("files\n", "files\nread_all s=U e=U\n")) for n, s in out]
    return assets_battery(tier) + noncanonical_battery(rng, tier) + out


def torn_tail_battery(rng):
    out = []
    # torn tails: the rule is relative to the last SURVIVING line, also when several sections were
    # lost and the index file was not
    for p in [0, 1, 2, 3, 4, 8]:
        for sparse in (True, False):
            h = Hist(p)
            h.new()
            t = rng.choice([10, 1000])
            tss = []
            for k in range(5):
                tss.append(t)
                h.push(t, rng)
                t += (100000 if sparse else 7) + k
            if not marker_free(p, h.ts):
                continue
            H = header_len(p, 0)
            h.op("close")
            h.op("save 0")
            # byte offsets at which line k ends (canonical layout)
            ends = []
            off = 0
            full = None
            for x in tss:
                if full is None or x - full > MAXD:
                    off += h.ms
                    full = x
                off += h.ls
                ends.append(off)
            for keep in (1, 2, 3):
                for extra in (0, 1, h.ls - 1, h.ls + 1):
                    for ix in (None, "rm index"):
                        h.op("restore 0")
                        h.op(f"cut data {H + ends[keep - 1] + extra}")
                        if ix:
                            h.op(ix)
                        h.open()
                        h.op("range")
                        h.op("len")
                        surv = tss[keep - 1]
                        h.op(f"push ts={surv} pl={hexs(bytes(p))}")            # equal to the survivor: refused
                        h.op("range")
                        h.op(f"push ts={surv + 1} pl={hexs(bytes(p))}")        # newer than the survivor, older than what was lost
                        h.op("range")
                        h.op(f"push ts={surv + 1} pl={hexs(bytes(p))}")        # now stale
                        h.op("read_all s=U e=U")
                        h.op("close")
                        h.op("files")
            out.append((f"torn-{'sparse' if sparse else 'dense'}-p{p}", h.script()))
    return out


def index_lag_battery(rng, ops_after):
    """several sections inside the last few KB of the data file, the index file shorter by one or
    more whole entries (it is not synced with the data), reopen: the series is the same series - the
    accessors, the append rule relative to the last line, the contents"""
    out = []
    for p in [0, 2, 4, 8]:
        h = Hist(p)
        h.new()
        t = rng.choice([10, 1000, 70000])
        firsts = []
        for sec in range(4):
            firsts.append(t)
            for k in range(3 if sec < 3 else 1):
                h.push(t, rng)
                t += 5 + k
            t += 100000 + 17 * sec
        if not marker_free(p, h.ts):
            continue
        last = h.last()
        nsec = 4
        h.op("close")
        h.op("save 0")
        for lost in (1, 2, 3):
            for extra in (0, 5):
                h.op("restore 0")
                h.op(f"cut index {4 + 16 * (nsec - lost) + extra}")
                h.open()
                for a in ops_after:
                    h.op(a)
                h.op(f"push ts={last} pl={hexs(bytes(p))}")                   # equal to the last line: refused
                h.op(f"push ts={firsts[nsec - lost] - 1} pl={hexs(bytes(p))}")  # older than the last section: refused
                h.op(f"push ts={last - 1} pl={hexs(bytes(p))}")
                h.op("range")
                h.op(f"push ts={last + 1} pl={hexs(bytes(p))}")
                for a in ops_after:
                    h.op(a)
                h.op("close")
                h.op("files")
        out.append((f"index-lag-p{p}", h.script()))
    return out


def empty_reopen_battery(ops_after):
    """a series that is OPENED while it holds no line (created and closed, or its only line torn away)
    and then filled: first timestamps whose low bytes could pass for an index-file header length
    ((L + 4) % 16 == 0 with enough sections), seen again after the next reopen"""
    out = []
    for p in [0, 4]:
        for first in [12, 28, 44, 60, 13, 65548, 0]:
            for nsec in (1, 2, 3, 4):
                for torn in (False, True):
                    if torn and (nsec != 2 or first in (13, 0)):
                        continue
                    h = Hist(p)
                    h.new()
                    if torn:
                        h.op(f"push ts=5 pl={hexs(bytes(p))}")
                        h.op("close")
                        h.op(f"cut data {header_len(p, 0) + h.ms + 1}")       # the section survives in part, its line does not
                    else:
                        h.op("close")
                    h.op("open p=any hdr=any caches=- cb=none ext=0")
                    for a in ops_after:
                        h.op(a)
                    t = first
                    for sec in range(nsec):
                        h.op(f"push ts={t} pl={hexs(bytes(p))}")
                        h.op(f"push ts={t + 1} pl={hexs(bytes([sec + 1] * p))}")
                        t += 100000 - first % 7
                    h.op("files")
                    h.op("close")
                    h.op("open p=any hdr=any caches=- cb=none ext=0")
                    for a in ops_after:
                        h.op(a)
                    h.op(f"push ts={t} pl={hexs(bytes(p))}")
                    for a in ops_after:
                        h.op(a)
                    h.op("close")
                    h.op("files")
                    out.append((f"empty-reopen-p{p}-t{first}-s{nsec}" + ("-torn" if torn else ""), h.script()))
    return out


def big_torn_battery(ops_after):
    """torn tails of files LARGER than one scan buffer (not a whole number of buffers), sparse (every line
    its own section) and dense-with-pauses: the index is rebuilt over several buffers; the series must be
    the series of the surviving lines - accessors, and the append rule relative to the last survivor"""
    out = []
    for p, sparse in ((8, True), (0, True), (4, False), (8, False)):
        if sparse:
            count = lines_for_bytes(p, 16384 + 4700, True)
            h = Hist(p)
            h.new()
            h.pushrun(86400, 86400, count, 11)
        else:
            h = Hist(p)
            h.new()
            h.pushrun(1000, 1, 1200, 5)
            h.pushrun(h.last() + 100000, 1, 500, 6)
            h.pushrun(h.last() + 100000, 1, 50, 7)
            h.pushrun(h.last() + 100000, 1, 1, 8)
        H = header_len(p, 0)
        total = H + h.off
        h.op("close")
        h.op("save 0")
        for cut, ix in ((1, None), (1, "rm index"), (h.ls + 1, None), (h.ms + h.ls + 3, "rm index")):
            h.op("restore 0")
            h.op(f"cut data {total - cut}")
            if ix:
                h.op(ix)
            h.open()
            for a in ops_after:
                h.op(a)
            # whatever survived: its last timestamp is at most the last pushed one; equal and older
            # timestamps relative to the SURVIVOR must be refused, which the model decides
            for t in (h.ts[-1], h.ts[-2], h.ts[-3], h.ts[-1] + 1):
                h.op(f"push ts={t} pl={hexs(bytes(p))}")
                h.op("range")
            h.op("read_all s=I:" + str(h.ts[-4]) + " e=U")
            h.op("close")
            h.op("files")
        out.append((f"big-torn-{'sparse' if sparse else 'dense'}-p{p}", h.script()))
    return out


def many_sections_battery(ops_after):
    """more than 4096 (and more than 8192) full-timestamp sections - an index file beyond 64 KiB / 128 KiB:
    plain close and reopen, the accessors, the append rule relative to the last line, a bounded read at the end"""
    out = []
    for p, count in ((4, 4200), (0, 8300)):
        h = Hist(p)
        h.new()
        h.pushrun(300000, 300000, count, 9)
        h.reopen()
        for a in ops_after:
            h.op(a)
        last = h.last()
        for t in (last, h.ts[-100], h.ts[4090], last + 1):
            h.op(f"push ts={t} pl={hexs(bytes(p))}")
            h.op("range")
        h.op(f"read_all s=I:{h.ts[-3]} e=U")
        h.op(f"read_all s=I:{h.ts[4094]} e=I:{h.ts[4098]}")
        h.op("close")
        h.op("open p=any hdr=any caches=- cb=none ext=0")
        for a in ops_after:
            h.op(a)
        out.append((f"many-sections-p{p}-{count}", h.script()))
    return out


def far_apart_battery():
    """appends whose timestamps lie 2^63 or more apart (a 'newer' test done in signed arithmetic breaks there):
    far newer lines are accepted, far older ones refused without touching range / files, also after a reopen"""
    out = []
    H63 = 1 << 63
    for p in (0, 4):
        for base in (0, 1001, 70000):
            h = Hist(p)
            h.new()
            if base:
                h.push(5, pl=bytes(p))
            h.push(base + 1, pl=bytes([1] * p))
            h.push(base + 1 + H63, pl=bytes([2] * p))            # exactly 2^63 later: newer
            h.op("range")
            h.op(f"push ts={base + 2} pl={hexs(bytes([3] * p))}")   # 2^63 - 1 older: refused
            h.op("push ts=5 pl=" + hexs(bytes([3] * p)))
            h.op("range")
            h.op("files")
            h.push(U64 - 1, pl=bytes([4] * p))
            h.reopen()
            h.op("push ts=5 pl=" + hexs(bytes([5] * p)))           # far older after a reopen
            h.op(f"push ts={H63 - 2} pl={hexs(bytes([5] * p))}")
            h.op("range")
            h.op("files")
            h.push(U64, pl=bytes([6] * p))
            h.op("range")
            h.op("len")
            out.append((f"far-apart-{base}-p{p}", h.script()))
    return out


def gen_C03(rng, tier):
    out = refusals_with_caches_battery(rng, tier, ["files", "len", "range"]) + far_apart_battery()
    for h0 in _histories(rng, tier, PAYLOADS_SMALL):
        h = Hist(h0.p, hdr=h0.hdr)
        h.new()
        h.push(5, rng, pl=b"\x00" * (h.p + 1))     # wrong length on an empty series
        for _ in range(rng.randrange(2, 6)):
            rng.choice([h.seg_dense, h.seg_edge, h.seg_sparse, h.seg_gap])(rng)
            last = h.last()
            bad = rng.choice([last, max(last - 1, 0), 0, last - min(last, MAXD + 5), h.full if h.full is not None else 0])
            h.op("files")
            kind = rng.random()
            if kind < 0.6:
                h.push(bad, rng)
            elif kind < 0.8:
                h.push(last + 1, rng, pl=bytes(h.p + rng.choice([1, 2])))
            elif h.p > 0:
                h.push(last + 1, rng, pl=bytes(h.p - 1))
            else:
                h.push(bad, rng)
            # refusals in a row: a refused append must not make the next stale one acceptable
            last = h.last()
            for bad2 in (last, max(last - 1, 0), h.full if h.full is not None else 0, (last + (h.full or 0)) // 2):
                h.push(bad2, rng)
            for a in ["files", "range", "len", "read_all s=U e=U"]:
                h.op(a)
            if rng.random() < 0.4:
                h.reopen()
                h.push(h.last(), rng)
                h.push(h.last(), rng)
                h.op("files")
        out.append(("refuse", h.script()))
    out += torn_tail_battery(rng)
    out += index_lag_battery(rng, ["range", "len", "last_line"])
    out += big_torn_battery(["range", "len", "last_line"])
    out += many_sections_battery(["range", "len", "last_line"])
    out += stale_bucket_battery(tier)         # appends after a tear must be accepted with caches too
    return out


def gen_C04(rng, tier):
    out = marker_word_battery(["files", "read_all s=U e=U", "len", "range"])
    out += payload_marker_battery(["files", "read_all s=U e=U", "len", "range", "last_line"])
    out += mixed_session_battery(rng, ["files", "len", "range"])
    out += delta_bytes_battery(["files", "read_all s=U e=U", "len", "range"])
    out += empty_reopen_battery(["files", "len", "range", "read_all s=U e=U"])
    # the largest user headers create accepts (stored header length 65535 - d): reopen, accessors, append, reopen
    for p in (0, 4):
        for d in range(0, 7):
            hd = bytes((i * 7 + d) % 251 for i in range(max_user_header(p) - d))
            h = Hist(p, hdr=hd)
            h.new()
            h.push(5, pl=bytes(p))
            h.push(9, pl=bytes([7] * p))
            h.op("close")
            h.op("files")
            h.open()
            h.op("len")
            h.op("range")
            h.op("read_all s=U e=U")
            h.op(f"push ts=12 pl={hexs(bytes([9] * p))}")
            h.ts.append(12)
            h.op("close")
            h.open(hdr=hd, p=p)
            h.op("len")
            h.op("close")
            h.op("files")
            out.append((f"largest-header-{d}-p{p}", h.script()))
    # series whose NAME contains dots: create, append, close, reopen under the same name - every file the
    # create made must be the file the open looks for
    for nm in ("s.v2", "s.4", "s.2024-05"):
        for p in (0, 4):
            h = Hist(p)
            h.op(f"new p={p} hdr=- caches=- name={nm}")
            h.push(5, pl=bytes(p))
            h.push(9, pl=bytes([7] * p))
            h.push(9 + MAXD + 3, pl=bytes([8] * p))
            h.op("files")
            h.op("close")
            h.op("files")
            for _ in range(2):
                h.op(f"open p=any hdr=any caches=- cb=none ext=0 name={nm}")
                h.op("len")
                h.op("range")
                h.op("read_all s=U e=U")
                h.op(f"push ts={h.last() + 3} pl={hexs(bytes([9] * p))}")
                h.ts.append(h.last() + 3)
                h.op("close")
                h.op("files")
            out.append((f"dotted-name-{nm}-p{p}", h.script()))
    # the same with downsample caches configured: reopening at every fill level of a bucket, with time
    # gaps inside the unfinished bucket, must succeed and preserve everything
    for B in (3, 10):
        for p in (4, 0):
            h = Hist(p, caches=[B])
            h.new()
            t = 1000
            for i in range(3 * B + 2):
                h.push(t, rng)
                t += rng.choice([7, 7, MAXD + 3])
                h.op("files")
                h.reopen()
                h.op("files")
                h.op("len")
                h.op("range")
            if marker_free(p, h.ts):
                out.append((f"reopen-with-caches-B{B}-p{p}", h.script()))
    obs = ["read_all s=U e=U", "len", "range", "last_line", "payload_size", "is_empty"]
    for h0 in _histories(rng, tier, PAYLOADS_ALL):
        h = Hist(h0.p, hdr=h0.hdr)
        h.new()
        if rng.random() < 0.2:
            h.reopen(hdr=h.hdr, p=h.p)
            for o in obs:
                h.op(o)
        for _ in range(rng.randrange(1, 5)):
            rng.choice([h.seg_dense, h.seg_edge, h.seg_sparse, h.seg_gap])(rng)
            h.op("files")
            h.reopen(hdr=h.hdr if rng.random() < 0.5 else None, p=h.p if rng.random() < 0.5 else None, ext=rng.choice([0, 1]))
            h.op("files")
            for o in obs:
                h.op(o)
        out.append(("reopen", h.script()))
    # large lines (window arithmetic of the last-full-timestamp search)
    big = [4998, 5000, 9998] if tier == "quick" else [4998, 5000, 6000, 9998, 9999, 10000, 16383, 20000]
    for p in big:
        h = Hist(p)
        h.new()
        h.pushrun(1, 1, 3, 5)
        h.reopen()
        for o in ["len", "range"]:
            h.op(o)
        h.pushrun(10, 100000, 2, 5)
        h.reopen()
        h.op("len")
        out.append((f"bigline-p{p}", h.script()))
    return out


GENERATORS = {
    "C01": gen_C01, "C02": gen_C02, "C03": gen_C03, "C04": gen_C04, "C07": gen_C07,
    "C12": gen_C12, "C13": gen_C13, "C14": gen_C14, "C15": gen_C15,
}


# ====================================================================== file geometry

def _const_len(name):
    import os, re
    path = os.path.join(os.path.dirname(os.path.abspath(__file__)), "..", "lean", "BS", "Generated", "Consts.lean")
    txt = open(path).read()
    m = re.search(r"def %s : List UInt8 := \[([^\]]*)\]" % name, txt)
    return len([x for x in m.group(1).split(",") if x.strip()]) if m else 0


def header_len(p, user_len):
    text = _const_len("textPre") + 1 + _const_len("textMid") + len(str(p)) + _const_len("textPost")
    return 4 + 4 + text + user_len


def max_user_header(p):
    text = _const_len("textPre") + 1 + _const_len("textMid") + len(str(p)) + _const_len("textPost")
    return 65535 - 4 - text


def marker_free(p, ts_list):
    """TailClean in the generator: for payload < 4 no raw timestamp line of a section may
    start with FF FF (known finding marker-tail, DESIGN.md §9)"""
    if p >= 4:
        return True
    for t in ts_list:
        b = t.to_bytes(8, "little")
        ls = p + 2
        k = min(p, 4)
        raw = b[2 * k:]
        for i in range(0, len(raw), ls):
            if raw[i:i + 2] == b"\xff\xff":
                return False
    return True


def marker_word_battery(ops_after):
    """INSIDE the region of the known finding (judged in region mode): payload sizes 0..3, the last
    section's full timestamp has one 16-bit word equal to FFFF, the section holds 1..6 lines; close,
    reopen, observe.  On the pinned tree model and code agree here (and mostly meet the
    specification); code that repairs more, or less, than the model shows up as a divergence."""
    out = []
    for p in [0, 1, 2, 3]:
        for word in [1, 2, 3]:
            base = 0x1234 | (0xFFFF << (16 * word)) | (0x0101 << (16 * ((word % 3) + 1)) if word != 3 else 0x0101 << 16)
            base &= U64
            h = Hist(p)
            h.new()
            h.push(1000, pl=bytes(p))
            for nlines in range(1, 7):
                t0 = base + nlines * 100000
                hh = Hist(p)
                hh.new()
                hh.push(1000, pl=bytes(p))
                for k in range(nlines):
                    hh.push(t0 + k, pl=bytes([k + 1] * p))
                for o in ops_after:
                    hh.op(o)
                hh.reopen()
                for o in ops_after:
                    hh.op(o)
                hh.push(t0 + 50, pl=bytes([9] * p))
                for o in ops_after:
                    hh.op(o)
                out.append((f"marker-word-p{p}-w{word}-n{nlines}", hh.script()))
    return out


def reader_buffer_end_battery(tier, ops_after):
    """READ path: a section header starts d = 0..7 lines before the end of the first, and of the second,
    16 KiB read buffer (counted from where a full read starts), and at least one more full buffer
    follows; every section layout.  The carried-over part of a cut header is at most 5 lines."""
    out = []
    for p in ([0, 1, 4] if tier == "quick" else [0, 1, 2, 3, 4, 8]):
        ls = p + 2
        cl = -(-16384 // ls)
        for nb in (1, 2):
            h = Hist(p)
            h.new()
            h.op("close")
            h.op("save 0")
            for d in range(0, 8):
                h.op("restore 0")
                h.ts, h.full, h.off, h.sections = [], None, 0, []
                h.open()
                first = cl - d if nb == 1 else cl - d          # lines before the header inside the buffer
                if nb == 2:
                    # one full buffer of lines first (same section), then the header near the end of buffer 2
                    h.pushrun(1000, 1, cl + (cl - d) - 0, 3)
                    # the header sits after cl + (cl - d) lines; subtract what the first buffer's worth shifted
                else:
                    h.pushrun(1000, 1, first, 3)
                h.pushrun(h.last() + 100000, 1, cl + 40, 4)
                for o in ops_after:
                    h.op(o)
                h.op("close")
            if marker_free(p, [1000, 1000 + 2 * cl + 100000 + cl + 40]):
                out.append((f"reader-buffer-end-p{p}-b{nb}", h.script()))
    return out


def file_header_len(p, user=b""):
    c = _gen_consts()
    return 4 + 4 + len(c["textPre"]) + 1 + len(c["textMid"]) + len(str(p)) + len(c["textPost"]) + len(user)


def cursor_alias_battery(tier, targets):
    """Hidden state in the file cursor: a query must not depend on where the previous one left the file
    handle.  Positions inside the data region and raw file positions differ by the length of the file
    header, so the layout is chosen such that a later read starts exactly one file-header length after
    the point where an earlier query stopped (header padded to a multiple of the line size; the middle
    section sized so that header + lines + next header = file-header length, give or take 3 lines)."""
    out = []
    for p in ([8, 4] if tier == "quick" else [8, 4, 0, 1, 2, 3, 16]):
        ls = p + 2
        user = b""
        while file_header_len(p, user) % ls:
            user += b"x"
        HL = file_header_len(p, user) // ls
        m0 = HL - 2 * lpm(p)
        if m0 < 4:
            continue
        for dm in range(-3, 4):
            h = Hist(p, hdr=user)
            h.new()
            h.pushrun(1000, 1, 2 * HL + 7, 3)
            T1 = h.last() + 100000
            h.pushrun(T1, 1, m0 + dm, 4)
            T2 = h.last() + 100000
            h.pushrun(T2, 1, HL + 9, 5)
            if not marker_free(p, [1000, T1, T2, h.last()]):
                continue
            prevs = [f"n_lines s=I:1003 e=I:{T1 - 50}", f"read_all s=U e=E:{T1}", f"read_all s=I:1005 e=I:{1000 + HL}",
                     f"n_lines s=I:1003 e=E:{T1}", f"read_first_n n=3 s=I:{T1} e=U", "last_line",
                     f"read_all s=I:{T1} e=E:{T2}"]
            for reopen in (False, True):
                if reopen:
                    h.reopen()
                for pr in prevs:
                    for tg in targets(T1, T2, h.last()):
                        h.op(pr)
                        h.op(tg)
            out.append((f"cursor-alias-p{p}-dm{dm}", h.script()))
    return out


def buffer_end_start_sweep(tier, fmt, B=None):
    """Bounded reads whose START is chosen so that a section header begins d = 0..7 lines before the end
    of the first / of the second 16 KiB read buffer counted from the read's own start (the buffers are
    aligned to where a read starts, not to the file).  With B: the same alignment inside the cache of
    bucket size B, which the resampling read goes through (the model appends in quadratic time when
    caches are attached, so these files are kept just long enough)."""
    out = []
    if B:
        ps, nbs = ([1, 4], (1,)) if tier == "quick" else ([0, 1, 2, 3, 4, 8], (1, 2))
    else:
        ps, nbs = ([0, 1, 4] if tier == "quick" else [0, 1, 2, 3, 4, 8]), (1, 2)
    for p in ps:
        ls = p + 2
        cl = -(-16384 // ls)
        k = B or 1
        h = Hist(p, caches=[B] if B else [])
        h.new()
        H = max(nbs) * cl + 50               # lines of the level that is read in front of the header
        h.pushrun(1000, 1, k * H, 3)
        h.pushrun(h.last() + 100000, 1, k * (40 if B else cl + 40), 4)
        if not marker_free(p, [1000, h.last()]):
            continue
        for nb in nbs:
            for d in range(0, 8):
                j0 = H - (nb * cl - d)
                for o in fmt(1000 + k * j0):
                    h.op(o)
        out.append((f"buffer-end-start-sweep-p{p}" + (f"-B{B}" if B else ""), h.script()))
    return out


def payload_sweep_battery(ops_after):
    """EVERY payload size from 0 to 300 and a few larger ones (a bug tied to one particular size, or
    to a residue of the size modulo some block length, needs exactly that size): two sections, reopen"""
    out = []
    sizes = list(range(0, 301)) + [511, 512, 513, 1023, 1024, 1027, 1028, 1029, 4099, 4100, 16382, 16383, 16384, 16385,
                                        32766, 32767, 65533, 65534, 65535, 65536, 70000, 100000, 131071]   # lines longer than any fixed chunk
    for p in sizes:
        h = Hist(p)
        h.new()
        pl1 = bytes((i * 5 + p) % 251 for i in range(p))
        h.push(1700000000, pl=pl1)
        h.push(1700000007, pl=bytes(reversed(pl1)))
        h.push(1700000007 + MAXD + 9, pl=pl1)
        for o in ops_after:
            h.op(o)
        h.reopen()
        for o in ops_after:
            h.op(o)
        out.append((f"payload-sweep-{p}", h.script()))
    return out


def mixed_session_battery(rng, final_ops):
    """reopen, then every kind of partial query interleaved with appends (same section and new
    section), on files larger than one read buffer: state a query leaves behind (file cursor, remembered
    answers) must not leak into the next append or read"""
    out = []
    for p in [0, 4, 8]:
        ls = p + 2
        n1 = 16384 // ls + 300
        h = Hist(p)
        h.new()
        h.pushrun(1000, 1, n1, 3)
        h.pushrun(h.last() + 100000, 2, 50, 4)
        h.reopen()
        queries = [lambda: f"read_all s=I:{h.ts[10]} e=I:{h.ts[20]}",
                   lambda: "read_first_n n=3 s=U e=U",
                   lambda: f"n_lines s=I:{h.ts[5]} e=I:{h.ts[9]}",
                   lambda: f"read_n n=4 s=I:{h.ts[100]} e=I:{h.ts[400]}",
                   lambda: f"read_first_n n=2 s=E:{h.ts[n1 - 3]} e=U",
                   lambda: "last_line",
                   lambda: f"read_all s=U e=E:{h.ts[3]}"]
        for k, q in enumerate(queries):
            h.op(q())
            if k % 2 == 0:
                h.push(h.last() + 1, rng)                    # same section
            else:
                h.push(h.last() + 100000 + k, rng)           # opens a section
            for o in final_ops:
                h.op(o)
        h.reopen()
        for o in final_ops:
            h.op(o)
        out.append((f"mixed-session-p{p}", h.script()))
    return out


def payload_marker_battery(ops_after):
    """FF FF inside the PAYLOAD of the last lines, at every byte offset, same offset in consecutive
    lines or not: an intact file must survive a reopen byte for byte (tail checks that are not
    line-aligned would take payload bytes for section markers)"""
    out = []
    for p in [2, 3, 4, 5, 8, 12]:
        h = Hist(p)
        h.new()
        t = 1700000000
        for off in range(0, max(p - 1, 1)):
            for pattern in ("both", "last", "prev"):
                def pl(mark):
                    b = bytearray((i * 7 + off) % 250 for i in range(p))
                    if mark and p >= 2:
                        b[off:off + 2] = b"\xff\xff"
                    return bytes(b)
                h.push(t, pl=pl(False)); t += 10
                h.push(t, pl=pl(pattern in ("both", "prev"))); t += 10
                h.push(t, pl=pl(pattern in ("both", "last"))); t += 10
                for o in ops_after:
                    h.op(o)
                h.reopen()
                for o in ops_after:
                    h.op(o)
        out.append((f"payload-marker-p{p}", h.script()))
    return out


def script_tail_clean(script):
    """generator-side TailClean for a whole script: with payload < 4, no timestamp that any push
    of the script attempts, and no bucket mean a configured cache would store, may have a raw
    timestamp line starting with FF FF (the recorded known finding marker-tail lives there);
    scripts that never reopen anything are unaffected by the finding and pass"""
    p = None
    caches = set()
    attempted = []
    accepted = []
    reopens = False
    for line in script.splitlines():
        f = line.split()
        if not f:
            continue
        kv = dict(x.split("=", 1) for x in f[1:] if "=" in x)
        if f[0] == "new":
            p = int(kv["p"])
        if f[0] in ("new", "open") and kv.get("caches", "-") != "-":
            caches.update(int(b) for b in kv["caches"].split(","))
        if f[0] == "open":
            reopens = True
        if f[0] == "push":
            t = int(kv["ts"])
            attempted.append(t)
            if not accepted or t > accepted[-1]:
                accepted.append(t)
        if f[0] == "pushrun":
            t, step, cnt = int(kv["ts0"]), int(kv["step"]), int(kv["count"])
            for _ in range(cnt):
                if t > U64:
                    break
                attempted.append(t)
                if not accepted or t > accepted[-1]:
                    accepted.append(t)
                t += step
    if p is None or p >= 4 or not reopens:
        return True
    if not marker_free(p, attempted):
        return False
    for B in caches:
        if B <= 0:
            continue
        means = [sum(accepted[i:i + B]) // B for i in range(0, len(accepted) - B + 1, B)]
        if not marker_free(p, means):
            return False
    return True


# ====================================================================== C05 / C06

def _after_open_obs(h, rng, appends=True):
    h.op("read_all s=U e=U")
    h.op("len")
    h.op("range")
    h.op("last_line")
    if appends:
        last = h.last() if h.ts else 0
        h.op(f"pushrun ts0={last + 1 + rng.choice([0, 3, MAXD, MAXD + 1])} step={rng.choice([1, 5, 70000])} count=3 seed={rng.randrange(1000)}")
        h.op("read_all s=U e=U")
        h.op("close")
        h.op("files")
        h.open()
        h.op("read_all s=U e=U")
    h.op("close")


def delta_bytes_battery(ops_after):
    """the LAST lines of the file carry 16-bit times with an FF byte (255, 511, 0xFF00, 0xFEFF, 65279, the
    largest 65534): the file is reopened intact and after a cut at every byte of its last two lines;
    nothing of a complete line may be taken for (part of) a meta section"""
    out = []
    deltas = [255, 511, 767, 0xFF00, 0xFF01, 0xFEFF, 0x00FF + 256 * 7, 65534, 65279]
    for p in [0, 1, 3, 4, 9]:
        for i, d in enumerate(deltas):
            d2 = deltas[(i + 3) % len(deltas)]
            h = Hist(p)
            h.new()
            base = [10, 1 << 33][i % 2]
            h.push(base, pl=bytes([1] * p))
            lo, hi = sorted({min(d, d2), max(d, d2)}) if d != d2 else (d - 1, d)
            h.push(base + lo, pl=bytes([2] * p))
            h.push(base + hi, pl=bytes([3] * p))
            if not marker_free(p, h.ts):
                continue
            H = header_len(p, 0)
            total = H + h.off
            h.op("files")
            h.op("close")
            h.op("save 0")
            for cut in [None] + list(range(total - 2 * h.ls, total)):
                h.op("restore 0")
                if cut is not None:
                    h.op(f"cut data {cut}")
                h.op("open p=any hdr=any caches=- cb=none ext=0")
                for a in ops_after:
                    h.op(a)
                h.op("close")
                h.op("files")
            out.append((f"delta-bytes-p{p}-{lo:x}-{hi:x}", h.script()))
    return out


def gen_C05(rng, tier):
    out = marker_word_battery(["files", "read_all s=U e=U", "len"])
    out += delta_bytes_battery(["read_all s=U e=U", "len", "range", "last_line"])
    # index lagging by its last entry while the last section header straddles a search window
    out += window_sweep_battery(tier, [8] if tier == "quick" else [8, 4, 0])
    # recovered files must answer bounded reads exactly too (a rebuilt index with wrong offsets)
    out += rebuilt_index_reads_battery(tier, ["read_all s={s} e={e}"])
    nh = 10 if tier == "quick" else 80
    pls = [0, 1, 2, 3, 4, 5, 8, 204]
    for i in range(nh):
        p = pls[i % len(pls)]
        h = Hist(p, hdr=bytes(rng.randrange(256) for _ in range(rng.choice([0, 3]))))
        h.new()
        # short history with 2-4 sections
        h.random_history(rng, rng.randrange(1, 4))
        if len(h.ts) > 60:
            continue
        H = header_len(p, len(h.hdr))
        total = H + h.off
        idx_total = 4 + 16 * len(h.sections)
        h.op("close")
        h.op("save 0")
        cuts = list(range(H, total + 1))
        if tier == "quick" and len(cuts) > 24:
            # all cut points inside the last two sections' tails, plus a sample
            tail = [c for c in cuts if c >= total - 3 * (h.ms + h.ls)]
            cuts = sorted(set(tail[-16:] + rng.sample(cuts, 8)))
        elif len(cuts) > 150:
            cuts = sorted(set(cuts[-100:] + rng.sample(cuts, 50)))
        for c in cuts:
            states = ["intact", "rm", "cut16", "cutmid", "lag", "short", "stalepart"]
            if tier == "quick":
                states = rng.sample(states, 2)
            for stt in states:
                h.op("restore 0")
                h.op(f"cut data {c}")
                if stt == "rm":
                    h.op("rm index")
                elif stt == "cut16" and len(h.sections) > 1:
                    h.op(f"cut index {4 + 16 * rng.randrange(0, len(h.sections))}")
                elif stt == "cutmid":
                    h.op(f"cut index {rng.randrange(4, idx_total + 1)}")
                elif stt == "lag" and len(h.sections) > 1:
                    h.op(f"cut index {idx_total - 16}")
                elif stt == "short":
                    h.op(f"cut index {rng.choice([0, 1, 2, 3])}")
                elif stt == "stalepart":
                    h.op("put part 00000a0a")
                    if rng.random() < 0.5:
                        h.op("rm index")
                hh = Hist(p)
                hh.ts = [t for t in h.ts]
                hh.ops = h.ops
                # what survives is decided by the spec; the generator only needs a later timestamp
                h.open()
                h.op("read_all s=U e=U")
                h.op("len")
                h.op("range")
                h.op(f"pushrun ts0={h.last() + 1 + rng.choice([0, MAXD + 1])} step=7 count=2 seed=5")
                h.op("read_all s=U e=U")
                h.op("close")
                h.op("files")
        if marker_free(p, h.ts):
            out.append((f"cuts-p{p}", h.script()))
    # structural cut points: at and around every line boundary of the last two section headers,
    # for every section layout and for payloads longer than a timestamp
    for p in [0, 1, 2, 3, 4, 5, 8, 9, 12, 40]:
        h = Hist(p)
        h.new()
        t = 1000
        for k in range(3):
            h.pushrun(t, 3, 2, 77 + k)
            t = h.last() + MAXD + 5
        if not marker_free(p, h.ts):
            continue
        H = header_len(p, 0)
        h.op("close")
        h.op("save 0")
        cuts = set()
        for (_, so) in h.sections[-2:]:
            for k in range(0, lpm(p) + 2):
                for dlt in (-1, 0, 1):
                    c = so + k * h.ls + dlt
                    if 0 <= c <= h.off:
                        cuts.add(H + c)
        for c in sorted(cuts):
            for ix in ([None, "rm index"] if tier == "quick" else [None, "rm index", "cut index 20", "cut index 36"]):
                h.op("restore 0")
                h.op(f"cut data {c}")
                if ix:
                    h.op(ix)
                h.open()
                h.op("read_all s=U e=U")
                h.op("len")
                h.op("range")
                h.op("close")
                h.op("files")
        out.append((f"structcut-p{p}", h.script()))
    # crash-repair-append chains
    for i in range(4 if tier == "quick" else 30):
        p = rng.choice(pls)
        h = Hist(p)
        h.new()
        h.seg_dense(rng, count=5)
        H = header_len(p, 0)
        ok = True
        for _ in range(5):
            h.op("close")
            # the generator does not know the file length after repair; cut relative to a listing is
            # not possible offline, so cut at an absolute offset inside the canonical encoding
            total = H + h.off
            c = rng.randrange(max(H, total - 2 * (h.ms + h.ls)), total + 1)
            h.op(f"cut data {c}")
            if rng.random() < 0.5:
                h.op(rng.choice(["rm index", "cut index 4", "cut index 21"]))
            h.open()
            h.op("read_all s=U e=U")
            h.op("len")
            # re-sync the generator's picture: it cannot, so start a fresh run far ahead
            nxt = (h.last() or 0) + 200000
            h2 = Hist(p)
            h.op(f"pushrun ts0={nxt} step=3 count=4 seed=9")
            h.ts.append(nxt + 9)
            h.full = None
            h.op("read_all s=U e=U")
            ok = False
            break
        out.append((f"chain-p{p}", h.script()))
    # large files: rebuild path crosses read buffers
    for p in ([0, 4] if tier == "quick" else [0, 1, 2, 3, 4, 8]):
        h = big_sparse(p, lines_for_bytes(p, 3 * 16384 + 200, True), seed=p + 21)
        H = header_len(p, 0)
        total = H + h.off
        h.op("close")
        h.op("save 0")
        for c in [total - 1, total - h.ls, total - h.ls - 1, total - h.ms - h.ls, total - h.ms - h.ls + 1 + rng.randrange(h.ms)]:
            for ix in ["rm index", f"cut index {4 + 16 * (len(h.sections) // 2)}", None]:
                h.op("restore 0")
                h.op(f"cut data {c}")
                if ix:
                    h.op(ix)
                h.open()
                h.op("len")
                h.op("range")
                h.op("read_all s=U e=U")
                h.op("close")
                h.op("files")
        out.append((f"bigcut-p{p}", h.script()))
    return out


def chunk_end_battery(tier):
    """the LAST section header starts on each of the lines around the end of a 16 KiB read buffer of
    the index rebuild (and of the reader); the index is rebuilt (removed / cut), then lines are
    appended close to the last section: a section the rebuild misses shows in the index bytes and,
    after the append, in the data bytes (one section too many)"""
    out = []
    for p in ([0, 4, 6] if tier == "quick" else [0, 1, 2, 3, 4, 6, 8]):
        ls = p + 2
        cl = -(-16384 // ls)
        for k in (1, 2):
            h = Hist(p)
            h.new()
            base = k * cl - 1 - lpm(p)
            h.op("close")
            h.op("save 0")
            for d in (-2, -1, 0, 1, 2):
                for ix in ("rm index", "cut index 4", None):
                    h.op("restore 0")
                    h.ts, h.full, h.off, h.sections = [], None, 0, []
                    h.open()
                    h.pushrun(1000, 1, base + d, 3)
                    h.pushrun(h.last() + 100000, 1, 3, 4)
                    h.op("close")
                    if ix:
                        h.op(ix)
                    h.open()
                    h.op("files")
                    h.op("len")
                    h.pushrun(h.last() + 20, 1, 2, 5)
                    h.op("read_all s=I:" + str(h.last() - 30) + " e=U")
                    h.op("close")
                    h.op("files")
            if marker_free(p, [1000, 1000 + base + 100002]):
                out.append((f"chunk-end-p{p}-k{k}", h.script()))
    return out


def rebuilt_index_reads_battery(tier, ops_fmt):
    """files spanning several 16 KiB buffers in which every line opens a section (so sections are cut by
    every buffer boundary), the index lost / cut / one entry behind, then BOUNDED reads on and around
    section starts all over the file: an index rebuilt with wrong byte offsets leaves full reads,
    len and range intact and only shows here"""
    out = []
    for p in ([0, 4, 8] if tier == "quick" else [0, 1, 2, 3, 4, 8]):
        h = big_sparse(p, lines_for_bytes(p, 3 * 16384 + 700, True), seed=p + 61)
        secs = [t for t, _ in h.sections]
        picks = sorted(set([secs[1], secs[len(secs) // 3], secs[len(secs) // 2], secs[2 * len(secs) // 3], secs[-2], secs[-1]]))
        H = header_len(p, 0)
        h.op("close")
        h.op("save 0")
        for ix in ("rm index", f"cut index {4 + 16 * (len(secs) // 2) + 5}", f"cut index {4 + 16 * (len(secs) - 1)}",
                   f"cut data {H + h.off - 1}"):
            h.op("restore 0")
            h.op(ix)
            if ix.startswith("cut data"):
                h.op("rm index")
            h.open()
            for t in picks:
                if ix.startswith("cut data") and t == secs[-1]:
                    continue
                for o in ops_fmt:
                    h.op(o.format(s=f"I:{t}", e=f"I:{t}"))
                    h.op(o.format(s=f"I:{t}", e="U") if t >= secs[-2] else o.format(s=f"I:{t}", e=f"I:{t + 70000}"))
                    h.op(o.format(s=f"E:{t - 70000}", e=f"E:{t + 1}"))
            h.op("close")
        out.append((f"rebuilt-index-reads-p{p}", h.script()))
    return out


def window_sweep_battery(tier, ps):
    out = []
    # directed: the backwards window scan for the last full timestamp.  The last section is
    # placed at every line offset around k windows before the end of the data, the index is
    # intact / lags by its last entry / is missing.
    WINDOW = 10000
    for p in ps:
        ls = p + 2
        wl = -(-WINDOW // ls)            # lines per window (window is rounded up to whole lines)
        sweep = [wl + d for d in range(-3, 4)] + ([2 * wl + d for d in range(-3, 4)] if tier != "quick" or p == 8 else [])
        h = Hist(p)
        h.new()
        h.pushrun(5, 1, wl + wl // 2, 3)
        h.op("close")
        h.op("save 0")
        base_ts = list(h.ts)
        base_state = (h.full, h.off, list(h.sections))
        for n in sweep:
            for ix in ["lag", "rm", "intact"]:
                h.op("restore 0")
                h.ts = list(base_ts)
                h.full, h.off, h.sections = base_state[0], base_state[1], list(base_state[2])
                h.open()
                h.pushrun(h.last() + 100000, 1, n, 7)
                h.op("close")
                if ix == "lag":
                    h.op(f"cut index {4 + 16 * (len(h.sections) - 1)}")
                elif ix == "rm":
                    h.op("rm index")
                h.open()
                h.op("files")
                h.op("len")
                h.op(f"read_all s=I:{h.last() - 2} e=U")
                h.pushrun(h.last() + 1, 1, 2, 9)
                h.op("close")
                h.op("files")
        out.append((f"window-sweep-p{p}", h.script()))
    return out


def marker_words_inside_battery(ops_after):
    """a section in the MIDDLE of the file whose timestamp has FF FF words in the lines that carry the
    rest of the full time (payload 0..3); the sections after it keep the tail clean, so the tail repair
    has nothing to do with it - but everything that scans the data for sections (index rebuild, the
    backwards last-timestamp search) walks over these lines.  Index removed / cut / lagging, reopen"""
    out = []
    words = {
        0: [0x18F_FFFF_FFFF, 0xFFFF_FFFF, 0x1_FFFF_FFFF_0005, 0xFFFF_FFFF_0000_0007, 0xFFFF_FFFF_FFFF_0000],
        1: [0xFFFF_0000 + 3, 0xFFFF_00FF_FF00_0002, 0x12FF_FF34_FFFF_0000 + 9],
        2: [0xFFFF_0000_0000 + 11, 0x0012_FFFF_0000_0000 + 5],
        3: [(0xFFFF << 48) + 77, (0xFFFF << 48) + 0x0000_1234_5678],
    }
    for p, ws in words.items():
        for w in ws:
            for tail_lines in (1, 3):
                h = Hist(p)
                h.new()
                t0 = max(w - 400000, 5) if w > 500000 else 5
                for t in (t0, t0 + 1):
                    h.push(t, pl=bytes([1] * p))
                h.push(w, pl=bytes([2] * p))
                h.push(w + 1, pl=bytes([3] * p))
                for k in range(2):                              # two clean sections behind it
                    base = w + 200000 * (k + 1)
                    if base + 10 >= U64:
                        break
                    for j in range(tail_lines):
                        h.push(base + j, pl=bytes([4 + k] * p))
                if h.last() <= w + 1:
                    continue
                h.op("files")
                h.op("close")
                h.op("save 0")
                nsec = len(h.sections)
                for dmg in ("rm index", f"cut index {4 + 16 * (nsec - 1)}", f"cut index {4 + 16 * (nsec - 2) + 7}", None):
                    h.op("restore 0")
                    if dmg:
                        h.op(dmg)
                    h.open()
                    for a in ops_after:
                        h.op(a)
                    last = h.last()
                    h.op(f"push ts={last + 1} pl={hexs(bytes(p))}")
                    h.op(f"push ts={last + 100000} pl={hexs(bytes(p))}")
                    for a in ops_after:
                        h.op(a)
                    h.op("close")
                    h.op("files")
                out.append((f"marker-inside-p{p}-{w:x}-t{tail_lines}", h.script()))
    return out


def index_file_bytes(sections):
    """the sidecar index as documented: 4 header bytes (u16 length 0, two newlines), then per section
    the timestamp and the byte offset as little-endian u64"""
    c = _gen_consts()
    out = bytearray((0).to_bytes(2, "little") + c["lineEnds"])
    for ts, off in sections:
        out += ts.to_bytes(8, "little") + off.to_bytes(8, "little")
    return bytes(out)


def index_ahead_battery(ops_after):
    """the index got (part of) an entry for a section that never reached the data file (a crash inside
    Index::update, which writes the timestamp and the offset separately): every real entry is there and
    matches the data, 8 / 12 / 16 / 24 stray bytes follow.  Open, look, append a new section (also the very
    timestamp of the lost one), reopen"""
    out = []
    for p in [0, 4]:
        for stray in (8, 12, 16, 24):
            h = Hist(p)
            h.new()
            for base in (1000, 200000):
                for k in range(3):
                    h.push(base + k, pl=bytes([k + 1] * p))
            lost_ts = 400000
            lost = lost_ts.to_bytes(8, "little") + h.off.to_bytes(8, "little") + (lost_ts + 1).to_bytes(8, "little") + bytes(8)
            idx = index_file_bytes(h.sections) + lost[:stray]
            h.op("close")
            h.op("save 0")
            for retry_ts in (lost_ts, lost_ts + 50000):
                h.op("restore 0")
                h.op("put index " + hexs(idx))
                h.open()
                for a in ops_after:
                    h.op(a)
                h.op("close")
                h.op("files")
                h.open()
                h.op(f"push ts={retry_ts} pl={hexs(bytes(p))}")
                h.op(f"push ts={retry_ts + 1} pl={hexs(bytes(p))}")
                h.op("close")
                h.op("files")
                h.open()
                for a in ops_after:
                    h.op(a)
                h.op(f"push ts={retry_ts + 200000} pl={hexs(bytes(p))}")
                h.op("close")
                h.op("files")
            out.append((f"index-ahead-partial-p{p}-{stray}", h.script()))
    return out


def leftover_index_battery():
    """an index file left behind by an earlier series of the same name (its data file is gone): a create
    must not take it over - the sidecar of a NEW series lists the new series' sections and nothing else.
    The create is refused (the file exists); whatever happens, no index with foreign entries may serve a series"""
    out = []
    for p in (0, 4):
        old = index_file_bytes([(10, 0), (200000, 300), (5000000, 900)])
        for planted in (old, old[:4], old[:20]):
            h = Hist(p)
            h.op(f"put index {hexs(planted)}")
            h.op("files")
            h.op(f"new p={p} hdr=- caches=-")
            h.op("files")
            h.op("close")
            h.op(f"open p=any hdr=any caches=- cb=none ext=0")
            h.op("len")
            h.op("range")
            h.op("files")
            out.append((f"leftover-index-{len(planted)}-p{p}", h.script()))
    return out


def gen_C06(rng, tier):
    out = marker_words_inside_battery(["files", "len", "read_all s=U e=U"])
    out += index_ahead_battery(["files", "len", "range", "read_all s=U e=U"])
    out += leftover_index_battery()
    for p in ([0, 2, 4] if tier == "quick" else [0, 1, 2, 3, 4, 5, 8, 16]):
        h = big_sparse(p, lines_for_bytes(p, 3 * 16384 + 700, True), seed=p + 31)
        h.op("files")
        for ix in ["rm index", "cut index 4", f"cut index {4 + 16 * 7}", f"cut index {4 + 16 * 7 + 5}", "cut index 2", None]:
            h.op("close")
            if ix:
                h.op(ix)
            h.open()
            h.op("files")
            h.op("len")
            v = h.some_values(rng, 2)
            h.op(f"read_all s=I:{min(v)} e=I:{max(v)}")
            h.pushrun(h.last() + rng.choice([1, 70000]), 1, 3, 3)
            h.op("files")
        out.append((f"big-p{p}", h.script()))
    out += window_sweep_battery(tier, [8, 4] if tier == "quick" else [8, 4, 5, 16, 0, 2])
    out += chunk_end_battery(tier)
    # the sidecar index of a CACHE is an index too: emptied and refilled caches, several opens in a row
    out += [(n, s + "open p=any hdr=any caches=" + n.split("-B")[1].split("-")[0] + " cb=none ext=0\nfiles\nclose\n")
            for n, s in emptied_cache_battery(tier) + stale_bucket_battery(tier)]
    for h0 in _histories(rng, tier, PAYLOADS_SMALL + [16]):
        h = Hist(h0.p, hdr=h0.hdr)
        h.new()
        for _ in range(rng.randrange(2, 6)):
            rng.choice([h.seg_dense, h.seg_edge, h.seg_sparse, h.seg_gap])(rng)
            h.op("files")
            r = rng.random()
            nsec = len(h.sections)
            h.op("close")
            if r < 0.25:
                h.op("rm index")
            elif r < 0.5:
                h.op(f"cut index {4 + 16 * rng.randrange(0, nsec + 1)}")
            elif r < 0.7:
                h.op(f"cut index {rng.randrange(0, 4 + 16 * nsec + 1)}")
            elif r < 0.8:
                h.op("put part 00000a0a")
                h.op("rm index")
            h.open()
            h.op("files")
            h.op("len")
            v = h.some_values(rng, 2)
            h.op(f"read_all s=I:{min(v)} e=I:{max(v)}")
        if marker_free(h.p, h.ts):
            out.append(("idx", h.script()))
    return out


# ====================================================================== caches

def spread_battery(ops_after):
    """timestamps spread over the whole u64 range inside ONE bucket: sums of timestamps, and sums of
    offsets from the first of the bucket, exceed 64 bits for bucket sizes >= 3"""
    out = []
    cases = [([3], [0, 1 << 63, U64]),
             ([5], [1, 2, U64 - 2, U64 - 1, U64]),
             ([3, 5], [7, (1 << 63) + 7, U64 - 9, U64 - 8, U64 - 7, U64 - 1]),
             ([10], [i * (U64 // 9) for i in range(10)]),
             ([4, 10], [i * (U64 // 11) + 3 for i in range(12)])]
    for caches, tss in cases:
        for p in [0, 4]:
            if p < 4 and not marker_free(p, tss):
                continue
            for attach in ("new", "open"):
                h = Hist(p, caches=caches if attach == "new" else [])
                h.new()
                for t in tss:
                    h.push(t, pl=bytes([t % 251] * p))
                if attach == "open":
                    h.op("close")
                    h.caches = caches
                    h.open()
                for o in ops_after:
                    h.op(o)
                h.reopen()
                for o in ops_after:
                    h.op(o)
                out.append((f"spread-{attach}-p{p}-B{caches[0]}", h.script()))
    return out


def refusals_with_caches_battery(rng, tier, ops_after):
    """Refused appends (same timestamp, older, far older, wrong payload length) in between accepted
    ones with downsample caches attached: a refused line must not reach any cache's accumulator, so
    every bucket completed afterwards - in this session and after a reopen - is that of the accepted lines"""
    out = []
    for caches in ([5], [4, 16], [2, 3]):
        for p in ([4, 0] if tier == "quick" else [0, 1, 2, 4, 8]):
            h = Hist(p, caches=caches)
            h.new()
            t = 1000
            for i in range(4 * caches[-1] + 3):
                h.push(t, rng)
                k = i % 7
                if k == 2:
                    h.push(t, rng)                          # same timestamp
                elif k == 4:
                    h.push(t - rng.choice([1, 3, 9]), rng)  # a little older
                elif k == 5 and i > 6:
                    h.push(max(0, t - 200000), rng)         # far older: would complete a bucket with an old mean
                elif k == 6:
                    h.push(t + 1, pl=bytes(p + 1))          # wrong length
                if i == 2 * caches[-1]:
                    for o in ops_after:
                        h.op(o)
                    h.reopen()
                t += rng.choice([7, 7, 10, MAXD + 2])
            for o in ops_after:
                h.op(o)
            h.reopen()
            for o in ops_after:
                h.op(o)
            if marker_free(p, h.ts):
                out.append((f"refusals-with-caches-{'-'.join(map(str, caches))}-p{p}", h.script()))
    return out


def big_cache_battery(tier, with_damage):
    """caches that are LARGE themselves: a sparse source (every line its own section) of several thousand
    lines with bucket sizes 1 and 2 gives cache files of several scan buffers with thousands of sections
    (cache index beyond 64 KiB); a dense source of 70 000 lines with bucket size 3 gives a dense cache over
    several buffers.  Attached at creation, created on open over the existing data, reopened; optionally the
    cache is torn in the middle / its index removed and the series reopened and appended to"""
    out = []
    shapes = [("sparse", 4, [1, 2], 4300), ("sparse", 0, [2], 6000), ("dense", 4, [3], 9000)]
    for shape, p, caches, count in shapes:
        for attach in ("new", "open"):
            h = Hist(p, caches=caches if attach == "new" else [])
            h.new()
            if shape == "sparse":
                h.pushrun(70000, 70000, count, 5)
            else:
                h.pushrun(1000, 2, count, 5)
            h.op("close")
            h.open(caches=caches)
            h.op("close")
            h.op("files")
            if with_damage:
                h.op("save 0")
                for k, B in enumerate(caches):
                    for dmg in (f"cut cache{k} 40000", f"rm cache{k}.index", f"cut cache{k}.index 65540"):
                        h.op("restore 0")
                        h.op(dmg)
                        h.open(caches=caches)
                        h.pushrun(h.last() + 70000, 70000, 5, 6)
                        h.op("close")
                        h.op("files")
                        # the in-memory history continues from the restored state: forget the 5 lines
                        h.ts = h.ts[:-5]
            else:
                h.open(caches=caches)
                h.pushrun(h.last() + 70000, 70000, 7, 6)
                h.op(f"read_n n=50 s=U e=U")
                h.op("close")
                h.op("files")
            out.append((f"big-cache-{shape}-p{p}-{attach}" + ("-damaged" if with_damage else ""), h.script()))
    return out


def gap_twin_battery():
    """a cache level is identified by (max_gap, bucket_size), and max_gap only names the file: every level is
    configured TWICE (harness option gaps=g: max_gap None and Some(g)); the twin must hold the same lines as the
    None level the model and the specification describe - attached at creation, later over existing data, and
    with a twin that existed before and has to be caught up"""
    out = []
    for p in (4, 0):
        for caches in ("5", "2,6", "3,3"):
            if caches == "3,3":
                continue
            h = Hist(p)
            h.op(f"new p={p} hdr=- caches={caches} gaps=60")
            h.op("pushrun ts0=1000 step=7 count=43 seed=3")
            h.op("files")
            h.op("close")
            h.op(f"open p=any hdr=any caches={caches} cb=none ext=0 gaps=60")
            h.op("pushrun ts0=100000 step=11 count=20 seed=4")
            h.op("files")
            h.op("read_n n=3 s=U e=U")
            h.op("close")
            out.append((f"gap-twins-created-{caches}-p{p}", h.script()))
            h = Hist(p)
            h.op(f"new p={p} hdr=- caches=-")
            h.op("pushrun ts0=1000 step=7 count=42 seed=5")
            h.op("close")
            h.op(f"open p=any hdr=any caches={caches} cb=none ext=0 gaps=9")      # attached over existing data
            h.op("files")
            h.op("pushrun ts0=100000 step=11 count=61 seed=6")
            h.op("files")
            h.op("close")
            h.op(f"open p=any hdr=any caches={caches} cb=none ext=0")             # the None levels alone
            h.op("pushrun ts0=900000 step=1 count=13 seed=7")
            h.op("close")
            h.op(f"open p=any hdr=any caches={caches} cb=none ext=0 gaps=9")      # the twins have to catch up
            h.op("files")
            h.op("close")
            out.append((f"gap-twins-attached-{caches}-p{p}", h.script()))
    return out


def gen_C08(rng, tier):
    out = spread_battery(["files"]) + refusals_with_caches_battery(rng, tier, ["files"]) + gap_twin_battery()
    out += big_cache_battery(tier, False)
    nh = 12 if tier == "quick" else 100
    Bs = [1, 2, 3, 4, 7, 10, 64]
    for i in range(nh):
        p = rng.choice([0, 1, 2, 3, 4, 5, 8])
        caches = sorted(rng.sample(Bs, rng.choice([1, 2, 3])))
        h = Hist(p, caches=caches)
        mode = i % 3
        if mode == 0:           # attached from creation
            h.new()
            h.random_history(rng, rng.randrange(1, 5))
            h.op("files")
        elif mode == 1:         # created on first open over existing data
            h.caches = []
            h.new()
            h.random_history(rng, rng.randrange(1, 5))
            h.op("close")
            h.caches = caches
            h.open()
            h.op("files")
            h.seg_dense(rng)
            h.op("files")
        else:                   # large magnitudes
            h.new()
            base = rng.choice([U64 - 10 ** 6, U64 - 70000 * 40, 1 << 63, (1 << 63) - 5])
            cnt = rng.randrange(3, 30)
            h.pushrun(base, rng.choice([1, 3, 70000]) if base < U64 - 70000 * 35 else 1, cnt, 5)
            h.op("files")
        if marker_free(p, h.ts):
            out.append((f"cache-{mode}", h.script()))
    # several sessions, several levels: a coarse level that is still empty (or holds an open
    # bucket only) when the series is reopened must end up with the same buckets
    for (caches, cut_at) in [([4, 16], 10), ([2, 10], 1), ([3, 7], 5), ([10, 64], 9)]:
        for p in ([0, 2, 4] if tier == "quick" else [0, 1, 2, 3, 4, 8]):
            h = Hist(p, caches=caches)
            h.new()
            t = rng.choice([0, 1000, U64 - 10 ** 7])
            total = 3 * caches[-1] + 2
            for i in range(total):
                h.push(t, rng)
                t += rng.choice([1, 7, 7, 7, MAXD + 1])
                if i + 1 == cut_at or (i > cut_at and rng.random() < 0.05):
                    h.reopen()
            h.op("files")
            if marker_free(p, h.ts):
                out.append((f"sessions-{caches[0]}-{caches[1]}-p{p}", h.script()))
    # source spanning several buffers, cache created afterwards (reader carry path)
    for p in ([0, 4] if tier == "quick" else [0, 1, 2, 3, 4]):
        h = big_sparse(p, lines_for_bytes(p, 2 * 16384 + 300, True), seed=p + 41)
        h.op("close")
        h.caches = [3, 10]
        h.open()
        h.op("files")
        out.append((f"bigsrc-p{p}", h.script()))
    return out


def gen_C09(rng, tier):
    out = [x for x in error_path_battery(tier) if x[0].startswith("cache-header")]
    out += big_cache_battery(tier, True)
    out += stale_bucket_battery(tier)
    out += emptied_cache_battery(tier)
    for B in [1, 2, 3, 4, 10]:
        for p in ([0, 4] if tier == "quick" else [0, 1, 2, 3, 4, 8]):
            h = Hist(p, caches=[B])
            h.new()
            n = rng.randrange(1, 3 * B + 3)
            t = rng.choice([0, 5, 1000])
            for _ in range(n):
                h.push(t, rng)
                t += rng.choice([1, 2, 50, MAXD + 1])
                if rng.random() < 0.4:
                    h.op("files")
                    h.reopen()
                    h.op("files")
            h.op("files")
            if marker_free(p, h.ts):
                out.append((f"reopen-B{B}-p{p}", h.script()))
    # torn / missing cache files
    for i in range(6 if tier == "quick" else 40):
        p = rng.choice([0, 2, 4, 8])
        B = rng.choice([2, 3, 4])
        h = Hist(p, caches=[B])
        h.new()
        h.random_history(rng, 2)
        if len(h.ts) < B + 1 or len(h.ts) > 80 or not marker_free(p, h.ts):
            continue
        h.op("files")
        h.op("close")
        h.op("save 0")
        H = 2000     # larger than any cache header? no: cut positions are absolute; sample widely
        for _ in range(12 if tier == "quick" else 60):
            h.op("restore 0")
            r = rng.random()
            if r < 0.2:
                h.op(f"rm c{B}")
                h.op(f"rm c{B}i")
            elif r < 0.3:
                h.op(f"rm c{B}i")
            else:
                # cut anywhere in the cache file: inside its header (4 + 167 bytes for a one-digit
                # bucket size) or inside its data region
                if rng.random() < 0.25:
                    h.op(f"cut c{B} {rng.randrange(0, 172)}")
                else:
                    h.op(f"cut c{B} {rng.randrange(168, 172 + (len(h.ts) // B + 2) * (h.ms + h.ls))}")
                if rng.random() < 0.3:
                    h.op(f"rm c{B}i")
            h.open()
            h.op("files")
            h.op("close")
        out.append((f"torn-B{B}-p{p}", h.script()))
    # the cache's INDEX (and the source's) cut at every small length: inside its 4-byte header, inside and after its first entries
    for p, B in ((4, 3), (0, 2)):
        h = Hist(p, caches=[B])
        h.new()
        h.pushrun(1000, 7, 4 * B + 1, 3)
        h.pushrun(h.last() + 100000, 7, 2 * B, 4)
        h.op("files")
        h.op("close")
        h.op("save 0")
        for role in (f"c{B}i", "index"):
            for n in list(range(0, 22)) + [35, 36, 37]:
                h.op("restore 0")
                h.op(f"cut {role} {n}")
                h.open()
                h.op("files")
                h.op("close")
        out.append((f"cache-index-cut-small-B{B}-p{p}", h.script()))
    # source torn with the cache ahead
    for i in range(6 if tier == "quick" else 40):
        p = rng.choice([0, 2, 4])
        B = rng.choice([2, 3])
        h = Hist(p, caches=[B])
        h.new()
        h.seg_dense(rng, count=rng.randrange(2 * B, 6 * B))
        if not marker_free(p, h.ts):
            continue
        Hh = header_len(p, 0)
        total = Hh + h.off
        h.op("close")
        h.op("save 0")
        for k in range(1, min(len(h.ts), 3 * B + 1)):
            h.op("restore 0")
            h.op(f"cut data {total - k * h.ls}")
            h.open()
            h.op("read_all s=U e=U")
            h.op("read_n n=2 s=U e=U")          # right after the open: the cache may just have been emptied
            h.op("read_n n=1 s=I:0 e=U")
            # keep appending: the lines the straddling bucket already accounts for are skipped
            # (`lines_to_skip`), later buckets must line up again
            h.op(f"pushrun ts0={h.last() + 5} step=3 count={2 * B + 1} seed={k}")
            h.op("files")
            h.op("read_n n=2 s=U e=U")
            h.op("close")
            h.op(f"get c{B}")
            h.open()
            h.op("files")
            h.op("close")
            h.op(f"get c{B}")
        out.append((f"ahead-B{B}-p{p}", h.script()))
    # the same with evenly spaced lines and larger buckets: losing fewer than about half a bucket leaves the
    # cache's last bucket NOT newer than the last surviving line, so it is kept and the lost lines are
    # skipped when they come again (`lines_to_skip` = 1 .. B-1); the bucket after that must hold its own lines only
    for p in ([4] if tier == "quick" else [0, 2, 4]):
        for B in (3, 4, 5, 10):
            h = Hist(p, caches=[B])
            h.new()
            h.pushrun(1000, 10, 3 * B, 5)
            Hh = header_len(p, 0)
            total = Hh + h.off
            h.op("close")
            h.op("save 0")
            for k in range(1, B):
                h.op("restore 0")
                h.op(f"cut data {total - k * h.ls}")
                h.open()
                h.op(f"pushrun ts0={1000 + 10 * (3 * B - k)} step=10 count={3 * B + 1} seed={k + 20}")
                h.op("files")
                h.op("read_n n=3 s=U e=U")
                h.op("close")
                h.op(f"get c{B}")              # bucket for bucket: only the straddling bucket may deviate
                h.open()
                h.op("files")
                h.op("close")
                h.op(f"get c{B}")
            out.append((f"ahead-even-B{B}-p{p}", h.script()))
    return out


def extreme_bounds_battery(opfmts):
    """bounds AT the ends of the u64 range on series whose first line sits at 0 and whose last lines sit at
    u64::MAX: `..=u64::MAX`, `..u64::MAX`, `0..`, `(Excluded(0), ..)`, each for every op of `opfmts`"""
    out = []
    for p in (0, 4):
        h = Hist(p)
        h.new()
        h.pushrun(0, 1, 12, 3)
        h.pushrun(1000, 7, 10, 4)
        h.pushrun(U64 - 5, 1, 6, 5)
        for s_ in ("U", "I:0", "E:0", "I:1", f"I:{U64 - 5}", f"E:{U64 - 1}", f"I:{U64}", "I:1000"):
            for e_ in ("U", f"I:{U64}", f"E:{U64}", f"I:{U64 - 1}", "I:0", "E:0", "E:1", f"I:{U64 - 3}"):
                for fmt in opfmts:
                    h.op(fmt.format(s=s_, e=e_))
        h.reopen()
        for fmt in opfmts:
            h.op(fmt.format(s=f"I:{U64 - 5}", e=f"I:{U64}"))
            h.op(fmt.format(s="I:1000", e=f"I:{U64}"))
        out.append((f"extreme-bounds-p{p}", h.script()))
    return out


def gen_C10(rng, tier):
    out = buffer_end_start_sweep(tier, lambda s: [f"read_n n=7 s=I:{s} e=U"])
    out += extreme_bounds_battery(["read_n n=100 s={s} e={e}", "read_n n=9 s={s} e={e}", "read_n n=1 s={s} e={e}"])
    # the read calls append to the caller's vectors
    for p in (0, 4):
        h = Hist(p)
        h.new()
        h.pushrun(1000, 7, 60, 3)
        h.pushrun(h.last() + 100000, 7, 30, 4)
        for pre in (1, 4, 30):
            for n in (1, 2, 7, 45):
                h.op(f"read_n n={n} s=U e=U pre={pre}")
                h.op(f"read_n n={n} s=I:1100 e=I:{h.ts[-5]} pre={pre}")
        out.append((f"prefilled-vectors-p{p}", h.script()))
    # very long ranges with a very small n: the bucket size exceeds 16 bits (several full sections)
    for p, count in ([(0, 200000)] if tier == "quick" else [(0, 200000), (4, 140000), (1, 330000)]):
        h = Hist(p)
        h.new()
        h.pushrun(1700000000, 1, count, 7)
        for n in (1, 2, 3):
            h.op(f"read_n n={n} s=U e=U")
        h.op(f"read_n n=1 s=I:{1700000000 + 1000} e=I:{1700000000 + count - 1000}")
        out.append((f"huge-range-small-n-p{p}", h.script()))
    fmt_ns = [1, 2, 3, 10, 100, 10 ** 6]
    # directed: one bucket spanning most of the u64 range (small and huge timestamps mixed)
    for p in [4, 0]:
        h = Hist(p)
        h.new()
        for t in [1000, 1001, 1002, 2000, 0xC000000000000100, 0xD000000000000200, 0xD000000000000201, U64 - 1, U64]:
            h.push(t, rng)
        if marker_free(p, h.ts):
            for n in range(1, 13):
                h.op(f"read_n n={n} s=U e=U")
                h.op(f"read_n n={n} s=I:1001 e=E:{U64}")
            out.append((f"mixed-magnitude-p{p}", h.script()))
    nh = 10 if tier == "quick" else 120
    for i in range(nh):
        p = PAYLOADS_SMALL[i % len(PAYLOADS_SMALL)]
        h = Hist(p)
        h.new()
        if i % 4 == 3:
            base = rng.choice([U64 - 10 ** 6, (1 << 63) + 5, U64 - 200])
            h.pushrun(base, 1, rng.randrange(2, 60), 3)
        else:
            h.random_history(rng, rng.randrange(1, 5))
        vals = h.critical_values()
        for _ in range(30 if tier == "quick" else 120):
            n = rng.choice(fmt_ns)
            h.op(f"read_n n={n} s={bound(rng.choice(ALL_KINDS), rng.choice(vals))} e={bound(rng.choice(ALL_KINDS), rng.choice(vals))}")
        h.op("read_n n=1 s=U e=U")
        h.op("read_n n=2 s=U e=U")
        out.append(("readn", h.script()))
    return out


def gen_C11(rng, tier):
    out = buffer_end_start_sweep(tier, lambda s: [f"read_n n=10 s=I:{s} e=U"], B=2)
    # directed: a coarser cache that is LONGER in bytes than a finer one (it needs a
    # section per line): sparse source, neighbouring bucket sizes
    for p, caches, step, count in [(0, [2, 3], 30000, 120), (4, [3, 4], 0, 0), (2, [2, 3, 4], 25000, 90)]:
        h = Hist(p, caches=caches)
        h.new()
        if count:
            h.pushrun(5, step, count, 3)
        else:
            for t in [1000, 2000, 3000, 4000, 5000, 6000, 300000, 400000]:
                h.push(t, rng)
        if marker_free(p, h.ts):
            vals = h.critical_values()
            for n in [1, 2, 3, 10]:
                h.op(f"read_n n={n} s=U e=U")
                h.op(f"read_n n={n} s={bound('I', rng.choice(vals))} e=U")
            h.reopen()
            h.op("read_n n=2 s=U e=U")
            out.append((f"coarser-longer-p{p}", h.script()))
    nh = 12 if tier == "quick" else 120
    for i in range(nh):
        p = rng.choice([0, 2, 4, 8])
        caches = sorted(rng.sample([2, 3, 4, 10], rng.choice([1, 2])))
        h = Hist(p, caches=caches)
        h.new()
        if i % 3 == 0:
            h.pushrun(rng.choice([0, 5]), 30000, rng.randrange(20, 150), 3)     # sparse: P15 shape
        else:
            h.random_history(rng, rng.randrange(2, 6))
        if not marker_free(p, h.ts):
            continue
        vals = h.critical_values()
        for _ in range(40 if tier == "quick" else 150):
            n = rng.choice([1, 2, 3, 5, 10, 100])
            if rng.random() < 0.5 and len(h.ts) > 2:
                # short ranges: both bounds close together
                a = rng.choice(h.ts)
                b = a + rng.choice([0, 1, 5, 100, MAXD, MAXD + 1, 200000])
                h.op(f"read_n n={n} s={bound(rng.choice(['I', 'E']), a)} e={bound(rng.choice(['I', 'E']), min(b, U64))}")
            else:
                h.op(f"read_n n={n} s={bound(rng.choice(ALL_KINDS), rng.choice(vals))} e={bound(rng.choice(ALL_KINDS), rng.choice(vals))}")
        out.append(("readnc", h.script()))
    return out


# ====================================================================== C16 C17 C18 C19

def uniform_payload_battery(ops_after):
    """the last lines of the file carry payloads of one repeated byte (00, FF, 0A, 20): a one-line last
    section, a one-line series, two such lines - closed, reopened (with and without a cache), looked at;
    an open of an undamaged series changes no byte"""
    out = []
    for p in [1, 4, 8]:
        for fill in (0x00, 0xFF, 0x0A, 0x20):
            for shape in ("one-line-section", "single-line", "two-lines"):
                for caches in ([], [2]):
                    h = Hist(p, caches=caches)
                    h.new()
                    pl = bytes([fill] * p)
                    if shape == "single-line":
                        h.push(1000, pl=pl)
                    else:
                        for t in (1000, 1010, 1020):
                            h.push(t, pl=bytes([7] * p))
                        h.push(200000, pl=pl)
                        if shape == "two-lines":
                            h.push(200001, pl=pl)
                    if not marker_free(p, h.ts):
                        continue
                    h.op("files")
                    h.reopen()
                    for a in ops_after:
                        h.op(a)
                    h.op("close")
                    h.op("files")
                    h.open()
                    h.push(h.last() + 1, pl=pl)
                    h.op("close")
                    h.op("files")
                    out.append((f"uniform-payload-p{p}-{fill:02x}-{shape}-c{len(caches)}", h.script()))
    return out


def gen_C16(rng, tier):
    out = marker_word_battery(["read_all s=U e=U", "len"])
    out += uniform_payload_battery(["read_all s=U e=U", "len", "range", "last_line"])
    # opens that repair or recreate a cache must leave the series' own files alone
    out += [x for x in error_path_battery(tier) if x[0].startswith("cache-header")]
    out += [(n, s.replace("files\n", "files\nread_all s=U e=U\nlen\n")) for n, s in emptied_cache_battery(tier)[:4]]
    reads = ["read_all s=U e=U", "len", "range", "last_line", "is_empty", "payload_size", "n_lines s=U e=U",
             "read_first_n n=2 s=U e=U", "read_n n=3 s=U e=U", "page n=2"]
    for h0 in _histories(rng, tier, PAYLOADS_SMALL):
        caches = rng.choice([[], [2], [2, 4]])
        h = Hist(h0.p, caches=caches)
        h.new()
        for _ in range(rng.randrange(2, 5)):
            rng.choice([h.seg_dense, h.seg_edge, h.seg_sparse, h.seg_gap])(rng)
            for r in rng.sample(reads, 4):
                h.op(r)
            v = h.some_values(rng, 2)
            h.op(f"read_all s=I:{min(v)} e=E:{max(v)}")
            h.push(h.last(), rng)               # refused
            if rng.random() < 0.3:
                h.reopen()
        if marker_free(h.p, h.ts):
            out.append(("audit", h.script()))
    return out


def _gen_consts():
    import re
    src = open(os.path.join(os.path.dirname(os.path.abspath(__file__)), "..", "lean", "BS", "Generated", "Consts.lean")).read()
    def get(name):
        m = re.search(r"def %s : List UInt8 := \[(.*?)\]" % name, src)
        return bytes(int(x) for x in m.group(1).split(",") if x.strip())
    return {k: get(k) for k in ("textPre", "textMid", "textPost", "lineEnds")}


def ref_file(p, user, entries, extra_sections=(), lead=None):
    """a v1 file built from the documented layout alone (third implementation, in Python): header,
    then lines; a full-timestamp section before the first entry, wherever the delta does not fit,
    and additionally before every entry whose index is in `extra_sections` (legal, not canonical)"""
    c = _gen_consts()
    text = c["textPre"] + b"1" + c["textMid"] + str(p).encode() + c["textPost"]
    inner = len(text).to_bytes(4, "little") + text + user
    out = bytearray(len(inner).to_bytes(2, "little") + c["lineEnds"] + inner)
    ls = p + 2
    k = min(p, 4)
    full = None
    for i, (ts, pl) in enumerate(entries):
        if full is None or ts - full > MAXD or i in extra_sections:
            # `lead`: the full time stored in a section may lie BEFORE the entry that follows it (a writer
            # that stores the full time on its own schedule); the entry's 16-bit time is then not zero
            # ... but never at or before a line that is already stored (full times are "now" for the writer)
            prev = entries[i - 1][0] if i > 0 else None
            sec_ts = ts - min((lead or {}).get(i, 0), ts, MAXD, (ts - prev - 1) if prev is not None else ts)
            t = sec_ts.to_bytes(8, "little")
            sec = b"\xff\xff" + t[:k] + bytes(p - k) + b"\xff\xff" + t[k:2 * k] + bytes(p - k)
            rest = t[2 * k:]
            nraw = (len(rest) + ls - 1) // ls
            sec += rest + bytes(nraw * ls - len(rest))
            out += sec
            full = sec_ts
        out += (ts - full).to_bytes(2, "little") + pl
    return bytes(out)


def noncanonical_battery(rng, tier):
    """C07, reverse direction beyond what the library itself writes: files laid out as documented
    but NOT canonical (sections where none is needed, also several in a row), built by an independent
    Python encoder, planted without an index; the specification decodes them with its reference
    decoder; the library has to read exactly that, and has to be able to continue the file"""
    out = []
    for i in range(8 if tier == "quick" else 60):
        p = [0, 1, 2, 3, 4, 5, 8, 12][i % 8]
        n = rng.randrange(1, 40)
        t = rng.choice([0, 5, 1000, 1 << 33])
        entries = []
        for _ in range(n):
            entries.append((t, bytes(rng.randrange(256) for _ in range(p))))
            t += rng.choice([1, 2, 7, 300, MAXD, MAXD + 1, 200000])
        if not marker_free(p, [e[0] for e in entries]):
            continue
        extra = {j for j in range(n) if rng.random() < 0.3}
        if i % 4 == 0:
            extra = set(range(n))            # every line in its own section
        user = bytes(rng.randrange(256) for _ in range(rng.choice([0, 3, 40])))
        # every second file: sections whose full time lies before the entry that follows
        lead = {j: rng.choice([1, 7, 300, MAXD]) for j in range(n) if rng.random() < 0.7} if i % 2 == 1 else None
        if lead is not None:
            secs = []
            full = None
            for j, (ts, _) in enumerate(entries):
                if full is None or ts - full > MAXD or j in extra:
                    prev = entries[j - 1][0] if j > 0 else None
                    full = ts - min(lead.get(j, 0), ts, MAXD, (ts - prev - 1) if prev is not None else ts)
                    secs.append(full)
            if not marker_free(p, secs):
                lead = None
        f = ref_file(p, user, entries, extra, lead)
        last = entries[-1][0]
        ops = ["put data " + hexs(f),
               "open p=any hdr=any caches=- cb=none ext=0", "len", "range", "payload_size", "read_all s=U e=U",
               "read_first_n n=3 s=U e=U", "last_line", f"read_all s=I:{entries[n // 2][0]} e=U",
               f"push ts={last + 1} pl={hexs(bytes(p))}", f"push ts={last + 1 + MAXD + 5} pl={hexs(bytes([7] * p))}",
               "read_all s=U e=U", "len", "close",
               "open p=any hdr=any caches=- cb=none ext=0", "read_all s=U e=U", "len", "range", "close"]
        if lead:
            # range() reports the first FULL time, which in such a file lies before the first line, and a
            # BOUNDED read relies on "the first line of a section carries the section's time" (find_read_start's
            # one-line shortcut, EndArea::Found): observed, see DESIGN.md 15.4.  No property speaks about
            # accessors or bounded reads of such foreign files (C07: content read back; C02/C12: histories of
            # the library itself), so only the full reads, first-n, last_line, len and the appends are judged
            ops = [o for o in ops if o != "range" and not o.startswith("read_all s=I:")]
        out.append((f"noncanonical-p{p}" + ("-lead" if lead else ""), "\n".join(ops) + "\n"))
    return out


def assets_battery(tier):
    """C07, reverse direction: files written by earlier releases (the repository's own assets) are
    planted byte for byte; the specification decodes them with its independent reference decoder and
    the library has to read back exactly that, with the shipped index and with the index rebuilt,
    and has to be able to continue them"""
    import glob
    out = []
    files = sorted(f for f in glob.glob("/repo/assets/*/*.byteseries") if "_None_" not in f)
    for f in files:
        data = open(f, "rb").read()
        if len(data) > 200000 and tier == "quick":
            variants = ["shipped"]
        else:
            variants = ["shipped", "noindex"]
        ixf = f + "_index"
        for v in variants:
            ops = ["put data " + hexs(data)]
            if v == "shipped" and os.path.exists(ixf):
                ops.append("put index " + hexs(open(ixf, "rb").read()))
            ops += ["open p=any hdr=any caches=- cb=none ext=0", "len", "range", "payload_size", "is_empty",
                    "read_all s=U e=U", "read_first_n n=7 s=U e=U", "last_line", "n_lines s=U e=U",
                    "read_n n=50 s=U e=U", "close",
                    "open p=any hdr=any caches=- cb=none ext=0", "len", "read_first_n n=3 s=U e=U", "close"]
            out.append((f"asset-{os.path.basename(f)}-{v}", "\n".join(ops) + "\n"))
    return out


def emptied_cache_battery(tier):
    """the source is torn back to fewer lines than one bucket (or to nothing) while the cache holds whole
    buckets: the cache is emptied on open; resampling reads right after that, and after each further
    append until the first bucket is complete again, must work"""
    out = []
    for p in ([4, 0] if tier == "quick" else [0, 1, 4, 8]):
        for B, n, keep in [(10, 25, 5), (10, 25, 0), (4, 9, 3), (3, 7, 1), (2, 5, 0)]:
            h = Hist(p, caches=[B])
            h.new()
            h.pushrun(1000, 5, n, 3)
            H = header_len(p, 0)
            h.op("close")
            cut = H + (h.ms + keep * h.ls if keep else 0)
            h.op(f"cut data {cut}")
            h.open()
            for _ in range(B + 1):
                h.op("read_n n=2 s=U e=U")
                h.op("read_n n=1 s=I:1000 e=I:2000")
                h.op("len")
                h.op(f"push ts={1000 + 5 * n + 7 * (_ + 1)} pl={hexs(bytes([5] * p))}")
            h.op("files")
            h.reopen()
            h.op("read_n n=2 s=U e=U")
            h.op("files")
            out.append((f"emptied-cache-p{p}-B{B}-keep{keep}", h.script()))
    return out


def stale_bucket_battery(tier):
    """the source loses its last k lines, which were FAR newer than the rest, while the cache keeps the
    bucket made from them; then lines only slightly newer than the survivors are appended, the series
    is reopened and appended to again: every append must be accepted, no open may fail"""
    out = []
    for p in ([4, 0] if tier == "quick" else [0, 1, 2, 4, 8]):
        for B in (2, 3, 4, 10):
            h = Hist(p, caches=[B])
            h.new()
            n = 2 * B
            ts = [10 * (i + 1) for i in range(n - 1)] + [10 ** 6]        # the last line is far ahead
            for t in ts:
                h.push(t, pl=bytes([1] * p))
            H = header_len(p, 0)
            h.op("close")
            h.op("save 0")
            # remove the last line together with the section it opened
            cut = H + h.off - (h.ms + h.ls)
            for extra in (0, 1):
                h.op("restore 0")
                h.op(f"cut data {cut + extra}")
                h.open()
                h.op("len")
                t = ts[-2]
                for k in range(2 * B + 1):
                    t += 10
                    h.op(f"push ts={t} pl={hexs(bytes([2] * p))}")
                h.op("len")
                h.op("read_all s=U e=U")
                h.op("read_n n=2 s=U e=U")
                h.op("files")
                h.op("close")
                h.open()
                h.op("len")
                h.op(f"push ts={t + 10} pl={hexs(bytes([3] * p))}")
                h.op("files")
                h.op("close")
            if marker_free(p, ts):
                out.append((f"stale-bucket-p{p}-B{B}", h.script()))
    return out


def error_path_battery(tier):
    """error paths of open that only appear with damaged or foreign files: a cache whose own file header
    is cut or damaged, a cache created from / caught up with a source that has a damaged section
    (with and without the callback), a file of another format version"""
    out = []
    # 1. cache file header cut / damaged
    for p, B in [(4, 3), (0, 2)]:
        h = Hist(p, caches=[B])
        h.new()
        h.pushrun(10, 7, 3 * B + 1, 3)
        h.op("close")
        h.op("save 0")
        for cut in [0, 1, 2, 3, 4, 5, 60, 167, 168, 169, 170, 171]:
            h.op("restore 0")
            h.op(f"cut c{B} {cut}")
            h.open()
            h.op("files")
            h.op("close")
        for off, val in [(0, "ff"), (1, "ff"), (2, "00"), (3, "00"), (10, "00"), (100, "7a")]:
            h.op("restore 0")
            h.op(f"damage c{B} {off} {val}")
            h.open()
            h.op("files")
            h.op("close")
        out.append((f"cache-header-p{p}", h.script()))
    # 2./3. damaged source section while a cache is created / caught up
    for p, B in [(4, 3), (1, 2)]:
        for attach in ("create", "catchup"):
            h = Hist(p, caches=[B] if attach == "catchup" else [])
            h.new()
            h.pushrun(10, 3, 2 * B + 1, 1)
            h.pushrun(h.last() + 100000, 1, 2 * B + 2, 2)
            h.pushrun(h.last() + 100000, 5, B + 1, 3)
            if not marker_free(p, h.ts):
                continue
            H = header_len(p, 0)
            h.op("close")
            h.op("save 0")
            for cb in ("none", "F", "T"):
                for sec in (1, 2):
                    h.op("restore 0")
                    h.op(f"damage data {H + h.sections[sec][1] + h.ls} 0000")
                    if attach == "catchup":
                        h.op(f"cut c{B} 0" if sec == 2 else f"rm c{B}i")
                    h.caches = [B]
                    h.open(cb=cb)
                    h.op("files")
                    h.op("close")
            out.append((f"damaged-source-{attach}-p{p}", h.script()))
    # 4. another format version
    for p in (0, 4):
        h = Hist(p)
        h.new()
        h.push(5, pl=bytes(p))
        h.op("close")
        h.op("damage data 89 32")        # "This is a byteseries 1 file" -> 2
        h.open()
        h.op("files")
        h.open(p=p)
        h.op("files")
        out.append((f"other-version-p{p}", h.script()))
    return out


def text_header_battery(tier):
    out = []
    # TEXT headers (what users store: RON/JSON with unit symbols): valid UTF-8 with 2-, 3- and 4-byte
    # characters straddling every byte position around typical cut-off lengths.  Demanded vs stored
    # header differ: the answer must be the Mismatch error, whatever the error message does with them.
    def text_header(total, pos, ch):
        b = ("a" * pos + ch).encode()
        return b + b"z" * max(0, total - len(b))
    cuts = [16, 32, 64, 100, 128, 200, 255, 256, 257, 500, 512, 1000, 1024, 4096]
    if tier == "quick":
        cuts = [64, 128, 256, 512, 1024]
    for ch in ("\u00b0", "\u20ac", "\U0001F600"):
        h = Hist(4, hdr=b"stored header (ascii)")
        h.new()
        h.op("close")
        for cut in cuts:
            for pos in range(cut - 4, cut + 1):
                want = text_header(cut + 40, pos, ch)
                h.open(hdr=want, p=4)
                h.op("payload_size")
                h.op("close")
        out.append((f"text-mismatch-demanded-{len(ch.encode())}", h.script()))
        # the other way round: the multi-byte text is what is stored
        for cut in cuts[:3] if tier == "quick" else cuts:
            for pos in (cut - 3, cut - 2, cut - 1):
                st = text_header(cut + 40, pos, ch)
                h2 = Hist(0, hdr=st)
                h2.new()
                h2.op("close")
                h2.open(hdr=b"something else", p=0)
                h2.op("close")
                h2.open(hdr=st + "\u00b0".encode(), p=0)
                h2.op("close")
                h2.open(hdr=st, p=0)
                h2.op("payload_size")
                h2.op("close")
                out.append((f"text-mismatch-stored-{cut}-{pos}", h2.script()))
    return out


def near_equal_header_battery():
    """demanded headers that a 'tolerant' comparison would take for the stored one: line endings (CR before LF,
    a trailing CR / LF), surrounding white space, letter case, tabs for spaces, a trailing NUL, NFC / NFD forms -
    in both directions, for text and binary headers, payload size demanded and retrieved.  Every one is a
    DIFFERENT header: the open must fail with the mismatch error; the stored header itself must still open"""
    out = []
    pairs = []
    for base in (b"Config(\n  unit: \"C\",\n  room: 3,\n)", bytes([0, 255, 10, 200, 13, 7, 10, 10]), b"sensor: kitchen"):
        v = set()
        v.add(base.replace(b"\n", b"\r\n"))
        v.add(base + b"\r"); v.add(base + b"\n"); v.add(base + b"\r\n"); v.add(base + b" "); v.add(b" " + base)
        v.add(base + b"\x00"); v.add(base.upper()); v.add(base.lower()); v.add(base.replace(b" ", b"\t"))
        v.add(base.replace(b"  ", b" ")); v.add(base.strip())
        v.add(base.replace(b"\r", b""))
        pairs += [(base, x) for x in v if x != base]
    pairs.append(("caf\u00e9".encode(), "cafe\u0301".encode()))
    pairs.append(("cafe\u0301".encode(), "caf\u00e9".encode()))
    for k, (a, b) in enumerate(pairs):
        for stored, demanded in ((a, b), (b, a)):
            for p in (0, 4):
                h = Hist(p, hdr=stored)
                h.new()
                h.push(5, pl=bytes(p))
                h.op("close")
                h.open(hdr=demanded, p=p)
                h.op("close")
                h.open(hdr=demanded)              # payload size retrieved
                h.op("close")
                h.open(hdr=stored, p=p)
                h.op("len")
                h.op("close")
                h.open()
                h.op("len")
                h.op("close")
                out.append((f"near-equal-header-{k}-{'ab' if stored is a else 'ba'}-p{p}", h.script()))
    return out


def builder_chain_battery():
    """the header option is given by a CHAIN of builder calls; the last call decides: with_any_header()
    followed by with_header(h) demands h, the reverse order accepts anything, a second with_header
    replaces the first - on create and on open, payload size demanded or retrieved"""
    out = []
    stored, other = b"sensor: kitchen", b"sensor: cellar"
    S, O = hexs(stored), hexs(other)
    for p in (0, 4):
        h = Hist(p, hdr=stored)
        h.op(f"new p={p} hdr=any>{S} caches=-")
        h.op(f"push ts=5 pl={hexs(bytes(p))}")
        h.op("close")
        h.op("files")
        for ps in (str(p), "any"):
            for chain in (f"any>{O}", f"any>{S}", f"{O}>any", f"{O}>{S}", f"{S}>{O}", f"any>any>{O}", f"{O}>any>{S}", f"any>{O}>any"):
                h.op(f"open p={ps} hdr={chain} caches=- cb=none ext=0")
                h.op("payload_size")
                h.op("close")
        h.op("files")
        h.op(f"new p={p} hdr={O}>any caches=-")                     # over existing, whatever the chain
        h.op("files")
        out.append((f"builder-chain-p{p}", h.script()))
    # two reasons to fail at once: a create over an EXISTING series with a header that is too large as
    # well (and with caches demanded): error, every existing file untouched
    for p in (0, 4):
        for ul in (max_user_header(p) + 1, 65536, 70000):
            for caches in ("-", "2"):
                h = Hist(p, hdr=b"old")
                h.op(f"new p={p} hdr={hexs(b'old')} caches={caches}")
                for t in (5, 6, 7, 100000):
                    h.op(f"push ts={t} pl={hexs(bytes(p))}")
                h.op("close")
                h.op("files")
                big = bytes((i * 7) % 256 for i in range(ul))
                h.op(f"new p={p} hdr={hexs(big)} caches={caches}")
                h.op("files")
                h.op(f"new p={p + 1} hdr={hexs(big)} caches=-")
                h.op("files")
                h.op("open p=any hdr=any caches=- cb=none ext=0")
                h.op("read_all s=U e=U")
                h.op("close")
                out.append((f"create-over-existing-oversize-p{p}-{ul}-c{caches}", h.script()))
    return out


def gen_C17(rng, tier):
    out = builder_chain_battery() + near_equal_header_battery()
    directed = [(p, d) for p in (8, 0, 12345) for d in (-1, 0, 1, 2)]
    for i in range(len(directed) + (6 if tier == "quick" else 60)):
        if i < len(directed):
            p = directed[i][0]
            mx = max_user_header(p)
            ul = mx + directed[i][1]          # around the 16-bit limit of the declared header length
        else:
            p = rng.choice([0, 1, 2, 4, 8, 100, 12345])
            mx = max_user_header(p)
            ul = rng.choice([0, 1, 2, 17, 300, mx - 1, mx, mx + 1, mx + 2, 70000])
        hdr = bytes(rng.randrange(256) for _ in range(ul))
        if rng.random() < 0.2 and ul >= 30:
            hdr = b"For this file that is: 7 bytes. This is a byteseries 9 file," + hdr[60:]
        h = Hist(p, hdr=hdr)
        h.op("files")
        h.op("open p=any hdr=any caches=- cb=none ext=0")        # missing
        h.op("files")
        h.new()
        h.op("files")
        h.op("payload_size")
        h.op("close")
        h.op("files")
        h.op(f"new p={p} hdr={hexs(hdr)} caches=-")              # over existing
        h.op("close")
        h.op("files")
        for _ in range(4):
            wantp = rng.choice([None, p, p + 1, 0 if p else 3])
            wanth = rng.choice([None, hdr, hdr + b"x", hdr[:-1] if hdr else b"y", b""])
            h.open(hdr=wanth, p=wantp, ext=rng.choice([0, 1]))
            h.op("payload_size")
            h.op("close")
            h.op("files")
        out.append(("contract", h.script()))
    out += text_header_battery(tier)
    # stored header lengths around powers of two (read-ahead / buffer sizes inside the file layer)
    for p in (0, 8):
        base = header_len(p, 0) - 4            # stored header without user bytes
        for target in (4096, 8192, 16384, 32768):
            h = None
            for d in range(-6, 7):
                ul = target + d - base
                hdr = bytes((i * 13 + d) % 256 for i in range(ul))
                hh = Hist(p, hdr=hdr)
                hh.new()
                hh.push(5, pl=bytes(p))
                hh.op("close")
                hh.open()                                   # any header: must come back whole
                hh.op("close")
                hh.open(hdr=hdr, p=p)                       # the exact header: accepted
                hh.op("len")
                hh.op("close")
                hh.open(hdr=hdr[:-1])                       # one byte shorter: another header
                hh.op("close")
                out.append((f"header-len-{target}{d:+d}-p{p}", hh.script()))
    # series names that contain a dot: every way of naming the series (with / without the file
    # extension) x every builder flavour must reach the same files
    for nm in ("s.v2", "s.4"):
        for p in (0, 3):
            h = Hist(p, hdr=b"living room")
            h.op(f"new p={p} hdr={hexs(h.hdr)} caches=- name={nm}")
            h.push(5, pl=bytes(p))
            h.op("close")
            h.op("files")
            for ext in (0, 1):
                for pw in ("any", str(p)):
                    for hw in ("any", hexs(h.hdr)):
                        h.op(f"open p={pw} hdr={hw} caches=- cb=none ext={ext} name={nm}")
                        h.op("payload_size")
                        h.op("len")
                        h.op("close")
            h.op("files")
            out.append((f"dotted-name-{nm}-p{p}", h.script()))
    out += [x for x in error_path_battery(tier) if x[0].startswith("other-version")]
    # stale sidecar files make a create fail: nothing new may be left behind
    for stale in ["index", "part"]:
        h = Hist(4, caches=[2] if stale.startswith("c") else [])
        h.op(f"put {stale} 00000a0a")
        h.op("files")
        h.new()
        h.op("close")
        h.op("files")
        out.append((f"stale-{stale}", h.script()))
    return out


def gen_C18(rng, tier):
    out = []
    # directed: the damaged section is longer than a read buffer, so skipping has to
    # survive a refill (and a second one in the thorough tier)
    for p in ([4, 1] if tier == "quick" else [4, 0, 1, 2, 3, 8, 16]):
        ls = p + 2
        for nbuf in ([1] if tier == "quick" else [1, 2]):
            h = Hist(p)
            h.new()
            h.pushrun(10, 3, 20, 1)
            h.pushrun(h.last() + 100000, 1, nbuf * (16384 // ls) + 300, 2)      # section B
            h.pushrun(h.last() + 100000, 5, 30, 3)                              # section C
            if not marker_free(p, h.ts):
                continue
            H = header_len(p, 0)
            h.op("close")
            h.op("save 0")
            for cb in ["T", "none"]:
                h.op("restore 0")
                h.op(f"damage data {H + h.sections[1][1] + h.ls} 0000")
                h.open(cb=cb)
                h.op("read_all s=U e=U")
                h.op("close")
            out.append((f"long-damaged-p{p}-{nbuf}", h.script()))
    # directed: inside the section that is skipped, data lines whose 16-bit delta looks like part of a
    # marker (low or high byte FF), each in turn as the LAST line before the next intact section
    for p in ([1, 4, 5] if tier == "quick" else [0, 1, 2, 3, 4, 5, 8]):
        for last_delta in (255, 511, 0xFF00, 0xFEFF, 0x00FF + 256 * 7, 254, 0xFFFE):
            h = Hist(p)
            h.new()
            for t in (1000, 1001, 1002):
                h.push(t, rng)
            b0 = 200000
            for dlt in (0, 100, 255, 256, last_delta):
                if b0 + dlt > h.last():
                    h.push(b0 + dlt, rng)
            c0 = h.last() + 200000
            for t in (c0, c0 + 1, c0 + 2):
                h.push(t, rng)
            d0 = h.last() + 200000
            for t in (d0, d0 + 1):
                h.push(t, rng)
            if not marker_free(p, h.ts):
                continue
            H = header_len(p, 0)
            h.op("close")
            h.op("save 0")
            for where in ("marker2", "delta", "marker2-noindex", "last-marker2", "delta-mid"):
                for cb in ["T", "F", "none"]:
                    h.op("restore 0")
                    if where == "delta-mid":
                        # the delta of the THIRD data line of section B (b0+255) becomes FF FF; reads whose range
                        # SPANS it - bounded ends inside the same section included - must meet the damage
                        h.op(f"damage data {H + h.sections[1][1] + h.ms + 2 * h.ls} ffff")
                        h.open(cb=cb)
                        h.op(f"read_all s=I:{b0} e=I:{b0 + 256}")
                        h.op(f"read_all s=I:{b0 + 100} e=E:{b0 + 257}")
                        h.op(f"read_all s=U e=I:{b0 + 256}")
                        h.op(f"read_all s=I:1001 e=I:{c0 + 1}")
                        h.op("read_all s=U e=U")
                        h.op(f"read_all s=I:{b0 + 256} e=U")        # starts behind the damage: nothing to meet
                        h.op("close")
                        continue
                    if where == "marker2":
                        h.op(f"damage data {H + h.sections[1][1] + h.ls} 0000")
                    elif where == "marker2-noindex":
                        # the index is lost after the damage and rebuilt without the damaged section
                        h.op(f"damage data {H + h.sections[1][1] + h.ls} 0000")
                        h.op("rm index")
                    elif where == "last-marker2":
                        h.op(f"damage data {H + h.sections[-1][1] + h.ls} 0000")
                    else:
                        # the delta of the first data line of section B becomes FF FF
                        h.op(f"damage data {H + h.sections[1][1] + h.ms} ffff")
                    h.open(cb=cb)
                    h.op("read_all s=U e=U")
                    h.op("read_first_n n=4 s=U e=U")
                    # bounded reads that start behind the last line of the section before the damage
                    h.op(f"read_all s=I:{1002 + 50} e=U")
                    h.op(f"read_all s=I:{b0 + 300} e=U")
                    h.op(f"read_all s=E:{h.ts[-3]} e=U")
                    h.op("close")
            out.append((f"skip-delta-{last_delta}-p{p}", h.script()))
    for i in range(14 if tier == "quick" else 120):
        p = PAYLOADS_SMALL[i % len(PAYLOADS_SMALL)]
        h = Hist(p)
        h.new()
        for _ in range(rng.randrange(2, 5)):
            rng.choice([h.seg_dense, h.seg_sparse, h.seg_gap, h.seg_edge])(rng)
        if len(h.sections) < 2 or not marker_free(p, h.ts):
            continue
        H = header_len(p, 0)
        h.op("close")
        h.op("save 0")
        for k in range(len(h.sections)):
            for cb in ["none", "F", "T"]:
                h.op("restore 0")
                off = H + h.sections[k][1] + h.ls
                h.op(f"damage data {off} {rng.choice(['0000', '0100', 'feff', 'fffe'])}")
                h.open(cb=cb)
                h.op("read_all s=U e=U")
                h.op("close")
        out.append((f"damage-p{p}", h.script()))
    return out


def gen_C19(rng, tier):
    out = spread_battery(["len", "read_n n=2 s=U e=U", "read_all s=U e=U"])
    out += prefilled_reads_battery()
    out += extreme_bounds_battery(["read_all s={s} e={e}", "read_n n=3 s={s} e={e}", "read_first_n n=2 s={s} e={e}", "n_lines s={s} e={e}"])
    out += text_header_battery(tier)      # builder options: demanded vs stored text headers
    out += error_path_battery(tier)
    out += stale_bucket_battery(tier)
    out += emptied_cache_battery(tier)
    out += reader_buffer_end_battery(tier, ["read_all s=U e=U", "read_first_n n=100000 s=E:1050 e=U"])
    # INVERTED ranges (start after end) on a series whose CACHE has several sections: every pair of bound kinds, both
    # bounds on / between / beyond cache lines and section starts, for every kind of read - an error or nothing, never a panic
    for p in (4, 0):
        h = Hist(p, caches=[2])
        h.new()
        for t in (10, 11, 12, 13, 200000, 200001, 200002, 200003, 400000, 400001, 400002, 400003):
            h.push(t, pl=bytes([3] * p))
        pts = [9, 10, 11, 12, 13, 14, 100000, 199999, 200000, 200001, 200002, 200003, 300000, 400000, 400001, 400003, 400004]
        for reopen in (False, True):
            if reopen:
                h.reopen()
            for a in pts:
                for b in pts:
                    if a <= b:
                        continue
                    for ks, ke in (("I", "I"), ("E", "E"), ("I", "E"), ("E", "I")):
                        if reopen and (ks, ke) != ("I", "I"):
                            continue
                        h.op(f"read_n n=3 s={ks}:{a} e={ke}:{b}")
                        if not reopen:
                            h.op(f"read_all s={ks}:{a} e={ke}:{b}")
                            h.op(f"read_first_n n=2 s={ks}:{a} e={ke}:{b}")
                            h.op(f"n_lines s={ks}:{a} e={ke}:{b}")
        out.append((f"inverted-ranges-cached-p{p}", h.script()))
    # both bounds of a resampling read inside one time gap of a CACHE (whose lines are bucket means)
    for p in (4, 0):
        for tss, (a, b) in [([0, 60000, 120000, 180000], (100000, 130000)), ([0, 1, 100000, 100001], (70000, 80000)),
                            ([5, 6, 7, 8, 200000, 200001, 400000, 400001], (100, 199999))]:
            h = Hist(p, caches=[2])
            h.new()
            for t in tss:
                h.push(t, pl=bytes([3] * p))
            for kinds in (("I", "I"), ("E", "E"), ("I", "E")):
                for n in (1, 2, 5):
                    h.op(f"read_n n={n} s={kinds[0]}:{a} e={kinds[1]}:{b}")
            h.reopen()
            h.op(f"read_n n=1 s=I:{a} e=I:{b}")
            h.op(f"read_n n=1 s=E:{a} e=E:{b}")
            out.append((f"cache-gap-range-p{p}", h.script()))
    # bucket sizes at the far end of usize
    for caches in ([U64], [1 << 63], [3, U64], [(1 << 32) + 1]):
        h = Hist(4, caches=caches)
        h.new()
        for t in (5, 6, 100000):
            h.push(t, rng)
        for o in ("len", "read_n n=2 s=U e=U", "files"):
            h.op(o)
        h.reopen()
        h.push(200000, rng)
        for o in ("len", "read_n n=2 s=U e=U", "files"):
            h.op(o)
        out.append((f"hugeB-{caches[-1]}", h.script()))
    bounds = ["U", "I:0", "E:0", f"I:{U64}", f"E:{U64}", "I:1", "E:1", f"I:{U64 - 1}"]
    calls = []
    for s in bounds:
        for e in bounds:
            calls.append(f"read_all s={s} e={e}")
            calls.append(f"n_lines s={s} e={e}")
            for n in (0, 1):
                calls.append(f"read_first_n n={n} s={s} e={e}")
                calls.append(f"read_n n={n} s={s} e={e}")
    acc = ["len", "is_empty", "range", "last_line", "payload_size", "page n=1", "page n=0"]
    shapes = []
    for p in [0, 1, 4, 5000, 20000]:
        shapes.append((p, [], "empty"))
        shapes.append((p, [0], "zero"))
        shapes.append((p, [U64], "max"))
        shapes.append((p, [0, U64], "both"))
        shapes.append((p, [5, 6, 100000, U64 - 1, U64], "mixed"))
    if tier == "quick":
        shapes = [s for s in shapes if s[0] in (0, 4, 5000)]
    for p, tss, name in shapes:
        for caches in ([[]] if p > 100 else [[], [2, 3]]):
            h = Hist(p, caches=caches)
            h.new()
            for t in tss:
                h.push(t, rng)
            sel = calls if tier != "quick" else rng.sample(calls, 60)
            for c in sel + acc:
                h.op(c)
            h.reopen()
            for c in rng.sample(calls, 20) + acc:
                h.op(c)
            if p >= 4 or marker_free(p, h.ts):
                out.append((f"{name}-p{p}-c{len(caches)}", h.script()))
    # maximal header
    for p in [0, 4]:
        mx = max_user_header(p)
        h = Hist(p, hdr=bytes(mx))
        h.new()
        h.push(3, rng)
        h.reopen()
        h.op("read_all s=U e=U")
        out.append((f"maxhdr-p{p}", h.script()))
    return out


GENERATORS.update({"C05": gen_C05, "C06": gen_C06, "C08": gen_C08, "C09": gen_C09, "C10": gen_C10, "C11": gen_C11,
                   "C16": gen_C16, "C17": gen_C17, "C18": gen_C18, "C19": gen_C19})
