"""Run one op script on the real library (bsrun) and on the Lean driver (model + spec),
compare under a property's projection and classify the first divergence.
DESIGN.md §4.2, §8."""
import hashlib
import os
import shutil
import subprocess
import tempfile

VERIF = os.path.dirname(os.path.dirname(os.path.abspath(__file__)))
BSRUN = os.path.join(VERIF, "harness", "target", "debug", "bsrun")
DRIVER = os.path.join(VERIF, "lean", ".lake", "build", "bin", "driver")
RUNDIR = os.path.join(VERIF, ".run")

RANGE_ERRS = ("err InvalidRange/StartAfterData", "err InvalidRange/StopBeforeData",
              "err InvalidRange/StartBeforeStop", "err InvalidRange/EmptyFile")


def script_ops(script):
    return [l.strip() for l in script.splitlines() if l.strip() and not l.strip().startswith("#")]


def run_code(script, timeout=120, audit=False):
    """returns (list of output lines, status) ; status in ok|hang|crash"""
    os.makedirs(RUNDIR, exist_ok=True)
    d = tempfile.mkdtemp(prefix="c", dir=RUNDIR)
    env = dict(os.environ)
    if audit:
        env["BSRUN_AUDIT"] = "1"
    try:
        try:
            p = subprocess.run([BSRUN, os.path.join(d, "s")], input=script.encode(), stdout=subprocess.PIPE,
                               stderr=subprocess.PIPE, timeout=timeout, env=env)
            out = p.stdout.decode(errors="replace").splitlines()
            status = "ok" if p.returncode == 0 else "crash"
        except subprocess.TimeoutExpired as e:
            out = (e.stdout or b"").decode(errors="replace").splitlines()
            status = "hang"
    finally:
        shutil.rmtree(d, ignore_errors=True)
    return out, status


def run_model(script, timeout=300, audit=False):
    """returns (model lines, spec lines, status)"""
    env = dict(os.environ)
    if audit:
        env["BSRUN_AUDIT"] = "1"
    try:
        p = subprocess.run([DRIVER], input=script.encode(), stdout=subprocess.PIPE, stderr=subprocess.PIPE,
                           timeout=timeout, env=env)
        lines = p.stdout.decode(errors="replace").splitlines()
        status = "ok" if p.returncode == 0 else "crash"
    except subprocess.TimeoutExpired as e:
        lines = (e.stdout or b"").decode(errors="replace").splitlines()
        status = "hang"
    m = [l[2:] for l in lines if l.startswith("M ")]
    s = [l[2:] for l in lines if l.startswith("S ")]
    return m, s, status


# ---------------------------------------------------------------- parsing helpers

def parse_entries(text):
    """'ok ts:hex,ts:hex' -> list of (ts, hex) ; 'ok -' -> []"""
    if not text.startswith("ok"):
        return None
    body = text[2:].strip()
    if body == "-" or body == "":
        return []
    out = []
    for item in body.split(","):
        if ":" not in item:
            return None
        t, h = item.split(":", 1)
        try:
            out.append((int(t), h))
        except ValueError:
            return None
    return out


def parse_files(text):
    if not text.startswith("ok"):
        return None
    d = {}
    for item in text.split()[1:]:
        if "=" in item:
            k, v = item.split("=", 1)
            d[k] = v
    return d


def is_empty_result(text):
    return text == "ok -" or text in RANGE_ERRS or text.startswith("err InvalidRange/")


def err_detail(text):
    if text.startswith("err ") and "/" in text:
        return text.split("/", 1)[1].split()[0]
    return None


def lin_decode(hexs):
    if hexs == "-":
        return 0
    b = bytes.fromhex(hexs)[:4]
    return int.from_bytes(b, "little")


def lin_encode(p, v):
    k = min(p, 4)
    b = (v % (256 ** k)).to_bytes(k, "little") if k else b""
    b = b + bytes(p - k)
    return b.hex() if b else "-"


def bucket_means(entries, b):
    out = []
    for i in range(0, len(entries) - b + 1, b):
        chunk = entries[i:i + b]
        ts = sum(t for t, _ in chunk) // b
        p = 0 if chunk[0][1] == "-" else len(chunk[0][1]) // 2
        v = sum(lin_decode(h) for _, h in chunk) // b
        out.append((ts, lin_encode(p, v)))
    return out


def matches_some_bucket(sel, got):
    """is `got` the list of uniform bucket means of `sel` for some bucket size b >= 1?  Only the
    bucket sizes that give len(got) buckets and whose first mean timestamp fits are tried."""
    m, k = len(sel), len(got)
    if k == 0:
        return True          # every bucket incomplete: any b > m
    if k > m:
        return False
    lo, hi = m // (k + 1) + 1, m // k
    pre = [0]
    for t, _ in sel[:hi]:
        pre.append(pre[-1] + t)
    for b in range(max(1, lo), hi + 1):
        if pre[b] // b != got[0][0]:
            continue
        if bucket_means(sel, b) == got:
            return True
    return False


# ---------------------------------------------------------------- spec comparison

def meets_spec(op, code, spec, roles=None):
    """does the observation `code` satisfy the expectation `spec`?  returns (bool, why)"""
    if spec == "~none":
        return True, ""
    if spec.startswith("= "):
        want = spec[2:]
        if code == want:
            return True, ""
        return False, f"expected exactly: {want[:200]}"
    if spec == "~empty":
        return (True, "") if is_empty_result(code) else (False, "expected nothing (ok - or a range error)")
    if spec.startswith("~err "):
        want = spec[5:].strip()
        if err_detail(code) in want.split("|"):       # `A|B`: either kind satisfies the property
            return True, ""
        return False, f"expected an error of kind {want}"
    if spec.startswith("~files"):
        want = {}
        for item in spec.split()[1:]:
            k, v = item.split("=", 1)
            want[k] = v
        got = parse_files(code)
        if got is None:
            return False, "expected a file listing"
        for k, v in want.items():
            if roles is not None and not any(k == r or (r == "cache" and k.startswith("c")) for r in roles):
                continue
            if got.get(k) != v:
                return False, f"file {k}: expected {v}, got {got.get(k)}"
        if roles is None or "cache" in roles:
            # harness option gaps=g: every cache level is configured twice (max_gap None / Some(g)); the harness
            # reports a twin that is missing or does not hold the same lines as its None level (C08: EVERY configured level)
            for k, v in got.items():
                if k.startswith("cgapdiff"):
                    return False, f"the cache level with max_gap Some(..) and bucket size {k[8:].split('.')[0]} ({k.split('.', 1)[1]}) is {v}: not the lines of the level with the same bucket size"
        return True, ""
    if spec.startswith("~nlines"):
        kv = dict(x.split("=") for x in spec.split()[1:])
        k, slack = int(kv["k"]), int(kv["slack"])
        if k == 0:
            ok = code == "ok 0" or code.startswith("err InvalidRange/")
            return ok, "expected 0 or a range error"
        if not code.startswith("ok "):
            return False, f"expected a count in [{k}, {k + slack}]"
        try:
            n = int(code[3:])
        except ValueError:
            return False, "expected a count"
        return (k <= n <= k + slack), f"expected a count in [{k}, {k + slack}]"
    if spec.startswith("~readn "):
        parts = spec.split(" ", 3)
        n = int(parts[1].split("=")[1])
        sel = parse_entries(parts[3]) if len(parts) > 3 else []
        got = parse_entries(code) if code.startswith("ok") else None
        if got is None:
            if not sel and is_empty_result(code):
                return True, ""
            return False, "expected bucket means"
        if len(got) > 2 * n:
            return False, f"more than 2n = {2 * n} samples"
        if not sel:
            return (got == []), "expected nothing"
        if got == []:
            # every bucket incomplete: some b > len(sel)/1 ... any b > len(sel) yields nothing
            return True, ""
        if matches_some_bucket(sel, got):
            return True, ""
        return False, "not the uniform bucket means of the lines in range for any bucket size"
    if spec.startswith("~sub "):
        parts = spec.split(" ", 2)
        frm = int(parts[1].split("=")[1])
        full = parse_entries(parts[2]) if len(parts) > 2 else []
        got = parse_entries(code) if code.startswith("ok") else None
        if got is None:
            return False, "with consent the read must return lines, not " + code[:40]
        # sublist of the genuine lines, in order
        it = iter(full)
        if not all(any(g == f for f in it) for g in got):
            return False, "returned a line that was never appended (fabricated or re-timed)"
        need = full[frm:]
        if need and got[-len(need):] != need:
            return False, "did not resume at the next intact section"
        return True, ""
    if spec.startswith("~buckets"):
        # C09 bucket for bucket: the cache file decodes to the expected bucket means, except at the listed
        # bucket numbers (the bucket straddling a cut of the source), where anything - also absence - goes
        parts = spec.split(" ", 4)
        kv = dict(x.split("=", 1) for x in parts[1:4])
        want = parse_entries(parts[4] if len(parts) > 4 else "ok -") or []
        dev = set(int(x) for x in kv["dev"].split(",") if x)
        if not code.startswith("ok ") or code == "ok absent":
            return False, "the cache file is missing"
        try:
            raw = bytes.fromhex(code[3:].strip())
        except ValueError:
            return False, "unreadable"
        got = decode_region(raw[int(kv["hdr"]):], int(kv["p"]))
        if got is None:
            return False, "the cache file does not decode as the documented format"
        for i in range(max(len(got), len(want))):
            if i in dev:
                continue
            a = got[i] if i < len(got) else None
            b = want[i] if i < len(want) else None
            if a != b:
                return False, f"bucket {i}: cache holds {a}, one uninterrupted session gives {b} (buckets that may deviate: {sorted(dev)})"
        return True, ""
    if spec.startswith("~readnc"):
        parts = spec.split(" ", 6)
        kv = dict(x.split("=", 1) for x in parts[1:6])
        n, p = int(kv["n"]), int(kv["p"])
        log = parse_entries(parts[6]) if len(parts) > 6 else []
        got = parse_entries(code) if code.startswith("ok") else None
        if got is None:
            return (is_empty_result(code) and not select(log, kv["s"], kv["e"])), "expected bucket means of one stored level"
        if len(got) > 2 * n:
            return False, f"more than 2n = {2 * n} samples"
        if any(a[0] >= b[0] for a, b in zip(got, got[1:])):
            return False, "timestamps not strictly increasing"
        levels = [log] + [bucket_means(log, int(B)) for B in kv["caches"].split(",") if B]
        for lv in levels:
            sel = select(lv, kv["s"], kv["e"])
            if got == []:
                return True, ""
            if matches_some_bucket(sel, got):
                return True, ""
        if got and any(not in_bounds(t, kv["s"], kv["e"]) for t, _ in got):
            return False, "sample outside the requested bounds"
        return False, "not the uniform bucket means of any stored level's lines in range"
    return True, ""


def decode_region(b, p):
    """reference decoder of a data region (documented layout): list of (ts, payload hex) or None"""
    ls = p + 2
    if len(b) % ls:
        return None
    lines = [b[i:i + ls] for i in range(0, len(b), ls)]
    nraw = {0: 4, 1: 2, 2: 1, 3: 1}.get(p, 0)
    out, full, i = [], None, 0
    while i < len(lines):
        l = lines[i]
        if l[:2] == b"\xff\xff" and i + 1 < len(lines) and lines[i + 1][:2] == b"\xff\xff":
            if i + 2 + nraw > len(lines):
                return None
            tsb = l[2:] + lines[i + 1][2:] + b"".join(lines[i + 2:i + 2 + nraw])
            full = int.from_bytes(tsb[:8], "little")
            i += 2 + nraw
            continue
        if full is None:
            return None
        out.append((full + int.from_bytes(l[:2], "little"), l[2:].hex() if p else "-"))
        i += 1
    return out


def in_bounds(t, s, e):
    ok = True
    if s != "U":
        k, v = s.split(":")
        ok = ok and (t >= int(v) if k == "I" else t > int(v))
    if e != "U":
        k, v = e.split(":")
        ok = ok and (t <= int(v) if k == "I" else t < int(v))
    return ok


def select(entries, s, e):
    return [x for x in entries if in_bounds(x[0], s, e)]


def canon_pair(code, model, spec):
    """canonicalise code/model observations before comparing them with each other"""
    if spec == "~empty" or spec.startswith("~nlines k=0 "):
        c = "empty" if (is_empty_result(code) or code == "ok 0") else code
        m = "empty" if (is_empty_result(model) or model == "ok 0") else model
        return c, m
    return code, model


def project_files(text, roles):
    d = parse_files(text)
    if d is None or roles is None:
        return text
    keep = {k: v for k, v in d.items() if any(k == r or (r == "cache" and k.startswith("c")) for r in roles)}
    return "ok " + " ".join(f"{k}={v}" for k, v in sorted(keep.items()))


class Result:
    def __init__(self):
        self.kind = "pass"       # pass | prop | corr | modelspec | infra
        self.op_index = None
        self.op = None
        self.code = self.model = self.spec = None
        self.why = ""
        self.nops = 0
        self.checked = 0
        self.code_out = []
        self.model_out = []
        self.spec_out = []
        self.tags = set()


def judge(script, proj, timeout=120, audit=False):
    """proj: dict with
         ops   : set of op commands compared (None = all)
         roles : for `files`, the roles compared (None = all listed by the spec)
         nopanic : if True, any `panic`/hang in ANY op is a property failure (C19)
    """
    ops = script_ops(script)
    res = Result()
    res.nops = len(ops)
    code, cstat = run_code(script, timeout=timeout, audit=audit)
    model, spec, mstat = run_model(script, audit=audit)
    fs_code, fs_model = [], []
    if audit:
        def split(lines):
            outs, tags = [], []
            for l in lines:
                if " #fs=" in l:
                    a, b = l.rsplit(" #fs=", 1)
                else:
                    a, b = l, "?"
                outs.append(a)
                tags.append(b)
            return outs, tags
        code, fs_code = split(code)
        model, fs_model = split(model)
    res.code_out, res.model_out, res.spec_out = code, model, spec
    if mstat != "ok" or len(model) != len(ops) or len(spec) != len(ops):
        res.kind = "infra"
        res.why = f"driver status {mstat}, {len(model)}/{len(ops)} lines"
        return res
    if cstat == "hang" or len(code) < len(ops):
        # the op after the last output hung or killed the process
        code = code + ["hang" if cstat == "hang" else "abort"] + ["-"] * (len(ops) - len(code) - 1)
    pending = None
    for i, op in enumerate(ops):
        cmd = op.split()[0]
        c, m, s = code[i], model[i], spec[i]
        if proj.get("region") and c == m and c == "panic":
            # inside the region of the recorded finding the model predicts this very panic:
            # the tie model-code holds, the property is not judged here (known finding)
            break
        if c in ("hang", "abort") or (proj.get("nopanic") and c == "panic"):
            # never acceptable for any property that looks at this op; for others stop judging
            if proj.get("nopanic") or proj["ops"] is None or cmd in proj["ops"]:
                res.kind = "prop" if (proj.get("nopanic") or s != "~none") else "corr"
                res.op_index, res.op, res.code, res.model, res.spec = i, op, c, m, s
                res.why = f"the call ended in {c}"
                res.model_agrees = (c == m)
                return res
            break
        if proj["ops"] is not None and cmd not in proj["ops"]:
            continue
        res.checked += 1
        if proj.get("fsaudit"):
            fc = fs_code[i] if i < len(fs_code) else "?"
            fm = fs_model[i] if i < len(fs_model) else "?"
            if cmd in ("push", "pushrun"):
                okfs = fc in ("same", "append")
            elif cmd == "open":
                okfs = True      # open may repair (shorten) or rebuild; what it does is tied to the model below
            else:
                okfs = fc == "same"
            if not okfs:
                res.kind = "prop"
                res.op_index, res.op, res.code, res.model, res.spec = i, op, c + " #fs=" + fc, m + " #fs=" + fm, "files unchanged" if cmd not in ("push", "pushrun") else "files only grow at the end"
                res.why = "the call changed files in a way the property forbids"
                res.model_agrees = (fc == fm)
                return res
            if fc != fm:
                res.kind = "corr"
                res.op_index, res.op, res.code, res.model, res.spec = i, op, c + " #fs=" + fc, m + " #fs=" + fm, s
                res.why = "implementation and model change files differently"
                return res
            continue
        roles = proj.get("roles") if cmd == "files" else None
        ok_spec, why = meets_spec(op, c, s, roles)
        if cmd == "files":
            c2, m2 = project_files(c, roles), project_files(m, roles)
        else:
            c2, m2 = canon_pair(c, m, s)
        ok_model = (c2 == m2)
        if proj.get("region"):
            ok_ms0, _ = meets_spec(op, m, s, roles)
            if not ok_ms0:
                # the model itself deviates from the specification here: this is the recorded
                # defect at work (the theorems exclude it by hypothesis).  Only the tie between
                # model and code is judged on this op.
                if not ok_model:
                    res.kind = "corr"
                    res.op_index, res.op, res.code, res.model, res.spec = i, op, c, m, s
                    res.why = "implementation and model disagree (inside the known-finding region)"
                    return res
                continue
        if not ok_spec:
            res.kind = "prop"
            res.op_index, res.op, res.code, res.model, res.spec = i, op, c, m, s
            res.why = why
            res.model_agrees = ok_model
            return res
        if not ok_model:
            # does the MODEL contradict the spec here?  then the proof side is what broke
            ok_ms, _ = meets_spec(op, m, s, roles)
            k_ = "corr" if ok_ms else "modelspec"
            if pending is None:
                # keep looking: a later op of the same script may fail the PROPERTY itself (implementation
                # against specification, which does not depend on the model) - that is the better replay
                pending = (k_, i, op, c, m, s)
            continue
    if pending is not None:
        res.kind, res.op_index, res.op, res.code, res.model, res.spec = pending
        res.why = "implementation and model disagree"
    return res


def shrink(script, proj, kind, timeout=120, budget=60):
    """greedy removal of op lines while the same kind of failure persists"""
    ops = script_ops(script)
    tries = 0
    changed = True
    while changed and tries < budget:
        changed = False
        i = len(ops) - 1
        while i >= 1 and tries < budget:      # keep op 0 (new/open)
            cand = ops[:i] + ops[i + 1:]
            tries += 1
            r = judge("\n".join(cand) + "\n", proj, timeout=timeout)
            if r.kind == kind:
                ops = cand
                changed = True
            i -= 1
    return "\n".join(ops) + "\n"


def script_hash(script):
    return hashlib.sha1(script.encode()).hexdigest()[:12]
