"""Per-property configuration: projection (which observations are compared), generator,
Lean modules and theorems that carry the proof side."""
import gen

READS = {"read_all"}


def _has(tag):
    return lambda s, r, tags: tag in tags


CORE_READER = [("BS.Props.C01", "BS.Props.C01.buffer_size_irrelevant"), ("BS.Props.C01", "BS.Props.C01.carry_fits")]

THEOREMS = {
    "C01": (["BS.Props.C01"], [("BS.Props.C01", "BS.Props.C01.full_read_roundtrip"),
                                ("BS.Props.C01", "BS.Props.C01.read_all_returns_history"),
                                ("BS.Props.C01", "BS.Props.C01.buffer_size_irrelevant"),
                                ("BS.Props.C01", "BS.Props.C01.carry_fits")]),
    "C02": (["BS.Props.C02"], [("BS.Props.C02", "BS.Props.C02.range_read_exact"),
                                ("BS.Props.C02", "BS.Props.C02.seek_exact"),
                                ("BS.Props.C02", "BS.Props.C02.start_side"),
                                ("BS.Props.C02", "BS.Props.C02.end_side")]),
    "C14": (["BS.Props.C14"], [("BS.Props.C14", "BS.Props.C14.count_consistent"),
                                ("BS.Props.C14", "BS.Props.C14.range_bytes")]),
    "C03": (["BS.Props.C03"], [("BS.Props.C03", "BS.Props.C03.accept_iff_strictly_newer"),
                                ("BS.Props.C03", "BS.Props.C03.refused_step_is_noop")]),
    "C04": (["BS.Props.C04"], [("BS.Props.C04", "BS.Props.C04.reopen_preserves"),
                                ("BS.Props.C04", "BS.Props.C04.repair_is_identity_on_intact"),
                                ("BS.Props.C04", "BS.Props.C04.last_meta_timestamp_exact"),
                                ("BS.Props.C04", "BS.Props.C04.window_larger_than_overlap"),
                                ("BS.Props.C04", "BS.Props.C04.api_reopen_preserves"),
                                ("BS.Props.C04", "BS.Props.C04.read_after_reopen")]),
    "C05": (["BS.Props.C05"], [("BS.Props.C05", "BS.Props.C05.open_recovers_written_prefix"),
                                ("BS.Props.C05", "BS.Props.C05.repair_yields_written_prefix"),
                                ("BS.Props.C05", "BS.Props.C05.repair_unconditional_ge4"),
                                ("BS.Props.C05", "BS.Props.C05.tailClean_needed_counterexample"),
                                ("BS.Props.C05", "BS.Props.C05.fourth_repair_stage_is_dead"),
                                ("BS.Props.C05", "BS.Props.C05.rebuilt_index_of_repaired"),
                                ("BS.Props.C05", "BS.Props.C05.api_open_recovers_prefix")]),
    "C06": (["BS.Props.C06"], [("BS.Props.C06", "BS.Props.C06.incremental_index_exact"),
                                ("BS.Props.C06", "BS.Props.C06.rebuild_equals_incremental"),
                                ("BS.Props.C06", "BS.Props.C06.prior_index_state_irrelevant"),
                                ("BS.Props.C06", "BS.Props.C06.chunk_size_irrelevant"),
                                ("BS.Props.C06", "BS.Props.C06.rebuilt_file_bytes")]),
    "C12": (["BS.Props.C12"], [("BS.Props.C12", "BS.Props.C12.last_line_is_last"),
                                ("BS.Props.C12", "BS.Props.C12.len_after_reopen"),
                                ("BS.Props.C12", "BS.Props.C12.len_is_count"),
                                ("BS.Props.C12", "BS.Props.C12.range_is_first_last"),
                                ("BS.Props.C12", "BS.Props.C12.size_formula")]),
    "C15": (["BS.Props.C15"], [("BS.Props.C15", "BS.Props.C15.push_keeps_canonical"),
                                ("BS.Props.C15", "BS.Props.C15.size_formula"),
                                ("BS.Props.C15", "BS.Props.C15.section_rule")]),
    "C07": (["BS.Props.C07", "BS.Props.C07Lead"], [("BS.Props.C07Lead", "BS.Props.C07.reader_reads_any_layout_with_leads"),
                                ("BS.Props.C07Lead", "BS.Props.C07.reference_decoder_reads_any_layout_with_leads"),
                                ("BS.Props.C07Lead", "BS.Props.C07.leads_generalise_any_layout"),
                                ("BS.Props.C07", "BS.Props.C07.whole_file_decodes"),
                                ("BS.Props.C07", "BS.Props.C07.reference_decoder_reads_canonical"),
                                ("BS.Props.C07", "BS.Props.C07.section_layout_is_documented"),
                                ("BS.Props.C07", "BS.Props.C07.section_roundtrip"),
                                ("BS.Props.C07", "BS.Props.C07.reader_reads_canonical"),
                                ("BS.Props.C07", "BS.Props.C07.reader_reads_any_layout"),
                                ("BS.Props.C07", "BS.Props.C07.index_rebuilt_for_any_layout"),
                                ("BS.Props.C07", "BS.Props.C07.reference_decoder_reads_any_layout"),
                                ("BS.Props.C07", "BS.Props.C07.any_layout_generalises_canonical")]),
    "C10": (["BS.Props.C10"], [("BS.Props.C10", "BS.Props.C10.sampler_is_bucket_means"),
                                ("BS.Props.C10", "BS.Props.C10.resampling_read_of_region"),
                                ("BS.Props.C10", "BS.Props.C10.read_n_of_any_range"),
                                ("BS.Props.C10", "BS.Props.C10.bucketMeans_length"),
                                ("BS.Props.C10", "BS.Props.C10.at_most_2n")]),
    "C11": (["BS.Props.C11", "BS.Props.C10", "BS.Props.C11Caches"], [("BS.Props.C11Caches", "BS.Props.C11.read_n_through_caches"),
                                ("BS.Props.C11Caches", "BS.Props.C11.samples_increasing_within_bounds"),
                                ("BS.Props.C11Caches", "BS.Props.C11.level_selection_total"),
                                ("BS.Props.C11Caches", "BS.Props.C11.estimate_total_for_any_seek"),
                                ("BS.Props.C11", "BS.Props.C11.estimate_total"),
                                ("BS.Props.C11", "BS.Props.C11.unreachable_arm"),
                                ("BS.Props.C10", "BS.Props.C10.sampler_is_bucket_means"),
                                ("BS.Props.C10", "BS.Props.C10.at_most_2n")]),
    "C13": (["BS.Props.C13"], [("BS.Props.C13", "BS.Props.C13.first_n_is_prefix"),
                                ("BS.Props.C13", "BS.Props.C13.first_n_of_any_range"),
                                ("BS.Props.C13", "BS.Props.C13.processor_takes_prefix"),
                                ("BS.Props.C13", "BS.Props.C13.paging_visits_every_line_once")]),
    "C16": (["BS.Props.C16", "BS.Props.C16Session"], [("BS.Props.C16Session", "BS.Props.C16.push_line_only_appends"),
                                ("BS.Props.C16Session", "BS.Props.C16.queries_never_write"),
                                ("BS.Props.C16", "BS.Props.C16.pushData_appends"),
                                ("BS.Props.C16", "BS.Props.C16.pushData_error_no_state"),
                                ("BS.Props.C16", "BS.Props.C16.cacheProcess_appends")]),
    "C08": (["BS.Props.C08"], [("BS.Props.C08", "BS.Props.C08.caches_exact_in_one_session"),
                                ("BS.Props.C08", "BS.Props.C08.cache_created_over_existing_data"),
                                ("BS.Props.C08", "BS.Props.C08.appending_keeps_caches_exact"),
                                ("BS.Props.C08", "BS.Props.C08.bucketMeans_length"),
                                ("BS.Props.C08", "BS.Props.C08.bucketMeans_get")]),
    "C19": (["BS.Props.C19", "BS.Props.C11", "BS.Props.C04"], [("BS.Props.C19", "BS.Props.C19.queries_never_panic"),
                                ("BS.Props.C19", "BS.Props.C19.queries_never_panic_with_caches"),
                                ("BS.Props.C19", "BS.Props.C19.appends_never_panic"),
                                ("BS.Props.C19", "BS.Props.C19.oversized_header_is_error"),
                                ("BS.Props.C11", "BS.Props.C11.estimate_total"),
                                ("BS.Props.C04", "BS.Props.C04.last_meta_timestamp_exact")]),
    "C09": (["BS.Props.C09", "BS.Props.C09All"], [("BS.Props.C09All", "BS.Props.C09.apiOpen_after_any_crash"),
                                ("BS.Props.C09All", "BS.Props.C09.openCaches_after_any_crash"),
                                ("BS.Props.C09All", "BS.Props.C09.crashedCache_of_session"),
                                ("BS.Props.C09", "BS.Props.C09.cache_restored_on_open"),
                                ("BS.Props.C09", "BS.Props.C09.append_close_reopen_keeps_caches"),
                                ("BS.Props.C09", "BS.Props.C09.any_mix_of_appends_and_reopens"),
                                ("BS.Props.C09", "BS.Props.C09.reopen_repairs_source_and_caches"),
                                ("BS.Props.C09", "BS.Props.C09.resume_point_exact"),
                                ("BS.Props.C09", "BS.Props.C09.cache_ahead_of_torn_source"),
                                ("BS.Props.C09", "BS.Props.C09.kept_bucket_is_the_only_deviation"),
                                ("BS.Props.C09", "BS.Props.C09.appends_keep_general_invariant"),
                                ("BS.Props.C09", "BS.Props.C09.cache_reopened_after_any_crash"),
                                ("BS.Props.C09", "BS.Props.C09.cache_state_meaning"),
                                ("BS.Props.C09", "BS.Props.C09.no_deviation_is_exact")]),
    "C17": (["BS.Props.C17"], [("BS.Props.C17", "BS.Props.C17.header_and_size_stored_and_enforced"),
                                ("BS.Props.C17", "BS.Props.C17.reopen_returns_header_and_size"),
                                ("BS.Props.C17", "BS.Props.C17.wrong_payload_size_is_error"),
                                ("BS.Props.C17", "BS.Props.C17.open_missing_creates_nothing"),
                                ("BS.Props.C17", "BS.Props.C17.create_over_existing_untouched"),
                                ("BS.Props.C17", "BS.Props.C17.oversized_header_creates_nothing")]),
    "C18": (["BS.Props.C18"], [("BS.Props.C18", "BS.Props.C18.no_consent_is_error"),
                                ("BS.Props.C18", "BS.Props.C18.skipping_drops"),
                                ("BS.Props.C18", "BS.Props.C18.consent_resumes_at_next_section")]),
}

PROPS = {
    "C01": {
        "proj": {"ops": {"read_all"}},
        "gen": gen.gen_C01,
        "nontrivial": lambda s, r, t: "result:nonempty" in t,
    },
    "C02": {
        "proj": {"ops": {"read_all"}},
        "gen": gen.gen_C02,
    },
    "C03": {
        "proj": {"ops": {"push", "pushrun", "files", "range", "len", "read_all"}, "roles": ["data", "index", "cache"]},
        "gen": gen.gen_C03,
        "nontrivial": lambda s, r, t: any(x.startswith("err:TimeNotAfterLast") or x.startswith("err:WrongLineLength") for x in t),
    },
    "C04": {
        "proj": {"ops": {"open", "files", "read_all", "len", "range", "last_line", "payload_size", "is_empty", "pushrun", "push"},
                 "roles": ["data"]},
        "gen": gen.gen_C04,
        "timeout": 60,
    },
    "C07": {
        "proj": {"ops": {"files", "read_all", "open", "len", "range", "payload_size", "read_first_n", "last_line", "n_lines"}, "roles": ["data"]},
        "gen": gen.gen_C07,
    },
    "C12": {
        "proj": {"ops": {"len", "is_empty", "range", "last_line", "payload_size", "read_all"}},
        "gen": gen.gen_C12,
    },
    "C13": {
        "proj": {"ops": {"read_first_n", "page"}},
        "gen": gen.gen_C13,
    },
    "C14": {
        "proj": {"ops": {"n_lines", "read_all"}},
        "gen": gen.gen_C14,
    },
    "C15": {
        "proj": {"ops": {"files"}, "roles": ["data"]},
        "gen": gen.gen_C15,
    },
    "C05": {
        "proj": {"ops": {"open", "read_all", "len", "range", "last_line", "pushrun", "push", "files"}, "roles": ["data"]},
        "gen": gen.gen_C05,
    },
    "C06": {
        "proj": {"ops": {"files", "open", "len", "range", "read_all", "pushrun", "push"}, "roles": ["index", "data", "cache"]},
        "gen": gen.gen_C06,
    },
    "C08": {
        "proj": {"ops": {"files"}, "roles": ["cache"]},
        "gen": gen.gen_C08,
    },
    "C09": {
        "proj": {"ops": {"files", "open", "get"}, "roles": ["cache"]},
        "gen": gen.gen_C09,
    },
    "C10": {
        "proj": {"ops": {"read_n"}},
        "gen": gen.gen_C10,
    },
    "C11": {
        "proj": {"ops": {"read_n"}},
        "gen": gen.gen_C11,
    },
    "C16": {
        "proj": {"ops": {"push", "pushrun", "read_all", "len", "range", "last_line", "is_empty", "payload_size",
                         "n_lines", "read_first_n", "read_n", "page", "open"}, "fsaudit": True},
        "gen": gen.gen_C16,
        "audit": True,
    },
    "C17": {
        "proj": {"ops": {"new", "open", "files", "payload_size"}, "roles": None},
        "gen": gen.gen_C17,
    },
    "C18": {
        "proj": {"ops": {"read_all"}},
        "gen": gen.gen_C18,
    },
    "C19": {
        "proj": {"ops": None, "nopanic": True},
        "gen": gen.gen_C19,
        "timeout": 60,
    },
}

# the tie by translation (DESIGN.md §15): theorems of BS/Proofs/GenTie.lean `translated Rust function
# = model function` that the property's theorem chain rests on
TIE_LAYOUT = ["MAX_SMALL_TS_tie", "lines_per_metainfo_tie", "line_size_tie", "metainfo_size_tie"]
TIE_META = ["PREAMBLE_eq", "write_tie", "metaTs_eq", "read_tie_p0", "read_tie_p1", "read_tie_p2", "read_tie_p3", "read_tie_ge4", "read_tie"]
TIE_SEEK = TIE_LAYOUT + ["line_start_tie", "next_line_start_tie", "in_gap_tie", "first_meta_timestamp_tie", "range_tie",
                         "checked_start_time_tie", "checked_end_time_tie", "smallOf_tie", "end_small_ts_tie", "start_small_ts_tie",
                         "start_search_bounds_tie", "end_search_bounds_tie", "rough_pos_new_tie", "refine_tie"]
TIE_LEN = TIE_LAYOUT + ["data_len_tie", "last_line_start_tie"]
TIE_LINEPOS = TIE_LEN + ["line_start_tie", "linePosBody_eq", "line_pos_loop", "index_line_pos_tie", "data_line_pos_tie"]
TIE_CATCHUP = ["cacheOpen_follows_plan", "add_missing_data_tie"]
TIE_PROCESS = ["process_tie"]
TIE_SAMPLER = ["sampler_process_tie"]
TIE_PUSHLINE = ["time_range_update_tie", "push_line_tie"]
TIE_PUSHDATA = ["index_update_tie", "push_data_tie"]
TIE_REPAIR = ["repair_incomplete_last_write_tie", "repaired_is_only_meta_tie", "file_new_tie"]
TIES = {
    "C16": ["push_line_tie", "time_range_update_tie", "process_tie"] + TIE_PUSHDATA + TIE_REPAIR,
    "C01": TIE_SEEK + TIE_META + TIE_PUSHDATA, "C02": TIE_SEEK, "C13": TIE_SEEK, "C18": TIE_SEEK,
    "C14": TIE_SEEK + ["pos_lines_tie"], "C10": TIE_SEEK + ["pos_lines_tie"] + TIE_SAMPLER,
    "C11": TIE_SEEK + ["pos_lines_tie", "estimate_lines_tie", "data_len_tie"] + TIE_SAMPLER,
    "C19": TIE_SEEK + ["pos_lines_tie", "estimate_lines_tie"] + [t for t in TIE_LINEPOS if t not in TIE_SEEK] + TIE_CATCHUP + TIE_PROCESS,
    "C09": TIE_LINEPOS + TIE_CATCHUP + TIE_PROCESS, "C08": TIE_LINEPOS + TIE_CATCHUP + TIE_PROCESS + TIE_PUSHLINE,
    "C12": TIE_LEN + ["range_tie", "first_meta_timestamp_tie"] + TIE_PUSHLINE,
    "C04": TIE_LEN + TIE_META + TIE_REPAIR, "C05": TIE_LEN + TIE_REPAIR, "C06": TIE_LEN + TIE_META + TIE_PUSHDATA,
    "C07": TIE_LAYOUT + TIE_META, "C15": TIE_LAYOUT + TIE_META + TIE_PUSHDATA,
    "C03": ["MAX_SMALL_TS_tie", "process_tie"] + TIE_PUSHLINE + TIE_PUSHDATA,
}

# property-level statements about the TRANSLATED functions (BS/Props/GenCore.lean)
GENCORE = {
    "C02": ["gen_seek_spec", "gen_seek_is_model", "fileFits_of_inv"], "C13": ["gen_seek_spec"], "C14": ["gen_seek_spec"],
    "C10": ["gen_seek_spec"], "C01": ["gen_seek_spec", "gen_write_is_documented_section", "gen_push_data_keeps_documented_format"],
    "C16": ["gen_push_data_only_appends", "gen_open_repair_identity_on_intact"], "C06": ["gen_push_data_keeps_documented_format"],
    "C04": ["gen_open_repair_identity_on_intact"], "C05": ["gen_open_repair_yields_written_prefix"],
    "C11": ["gen_estimate_total", "gen_seek_spec"], "C19": ["gen_estimate_total", "gen_seek_spec"],
    "C09": ["gen_line_pos_exact", "linePosFits_of_inv"], "C08": ["gen_line_pos_exact"],
    "C07": ["gen_write_is_documented_section"], "C15": ["gen_write_is_documented_section", "gen_push_data_keeps_documented_format"],
}

# further modules about translated functions that are NOT part of BS/Proofs/GenTie.lean (they import GenCore):
# property -> (module, theorems, translated functions the module needs)
GENEXTRA = {
    "C14": ("BS.Props.GenNLines", ["gen_n_lines_is_model"], ["ByteSeries_n_lines_between"]),
}

for _pid, _cfg in PROPS.items():
    _cfg["ties"] = TIES.get(_pid, [])
    mods, thms = THEOREMS.get(_pid, (["BS.Props.C01"], CORE_READER))
    if _pid in GENCORE:
        mods = list(mods) + ["BS.Props.GenCore"]
        thms = list(thms) + [("BS.Props.GenCore", "BS.Gen." + t) for t in GENCORE[_pid]]
    if _pid in GENEXTRA:
        _m, _t, _needs = GENEXTRA[_pid]
        mods = list(mods) + [_m]
        thms = list(thms) + [(_m, "BS.Gen." + t) for t in _t]
        _cfg["genextra"] = (_m, _needs)
    _cfg["lean_modules"] = mods
    _cfg["theorems"] = thms

LEVEL_TEXT = {
 "C01": "Kernel-checked for every payload size, every valid history (strictly increasing timestamps < 2^64, arbitrary payload bytes) and every buffer size: the buffered reader with carry-over equals a single pass (T3), scanning what the writer emits feeds the processor exactly the appended entries (T1), push_data keeps the files canonical (T2), and under the session invariant read_all(..) returns exactly the history (read_all_returns_history); the invariant is established by ByteSeries::new, kept by any sequence of append attempts and re-established by any reopen (C03/C04/C05 theorems through the API model), so this holds in every reachable state. The tie to the Rust code is the differential check (sparse/dense series over several 16 KiB buffers for every payload class, marker-like bytes, timestamps up to 2^64-1).",
 "C02": "Kernel-checked at full strength on the model: for EVERY pair of bounds (inclusive/exclusive/unbounded, anywhere relative to the data, in gaps, at delta edges) read_all(range) under the session invariant returns exactly the entries inside the bounds, or an empty result / range error when there are none (range_read_exact, seek_exact with start_side/end_side). Differential: every critical value as one-sided bound of each kind plus random pairs, on histories with gaps and delta edges.",
 "C03": "Kernel-checked on the model: push_line accepts iff the payload has the configured length and the timestamp is strictly newer (or the series is empty); a refusal returns the old directory and no new session; an acceptance re-establishes the session invariant, so the rule persists (accept_iff_strictly_newer); builder.open after close or after a torn tail re-establishes the same invariant for the surviving lines (C04.api_reopen_preserves, C05.api_open_recovers_prefix), so the rule is then relative to the last surviving line. Differential: refused appends of every kind, several in a row, across reopens, with files/range/len/read_all compared after each.",
 "C04": "Kernel-checked on the model, end to end through the API: create (any payload size, header) -> ANY sequence of append attempts -> close -> builder.open with the index file in any legitimate prior state: succeeds, data file byte-identical, session invariant re-established for exactly the accepted history, so read_all/len/range/last_line and the append rule are those of one uninterrupted session, any number of times (api_reopen_preserves, read_after_reopen, reopen_preserves); last_meta_timestamp terminates, never panics and is exact for every line size (last_meta_timestamp_exact, window_larger_than_overlap). Hypothesis TailClean (no marker-like raw timestamp line; empty for payload >= 4) is the recorded known finding marker-tail. Reopen with caches configured is C09's ground (differential).",
 "C05": "Kernel-checked on the model, end to end through the API: create -> ANY append attempts -> data file cut at ANY byte x index file in ANY legitimate prior state (absent, cut at any byte, lagging, shorter than its header) -> builder.open succeeds and yields the canonical files and a session whose history is exactly the completely written prefix (api_open_recovers_prefix, open_recovers_written_prefix, repair_yields_written_prefix; unconditional for payload >= 4). For payload < 4 the hypothesis TailClean is needed - proved necessary by tailClean_needed_counterexample and recorded as known finding marker-tail. Differential: cut-point enumeration incl. every header line boundary x index states incl. stale .part, large files, crash-repair-append chains.",
 "C06": "Kernel-checked on the model: the incrementally maintained index (file bytes and entries) is exactly the section list of the data after every accepted append; an index rebuilt from the data is identical to it for every file length and chunk size; no legitimate prior state of the index file influences the result of an open (incremental_index_exact, rebuild_equals_incremental, rebuilt_file_bytes, prior_index_state_irrelevant, chunk_size_irrelevant). Differential incl. the window-sweep battery for the backwards last-timestamp search.",
 "C07": "Kernel-checked: the independent reference decoder of Spec.lean (knows only the documented layout, shares no definition with the model) decodes the WHOLE canonical file of any valid history - header lengths, preamble text, payload size, user header of any bytes, data region - to exactly (user header, payload size, history) (whole_file_decodes), and every canonical data region to exactly what was appended; meta::write is byte-for-byte the documented section layout and meta::read inverts it for all five layouts; the library's reader reads every canonical region (reference_decoder_reads_canonical, section_layout_is_documented, section_roundtrip, reader_reads_canonical). The header text round trip is T10 (C17). Differential, forward direction: every file the library writes is compared byte-for-byte with the Lean spec encoder's file (all-bytes-distinct timestamps for every section layout); reverse direction: files written by earlier releases (the repository's assets, up to 500 KB) are planted byte for byte, decoded by the specification's independent reference decoder, and the library has to read back exactly that - with the shipped index and with the index rebuilt; the same for files built by a third, independent encoder (Python, in the generator) that are laid out as documented but NOT canonical (sections where none is needed, every line in its own section), which are also continued by appends. Reverse direction as theorems, at the level of the reader: for ANY layout the documentation allows (Spec.encodeW: a section in front of the first line and wherever the delta does not fit, and in front of any other line the writer liked - older releases, other writers; the canonical file is the special case) the model of read_with_processor over the whole region feeds the processor exactly the history (reader_reads_any_layout), the index rebuilt from such a file lists exactly its sections (index_rebuilt_for_any_layout), and the independent reference decoder decodes it to the same history (reference_decoder_reads_any_layout). The widest reading - a section may carry a full time that lies BEFORE the entry it precedes (non-zero first 16-bit time; a writer that stores the full time on its own schedule; Spec.encodeL, of which encodeW is the case lead = 0) - is covered as well: reader_reads_any_layout_with_leads, reference_decoder_reads_any_layout_with_leads. Bounded reads / seeks over non-canonical files through the whole API (builder.open of a foreign file, then range reads) remain differential, and for files with leads they are not demanded (DESIGN.md 15.4).",
 "C08": "Kernel-checked at full strength on the model, for the harness's integer resampler: create a series with any payload size, header and any cache configuration (distinct bucket sizes 1 <= B <= 2^32), make ANY sequence of append attempts with timestamps < 2^64: no panic, and for EVERY level the cache data file is byte for byte header ++ encode(bucketMeans B history) and its index canonical (caches_exact_in_one_session, via the invariant cacheProcess_inv lifted to all reachable states by pushAll_inv); a cache created over pre-existing data of any length holds exactly the bucket means with the trailing bucket only in the accumulator (cache_created_over_existing_data), and further appends keep it exact (appending_keeps_caches_exact); bucketMeans is characterised entry by entry (bucketMeans_get/_length). Sums are u128/u64 as in the code: no overflow is part of the theorem. The generic ResampleState contract of other resamplers is an assumption.",
 "C09": "Kernel-checked on the model (integer resampler): a cache that is missing, intact or torn at ANY byte, with its index in any legitimate prior state, is brought back on open to exactly header ++ encode(bucketMeans B history) with the open bucket in the accumulator - for every line count of the source, every 1 <= B <= 2^32, every payload size and timestamp magnitude (cache_restored_on_open; the resume point line_pos is exact for every line number: resume_point_exact); one round of 'any append attempts, close, builder.open with the same configuration' re-establishes the invariant for the source and EVERY cache level and leaves source and intact cache files byte-identical, so any mix of appends and reopens equals one uninterrupted session (append_close_reopen_keeps_caches; as ONE theorem over all sequences of append attempts and close/reopen steps from creation on, for payload >= 4: any_mix_of_appends_and_reopens); a cache file cut off inside its own file header is removed and recreated (after fix 5a923cc); after a crash (source cut at any byte, caches absent/torn relative to the surviving lines) the open repairs source and caches (reopen_repairs_source_and_caches). A cache that ran AHEAD of a torn source (written by a session that saw xs ++ lost for ANY lost lines, itself cut at any byte, holding more buckets than the surviving lines fill): the open succeeds and either empties and rebuilds the cache to exactly the uninterrupted-session state (only the in-memory last_time of a rebuilt cache that is still empty may be stale) or keeps exactly the one bucket straddling the end of the surviving lines, not newer than the last surviving line, and skips the lines it accounts for (cache_ahead_of_torn_source); from that state ANY further appends never fail or panic and the cache file stays a valid history that equals the uninterrupted-session cache in every position but that one (kept_bucket_is_the_only_deviation, by the two-phase invariant CacheSkipping / CacheDev). In repeated form (general invariant CacheInvD: the cache file is header ++ encode L for a valid L that agrees with bucketMeans B history outside a set D of deviating buckets; D empty = the uninterrupted-session file, which is what C08 proves from creation on): appends keep it with the same D (appends_keep_general_invariant), and after a crash that loses ANY tail of the source and cuts the cache file at ANY byte, with its index in any legitimate prior state (deleted included), open_or_create succeeds and re-establishes it with D grown by at most the bucket straddling the end of the surviving lines (cache_reopened_after_any_crash) - so after any mix of appends, reopens and crashes at most one bucket per crash deviates. For ALL levels of a configuration at once and through builder.open: apiOpen_after_any_crash (source torn at any byte, EVERY cache file cut at its own byte, every index in any legitimate state: the open succeeds, the source is the canonical file of the surviving prefix, every level satisfies the general invariant with at most the straddling bucket added; openCaches_after_any_crash; the hypotheses are met by whatever an uninterrupted session leaves: crashedCache_of_session). Source torn with the cache ahead is also run differentially (B in {1,2,3,4,10}, far-newer lost lines). Hypothesis TailClean for payload < 4 (known finding marker-tail).",
 "C10": "Kernel-checked on the model: read_n without caches, for EVERY pair of bounds and n >= 1 (files up to 2^32 lines): uniform bucket means with one bucket size b >= 1 of exactly the lines a full read of the range returns, at most 2n of them, no overflow (read_n_of_any_range, sampler_is_bucket_means, at_most_2n). The resampler is the harness's integer resampler over the library's own u64 ResampleState; the generic resampler contract is an assumption.",
 "C11": "Kernel-checked at full strength on the model: in every state satisfying the session invariant with any number of cache levels (listed by increasing bucket size), for every n >= 1 and EVERY pair of bounds, read_n never panics (ordering assert, level selection, estimate_lines incl. its unreachable! arm, seek, read), selects one stored level and returns exactly uniform bucket means (one b >= 1) of that level's stored lines inside the bounds, at most 2n of them, with strictly increasing timestamps all inside the requested bounds (samples_increasing_within_bounds), or an empty result / range error when the level has nothing in range (read_n_through_caches, level_selection_total, estimate_total_for_any_seek, unreachable_arm); the level's content is pinned by C08/C09 (cache B = bucketMeans B history). Differential: every stored level decoded independently and the result matched against it (judge ~readnc), caches longer in bytes than finer ones, ranges inside gaps of a cache.",
 "C12": "Kernel-checked on the model under the session invariant: len() = number of accepted lines, range() = first/last timestamp, last time = last line's timestamp, payload size constant; byte-size formula (len_is_count, range_is_first_last, size_formula), last_line() returns the last accepted line read back from the file (last_line_is_last). After reopen / repair / rebuild the invariant is re-established by C04/C05's open theorems through the API (len_after_reopen with api_reopen_preserves / api_open_recovers_prefix). Differential incl. the smallest series seen again after reopen and torn tails that lose several sections.",
 "C13": "Kernel-checked on the model: read_first_n(n >= 1, range) for EVERY pair of bounds returns the first min(n,k) of the k entries read_all(range) returns (first_n_of_any_range, processor_takes_prefix), and the paging loop of examples/read.rs (continue one past the last timestamp seen) ends within len+3 rounds having collected exactly the history, in order, for EVERY page size n >= 1 (paging_visits_every_line_once). Differential: first-n vs full reads for random ranges, page op for page sizes 1..len+1.",
 "C14": "Kernel-checked on the model for EVERY pair of bounds: n_lines_between is 0 / a range error iff no entry is in range, else k + lines_per_metainfo * m with m <= k sections opened by entries in range (count_consistent, range_bytes).",
 "C15": "Kernel-checked: push_data keeps data file = header ++ encode(history) where encode opens a section for the first line and iff the distance to the last full timestamp exceeds 65534 \u2014 a pure function of header and accepted lines; size formula; after any open - intact or after a tail torn at any byte - the file is again the canonical encoding of the surviving lines (C04.api_reopen_preserves, C05.api_open_recovers_prefix) (push_keeps_canonical, size_formula, section_rule).",
 "C16": "Kernel-checked on the model: push_line only appends - whatever it returns, every file of the series and of every cache level keeps its previous content as a prefix, none is created, deleted or truncated, for ANY directory and session state (push_line_only_appends; pushData_appends, cacheProcess_appends); every query operation leaves the directory exactly as it was (queries_never_write, over the whole step function). The tie to the code is the differential file audit: bsrun snapshots every file before and after every call and the change class (same/append/other) is compared with the model's and with the rule.",
 "C17": "Kernel-checked on the model: the header round trip for EVERY payload size a usize holds and EVERY user header (any bytes, incl. the parser's own patterns): what creation writes is parsed back to exactly that payload size and header, a different demanded payload size is refused with PayloadSizeChanged (header_and_size_stored_and_enforced = T10); through the whole API model create -> any appends -> close or crash -> builder.open (size demanded or retrieved, header demanded or any) returns the stored header, size and lines (reopen_returns_header_and_size); wrong size: error and the directory untouched; missing series: error, nothing created; create over existing: error, files untouched; oversized header: error, nothing left behind (4 theorems). Modelled, not proved: a demanded header that differs (decided by one comparison in the model), the path/extension handling and the OS create_new semantics - those are differential (header lengths around the 16-bit limit, binary headers, every option combination, directory listing before/after). One known finding (stale-cache-create).",
 "C18": "Kernel-checked on the model of read_with_processor, for every processor and every content around the damage: without consent the read stops with CorruptMetaSection exactly at the damaged section; with consent every line up to the next intact section is dropped without reaching the processor and reading resumes after that section with its timestamp (no_consent_is_error, skipping_drops, consent_resumes_at_next_section). Differential incl. damaged sections longer than one and two read buffers.",
 "C19": "Kernel-checked on the model: in every state satisfying the session invariant for ANY history (empty included; no caches) and for EVERY pair of bounds and EVERY n (0 included) read_all, read_first_n, read_n, n_lines_between, len, last_line return a value or an error, never a panic, and n = 0 returns nothing (queries_never_panic; read_n under <= 2^32 lines per file); creating a series with any admissible configuration and making ANY sequence of append attempts never panics (appends_never_panic, all cache levels included); an oversized header is an error that creates nothing (oversized_header_is_error); estimate_lines and last_meta_timestamp cannot fault or loop (C11, C04). Not covered by a theorem: open of damaged files beyond C05's hypotheses, read_n through caches, header parsing on foreign files - those are differential (extreme-argument cross product, panic hook, watchdog per script). Known finding marker-tail applies."
}

# what the theorems of a property do NOT cover (hypotheses left open, clauses carried by the
# differential check alone); copied into the evidence files
PARTIAL = {
 "C01": ["after a reopen: hypothesis TailClean for payload < 4 (known finding marker-tail)"],
 "C03": ["persistence across reopen/repair inherits TailClean for payload < 4"],
 "C04": ["hypothesis TailClean for payload < 4 (known finding marker-tail)", "file sizes below 2^64 bytes"],
 "C05": ["hypothesis TailClean for payload < 4 (known finding marker-tail)", "index file states other than byte prefixes of the true index (arbitrary garbage) are differential only"],
 "C06": ["after an open: inherits TailClean for payload < 4"],
 "C07": ["reverse direction: full reads and the index rebuild of ANY conformant layout are theorems; builder.open of a foreign file followed by bounded reads / seeks is differential (assets, independent Python encoder)"],
 "C08": ["theorems are for the harness's integer resampler over the library's own u64 ResampleState; the generic Resampler contract is assumed", "bucket sizes 1 <= B <= 2^32"],
 "C09": ["TailClean for payload < 4, for the source and for every cache", "appends after a crash keep the general invariant per cache level (appends_keep_general_invariant); lifting that through pushLine for several deviating levels at once is differential"],
 "C10": ["at most 2^32 lines per file (u64 value sums of the integer resampler)"],
 "C11": ["cache levels listed by increasing bucket size (documented precondition)", "at most 2^32 lines per level"],
 "C12": ["after reopen/repair: inherits TailClean for payload < 4"],
 "C14": [],
 "C15": ["after an open: inherits TailClean for payload < 4"],
 "C16": ["the operating system's append-mode semantics are modelled, not verified; the tie is the file audit"],
 "C17": ["path / extension handling and create_new semantics: differential only", "a demanded header that differs is decided by one comparison in the model (error-message code is outside the model)"],
 "C18": ["bounded reads after damage at the API level: model = code comparison only (the specification prescribes full reads)"],
 "C19": ["opens of damaged files outside C05's crash model: differential only", "read_n through caches: bucket sizes in increasing order", "known findings marker-tail and zero-bucket"],
}

TIE_TEXT = (" Tie by translation (re-checked on every run): the Rust functions of the decision/arithmetic core this property's theorem chain rests on are "
            "translated to Lean from the current source (BS/Generated/Core.lean) and proved equal to the model's functions (BS/Proofs/GenTie.lean: {ties}), "
            "below the 64-bit limits the model abstracts from; a behavioural change to one of them breaks that theorem, a function-level search then produces a differing argument.")
for _pid, _cfg in PROPS.items():
    if _cfg.get("ties"):
        LEVEL_TEXT[_pid] = LEVEL_TEXT.get(_pid, "") + TIE_TEXT.format(ties=", ".join(_cfg["ties"]))
for _pid, _cfg in PROPS.items():
    _cfg["level_text"] = LEVEL_TEXT.get(_pid, "")
    _cfg["partial"] = PARTIAL.get(_pid, [])
