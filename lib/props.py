"""Per-property configuration: projection (which observations are compared), generator,
Lean modules and theorems that carry the proof side."""
import gen

READS = {"read_all"}


def _has(tag):
    return lambda s, r, tags: tag in tags


PROPS = {
    "C01": {
        "proj": {"ops": {"read_all"}},
        "gen": gen.gen_C01,
        "nontrivial": lambda s, r, t: "result:nonempty" in t,
    },
    "C02": {
        "proj": {"ops": {"read_all"}},
        "gen": gen.gen_C02,
    },
    "C03": {
        "proj": {"ops": {"push", "pushrun", "files", "range", "len", "read_all"}, "roles": ["data", "index"]},
        "gen": gen.gen_C03,
        "nontrivial": lambda s, r, t: any(x.startswith("err:TimeNotAfterLast") or x.startswith("err:WrongLineLength") for x in t),
    },
    "C04": {
        "proj": {"ops": {"open", "files", "read_all", "len", "range", "last_line", "payload_size", "is_empty", "pushrun", "push"},
                 "roles": ["data"]},
        "gen": gen.gen_C04,
        "timeout": 60,
    },
    "C07": {
        "proj": {"ops": {"files", "read_all", "open"}, "roles": ["data"]},
        "gen": gen.gen_C07,
    },
    "C12": {
        "proj": {"ops": {"len", "is_empty", "range", "last_line", "payload_size"}},
        "gen": gen.gen_C12,
    },
    "C13": {
        "proj": {"ops": {"read_first_n", "page"}},
        "gen": gen.gen_C13,
    },
    "C14": {
        "proj": {"ops": {"n_lines"}},
        "gen": gen.gen_C14,
    },
    "C15": {
        "proj": {"ops": {"files"}, "roles": ["data"]},
        "gen": gen.gen_C15,
    },
    "C05": {
        "proj": {"ops": {"open", "read_all", "len", "range", "last_line", "pushrun", "push", "files"}, "roles": ["data"]},
        "gen": gen.gen_C05,
    },
    "C06": {
        "proj": {"ops": {"files", "open", "len", "read_all", "pushrun", "push"}, "roles": ["index", "data"]},
        "gen": gen.gen_C06,
    },
    "C08": {
        "proj": {"ops": {"files"}, "roles": ["cache"]},
        "gen": gen.gen_C08,
    },
    "C09": {
        "proj": {"ops": {"files", "open"}, "roles": ["cache"]},
        "gen": gen.gen_C09,
    },
    "C10": {
        "proj": {"ops": {"read_n"}},
        "gen": gen.gen_C10,
    },
    "C11": {
        "proj": {"ops": {"read_n"}},
        "gen": gen.gen_C11,
    },
    "C16": {
        "proj": {"ops": {"push", "pushrun", "read_all", "len", "range", "last_line", "is_empty", "payload_size",
                         "n_lines", "read_first_n", "read_n", "page"}, "fsaudit": True},
        "gen": gen.gen_C16,
        "audit": True,
    },
    "C17": {
        "proj": {"ops": {"new", "open", "files", "payload_size"}, "roles": None},
        "gen": gen.gen_C17,
    },
    "C18": {
        "proj": {"ops": {"read_all"}},
        "gen": gen.gen_C18,
    },
    "C19": {
        "proj": {"ops": None, "nopanic": True},
        "gen": gen.gen_C19,
        "timeout": 60,
    },
}
