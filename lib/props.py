"""Per-property configuration: projection (which observations are compared), generator,
Lean modules and theorems that carry the proof side."""
import gen

READS = {"read_all"}


def _has(tag):
    return lambda s, r, tags: tag in tags


CORE_READER = [("BS.Props.C01", "BS.Props.C01.buffer_size_irrelevant"), ("BS.Props.C01", "BS.Props.C01.carry_fits")]

THEOREMS = {
    "C01": (["BS.Props.C01"], [("BS.Props.C01", "BS.Props.C01.full_read_roundtrip"),
                                ("BS.Props.C01", "BS.Props.C01.read_all_returns_history"),
                                ("BS.Props.C01", "BS.Props.C01.buffer_size_irrelevant"),
                                ("BS.Props.C01", "BS.Props.C01.carry_fits")]),
    "C02": (["BS.Props.C02"], [("BS.Props.C02", "BS.Props.C02.range_read_exact"),
                                ("BS.Props.C02", "BS.Props.C02.seek_exact"),
                                ("BS.Props.C02", "BS.Props.C02.start_side"),
                                ("BS.Props.C02", "BS.Props.C02.end_side")]),
    "C14": (["BS.Props.C14"], [("BS.Props.C14", "BS.Props.C14.count_consistent"),
                                ("BS.Props.C14", "BS.Props.C14.range_bytes")]),
    "C03": (["BS.Props.C03"], [("BS.Props.C03", "BS.Props.C03.accept_iff_strictly_newer"),
                                ("BS.Props.C03", "BS.Props.C03.refused_step_is_noop")]),
    "C04": (["BS.Props.C04"], [("BS.Props.C04", "BS.Props.C04.reopen_preserves"),
                                ("BS.Props.C04", "BS.Props.C04.repair_is_identity_on_intact"),
                                ("BS.Props.C04", "BS.Props.C04.last_meta_timestamp_exact"),
                                ("BS.Props.C04", "BS.Props.C04.window_larger_than_overlap")]),
    "C05": (["BS.Props.C05"], [("BS.Props.C05", "BS.Props.C05.open_recovers_written_prefix"),
                                ("BS.Props.C05", "BS.Props.C05.repair_yields_written_prefix"),
                                ("BS.Props.C05", "BS.Props.C05.repair_unconditional_ge4"),
                                ("BS.Props.C05", "BS.Props.C05.tailClean_needed_counterexample"),
                                ("BS.Props.C05", "BS.Props.C05.fourth_repair_stage_is_dead"),
                                ("BS.Props.C05", "BS.Props.C05.rebuilt_index_of_repaired")]),
    "C06": (["BS.Props.C06"], [("BS.Props.C06", "BS.Props.C06.incremental_index_exact"),
                                ("BS.Props.C06", "BS.Props.C06.rebuild_equals_incremental"),
                                ("BS.Props.C06", "BS.Props.C06.prior_index_state_irrelevant"),
                                ("BS.Props.C06", "BS.Props.C06.chunk_size_irrelevant"),
                                ("BS.Props.C06", "BS.Props.C06.rebuilt_file_bytes")]),
    "C12": (["BS.Props.C12"], [("BS.Props.C12", "BS.Props.C12.len_is_count"),
                                ("BS.Props.C12", "BS.Props.C12.range_is_first_last"),
                                ("BS.Props.C12", "BS.Props.C12.size_formula")]),
    "C15": (["BS.Props.C15"], [("BS.Props.C15", "BS.Props.C15.push_keeps_canonical"),
                                ("BS.Props.C15", "BS.Props.C15.size_formula"),
                                ("BS.Props.C15", "BS.Props.C15.section_rule")]),
    "C07": (["BS.Props.C07"], [("BS.Props.C07", "BS.Props.C07.reference_decoder_reads_canonical"),
                                ("BS.Props.C07", "BS.Props.C07.section_layout_is_documented"),
                                ("BS.Props.C07", "BS.Props.C07.section_roundtrip"),
                                ("BS.Props.C07", "BS.Props.C07.reader_reads_canonical")]),
    "C10": (["BS.Props.C10"], [("BS.Props.C10", "BS.Props.C10.sampler_is_bucket_means"),
                                ("BS.Props.C10", "BS.Props.C10.resampling_read_of_region"),
                                ("BS.Props.C10", "BS.Props.C10.read_n_of_any_range"),
                                ("BS.Props.C10", "BS.Props.C10.bucketMeans_length"),
                                ("BS.Props.C10", "BS.Props.C10.at_most_2n")]),
    "C11": (["BS.Props.C11", "BS.Props.C10"], [("BS.Props.C11", "BS.Props.C11.estimate_total"),
                                ("BS.Props.C11", "BS.Props.C11.unreachable_arm"),
                                ("BS.Props.C10", "BS.Props.C10.sampler_is_bucket_means"),
                                ("BS.Props.C10", "BS.Props.C10.at_most_2n")]),
    "C13": (["BS.Props.C13"], [("BS.Props.C13", "BS.Props.C13.first_n_is_prefix"),
                                ("BS.Props.C13", "BS.Props.C13.first_n_of_any_range"),
                                ("BS.Props.C13", "BS.Props.C13.processor_takes_prefix")]),
    "C16": (["BS.Props.C16"], [("BS.Props.C16", "BS.Props.C16.pushData_appends"),
                                ("BS.Props.C16", "BS.Props.C16.pushData_error_no_state"),
                                ("BS.Props.C16", "BS.Props.C16.cacheProcess_appends")]),
    "C18": (["BS.Props.C18"], [("BS.Props.C18", "BS.Props.C18.no_consent_is_error"),
                                ("BS.Props.C18", "BS.Props.C18.skipping_drops"),
                                ("BS.Props.C18", "BS.Props.C18.consent_resumes_at_next_section")]),
}

PROPS = {
    "C01": {
        "proj": {"ops": {"read_all"}},
        "gen": gen.gen_C01,
        "nontrivial": lambda s, r, t: "result:nonempty" in t,
    },
    "C02": {
        "proj": {"ops": {"read_all"}},
        "gen": gen.gen_C02,
    },
    "C03": {
        "proj": {"ops": {"push", "pushrun", "files", "range", "len", "read_all"}, "roles": ["data", "index"]},
        "gen": gen.gen_C03,
        "nontrivial": lambda s, r, t: any(x.startswith("err:TimeNotAfterLast") or x.startswith("err:WrongLineLength") for x in t),
    },
    "C04": {
        "proj": {"ops": {"open", "files", "read_all", "len", "range", "last_line", "payload_size", "is_empty", "pushrun", "push"},
                 "roles": ["data"]},
        "gen": gen.gen_C04,
        "timeout": 60,
    },
    "C07": {
        "proj": {"ops": {"files", "read_all", "open"}, "roles": ["data"]},
        "gen": gen.gen_C07,
    },
    "C12": {
        "proj": {"ops": {"len", "is_empty", "range", "last_line", "payload_size"}},
        "gen": gen.gen_C12,
    },
    "C13": {
        "proj": {"ops": {"read_first_n", "page"}},
        "gen": gen.gen_C13,
    },
    "C14": {
        "proj": {"ops": {"n_lines"}},
        "gen": gen.gen_C14,
    },
    "C15": {
        "proj": {"ops": {"files"}, "roles": ["data"]},
        "gen": gen.gen_C15,
    },
    "C05": {
        "proj": {"ops": {"open", "read_all", "len", "range", "last_line", "pushrun", "push", "files"}, "roles": ["data"]},
        "gen": gen.gen_C05,
    },
    "C06": {
        "proj": {"ops": {"files", "open", "len", "read_all", "pushrun", "push"}, "roles": ["index", "data"]},
        "gen": gen.gen_C06,
    },
    "C08": {
        "proj": {"ops": {"files"}, "roles": ["cache"]},
        "gen": gen.gen_C08,
    },
    "C09": {
        "proj": {"ops": {"files", "open"}, "roles": ["cache"]},
        "gen": gen.gen_C09,
    },
    "C10": {
        "proj": {"ops": {"read_n"}},
        "gen": gen.gen_C10,
    },
    "C11": {
        "proj": {"ops": {"read_n"}},
        "gen": gen.gen_C11,
    },
    "C16": {
        "proj": {"ops": {"push", "pushrun", "read_all", "len", "range", "last_line", "is_empty", "payload_size",
                         "n_lines", "read_first_n", "read_n", "page"}, "fsaudit": True},
        "gen": gen.gen_C16,
        "audit": True,
    },
    "C17": {
        "proj": {"ops": {"new", "open", "files", "payload_size"}, "roles": None},
        "gen": gen.gen_C17,
    },
    "C18": {
        "proj": {"ops": {"read_all"}},
        "gen": gen.gen_C18,
    },
    "C19": {
        "proj": {"ops": None, "nopanic": True},
        "gen": gen.gen_C19,
        "timeout": 60,
    },
}

for _pid, _cfg in PROPS.items():
    mods, thms = THEOREMS.get(_pid, (["BS.Props.C01"], CORE_READER))
    _cfg["lean_modules"] = mods
    _cfg["theorems"] = thms
