#!/usr/bin/env python3
"""./check.py Cxx [--tier quick|thorough]   decide one property (DESIGN.md §8)
   ./check.py replay <file>                re-run a stored replay on the current tree
   ./check.py build                        build everything (used by setup.sh)
"""
import argparse
import concurrent.futures as cf
import fcntl
import json
import os
import random
import re
import shutil
import subprocess
import sys
import time

VERIF = os.path.dirname(os.path.abspath(__file__))
sys.path.insert(0, os.path.join(VERIF, "lib"))
import gen      # noqa: E402
import judge    # noqa: E402
import props    # noqa: E402

LEAN = os.path.join(VERIF, "lean")
HARNESS = os.path.join(VERIF, "harness")
ALLOWED_AXIOMS = {"propext", "Classical.choice", "Quot.sound"}
FORBIDDEN = re.compile(r"\bsorry\b|\badmit\b|^\s*axiom\s|native_decide|bv_decide|implemented_by|\bunsafe\s|maxHeartbeats\s+0")


def log(msg):
    print(msg, flush=True)


class BuildLock:
    def __enter__(self):
        self.f = open(os.path.join(VERIF, ".build.lock"), "w")
        fcntl.flock(self.f, fcntl.LOCK_EX)
        return self

    def __exit__(self, *a):
        fcntl.flock(self.f, fcntl.LOCK_UN)
        self.f.close()


def run(cmd, cwd=None, env=None, timeout=3600):
    e = dict(os.environ)
    if env:
        e.update(env)
    p = subprocess.run(cmd, cwd=cwd, env=e, stdout=subprocess.PIPE, stderr=subprocess.STDOUT, timeout=timeout)
    return p.returncode, p.stdout.decode(errors="replace")


# ---------------------------------------------------------------- build steps

def step_extract():
    rc, out = run([sys.executable, os.path.join(VERIF, "tools", "extract_consts.py")])
    return rc == 0, out.strip()


def step_translate():
    """regenerate lean/BS/Generated/Core.lean from the Rust sources (tools/rs2lean.py).
    Returns (names of functions that are no longer translatable, tool output)"""
    rc, out = run([sys.executable, os.path.join(VERIF, "tools", "rs2lean.py")])
    lost = re.findall(r"not translated: (\w+):", out)
    if rc not in (0, 3):
        lost.append("<translator crashed>")
    return lost, out.strip()


TIE_FILE = os.path.join(LEAN, "BS", "Proofs", "GenTie.lean")


def tie_status(untranslated):
    """build BS.Proofs.GenTie (the theorems `translated function = model function`).
    Returns (broken, lost, witness_lines): tie theorems whose proof no longer checks, tie theorems
    that cannot even be stated because a function fell outside the translator's subset (or
    depend on one that cannot), and what the function-level search found"""
    ok, out = step_lake(["BS.Proofs.GenTie"])
    if ok:
        return [], [], []
    lines = open(TIE_FILE, encoding="utf-8").read().split("\n")
    starts = [(i + 1, m.group(1)) for i, l in enumerate(lines) for m in [re.match(r"(?:@\[simp\] )?theorem (\S+)", l)] if m]
    def owner(ln):
        name = None
        for st, nm in starts:
            if st <= ln:
                name = nm
        return name
    def text_of(nm):
        idx = [k for k, (st, n2) in enumerate(starts) if n2 == nm][0]
        a = starts[idx][0] - 1
        b = starts[idx + 1][0] - 1 if idx + 1 < len(starts) else len(lines)
        return "\n".join(lines[a:b])
    failing = []
    for m in re.finditer(r"error: \S*GenTie\.lean:(\d+):\d+", out):
        nm = owner(int(m.group(1)))
        if nm and nm not in failing:
            failing.append(nm)
    core_broken = bool(re.search(r"error: \S*Generated/Core\.lean:\d+:\d+", out)) or "BS.Generated.Core" in "".join(re.findall(r"✖ \[\d+/\d+\] Building (\S+)", out))
    if core_broken:
        return [], [nm for _, nm in starts], ["the translated file BS/Generated/Core.lean does not elaborate: " + out[-400:]]
    lost = []
    lost_words = set(untranslated)
    for _, nm in starts:          # file order: a theorem that mentions something lost is lost
        if nm in failing and any(re.search(r"\b" + re.escape(w) + r"\b", text_of(nm)) for w in lost_words):
            lost.append(nm)
            lost_words.add(nm)
    broken = [nm for nm in failing if nm not in lost]
    if not failing and not lost:
        # the module did not build but no theorem could be blamed: treat every tie as unavailable
        return [], [nm for _, nm in starts], ["BS.Proofs.GenTie did not build: " + out[-300:]]
    witness = []
    if broken:
        rc, o2 = run(["lake", "env", "lean", "--run", "GenDiff.lean"], cwd=LEAN, timeout=900)
        witness = [l[:600] for l in o2.splitlines() if l.startswith("DIFF")][:12]
        if rc != 0 and not witness:
            witness = ["function-level search did not run: " + o2[-300:]]
        if rc == 0 and not witness:
            # the proof script no longer goes through, but the translated functions and the model's
            # agree on every grid point: nothing says the code changed behaviour.  The tie by
            # translation is UNPROVEN for these functions (not broken); the correspondence check
            # carries the tie and searches harder (DESIGN.md 15.3)
            return [], lost + broken, ["tie theorems " + ", ".join(broken) + " do not check although the translated functions agree with the model on the whole grid (rewritten source?)"]
    return broken, lost, witness


def step_lake(targets):
    rc, out = run(["lake", "build"] + targets, cwd=LEAN, timeout=3600)
    return rc == 0, out


def step_cargo():
    lock_src = "/repo/Cargo.lock"
    dst = os.path.join(HARNESS, "Cargo.lock")
    if os.path.exists(lock_src) and not os.path.exists(dst):
        shutil.copy(lock_src, dst)
    rc, out = run(["cargo", "build", "--offline", "--quiet"], cwd=HARNESS,
                  env={"CARGO_NET_OFFLINE": "true"}, timeout=3600)
    return rc == 0, out


def grep_forbidden():
    hits = []
    for root, _, files in os.walk(os.path.join(LEAN, "BS")):
        for fn in files:
            if not fn.endswith(".lean"):
                continue
            path = os.path.join(root, fn)
            in_block = 0
            for i, line in enumerate(open(path, encoding="utf-8"), 1):
                code = line
                # strip block comments (coarse) and line comments
                if "/-" in code and "-/" not in code:
                    in_block += 1
                    continue
                if in_block:
                    if "-/" in code:
                        in_block -= 1
                    continue
                code = re.sub(r"/-.*?-/", "", code)
                code = code.split("--")[0]
                if FORBIDDEN.search(code):
                    hits.append(f"{os.path.relpath(path, VERIF)}:{i}: {line.strip()}")
    return hits


def audit_axioms(theorems):
    """`#print axioms` for every theorem; returns {name: [axioms]} and problems"""
    if not theorems:
        return {}, []
    mods = sorted({t[0] for t in theorems})
    src = "\n".join(f"import {m}" for m in mods) + "\n" + "\n".join(f"#print axioms {t[1]}" for t in theorems) + "\n"
    os.makedirs(os.path.join(VERIF, ".run"), exist_ok=True)
    path = os.path.join(VERIF, ".run", f"audit_{os.getpid()}.lean")
    with open(path, "w") as f:
        f.write(src)
    rc, out = run(["lake", "env", "lean", path], cwd=LEAN, timeout=1800)
    os.unlink(path)
    res, problems = {}, []
    # output blocks: "'name' depends on axioms: [a, b]" or "'name' does not depend on any axioms"
    for m in re.finditer(r"'([^']+)' depends on axioms: \[([^\]]*)\]", out, re.S):
        axs = [a.strip() for a in m.group(2).replace("\n", " ").split(",") if a.strip()]
        res[m.group(1)] = axs
    for m in re.finditer(r"'([^']+)' does not depend on any axioms", out):
        res[m.group(1)] = []
    for _, name in theorems:
        if name not in res:
            problems.append(f"{name}: not found / did not elaborate")
        else:
            bad = [a for a in res[name] if a not in ALLOWED_AXIOMS]
            if bad:
                problems.append(f"{name}: uses axioms {bad}")
    if rc != 0 and not problems:
        problems.append("audit file failed: " + out[-400:])
    return res, problems


# ---------------------------------------------------------------- differential run

def _judge_one(args):
    name, script, proj, timeout, audit = args
    r = judge.judge(script, proj, timeout=timeout, audit=audit)
    return name, script, r


def covtags(script, r):
    """coarse coverage tags of a script, measured from what actually ran"""
    tags = set()
    ops = judge.script_ops(script)
    for i, op in enumerate(ops):
        cmd = op.split()[0]
        c = r.code_out[i] if i < len(r.code_out) else ""
        tags.add("op:" + cmd)
        if c.startswith("err "):
            tags.add("err:" + c[4:])
        elif c in ("panic", "hang"):
            tags.add(c)
        if cmd in ("read_all", "read_first_n", "read_n", "n_lines"):
            tags.add("result:" + ("empty" if judge.is_empty_result(c) or c == "ok 0" else "nonempty"))
    return tags


def write_replay(pid, name, script, r, seed, note=""):
    os.makedirs(os.path.join(VERIF, "replays"), exist_ok=True)
    path = os.path.join(VERIF, "replays", f"{pid}-{judge.script_hash(script)}.json")
    with open(path, "w") as f:
        json.dump({"property": pid, "generator": name, "seed": seed, "script": script,
                   "first_bad_op_index": r.op_index if r else None, "first_bad_op": r.op if r else None,
                   "implementation": r.code if r else None, "model": r.model if r else None,
                   "specification": r.spec if r else None, "why": (r.why if r else "") + note,
                   "kind": r.kind if r else "proof"}, f, indent=1)
    return os.path.relpath(path, VERIF)


def load_known_findings(pid):
    path = os.path.join(VERIF, "KNOWN_FINDINGS.txt")
    known = []
    if os.path.exists(path):
        for line in open(path):
            line = line.strip()
            if not line.startswith("known:"):
                continue
            kv = dict(re.findall(r"(\w+)=(\S+)", line))
            if kv.get("property") == pid:
                kv["text"] = line.split("  ", 1)[1] if "  " in line else line
                known.append(kv)
    return known


def changed_sources():
    """files under /repo/src that differ from the tree the model was written against
    (baseline/sources.json).  A difference is not a violation: it makes the quick tier search
    harder (the thorough generators run as well), because the correspondence now has to be
    re-established on changed code."""
    import hashlib
    try:
        base = json.load(open(os.path.join(VERIF, "baseline", "sources.json")))["files"]
    except Exception:
        return ["<no baseline>"]
    cur = {}
    for root, _, files in os.walk("/repo/src"):
        for fn in files:
            pth = os.path.join(root, fn)
            cur[os.path.relpath(pth, "/repo")] = hashlib.sha256(open(pth, "rb").read()).hexdigest()
    return sorted(f for f in set(base) | set(cur) if base.get(f) != cur.get(f))


def check_property(pid, tier, seed):
    t0 = time.time()
    cfg = props.PROPS[pid]
    proj = cfg["proj"]
    violations = []          # (replay path, suffix)
    notes = []
    proof_broken = []
    # ---- 1-3: tie to the sources, proofs, harness
    with BuildLock():
        ok, out = step_extract()
        if not ok:
            proof_broken.append("constants extractor: " + out)
        untranslated, tr_out = step_translate()
        ties = cfg.get("ties", [])
        all_broken, all_lost, tie_witness = tie_status(untranslated) if ties else ([], [], [])
        tie_broken = [t for t in all_broken if t in ties]
        tie_lost = [t for t in all_lost if t in ties]
        # BS.Props.GenCore (property-level statements about the translated functions) imports GenTie: it can
        # only be built and audited when every tie theorem checks
        gencore_off = bool(all_broken or all_lost)
        if gencore_off:
            cfg = dict(cfg)
            cfg["lean_modules"] = [m for m in cfg.get("lean_modules", []) if m != "BS.Props.GenCore"]
            cfg["theorems"] = [t for t in cfg.get("theorems", []) if t[0] != "BS.Props.GenCore"]
            notes.append("BS.Props.GenCore not built on this run (a tie theorem is broken or not available)")
        if cfg.get("genextra"):
            xm, xneeds = cfg["genextra"]
            lost_here = [n for n in xneeds if n in untranslated]
            if gencore_off or lost_here:
                cfg = dict(cfg)
                cfg["lean_modules"] = [m for m in cfg.get("lean_modules", []) if m != xm]
                cfg["theorems"] = [t for t in cfg.get("theorems", []) if t[0] != xm]
                notes.append(f"{xm} not built on this run (" + ("its function " + ", ".join(lost_here) + " is outside the translator's subset" if lost_here
                             else "it imports BS.Props.GenCore") + "); the correspondence check carries the tie, searching harder")
                if lost_here:
                    tie_lost = tie_lost + lost_here
        if tie_broken:
            proof_broken.append("tie by translation broken: the Rust function(s) behind " + ", ".join(tie_broken) +
                                " (BS/Proofs/GenTie.lean) no longer equal the model's; function-level search: " +
                                (" | ".join(tie_witness) if tie_witness else "no differing argument found on the grid"))
        if tie_lost:
            notes.append("tie by translation not available for " + ", ".join(tie_lost) + " (source outside the translator's subset / proof does not follow a rewrite: " +
                         "; ".join([l for l in tr_out.splitlines() if "not translated" in l] + (tie_witness if not tie_broken else []))[:400] +
                         "); the correspondence check carries the tie, searching harder")
        targets = ["driver"] + cfg.get("lean_modules", [])
        ok, out = step_lake(targets)
        lake_ok = ok
        if not ok:
            # which module failed?
            failed = re.findall(r"error: (\S+\.lean)", out) or re.findall(r"✖ \[\d+/\d+\] (?:Building|Built) (\S+)", out)
            proof_broken.append("lake build failed: " + ", ".join(sorted(set(failed)))[:300] + " :: " + out[-600:])
            # the driver may still be buildable on its own
            ok2, _ = step_lake(["driver"])
            if not ok2:
                notes.append("driver does not build")
        axioms, problems = ({}, [])
        tie_thms = [("BS.Proofs.GenTie", "BS.Gen." + t) for t in ties] if ties and not tie_broken and not tie_lost else []
        if tie_thms and gencore_off:
            # a tie theorem of ANOTHER function is broken: BS.Proofs.GenTie elaborates this property's ties without
            # an error but produces no compiled module, so they cannot be imported for the axiom audit on this run
            notes.append("this property's tie theorems (" + ", ".join(ties) + ") elaborated without error, but BS.Proofs.GenTie as a whole does not build "
                         "(broken / unavailable: " + ", ".join((all_broken + all_lost)[:6]) + "): their axioms are not audited on this run")
            tie_thms = []
        if lake_ok:
            axioms, problems = audit_axioms(cfg.get("theorems", []) + tie_thms)
            proof_broken += problems
        hits = grep_forbidden()
        if hits:
            proof_broken.append("forbidden constructs: " + "; ".join(hits[:5]))
        if tier == "thorough" and lake_ok:
            for m in cfg.get("lean_modules", []):
                rc, out = run(["lake", "env", "leanchecker", m], cwd=LEAN, timeout=3600)
                if rc != 0:
                    proof_broken.append(f"leanchecker {m}: {out[-300:]}")
        ok, out = step_cargo()
        if not ok:
            log("harness does not build against the current tree:\n" + out[-2000:])
            path = write_replay(pid, "build", "", None, seed, note="harness build failed: " + out[-1500:])
            print(f"VIOLATION property={pid} replay={path} no-failing-input-found")
            return 1
    # ---- 4: scripts
    rng = random.Random(seed)
    scripts = []
    fdir = os.path.join(VERIF, "findings")
    cdir = os.path.join(VERIF, "corpus")
    for d in (fdir, cdir):
        if os.path.isdir(d):
            for fn in sorted(os.listdir(d)):
                if fn.startswith(pid + "-") and fn.endswith(".ops"):
                    scripts.append((os.path.basename(d) + "/" + fn, open(os.path.join(d, fn)).read()))
    n_corpus = len(scripts)
    generated = cfg["gen"](rng, tier)
    changed = changed_sources()
    # further rounds of the thorough generators with fresh seeds: one in the quick tier, three when
    # the sources differ from the tree the model was written against (the correspondence has to be
    # re-established on changed code), eight in the thorough tier
    rounds = 8 if tier == "thorough" else (3 if (changed or tie_lost) else 1)
    if changed:
        log("sources differ from the modelled tree (" + ", ".join(changed[:4]) + "): searching harder")
    seen = {sc for _, sc in generated}
    for k in range(1, rounds + 1):
        for n, sc in cfg["gen"](random.Random(seed + 100 * k), "thorough"):
            if sc not in seen:
                seen.add(sc)
                generated.append((n + f"+r{k}", sc))
    # scripts inside the region of the recorded known finding marker-tail (TailClean fails) are
    # judged op by op: where the model meets the specification the property is judged as usual,
    # where the model itself shows the recorded defect only the tie model-code is judged
    region = {sc for n, sc in generated if not gen.script_tail_clean(sc)}
    scripts += generated
    if region:
        log(f"{len(region)} generated script(s) lie inside the region of the known finding marker-tail")

    def pj(sc):
        return dict(proj, region=True) if sc in region else proj
    known = load_known_findings(pid)
    known_scripts = {k["replay"]: k for k in known if "replay" in k}
    timeout = cfg.get("timeout", 120 if tier == "quick" else 600)
    audit = cfg.get("audit", False)
    results = []
    with cf.ProcessPoolExecutor(max_workers=min(16, os.cpu_count() or 4)) as ex:
        for res in ex.map(_judge_one, [(n, s, pj(s), timeout, audit) for n, s in scripts]):
            results.append(res)
    fails = [(n, s, r) for n, s, r in results if r.kind != "pass"]
    tags_hist = {}
    distinct = set()
    err_hist = {}
    checked_ops = 0
    for n, s, r in results:
        tg = covtags(s, r)
        for t in tg:
            tags_hist[t] = tags_hist.get(t, 0) + 1
        checked_ops += r.checked
        need = cfg.get("nontrivial")
        if r.checked > 0 and (need is None or need(s, r, tg)):
            distinct.add(judge.script_hash(s))
    known_hits = []
    search_needed = False
    reported = set()
    for n, s, r in fails:
        if r.kind == "infra":
            log(f"infrastructure problem on {n}: {r.why}")
            proof_broken.append(f"driver failed on script {n}: {r.why}")
            continue
        kf = known_scripts.get(n) or known_scripts.get("findings/" + os.path.basename(n))
        if kf is not None and r.kind == "prop" and getattr(r, "model_agrees", False):
            known_hits.append((kf, r))
            continue
        if r.kind == "prop":
            key0 = (r.op.split()[0] if r.op else "", r.why[:40], str(r.code)[:20])
            if key0 in reported or len(reported) >= 4:
                continue
            reported.add(key0)
            if r.code in ("hang", "abort") or len(judge.script_ops(s)) > 150 or "count=" in s and any(int(x) > 800 for x in re.findall(r"count=(\d+)", s)):
                small, r2 = s, r
            else:
                small = judge.shrink(s, pj(s), "prop", timeout=timeout, budget=25 if tier == "quick" else 80)
                r2 = judge.judge(small, pj(s), timeout=timeout, audit=audit)
                if r2.kind != "prop":
                    small, r2 = s, r
            path = write_replay(pid, n, small, r2, seed)
            violations.append((path, ""))
            log(f"  property fails on the implementation: op `{r2.op}`\n    implementation: {str(r2.code)[:300]}\n    specification : {str(r2.spec)[:300]}\n    model         : {str(r2.model)[:300]}\n    ({r2.why})")
        else:
            search_needed = True
            notes.append(f"{r.kind} divergence in {n} at op `{r.op}`: impl={str(r.code)[:120]} model={str(r.model)[:120]} spec={str(r.spec)[:120]}")
    # ---- 5: proof or correspondence broken but no concrete failing input yet: search harder
    if (proof_broken or search_needed) and not violations:
        log("proof obligation or correspondence broken; searching for a concrete failing input ...")
        found = False
        rng2 = random.Random(seed + 1)
        extra = cfg["gen"](rng2, "thorough")
        region |= {sc for n, sc in extra if not gen.script_tail_clean(sc)}
        with cf.ProcessPoolExecutor(max_workers=min(16, os.cpu_count() or 4)) as ex:
            for n, s, r in ex.map(_judge_one, [(n, s, pj(s), timeout, audit) for n, s in extra]):
                if r.kind == "prop" and not found:
                    small = judge.shrink(s, pj(s), "prop", timeout=timeout, budget=60) if len(judge.script_ops(s)) <= 400 else s
                    r2 = judge.judge(small, pj(s), timeout=timeout, audit=audit)
                    if r2.kind != "prop":
                        small, r2 = s, r
                    path = write_replay(pid, n, small, r2, seed + 1)
                    violations.append((path, ""))
                    found = True
        if not found:
            what = "; ".join(proof_broken + notes)[:1500]
            # name the diverging script if there is one
            div = next(((n, s, r) for n, s, r in fails if r.kind in ("corr", "modelspec")), None)
            if div:
                path = write_replay(pid, div[0], div[1], div[2], seed, note=" || " + what)
            else:
                path = write_replay(pid, "proof", "", None, seed, note=what)
            violations.append((path, " no-failing-input-found"))
            log("  no failing input found; broken: " + what)
    # ---- 6: known findings
    for kf, r in known_hits:
        print(f"KNOWN-FINDING: property={pid} {kf.get('text', '')}")
    # ---- 7: evidence
    thms = cfg.get("theorems", []) + [("BS.Proofs.GenTie", "BS.Gen." + t) for t in ties]
    obligations = len(thms)
    discharged = sum(1 for _, nme in thms if nme in axioms and all(a in ALLOWED_AXIOMS for a in axioms[nme])) if lake_ok else 0
    samples = [{"generator": n, "script_head": judge.script_ops(s)[:6], "ops": len(judge.script_ops(s))} for n, s, _ in results[n_corpus:n_corpus + 3]]
    ev = {
        "property_id": pid, "tier": tier, "seed": seed, "level": "proof",
        "coverage": {
            "obligations": max(obligations, 1), "discharged": discharged if obligations else 0,
            "checker_cmd": f"cd lean && lake build {' '.join(cfg.get('lean_modules', []))} && lake env lean <#print axioms of each theorem>" + (" && lake env leanchecker <modules>" if tier == "thorough" else ""),
            "trusted_base": ["Lean 4.33 kernel", "axioms: propext, Classical.choice, Quot.sound only (audited per theorem on this run)",
                             "statement of BS/Spec.lean and of the property theorems", "correspondence check: bsrun + judge.py + generators (sampling)",
                             "tools/extract_consts.py regular expressions",
                             "tools/rs2lean.py + tools/rsparse.py (syntactic Rust-to-Lean translation of the decision/arithmetic core) and the std vocabulary of BS/Impl/GenPrelude.lean",
                             "OS/std behaviour as listed in DESIGN.md §10"],
            "translated_functions_tied": ties,
            "translation_tie": ("broken: " + ", ".join(tie_broken)) if tie_broken else (("not available: " + ", ".join(tie_lost)) if tie_lost else ("checked" if ties else "none for this property")),
            "theorems": [{"name": nme, "module": m, "axioms": axioms.get(nme)} for m, nme in thms],
            "partial": cfg.get("partial", []),
            "evaluations": len(results), "distinct_nontrivial": len(distinct),
            "rule": cfg.get("rule", "op scripts from the property's directed battery and seeded generators; a script counts when at least one op in the property's projection was compared on implementation, model and specification; distinct by script hash"),
            "samples": samples, "checked_ops": checked_ops,
            "branch_histogram": dict(sorted(tags_hist.items())),
            "corpus_scripts": n_corpus,
            "known_finding_hits": len(known_hits),
            "notes": notes[:10],
        },
        "assumptions": cfg.get("assumptions", []) + ["files < 2^63 bytes, 64-bit usize, no I/O errors", "overflow-checked (dev) profile"],
        "wall_s": round(time.time() - t0, 1),
        "violations": len(violations),
    }
    os.makedirs(os.path.join(VERIF, "evidence"), exist_ok=True)
    with open(os.path.join(VERIF, "evidence", f"{pid}.json"), "w") as f:
        json.dump(ev, f, indent=1)
    for path, suffix in violations:
        print(f"VIOLATION property={pid} replay={path}{suffix}")
    log(f"{pid} {tier}: {len(results)} scripts, {checked_ops} compared ops, {discharged}/{obligations} theorems, "
        f"{len(violations)} violation(s), {len(known_hits)} known finding hit(s), {ev['wall_s']} s")
    return 1 if violations else 0


def replay(path):
    with open(path) as f:
        rep = json.load(f)
    pid = rep["property"]
    cfg = props.PROPS[pid]
    with BuildLock():
        step_extract()
        step_translate()
        step_lake(["driver"])
        step_cargo()
    script = rep.get("script") or ""
    if not script:
        print("replay names a proof obligation / build problem, not an input:", rep.get("why"))
        return 1
    r = judge.judge(script, cfg["proj"], audit=cfg.get("audit", False))
    ops = judge.script_ops(script)
    for i, op in enumerate(ops):
        mark = ">>" if r.op_index == i else "  "
        c = r.code_out[i] if i < len(r.code_out) else "?"
        m = r.model_out[i] if i < len(r.model_out) else "?"
        s = r.spec_out[i] if i < len(r.spec_out) else "?"
        print(f"{mark} {op[:100]}\n     impl : {c[:200]}\n     model: {m[:200]}\n     spec : {s[:200]}")
    print("result:", r.kind, r.why)
    return 0 if r.kind == "pass" else 1


def main():
    ap = argparse.ArgumentParser()
    ap.add_argument("what")
    ap.add_argument("arg", nargs="?")
    ap.add_argument("--tier", default=os.environ.get("VERIF_TIER", "quick"))
    a = ap.parse_args()
    seed = int(os.environ.get("VERIF_SEED", "1"))
    if a.what == "replay":
        sys.exit(replay(a.arg))
    if a.what == "build":
        with BuildLock():
            ok1, o1 = step_extract()
            step_translate()
            ok2, o2 = step_lake([])
            ok3, o3 = step_cargo()
        if not (ok1 and ok2 and ok3):
            print(o1, o2[-3000:], o3[-3000:])
            sys.exit(1)
        sys.exit(0)
    if a.what not in props.PROPS:
        print("unknown property", a.what)
        sys.exit(2)
    sys.exit(check_property(a.what, a.tier, seed))


if __name__ == "__main__":
    main()
