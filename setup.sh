#!/bin/sh
# offline build of everything the checks need: generated constants, the Lean
# development (model, spec, proofs, driver executable) and the Rust harness
set -e
cd "$(dirname "$0")"
export CARGO_NET_OFFLINE=true
exec ./check.py build
