/-
  Function-level search used when a theorem of BS/Proofs/GenTie.lean no longer checks:
  runs the TRANSLATED functions (BS/Generated/Core.lean, i.e. the current Rust source) and the
  hand-written model side by side on grids of boundary values and prints, per function, the
  first argument tuple on which they differ (inside the domain the tie theorem covers).

      lake env lean --run GenDiff.lean

  This is a search for a counterexample, not a proof of anything.
-/
import BS.Generated.Core
import BS.Impl.World
import BS.Impl.CatchUpPlan

open BS BS.Impl BS.Gen

def toViewG (c : CacheSess) : CacheView :=
  { bucket_size := c.B, data := c.d.view, lines_to_skip := c.skip, samples_in_bin := c.inBin,
    ts_sum := c.tsSum, resample_state := c.vSum }

def runProcessG (st : Store) (c : CacheSess) (r : R ((CacheView × List CatchUp) × Unit)) : R (Store × CacheSess) :=
  match r with
  | .error f => .error f
  | .ok ((v, acts), _) =>
    let c' : CacheSess := { c with skip := v.lines_to_skip, inBin := v.samples_in_bin, tsSum := v.ts_sum, vSum := v.resample_state }
    match acts with
    | [] => .ok (st, c')
    | [CatchUp.push rts rline] =>
      match pushData st c.d rts rline with
      | .error f => .error f
      | .ok (st', d') => .ok (st', { c' with d := d' })
    | _ => .error .panic

def applyWritesG (st : Store) : List IoW → Store
  | [] => st
  | .dataWrite b :: r => applyWritesG { st with data := appendTo st.data b } r
  | .indexWrite b :: r => applyWritesG { st with index := appendTo st.index b } r

def runPushDataG (st : Store) (d : DataSess) (r : R ((DataView × List IoW) × Unit)) : R (Store × DataSess) :=
  match r with
  | .ok ((v, tr), _) =>
    .ok (applyWritesG st tr, { d with dataLen := v.dataLen, entries := v.entries, lastFull := v.lastFull, lastTime := v.lastTime })
  | .error f => .error f

instance : Repr Sampler where
  reprPrec s _ := s!"(bucket={s.bucket} tsSum={s.tsSum} vSum={s.vSum} sampled={s.sampled})"

deriving instance DecidableEq for BS.Impl.Store
deriving instance Repr for BS.Impl.Store

def vals64 : List Nat :=
  [0, 1, 2, 3, 9, 10, 11, 65533, 65534, 65535, 65536, 65537, 65544, 65545, 65546, 131070, 131071, 4294967296,
   9223372036854775808, 18446744073709486080, 18446744073709486081, 18446744073709486082,
   18446744073709551613, 18446744073709551614, 18446744073709551615]

def offs : List Nat := [0, 2, 6, 12, 18, 24, 100, 1000, 16384, 70000]
def ps : List Nat := [0, 1, 2, 3, 4, 5, 8, 16]

def reprR {α : Type} [Repr α] (r : R α) : String :=
  match r with
  | .ok x => "ok " ++ toString (repr x)
  | .error .panic => "panic"
  | .error (.err c) => "err " ++ c

def eqR {α : Type} [DecidableEq α] (a b : R α) : Bool :=
  match a, b with
  | .ok x, .ok y => decide (x = y)
  | .error e, .error f => decide (e = f)
  | _, _ => false

/-- first element of `inputs` on which the two functions differ -/
def firstDiff {ι α : Type} [Repr ι] [Repr α] [DecidableEq α] (name : String) (inputs : List ι)
    (g m : ι → R α) : IO Unit := do
  match inputs.find? (fun i => !eqR (g i) (m i)) with
  | some i => IO.println s!"DIFF {name} input={repr i} translated={reprR (g i)} model={reprR (m i)}"
  | none => IO.println s!"SAME {name} {inputs.length}"

def pairs {α β : Type} (a : List α) (b : List β) : List (α × β) := a.flatMap fun x => b.map fun y => (x, y)

/-- index entry lists: canonical-looking (sections further apart than 65534) incl. near the top -/
def entryLists (p : Nat) : List (List IEntry) :=
  let ms := metaSize p
  let ls := lineSize p
  [ [],
    [⟨10, 0⟩],
    [⟨0, 0⟩, ⟨100000, ms + 3 * ls⟩],
    [⟨10, 0⟩, ⟨100000, ms + ls⟩, ⟨300000, 2 * ms + 4 * ls⟩],
    [⟨5, 0⟩, ⟨65540, ms + ls⟩, ⟨131075, 2 * ms + 2 * ls⟩, ⟨18446744073709551000, 3 * ms + 9 * ls⟩],
    [⟨18446744073709400000, 0⟩, ⟨18446744073709551610, ms + 2 * ls⟩] ]

def critTs (es : List IEntry) : List Nat :=
  ((es.flatMap fun (e : IEntry) => [e.ts - 1, e.ts, e.ts + 1, e.ts + 65533, e.ts + 65534, e.ts + 65535, e.ts + 65536])
    ++ [0, 7, 50000, 200000]).filter (· < 2^64)

def views (p : Nat) : List DataView :=
  (entryLists p).flatMap fun es =>
    let dl := match es.getLast? with | some e => e.off + metaSize p + 3 * lineSize p | none => 0
    let lf := es.getLast?.map (·.ts)
    let lts : List (Option Nat) := match es.getLast? with
      | some e => [some e.ts, some (e.ts + 2), none]
      | none => [none]
    lts.map fun lt => { p := p, dataLen := dl, entries := es, lastFull := lf, lastTime := lt }

def bounds (ts : List Nat) : List Bound :=
  Bound.unb :: ts.flatMap fun t => [Bound.incl t, Bound.excl t]

instance : Repr DataView where
  reprPrec v _ := s!"(p={v.p} dataLen={v.dataLen} entries={repr v.entries} lastFull={repr v.lastFull} lastTime={repr v.lastTime})"

def startAreas : List StartArea :=
  [.found 12, .found 100, .clipped, .tillEnd 12, .tillEnd 1000, .window 12 100, .window 100 112, .window 1000 12, .gap 18, .gap 1000]
def endAreas : List EndArea :=
  [.found 12, .found 100, .found 0, .tillEnd 12, .tillEnd 1000, .window 12 100, .window 100 118, .gap 0, .gap 18, .gap 1000]

deriving instance DecidableEq for BS.Impl.RoughPos

instance : Repr RoughPos where
  reprPrec r _ := s!"(startTs={r.startTs} startArea={repr r.startArea} startFull={r.startFull} endTs={r.endTs} endArea={repr r.endArea} endFull={r.endFull})"

def roughs : List RoughPos :=
  (pairs startAreas endAreas).flatMap fun (sa, ea) =>
    [⟨10, sa, 10, 20, ea, 10⟩, ⟨70000, sa, 10, 70010, ea, 70000⟩, ⟨5, sa, 10, 65600, ea, 20⟩]

def main : IO Unit := do
  firstDiff "lines_per_metainfo" (List.range 40) lines_per_metainfo (fun p => .ok (lpm p))
  firstDiff "PayloadSize::line_size" (List.range 40 ++ [4998, 16383, 70000]) PayloadSize_line_size (fun p => .ok (lineSize p))
  firstDiff "PayloadSize::metainfo_size" (List.range 40 ++ [4998, 16383, 70000]) PayloadSize_metainfo_size (fun p => .ok (metaSize p))
  firstDiff "MetaPos::line_start" (pairs (offs ++ [4294967296]) ps) (fun (x, p) => MetaPos_line_start x p) (fun (x, p) => .ok (lineStart p x))
  firstDiff "LinePos::next_line_start" (pairs (offs ++ [4294967296]) ps) (fun (x, p) => LinePos_next_line_start x p) (fun (x, p) => .ok (x + lineSize p))
  firstDiff "in_gap" ((pairs vals64 vals64).filter fun (_, g) => g + 65534 < 2^64) (fun (v, g) => in_gap v g) (fun (v, g) => .ok (inGap v g))
  if MAX_SMALL_TS != Impl.maxSmallTs then IO.println s!"DIFF MAX_SMALL_TS translated={MAX_SMALL_TS} model={Impl.maxSmallTs}"
  if MetaPos_ZERO != 0 then IO.println s!"DIFF MetaPos::ZERO translated={MetaPos_ZERO} model=0"
  for p in [0, 1, 3, 4, 8] do
    let vs := views p
    let vts := vs.flatMap fun v => (critTs v.entries).map fun t => (v, t)
    firstDiff s!"Index::start_search_bounds(p={p})" (vts.filter fun (v, _) => v.entries ≠ [])
      (fun (v, t) => Index_start_search_bounds (Rs.indexOf v) t v.p) (fun (v, t) => startSearchBounds v t)
    firstDiff s!"Index::end_search_bounds(p={p})" (vts.filter fun (v, _) => v.entries ≠ [])
      (fun (v, t) => Index_end_search_bounds (Rs.indexOf v) t v.p) (fun (v, t) => endSearchBounds v t)
    firstDiff s!"Data::range(p={p})" vs Data_range dataRange
    let vb := vs.flatMap fun v => (bounds (critTs v.entries ++ [18446744073709551615])).map fun b => (v, b)
    firstDiff s!"checked_start_time(p={p})" vb (fun (v, b) => checked_start_time v b) (fun (v, b) => checkedStartTime v b)
    firstDiff s!"checked_end_time(p={p})" vb (fun (v, b) => checked_end_time v b) (fun (v, b) => checkedEndTime v b)
    let vbb := vs.flatMap fun v =>
      let bs := bounds ((critTs v.entries).take 12)
      (pairs bs bs).map fun (s, e) => (v, s, e)
    firstDiff s!"RoughPos::new(p={p})" vbb (fun (v, s, e) => RoughPos_new v s e) (fun (v, s, e) => roughPos v s e)
    let v0 : DataView := { p := p, dataLen := 40 * lineSize p, entries := [⟨10, 0⟩], lastFull := some 10, lastTime := some 30 }
    let d : Bytes := (List.range (40 * lineSize p)).map fun i => UInt8.ofNat (i * 7 % 251)
    let al := fun (a : Nat) => a / lineSize p * lineSize p
    let fixS : StartArea → StartArea := fun
      | .tillEnd a => .tillEnd (al a)
      | .window a b => .window (al a) (al b)
      | x => x
    let fixE : EndArea → EndArea := fun
      | .tillEnd a => .tillEnd (al a)
      | .window a b => .window (al a) (al b)
      | x => x
    firstDiff s!"RoughPos::refine(p={p})" (roughs.map fun r => { r with startArea := fixS r.startArea, endArea := fixE r.endArea })
      (fun r => RoughPos_refine r v0 d) (fun r => refine v0 d r)
    firstDiff s!"RoughPos::estimate_lines(p={p})" (pairs roughs [0, 100, 5000])
      (fun (r, dl) => RoughPos_estimate_lines r p dl) (fun (r, dl) => estimateLines p dl r)
    let sessions : List DataSess := (entryLists p).flatMap fun es =>
      let dl := match es.getLast? with | some e => e.off + metaSize p + 3 * lineSize p | none => 0
      [{ p := p, hdrLen := 0, ihdrLen := 4, dataLen := dl, entries := es, lastFull := none, lastTime := none }]
    firstDiff s!"Data::len(p={p})" (sessions.map fun d => (d.dataLen, d.entries.length, d))
      (fun (_, _, d) => Data_len d.view) (fun (_, _, d) => dataLenLines d)
    firstDiff s!"Data::line_pos(p={p})" ((pairs sessions (List.range 24)).map fun (d, n) => (n, d.entries, d))
      (fun (n, _, d) => Data_line_pos d.view n)
      (fun (n, _, d) => do
        let len ← dataLenLines d
        if n ≥ len then pure none else pure (lineOffset d n))
  -- add_missing_data: sources / caches as sessions with consistent line counts
  for p in [0, 4] do
    let mk := fun (nlines nsec : Nat) (lt : Option Nat) =>
      let es : List IEntry := (List.range nsec).map fun i => ⟨10 + 100000 * i, i * metaSize p + (i * (nlines / (nsec + 1))) * lineSize p⟩
      ({ p := p, hdrLen := 0, ihdrLen := 4, dataLen := nsec * metaSize p + nlines * lineSize p, entries := es,
         lastFull := es.getLast?.map (·.ts), lastTime := lt } : DataSess)
    let srcs := [mk 0 0 none, mk 1 1 (some 10), mk 7 1 (some 16), mk 10 2 (some 100009), mk 25 3 (some 200020)]
    let caches := [mk 0 0 none, mk 1 1 (some 12), mk 2 1 (some 14), mk 3 1 (some 100008), mk 5 2 (some 100009), mk 9 2 (some 300000), mk 12 3 (some 200021)]
    let cases := (pairs (pairs srcs caches) [1, 2, 3, 4, 10]).map fun ((s, c), B) => (B, s, c)
    firstDiff s!"add_missing_data(p={p})" (cases.map fun (B, s, c) => ((B, s.dataLen, c.dataLen, s.lastTime, c.lastTime), s, c))
      (fun ((B, _), s, c) => add_missing_data s.view { bucket_size := B, data := c.view, lines_to_skip := 0 })
      (fun ((B, _), s, c) => (catchUpPlan s c B).map fun a => (a, ()))
  -- process: accumulator states x bucket sizes x timestamps (incl. sums near the u64 / u128 limits)
  let dsess : DataSess := { p := 4, hdrLen := 0, ihdrLen := 4, dataLen := 0, entries := [], lastFull := none, lastTime := none }
  let accs : List CacheSess := (pairs (pairs [0, 1, 2] [0, 3, 18446744073709551615, 36893488147419103230]) (pairs [0, 5, 18446744073709551000] [0, 1, 2])).flatMap
    fun ((inBin, tsSum), (vSum, skip)) => [1, 2, 3, 0].map fun B => ({ B := B, d := dsess, inBin := inBin, tsSum := tsSum, vSum := vSum, skip := skip } : CacheSess)
  let st0 : Store := { data := some [], index := some [] }
  firstDiff "DownSampledData::process" ((pairs accs [0, 7, 18446744073709551615]).map fun (c, t) => ((c.B, c.inBin, c.tsSum, c.vSum, c.skip, t), c))
    (fun ((_, _, _, _, _, t), c) => runProcessG st0 c (DownSampledData_process (toViewG c) t [200, 1, 0, 0]))
    (fun ((_, _, _, _, _, t), c) => cacheProcess st0 c t [200, 1, 0, 0])
  let samplers : List Sampler := (pairs (pairs [1, 2, 3] [0, 1, 2]) (pairs [0, 9, 18446744073709551615, 36893488147419103230] [0, 5, 18446744073709551000])).map
    fun ((b, n), (tsum, vsum)) => ({ bucket := b, p := 4, tsSum := tsum, vSum := vsum, sampled := n, out := [⟨1, [1, 2, 3, 4]⟩] } : Sampler)
  let runS := fun (s : Sampler) (r : R ((Sampler × List CatchUp) × Unit)) => (match r with
    | .error _ => "fault"
    | .ok ((s', acts), _) => match acts with
      | [] => s!"cont {s'.tsSum} {s'.vSum} {s'.sampled} {repr s.out}"
      | [CatchUp.outTs t, CatchUp.outItem v] => s!"cont {s'.tsSum} {s'.vSum} {s'.sampled} {repr (s.out ++ [⟨t, linEncode s.p v⟩])}"
      | _ => "fault")
  let showP := fun (r : PRes Sampler) => (match r with
    | .cont s' => s!"cont {s'.tsSum} {s'.vSum} {s'.sampled} {repr s'.out}"
    | .fault => "fault"
    | _ => "other")
  firstDiff "Sampler::process" ((pairs samplers [0, 7, 18446744073709551615]).filter (fun (s, t) => (s.tsSum + t) / s.bucket < 2^64) |>.map fun (s, t) => ((s.bucket, s.sampled, s.tsSum, s.vSum, t), s))
    (fun ((_, _, _, _, t), s) => (.ok (runS s (Sampler_process s t [200, 1, 0, 0])) : R String))
    (fun ((_, _, _, _, t), s) => .ok (showP (samplerProc s t [200, 1, 0, 0])))
  -- push_data: payload size x last full timestamp x timestamp (around the section limit) x line; the writes carried out
  let pdSess : List DataSess := (pairs [0, 1, 2, 3, 4] (pairs [none, some 100] [0, 46])).map fun (p, (lf, dl)) =>
    ({ p := p, hdrLen := 0, ihdrLen := 4, dataLen := dl, entries := (match lf with | some t => [⟨t, 0⟩] | none => []), lastFull := lf, lastTime := lf } : DataSess)
  firstDiff "Data::push_data" ((pairs pdSess [0, 99, 100, 101, 65633, 65634, 65635, 65636, 18446744073709551615]).map fun (d, t) => ((d.p, d.lastFull, d.dataLen, t), d))
    (fun ((_, _, _, t), d) => (.ok (reprR (runPushDataG st0 d (Data_push_data d.view t [7, 8, 9, 10, 11]))) : R String))
    (fun ((_, _, _, t), d) => .ok (reprR (pushData st0 d t [7, 8, 9, 10, 11])))
  firstDiff "Index::update" (pairs [0, 5, 18446744073709551615] [0, 46, 4294967296])
    (fun (t, o) => (.ok (toString (repr (Index_update ⟨[⟨1, 0⟩], some 1⟩ t o |>.toOption.map fun r => (r.1.1.entries, r.1.1.last_timestamp, r.1.2)))) : R String))
    (fun (t, o) => .ok (toString (repr (some (([⟨1, 0⟩, ⟨t, o⟩] : List IEntry), some t, [IoW.indexWrite (le8 t), IoW.indexWrite (le8 o)])))))
  -- the open-time repair: canonical regions (two sections, marker-like bytes) cut at EVERY byte length, per payload class
  for p in [0, 1, 2, 3, 4, 7] do
    let mkl := fun (d seed : Nat) => le2 d ++ (List.range p).map fun i => UInt8.ofNat (if (seed + i) % 3 == 0 then 255 else (seed * 7 + i) % 200)
    let region : Bytes := metaWrite p 65535 ++ mkl 0 1 ++ mkl 5 2 ++ mkl 65534 3 ++ metaWrite p 4294967295 ++ mkl 0 4 ++ mkl 65535 5
    firstDiff s!"FileWithInlineMeta::new(p={p})" ((List.range (region.length + 1)).map fun n => (n, region.take n))
      (fun (_, d) => (FileWithInlineMeta_new d p).map fun r => (r.1, r.2.file_handle, r.2.payload_size))
      (fun (_, d) => .ok (repairData p d, repairData p d, p))
  -- push_line: payload length x range x timestamp; compare the decisions (error class / new range / the two actions)
  let plShow := fun (r : R ((SeriesView × List CatchUp) × Unit)) => (match r with
    | .error f => reprR (.error f : R Nat)
    | .ok ((v, acts), _) => s!"ok {repr v.range} {repr acts}")
  let rangesP : List (Option (Nat × Nat)) := [none, some (5, 9), some (0, 18446744073709551615)]
  firstDiff "ByteSeries::push_line" ((pairs (pairs rangesP [0, 9, 10, 18446744073709551615]) ([[1, 2, 3, 4], [1, 2, 3], [1, 2, 3, 4, 5], []] : List Bytes)).map fun ((r, t), pl) => (r, t, pl))
    (fun (r, t, pl) => (.ok (plShow (ByteSeries_push_line ⟨{ p := 4, dataLen := 0, entries := [], lastFull := none, lastTime := none }, r⟩ t pl)) : R String))
    (fun (r, t, pl) => .ok (if pl.length ≠ 4 then "err WrongLineLength" else match rangeUpdate r t with
      | .error _ => "err TimeNotAfterLast"
      | .ok r' => s!"ok {repr r'} {repr [CatchUp.push t pl, CatchUp.cache t pl]}"))
  let ranges : List (Option (Nat × Nat)) := none :: (pairs [0, 5, 65535] [5, 65535, 18446744073709551615]).filterMap fun (a, b) => if a ≤ b then some (some (a, b)) else none
  firstDiff "TimeRange::update" (pairs ranges vals64) (fun (r, t) => TimeRange_update r t)
    (fun (r, t) => match rangeUpdate r t with | .ok r' => .ok (r', ()) | .error _ => .error (.err "TimeNotAfterLast"))
  let tss : List Nat := [0, 1, 72623859790382856, 18446744073709551615, 4294967296, 281474976710656, 65535, 4294901760]
  firstDiff "meta::write" (pairs tss ((List.range 14) ++ [67, 68, 69, 131, 132, 200]))
    (fun (ts, p) => write (le8 ts) p) (fun (ts, p) => .ok (metaWrite p ts, metaSize p))
  let mkLine := fun (p seed : Nat) => (List.range (p + 2)).map fun i => UInt8.ofNat ((seed * 37 + i * 11 + 1) % 251)
  let readIn : List (Nat × Nat) := (pairs ((List.range 10) ++ [67, 68]) (List.range 7))
  firstDiff "meta::read" readIn
    (fun (p, k) => read ((List.range k).map fun j => mkLine p (j + 3)) (mkLine p 1) (mkLine p 2))
    (fun (p, k) =>
      let chunks := (List.range k).map fun j => mkLine p (j + 3)
      .ok (if chunks.length < rawCount p then MetaResult.outOfLines chunks.length
           else MetaResult.gotMeta (leN 8 (metaTs p (mkLine p 1) (mkLine p 2) (chunks.take (rawCount p))))))
  let smalls := (pairs vals64 vals64)
  firstDiff "RoughPos::start_small_ts" smalls (fun (t, f) => RoughPos_start_small_ts ⟨t, .clipped, f, 0, .gap 0, 0⟩) (fun (t, f) => smallOf t f)
  firstDiff "RoughPos::end_small_ts" smalls (fun (t, f) => RoughPos_end_small_ts ⟨0, .clipped, 0, t, .gap 0, f⟩) (fun (t, f) => smallOf t f)
  firstDiff "Pos::lines" ((pairs (pairs offs offs) ps).filter fun ((a, b), _) => a ≤ b)
    (fun ((a, b), p) => Pos_lines ⟨a, b, 0⟩ { p := p, dataLen := 0, entries := [], lastFull := none, lastTime := none })
    (fun ((a, b), p) => .ok (Pos.lines ⟨a, b, 0⟩ p))
