/-
  Line-protocol driver: reads an op script on stdin and prints, per op,
    M <what the model of the implementation observes>
    S <what the specification expects>
  Compiled as a `lean_exe`; nothing it imports touches Mathlib.
-/
import BS.Script
import BS.SpecWorld

open BS

partial def loop (h : IO.FS.Stream) (out : IO.FS.Stream) (mw : Impl.World) (sw : SpecW.SpecWorld) : IO Unit := do
  let line ← h.getLine
  if line.isEmpty then return ()
  let t := line.trimAscii.toString
  if t.isEmpty || t.startsWith "#" then
    loop h out mw sw
  else
    let op := Script.parseOp t
    let (mw', m) := Impl.step mw op
    let (sw', s) := SpecW.step sw op
    out.putStrLn ("M " ++ m)
    out.putStrLn ("S " ++ s)
    out.flush
    loop h out mw' sw'

def main : IO Unit := do
  loop (← IO.getStdin) (← IO.getStdout) {} {}
