/-
  Line-protocol driver: reads an op script on stdin and prints, per op,
    M <what the model of the implementation observes>
    S <what the specification expects>
  Compiled as a `lean_exe`; nothing it imports touches Mathlib.
-/
import BS.Script
import BS.SpecWorld

open BS

/-- how the model's directory changed over one op (same classification as bsrun's audit mode) -/
def fsChange (a b : Impl.Dir) : String :=
  if a == b then "same" else
  let roles : List Impl.Role := [.data, .index, .part] ++
    (a.caches ++ b.caches).flatMap fun (B, _) => [.cdata B, .cindex B, .cpart B]
  let ok := roles.all fun r =>
    match a.getRole r, b.getRole r with
    | some old, some new => old.isPrefixOf new
    | some _, none => false
    | none, _ => true
  if ok then
    -- an unchanged listing that only differs in bookkeeping is `same`
    if roles.all (fun r => a.getRole r == b.getRole r) then "same" else "append"
  else "other"

partial def loop (audit : Bool) (h : IO.FS.Stream) (out : IO.FS.Stream) (mw : Impl.World) (sw : SpecW.SpecWorld) : IO Unit := do
  let line ← h.getLine
  if line.isEmpty then return ()
  let t := line.trimAscii.toString
  if t.isEmpty || t.startsWith "#" then
    loop audit h out mw sw
  else
    let op := Script.parseOp t
    let (mw', m) := Impl.step mw op
    let (sw', s) := SpecW.step sw op
    let m := if audit then m ++ " #fs=" ++ fsChange mw.dir mw'.dir else m
    out.putStrLn ("M " ++ m)
    out.putStrLn ("S " ++ s)
    out.flush
    loop audit h out mw' sw'

def main : IO Unit := do
  let audit := (← IO.getEnv "BSRUN_AUDIT").isSome
  loop audit (← IO.getStdin) (← IO.getStdout) {} {}
