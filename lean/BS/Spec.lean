/-
  THE SPECIFICATION (the oracle).  Short enough to read in minutes.

  A series is a list of entries.  This file says, without reference to the
  implementation model in `BS/Impl`, what the documented v1 file format is
  (canonical encoder, independent reference decoder), which entries a range
  selects, what bucket means are, and which prefix survives a cut.

  Shares with the model only `BS/Bytes.lean` (LE codecs, `chunks_exact`) and the
  constants regenerated from the sources.
-/
import BS.Bytes
import BS.Generated.Consts

namespace BS

/-- strictly increasing timestamps below 2^64, payloads of exactly `p` bytes -/
def Valid (p : Nat) (xs : List Entry) : Prop :=
  xs.Pairwise (fun a b => a.ts < b.ts) ∧ ∀ x ∈ xs, x.ts < 2^64 ∧ x.pl.length = p

namespace Spec

/-! ### Layout of the data region (documented in the file's own preamble) -/

def lineSize (p : Nat) : Nat := p + 2

/-- timestamp bytes that fit into each of the two marker lines -/
def inMarker (p : Nat) : Nat := min p 4

/-- timestamp bytes that spill into raw lines after the two marker lines -/
def spill (p : Nat) : Nat := 8 - 2 * inMarker p

/-- number of raw (timestamp only) lines after the two marker lines -/
def rawLines (p : Nat) : Nat := (spill p + lineSize p - 1) / lineSize p

/-- lines occupied by one full-timestamp section -/
def secLines (p : Nat) : Nat := 2 + rawLines p

def secSize (p : Nat) : Nat := secLines p * lineSize p

/-- one full-timestamp section: two marker lines carrying the first timestamp
bytes, the remaining bytes in raw lines, zero padded -/
def encSection (p ts : Nat) : Bytes :=
  let t := le8 ts
  let k := inMarker p
  [0xFF, 0xFF] ++ t.take k ++ zeros (p - k) ++
  [0xFF, 0xFF] ++ (t.drop k).take k ++ zeros (p - k) ++
  (t.drop (2 * k)) ++ zeros (rawLines p * lineSize p - spill p)

def encLine (delta : Nat) (pl : Bytes) : Bytes := le2 delta ++ pl

/-- largest delta a line can carry; `FF FF` is the section marker -/
def maxDelta : Nat := 65534

/-- CANONICAL encoder: a section for the first entry and whenever the distance to
the last full timestamp exceeds `maxDelta`; `full` is the last full timestamp -/
def encFrom (p : Nat) : Option Nat → List Entry → Bytes
  | _, [] => []
  | none, e :: es => encSection p e.ts ++ encLine 0 e.pl ++ encFrom p (some e.ts) es
  | some f, e :: es =>
    if e.ts - f ≤ maxDelta then encLine (e.ts - f) e.pl ++ encFrom p (some f) es
    else encSection p e.ts ++ encLine 0 e.pl ++ encFrom p (some e.ts) es

def encode (p : Nat) (xs : List Entry) : Bytes := encFrom p none xs

/-- (full timestamp, byte offset) of every section the canonical encoder emits -/
def sectionsFrom (p : Nat) : Option Nat → Nat → List Entry → List (Nat × Nat)
  | _, _, [] => []
  | none, off, e :: es => (e.ts, off) :: sectionsFrom p (some e.ts) (off + secSize p + lineSize p) es
  | some f, off, e :: es =>
    if e.ts - f ≤ maxDelta then sectionsFrom p (some f) (off + lineSize p) es
    else (e.ts, off) :: sectionsFrom p (some e.ts) (off + secSize p + lineSize p) es

def sections (p : Nat) (xs : List Entry) : List (Nat × Nat) := sectionsFrom p none 0 xs

/-- the sidecar index: 16 bytes per section, LE timestamp then LE offset -/
def encIndex (secs : List (Nat × Nat)) : Bytes :=
  (secs.map fun s => le8 s.1 ++ le8 s.2).flatten

/-! ### Independent reference decoder (knows only the layout above) -/

/-- timestamp carried by a section given as its list of lines -/
def secTs (p : Nat) (l1 l2 : Bytes) (raws : List Bytes) : Nat :=
  let k := inMarker p
  unN ((l1.drop 2).take k ++ (l2.drop 2).take k ++ (raws.flatten).take (spill p))

/-- forward parser over lines; `none` when the bytes are not a well-formed v1 data region -/
def refDecodeLines (p : Nat) (full : Option Nat) (ls : List Bytes) : Option (List Entry) :=
  match ls with
  | [] => some []
  | l :: rest =>
    if isMarker l then
      match rest with
      | [] => none
      | l2 :: rest2 =>
        if isMarker l2 && decide (rawLines p ≤ rest2.length) then
          refDecodeLines p (some (secTs p l l2 (rest2.take (rawLines p)))) (rest2.drop (rawLines p))
        else none
    else
      match full with
      | none => none
      | some f =>
        match refDecodeLines p (some f) rest with
        | none => none
        | some es => some (⟨f + unN (l.take 2), l.drop 2⟩ :: es)
termination_by ls.length
decreasing_by all_goals simp_all <;> omega

def refDecode (p : Nat) (b : Bytes) : Option (List Entry) :=
  if b.length % lineSize p = 0 then refDecodeLines p none (toLines (lineSize p) b) else none

/-! ### Range selection -/

inductive Bound where
  | incl (t : Nat)
  | excl (t : Nat)
  | unb
deriving Repr, DecidableEq, Inhabited

def Bound.okStart : Bound → Nat → Bool
  | .incl t, x => decide (t ≤ x)
  | .excl t, x => decide (t < x)
  | .unb, _ => true

def Bound.okEnd : Bound → Nat → Bool
  | .incl t, x => decide (x ≤ t)
  | .excl t, x => decide (x < t)
  | .unb, _ => true

def filterBounds (s e : Bound) (xs : List Entry) : List Entry :=
  xs.filter fun x => s.okStart x.ts && e.okEnd x.ts

/-! ### Bucket means -/

/-- means of consecutive full buckets of `B` entries; the timestamp is the floor of
the mean timestamp, the value is the resampler's mean of the payloads -/
def bucketMeans (B : Nat) (mean : List Bytes → Bytes) (xs : List Entry) : List Entry :=
  if _h : B = 0 ∨ xs.length < B then []
  else
    let b := xs.take B
    ⟨(b.map (·.ts)).sum / B, mean (b.map (·.pl))⟩ :: bucketMeans B mean (xs.drop B)
termination_by xs.length
decreasing_by
  simp only [List.length_drop]
  omega

/-- the integer resampler used by the harness (`Lin`): LE value of the first
`min p 4` payload bytes, floor of the mean, re-encoded and zero padded -/
def linDecode (pl : Bytes) : Nat := unN (pl.take 4)
def linEncode (p v : Nat) : Bytes := leN (min p 4) v ++ zeros (p - min p 4)
def linMean (p : Nat) (pls : List Bytes) : Bytes :=
  linEncode p ((pls.map linDecode).sum / pls.length)

/-! ### What survives a cut of the data region at `d` bytes -/

/-- number of entries whose bytes (section included) lie completely inside the
first `d` bytes of `encFrom p full xs` placed at offset `off` -/
def linesWithinFrom (p : Nat) : Option Nat → Nat → Nat → List Entry → Nat
  | _, _, _, [] => 0
  | none, off, d, e :: es =>
    if off + secSize p + lineSize p ≤ d then 1 + linesWithinFrom p (some e.ts) (off + secSize p + lineSize p) d es else 0
  | some f, off, d, e :: es =>
    if e.ts - f ≤ maxDelta then
      if off + lineSize p ≤ d then 1 + linesWithinFrom p (some f) (off + lineSize p) d es else 0
    else
      if off + secSize p + lineSize p ≤ d then 1 + linesWithinFrom p (some e.ts) (off + secSize p + lineSize p) d es else 0

def linesWithin (p : Nat) (xs : List Entry) (d : Nat) : Nat := linesWithinFrom p none 0 d xs

/-! ### File header (outer: u16 length, two newlines; inner: u32 text length, text, user header) -/

/-- decimal digits, most significant first -/
def natDigits (n : Nat) : Bytes :=
  if n < 10 then [(48 + n).toUInt8] else natDigits (n / 10) ++ [(48 + n % 10).toUInt8]
termination_by n
decreasing_by omega

def preambleText (p : Nat) : Bytes :=
  Gen.textPre ++ natDigits Gen.version ++ Gen.textMid ++ natDigits p ++ Gen.textPost

def innerHeader (p : Nat) (user : Bytes) : Bytes :=
  let t := preambleText p
  leN 4 t.length ++ t ++ user

def outerHeader (h : Bytes) : Bytes := leN 2 h.length ++ Gen.lineEnds ++ h

def fileHeader (p : Nat) (user : Bytes) : Bytes := outerHeader (innerHeader p user)

def dataFile (p : Nat) (user : Bytes) (xs : List Entry) : Bytes :=
  fileHeader p user ++ encode p xs

def indexFile (p : Nat) (xs : List Entry) : Bytes :=
  outerHeader [] ++ encIndex (sections p xs)

/-- user header the library gives a cache of bucket size `B` for the series named `name` -/
def cacheUserHeader (name : Bytes) (B : Nat) : Bytes :=
  Gen.cacheHdrPre ++ name ++ Gen.cacheHdrMid ++
    "Config { max_gap: None, bucket_size: ".toUTF8.toList ++ natDigits B ++ " }".toUTF8.toList ++
    Gen.cacheHdrPost

/-- reads the declared header lengths and the payload size back out of a file;
the reference reader for "knows only what the preamble says" -/
def parseNat? (b : Bytes) : Option Nat :=
  if b.isEmpty then none
  else b.foldl (fun acc c => match acc with
    | none => none
    | some n => if 48 ≤ c.toNat ∧ c.toNat ≤ 57 then some (n * 10 + (c.toNat - 48)) else none) (some 0)

/-- index of the first occurrence of `pat` in `b` -/
def findSub (pat b : Bytes) : Option Nat :=
  go b 0 (b.length + 1)
where
  go (b : Bytes) (i : Nat) : Nat → Option Nat
    | 0 => none
    | fuel+1 =>
      if pat.isPrefixOf b then some i
      else match b with
        | [] => none
        | _ :: t => go t (i+1) fuel

/-- (user header, payload size, data region) of a v1 file -/
def refSplitFile (f : Bytes) : Option (Bytes × Nat × Bytes) :=
  if f.length < 4 then none else
  let hl := unN (f.take 2)
  if f.length < 4 + hl then none else
  let inner := (f.drop 4).take hl
  if inner.length < 4 then none else
  let tl := unN (inner.take 4)
  if inner.length < 4 + tl then none else
  let text := (inner.drop 4).take tl
  let user := inner.drop (4 + tl)
  match findSub Gen.payloadStart text, findSub Gen.payloadEnd text with
  | some i, some j =>
    match parseNat? ((text.take j).drop (i + Gen.payloadStart.length)) with
    | some p => some (user, p, f.drop (4 + hl))
    | none => none
  | _, _ => none

def refDecodeFile (f : Bytes) : Option (Bytes × Nat × List Entry) :=
  match refSplitFile f with
  | none => none
  | some (user, p, region) =>
    match refDecode p region with
    | none => none
    | some xs => some (user, p, xs)

end Spec
end BS
