/-
  C09 in its repeated form: the general cache invariant `CacheInvD`.  A cache whose stored
  history `L` agrees with the bucket means of the source in every position outside a set `D`
  of deviating buckets (each one a straddling bucket kept by an `open` after a crash).
  Preserved by `process` (`D` unchanged) and re-established by `open` after ANY crash of
  source and cache (`D` grows by at most the one bucket straddling the end of the surviving lines).
-/
import BS.Proofs.CacheDev

namespace BS.Impl
open BS

/-- the accumulator state: catching lines normally, or still skipping the lines the last
stored bucket already accounts for -/
def CachePhase (c : CacheSess) (xs L : List Entry) (D : Nat → Prop) : Prop :=
  (c.skip = 0 ∧ L.length = xs.length / c.B ∧ c.inBin = xs.length % c.B ∧
    c.tsSum = ((pendOf c.B xs).map (·.ts)).sum ∧ c.vSum = ((pendOf c.B xs).map (linDecode ·.pl)).sum) ∨
  (L.length = xs.length / c.B + 1 ∧ c.skip = L.length * c.B - xs.length ∧ D (xs.length / c.B) ∧
    c.inBin = 0 ∧ c.tsSum = 0 ∧ c.vSum = 0)

structure CacheInvD (hdr ihdr : Bytes) (st : Store) (c : CacheSess) (xs L : List Entry) (D : Nat → Prop) : Prop where
  data : DataInv hdr ihdr st c.d L
  valid : Valid c.d.p L
  Bpos : 1 ≤ c.B
  Ble : c.B ≤ 2^32
  agree : ∀ i, ¬ D i → L[i]? = (Spec.bucketMeans c.B (Spec.linMean c.d.p) xs)[i]?
  bound : ∀ i, D i → ∀ h : i < L.length, ∃ j, ∃ hj : j < xs.length, j < (i + 1) * c.B ∧ L[i].ts ≤ xs[j].ts
  phase : CachePhase c xs L D

theorem sorted_le_last (L : List Entry) (hs : Sorted L) (a : Entry) (ha : a ∈ L) (h : 0 < L.length) :
    a.ts ≤ (L[L.length - 1]'(by omega)).ts := by
  obtain ⟨n, hn⟩ := List.getElem?_of_mem ha
  have hnl : n < L.length := (List.getElem?_eq_some_iff.mp hn).1
  by_cases hnn : n = L.length - 1
  · subst hnn
    rw [List.getElem?_eq_getElem (by omega)] at hn
    injection hn with hn; rw [hn]; exact Nat.le_refl _
  · exact Nat.le_of_lt (sorted_get_lt L hs n (L.length - 1) a _ (by omega) hn (List.getElem?_eq_getElem (by omega)))

theorem div_between (n B k : Nat) (h1 : k * B ≤ n) (h2 : n < (k + 1) * B) : n / B = k := by
  have hB : 0 < B := by
    rcases Nat.eq_zero_or_pos B with h | h
    · subst h; simp at h2
    · exact h
  apply Nat.le_antisymm
  · exact Nat.le_of_lt_succ ((Nat.div_lt_iff_lt_mul hB).mpr h2)
  · exact (Nat.le_div_iff_mul_le hB).mpr h1

/-- **one source line through `process` keeps the general invariant**; the stored history grows
by the new bucket mean or not at all, `D` stays -/
theorem processD (hdr ihdr : Bytes) (st : Store) (c : CacheSess) (xs L : List Entry) (D : Nat → Prop) (e : Entry)
    (hinv : CacheInvD hdr ihdr st c xs L D) (hv : Valid c.d.p (xs ++ [e])) :
    ∃ st' c' L', cacheProcess st c e.ts e.pl = .ok (st', c') ∧ c'.B = c.B ∧ c'.d.p = c.d.p ∧
      CacheInvD hdr ihdr st' c' (xs ++ [e]) L' D := by
  have hB : 0 < c.B := hinv.Bpos
  have hbound' : ∀ L' : List Entry, (∀ i (h : i < L.length), ∃ h' : i < L'.length, L'[i] = L[i]) →
      ∀ i, D i → ∀ h : i < L.length, ∃ j, ∃ hj : j < (xs ++ [e]).length, j < (i + 1) * c.B ∧ L[i].ts ≤ (xs ++ [e])[j].ts := by
    intro _ _ i hD h
    obtain ⟨j, hj, hjb, hle⟩ := hinv.bound i hD h
    exact ⟨j, by simp; omega, hjb, by rw [List.getElem_append_left hj]; exact hle⟩
  have hsnoc := bucketMeans_snoc c.B (Spec.linMean c.d.p) hB xs e
  have hMlen : (Spec.bucketMeans c.B (Spec.linMean c.d.p) xs).length = xs.length / c.B :=
    bucketMeans_len c.B _ hB _ xs rfl
  rcases hinv.phase with ⟨hskip0, hLlen, hinBin, htsSum, hvSum⟩ | ⟨hLlen, hskip, hDq, h1, h2, h3⟩
  · -- catching lines normally
    have hplen := pendOf_length c.B xs
    have hmodlt := Nat.mod_lt xs.length hB
    have hsdm := succ_div_mod xs.length c.B hB
    have hvlt : ¬ (c.vSum + linDecode e.pl ≥ 2^64) := by
      have h1 := sum_linDecode_le ((pendOf c.B xs).map (·.pl))
      simp only [List.map_map, List.length_map] at h1
      have h2 : c.vSum ≤ (pendOf c.B xs).length * (2^32 - 1) := by rw [hvSum]; exact h1
      have h3 := linDecode_lt e.pl
      have h4 : (pendOf c.B xs).length * (2^32 - 1) ≤ 2^32 * (2^32 - 1) :=
        Nat.mul_le_mul_right _ (by have := hinv.Ble; omega)
      omega
    unfold cacheProcess
    have hskip : ¬ c.skip > 0 := by rw [hskip0]; omega
    simp only [hskip, if_false, hvlt]
    by_cases hfull : c.inBin + 1 ≥ c.B
    · have hr : xs.length % c.B + 1 = c.B := by rw [hinBin] at hfull; omega
      obtain ⟨hdiv, hmod⟩ := hsdm.1 hr
      have hB0 : ¬ c.B = 0 := by omega
      simp only [hfull, if_true, hB0, if_false]
      have hq : xs.length + 1 - c.B = xs.length / c.B * c.B := by
        have := Nat.div_add_mod xs.length c.B
        have : c.B * (xs.length / c.B) = xs.length / c.B * c.B := Nat.mul_comm _ _
        omega
      have hlastB : (xs ++ [e]).drop (xs.length + 1 - c.B) = pendOf c.B xs ++ [e] := by
        unfold pendOf
        rw [hq, List.drop_append_of_le_length (Nat.div_mul_le_self _ _)]
      rw [if_pos hmod, hlastB] at hsnoc
      have hts_eq : ((pendOf c.B xs ++ [e]).map (·.ts)).sum = c.tsSum + e.ts := by
        simp [htsSum]
      have hpl_eq : Spec.linMean c.d.p ((pendOf c.B xs ++ [e]).map (·.pl)) = linEncode c.d.p ((c.vSum + linDecode e.pl) / c.B) := by
        unfold Spec.linMean
        rw [spec_linEncode, spec_linDecode_fn]
        simp only [List.map_append, List.map_map, List.sum_append, List.map_cons, List.map_nil, List.sum_cons,
          List.sum_nil, Nat.add_zero, List.length_append, List.length_map, List.length_cons, List.length_nil, hplen, hr]
        rw [hvSum]; rfl
      rw [hts_eq, hpl_eq] at hsnoc
      have hassert : ¬ ((c.tsSum + e.ts) / c.B > e.ts) := by
        have hle : ∀ t ∈ (pendOf c.B xs ++ [e]).map (·.ts), t ≤ e.ts := by
          intro t ht
          simp only [List.mem_map, List.mem_append, List.mem_singleton] at ht
          obtain ⟨y, hy, rfl⟩ := ht
          rcases hy with hy | rfl
          · exact Nat.le_of_lt (sorted_snoc_last xs e hv.1 y (List.mem_of_mem_drop hy))
          · exact Nat.le_refl _
        have := sum_div_le_of_le _ e.ts hle (by simp)
        simp only [List.length_map, List.length_append, List.length_cons, List.length_nil, hplen, hr] at this
        rw [hts_eq] at this
        omega
      simp only [hassert, if_false]
      have hvm0 : Valid c.d.p (Spec.bucketMeans c.B (Spec.linMean c.d.p) xs ++
          [⟨(c.tsSum + e.ts) / c.B, linEncode c.d.p ((c.vSum + linDecode e.pl) / c.B)⟩]) := by
        rw [← hsnoc]; exact valid_bucketMeans c.d.p c.B hB _ hv
      -- the new mean is newer than everything stored
      have hnewer : ∀ a ∈ L, a.ts < (c.tsSum + e.ts) / c.B := by
        intro a ha
        have hLpos : 0 < L.length := List.length_pos_of_mem ha
        have hale := sorted_le_last L hinv.valid.1 a ha hLpos
        by_cases hDl : D (L.length - 1)
        · obtain ⟨j, hj, hjb, hle⟩ := hinv.bound (L.length - 1) hDl (by omega)
          have hjlt : j < xs.length / c.B * c.B := by
            have : L.length - 1 + 1 = L.length := by omega
            rw [this, hLlen] at hjb; exact hjb
          have hxj : ∀ t ∈ (pendOf c.B xs ++ [e]).map (·.ts), xs[j].ts + 1 ≤ t := by
            intro t ht
            simp only [List.mem_map, List.mem_append, List.mem_singleton] at ht
            obtain ⟨y, hy, rfl⟩ := ht
            rcases hy with hy | rfl
            · unfold pendOf at hy
              obtain ⟨m, hm⟩ := List.getElem?_of_mem hy
              rw [List.getElem?_drop] at hm
              exact sorted_get_lt xs (List.pairwise_append.mp hv.1).1 j _ xs[j] y (by omega)
                (List.getElem?_eq_getElem hj) hm
            · exact sorted_snoc_last xs y hv.1 xs[j] (List.getElem_mem hj)
          have := le_sum_div_of_ge _ (xs[j].ts + 1) hxj (by simp)
          simp only [List.length_map, List.length_append, List.length_cons, List.length_nil, hplen, hr] at this
          rw [hts_eq] at this
          omega
        · have hag := hinv.agree (L.length - 1) hDl
          rw [List.getElem?_eq_getElem (by omega)] at hag
          have hmem : L[L.length - 1] ∈ Spec.bucketMeans c.B (Spec.linMean c.d.p) xs :=
            List.mem_of_getElem? hag.symm
          have := sorted_snoc_last _ _ hvm0.1 _ hmem
          simp only at this
          omega
      have hvm : Valid c.d.p (L ++ [⟨(c.tsSum + e.ts) / c.B, linEncode c.d.p ((c.vSum + linDecode e.pl) / c.B)⟩]) := by
        constructor
        · apply List.pairwise_append.mpr
          refine ⟨hinv.valid.1, by simp, ?_⟩
          intro a ha b hb
          simp only [List.mem_singleton] at hb
          subst hb
          exact hnewer a ha
        · intro x hx
          rcases List.mem_append.mp hx with hx | hx
          · exact hinv.valid.2 x hx
          · exact hvm0.2 x (List.mem_append_right _ hx)
      obtain ⟨st', d', hpush, hp', hinv'⟩ := pushData_inv hdr ihdr st c.d _ _ hinv.data hvm
      simp only at hpush
      rw [hpush]
      have hmul : (xs.length / c.B + 1) * c.B = xs.length + 1 := by
        have := Nat.div_add_mod xs.length c.B
        rw [Nat.add_mul, Nat.mul_comm (xs.length / c.B) c.B]; omega
      refine ⟨_, _, L ++ [⟨(c.tsSum + e.ts) / c.B, linEncode c.d.p ((c.vSum + linDecode e.pl) / c.B)⟩], rfl, rfl, hp', ?_⟩
      constructor
      · exact hinv'
      · show Valid d'.p _; rw [hp']; exact hvm
      · exact hinv.Bpos
      · exact hinv.Ble
      · intro i hDi
        show _ = (Spec.bucketMeans c.B (Spec.linMean d'.p) (xs ++ [e]))[i]?
        rw [hp', hsnoc]
        by_cases hi : i < L.length
        · rw [List.getElem?_append_left hi, List.getElem?_append_left (by rw [hMlen, ← hLlen]; exact hi)]
          exact hinv.agree i hDi
        · rw [List.getElem?_append_right (by omega), List.getElem?_append_right (by rw [hMlen, ← hLlen]; omega),
            hMlen, hLlen]
      · intro i hDi h
        simp only [List.length_append, List.length_cons, List.length_nil] at h
        by_cases hi : i < L.length
        · obtain ⟨j, hj, hjb, hle⟩ := hinv.bound i hDi hi
          refine ⟨j, by simp; omega, hjb, ?_⟩
          rw [List.getElem_append_left hi, List.getElem_append_left hj]; exact hle
        · -- the new bucket itself: bounded by the line that completed it
          have hiL : i = L.length := by omega
          refine ⟨xs.length, by simp, ?_, ?_⟩
          · rw [hiL, hLlen, hmul]; omega
          · simp only [hiL, List.getElem_append_right (Nat.le_refl _), Nat.sub_self, List.getElem_cons_zero]
            omega
      · left
        refine ⟨hskip0, ?_, ?_, ?_, ?_⟩
        · simp only [List.length_append, List.length_cons, List.length_nil, hdiv, hLlen]
        · simp [hmod]
        · simp only [pendOf, List.length_append, List.length_cons, List.length_nil, hdiv]
          rw [hmul, List.drop_eq_nil_of_le (by simp)]; simp
        · simp only [pendOf, List.length_append, List.length_cons, List.length_nil, hdiv]
          rw [hmul, List.drop_eq_nil_of_le (by simp)]; simp
    · have hr : xs.length % c.B + 1 < c.B := by rw [hinBin] at hfull; omega
      obtain ⟨hdiv, hmod⟩ := hsdm.2 hr
      simp only [hfull, if_false]
      have hmod0 : ¬ (xs.length + 1) % c.B = 0 := by rw [hmod]; omega
      rw [if_neg hmod0, List.append_nil] at hsnoc
      have hpend : pendOf c.B (xs ++ [e]) = pendOf c.B xs ++ [e] := by
        unfold pendOf
        simp only [List.length_append, List.length_cons, List.length_nil, hdiv]
        rw [List.drop_append_of_le_length (Nat.div_mul_le_self _ _)]
      refine ⟨_, _, L, rfl, rfl, rfl, ?_⟩
      constructor
      · exact hinv.data
      · exact hinv.valid
      · exact hinv.Bpos
      · exact hinv.Ble
      · intro i hDi; show _ = (Spec.bucketMeans c.B (Spec.linMean c.d.p) (xs ++ [e]))[i]?
        rw [hsnoc]; exact hinv.agree i hDi
      · exact hbound' L (fun i h => ⟨h, rfl⟩)
      · left
        refine ⟨hskip0, ?_, ?_, ?_, ?_⟩
        · simp only [List.length_append, List.length_cons, List.length_nil, hdiv, hLlen]
        · simp [hinBin, hmod]
        · simp [hpend, htsSum]
        · simp [hpend, hvSum]
  · -- still skipping
    have hlo : xs.length / c.B * c.B ≤ xs.length := Nat.div_mul_le_self _ _
    have hhi : xs.length < (xs.length / c.B + 1) * c.B := by
      have := Nat.div_add_mod xs.length c.B
      have := Nat.mod_lt xs.length hB
      rw [Nat.add_mul, Nat.mul_comm (xs.length / c.B) c.B]; omega
    have hskpos : c.skip > 0 := by rw [hskip, hLlen]; omega
    refine ⟨st, { c with skip := c.skip - 1 }, L, ?_, rfl, rfl, ?_⟩
    · unfold cacheProcess; simp only [hskpos, if_true]
    · by_cases hmore : xs.length + 1 < (xs.length / c.B + 1) * c.B
      · have hdiv' : (xs.length + 1) / c.B = xs.length / c.B :=
          div_between _ _ _ (by omega) hmore
        have hmod0 : ¬ (xs.length + 1) % c.B = 0 := by
          intro h0
          have := Nat.div_add_mod (xs.length + 1) c.B
          rw [h0, hdiv', Nat.mul_comm] at this; omega
        rw [if_neg hmod0, List.append_nil] at hsnoc
        constructor
        · exact hinv.data
        · exact hinv.valid
        · exact hinv.Bpos
        · exact hinv.Ble
        · intro i hDi; show _ = (Spec.bucketMeans c.B (Spec.linMean c.d.p) (xs ++ [e]))[i]?
          rw [hsnoc]; exact hinv.agree i hDi
        · exact hbound' L (fun i h => ⟨h, rfl⟩)
        · right
          simp only [List.length_append, List.length_cons, List.length_nil, hdiv']
          refine ⟨hLlen, ?_, hDq, h1, h2, h3⟩
          show c.skip - 1 = _; rw [hskip]; omega
      · have hlen' : xs.length + 1 = (xs.length / c.B + 1) * c.B := by omega
        have hdiv' : (xs.length + 1) / c.B = xs.length / c.B + 1 := by
          rw [hlen', Nat.mul_div_cancel _ hB]
        have hmod' : (xs.length + 1) % c.B = 0 := by rw [hlen', Nat.mul_mod_left]
        rw [if_pos hmod'] at hsnoc
        have hpend : pendOf c.B (xs ++ [e]) = [] := by
          unfold pendOf
          simp only [List.length_append, List.length_cons, List.length_nil]
          rw [hdiv', ← hlen']
          apply List.drop_eq_nil_of_le; simp
        constructor
        · exact hinv.data
        · exact hinv.valid
        · exact hinv.Bpos
        · exact hinv.Ble
        · intro i hDi; show _ = (Spec.bucketMeans c.B (Spec.linMean c.d.p) (xs ++ [e]))[i]?
          rw [hsnoc]
          have hne : i ≠ xs.length / c.B := fun h => hDi (h ▸ hDq)
          by_cases hi : i < xs.length / c.B
          · rw [List.getElem?_append_left (by rw [hMlen]; exact hi)]; exact hinv.agree i hDi
          · rw [List.getElem?_eq_none (by omega), List.getElem?_eq_none (by simp [hMlen]; omega)]
        · exact hbound' L (fun i h => ⟨h, rfl⟩)
        · left
          simp only [List.length_append, List.length_cons, List.length_nil, hdiv', hmod', hpend]
          refine ⟨?_, hLlen, h1, by simp [h2], by simp [h3]⟩
          show c.skip - 1 = 0; rw [hskip, hLlen]; omega

/-- the general invariant, except that `last_time` of the cache's `Data` may be stale -/
def CacheInvDLT (hdr ihdr : Bytes) (st : Store) (c : CacheSess) (xs L : List Entry) (D : Nat → Prop) : Prop :=
  ∃ c', CacheInvD hdr ihdr st c' xs L D ∧ (c = c' ∨ ∃ t, c = c'.setLT t)

theorem processDLT (hdr ihdr : Bytes) (st : Store) (c : CacheSess) (xs L : List Entry) (D : Nat → Prop) (e : Entry)
    (hinv : CacheInvDLT hdr ihdr st c xs L D) (hv : Valid c.d.p (xs ++ [e])) :
    ∃ st' c'' L', cacheProcess st c e.ts e.pl = .ok (st', c'') ∧ c''.B = c.B ∧ c''.d.p = c.d.p ∧
      CacheInvDLT hdr ihdr st' c'' (xs ++ [e]) L' D := by
  obtain ⟨c', hinv', hor⟩ := hinv
  rcases hor with rfl | ⟨t, rfl⟩
  · obtain ⟨st1, c1, L1, h1, h2, h3, h4⟩ := processD hdr ihdr st c xs L D e hinv' hv
    exact ⟨st1, c1, L1, h1, h2, h3, c1, h4, Or.inl rfl⟩
  · have hv' : Valid c'.d.p (xs ++ [e]) := hv
    obtain ⟨st1, c1, L1, h1, h2, h3, h4⟩ := processD hdr ihdr st c' xs L D e hinv' hv'
    rcases cacheProcess_setLT st c' t e.ts e.pl with heq | ⟨c2, hc2, hset⟩
    · exact ⟨st1, c1, L1, by rw [heq, h1], h2, h3, c1, h4, Or.inl rfl⟩
    · rw [h1] at hc2
      injection hc2 with hc2
      injection hc2 with hst hcc
      subst hst; subst hcc
      exact ⟨st1, c1.setLT t, L1, hset, h2, h3, c1, h4, Or.inr ⟨t, rfl⟩⟩

/-- any number of further source lines, replayed by `create`'s processor -/
theorem createProc_foldD (hdr ihdr : Bytes) (D : Nat → Prop) : ∀ (ys : List Entry) (st : Store) (c : CacheSess)
    (xs L : List Entry) (prev : Nat),
    CacheInvDLT hdr ihdr st c xs L D → Valid c.d.p (xs ++ ys) → (prev = 0 ∨ ∀ y ∈ ys, prev < y.ts) →
    ∃ s' L', foldProc createProc { st := st, c := c, prev := prev } ys = .ok s' ∧ s'.c.B = c.B ∧ s'.c.d.p = c.d.p ∧
      s'.failed = none ∧ CacheInvDLT hdr ihdr s'.st s'.c (xs ++ ys) L' D := by
  intro ys
  induction ys with
  | nil =>
    intro st c xs L prev hinv _ _
    exact ⟨_, L, rfl, rfl, rfl, rfl, by simpa using hinv⟩
  | cons y ys ih =>
    intro st c xs L prev hinv hv hprev
    have hv1 : Valid c.d.p (xs ++ [y]) := by
      have : xs ++ y :: ys = (xs ++ [y]) ++ ys := by simp
      rw [this] at hv; exact valid_prefix _ _ _ hv
    obtain ⟨st', c', L1, hstep, hB, hp, hinv'⟩ := processDLT hdr ihdr st c xs L D y hinv hv1
    have hcond : y.ts > prev ∨ prev = 0 := by
      rcases hprev with h | h
      · exact Or.inr h
      · exact Or.inl (h y (by simp))
    have hnext : y.ts = 0 ∨ ∀ z ∈ ys, y.ts < z.ts := by
      right
      intro z hz
      have := (List.pairwise_append.mp hv.1).2.1
      exact (List.pairwise_cons.mp this).1 z hz
    have hv2 : Valid c'.d.p ((xs ++ [y]) ++ ys) := by rw [hp]; simpa using hv
    obtain ⟨s', L2, hfold, hB', hp', hf', hinv''⟩ := ih st' c' (xs ++ [y]) L1 y.ts hinv' hv2 hnext
    refine ⟨s', L2, ?_, by rw [hB', hB], by rw [hp', hp], hf', by simpa using hinv''⟩
    unfold foldProc createProc
    simp only [hcond, not_true_eq_false, if_false, hstep]
    exact hfold

/-- feeding lines one after the other keeps the general invariant -/
theorem feedLinesD (hdr ihdr : Bytes) (D : Nat → Prop) : ∀ (ys : List Entry) (st : Store) (c : CacheSess) (xs L : List Entry),
    CacheInvDLT hdr ihdr st c xs L D → Valid c.d.p (xs ++ ys) →
    ∃ st' c' L', feedLines st c ys = .ok (st', c') ∧ c'.B = c.B ∧ c'.d.p = c.d.p ∧
      CacheInvDLT hdr ihdr st' c' (xs ++ ys) L' D := by
  intro ys
  induction ys with
  | nil => intro st c xs L h _; exact ⟨st, c, L, rfl, rfl, rfl, by simpa using h⟩
  | cons y ys ih =>
    intro st c xs L h hv
    have hv1 : Valid c.d.p (xs ++ [y]) := by
      have : xs ++ y :: ys = (xs ++ [y]) ++ ys := by simp
      rw [this] at hv; exact valid_prefix _ _ _ hv
    obtain ⟨st1, c1, L1, h1, hB1, hp1, hk1⟩ := processDLT hdr ihdr st c xs L D y h hv1
    have hv2 : Valid c1.d.p ((xs ++ [y]) ++ ys) := by rw [hp1]; simpa using hv
    obtain ⟨st2, c2, L2, h2, hB2, hp2, hk2⟩ := ih st1 c1 (xs ++ [y]) L1 hk1 hv2
    refine ⟨st2, c2, L2, ?_, by rw [hB2, hB1], by rw [hp2, hp1], by simpa using hk2⟩
    simp only [feedLines, h1]; exact h2

theorem getElem?_take_lt {α} (L : List α) (k i : Nat) (h : i < k) : (L.take k)[i]? = L[i]? := by
  rw [List.getElem?_take]; simp [h]

/-- **`open` after ANY crash of source and cache.**  The source survived as `xs`.  The cache
file is what is left — cut at any byte `n`, index in any legitimate prior state — of a stored
history `L0` that agreed with the bucket means outside a set `D` of deviating buckets as far
as the surviving lines reach (the state `CacheInvD` of the crashed session gives exactly this,
for ANY lost tail of the source).  `open` succeeds and re-establishes the general invariant;
`D` grows by at most the bucket straddling the end of the surviving lines. -/
theorem cacheOpenD (shdr sihdr : Bytes) (dir : Dir) (src : DataSess) (xs : List Entry) (B : Nat) (cb : Option Bool)
    (hsrc : DataInv shdr sihdr dir.main src xs) (hv : Valid src.p xs)
    (hB : 1 ≤ B) (hB32 : B ≤ 2^32) (hH : (cacheUserHeader B).length ≤ 65535)
    (L0 : List Entry) (D : Nat → Prop)
    (hvL : Valid src.p L0) (hc : TailClean src.p L0) (hsize : (Spec.encode src.p L0).length < 2^64)
    (n : Nat) (hdata : (dir.cache B).data = some (cacheHdr B ++ (Spec.encode src.p L0).take n))
    (hix : IndexState src.p L0 (dir.cache B).index)
    (hagree : ∀ i, ¬ D i → i < xs.length / B → i < L0.length →
      L0[i]? = (Spec.bucketMeans B (Spec.linMean src.p) xs)[i]?)
    (hbound : ∀ i, D i → (i + 1) * B ≤ xs.length → ∀ h : i < L0.length,
      ∃ j, ∃ hj : j < xs.length, j < (i + 1) * B ∧ L0[i].ts ≤ xs[j].ts) :
    ∃ dir' c L', cacheOpen dir B src cb = (dir', .ok c) ∧ c.B = B ∧ c.d.p = src.p ∧ dir'.main = dir.main ∧
      (∀ B', B' ≠ B → dir'.cache B' = dir.cache B') ∧
      CacheInvDLT (cacheHdr B) cacheIhdr (dir'.cache B) c xs L' (fun i => D i ∨ i = xs.length / B) := by
  have hBpos : 0 < B := hB
  generalize hMdef : Spec.bucketMeans B (Spec.linMean src.p) xs = M at hagree
  have hMlen : M.length = xs.length / B := by rw [← hMdef]; exact bucketMeans_len B _ hBpos _ xs rfl
  have hlenH : (cacheHdr B).length = 4 + (cacheUserHeader B).length := outerHdr_length _
  obtain ⟨st1, d, hopen, hdp, hinvd⟩ :=
    dataOpen_recovers src.p L0 hvL hc hsize (cacheHdr B) n (dir.cache B) cb hdata hix
  rw [hlenH] at hopen
  generalize hk : Spec.linesWithin src.p L0 n = k at hinvd
  have hkle : k ≤ L0.length := by rw [← hk]; exact linesWithin_le src.p L0 n
  have hLk : (L0.take k).length = k := by rw [List.length_take]; omega
  have hvLk : Valid d.p (L0.take k) := by
    rw [hdp]
    exact ⟨List.Pairwise.sublist (List.take_sublist _ _) hvL.1, fun x hx => hvL.2 x (List.mem_of_mem_take hx)⟩
  have hclen : dataLenLines d = .ok k := by
    rw [len_of_dataInv _ _ _ _ _ hinvd hvLk, hLk]
  have hslen : dataLenLines src = .ok xs.length := len_of_dataInv _ _ _ _ _ hsrc hv
  have hinvd' : DataInv (cacheHdr B) cacheIhdr st1 d (L0.take k) := by
    unfold cacheIhdr; rw [← ihdr_eq]; exact hinvd
  have hfo : fileOpenExisting (dir.cache B).data
      = .ok (4 + (cacheUserHeader B).length, cacheUserHeader B) := by
    rw [hdata]; exact outerHdr_open _ _ hH
  have hdm := Nat.div_add_mod xs.length B
  have hml := Nat.mod_lt xs.length hBpos
  have hcomm : B * (xs.length / B) = xs.length / B * B := Nat.mul_comm _ _
  unfold cacheOpen
  simp only [hfo, hopen, hclen, hslen]
  generalize hnew : cacheNewer d.lastTime src.lastTime = newer
  by_cases hah : (decide (k * B ≥ xs.length + B) || (decide (k * B > xs.length) && newer)) = true
  · -- emptied and filled again from the first source line
    simp only [hah, if_true]
    have hcl := cleared_inv _ _ _ _ _ hinvd'
    have hc0 : CacheInvDLT (cacheHdr B) cacheIhdr
        { st1 with data := st1.data.map (·.take d.hdrLen), index := st1.index.map (·.take d.ihdrLen) }
        { B := B, d := { d with dataLen := 0, entries := [], lastFull := none } } [] []
        (fun i => D i ∨ i = xs.length / B) := by
      refine ⟨{ B := B, d := { d with dataLen := 0, entries := [], lastFull := none, lastTime := none } }, ?_,
        Or.inr ⟨d.lastTime, rfl⟩⟩
      constructor
      · exact hcl
      · exact ⟨List.Pairwise.nil, by simp⟩
      · exact hB
      · exact hB32
      · intro i _; show _ = (Spec.bucketMeans B (Spec.linMean d.p) [])[i]?
        rw [bucketMeans_nil]
      · intro i _ h; simp at h
      · left; simp [pendOf]
    by_cases hdone : 0 ≥ xs.length
    · have hxs : xs = [] := List.length_eq_zero_iff.mp (by omega)
      subst hxs
      simp only [List.length_nil, ge_iff_le, Nat.le_refl, if_true, Nat.sub_self]
      refine ⟨_, _, [], rfl, rfl, hdp, ?_, ?_, ?_⟩
      · rw [Dir.main_setCache, Dir.main_setCache]
      · intro B' hne; rw [Dir.cache_setCache_other _ _ _ _ hne, Dir.cache_setCache_other _ _ _ _ hne]
      · rw [Dir.cache_setCache_same]; exact hc0
    · rw [if_neg hdone]
      have hpos : 0 < xs.length := by omega
      obtain ⟨start, full, hlo, hread⟩ := lineOffset_spec shdr sihdr dir.main src xs hsrc hv 0 hpos
      rw [hlo]
      simp only
      have hregion : ∀ sx sy, ((dir.setCache B sx).setCache B sy).main.region src.hdrLen = Spec.encode src.p xs := by
        intro sx sy
        rw [Dir.main_setCache, Dir.main_setCache]
        unfold Store.region
        rw [hsrc.data, hsrc.hdrLen]; simp
      have hv' : Valid ({ B := B, d := { d with dataLen := 0, entries := [], lastFull := none } } : CacheSess).d.p
          ([] ++ xs.drop 0) := by
        show Valid d.p ([] ++ xs.drop 0); rw [hdp]; simpa using hv
      obtain ⟨s', L', hfold, hB', hp', _, hinv'⟩ :=
        createProc_foldD (cacheHdr B) cacheIhdr _ (xs.drop 0) _ _ [] [] 0 hc0 hv' (Or.inl rfl)
      unfold feedCache
      rw [hregion, hsrc.dataLen, hread cb createProc _, hfold]
      simp only
      refine ⟨_, _, L', rfl, hB', by rw [hp']; exact hdp, ?_, ?_, ?_⟩
      · rw [Dir.main_setCache, Dir.main_setCache, Dir.main_setCache]
      · intro B' hne
        rw [Dir.cache_setCache_other _ _ _ _ hne, Dir.cache_setCache_other _ _ _ _ hne, Dir.cache_setCache_other _ _ _ _ hne]
      · rw [Dir.cache_setCache_same]; simpa using hinv'
  · have hah' : (decide (k * B ≥ xs.length + B) || (decide (k * B > xs.length) && newer)) = false := by
      simpa using hah
    simp only [hah', Bool.false_eq_true, if_false]
    have hnotwhole : ¬ (k * B ≥ xs.length + B) := by
      intro h; simp [h] at hah'
    by_cases hgt : k * B > xs.length
    · -- the one straddling bucket is kept
      have hnw : newer = false := by
        cases newer with
        | false => rfl
        | true => simp [hgt] at hah'
      have hdone : k * B ≥ xs.length := by omega
      rw [if_pos hdone]
      have hk1 : xs.length / B < k := by
        apply Nat.lt_of_mul_lt_mul_right (a := B); omega
      have hk2 : k < xs.length / B + 2 := by
        apply Nat.lt_of_mul_lt_mul_right (a := B); rw [Nat.add_mul]; omega
      have hkq : k = xs.length / B + 1 := by omega
      have hqB : (xs.length / B + 1) * B = xs.length / B * B + B := by rw [Nat.add_mul, Nat.one_mul]
      have hr0 : xs.length % B ≠ 0 := by rw [hkq, hqB] at hnotwhole; omega
      have hxpos : 0 < xs.length := by
        rcases Nat.eq_zero_or_pos xs.length with h | h
        · rw [h] at hr0; simp at hr0
        · exact h
      refine ⟨_, _, L0.take k, rfl, rfl, hdp, ?_, ?_, ?_⟩
      · rw [Dir.main_setCache, Dir.main_setCache]
      · intro B' hne; rw [Dir.cache_setCache_other _ _ _ _ hne, Dir.cache_setCache_other _ _ _ _ hne]
      · rw [Dir.cache_setCache_same]
        refine ⟨_, ?_, Or.inl rfl⟩
        constructor
        · exact hinvd'
        · exact hvLk
        · exact hB
        · exact hB32
        · intro i hDi
          show (L0.take k)[i]? = (Spec.bucketMeans B (Spec.linMean d.p) xs)[i]?
          rw [hdp, hMdef]
          have hne : i ≠ xs.length / B := fun h => hDi (Or.inr h)
          have hnD : ¬ D i := fun h => hDi (Or.inl h)
          by_cases hi : i < xs.length / B
          · rw [getElem?_take_lt _ _ _ (by omega)]
            exact hagree i hnD hi (by omega)
          · rw [List.getElem?_eq_none (by rw [hLk]; omega), List.getElem?_eq_none (by rw [hMlen]; omega)]
        · intro i hDi h
          rw [hLk] at h
          show ∃ j, ∃ hj : j < xs.length, j < (i + 1) * B ∧ ((L0.take k)[i]'(by rw [hLk]; exact h)).ts ≤ xs[j].ts
          rw [List.getElem_take]
          by_cases hiq : i = xs.length / B
          · -- the kept bucket: not newer than the last surviving line
            refine ⟨xs.length - 1, by omega, ?_, ?_⟩
            · rw [hiq, hqB]; omega
            · have hdl : d.lastTime = some (L0[i]'(by omega)).ts := by
                rw [hinvd.lastTime, List.getLast?_eq_getElem?, hLk]
                have : k - 1 = i := by omega
                rw [this, getElem?_take_lt _ _ _ (by omega), List.getElem?_eq_getElem (by omega)]; rfl
              have hsl : src.lastTime = some (xs[xs.length - 1]'(by omega)).ts := by
                rw [hsrc.lastTime, List.getLast?_eq_getElem?, List.getElem?_eq_getElem (by omega)]; rfl
              rw [hdl, hsl, hnw] at hnew
              simp only [cacheNewer, decide_eq_false_iff_not] at hnew
              omega
          · have hDi' : D i := by rcases hDi with h | h; exact h; exact absurd h hiq
            have hilt : i < xs.length / B := by omega
            have hle : (i + 1) * B ≤ xs.length := by
              have : (i + 1) * B ≤ xs.length / B * B := Nat.mul_le_mul_right _ hilt
              omega
            exact hbound i hDi' hle (by omega)
        · right
          refine ⟨by rw [hLk, hkq], by rw [hLk], Or.inr rfl, rfl, rfl, rfl⟩
    · -- not ahead: catch up from line k·B
      have hkB : k * B ≤ xs.length := by omega
      have hkq : k ≤ xs.length / B := (Nat.le_div_iff_mul_le hBpos).mpr hkB
      have hMk : Spec.bucketMeans B (Spec.linMean src.p) (xs.take (k * B)) = M.take k := by
        rw [bucketMeans_take B _ hBpos k xs hkB, hMdef]
      have hl : (xs.take (k * B)).length = k * B := by rw [List.length_take]; omega
      have hinv0 : CacheInvDLT (cacheHdr B) cacheIhdr st1 { B := B, d := d } (xs.take (k * B)) (L0.take k)
          (fun i => D i ∨ i = xs.length / B) := by
        refine ⟨_, ?_, Or.inl rfl⟩
        constructor
        · exact hinvd'
        · exact hvLk
        · exact hB
        · exact hB32
        · intro i hDi
          show (L0.take k)[i]? = (Spec.bucketMeans B (Spec.linMean d.p) (xs.take (k * B)))[i]?
          rw [hdp, hMk]
          have hnD : ¬ D i := fun h => hDi (Or.inl h)
          by_cases hi : i < k
          · rw [getElem?_take_lt _ _ _ hi, getElem?_take_lt _ _ _ hi]
            exact hagree i hnD (by omega) (by omega)
          · rw [List.getElem?_eq_none (by rw [hLk]; omega), List.getElem?_eq_none (by simp; omega)]
        · intro i hDi h
          rw [hLk] at h
          show ∃ j, ∃ hj : j < (xs.take (k * B)).length, j < (i + 1) * B ∧
            ((L0.take k)[i]'(by rw [hLk]; exact h)).ts ≤ (xs.take (k * B))[j].ts
          rw [List.getElem_take]
          have hiq : i ≠ xs.length / B := by omega
          have hDi' : D i := by rcases hDi with h | h; exact h; exact absurd h hiq
          have hle : (i + 1) * B ≤ k * B := Nat.mul_le_mul_right _ h
          obtain ⟨j, hj, hjb, hjle⟩ := hbound i hDi' (by omega) (by omega)
          exact ⟨j, by rw [hl]; omega, hjb, by rw [List.getElem_take]; exact hjle⟩
        · left
          refine ⟨rfl, ?_, ?_, ?_, ?_⟩
          · show (L0.take k).length = (xs.take (k * B)).length / B
            rw [hLk, hl, Nat.mul_div_cancel _ hBpos]
          · show 0 = _; rw [hl, Nat.mul_mod_left]
          · show 0 = _; simp [pendOf, hl, Nat.mul_div_cancel _ hBpos]
          · show 0 = _; simp [pendOf, hl, Nat.mul_div_cancel _ hBpos]
      by_cases hdone : k * B ≥ xs.length
      · have hkeq : k * B = xs.length := by omega
        rw [if_pos hdone]
        have hs0 : k * B - xs.length = 0 := by omega
        refine ⟨_, _, L0.take k, rfl, rfl, hdp, ?_, ?_, ?_⟩
        · rw [Dir.main_setCache, Dir.main_setCache]
        · intro B' hne; rw [Dir.cache_setCache_other _ _ _ _ hne, Dir.cache_setCache_other _ _ _ _ hne]
        · rw [Dir.cache_setCache_same, hs0]
          have : xs.take (k * B) = xs := by rw [hkeq, List.take_length]
          rw [this] at hinv0
          exact hinv0
      · rw [if_neg hdone]
        have hklt : k * B < xs.length := by omega
        obtain ⟨start, full, hlo, hread⟩ := lineOffset_spec shdr sihdr dir.main src xs hsrc hv (k * B) hklt
        rw [hlo]
        simp only
        have hregion : ((dir.setCache B st1).setCache B st1).main.region src.hdrLen = Spec.encode src.p xs := by
          rw [Dir.main_setCache, Dir.main_setCache]
          unfold Store.region
          rw [hsrc.data, hsrc.hdrLen]; simp
        have hv' : Valid ({ B := B, d := d } : CacheSess).d.p (xs.take (k * B) ++ xs.drop (k * B)) := by
          rw [List.take_append_drop]; show Valid d.p xs; rw [hdp]; exact hv
        obtain ⟨s', L', hfold, hB', hp', _, hinv'⟩ :=
          createProc_foldD (cacheHdr B) cacheIhdr _ (xs.drop (k * B)) st1 { B := B, d := d } (xs.take (k * B)) _ 0
            hinv0 hv' (Or.inl rfl)
        unfold feedCache
        rw [hregion, hsrc.dataLen, hread cb createProc _, hfold]
        simp only
        rw [List.take_append_drop] at hinv'
        refine ⟨_, _, L', rfl, hB', by rw [hp']; exact hdp, ?_, ?_, ?_⟩
        · rw [Dir.main_setCache, Dir.main_setCache, Dir.main_setCache]
        · intro B' hne
          rw [Dir.cache_setCache_other _ _ _ _ hne, Dir.cache_setCache_other _ _ _ _ hne, Dir.cache_setCache_other _ _ _ _ hne]
        · rw [Dir.cache_setCache_same]; exact hinv'

/-- the exact invariant of C08 is the general one with no deviating bucket -/
theorem cacheInvD_of_cacheInv (hdr ihdr : Bytes) (st : Store) (c : CacheSess) (xs : List Entry)
    (h : CacheInv hdr ihdr st c xs) (hv : Valid c.d.p xs) :
    CacheInvD hdr ihdr st c xs (Spec.bucketMeans c.B (Spec.linMean c.d.p) xs) (fun _ => False) := by
  constructor
  · exact h.data
  · exact valid_bucketMeans c.d.p c.B h.Bpos xs hv
  · exact h.Bpos
  · exact h.Ble
  · intro i _; rfl
  · intro i hD; exact absurd hD id
  · left; exact ⟨h.skip0, bucketMeans_len c.B _ h.Bpos _ xs rfl, h.inBin, h.tsSum, h.vSum⟩

/-- what the general invariant says about the cache file -/
theorem cacheInvD_content (hdr ihdr : Bytes) (st : Store) (c : CacheSess) (xs L : List Entry) (D : Nat → Prop)
    (h : CacheInvDLT hdr ihdr st c xs L D) :
    st.data = some (hdr ++ Spec.encode c.d.p L) ∧ Valid c.d.p L ∧
      ∀ i, ¬ D i → L[i]? = (Spec.bucketMeans c.B (Spec.linMean c.d.p) xs)[i]? := by
  obtain ⟨c', hinv, hor⟩ := h
  have hp : c.d.p = c'.d.p ∧ c.B = c'.B := by
    rcases hor with rfl | ⟨t, rfl⟩ <;> exact ⟨rfl, rfl⟩
  rw [hp.1, hp.2]
  exact ⟨hinv.data.data, hinv.valid, hinv.agree⟩

/-- with no deviating bucket the file is exactly that of an uninterrupted session -/
theorem cacheInvD_exact (hdr ihdr : Bytes) (st : Store) (c : CacheSess) (xs L : List Entry)
    (h : CacheInvDLT hdr ihdr st c xs L (fun _ => False)) :
    L = Spec.bucketMeans c.B (Spec.linMean c.d.p) xs ∧
    st.data = some (hdr ++ Spec.encode c.d.p (Spec.bucketMeans c.B (Spec.linMean c.d.p) xs)) := by
  obtain ⟨hdata, _, hag⟩ := cacheInvD_content hdr ihdr st c xs L _ h
  have hL : L = Spec.bucketMeans c.B (Spec.linMean c.d.p) xs := by
    apply List.ext_getElem?
    intro i; exact hag i (fun h => h)
  exact ⟨hL, by rw [← hL]; exact hdata⟩

/-- the state of a crashed session provides the hypotheses of `cacheOpenD`, whatever part of
the source history is lost -/
theorem crash_hyps (hdr ihdr : Bytes) (st : Store) (c : CacheSess) (xs lost L0 : List Entry) (D : Nat → Prop)
    (h : CacheInvDLT hdr ihdr st c (xs ++ lost) L0 D) :
    (∀ i, ¬ D i → i < xs.length / c.B → i < L0.length →
      L0[i]? = (Spec.bucketMeans c.B (Spec.linMean c.d.p) xs)[i]?) ∧
    (∀ i, D i → (i + 1) * c.B ≤ xs.length → ∀ h : i < L0.length,
      ∃ j, ∃ hj : j < xs.length, j < (i + 1) * c.B ∧ L0[i].ts ≤ xs[j].ts) := by
  obtain ⟨c', hinv, hor⟩ := h
  have hp : c.d.p = c'.d.p ∧ c.B = c'.B := by
    rcases hor with rfl | ⟨t, rfl⟩ <;> exact ⟨rfl, rfl⟩
  rw [hp.1, hp.2]
  have hB : 0 < c'.B := hinv.Bpos
  constructor
  · intro i hDi hi _
    rw [hinv.agree i hDi]
    have hqB : xs.length / c'.B * c'.B ≤ xs.length := Nat.div_mul_le_self _ _
    have h1 := bucketMeans_take c'.B (Spec.linMean c'.d.p) hB (xs.length / c'.B) (xs ++ lost)
      (by rw [List.length_append]; omega)
    rw [List.take_append_of_le_length hqB, bucketMeans_take c'.B _ hB _ xs hqB] at h1
    have h2 : (Spec.bucketMeans c'.B (Spec.linMean c'.d.p) xs).take (xs.length / c'.B)
        = Spec.bucketMeans c'.B (Spec.linMean c'.d.p) xs := by
      apply List.take_of_length_le
      rw [bucketMeans_len c'.B _ hB _ xs rfl]; exact Nat.le_refl _
    rw [h2] at h1
    rw [h1, getElem?_take_lt _ _ _ hi]
  · intro i hDi hle h
    obtain ⟨j, hj, hjb, hjle⟩ := hinv.bound i hDi h
    have hjx : j < xs.length := by omega
    exact ⟨j, hjx, hjb, by rw [List.getElem_append_left hjx] at hjle; exact hjle⟩

end BS.Impl
