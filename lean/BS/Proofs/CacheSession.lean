/-
  Sessions with downsample caches: `push_line` feeds every cache level, every cache
  keeps holding exactly the bucket means of the accepted history (C08, all levels at once).
-/
import BS.Proofs.CacheCreate

namespace BS.Impl
open BS

/-- session invariant with any number of cache levels -/
structure SessInvC (hdr ihdr : Bytes) (dir : Dir) (s : Sess) (xs : List Entry) : Prop where
  data : DataInv hdr ihdr dir.main s.d xs
  range : s.range = firstLast xs
  valid : Valid s.d.p xs
  nodup : (s.caches.map (·.B)).Pairwise (· ≠ ·)
  caches : ∀ c ∈ s.caches, c.d.p = s.d.p ∧ CacheInv (cacheHdr c.B) cacheIhdr (dir.cache c.B) c xs

/-- the cache loop of `push_line` -/
theorem pushGo_inv (p : Nat) (xs : List Entry) (e : Entry) (hv : Valid p (xs ++ [e])) :
    ∀ (cs done : List CacheSess) (dir : Dir),
    ((done.reverse ++ cs).map (·.B)).Pairwise (· ≠ ·) →
    (∀ c ∈ cs, c.d.p = p ∧ CacheInv (cacheHdr c.B) cacheIhdr (dir.cache c.B) c xs) →
    (∀ c ∈ done, c.d.p = p ∧ CacheInv (cacheHdr c.B) cacheIhdr (dir.cache c.B) c (xs ++ [e])) →
    ∃ dir' cs', pushLine.go e.ts e.pl dir done cs = (dir', .ok cs') ∧ dir'.main = dir.main ∧
      cs'.map (·.B) = (done.reverse ++ cs).map (·.B) ∧
      (∀ B, B ∉ (done.reverse ++ cs).map (·.B) → dir'.cache B = dir.cache B) ∧
      ∀ c ∈ cs', c.d.p = p ∧ CacheInv (cacheHdr c.B) cacheIhdr (dir'.cache c.B) c (xs ++ [e]) := by
  intro cs
  induction cs with
  | nil =>
    intro done dir _ _ hdone
    refine ⟨dir, done.reverse, by simp [pushLine.go], rfl, by simp, fun _ _ => rfl, ?_⟩
    intro c hc; exact hdone c (by simpa using hc)
  | cons c cs ih =>
    intro done dir hnd hcs hdone
    obtain ⟨hcp, hcinv⟩ := hcs c (by simp)
    have hvc : Valid c.d.p (xs ++ [e]) := by rw [hcp]; exact hv
    obtain ⟨st', c', hstep, hB', hp', hinv'⟩ := cacheProcess_inv _ _ _ c xs e hcinv hvc
    -- distinct bucket sizes
    have hnd' : (((c' :: done).reverse ++ cs).map (·.B)).Pairwise (· ≠ ·) := by
      simpa [hB'] using hnd
    have hne_cs : ∀ x ∈ cs, x.B ≠ c.B := by
      intro x hx
      simp only [List.map_append, List.map_cons] at hnd
      have h2 := (List.pairwise_append.mp hnd).2.1
      have := (List.pairwise_cons.mp h2).1 x.B (List.mem_map.mpr ⟨x, hx, rfl⟩)
      exact fun h => this h.symm
    have hne_done : ∀ x ∈ done, x.B ≠ c.B := by
      intro x hx
      simp only [List.map_append, List.map_cons] at hnd
      have h3 := (List.pairwise_append.mp hnd).2.2 x.B (by simp; exact ⟨x, hx, rfl⟩) c.B (by simp)
      exact h3
    have hcs' : ∀ x ∈ cs, x.d.p = p ∧ CacheInv (cacheHdr x.B) cacheIhdr ((dir.setCache c.B st').cache x.B) x xs := by
      intro x hx
      rw [Dir.cache_setCache_other _ _ _ _ (hne_cs x hx)]
      exact hcs x (by simp [hx])
    have hdone' : ∀ x ∈ c' :: done, x.d.p = p ∧
        CacheInv (cacheHdr x.B) cacheIhdr ((dir.setCache c.B st').cache x.B) x (xs ++ [e]) := by
      intro x hx
      simp only [List.mem_cons] at hx
      rcases hx with rfl | hx
      · rw [hB', Dir.cache_setCache_same]
        refine ⟨by rw [hp', hcp], ?_⟩
        have := hinv'; rw [← hB'] at this ⊢; simpa [hB'] using hinv'
      · rw [Dir.cache_setCache_other _ _ _ _ (hne_done x hx)]
        exact hdone x hx
    obtain ⟨dir', cs', hgo, hmain, hBs, hother, hall⟩ := ih (c' :: done) (dir.setCache c.B st') hnd' hcs' hdone'
    refine ⟨dir', cs', ?_, by rw [hmain, Dir.main_setCache], by simpa [hB'] using hBs, ?_, hall⟩
    · rw [pushLine.go]; simp only [hstep]; exact hgo
    · intro B hB
      have hB2 : B ∉ (((c' :: done).reverse ++ cs).map (·.B)) := by simpa [hB'] using hB
      rw [hother B hB2]
      apply Dir.cache_setCache_other
      intro h; apply hB; simp [h]

/-- **C03 + C08 for a session with caches**: an accepted `push_line` extends the history in
the source and in every cache level; refusals change nothing -/
theorem pushLine_caches (hdr ihdr : Bytes) (dir : Dir) (s : Sess) (xs : List Entry) (ts : Nat) (pl : Bytes)
    (hinv : SessInvC hdr ihdr dir s xs) (hts : ts < 2^64) :
    (pl.length ≠ s.d.p → pushLine dir s ts pl = (dir, .error (.err "WrongLineLength/WrongLineLength"))) ∧
    (pl.length = s.d.p → (∃ l, xs.getLast? = some l ∧ ts ≤ l.ts) →
        pushLine dir s ts pl = (dir, .error (.err "TimeNotAfterLast/TimeNotAfterLast"))) ∧
    (pl.length = s.d.p → (∀ l, xs.getLast? = some l → l.ts < ts) →
        ∃ dir' s', pushLine dir s ts pl = (dir', .ok s') ∧ s'.d.p = s.d.p ∧ s'.cb = s.cb ∧
          s'.caches.map (·.B) = s.caches.map (·.B) ∧
          SessInvC hdr ihdr dir' s' (xs ++ [⟨ts, pl⟩])) := by
  refine ⟨?_, ?_, ?_⟩
  · intro h; unfold pushLine; simp [h]
  · intro hlen ⟨l, hl, hle⟩
    unfold pushLine
    simp only [hlen, ne_eq, not_true_eq_false, if_false]
    have hr : s.range = some ((xs.head?.map (·.ts)).getD l.ts, l.ts) := by
      rw [hinv.range]
      cases xs with
      | nil => simp at hl
      | cons x xs' => simp [firstLast, hl]
    simp [hr, rangeUpdate, hle]
  · intro hlen hnew
    have hv' : Valid s.d.p (xs ++ [⟨ts, pl⟩]) := valid_snoc s.d.p xs ⟨ts, pl⟩ hinv.valid hnew hts hlen
    obtain ⟨st', d', hpush, hp', hinv'⟩ := pushData_inv hdr ihdr dir.main s.d xs ⟨ts, pl⟩ hinv.data hv'
    unfold pushLine
    simp only [hlen, ne_eq, not_true_eq_false, if_false]
    have hru : ∃ r', rangeUpdate s.range ts = .ok (some r') ∧ some r' = firstLast (xs ++ [⟨ts, pl⟩]) := by
      rw [hinv.range, firstLast_snoc]
      cases hl : xs.getLast? with
      | none =>
        have : xs = [] := by simpa [List.getLast?_eq_none_iff] using hl
        subst this
        exact ⟨(ts, ts), by simp [rangeUpdate, firstLast], by simp⟩
      | some l =>
        have hlt := hnew l hl
        cases xs with
        | nil => simp at hl
        | cons x xs' =>
          refine ⟨(x.ts, ts), ?_, by simp⟩
          have : firstLast (x :: xs') = some (x.ts, l.ts) := by simp [firstLast, hl]
          rw [this]
          have hnot : ¬ l.ts ≥ ts := by omega
          simp [rangeUpdate, hnot]
    obtain ⟨r', hr1, hr2⟩ := hru
    simp only [hr1, hpush]
    have hcs : ∀ c ∈ s.caches, c.d.p = s.d.p ∧
        CacheInv (cacheHdr c.B) cacheIhdr (({ dir with main := st' } : Dir).cache c.B) c xs := hinv.caches
    obtain ⟨dir', cs', hgo, hmain, hBs, _, hall⟩ :=
      pushGo_inv s.d.p xs ⟨ts, pl⟩ hv' s.caches [] { dir with main := st' } (by simpa using hinv.nodup) hcs (by simp)
    simp only at hgo
    rw [hgo]
    refine ⟨_, _, rfl, hp', rfl, by simpa using hBs, ?_⟩
    constructor
    · show DataInv hdr ihdr dir'.main d' _
      rw [hmain]; exact hinv'
    · exact hr2
    · show Valid d'.p _
      rw [hp']; exact hv'
    · show ((cs'.map (·.B))).Pairwise (· ≠ ·)
      rw [hBs]; simpa using hinv.nodup
    · intro c hc
      obtain ⟨h1, h2⟩ := hall c hc
      exact ⟨by show c.d.p = d'.p; rw [hp', h1], h2⟩

end BS.Impl
