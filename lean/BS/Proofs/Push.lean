/-
  T2: folding `push_data` over a valid history produces the canonical data file, the
  exact index (file and memory) and the right bookkeeping; each step only appends.
-/
import BS.Proofs.Region
import BS.Impl.Data

namespace BS.Impl

/-- the last full timestamp after writing `xs` starting from `full` -/
def lastFullFrom : Option Nat → List Entry → Option Nat
  | full, [] => full
  | none, e :: es => lastFullFrom (some e.ts) es
  | some f, e :: es => if e.ts - f ≤ 65534 then lastFullFrom (some f) es else lastFullFrom (some e.ts) es

theorem lastFullFrom_snoc (xs : List Entry) (e : Entry) : ∀ full,
    lastFullFrom full (xs ++ [e]) = lastFullFrom (lastFullFrom full xs) [e] := by
  induction xs with
  | nil => intro full; simp [lastFullFrom]
  | cons x xs ih =>
    intro full
    match full with
    | none => simp [lastFullFrom, ih]
    | some f =>
      by_cases hd : x.ts - f ≤ 65534
      · simp only [List.cons_append, lastFullFrom, if_pos hd, ih]
      · simp only [List.cons_append, lastFullFrom, if_neg hd, ih]

theorem lastFullFrom_mem (xs : List Entry) : ∀ full f, lastFullFrom full xs = some f →
    full = some f ∨ ∃ x ∈ xs, x.ts = f := by
  induction xs with
  | nil => intro full f h; simp [lastFullFrom] at h; exact Or.inl h
  | cons x xs ih =>
    intro full f h
    match full with
    | none =>
      simp only [lastFullFrom] at h
      rcases ih _ _ h with h' | ⟨y, hy, hy'⟩
      · right; exact ⟨x, by simp, by simpa using h'⟩
      · right; exact ⟨y, by simp [hy], hy'⟩
    | some g =>
      simp only [lastFullFrom] at h
      split at h
      · rcases ih _ _ h with h' | ⟨y, hy, hy'⟩
        · left; exact h'
        · right; exact ⟨y, by simp [hy], hy'⟩
      · rcases ih _ _ h with h' | ⟨y, hy, hy'⟩
        · right; exact ⟨x, by simp, by simpa using h'⟩
        · right; exact ⟨y, by simp [hy], hy'⟩

theorem lastFullFrom_none_iff (xs : List Entry) : lastFullFrom none xs = none ↔ xs = [] := by
  cases xs with
  | nil => simp [lastFullFrom]
  | cons x xs =>
    simp only [lastFullFrom, reduceCtorEq, iff_false]
    intro h
    have : ∀ (ys : List Entry) g, lastFullFrom (some g) ys ≠ none := by
      intro ys
      induction ys with
      | nil => intro g; simp [lastFullFrom]
      | cons y ys ih => intro g; simp only [lastFullFrom]; split <;> exact ih _
    exact this xs _ h

theorem encSection_length (p ts : Nat) : (Spec.encSection p ts).length = metaSize p := by
  rw [spec_encSection, metaWrite_length]

theorem encLine_length (d : Nat) (pl : Bytes) : (Spec.encLine d pl).length = pl.length + 2 := by
  simp [Spec.encLine, le2]; omega

/-- what one more entry adds to the encoding -/
theorem encFrom_snoc (p : Nat) (xs : List Entry) (e : Entry) : ∀ full,
    Spec.encFrom p full (xs ++ [e]) = Spec.encFrom p full xs ++ Spec.encFrom p (lastFullFrom full xs) [e] := by
  induction xs with
  | nil => intro full; simp [lastFullFrom, Spec.encFrom]
  | cons x xs ih =>
    intro full
    match full with
    | none => simp [Spec.encFrom, lastFullFrom, ih]
    | some f =>
      by_cases hd : x.ts - f ≤ 65534
      · have hd' : x.ts ≤ 65534 + f := by omega
        simp only [List.cons_append, Spec.encFrom, lastFullFrom, Spec.maxDelta, if_pos hd, ih]
        simp [hd']
      · have hd' : ¬ x.ts ≤ 65534 + f := by omega
        simp only [List.cons_append, Spec.encFrom, lastFullFrom, Spec.maxDelta, if_neg hd, ih]
        simp [hd']

theorem sectionsFrom_snoc (p : Nat) (xs : List Entry) (e : Entry) (hp : ∀ x ∈ xs, x.pl.length = p) : ∀ full off,
    Spec.sectionsFrom p full off (xs ++ [e]) =
      Spec.sectionsFrom p full off xs ++
        Spec.sectionsFrom p (lastFullFrom full xs) (off + (Spec.encFrom p full xs).length) [e] := by
  induction xs with
  | nil => intro full off; simp [lastFullFrom, Spec.encFrom, Spec.sectionsFrom]
  | cons x xs ih =>
    intro full off
    have hx : x.pl.length = p := hp x (by simp)
    have hxs : ∀ y ∈ xs, y.pl.length = p := fun y hy => hp y (by simp [hy])
    have hsec : Spec.secSize p = metaSize p := spec_secSize p
    have hls : Spec.lineSize p = p + 2 := rfl
    match full with
    | none =>
      simp only [List.cons_append, Spec.sectionsFrom, Spec.encFrom, lastFullFrom, ih hxs, List.length_append,
        encSection_length, encLine_length, hx, hsec, hls]
      simp [Nat.add_assoc]
    | some f =>
      by_cases hd : x.ts - f ≤ 65534
      · simp only [List.cons_append, Spec.sectionsFrom, Spec.encFrom, lastFullFrom, Spec.maxDelta, if_pos hd,
          ih hxs, List.length_append, encLine_length, hx, hls]
        have hd' : x.ts ≤ 65534 + f := by omega
        simp [Nat.add_assoc, hd', encLine_length, hx]
      · simp only [List.cons_append, Spec.sectionsFrom, Spec.encFrom, lastFullFrom, Spec.maxDelta, if_neg hd,
          ih hxs, List.length_append, encSection_length, encLine_length, hx, hsec, hls]
        have hd' : ¬ x.ts ≤ 65534 + f := by omega
        simp [Nat.add_assoc, hd', encLine_length, encSection_length, hx]

theorem encIndex_append (a b : List (Nat × Nat)) : Spec.encIndex (a ++ b) = Spec.encIndex a ++ Spec.encIndex b := by
  simp [Spec.encIndex]

def toIEntries (secs : List (Nat × Nat)) : List IEntry := secs.map fun s => ⟨s.1, s.2⟩

/-- the files and the in-memory `Data` are exactly what the specification prescribes for history `xs` -/
structure DataInv (hdr ihdr : Bytes) (st : Store) (d : DataSess) (xs : List Entry) : Prop where
  data : st.data = some (hdr ++ Spec.encode d.p xs)
  index : st.index = some (ihdr ++ Spec.encIndex (Spec.sections d.p xs))
  hdrLen : d.hdrLen = hdr.length
  ihdrLen : d.ihdrLen = ihdr.length
  dataLen : d.dataLen = (Spec.encode d.p xs).length
  entries : d.entries = toIEntries (Spec.sections d.p xs)
  lastFull : d.lastFull = lastFullFrom none xs
  lastTime : d.lastTime = xs.getLast?.map (·.ts)

theorem sorted_snoc_last (xs : List Entry) (e : Entry) (h : Sorted (xs ++ [e])) : ∀ x ∈ xs, x.ts < e.ts := by
  intro x hx
  have := List.pairwise_append.mp h
  exact this.2.2 x hx e (by simp)

/-- **one accepted append keeps the invariant** -/
theorem pushData_inv (hdr ihdr : Bytes) (st : Store) (d : DataSess) (xs : List Entry) (e : Entry)
    (hinv : DataInv hdr ihdr st d xs) (hv : Valid d.p (xs ++ [e])) :
    ∃ st' d', pushData st d e.ts e.pl = .ok (st', d') ∧ d'.p = d.p ∧ DataInv hdr ihdr st' d' (xs ++ [e]) := by
  obtain ⟨hsort, hall⟩ := hv
  have hpl : ∀ x ∈ xs, x.pl.length = d.p := fun x hx => (hall x (by simp [hx])).2
  have hple : e.pl.length = d.p := (hall e (by simp)).2
  have hlt := sorted_snoc_last xs e hsort
  have htake : e.pl.take d.p = e.pl := List.take_of_length_le (by omega)
  -- the two ways the step can go, as bytes
  have hnew : Spec.encFrom d.p none [e] = metaWrite d.p e.ts ++ le2 0 ++ e.pl := by
    simp [Spec.encFrom, spec_encSection, Spec.encLine]
  unfold pushData
  cases hlf : lastFullFrom none xs with
  | none =>
    have hnil : xs = [] := (lastFullFrom_none_iff xs).mp hlf
    subst hnil
    rw [hinv.lastFull, hlf]
    refine ⟨_, _, rfl, rfl, ?_⟩
    constructor
    · simp only [hinv.data, appendTo, htake, List.nil_append, Spec.encode, hnew]
      simp [Spec.encFrom, Spec.encode]
    · simp [hinv.index, appendTo, encIEntry, Spec.sections, Spec.sectionsFrom, Spec.encIndex, hinv.dataLen, Spec.encode,
        Spec.encFrom]
    · exact hinv.hdrLen
    · exact hinv.ihdrLen
    · simp [hinv.dataLen, Spec.encode, Spec.encFrom, encSection_length, encLine_length, hple, lineSize]
    · simp [hinv.entries, toIEntries, Spec.sections, Spec.sectionsFrom, hinv.dataLen, Spec.encode, Spec.encFrom]
    · simp [lastFullFrom]
    · simp
  | some lf =>
    rw [hinv.lastFull, hlf]
    have hmem := lastFullFrom_mem xs none lf hlf
    have hle : lf ≤ e.ts := by
      rcases hmem with h | ⟨x, hx, rfl⟩
      · simp at h
      · exact Nat.le_of_lt (hlt x hx)
    have hnot : ¬ e.ts < lf := by omega
    simp only [hnot, if_false, maxSmallTs_eq]
    have hsnocE := encFrom_snoc d.p xs e none
    have hsnocS := sectionsFrom_snoc d.p xs e hpl none 0
    rw [hlf] at hsnocE hsnocS
    by_cases hbig : e.ts - lf > 65534
    · simp only [hbig, if_true]
      have hd : ¬ e.ts - lf ≤ 65534 := by omega
      refine ⟨_, _, rfl, rfl, ?_⟩
      constructor
      · simp only [hinv.data, appendTo, htake, Spec.encode, hsnocE]
        simp [Spec.encFrom, Spec.maxDelta, hd, spec_encSection, Spec.encLine]
      · simp only [hinv.index, appendTo, Spec.sections, hsnocS]
        simp [Spec.sectionsFrom, Spec.maxDelta, hd, encIndex_append, Spec.encIndex, encIEntry, hinv.dataLen, Spec.encode]
      · exact hinv.hdrLen
      · exact hinv.ihdrLen
      · simp only [hinv.dataLen, Spec.encode, hsnocE, List.length_append]
        simp [Spec.encFrom, Spec.maxDelta, hd, encSection_length, encLine_length, hple, lineSize]
        omega
      · simp only [hinv.entries, Spec.sections, hsnocS, toIEntries]
        simp [Spec.sectionsFrom, Spec.maxDelta, hd, hinv.dataLen, Spec.encode]
      · rw [lastFullFrom_snoc, hlf]; simp [lastFullFrom, hd]
      · simp
    · simp only [hbig, if_false]
      have hd : e.ts - lf ≤ 65534 := by omega
      refine ⟨_, _, rfl, rfl, ?_⟩
      constructor
      · simp only [hinv.data, appendTo, htake, Spec.encode, hsnocE]
        simp [Spec.encFrom, Spec.maxDelta, hd, Spec.encLine]
      · simp only [hinv.index, Spec.sections, hsnocS]
        simp [Spec.sectionsFrom, Spec.maxDelta, hd]
      · exact hinv.hdrLen
      · exact hinv.ihdrLen
      · simp only [hinv.dataLen, Spec.encode, hsnocE, List.length_append]
        simp [Spec.encFrom, Spec.maxDelta, hd, encLine_length, hple, lineSize]
      · simp only [hinv.entries, Spec.sections, hsnocS, toIEntries]
        simp [Spec.sectionsFrom, Spec.maxDelta, hd]
      · rw [lastFullFrom_snoc, hlf]; simp [lastFullFrom, hd]
      · simp

end BS.Impl
