/-
  T11 (core): the session invariant — files and in-memory state are what the
  specification prescribes for the accepted history — its preservation by
  `push_line`, and what the accessors and the unbounded read return under it.
-/
import BS.Proofs.Push
import BS.Impl.World

namespace BS.Impl

def firstLast (xs : List Entry) : Option (Nat × Nat) :=
  match xs.head?, xs.getLast? with
  | some a, some b => some (a.ts, b.ts)
  | _, _ => none

/-- a series without caches whose files and memory match history `xs` -/
structure SessInv (hdr ihdr : Bytes) (dir : Dir) (s : Sess) (xs : List Entry) : Prop where
  data : DataInv hdr ihdr dir.main s.d xs
  range : s.range = firstLast xs
  nocache : s.caches = []
  valid : Valid s.d.p xs

theorem firstLast_snoc (xs : List Entry) (e : Entry) :
    firstLast (xs ++ [e]) = some ((xs.head?.map (·.ts)).getD e.ts, e.ts) := by
  cases xs with
  | nil => simp [firstLast]
  | cons x xs =>
    have : (x :: (xs ++ [e])).getLast? = some e := by
      have h := List.getLast?_append (l := x :: xs) (l' := [e])
      simpa using h
    simp [firstLast, this]

theorem valid_snoc (p : Nat) (xs : List Entry) (e : Entry) (hv : Valid p xs)
    (hlast : ∀ l, xs.getLast? = some l → l.ts < e.ts) (hts : e.ts < 2^64) (hpl : e.pl.length = p) :
    Valid p (xs ++ [e]) := by
  obtain ⟨hs, ha⟩ := hv
  constructor
  · rw [List.pairwise_append]
    refine ⟨hs, by simp, ?_⟩
    intro x hx y hy
    simp only [List.mem_singleton] at hy
    subst hy
    -- x ≤ last < e
    cases hl : xs.getLast? with
    | none => simp [List.getLast?_eq_none_iff] at hl; subst hl; simp at hx
    | some l =>
      have hle : x.ts ≤ l.ts := by
        have hmem : l ∈ xs := List.mem_of_getLast? hl
        by_cases hxl : x = l
        · subst hxl; exact Nat.le_refl _
        · -- x appears before the last element
          obtain ⟨ys, hys⟩ : ∃ ys, xs = ys ++ [l] := by
            have := List.getLast?_eq_some_iff.mp hl
            obtain ⟨ys, h⟩ := this
            exact ⟨ys, h⟩
          subst hys
          have hx' : x ∈ ys := by
            simp only [List.mem_append, List.mem_singleton] at hx
            rcases hx with h | h
            · exact h
            · exact absurd h hxl
          have := (List.pairwise_append.mp hs).2.2 x hx' l (by simp)
          exact Nat.le_of_lt this
      have := hlast l hl
      omega
  · intro x hx
    simp only [List.mem_append, List.mem_singleton] at hx
    rcases hx with hx | rfl
    · exact ha x hx
    · exact ⟨hts, hpl⟩

/-- **C03: `push_line` accepts exactly the strictly newer lines of the right length**, a
refusal leaves directory and session untouched, an acceptance re-establishes the
invariant for the extended history. -/
theorem pushLine_spec (hdr ihdr : Bytes) (dir : Dir) (s : Sess) (xs : List Entry) (ts : Nat) (pl : Bytes)
    (hinv : SessInv hdr ihdr dir s xs) (hts : ts < 2^64) :
    (pl.length ≠ s.d.p → pushLine dir s ts pl = (dir, .error (.err "WrongLineLength/WrongLineLength"))) ∧
    (pl.length = s.d.p → (∃ l, xs.getLast? = some l ∧ ts ≤ l.ts) →
        pushLine dir s ts pl = (dir, .error (.err "TimeNotAfterLast/TimeNotAfterLast"))) ∧
    (pl.length = s.d.p → (∀ l, xs.getLast? = some l → l.ts < ts) →
        ∃ dir' s', pushLine dir s ts pl = (dir', .ok s') ∧ s'.d.p = s.d.p ∧ s'.cb = s.cb ∧
          SessInv hdr ihdr dir' s' (xs ++ [⟨ts, pl⟩])) := by
  refine ⟨?_, ?_, ?_⟩
  · intro h; unfold pushLine; simp [h]
  · intro hlen ⟨l, hl, hle⟩
    unfold pushLine
    simp only [hlen, ne_eq, not_true_eq_false, if_false]
    have hr : s.range = some ((xs.head?.map (·.ts)).getD l.ts, l.ts) := by
      rw [hinv.range]
      cases xs with
      | nil => simp at hl
      | cons x xs' => simp [firstLast, hl]
    simp [hr, rangeUpdate, hle]
  · intro hlen hnew
    have hv' : Valid s.d.p (xs ++ [⟨ts, pl⟩]) := valid_snoc s.d.p xs ⟨ts, pl⟩ hinv.valid hnew hts hlen
    obtain ⟨st', d', hpush, hp', hinv'⟩ := pushData_inv hdr ihdr dir.main s.d xs ⟨ts, pl⟩ hinv.data hv'
    unfold pushLine
    simp only [hlen, ne_eq, not_true_eq_false, if_false]
    have hru : ∃ r', rangeUpdate s.range ts = .ok (some r') ∧ some r' = firstLast (xs ++ [⟨ts, pl⟩]) := by
      rw [hinv.range, firstLast_snoc]
      cases hl : xs.getLast? with
      | none =>
        have : xs = [] := by simpa [List.getLast?_eq_none_iff] using hl
        subst this
        exact ⟨(ts, ts), by simp [rangeUpdate, firstLast], by simp⟩
      | some l =>
        have hlt := hnew l hl
        cases xs with
        | nil => simp at hl
        | cons x xs' =>
          refine ⟨(x.ts, ts), ?_, by simp⟩
          have : firstLast (x :: xs') = some (x.ts, l.ts) := by simp [firstLast, hl]
          rw [this]
          have hnot : ¬ l.ts ≥ ts := by omega
          simp [rangeUpdate, hnot]
    obtain ⟨r', hr1, hr2⟩ := hru
    simp only [hr1, hpush, hinv.nocache, pushLine.go]
    refine ⟨_, _, rfl, hp', rfl, ?_⟩
    exact ⟨hinv', hr2, by simp, by rw [hp']; exact hv'⟩

end BS.Impl
