/-
  The independent reference decoder of `BS/Spec.lean` inverts the canonical encoder.
-/
import BS.Proofs.Region

namespace BS.Impl

/-- the documented way of locating the timestamp bytes reads back what was written -/
theorem spec_section_roundtrip' (p ts : Nat) (h : ts < 2^64) :
    match metaWriteLines p ts with
    | l1 :: l2 :: raws => Spec.secTs p l1 l2 raws = ts
    | _ => False := by
  have hr := unN_le8 ts h
  obtain ⟨a,b,c,d,e,f,g,h', ht⟩ := le8_shape ts
  rw [ht] at hr
  match p with
  | 0 => simp [metaWriteLines, ht, Spec.secTs, Spec.inMarker, Spec.spill, marker_eq, hr]
  | 1 => simp [metaWriteLines, ht, Spec.secTs, Spec.inMarker, Spec.spill, marker_eq, hr]
  | 2 => simp [metaWriteLines, ht, Spec.secTs, Spec.inMarker, Spec.spill, marker_eq, hr]
  | 3 => simp [metaWriteLines, ht, Spec.secTs, Spec.inMarker, Spec.spill, marker_eq, zeros, hr]
  | p+4 =>
    have h4 : min (p + 4) 4 = 4 := by omega
    simp [metaWriteLines, ht, Spec.secTs, Spec.inMarker, Spec.spill, marker_eq, zeros, h4, hr]

theorem refDecode_section (p ts : Nat) (h : ts < 2^64) (full : Option Nat) (X : List Bytes) :
    Spec.refDecodeLines p full (metaWriteLines p ts ++ X) = Spec.refDecodeLines p (some ts) X := by
  obtain ⟨l1, l2, raws, hE, hlen, hm1, hm2, _⟩ := section_roundtrip p ts h
  have hs := spec_section_roundtrip' p ts h
  rw [hE] at hs
  simp only at hs
  rw [hE, List.cons_append, List.cons_append, Spec.refDecodeLines.eq_def]
  simp only [hm1, if_true]
  have hle : Spec.rawLines p ≤ (raws ++ X).length := by rw [spec_rawLines]; simp; omega
  simp only [hm2, hle, decide_true, Bool.and_self, if_true]
  rw [spec_rawLines, List.take_append_of_le_length (by omega), List.drop_append_of_le_length (by omega)]
  rw [← hlen, List.take_length, List.drop_length, hs]
  rfl

theorem refDecode_dataLine (p : Nat) (f d : Nat) (pl : Bytes) (rest : List Bytes) (hd : d ≤ 65534) :
    Spec.refDecodeLines p (some f) (dataLine d pl :: rest) =
      match Spec.refDecodeLines p (some f) rest with
      | none => none
      | some es => some (⟨f + d, pl⟩ :: es) := by
  rw [Spec.refDecodeLines.eq_def]
  simp only [isMarker_dataLine d pl hd, Bool.false_eq_true, if_false, take2_dataLine, drop2_dataLine,
    unN_le2 d (by omega)]
  split <;> simp_all

/-- the reference decoder reads back every canonical encoding -/
theorem refDecodeLines_encLines (p : Nat) (xs : List Entry) :
    ∀ (full : Option Nat), Sorted xs → (∀ x ∈ xs, x.ts < 2^64) → (∀ f, full = some f → ∀ x ∈ xs, f ≤ x.ts) →
      Spec.refDecodeLines p full (encLines p full xs) = some xs := by
  induction xs with
  | nil => intro full _ _ _; simp [encLines, Spec.refDecodeLines]
  | cons e es ih =>
    intro full hsort hb hf
    have hes : Sorted es := (List.pairwise_cons.mp hsort).2
    have hlt : ∀ x ∈ es, e.ts < x.ts := (List.pairwise_cons.mp hsort).1
    have hbe : e.ts < 2^64 := hb e (by simp)
    have hbes : ∀ x ∈ es, x.ts < 2^64 := fun x hx => hb x (by simp [hx])
    have newsec : Spec.refDecodeLines p full (metaWriteLines p e.ts ++ dataLine 0 e.pl :: encLines p (some e.ts) es)
        = some (e :: es) := by
      rw [refDecode_section p e.ts hbe, refDecode_dataLine p e.ts 0 e.pl _ (by omega),
        ih (some e.ts) hes hbes (by intro f hf' x hx; cases hf'; exact Nat.le_of_lt (hlt x hx))]
      simp
    match full with
    | none => simpa [encLines] using newsec
    | some f =>
      have hfe : f ≤ e.ts := hf f rfl e (by simp)
      by_cases hd : e.ts - f ≤ 65534
      · simp only [encLines, if_pos hd]
        rw [refDecode_dataLine p f (e.ts - f) e.pl _ hd,
          ih (some f) hes hbes (by intro f' hf' x hx; cases hf'; exact Nat.le_trans hfe (Nat.le_of_lt (hlt x hx)))]
        have : f + (e.ts - f) = e.ts := by omega
        simp [this]
      · simp only [encLines, if_neg hd]
        exact newsec

theorem encode_length_mod (p : Nat) (xs : List Entry) (hp : ∀ x ∈ xs, x.pl.length = p) :
    (Spec.encode p xs).length % Spec.lineSize p = 0 := by
  unfold Spec.encode
  rw [← encLines_flatten, List.length_flatten]
  have h := encLines_length p xs hp none
  generalize encLines p none xs = L at h
  induction L with
  | nil => simp
  | cons l L ih =>
    simp only [List.map_cons, List.sum_cons]
    rw [h l (by simp)]
    have := ih (fun x hx => h x (by simp [hx]))
    have hls : Spec.lineSize p = lineSize p := rfl
    rw [hls] at this ⊢
    rw [Nat.add_mod, this]; simp

/-- C07 (→): an independent reader that knows only the documented layout decodes
every canonically written data region to exactly what was appended -/
theorem refDecode_encode (p : Nat) (xs : List Entry) (hv : Valid p xs) :
    Spec.refDecode p (Spec.encode p xs) = some xs := by
  obtain ⟨hsort, hall⟩ := hv
  have hpl : ∀ x ∈ xs, x.pl.length = p := fun x hx => (hall x hx).2
  unfold Spec.refDecode
  rw [encode_length_mod p xs hpl]
  simp only [if_true]
  have : Spec.encode p xs = (encLines p none xs).flatten := by
    unfold Spec.encode; rw [encLines_flatten]
  rw [this]
  show Spec.refDecodeLines p none (toLines (lineSize p) _) = _
  rw [toLines_flatten _ _ (lineSize_pos p) (encLines_length p xs hpl none)]
  exact refDecodeLines_encLines p xs none hsort (fun x hx => (hall x hx).1) (by intro f hf; cases hf)

end BS.Impl
