/-
  T1/T2 at line granularity: scanning what the canonical writer emits is the same as
  feeding the appended entries to the processor one by one — for every payload size,
  every strictly increasing history below 2^64, every payload byte, every processor.
-/
import BS.Proofs.Reader
import BS.Proofs.Layout

namespace BS.Impl

variable {σ : Type}

/-- the processor fed with the entries directly -/
def foldProc (proc : σ → Nat → Bytes → PRes σ) (ps : σ) : List Entry → Except (Stop σ) σ
  | [] => .ok ps
  | e :: es =>
    match proc ps e.ts e.pl with
    | .cont s => foldProc proc s es
    | .halt s => .error (.halted s)
    | .fault => .error .panic

def dataLine (delta : Nat) (pl : Bytes) : Bytes := le2 delta ++ pl

/-- canonical writer at line granularity: what `push_data` appends, line by line -/
def encLines (p : Nat) : Option Nat → List Entry → List Bytes
  | _, [] => []
  | none, e :: es => metaWriteLines p e.ts ++ dataLine 0 e.pl :: encLines p (some e.ts) es
  | some f, e :: es =>
    if e.ts - f ≤ 65534 then dataLine (e.ts - f) e.pl :: encLines p (some f) es
    else metaWriteLines p e.ts ++ dataLine 0 e.pl :: encLines p (some e.ts) es

def Sorted (xs : List Entry) : Prop := xs.Pairwise (fun a b => a.ts < b.ts)

theorem isMarker_dataLine (d : Nat) (pl : Bytes) (h : d ≤ 65534) : isMarker (dataLine d pl) = false :=
  isMarker_le2_append d pl h

theorem take2_dataLine (d : Nat) (pl : Bytes) : (dataLine d pl).take 2 = le2 d := by
  obtain ⟨a, b, h⟩ := le2_shape d
  simp [dataLine, h]

theorem drop2_dataLine (d : Nat) (pl : Bytes) : (dataLine d pl).drop 2 = pl := by
  obtain ⟨a, b, h⟩ := le2_shape d
  simp [dataLine, h]

/-- scanning one section followed by anything resumes after it with the section's timestamp -/
theorem scan_section (p cb) (proc : σ → Nat → Bytes → PRes σ) (ts : Nat) (h : ts < 2^64) (st : RSt σ) (X : List Bytes) :
    scan p cb proc st (metaWriteLines p ts ++ X) = scan p cb proc { st with full := ts, skip := false } X := by
  obtain ⟨l1, l2, raws, hE, hlen, hm1, hm2, hts⟩ := section_roundtrip p ts h
  rw [hE, List.cons_append, List.cons_append, scan_pair _ _ _ _ _ _ _ hm1 hm2]
  have h1 : ¬ ((raws ++ X).length < rawCount p) := by simp; omega
  rw [if_neg h1, List.take_append_of_le_length (by omega), List.drop_append_of_le_length (by omega)]
  rw [← hlen, List.take_length, List.drop_length, hts]
  rfl

/-- one data line with a representable delta is one processor call -/
theorem scan_dataLine (p cb) (proc : σ → Nat → Bytes → PRes σ) (st : RSt σ) (d : Nat) (pl : Bytes) (rest : List Bytes)
    (hd : d ≤ 65534) (hs : st.skip = false) (hts : st.full + d < 2^64) :
    scan p cb proc st (dataLine d pl :: rest) =
      match proc st.ps (st.full + d) pl with
      | .cont s => scan p cb proc { st with ps := s } rest
      | .halt s => .error (.halted s)
      | .fault => .error .panic := by
  rw [scan_data _ _ _ _ _ _ (isMarker_dataLine d pl hd)]
  simp only [hs, Bool.false_eq_true, if_false]
  simp only [procLine, take2_dataLine, drop2_dataLine, unN_le2 d (by omega), hts, if_true]
  cases proc st.ps (st.full + d) pl <;> simp [hs]

/-- T1/T2: scan of the canonical lines = the processor folded over the entries -/
theorem scan_encLines (p : Nat) (cb : Option Bool) (proc : σ → Nat → Bytes → PRes σ) (xs : List Entry) :
    ∀ (full : Option Nat) (st : RSt σ),
      Sorted xs → (∀ x ∈ xs, x.ts < 2^64) → st.skip = false →
      (∀ f, full = some f → st.full = f ∧ ∀ x ∈ xs, f ≤ x.ts) →
      match foldProc proc st.ps xs with
      | .ok ps' => ∃ f', scan p cb proc st (encLines p full xs) = .ok (⟨f', ps', false⟩, 0)
      | .error e => scan p cb proc st (encLines p full xs) = .error e := by
  induction xs with
  | nil =>
    intro full st _ _ hs _
    simp only [foldProc, encLines, scan_nil]
    exact ⟨st.full, by cases st; simp_all⟩
  | cons e es ih =>
    intro full st hsort hb hs hf
    have hes : Sorted es := (List.pairwise_cons.mp hsort).2
    have hlt : ∀ x ∈ es, e.ts < x.ts := (List.pairwise_cons.mp hsort).1
    have hbe : e.ts < 2^64 := hb e (by simp)
    have hbes : ∀ x ∈ es, x.ts < 2^64 := fun x hx => hb x (by simp [hx])
    -- the "new section" continuation, shared by two branches
    have newsec :
        match foldProc proc st.ps (e :: es) with
        | .ok ps' => ∃ f', scan p cb proc st (metaWriteLines p e.ts ++ dataLine 0 e.pl :: encLines p (some e.ts) es) = .ok (⟨f', ps', false⟩, 0)
        | .error err => scan p cb proc st (metaWriteLines p e.ts ++ dataLine 0 e.pl :: encLines p (some e.ts) es) = .error err := by
      rw [scan_section p cb proc e.ts hbe,
          scan_dataLine p cb proc _ 0 e.pl _ (by omega) rfl (by simpa using hbe)]
      simp only [foldProc, Nat.add_zero]
      cases hp : proc st.ps e.ts e.pl with
      | cont s =>
        simp only
        have := ih (some e.ts) { full := e.ts, ps := s, skip := false } hes hbes rfl
          (by intro f hf'; cases hf'; exact ⟨rfl, fun x hx => Nat.le_of_lt (hlt x hx)⟩)
        exact this
      | halt s => simp
      | fault => simp
    match full with
    | none => simpa [encLines] using newsec
    | some f =>
      obtain ⟨hfull, hfle⟩ := hf f rfl
      by_cases hd : e.ts - f ≤ 65534
      · simp only [encLines, if_pos hd]
        have hfe : f ≤ e.ts := hfle e (by simp)
        have hsum : st.full + (e.ts - f) = e.ts := by omega
        rw [scan_dataLine p cb proc st (e.ts - f) e.pl _ hd hs (by omega)]
        simp only [foldProc, hsum]
        cases hp : proc st.ps e.ts e.pl with
        | cont s =>
          simp only
          have := ih (some f) { st with ps := s } hes hbes hs
            (by intro f' hf'; cases hf'; exact ⟨hfull, fun x hx => Nat.le_trans hfe (Nat.le_of_lt (hlt x hx))⟩)
          exact this
        | halt s => simp
        | fault => simp
      · simp only [encLines, if_neg hd]
        exact newsec

/-- every line the canonical writer emits is a full line -/
theorem encLines_length (p : Nat) (xs : List Entry) (hp : ∀ x ∈ xs, x.pl.length = p) :
    ∀ full, ∀ l ∈ encLines p full xs, l.length = lineSize p := by
  induction xs with
  | nil => intro full l hl; simp [encLines] at hl
  | cons e es ih =>
    have hpe : e.pl.length = p := hp e (by simp)
    have hpes : ∀ x ∈ es, x.pl.length = p := fun x hx => hp x (by simp [hx])
    have hdl : ∀ d, (dataLine d e.pl).length = lineSize p := by
      intro d; simp [dataLine, le2, lineSize, hpe]; omega
    intro full l hl
    match full with
    | none =>
      simp only [encLines, List.mem_append, List.mem_cons] at hl
      rcases hl with hl | rfl | hl
      · exact metaWriteLines_length p e.ts l hl
      · exact hdl 0
      · exact ih hpes _ l hl
    | some f =>
      simp only [encLines] at hl
      split at hl
      · simp only [List.mem_cons] at hl
        rcases hl with rfl | hl
        · exact hdl _
        · exact ih hpes _ l hl
      · simp only [List.mem_append, List.mem_cons] at hl
        rcases hl with hl | rfl | hl
        · exact metaWriteLines_length p e.ts l hl
        · exact hdl 0
        · exact ih hpes _ l hl

/-- the line-level writer flattens to the documented canonical encoding -/
theorem encLines_flatten (p : Nat) (xs : List Entry) :
    ∀ full, (encLines p full xs).flatten = Spec.encFrom p full xs := by
  induction xs with
  | nil => intro full; cases full <;> simp [encLines, Spec.encFrom]
  | cons e es ih =>
    intro full
    match full with
    | none =>
      simp [encLines, Spec.encFrom, ih, spec_encSection, metaWrite, dataLine, Spec.encLine]
    | some f =>
      by_cases hd : e.ts - f ≤ 65534
      · simp [encLines, Spec.encFrom, Spec.maxDelta, hd, ih, dataLine, Spec.encLine]
      · simp [encLines, Spec.encFrom, Spec.maxDelta, hd, ih, spec_encSection, metaWrite, dataLine, Spec.encLine]

end BS.Impl
