/-
  T5c: `last_meta_timestamp` — the backwards window scan on a canonical data region — finds
  the timestamp of the last section, never panics and terminates (the model's recursion is
  well-founded only because the window is larger than the overlap, which is what the fix
  to the window size guarantees).
-/
import BS.Proofs.Open

namespace BS.Impl

/-! ### skipping over the tail of a section -/

/-- a block the section scan passes over without reporting anything: at most its first
line is a marker line, and it is not a lone marker line -/
def Skippable (T : List Bytes) : Prop := Tnm T ∧ ∀ a, T = [a] → isMarker a = false

theorem metaScan_skip_nonmarkers (p idx : Nat) (l : List Bytes) (h : ∀ x ∈ l, isMarker x = false) (X : List Bytes) :
    metaScan p idx (l ++ X) = metaScan p (idx + l.length) X := by
  induction l generalizing idx with
  | nil => simp
  | cons a t ih =>
    rw [List.cons_append, metaScan_data _ _ _ _ (h a (by simp)), ih _ (fun x hx => h x (by simp [hx]))]
    simp [Nat.add_assoc, Nat.add_comm 1]

theorem metaScan_skip (p idx : Nat) (T : List Bytes) (hT : Skippable T) (X : List Bytes) :
    metaScan p idx (T ++ X) = metaScan p (idx + T.length) X := by
  obtain ⟨htnm, hsingle⟩ := hT
  match T with
  | [] => simp
  | [a] =>
    have := hsingle a rfl
    rw [List.singleton_append, metaScan_data _ _ _ _ this]
    simp
  | a :: b :: t =>
    have hb : isMarker b = false := htnm b (by simp)
    have ht : ∀ x ∈ t, isMarker x = false := fun x hx => htnm x (by simp [hx])
    by_cases ha : isMarker a = true
    · rw [List.cons_append, List.cons_append, metaScan_lone _ _ _ _ _ ha hb, metaScan_skip_nonmarkers _ _ t ht]
      simp [Nat.add_assoc, Nat.add_comm 2]
    · have ha' : isMarker a = false := by simpa using ha
      have hbt : ∀ x ∈ b :: t, isMarker x = false := by
        intro x hx; simp only [List.mem_cons] at hx
        rcases hx with rfl | hx
        · exact hb
        · exact ht x hx
      rw [List.cons_append, metaScan_data _ _ _ _ ha', metaScan_skip_nonmarkers _ _ (b :: t) hbt]
      simp [Nat.add_assoc, Nat.add_comm 1]

theorem skippable_drop (T : List Bytes) (hT : Skippable T) (c : Nat) : Skippable (T.drop c) := by
  refine ⟨tnm_drop T hT.1 c, ?_⟩
  intro a ha
  cases c with
  | zero => exact hT.2 a (by simpa using ha)
  | succ c =>
    -- `a` lies in the tail of T
    apply hT.1
    have hmem : a ∈ T.drop (c + 1) := by rw [ha]; simp
    cases T with
    | nil => simp at hmem
    | cons x t => simp only [List.drop_succ_cons] at hmem; exact List.mem_of_mem_drop hmem

/-! ### dropping lines from the front of the canonical encoding -/

/-- timestamps of the sections the canonical writer opens for `xs` under `full` -/
def secTs : Option Nat → List Entry → List Nat
  | _, [] => []
  | none, e :: es => e.ts :: secTs (some e.ts) es
  | some f, e :: es => if e.ts - f ≤ 65534 then secTs (some f) es else e.ts :: secTs (some e.ts) es

theorem secTs_append (a b : List Entry) : ∀ full, secTs full (a ++ b) = secTs full a ++ secTs (lastFullFrom full a) b := by
  induction a with
  | nil => intro full; cases full <;> simp [secTs, lastFullFrom]
  | cons x a ih =>
    intro full
    match full with
    | none => simp [secTs, lastFullFrom, ih]
    | some f =>
      by_cases hd : x.ts - f ≤ 65534
      · simp only [List.cons_append, secTs, lastFullFrom, if_pos hd, ih]
      · simp only [List.cons_append, secTs, lastFullFrom, if_neg hd, ih, List.cons_append]

theorem secLinesFrom_ts (p : Nat) (xs : List Entry) : ∀ full idx,
    (secLinesFrom p full idx xs).map (·.2) = secTs full xs := by
  induction xs with
  | nil => intro full idx; cases full <;> simp [secLinesFrom, secTs]
  | cons x xs ih =>
    intro full idx
    match full with
    | none => simp [secLinesFrom, secTs, ih]
    | some f =>
      by_cases hd : x.ts - f ≤ 65534
      · simp only [secLinesFrom, secTs, if_pos hd, ih]
      · simp only [secLinesFrom, secTs, if_neg hd, List.map_cons, ih]

/-- **drop decomposition**: the canonical lines without their first `a` lines are a skippable
block followed by the canonical lines of a suffix of the history -/
theorem drop_decomp (p : Nat) (xs : List Entry) (hb : ∀ x ∈ xs, x.ts < 2^64) (hc : TailClean p xs) :
    ∀ (full : Option Nat) (a : Nat),
      ∃ T j, Skippable T ∧ j ≤ xs.length ∧
        (encLines p full xs).drop a = T ++ encLines p (lastFullFrom full (xs.take j)) (xs.drop j) := by
  induction xs with
  | nil => intro full a; exact ⟨[], 0, ⟨by simp [Tnm], by simp⟩, by simp, by cases full <;> simp [encLines]⟩
  | cons e es ih =>
    intro full a
    have hbe := hb e (by simp)
    have hbes : ∀ x ∈ es, x.ts < 2^64 := fun x hx => hb x (by simp [hx])
    have hce := hc e (by simp)
    have hces : TailClean p es := fun x hx => hc x (by simp [hx])
    have hcount := metaWriteLines_count p e.ts
    have hD0 : isMarker (dataLine 0 e.pl) = false := isMarker_dataLine _ _ (by omega)
    by_cases ha0 : a = 0
    · subst ha0
      exact ⟨[], 0, ⟨by simp [Tnm], by simp⟩, by simp, by simp [lastFullFrom]⟩
    · -- the case where `e` opens a section
      have newsec : ∀ F : Option Nat,
          encLines p F (e :: es) = metaWriteLines p e.ts ++ dataLine 0 e.pl :: encLines p (some e.ts) es →
          (∀ j, lastFullFrom F ((e :: es).take (j + 1)) = lastFullFrom (some e.ts) (es.take j)) →
          ∃ T j, Skippable T ∧ j ≤ (e :: es).length ∧
            (encLines p F (e :: es)).drop a = T ++ encLines p (lastFullFrom F ((e :: es).take j)) ((e :: es).drop j) := by
        intro F hF hlf
        rw [hF]
        by_cases hal : a ≤ lpm p
        · -- inside the section (or at its data line)
          refine ⟨(metaWriteLines p e.ts ++ [dataLine 0 e.pl]).drop a, 1, ?_, by simp, ?_⟩
          · have htn := section_lines_tnm p e.ts hbe hce _ hD0
            obtain ⟨a', rfl⟩ : ∃ a', a = a' + 1 := ⟨a - 1, by omega⟩
            have : (metaWriteLines p e.ts ++ [dataLine 0 e.pl]).drop (a' + 1)
                = ((metaWriteLines p e.ts ++ [dataLine 0 e.pl]).drop 1).drop a' := by rw [List.drop_drop]; congr 1; omega
            rw [this]
            refine ⟨tnm_drop _ htn _, ?_⟩
            intro x hx
            -- a single remaining line is the data line, unless it is the second marker line with more behind it
            have hlen := congrArg List.length hx
            simp only [List.length_drop, List.length_append, hcount, List.length_cons, List.length_nil] at hlen
            have ha' : a' = lpm p - 1 := by omega
            have hxl : x = dataLine 0 e.pl := by
              have h2 : ((metaWriteLines p e.ts ++ [dataLine 0 e.pl]).drop 1).drop a'
                  = [dataLine 0 e.pl] := by
                rw [List.drop_drop, List.drop_append_of_le_length (by rw [hcount]; omega)]
                have : (metaWriteLines p e.ts).drop (1 + a') = [] := List.drop_eq_nil_of_le (by rw [hcount]; omega)
                rw [this]; rfl
              rw [h2] at hx; simpa using hx.symm
            rw [hxl]; exact hD0
          · have h1 := hlf 0
            simp only [List.take_zero, lastFullFrom] at h1
            simp only [List.take_succ_cons, List.take_zero, List.drop_succ_cons, List.drop_zero]
            have h1' : lastFullFrom F [e] = some e.ts := by simpa using h1
            rw [h1']
            have : metaWriteLines p e.ts ++ dataLine 0 e.pl :: encLines p (some e.ts) es
                = (metaWriteLines p e.ts ++ [dataLine 0 e.pl]) ++ encLines p (some e.ts) es := by simp
            rw [this, List.drop_append_of_le_length (by simp [hcount]; omega)]
        · -- beyond the lines of `e`
          obtain ⟨T, j, hT, hj, hdec⟩ := ih hbes hces (some e.ts) (a - (lpm p + 1))
          refine ⟨T, j + 1, hT, by simp; omega, ?_⟩
          have : metaWriteLines p e.ts ++ dataLine 0 e.pl :: encLines p (some e.ts) es
              = (metaWriteLines p e.ts ++ [dataLine 0 e.pl]) ++ encLines p (some e.ts) es := by simp
          rw [this, List.drop_append, List.drop_eq_nil_of_le (by simp [hcount]; omega), List.nil_append]
          simp only [List.length_append, hcount, List.length_cons, List.length_nil]
          rw [hdec, hlf j]
          simp
      match full with
      | none =>
        exact newsec none (by simp [encLines]) (by intro j; simp [lastFullFrom])
      | some f =>
        by_cases hd : e.ts - f ≤ 65534
        · -- a plain line: one line
          obtain ⟨T, j, hT, hj, hdec⟩ := ih hbes hces (some f) (a - 1)
          refine ⟨T, j + 1, hT, by simp; omega, ?_⟩
          simp only [encLines, if_pos hd]
          obtain ⟨a', rfl⟩ : ∃ a', a = a' + 1 := ⟨a - 1, by omega⟩
          simp only [List.drop_succ_cons, Nat.add_sub_cancel] at hdec ⊢
          rw [hdec]
          simp [lastFullFrom, hd]
        · exact newsec (some f) (by simp [encLines, hd]) (by intro j; simp [lastFullFrom, hd])

end BS.Impl

namespace BS.Impl

/-- the section scan started `a` lines into the canonical lines: exactly the sections opened by a
suffix of the history, nothing pending -/
theorem scan_suffix (p : Nat) (xs : List Entry) (hb : ∀ x ∈ xs, x.ts < 2^64) (hc : TailClean p xs)
    (full : Option Nat) (a idx : Nat) :
    ∃ j, j ≤ xs.length ∧
      (metaScan p idx ((encLines p full xs).drop a)).1.map (·.2) = secTs (lastFullFrom full (xs.take j)) (xs.drop j) ∧
      (metaScan p idx ((encLines p full xs).drop a)).2 = 0 := by
  obtain ⟨T, j, hT, hj, hdec⟩ := drop_decomp p xs hb hc full a
  refine ⟨j, hj, ?_, ?_⟩
  · rw [hdec, metaScan_skip p idx T hT, metaScan_encLines p _ _ _ (fun x hx => hb x (List.mem_of_mem_drop hx))]
    exact secLinesFrom_ts p _ _ _
  · rw [hdec, metaScan_skip p idx T hT, metaScan_encLines p _ _ _ (fun x hx => hb x (List.mem_of_mem_drop hx))]

/-- if the scan from line `a` finds nothing, neither does the scan from any later line -/
theorem scan_suffix_antitone (p : Nat) (xs : List Entry) (hb : ∀ x ∈ xs, x.ts < 2^64) (hc : TailClean p xs)
    (full : Option Nat) (a a' idx idx' : Nat) (haa : a ≤ a')
    (hempty : (metaScan p idx ((encLines p full xs).drop a)).1 = []) :
    (metaScan p idx' ((encLines p full xs).drop a')).1 = [] := by
  obtain ⟨T, j, hT, hj, hdec⟩ := drop_decomp p xs hb hc full a
  have hbj : ∀ x ∈ xs.drop j, x.ts < 2^64 := fun x hx => hb x (List.mem_of_mem_drop hx)
  have hcj : TailClean p (xs.drop j) := fun x hx => hc x (List.mem_of_mem_drop hx)
  -- nothing found from `a` means the suffix of the history opens no section
  have hnone : secTs (lastFullFrom full (xs.take j)) (xs.drop j) = [] := by
    have h1 : (metaScan p idx ((encLines p full xs).drop a)).1.map (·.2) = [] := by rw [hempty]; rfl
    rw [hdec, metaScan_skip p idx T hT, metaScan_encLines p _ _ _ hbj, secLinesFrom_ts] at h1
    exact h1
  have hsplit : (encLines p full xs).drop a' = ((encLines p full xs).drop a).drop (a' - a) := by
    rw [List.drop_drop]; congr 1; omega
  rw [hsplit, hdec]
  by_cases hcT : a' - a ≤ T.length
  · rw [List.drop_append_of_le_length hcT, metaScan_skip p idx' _ (skippable_drop T hT _),
      metaScan_encLines p _ _ _ hbj]
    have := secLinesFrom_ts p (xs.drop j) (lastFullFrom full (xs.take j)) (idx' + (T.drop (a' - a)).length)
    rw [hnone] at this
    exact List.map_eq_nil_iff.mp this
  · rw [List.drop_append, List.drop_eq_nil_of_le (by omega), List.nil_append]
    obtain ⟨j2, hj2, hfound, _⟩ := scan_suffix p (xs.drop j) hbj hcj (lastFullFrom full (xs.take j)) (a' - a - T.length) idx'
    have happ := secTs_append ((xs.drop j).take j2) ((xs.drop j).drop j2) (lastFullFrom full (xs.take j))
    rw [List.take_append_drop, hnone] at happ
    have h2 : secTs (lastFullFrom (lastFullFrom full (xs.take j)) ((xs.drop j).take j2)) ((xs.drop j).drop j2) = [] := by
      have := congrArg List.length happ
      simp only [List.length_nil, List.length_append] at this
      exact List.eq_nil_of_length_eq_zero (by omega)
    rw [h2] at hfound
    exact List.map_eq_nil_iff.mp hfound

/-- what the scan from line `a` finds is a suffix of all the sections -/
theorem scan_suffix_last (p : Nat) (xs : List Entry) (hb : ∀ x ∈ xs, x.ts < 2^64) (hc : TailClean p xs)
    (a idx : Nat) (hne : (metaScan p idx ((encLines p none xs).drop a)).1 ≠ []) :
    ((metaScan p idx ((encLines p none xs).drop a)).1.getLast?).map (·.2) = (secTs none xs).getLast? := by
  obtain ⟨j, hj, hfound, _⟩ := scan_suffix p xs hb hc none a idx
  have happ := secTs_append (xs.take j) (xs.drop j) none
  rw [List.take_append_drop] at happ
  have hne' : secTs (lastFullFrom none (xs.take j)) (xs.drop j) ≠ [] := by
    rw [← hfound]; intro h; exact hne (List.map_eq_nil_iff.mp h)
  rw [happ, List.getLast?_append]
  cases hl : (secTs (lastFullFrom none (xs.take j)) (xs.drop j)).getLast? with
  | none => rw [List.getLast?_eq_none_iff] at hl; exact absurd hl hne'
  | some v =>
    simp only [Option.some_or]
    rw [← hl, ← hfound, List.getLast?_map]

end BS.Impl

namespace BS.Impl

theorem nextMultiple_mul (a b : Nat) : ∃ q, nextMultiple a b = q * b := ⟨(a + b - 1) / b, rfl⟩

theorem nextMultiple_ge' (a b : Nat) (hb : 0 < b) : a ≤ nextMultiple a b := by
  unfold nextMultiple
  have h := Nat.div_add_mod (a + b - 1) b
  have h2 := Nat.mod_lt (a + b - 1) hb
  have : b * ((a + b - 1) / b) = (a + b - 1) / b * b := Nat.mul_comm _ _
  omega

/-- the window, in lines, is larger than a section -/
theorem window_lines (p : Nat) : ∃ Wl, lastMetaWindow p = Wl * lineSize p ∧ lpm p < Wl := by
  obtain ⟨q, hq⟩ := nextMultiple_mul (max Gen.windowBytes (Gen.windowOverlapFactor * metaSize p)) (lineSize p)
  refine ⟨q, hq, ?_⟩
  have hls := lineSize_pos p
  have hge := nextMultiple_ge' (max Gen.windowBytes (Gen.windowOverlapFactor * metaSize p)) (lineSize p) hls
  have h2 : 2 * metaSize p ≤ max Gen.windowBytes (Gen.windowOverlapFactor * metaSize p) := by
    have : Gen.windowOverlapFactor = 2 := rfl
    rw [this]; exact Nat.le_max_right _ _
  have hlpm : 2 ≤ lpm p := by rw [lpm_eq]; omega
  have hms : metaSize p = lpm p * lineSize p := rfl
  rw [hq] at hge
  -- q * ls ≥ 2 * lpm * ls  ⇒  q ≥ 2 * lpm > lpm
  have : 2 * lpm p * lineSize p ≤ q * lineSize p := by
    calc 2 * lpm p * lineSize p = 2 * metaSize p := by rw [hms, Nat.mul_assoc]
      _ ≤ _ := Nat.le_trans h2 hge
  have := Nat.le_of_mul_le_mul_right this hls
  omega

/-- the entries `extract_entries_inner` reports for the lines `[a, b)` of a region made of full lines -/
theorem extractInner_lines (p : Nat) (L : List Bytes) (hL : ∀ l ∈ L, l.length = lineSize p) (a b : Nat)
    (hab : a ≤ b) (hb : b ≤ L.length) :
    (extractEntriesInner p L.flatten (a * lineSize p) (b * lineSize p)).map (·.ts)
      = (metaScan p 0 ((L.drop a).take (b - a))).1.map (·.2) := by
  have hls := lineSize_pos p
  unfold extractEntriesInner
  simp only
  have hreg : (L.flatten.drop (a * lineSize p)).take (b * lineSize p - a * lineSize p)
      = ((L.drop a).take (b - a)).flatten := by
    rw [flatten_drop_uniform _ _ hL, ← Nat.sub_mul,
      flatten_take_uniform _ _ (fun l hl => hL l (List.mem_of_mem_drop hl))]
  rw [hreg, toLines_flatten _ _ hls (fun l hl => hL l (List.mem_of_mem_drop (List.mem_of_mem_take hl)))]
  have hk : 0 < chunkLinesExtract p := by
    unfold chunkLinesExtract
    have := nextMultiple_ge Gen.chunkExtract (lineSize p) (by simp [Gen.chunkExtract]) hls
    exact Nat.div_pos this hls
  rw [extractChunked_eq p _ hk, List.map_map]
  simp only [List.nil_append]
  split
  · rename_i h; rw [h]; simp [metaScan_nil]
  · simp [Function.comp_def]

theorem metaScan_pending_le (p idx : Nat) (A : List Bytes) : (metaScan p idx A).2 ≤ 1 + rawCount p := by
  fun_induction metaScan p idx A
  next => simp
  next idx l rest hm ih => exact ih
  next => simp
  next idx l hm l2 rest hm2 ih => exact ih
  next idx l hm l2 rest hm2 hlen => simp; omega
  next idx l hm l2 rest hm2 hlen r ih => exact ih

/-- **window lemma**: a window whose end is followed by nothing but section-free lines reports
exactly what a scan to the end of the data would report -/
theorem window_found (p : Nat) (xs : List Entry) (hb : ∀ x ∈ xs, x.ts < 2^64) (hc : TailClean p xs)
    (a w : Nat) (haw : a + w ≤ (encLines p none xs).length)
    (hprev : (metaScan p 0 ((encLines p none xs).drop (a + w - lpm p))).1 = []) (hw : lpm p ≤ w) :
    (metaScan p 0 (((encLines p none xs).drop a).take w)).1 = (metaScan p 0 ((encLines p none xs).drop a)).1 := by
  obtain ⟨L, hL⟩ : ∃ L, L = encLines p none xs := ⟨_, rfl⟩
  rw [← hL] at haw hprev ⊢
  have hA : ((L.drop a).take w).length = w := by rw [List.length_take, List.length_drop]; omega
  obtain ⟨hn, hX⟩ := metaScan_split p 0 ((L.drop a).take w) _ _ rfl
  have hsplit : L.drop a = (L.drop a).take w ++ L.drop (a + w) := by
    rw [← List.drop_drop, List.take_append_drop]
  have h := hX (L.drop (a + w))
  rw [← hsplit] at h
  -- what is pending, followed by the rest, is a later suffix of the lines
  have hn' : (metaScan p 0 ((L.drop a).take w)).2 ≤ lpm p := by
    have := metaScan_pending_le p 0 ((L.drop a).take w)
    rw [lpm_eq]; omega
  rw [hA] at h hn
  have hrest : ((L.drop a).take w).drop (w - (metaScan p 0 ((L.drop a).take w)).2) ++ L.drop (a + w)
      = L.drop (a + w - (metaScan p 0 ((L.drop a).take w)).2) := by
    generalize (metaScan p 0 ((L.drop a).take w)).2 = n at hn hn' ⊢
    have e1 : ((L.drop a).take w).drop (w - n) = (L.drop (a + (w - n))).take n := by
      rw [List.drop_take, List.drop_drop]; congr 1; omega
    rw [e1]
    have e2 : L.drop (a + w) = (L.drop (a + (w - n))).drop n := by
      rw [List.drop_drop]; congr 1; omega
    rw [e2, List.take_append_drop]
    congr 1; omega
  rw [hrest] at h
  have hnone : (metaScan p (0 + (w - (metaScan p 0 ((L.drop a).take w)).2))
      (L.drop (a + w - (metaScan p 0 ((L.drop a).take w)).2))).1 = [] := by
    have hle : a + w - lpm p ≤ a + w - (metaScan p 0 ((L.drop a).take w)).2 := by omega
    rw [hL] at hprev hle ⊢
    exact scan_suffix_antitone p xs hb hc none _ _ 0 _ hle hprev
  have := congrArg Prod.fst h
  simp only [hnone, List.append_nil] at this
  exact this.symm

end BS.Impl

namespace BS.Impl

theorem sections_ts_eq_secTs (p : Nat) (xs : List Entry) : ∀ full off,
    (Spec.sectionsFrom p full off xs).map (·.1) = secTs full xs := by
  induction xs with
  | nil => intro full off; cases full <;> simp [Spec.sectionsFrom, secTs]
  | cons x xs ih =>
    intro full off
    match full with
    | none => simp [Spec.sectionsFrom, secTs, ih]
    | some f =>
      by_cases hd : x.ts - f ≤ Spec.maxDelta
      · have hd' : x.ts - f ≤ 65534 := hd
        simp only [Spec.sectionsFrom, secTs, if_pos hd, if_pos hd', ih]
      · have hd' : ¬ x.ts - f ≤ 65534 := hd
        simp only [Spec.sectionsFrom, secTs, if_neg hd, if_neg hd', List.map_cons, ih]

theorem lastSecTs_secTs (p : Nat) (ys : List Entry) : lastSecTs p ys = (secTs none ys).getLast? := by
  unfold lastSecTs Spec.sections
  rw [← sections_ts_eq_secTs p ys none 0, List.getLast?_map]

/-- **the backwards window loop**, in units of lines -/
theorem lastMetaLoop_lines (p : Nat) (ys : List Entry) (hne : ys ≠ []) (hb : ∀ x ∈ ys, x.ts < 2^64)
    (hc : TailClean p ys) (hpl : ∀ x ∈ ys, x.pl.length = p) (Wl : Nat) (hW : lastMetaWindow p = Wl * lineSize p)
    (hWl : lpm p < Wl) :
    ∀ a, a < (encLines p none ys).length →
      (min (a + Wl) (encLines p none ys).length = (encLines p none ys).length ∨
        (metaScan p 0 ((encLines p none ys).drop (min (a + Wl) (encLines p none ys).length - lpm p))).1 = []) →
      lastMetaLoop p (encLines p none ys).flatten (a * lineSize p) = .ok ((secTs none ys).getLast?) := by
  have hL := encLines_length p ys hpl none
  have hls := lineSize_pos p
  have hdlen : (encLines p none ys).flatten.length = (encLines p none ys).length * lineSize p :=
    flatten_length_uniform _ _ hL
  intro a
  induction a using Nat.strongRecOn with
  | ind a ih =>
    intro haN hinv
    rw [lastMetaLoop.eq_def]
    simp only [hW, hdlen]
    have hstop : min (a * lineSize p + Wl * lineSize p) ((encLines p none ys).length * lineSize p)
        = (min (a + Wl) (encLines p none ys).length) * lineSize p := by
      rw [← Nat.add_mul]
      by_cases h : a + Wl ≤ (encLines p none ys).length
      · rw [Nat.min_eq_left h, Nat.min_eq_left (Nat.mul_le_mul_right _ h)]
      · have h' : (encLines p none ys).length ≤ a + Wl := by omega
        rw [Nat.min_eq_right h', Nat.min_eq_right (Nat.mul_le_mul_right _ h')]
    rw [hstop]
    have hablt : a < min (a + Wl) (encLines p none ys).length := by
      apply Nat.lt_min.mpr; constructor <;> omega
    have hne_stop : ¬ a * lineSize p = min (a + Wl) (encLines p none ys).length * lineSize p := by
      intro h
      have := Nat.eq_of_mul_eq_mul_right hls h
      omega
    simp only [hne_stop, if_false]
    -- what the window reports is what a scan to the end would report
    have hfound : (extractEntriesInner p (encLines p none ys).flatten (a * lineSize p)
          (min (a + Wl) (encLines p none ys).length * lineSize p)).map (·.ts)
        = (metaScan p 0 ((encLines p none ys).drop a)).1.map (·.2) := by
      rw [extractInner_lines p _ hL a _ (Nat.le_of_lt hablt) (Nat.min_le_right _ _)]
      rcases hinv with hfull | hprev
      · rw [hfull]
        have : ((encLines p none ys).drop a).take ((encLines p none ys).length - a) = (encLines p none ys).drop a := by
          apply List.take_of_length_le; simp
        rw [this]
      · by_cases hfull : min (a + Wl) (encLines p none ys).length = (encLines p none ys).length
        · rw [hfull]
          have : ((encLines p none ys).drop a).take ((encLines p none ys).length - a) = (encLines p none ys).drop a := by
            apply List.take_of_length_le; simp
          rw [this]
        · have hmin : min (a + Wl) (encLines p none ys).length = a + Wl := by
            have := Nat.min_le_right (a + Wl) (encLines p none ys).length
            have := Nat.min_le_left (a + Wl) (encLines p none ys).length
            rcases Nat.le_total (a + Wl) (encLines p none ys).length with h | h
            · exact Nat.min_eq_left h
            · exact absurd (Nat.min_eq_right h) hfull
          rw [hmin] at hprev ⊢
          rw [Nat.add_sub_cancel_left]
          have hle : a + Wl ≤ (encLines p none ys).length := by
            rw [← hmin]; exact Nat.min_le_right _ _
          rw [window_found p ys hb hc a Wl hle hprev (by omega)]
    cases hlast : (extractEntriesInner p (encLines p none ys).flatten (a * lineSize p)
        (min (a + Wl) (encLines p none ys).length * lineSize p)).getLast? with
    | some e =>
      simp only
      have hne' : (metaScan p 0 ((encLines p none ys).drop a)).1 ≠ [] := by
        intro h
        rw [h] at hfound
        have := List.map_eq_nil_iff.mp hfound
        rw [this] at hlast; simp at hlast
      have h1 := scan_suffix_last p ys hb hc a 0 hne'
      rw [← List.getLast?_map, ← hfound, List.getLast?_map, hlast] at h1
      simp only [Option.map_some] at h1
      rw [← h1]
    | none =>
      simp only
      have hemp : (metaScan p 0 ((encLines p none ys).drop a)).1 = [] := by
        have h0 : extractEntriesInner p (encLines p none ys).flatten (a * lineSize p)
            (min (a + Wl) (encLines p none ys).length * lineSize p) = [] := List.getLast?_eq_none_iff.mp hlast
        rw [h0] at hfound
        exact List.map_eq_nil_iff.mp hfound.symm
      by_cases ha0 : a * lineSize p = 0
      · -- impossible: the first entry opens a section
        exfalso
        have ha : a = 0 := by
          rcases Nat.mul_eq_zero.mp ha0 with h | h
          · exact h
          · omega
        subst ha
        simp only [List.drop_zero] at hemp
        rw [metaScan_encLines p ys none 0 hb] at hemp
        cases ys with
        | nil => exact hne rfl
        | cons y t => simp [secLinesFrom] at hemp
      · simp only [ha0, dite_false]
        have hov : metaSize p < Wl * lineSize p := by
          show lpm p * lineSize p < _
          exact Nat.mul_lt_mul_of_pos_right hWl hls
        simp only [hov, dite_true]
        have hstart' : a * lineSize p + metaSize p - Wl * lineSize p = (a + lpm p - Wl) * lineSize p := by
          show a * lineSize p + lpm p * lineSize p - _ = _
          rw [← Nat.add_mul, ← Nat.sub_mul]
        rw [hstart']
        have hapos : 0 < a := by
          rcases Nat.eq_zero_or_pos a with h | h
          · rw [h] at ha0; simp at ha0
          · exact h
        apply ih (a + lpm p - Wl) (by omega) (by omega)
        -- the invariant for the next window
        by_cases hend : min (a + lpm p - Wl + Wl) (encLines p none ys).length = (encLines p none ys).length
        · exact Or.inl hend
        · right
          have hmin' : min (a + lpm p - Wl + Wl) (encLines p none ys).length = a + lpm p - Wl + Wl := by
            rcases Nat.le_total (a + lpm p - Wl + Wl) (encLines p none ys).length with h | h
            · exact Nat.min_eq_left h
            · exact absurd (Nat.min_eq_right h) hend
          rw [hmin']
          exact scan_suffix_antitone p ys hb hc none a _ 0 0 (by omega) hemp

end BS.Impl

namespace BS.Impl

/-- **T5c: `last_meta_timestamp` is exact** on every canonical region without marker-like raw
lines: it returns the timestamp of the last section (nothing for an empty region), never
panics, and terminates. -/
theorem lastMeta_exact (p : Nat) (ys : List Entry) (hv : Valid p ys) (hc : TailClean p ys) : LastMetaExact p ys := by
  obtain ⟨hsort, hall⟩ := hv
  have hpl : ∀ x ∈ ys, x.pl.length = p := fun x hx => (hall x hx).2
  have hb : ∀ x ∈ ys, x.ts < 2^64 := fun x hx => (hall x hx).1
  unfold LastMetaExact lastMetaTs
  by_cases hne : ys = []
  · subst hne
    rw [lastMetaLoop.eq_def]
    simp [Spec.encode, Spec.encFrom, lastSecTs, Spec.sections, Spec.sectionsFrom]
  · obtain ⟨Wl, hW, hWl⟩ := window_lines p
    have henc : Spec.encode p ys = (encLines p none ys).flatten := by
      unfold Spec.encode; rw [encLines_flatten]
    have hL := encLines_length p ys hpl none
    have hdlen : (encLines p none ys).flatten.length = (encLines p none ys).length * lineSize p :=
      flatten_length_uniform _ _ hL
    have hNpos : 0 < (encLines p none ys).length := by
      cases ys with
      | nil => exact absurd rfl hne
      | cons y t => simp [encLines]; omega
    rw [henc, hdlen, hW, ← Nat.sub_mul, lastSecTs_secTs]
    apply lastMetaLoop_lines p ys hne hb hc hpl Wl hW hWl
    · omega
    · left
      rcases Nat.le_total Wl (encLines p none ys).length with h | h
      · have : (encLines p none ys).length - Wl + Wl = (encLines p none ys).length := by omega
        rw [this]; simp
      · have : (encLines p none ys).length - Wl = 0 := by omega
        rw [this, Nat.zero_add]; exact Nat.min_eq_right h

/-- **C05: `Data::open_existing` after a crash.**  Data file cut at any byte length, index file in
any legitimate prior state: the open succeeds and re-establishes the data invariant — canonical
data file, exact index file, exact in-memory state — for the fully written prefix. -/
theorem dataOpen_recovers (p : Nat) (xs : List Entry) (hvx : Valid p xs) (hc : TailClean p xs)
    (hsize : (Spec.encode p xs).length < 2^64) (hdr : Bytes) (n : Nat) (st : Store) (cb : Option Bool)
    (hdata : st.data = some (hdr ++ (Spec.encode p xs).take n)) (hix : IndexState p xs st.index) :
    ∃ st' d, dataOpenExisting st p hdr.length cb = (st', .ok d) ∧ d.p = p ∧
      DataInv hdr ihdr st' d (xs.take (Spec.linesWithin p xs n)) := by
  apply dataOpen_correct p xs hvx hc hsize hdr n st cb hdata hix
  apply lastMeta_exact
  · exact ⟨List.Pairwise.sublist (List.take_sublist _ _) hvx.1, fun x hx => hvx.2 x (List.mem_of_mem_take hx)⟩
  · exact fun x hx => hc x (List.mem_of_mem_take hx)

/-- **C04: reopening an intact series** (index in any legitimate prior state) re-establishes the
invariant for the whole history and leaves the data file byte-identical. -/
theorem dataOpen_intact (p : Nat) (xs : List Entry) (hvx : Valid p xs) (hc : TailClean p xs)
    (hsize : (Spec.encode p xs).length < 2^64) (hdr : Bytes) (st : Store) (cb : Option Bool)
    (hdata : st.data = some (hdr ++ Spec.encode p xs)) (hix : IndexState p xs st.index) :
    ∃ st' d, dataOpenExisting st p hdr.length cb = (st', .ok d) ∧ d.p = p ∧ DataInv hdr ihdr st' d xs ∧
      st'.data = st.data := by
  have hdata' : st.data = some (hdr ++ (Spec.encode p xs).take (Spec.encode p xs).length) := by
    rw [List.take_length]; exact hdata
  obtain ⟨st', d, h1, h2, h3⟩ := dataOpen_recovers p xs hvx hc hsize hdr _ st cb hdata' hix
  rw [linesWithin_full p xs (fun x hx => (hvx.2 x hx).2), List.take_length] at h3
  exact ⟨st', d, h1, h2, h3, by rw [h3.data, h2, hdata]⟩

end BS.Impl
