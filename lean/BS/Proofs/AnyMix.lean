/-
  Any mix of appends and reopens after creation keeps the session invariant (payload sizes ≥ 4,
  where the hypothesis TailClean is void): one theorem for all sequences.
-/
import BS.Proofs.CacheReopen

namespace BS.Impl
open BS

/-- one step of a life of a series after its creation: an append attempt, or close + reopen
(payload size demanded or retrieved, header demanded or any; same cache configuration) -/
inductive Act where
  | push (ts : Nat) (pl : Bytes)
  | reopen (pOpt : Option Nat) (hOpt : Option Bytes) (cb : Option Bool)

/-- the accepted history after a list of acts: reopening changes nothing -/
def histAfter (p : Nat) : List Entry → List Act → List Entry
  | xs, [] => xs
  | xs, .push ts pl :: rest => histAfter p (acceptAll p xs [(ts, pl)]) rest
  | xs, .reopen .. :: rest => histAfter p xs rest

/-- the model run over a list of acts (`none` = a panic or a failing reopen) -/
def runActs (Bs : List Nat) : Dir → Sess → List Act → Option (Dir × Sess)
  | dir, s, [] => some (dir, s)
  | dir, s, .push ts pl :: rest =>
    match pushAll dir s [(ts, pl)] with
    | some (dir', s') => runActs Bs dir' s' rest
    | none => none
  | dir, _, .reopen pOpt hOpt cb :: rest =>
    match apiOpen dir pOpt hOpt Bs cb with
    | (dir', .ok (s', _)) => runActs Bs dir' s' rest
    | _ => none

theorem encode_length_le (p : Nat) (xs : List Entry) (hp : ∀ x ∈ xs, x.pl.length = p) :
    (Spec.encode p xs).length ≤ xs.length * (lineSize p + metaSize p) := by
  rw [encode_length p xs hp]
  have h := sectionsFrom_length_le p xs none 0
  have : (Spec.sections p xs).length ≤ xs.length := h
  calc lineSize p * xs.length + metaSize p * (Spec.sections p xs).length
      ≤ lineSize p * xs.length + metaSize p * xs.length := Nat.add_le_add_left (Nat.mul_le_mul_left _ this) _
    _ = xs.length * (lineSize p + metaSize p) := by rw [Nat.mul_add, Nat.mul_comm xs.length, Nat.mul_comm xs.length]

theorem histAfter_length (p : Nat) : ∀ (acts : List Act) (xs : List Entry),
    (histAfter p xs acts).length ≤ xs.length + acts.length := by
  intro acts
  induction acts with
  | nil => intro xs; simp [histAfter]
  | cons a acts ih =>
    intro xs
    cases a with
    | push ts pl =>
      simp only [histAfter, List.length_cons]
      have h1 := ih (acceptAll p xs [(ts, pl)])
      have h2 : (acceptAll p xs [(ts, pl)]).length ≤ xs.length + 1 := by
        simp only [acceptAll]; split <;> simp
      omega
    | reopen a b c => simp only [histAfter, List.length_cons]; have := ih xs; omega

end BS.Impl

namespace BS.Impl
open BS

def ActOK (p : Nat) (user : Bytes) : Act → Prop
  | .push ts _ => ts < 2^64
  | .reopen pOpt hOpt _ => (pOpt = none ∨ pOpt = some p) ∧ (hOpt = none ∨ hOpt = some user)

/-- **any mix of appends and reopens**: for payload sizes ≥ 4 (where `TailClean` is void), any
sequence of append attempts and close/reopen steps after creation keeps the session invariant —
source files, index, `range`, every cache level — for the accepted history.  `N` bounds the
number of steps so that no file reaches 2^64 bytes. -/
theorem runActs_inv (p : Nat) (hp4 : 4 ≤ p) (hpu : p ≤ u64Max) (user : Bytes)
    (hH : (toText p ++ user).length ≤ 65535) (Bs : List Nat) (hcfg : CacheCfgOK Bs)
    (N : Nat) (hN : N * (lineSize p + metaSize p) < 2^64) :
    ∀ (acts : List Act) (dir : Dir) (s : Sess) (xs : List Entry),
      SessInvC (seriesHdr p user) ihdr dir s xs → s.d.p = p → s.caches.map (·.B) = Bs →
      xs.length + acts.length ≤ N → (∀ a ∈ acts, ActOK p user a) →
      ∃ dir' s', runActs Bs dir s acts = some (dir', s') ∧ s'.d.p = p ∧ s'.caches.map (·.B) = Bs ∧
        SessInvC (seriesHdr p user) ihdr dir' s' (histAfter p xs acts) := by
  intro acts
  induction acts with
  | nil => intro dir s xs hinv hp hB _ _; exact ⟨dir, s, rfl, hp, hB, hinv⟩
  | cons a acts ih =>
    intro dir s xs hinv hp hB hlen hok
    have hoka := hok a (by simp)
    have hok' : ∀ a ∈ acts, ActOK p user a := fun a ha => hok a (by simp [ha])
    cases a with
    | push ts pl =>
      simp only [ActOK] at hoka
      obtain ⟨dir1, s1, hall, hp1, _, hB1, hinv1⟩ :=
        pushAll_inv _ _ [(ts, pl)] dir s xs hinv (by intro a ha; simp at ha; rw [ha]; exact hoka)
      rw [hp] at hinv1
      have hl1 : (acceptAll p xs [(ts, pl)]).length ≤ xs.length + 1 := by
        simp only [acceptAll]; split <;> simp
      obtain ⟨dir', s', hrun, hp', hB', hinv'⟩ :=
        ih dir1 s1 _ hinv1 (by rw [hp1, hp]) (by rw [hB1, hB]) (by simp only [List.length_cons] at hlen; omega) hok'
      refine ⟨dir', s', ?_, hp', hB', hinv'⟩
      simp only [runActs, hall]
      exact hrun
    | reopen pOpt hOpt cb =>
      simp only [ActOK] at hoka
      have hv := hinv.valid
      rw [hp] at hv
      have hpl : ∀ x ∈ xs, x.pl.length = p := fun x hx => (hv.2 x hx).2
      have hxsN : xs.length ≤ N := by omega
      have hbound : ∀ ys : List Entry, (∀ x ∈ ys, x.pl.length = p) → ys.length ≤ N → (Spec.encode p ys).length < 2^64 := by
        intro ys hy hl
        have h1 := encode_length_le p ys hy
        have h2 : ys.length * (lineSize p + metaSize p) ≤ N * (lineSize p + metaSize p) := Nat.mul_le_mul_right _ hl
        omega
      have hcfg' : CacheCfgOK (s.caches.map (·.B)) := by rw [hB]; exact hcfg
      have hcc : ∀ B ∈ s.caches.map (·.B),
          TailClean p (Spec.bucketMeans B (Spec.linMean p) (acceptAll p xs [])) ∧
          (Spec.encode p (Spec.bucketMeans B (Spec.linMean p) (acceptAll p xs []))).length < 2^64 := by
        intro B hBm
        have hBpos : 0 < B := by
          have := (hcfg'.2 B hBm).1; omega
        refine ⟨tailClean_of_ge4 p hp4 _, ?_⟩
        simp only [acceptAll]
        have hvm := valid_bucketMeans p B hBpos xs hv
        apply hbound _ (fun x hx => (hvm.2 x hx).2)
        rw [bucketMeans_len B _ hBpos _ xs rfl]
        exact Nat.le_trans (Nat.div_le_self _ _) hxsN
      obtain ⟨dir1, s1, dir2, s2, hall, hopen, hp2, hB2, hinv2, _, _⟩ :=
        round_preserves p hpu user hH dir s xs hp hinv [] (by simp) hcfg'
          (tailClean_of_ge4 p hp4 _) (by simp only [acceptAll]; exact hbound xs hpl hxsN) hcc cb pOpt hoka.1 hOpt hoka.2
      simp only [pushAll, Option.some.injEq, Prod.mk.injEq] at hall
      obtain ⟨rfl, rfl⟩ := hall
      simp only [acceptAll] at hinv2
      rw [hB] at hopen
      obtain ⟨dir', s', hrun, hp', hB', hinv'⟩ :=
        ih dir2 s2 xs hinv2 hp2 (by rw [hB2, hB]) (by simp only [List.length_cons] at hlen; omega) hok'
      refine ⟨dir', s', ?_, hp', hB', hinv'⟩
      simp only [runActs, hopen]
      exact hrun

/-- … from the creation on -/
theorem anyMix_from_creation (p : Nat) (hp4 : 4 ≤ p) (hpu : p ≤ u64Max) (hdr : Option Bytes)
    (hH : (toText p ++ hdr.getD []).length ≤ 65535) (Bs : List Nat) (hcfg : CacheCfgOK Bs)
    (acts : List Act) (hN : acts.length * (lineSize p + metaSize p) < 2^64)
    (hok : ∀ a ∈ acts, ActOK p (hdr.getD []) a) :
    ∃ dir0 s0 dir s, apiNew {} p hdr Bs = (dir0, .ok (s0, hdr.getD [])) ∧
      runActs Bs dir0 s0 acts = some (dir, s) ∧
      SessInvC (seriesHdr p (hdr.getD [])) ihdr dir s (histAfter p [] acts) := by
  obtain ⟨dir0, s0, hnew, hp0, _, hBs0, hinv0⟩ := apiNew_inv p hdr Bs hH hcfg
  have hinv0' : SessInvC (seriesHdr p (hdr.getD [])) ihdr dir0 s0 [] := by rw [ihdr_eq]; exact hinv0
  obtain ⟨dir, s, hrun, _, _, hinv⟩ :=
    runActs_inv p hp4 hpu (hdr.getD []) hH Bs hcfg acts.length hN acts dir0 s0 [] hinv0' hp0 hBs0 (by simp) hok
  exact ⟨dir0, s0, dir, s, hnew, hrun, hinv⟩

end BS.Impl
