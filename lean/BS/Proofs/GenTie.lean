/-
  THE TIE BY TRANSLATION.  `BS/Generated/Core.lean` is written by tools/rs2lean.py from the
  Rust sources on every run; the theorems here state that each translated function IS the
  function of the hand-written model that the property theorems are about (same value, same
  panics, same errors), for all arguments below the 64-bit limits the model abstracts from.
  A change to the Rust source changes Core.lean; if the change alters behaviour, a theorem here
  no longer checks, and the build error names the function.
-/
import BS.Generated.Core
import BS.Impl.Data
import BS.Impl.World
import BS.Impl.CatchUpPlan

namespace BS.Gen
open BS.Impl

/-! ### checked arithmetic succeeds below the limits -/

theorem add_ok {a b : Nat} (h : a + b < 2^64) : Rs.add a b = .ok (a + b) := by
  simp [Rs.add, h]

theorem sub_ok {a b : Nat} (h : b ≤ a) : Rs.sub a b = .ok (a - b) := by
  simp [Rs.sub, h]

theorem mul_ok {a b : Nat} (h : a * b < 2^64) : Rs.mul a b = .ok (a * b) := by
  simp [Rs.mul, h]

theorem div_ok {a b : Nat} (h : b ≠ 0) : Rs.div a b = .ok (a / b) := by
  simp [Rs.div, h]

@[simp] theorem bind_ok {α β : Type} (x : α) (f : α → R β) : (Except.ok x : R α) >>= f = f x := rfl
@[simp] theorem bind_error {α β : Type} (e : Fault) (f : α → R β) : (Except.error e : R α) >>= f = Except.error e := rfl
@[simp] theorem pure_eq_ok {α : Type} (x : α) : (pure x : R α) = Except.ok x := rfl

/-! ### constants and the layout arithmetic -/

theorem MAX_SMALL_TS_tie : MAX_SMALL_TS = Impl.maxSmallTs := by decide

theorem lines_per_metainfo_tie (p : Nat) : lines_per_metainfo p = .ok (Impl.lpm p) := by
  unfold lines_per_metainfo Impl.lpm
  split <;> rfl

theorem line_size_tie (p : Nat) (hp : p + 2 < 2^64) : PayloadSize_line_size p = .ok (Impl.lineSize p) := by
  simp [PayloadSize_line_size, add_ok hp, Impl.lineSize]

theorem lpm_le (p : Nat) : Impl.lpm p ≤ 6 := by
  unfold Impl.lpm; split <;> decide

theorem metainfo_size_tie (p : Nat) (hp : p < 2^60) :
    PayloadSize_metainfo_size p = .ok (Impl.metaSize p) := by
  have h1 : p + 2 < 2^64 := by omega
  have h2 : Impl.lpm p * Impl.lineSize p < 2^64 := by
    have := lpm_le p
    have : Impl.lpm p * Impl.lineSize p ≤ 6 * Impl.lineSize p := Nat.mul_le_mul_right _ this
    simp only [Impl.lineSize] at *
    omega
  simp [PayloadSize_metainfo_size, lines_per_metainfo_tie, line_size_tie p h1, mul_ok h2, Impl.metaSize]

theorem line_start_tie (x p : Nat) (hp : p < 2^60) (hx : x + Impl.metaSize p < 2^64) :
    MetaPos_line_start x p = .ok (Impl.lineStart p x) := by
  simp [MetaPos_line_start, metainfo_size_tie p hp, add_ok hx, Impl.lineStart]

theorem next_line_start_tie (x p : Nat) (hx : x + (p + 2) < 2^64) :
    LinePos_next_line_start x p = .ok (x + Impl.lineSize p) := by
  have h1 : p + 2 < 2^64 := by omega
  have h2 : x + Impl.lineSize p < 2^64 := by simpa [Impl.lineSize] using hx
  simp [LinePos_next_line_start, line_size_tie p h1, add_ok h2]

theorem in_gap_tie (v g : Nat) (hg : g + 65534 < 2^64) : in_gap v g = .ok (Impl.inGap v g) := by
  have h : g + Impl.maxSmallTs < 2^64 := by simpa [Impl.maxSmallTs, Gen.maxSmallTs] using hg
  simp [in_gap, MAX_SMALL_TS_tie, add_ok h, Impl.inGap]

end BS.Gen

namespace BS.Gen
open BS.Impl

/-! ### `Data::range`, `checked_start_time`, `checked_end_time` -/

theorem first_meta_timestamp_tie (v : DataView) :
    Data_first_meta_timestamp v = .ok (v.entries.head?.map (·.ts)) := by
  simp [Data_first_meta_timestamp, Index_first_meta_timestamp, Rs.indexOf]

theorem range_tie (v : DataView) : Data_range v = Impl.dataRange v := by
  unfold Data_range Impl.dataRange
  rw [first_meta_timestamp_tie]
  cases h : v.entries.head? <;> cases h2 : v.lastTime <;> simp [Option.mapM, Rs.expect] <;> rfl

theorem checked_start_time_tie (v : DataView) (s : Bound) :
    checked_start_time v s = Impl.checkedStartTime v s := by
  unfold checked_start_time Impl.checkedStartTime
  rw [range_tie]
  cases hr : Impl.dataRange v with
  | error e => rfl
  | ok o =>
    cases o with
    | none => rfl
    | some r =>
      obtain ⟨first, last⟩ := r
      cases s with
      | incl t => simp [Rs.okOr]; rfl
      | excl t =>
        simp only [bind_ok, Rs.okOr, Rs.checkedAdd]
        by_cases h : t + 1 < 2^64 <;> simp [h] <;> rfl
      | unb => simp [Rs.okOr]; rfl

theorem checked_end_time_tie (v : DataView) (e : Bound) :
    checked_end_time v e = Impl.checkedEndTime v e := by
  unfold checked_end_time Impl.checkedEndTime
  rw [range_tie]
  cases hr : Impl.dataRange v with
  | error e => rfl
  | ok o =>
    cases o with
    | none => rfl
    | some r =>
      obtain ⟨first, last⟩ := r
      cases e with
      | incl t => simp [Rs.okOr]; rfl
      | excl t =>
        simp only [bind_ok, Rs.okOr, Rs.checkedSub]
        by_cases h : t = 0
        · subst h; simp
        · have : 1 ≤ t := by omega
          simp [h, this]; rfl
      | unb => simp [Rs.okOr]; rfl

end BS.Gen

namespace BS.Gen
open BS.Impl

/-! ### `start_small_ts` / `end_small_ts`, `Pos::lines`, `Data::len`, `last_line_start` -/

theorem smallOf_tie (ts full : Nat) :
    (do let t ← Rs.expect (Rs.checkedSub ts full)
        unless (t ≤ MAX_SMALL_TS) do throw Fault.panic
        Rs.expect (Rs.tryU16 t)) = Impl.smallOf ts full := by
  unfold Impl.smallOf Rs.checkedSub Rs.expect Rs.tryU16
  by_cases h : ts < full
  · have : ¬ full ≤ ts := by omega
    simp [h, this]
  · have h1 : full ≤ ts := by omega
    simp only [h, h1, if_true, if_false, bind_ok]
    by_cases h2 : ts - full > Impl.maxSmallTs
    · have : ¬ (ts - full ≤ MAX_SMALL_TS) := by rw [MAX_SMALL_TS_tie]; omega
      simp [h2, this, throw, throwThe, MonadExceptOf.throw, bind, Except.bind]
    · have h3 : ts - full ≤ MAX_SMALL_TS := by rw [MAX_SMALL_TS_tie]; omega
      have h4 : ts - full < 65536 := by
        have : MAX_SMALL_TS = 65534 := by decide
        omega
      simp [h2, h3, h4]

theorem end_small_ts_tie (r : RoughPos) : RoughPos_end_small_ts r = Impl.smallOf r.endTs r.endFull := by
  unfold RoughPos_end_small_ts; exact smallOf_tie _ _

theorem start_small_ts_tie (r : RoughPos) : RoughPos_start_small_ts r = Impl.smallOf r.startTs r.startFull := by
  unfold RoughPos_start_small_ts; exact smallOf_tie _ _

/-- `Pos::lines`: the model subtracts in `Nat`; the code's subtraction cannot underflow on a
position `refine` returned (`stop > start`) -/
theorem pos_lines_tie (pos : Pos) (v : DataView) (hp : v.p + 2 < 2^64) (h : pos.start ≤ pos.stop) :
    Pos_lines pos v = .ok (pos.lines v.p) := by
  have h0 : Impl.lineSize v.p ≠ 0 := by simp [Impl.lineSize]
  simp [Pos_lines, sub_ok h, line_size_tie v.p hp, div_ok h0, Impl.Pos.lines]

theorem last_line_start_tie (v : DataView) (hp : v.p + 2 < 2^64) :
    Data_last_line_start v =
      if v.dataLen < Impl.lineSize v.p then .error .panic else .ok (v.dataLen - Impl.lineSize v.p) := by
  unfold Data_last_line_start
  rw [line_size_tie v.p hp]
  simp only [bind_ok, Rs.sub]
  by_cases h : v.dataLen < Impl.lineSize v.p
  · have : ¬ Impl.lineSize v.p ≤ v.dataLen := by omega
    simp [h, this]
  · have : Impl.lineSize v.p ≤ v.dataLen := by omega
    simp [h, this]

theorem data_len_tie (d : DataSess) (hp : d.p < 2^60) (hn : d.entries.length * Impl.lpm d.p < 2^64) :
    Data_len d.view = Impl.dataLenLines d := by
  have h1 : d.p + 2 < 2^64 := by omega
  have h0 : Impl.lineSize d.p ≠ 0 := by simp [Impl.lineSize]
  unfold Data_len Impl.dataLenLines
  simp only [DataSess.view, line_size_tie d.p h1, bind_ok, div_ok h0, Index_len, Rs.indexOf, pure_eq_ok,
    lines_per_metainfo_tie, mul_ok hn, Rs.sub]
  by_cases h : d.dataLen / Impl.lineSize d.p < d.entries.length * Impl.lpm d.p
  · have : ¬ d.entries.length * Impl.lpm d.p ≤ d.dataLen / Impl.lineSize d.p := by omega
    simp [h, this]
  · have : d.entries.length * Impl.lpm d.p ≤ d.dataLen / Impl.lineSize d.p := by omega
    simp [h, this]

end BS.Gen

namespace BS.Gen
open BS.Impl

@[simp] theorem throw_eq {α : Type} (e : Fault) : (throw e : R α) = Except.error e := rfl

/-! ### the search areas (`start_search_bounds`, `end_search_bounds`) -/

theorem bsearchKey_eq (l : List IEntry) (k : Nat) :
    Rs.bsearchKey l (fun e => e.ts) k =
      if (Impl.bsearch l k).1 then .ok (Impl.bsearch l k).2 else .err (Impl.bsearch l k).2 := by
  unfold Rs.bsearchKey Impl.bsearch
  simp only
  cases h : l[(List.takeWhile (fun e => decide (e.ts < k)) l).length]? with
  | none => simp
  | some e =>
    by_cases h2 : e.ts = k <;> simp [h2]

theorem idx_eq {α : Type} (l : List α) (i : Nat) :
    Rs.idx l i = match l[i]? with | some x => .ok x | none => .error .panic := rfl

/-- the numeric side conditions under which the model's unbounded arithmetic is the code's:
every section offset plus a section header fits 64 bits, and only the LAST section may start
within 65534 of `u64::MAX` (a section is opened only when the previous one is further away) -/
structure IndexFits (p : Nat) (entries : List IEntry) : Prop where
  hp : p < 2^60
  off : ∀ e ∈ entries, e.off + Impl.metaSize p < 2^64
  gap : ∀ i e, i + 1 < entries.length → entries[i]? = some e → e.ts + 65534 < 2^64

theorem getLast?_eq_idx {α : Type} (l : List α) : l.getLast? = l[l.length - 1]? := by
  cases l with
  | nil => rfl
  | cons a t => simp [List.getLast?_eq_getElem?]

theorem start_search_bounds_tie (v : DataView) (ts : Nat) (hf : IndexFits v.p v.entries) :
    Index_start_search_bounds (Rs.indexOf v) ts v.p = Impl.startSearchBounds v ts := by
  unfold Index_start_search_bounds Impl.startSearchBounds
  simp only [Rs.indexOf, bsearchKey_eq]
  generalize (Impl.bsearch v.entries ts).2 = i
  cases (Impl.bsearch v.entries ts).1
  · -- no exact match
    simp only [Bool.false_eq_true, if_false, bind_ok, pure_eq_ok]
    by_cases h0 : i = 0
    · subst h0
      simp only [if_true, idx_eq]
      cases h : v.entries[0]? <;> simp
    · simp only [h0, if_false]
      by_cases hl : i = v.entries.length
      · subst hl
        simp only [if_true, getLast?_eq_idx, Rs.expect]
        cases h : v.entries[v.entries.length - 1]? with
        | none => simp
        | some e =>
          have hm := hf.off e (List.mem_of_getElem? h)
          simp [line_start_tie e.off v.p hf.hp hm]
      · simp only [hl, if_false]
        have hs : 1 ≤ i := by omega
        simp only [sub_ok hs, bind_ok, idx_eq]
        cases hprev : v.entries[i - 1]? with
        | none => simp
        | some prev =>
          cases hnext : v.entries[i]? with
          | none =>
            have : v.entries.length ≤ i := by
              rcases Nat.lt_or_ge i v.entries.length with h | h
              · rw [List.getElem?_eq_getElem h] at hnext; cases hnext
              · exact h
            have h1 : i - 1 < v.entries.length := by
              rcases Nat.lt_or_ge (i - 1) v.entries.length with h | h
              · exact h
              · rw [List.getElem?_eq_none h] at hprev; cases hprev
            omega
          | some next =>
            have hi : i < v.entries.length := by
              rcases Nat.lt_or_ge i v.entries.length with h | h
              · exact h
              · rw [List.getElem?_eq_none h] at hnext; cases hnext
            have hg := hf.gap (i - 1) prev (by omega) hprev
            have hmn := hf.off next (List.mem_of_getElem? hnext)
            have hmp := hf.off prev (List.mem_of_getElem? hprev)
            simp only [bind_ok, in_gap_tie ts prev.ts hg]
            by_cases hgap : Impl.inGap ts prev.ts = true
            · simp [hgap, line_start_tie next.off v.p hf.hp hmn]
            · simp only [hgap]
              by_cases hge : ts ≥ next.ts
              · simp [hge, line_start_tie next.off v.p hf.hp hmn]
              · simp [hge, line_start_tie prev.off v.p hf.hp hmp]
  · -- exact match
    simp only [if_true, idx_eq]
    cases h : v.entries[i]? with
    | none => simp
    | some e =>
      have hm := hf.off e (List.mem_of_getElem? h)
      simp [line_start_tie e.off v.p hf.hp hm]

end BS.Gen

namespace BS.Gen
open BS.Impl

theorem end_search_bounds_tie (v : DataView) (ts : Nat) (hf : IndexFits v.p v.entries) :
    Index_end_search_bounds (Rs.indexOf v) ts v.p = Impl.endSearchBounds v ts := by
  unfold Index_end_search_bounds Impl.endSearchBounds
  simp only [Rs.indexOf, bsearchKey_eq]
  generalize (Impl.bsearch v.entries ts).2 = i
  cases (Impl.bsearch v.entries ts).1
  · simp only [Bool.false_eq_true, if_false, bind_ok, pure_eq_ok]
    by_cases h0 : i = 0
    · subst h0; simp
    · have hpos : i > 0 := by omega
      simp only [h0, if_false, hpos]
      by_cases hl : i = v.entries.length
      · subst hl
        simp only [if_true, getLast?_eq_idx, Rs.expect]
        cases h : v.entries[v.entries.length - 1]? with
        | none => simp
        | some e =>
          have hm := hf.off e (List.mem_of_getElem? h)
          simp [line_start_tie e.off v.p hf.hp hm]
      · simp only [hl, if_false]
        have hs : 1 ≤ i := by omega
        simp only [sub_ok hs, bind_ok, idx_eq]
        cases hprev : v.entries[i - 1]? with
        | none => simp
        | some prev =>
          cases hnext : v.entries[i]? with
          | none =>
            have : v.entries.length ≤ i := by
              rcases Nat.lt_or_ge i v.entries.length with h | h
              · rw [List.getElem?_eq_getElem h] at hnext; cases hnext
              · exact h
            have h1 : i - 1 < v.entries.length := by
              rcases Nat.lt_or_ge (i - 1) v.entries.length with h | h
              · exact h
              · rw [List.getElem?_eq_none h] at hprev; cases hprev
            omega
          | some next =>
            have hi : i < v.entries.length := by
              rcases Nat.lt_or_ge i v.entries.length with h | h
              · exact h
              · rw [List.getElem?_eq_none h] at hnext; cases hnext
            have hg := hf.gap (i - 1) prev (by omega) hprev
            have hmp := hf.off prev (List.mem_of_getElem? hprev)
            simp only [bind_ok, in_gap_tie ts prev.ts hg]
            by_cases hgap : Impl.inGap ts prev.ts = true
            · simp [hgap]
            · simp [hgap, line_start_tie prev.off v.p hf.hp hmp]
  · simp only [if_true, idx_eq]
    cases h : v.entries[i]? with
    | none => simp
    | some e =>
      have hm := hf.off e (List.mem_of_getElem? h)
      simp [line_start_tie e.off v.p hf.hp hm]

end BS.Gen

namespace BS.Gen
open BS.Impl

/-! ### `RoughPos::new`, `refine`, `estimate_lines` -/

@[simp] theorem expect_some {α : Type} (x : α) : Rs.expect (some x) = .ok x := rfl
@[simp] theorem expect_none {α : Type} : Rs.expect (none : Option α) = .error .panic := rfl

theorem rough_pos_new_tie (v : DataView) (s e : Bound) (hf : IndexFits v.p v.entries)
    (h0 : 0 + Impl.metaSize v.p < 2^64) :
    RoughPos_new v s e = Impl.roughPos v s e := by
  have hp2 : v.p + 2 < 2^64 := by have := hf.hp; omega
  unfold RoughPos_new Impl.roughPos
  rw [checked_start_time_tie, checked_end_time_tie]
  cases Impl.checkedStartTime v s with
  | error f => rfl
  | ok startTs =>
    cases Impl.checkedEndTime v e with
    | error f => rfl
    | ok endTs =>
      simp only [bind_ok]
      by_cases hgt : startTs > endTs
      · simp [hgt]
      · simp only [hgt, if_false]
        -- the end side, for any continuation
        have hend : ∀ sa : StartArea × Nat,
            (match e with
              | Bound.incl _ | Bound.excl _ => (do
                let x ← Index_end_search_bounds (Rs.indexOf v) endTs v.p
                pure ({ startTs := startTs, startArea := sa.fst, startFull := sa.snd, endTs := endTs,
                        endArea := x.fst, endFull := x.snd } : RoughPos) : R RoughPos)
              | Bound.unb => do
                let t4 ← Data_last_line_start v
                let t5 ← Rs.expect (Rs.indexOf v).last_timestamp
                let x ← pure (EndArea.found t4, t5)
                pure ({ startTs := startTs, startArea := sa.fst, startFull := sa.snd, endTs := endTs,
                        endArea := x.fst, endFull := x.snd } : RoughPos)) =
            (do let ea ← Impl.endAreaOf v e endTs
                pure ({ startTs := startTs, startArea := sa.fst, startFull := sa.snd, endTs := endTs,
                        endArea := ea.fst, endFull := ea.snd } : RoughPos)) := by
          intro sa
          cases e with
          | incl t => simp only [Impl.endAreaOf, end_search_bounds_tie v endTs hf]
          | excl t => simp only [Impl.endAreaOf, end_search_bounds_tie v endTs hf]
          | unb =>
            simp only [Impl.endAreaOf, last_line_start_tie v hp2, Rs.indexOf, Rs.expect]
            cases v.lastFull with
            | none => by_cases hl : v.dataLen < Impl.lineSize v.p <;> simp [hl]
            | some lf => by_cases hl : v.dataLen < Impl.lineSize v.p <;> simp [hl]
        cases s with
        | incl t =>
          simp only [Impl.startAreaOf, start_search_bounds_tie v startTs hf]
          cases Impl.startSearchBounds v startTs with
          | error f => rfl
          | ok sa => simp only [bind_ok]; exact hend sa
        | excl t =>
          simp only [Impl.startAreaOf, start_search_bounds_tie v startTs hf]
          cases Impl.startSearchBounds v startTs with
          | error f => rfl
          | ok sa => simp only [bind_ok]; exact hend sa
        | unb =>
          have hfm : Index_first_meta_timestamp (Rs.indexOf v) = .ok (v.entries.head?.map (·.ts)) := by
            simp [Index_first_meta_timestamp, Rs.indexOf]
          simp only [Impl.startAreaOf, MetaPos_ZERO, line_start_tie 0 v.p hf.hp h0, bind_ok, hfm]
          cases v.entries.head? with
          | none => rfl
          | some f =>
            simp only [Option.map, expect_some, bind_ok, pure_eq_ok]
            exact hend (StartArea.found (lineStart v.p 0), f.ts)
end BS.Gen

namespace BS.Gen
open BS.Impl

theorem refine_start_tie (v : DataView) (d : Bytes) (r : RoughPos) (hp : v.p < 2^60)
    (h0 : 0 + Impl.metaSize v.p < 2^64) :
    (match r.startArea with
      | StartArea.found pos | StartArea.gap pos => (pure pos : R Nat)
      | StartArea.clipped => MetaPos_line_start MetaPos_ZERO v.p
      | StartArea.tillEnd start => do
          let end_ := v.dataLen
          let t1 ← RoughPos_start_small_ts r
          pure (Impl.findReadStart v.p d t1 start end_)
      | StartArea.window start stop => do
          let t2 ← RoughPos_start_small_ts r
          pure (Impl.findReadStart v.p d t2 start stop)) = Impl.refineStart v d r := by
  unfold Impl.refineStart
  cases r.startArea <;> simp only [start_small_ts_tie, MetaPos_ZERO, line_start_tie 0 v.p hp h0] <;> rfl

end BS.Gen

namespace BS.Gen
open BS.Impl

theorem refine_tie (v : DataView) (d : Bytes) (r : RoughPos) (hp : v.p < 2^60)
    (h0 : 0 + Impl.metaSize v.p < 2^64)
    (hend : ∀ pos, r.endArea = EndArea.found pos → pos + (v.p + 2) < 2^64) :
    RoughPos_refine r v d = Impl.refine v d r := by
  obtain ⟨sts, sa, sf, ets, ea, ef⟩ := r
  unfold RoughPos_refine Impl.refine Impl.refineStart Impl.refineEnd
  cases sa <;> cases ea <;>
    simp only [start_small_ts_tie, end_small_ts_tie, MetaPos_ZERO, line_start_tie 0 v.p hp h0, bind_ok, pure_eq_ok]
  all_goals first
    | rfl
    | (rw [next_line_start_tie _ _ (hend _ rfl)]; rfl)
    | (cases smallOf ets ef <;> rfl)
    | (cases smallOf sts sf <;> rfl)
    | (cases smallOf sts sf <;> cases smallOf ets ef <;> rfl)
    | (cases smallOf sts sf <;> simp only [bind_ok, bind_error] <;>
        first | rfl | (rw [next_line_start_tie _ _ (hend _ rfl)]; rfl))

end BS.Gen

namespace BS.Gen
open BS.Impl

/-- what `estimate_lines` needs of the positions: a section header after a `MetaPos` fits -/
def AreasFit (p : Nat) (r : RoughPos) : Prop :=
  (∀ a b, r.startArea = StartArea.window a b → b + Impl.metaSize p < 2^64) ∧
  (∀ a, r.endArea = EndArea.gap a → a + Impl.metaSize p < 2^64)

theorem estimate_lines_tie (p dataLen : Nat) (r : RoughPos) (hp : p < 2^60) (hr : AreasFit p r) :
    RoughPos_estimate_lines r p dataLen = Impl.estimateLines p dataLen r := by
  obtain ⟨sts, sa, sf, ets, ea, ef⟩ := r
  have hp2 : p + 2 < 2^64 := by omega
  have h0 : Impl.lineSize p ≠ 0 := by simp [Impl.lineSize]
  unfold RoughPos_estimate_lines Impl.estimateLines
  cases sa <;> cases ea <;>
    simp only [bind_ok, pure_eq_ok, line_size_tie p hp2, div_ok h0] <;>
    first
      | rfl
      | (rw [line_start_tie _ p hp (hr.1 _ _ rfl)]; rfl)
      | (rw [line_start_tie _ p hp (hr.2 _ rfl)]; rfl)

end BS.Gen

namespace BS.Gen
open BS.Impl

/-! ### `Index::line_pos` (the only loop of the translated core) -/

/-- side conditions for `line_pos`: the data lines stored before a section are counted without
underflow (true of every index of a well-formed file) and positions stay below 2^63 -/
structure LinePosFits (p n : Nat) (i : Nat) (es : List IEntry) : Prop where
  hp : p < 2^60
  hn : n * Impl.lineSize p < 2^63
  ent : ∀ j e, es[j]? = some e →
      (i + j) * Impl.lpm p ≤ e.off / Impl.lineSize p ∧ e.off + Impl.metaSize p < 2^63 ∧ (i + j) * Impl.lpm p < 2^64

theorem LinePosFits.tail {p n i : Nat} {e : IEntry} {es : List IEntry} (h : LinePosFits p n i (e :: es)) :
    LinePosFits p n (i + 1) es :=
  ⟨h.hp, h.hn, fun j x hx => by
    have := h.ent (j + 1) x (by simpa using hx)
    have e1 : i + (j + 1) = i + 1 + j := by omega
    rw [e1] at this; exact this⟩

/-- the body of the loop of `Index::line_pos`, as translated -/
def linePosBody (p n : Nat) (x : IEntry × Nat) (__s : Option (Nat × Nat)) : R (ForInStep (Option (Nat × Nat))) := do
  let t1 ← Rs.div x.fst.off (Impl.lineSize p)
  let t2 ← Rs.mul x.snd (Impl.lpm p)
  let before ← Rs.sub t1 t2
  if before > n then pure (ForInStep.done __s)
    else do
      let t3 ← MetaPos_line_start x.fst.off p
      let t4 ← Rs.sub n before
      let t5 ← Rs.mul t4 (Impl.lineSize p)
      let t6 ← Rs.add t3 t5
      pure (ForInStep.yield (some (t6, x.fst.ts)))

theorem linePosBody_eq (p n i : Nat) (e : IEntry) (best : Option (Nat × Nat)) (hp : p < 2^60)
    (hn : n * Impl.lineSize p < 2^63) (hle : i * Impl.lpm p ≤ e.off / Impl.lineSize p)
    (hoff : e.off + Impl.metaSize p < 2^63) (hmul : i * Impl.lpm p < 2^64) :
    linePosBody p n (e, i) best =
      .ok (if e.off / Impl.lineSize p - i * Impl.lpm p ≤ n then
             ForInStep.yield (some (e.off + Impl.metaSize p + (n - (e.off / Impl.lineSize p - i * Impl.lpm p)) * Impl.lineSize p, e.ts))
           else ForInStep.done best) := by
  have h0 : Impl.lineSize p ≠ 0 := by simp [Impl.lineSize]
  unfold linePosBody
  simp only [div_ok h0, bind_ok, mul_ok hmul, sub_ok hle]
  by_cases hb : e.off / Impl.lineSize p - i * Impl.lpm p ≤ n
  · have hnb : ¬ (e.off / Impl.lineSize p - i * Impl.lpm p > n) := by omega
    have hx : e.off + Impl.metaSize p < 2^64 := by omega
    have hm : (n - (e.off / Impl.lineSize p - i * Impl.lpm p)) * Impl.lineSize p ≤ n * Impl.lineSize p :=
      Nat.mul_le_mul_right _ (Nat.sub_le _ _)
    have hm' : (n - (e.off / Impl.lineSize p - i * Impl.lpm p)) * Impl.lineSize p < 2^64 := by omega
    have ha : e.off + Impl.metaSize p + (n - (e.off / Impl.lineSize p - i * Impl.lpm p)) * Impl.lineSize p < 2^64 := by
      omega
    simp only [hnb, if_false, hb, if_true, line_start_tie e.off p hp hx, bind_ok, sub_ok hb, mul_ok hm',
      pure_eq_ok, Impl.lineStart, add_ok ha]
  · have hnb : e.off / Impl.lineSize p - i * Impl.lpm p > n := by omega
    simp [hnb, hb]

theorem line_pos_loop (d : DataSess) (n : Nat) :
    ∀ (es : List IEntry) (i : Nat) (best : Option (Nat × Nat)), LinePosFits d.p n i es →
      forIn (es.zipIdx i) best (linePosBody d.p n) =
        .ok (Impl.lineOffset.go d n (Impl.lineSize d.p) i best es) := by
  intro es
  induction es with
  | nil => intro i best _; simp [Impl.lineOffset.go]
  | cons e es ih =>
    intro i best hf
    obtain ⟨hle, hoff, hmul⟩ := hf.ent 0 e (by simp)
    simp only [Nat.add_zero] at hle hmul
    rw [List.zipIdx_cons, List.forIn_cons, linePosBody_eq d.p n i e best hf.hp hf.hn hle hoff hmul]
    simp only [bind_ok, Impl.lineOffset.go]
    by_cases hb : e.off / Impl.lineSize d.p - i * Impl.lpm d.p ≤ n
    · simp only [hb, if_true]
      exact ih (i + 1) _ hf.tail
    · simp [hb]

theorem index_line_pos_tie (d : DataSess) (n : Nat) (hf : LinePosFits d.p n 0 d.entries) :
    Index_line_pos (Rs.indexOf d.view) n d.p = .ok (Impl.lineOffset d n) := by
  have hp2 : d.p + 2 < 2^64 := by have := hf.hp; omega
  unfold Index_line_pos Impl.lineOffset
  simp only [line_size_tie d.p hp2, lines_per_metainfo_tie, bind_ok, Rs.indexOf, DataSess.view]
  have := line_pos_loop d n d.entries 0 none hf
  unfold linePosBody at this
  rw [this]
  rfl

/-- `Data::line_pos`: `None` beyond the last line, else the index's answer -/
theorem data_line_pos_tie (d : DataSess) (n : Nat) (hf : LinePosFits d.p n 0 d.entries)
    (hn : d.entries.length * Impl.lpm d.p < 2^64) :
    Data_line_pos d.view n =
      (do let len ← Impl.dataLenLines d
          if n ≥ len then pure none else pure (Impl.lineOffset d n)) := by
  unfold Data_line_pos
  rw [data_len_tie d hf.hp hn]
  cases Impl.dataLenLines d with
  | error f => rfl
  | ok len =>
    simp only [bind_ok]
    by_cases h : n ≥ len
    · simp [h]
    · simp only [h, if_false]
      have := index_line_pos_tie d n hf
      simp only [DataSess.view] at this ⊢
      rw [this]; rfl

end BS.Gen

namespace BS.Gen
open BS.Impl

/-! ### `meta::write` and `meta::read` -/

theorem le8_shape (ts : Nat) : ∃ a b c d e f g h, le8 ts = [a, b, c, d, e, f, g, h] := by
  simp [le8, leN]

theorem PREAMBLE_eq : PREAMBLE = Impl.marker := by decide

/-- `meta::write`: the bytes written are the model's section, the value returned its size -/
theorem write_tie (ts p : Nat) (hp : p < 2^60) :
    write (le8 ts) p = .ok (Impl.metaWrite p ts, Impl.metaSize p) := by
  obtain ⟨a, b, c, d, e, f, g, h, ht⟩ := le8_shape ts
  have hp2 : p + 2 < 2^64 := by omega
  unfold write Impl.metaWrite Impl.metaWriteLines Impl.metaSize
  rw [ht]
  match p with
  | 0 => simp [Rs.slice, PREAMBLE, Impl.marker, Impl.lpm, Impl.lineSize, line_size_tie 0 (by omega), Rs.mul]; decide
  | 1 => simp [Rs.slice, Rs.idx, PREAMBLE, Impl.marker, Impl.lpm, Impl.lineSize, line_size_tie 1 (by omega), Rs.mul]; decide
  | 2 => simp [Rs.slice, Rs.idx, PREAMBLE, Impl.marker, Impl.lpm, Impl.lineSize, line_size_tie 2 (by omega), Rs.mul]; decide
  | 3 => simp [Rs.idx, PREAMBLE, Impl.marker, Impl.lpm, Impl.lineSize, line_size_tie 3 (by omega), Rs.mul, zeros]; decide
  | p + 4 =>
    have h1 : p + 4 + 2 < 2^64 := by omega
    have h2 : 2 * (p + 4 + 2) < 2^64 := by omega
    simp [Rs.idx, Rs.copyFromSlice, PREAMBLE, Impl.marker, Impl.lpm, Impl.lineSize, line_size_tie (p + 4) h1, Rs.mul, zeros]
    have h3 : 2 * (p + 4 + 2) < 18446744073709551616 := by omega
    simp [h3, Gen.marker0, Gen.marker1, Gen.lpm4]


/-- the eight timestamp bytes `meta::read` assembles (the model's `metaTs` is their value) -/
def metaBytes (p : Nat) (l1 l2 : Bytes) (raws : List Bytes) : Bytes :=
  match p with
  | 0 => raws.flatten
  | 1 => (l1.drop 2).take 1 ++ (l2.drop 2).take 1 ++ raws.flatten
  | 2 => l1.drop 2 ++ l2.drop 2 ++ raws.flatten
  | 3 => l1.drop 2 ++ l2.drop 2 ++ (raws.flatten).take 2
  | _ => (l1.drop 2).take 4 ++ (l2.drop 2).take 4

theorem metaTs_eq (p : Nat) (l1 l2 : Bytes) (raws : List Bytes) :
    Impl.metaTs p l1 l2 raws = unN (metaBytes p l1 l2 raws) := by
  match p with
  | 0 => rfl
  | 1 => rfl
  | 2 => rfl
  | 3 => rfl
  | p + 4 => rfl

theorem len2 {c : Bytes} (h : c.length = 2) : ∃ x y, c = [x, y] := by
  match c, h with
  | [x, y], _ => exact ⟨x, y, rfl⟩
theorem len3 {c : Bytes} (h : c.length = 3) : ∃ x y z, c = [x, y, z] := by
  match c, h with
  | [x, y, z], _ => exact ⟨x, y, z, rfl⟩
theorem len4 {c : Bytes} (h : c.length = 4) : ∃ x y z w, c = [x, y, z, w] := by
  match c, h with
  | [x, y, z, w], _ => exact ⟨x, y, z, w, rfl⟩
theorem len5 {c : Bytes} (h : c.length = 5) : ∃ x y z w v, c = [x, y, z, w, v] := by
  match c, h with
  | [x, y, z, w, v], _ => exact ⟨x, y, z, w, v, rfl⟩

theorem read_tie_p0 (chunks : List Bytes) (l1 l2 : Bytes) (h1 : l1.length = 2)
    (hc : ∀ c ∈ chunks, c.length = 2) :
    read chunks l1 l2 = .ok (if chunks.length < Impl.rawCount 0 then .outOfLines chunks.length
      else .gotMeta (metaBytes 0 l1 l2 (chunks.take (Impl.rawCount 0)))) := by
  unfold read
  simp only [h1, sub_ok (Nat.le_refl 2), bind_ok, Nat.sub_self]
  match chunks, hc with
  | [], _ => simp [Impl.rawCount]
  | [c1], hc =>
    obtain ⟨x1, y1, rfl⟩ := len2 (hc c1 (by simp))
    simp [Impl.rawCount, Rs.copyFromSlice]
  | [c1, c2], hc =>
    obtain ⟨x1, y1, rfl⟩ := len2 (hc c1 (by simp))
    obtain ⟨x2, y2, rfl⟩ := len2 (hc c2 (by simp))
    simp [Impl.rawCount, Rs.copyFromSlice]
  | [c1, c2, c3], hc =>
    obtain ⟨x1, y1, rfl⟩ := len2 (hc c1 (by simp))
    obtain ⟨x2, y2, rfl⟩ := len2 (hc c2 (by simp))
    obtain ⟨x3, y3, rfl⟩ := len2 (hc c3 (by simp))
    simp [Impl.rawCount, Rs.copyFromSlice]
  | c1 :: c2 :: c3 :: c4 :: rest, hc =>
    obtain ⟨x1, y1, rfl⟩ := len2 (hc c1 (by simp))
    obtain ⟨x2, y2, rfl⟩ := len2 (hc c2 (by simp))
    obtain ⟨x3, y3, rfl⟩ := len2 (hc c3 (by simp))
    obtain ⟨x4, y4, rfl⟩ := len2 (hc c4 (by simp))
    simp [Impl.rawCount, Rs.copyFromSlice, metaBytes]

theorem read_tie_p1 (chunks : List Bytes) (l1 l2 : Bytes) (h1 : l1.length = 3) (h2 : l2.length = 3)
    (hc : ∀ c ∈ chunks, c.length = 3) :
    read chunks l1 l2 = .ok (if chunks.length < Impl.rawCount 1 then .outOfLines chunks.length
      else .gotMeta (metaBytes 1 l1 l2 (chunks.take (Impl.rawCount 1)))) := by
  obtain ⟨a1, b1, c1, rfl⟩ := len3 h1
  obtain ⟨a2, b2, c2, rfl⟩ := len3 h2
  unfold read
  match chunks, hc with
  | [], _ => simp [Impl.rawCount, Rs.sub, Rs.idx, Rs.setIdx]
  | [r1], hc =>
    obtain ⟨x1, y1, z1, rfl⟩ := len3 (hc r1 (by simp))
    simp [Impl.rawCount, Rs.sub, Rs.idx, Rs.setIdx, Rs.copyFromSlice]
  | r1 :: r2 :: rest, hc =>
    obtain ⟨x1, y1, z1, rfl⟩ := len3 (hc r1 (by simp))
    obtain ⟨x2, y2, z2, rfl⟩ := len3 (hc r2 (by simp))
    simp [Impl.rawCount, Rs.sub, Rs.idx, Rs.setIdx, Rs.copyFromSlice, metaBytes]

theorem read_tie_p2 (chunks : List Bytes) (l1 l2 : Bytes) (h1 : l1.length = 4) (h2 : l2.length = 4)
    (hc : ∀ c ∈ chunks, c.length = 4) :
    read chunks l1 l2 = .ok (if chunks.length < Impl.rawCount 2 then .outOfLines chunks.length
      else .gotMeta (metaBytes 2 l1 l2 (chunks.take (Impl.rawCount 2)))) := by
  obtain ⟨a1, b1, c1, d1, rfl⟩ := len4 h1
  obtain ⟨a2, b2, c2, d2, rfl⟩ := len4 h2
  unfold read
  match chunks, hc with
  | [], _ => simp [Impl.rawCount, Rs.sub, Rs.sliceFrom, Rs.copyFromSlice]
  | r1 :: rest, hc =>
    obtain ⟨x1, y1, z1, w1, rfl⟩ := len4 (hc r1 (by simp))
    simp [Impl.rawCount, Rs.sub, Rs.sliceFrom, Rs.copyFromSlice, metaBytes]

theorem read_tie_p3 (chunks : List Bytes) (l1 l2 : Bytes) (h1 : l1.length = 5) (h2 : l2.length = 5)
    (hc : ∀ c ∈ chunks, c.length = 5) :
    read chunks l1 l2 = .ok (if chunks.length < Impl.rawCount 3 then .outOfLines chunks.length
      else .gotMeta (metaBytes 3 l1 l2 (chunks.take (Impl.rawCount 3)))) := by
  obtain ⟨a1, b1, c1, d1, e1, rfl⟩ := len5 h1
  obtain ⟨a2, b2, c2, d2, e2, rfl⟩ := len5 h2
  unfold read
  match chunks, hc with
  | [], _ => simp [Impl.rawCount, Rs.sub, Rs.sliceFrom, Rs.copyFromSlice]
  | r1 :: rest, hc =>
    obtain ⟨x1, y1, z1, w1, v1, rfl⟩ := len5 (hc r1 (by simp))
    simp [Impl.rawCount, Rs.sub, Rs.sliceFrom, Rs.slice, Rs.copyFromSlice, metaBytes]

theorem read_tie_ge4 (p : Nat) (chunks : List Bytes) (l1 l2 : Bytes) (h1 : l1.length = p + 4 + 2) (h2 : l2.length = p + 4 + 2) :
    read chunks l1 l2 = .ok (if chunks.length < Impl.rawCount (p + 4) then .outOfLines chunks.length
      else .gotMeta (metaBytes (p + 4) l1 l2 (chunks.take (Impl.rawCount (p + 4))))) := by
  unfold read
  have e1 : l1.length - 2 = p + 4 := by omega
  simp only [Rs.sub, show 2 ≤ l1.length by omega, if_true, bind_ok, e1]
  have s1 : Rs.slice l1 2 6 = .ok ((l1.drop 2).take 4) := by simp [Rs.slice]; omega
  have s2 : Rs.slice l2 2 6 = .ok ((l2.drop 2).take 4) := by simp [Rs.slice]; omega
  have n1 : ((l1.drop 2).take 4).length = 4 := by simp; omega
  have n2 : ((l2.drop 2).take 4).length = 4 := by simp; omega
  simp [Impl.rawCount, s1, s2, Rs.copyFromSlice, n1, n2, metaBytes]

/-- `meta::read`: out of lines exactly when fewer than `rawCount` lines follow the two marker
lines (reporting how many there were), else the timestamp bytes the model decodes -/
theorem read_tie (p : Nat) (chunks : List Bytes) (l1 l2 : Bytes) (h1 : l1.length = p + 2) (h2 : l2.length = p + 2)
    (hc : ∀ c ∈ chunks, c.length = p + 2) :
    read chunks l1 l2 = .ok (if chunks.length < Impl.rawCount p then .outOfLines chunks.length
      else .gotMeta (metaBytes p l1 l2 (chunks.take (Impl.rawCount p)))) := by
  match p with
  | 0 => exact read_tie_p0 chunks l1 l2 h1 hc
  | 1 => exact read_tie_p1 chunks l1 l2 h1 h2 hc
  | 2 => exact read_tie_p2 chunks l1 l2 h1 h2 hc
  | 3 => exact read_tie_p3 chunks l1 l2 h1 h2 hc
  | p + 4 => exact read_tie_ge4 p chunks l1 l2 h1 h2

end BS.Gen

namespace BS.Gen
open BS.Impl

/-! ### `repair::add_missing_data` (the catch-up of a cache on open) -/

/-- **the model's `DownSampledData::open` + catch-up is: open the cache's data, then carry out the plan** -/
theorem cacheOpen_follows_plan (dir : Dir) (B : Nat) (src : DataSess) (cb : Option Bool) :
    cacheOpen dir B src cb =
      match fileOpenExisting (dir.cache B).data with
      | .error f => (dir, .error f)
      | .ok (off, _) =>
        match dataOpenExisting (dir.cache B) src.p off cb with
        | (st, .error f) => (dir.setCache B st, .error f)
        | (st, .ok d) =>
          match catchUpPlan src d B with
          | .error f => (dir.setCache B st, .error f)
          | .ok acts => applyPlan (dir.setCache B st) B src cb st d acts := by
  unfold cacheOpen
  dsimp only
  cases h1 : fileOpenExisting (dir.cache B).data with
  | error f => rfl
  | ok r =>
    obtain ⟨off, x⟩ := r
    simp only
    cases h2 : dataOpenExisting (dir.cache B) src.p off cb with
    | mk st rd =>
      cases rd with
      | error f => rfl
      | ok d =>
        simp only [catchUpPlan]
        cases h3 : dataLenLines d with
        | error f => cases dataLenLines src <;> rfl
        | ok clen =>
          cases h4 : dataLenLines src with
          | error f => rfl
          | ok slen =>
            simp only
            by_cases ha : (decide (clen * B ≥ slen + B) || (decide (clen * B > slen) && cacheNewer d.lastTime src.lastTime)) = true
            · simp only [ha, if_true]
              by_cases hs : 0 ≥ slen
              · simp [hs, applyPlan]
              · simp only [hs, if_false]
                cases lineOffset src 0 with
                | none => simp [applyPlan]
                | some r => obtain ⟨start, full⟩ := r; simp [applyPlan]
            · simp only [ha, if_false, Bool.false_eq_true]
              by_cases hs : clen * B ≥ slen
              · simp [hs, applyPlan]
              · simp only [hs, if_false]
                cases lineOffset src (clen * B) with
                | none => simp [applyPlan]
                | some r => obtain ⟨start, full⟩ := r; simp [applyPlan]

theorem dataLenLines_error (x : DataSess) (f : Fault) (h : dataLenLines x = .error f) : f = .panic := by
  unfold dataLenLines at h
  dsimp only at h
  split at h
  · cases h; rfl
  · cases h

theorem optLt_eq_cacheNewer (c t : Option Nat) : Rs.optLt t c = cacheNewer c t := by
  cases c <;> cases t <;> simp [Rs.optLt, cacheNewer]

/-- **`add_missing_data` as translated from the current source computes exactly the plan** the model's
`cacheOpen` carries out (`cacheOpen_follows_plan`): when to empty the cache, how many lines to skip,
where to resume replaying the source -/
theorem add_missing_data_tie (src d : DataSess) (B sk : Nat)
    (hps : src.p < 2^60) (hpd : d.p < 2^60)
    (hns : src.entries.length * Impl.lpm src.p < 2^64) (hnd : d.entries.length * Impl.lpm d.p < 2^64)
    (hbig : ∀ clen slen, dataLenLines d = .ok clen → dataLenLines src = .ok slen → clen * B < 2^64 ∧ slen + B < 2^64)
    (hlp : ∀ slen n, dataLenLines src = .ok slen → n < slen → LinePosFits src.p n 0 src.entries) :
    add_missing_data src.view { bucket_size := B, data := d.view, lines_to_skip := sk } = (catchUpPlan src d B).map (fun acts => (acts, ())) := by
  unfold add_missing_data catchUpPlan
  simp only [data_len_tie src hps hns, data_len_tie d hpd hnd]
  cases hs : dataLenLines src with
  | error f =>
    have := dataLenLines_error src f hs; subst this
    cases hd : dataLenLines d with
    | error g => have := dataLenLines_error d g hd; subst this; rfl
    | ok clen => rfl
  | ok slen =>
    cases hd : dataLenLines d with
    | error g => rfl
    | ok clen =>
      obtain ⟨hm, ha⟩ := hbig clen slen hd hs
      have hsm : Rs.satMul clen B = clen * B := by simp only [Rs.satMul]; omega
      have hsa : Rs.satAdd slen B = slen + B := by simp only [Rs.satAdd]; omega
      simp only [bind_ok, hsm, hsa, optLt_eq_cacheNewer, DataSess.view]
      by_cases hah : (decide (clen * B ≥ slen + B) || (decide (clen * B > slen) && cacheNewer d.lastTime src.lastTime)) = true
      · have hcond : (clen * B ≥ slen + B ∨ decide (clen * B > slen ∧ cacheNewer d.lastTime src.lastTime = true) = true) := by
          simp only [Bool.or_eq_true, Bool.and_eq_true, decide_eq_true_eq] at hah ⊢
          exact hah
        rw [if_pos hcond]
        simp only [hah, if_true]
        by_cases h0 : 0 ≥ slen
        · have : slen = 0 := by omega
          subst this
          simp [Rs.sub, Except.map]
        · simp only [h0, if_false]
          have hfit := hlp slen 0 hs (by omega)
          have := data_line_pos_tie src 0 hfit hns
          simp only [DataSess.view] at this
          simp only [this, hs, bind_ok, h0, if_false, pure_eq_ok]
          cases lineOffset src 0 with
          | none => simp [Except.map]
          | some r => obtain ⟨start, full⟩ := r; simp [Except.map]
      · have hcond : ¬ (clen * B ≥ slen + B ∨ decide (clen * B > slen ∧ cacheNewer d.lastTime src.lastTime = true) = true) := by
          simp only [Bool.or_eq_true, Bool.and_eq_true, decide_eq_true_eq] at hah ⊢
          exact hah
        rw [if_neg hcond]
        simp only [hah, if_false, Bool.false_eq_true]
        by_cases h0 : clen * B ≥ slen
        · simp [h0, Rs.sub, Except.map]
        · simp only [h0, if_false]
          have hfit := hlp slen (clen * B) hs (by omega)
          have := data_line_pos_tie src (clen * B) hfit hns
          simp only [DataSess.view] at this
          simp only [this, hs, bind_ok, h0, if_false, pure_eq_ok]
          cases lineOffset src (clen * B) with
          | none => simp [Except.map]
          | some r => obtain ⟨start, full⟩ := r; simp [Except.map]

end BS.Gen

namespace BS.Gen
open BS.Impl

/-! ### `TimeRange::update` (the append rule of `push_line`) -/

/-- `TimeRange::update` as translated: refuses (`TimeNotAfterLast`) exactly when the model's `rangeUpdate`
does, i.e. when the new timestamp is not after the last one, and else sets the same new range -/
theorem time_range_update_tie (r : Option (Nat × Nat)) (ts : Nat) :
    TimeRange_update r ts =
      match Impl.rangeUpdate r ts with
      | .ok r' => .ok (r', ())
      | .error _ => .error (.err "TimeNotAfterLast") := by
  unfold TimeRange_update Impl.rangeUpdate
  cases r with
  | none => rfl
  | some ab =>
    obtain ⟨a, b⟩ := ab
    by_cases h : b ≥ ts <;> simp [h]

end BS.Gen

namespace BS.Gen
open BS.Impl

/-! ### `DownSampledData::process` (what every append does to a cache) -/

/-- the cache's in-memory state as the translated `process` sees it -/
def toView (c : CacheSess) : CacheView :=
  { bucket_size := c.B, data := c.d.view, lines_to_skip := c.skip, samples_in_bin := c.inBin,
    ts_sum := c.tsSum, resample_state := c.vSum }

/-- carrying out what the translated `process` returns: the new accumulator fields, and the one
`push_data` it may have asked for on the cache's own data file -/
def runProcess (st : Store) (c : CacheSess) (r : R ((CacheView × List CatchUp) × Unit)) : R (Store × CacheSess) :=
  match r with
  | .error f => .error f
  | .ok ((v, acts), _) =>
    let c' : CacheSess := { c with skip := v.lines_to_skip, inBin := v.samples_in_bin, tsSum := v.ts_sum, vSum := v.resample_state }
    match acts with
    | [] => .ok (st, c')
    | [CatchUp.push rts rline] =>
      match pushData st c.d rts rline with
      | .error f => .error f
      | .ok (st', d') => .ok (st', { c' with d := d' })
    | _ => .error .panic

/-- **`DownSampledData::process` as translated from the current source is the model's `cacheProcess`**:
same skipping, same sums (u64 values, u128 timestamps), same bucket completion, same mean and its
`assert!`, the same single `push_data` of the bucket's line, the same reset -/
theorem process_tie (st : Store) (c : CacheSess) (ts : Nat) (line : Bytes)
    (hts : ts < 2^64) (hsum : c.tsSum + ts < 2^128) (hbin : c.inBin + 1 < 2^64) :
    cacheProcess st c ts line = runProcess st c (DownSampledData_process (toView c) ts line) := by
  unfold cacheProcess DownSampledData_process toView runProcess
  by_cases hsk : c.skip > 0
  · have h1 : 1 ≤ c.skip := by omega
    simp [hsk, sub_ok h1]
  · simp only [hsk, if_false, bind_ok]
    by_cases hv : c.vSum + linDecode line ≥ 2^64
    · have : ¬ (c.vSum + linDecode line < 2^64) := by omega
      simp [hv, Rs.add, this]
    · have hv' : c.vSum + linDecode line < 2^64 := by omega
      simp only [hv, if_false, add_ok hv', bind_ok, Rs.add128, hsum, if_true, add_ok hbin]
      by_cases hfull : c.inBin + 1 ≥ c.B
      · simp only [hfull, if_true]
        by_cases hB : c.B = 0
        · simp [hB, Rs.div]
        · simp only [hB, if_false, div_ok hB, bind_ok]
          by_cases hr : (c.tsSum + ts) / c.B > ts
          · have h64 : ¬ ((c.tsSum + ts) / c.B ≤ ts) := by omega
            simp only [hr, if_true, Rs.tryU64]
            by_cases h2 : (c.tsSum + ts) / c.B < 2^64
            · simp [h2, h64]
            · simp [h2]
          · have h2 : (c.tsSum + ts) / c.B < 2^64 := by omega
            have h3 : (c.tsSum + ts) / c.B ≤ ts := by omega
            simp only [hr, if_false, Rs.tryU64, h2, if_true, expect_some, bind_ok, h3]
            simp [DataSess.view]
            cases pushData st c.d ((c.tsSum + ts) / c.B) (linEncode c.d.p ((c.vSum + linDecode line) / c.B)) with
            | error f => rfl
            | ok r => rfl
      · simp [hfull]

end BS.Gen

namespace BS.Gen
open BS.Impl

/-! ### `Sampler::process` (the accumulator of a resampling read) -/

/-- what the translated `Sampler::process` returns, as the model's processor result: the two pushes to the
caller's vectors become one output entry (the harness's `Lin` resampler encodes the mean value) -/
def runSampler (s : Sampler) (r : R ((Sampler × List CatchUp) × Unit)) : PRes Sampler :=
  match r with
  | .error _ => .fault
  | .ok ((s', acts), _) =>
    match acts with
    | [] => .cont { s' with out := s.out }
    | [CatchUp.outTs t, CatchUp.outItem v] => .cont { s' with out := s.out ++ [⟨t, linEncode s.p v⟩] }
    | _ => .fault

/-- **`Sampler::process` as translated from the current source is the model's `samplerProc`** (sums in
u128 / u64, bucket completion, the mean, the reset), for a bucket size > 0 and sums within their types -/
theorem sampler_process_tie (s : Sampler) (ts : Nat) (pl : Bytes) (hb : s.bucket ≠ 0)
    (hsum : s.tsSum + ts < 2^128) (hn : s.sampled + 1 < 2^64) (hmean : (s.tsSum + ts) / s.bucket < 2^64) :
    samplerProc s ts pl = runSampler s (Sampler_process s ts pl) := by
  unfold samplerProc Sampler_process runSampler
  simp only [Rs.add128, hsum, if_true, bind_ok]
  by_cases hv : s.vSum + linDecode pl ≥ 2^64
  · have : ¬ (s.vSum + linDecode pl < 2^64) := by omega
    simp [hv, Rs.add, this]
  · have hv' : s.vSum + linDecode pl < 2^64 := by omega
    simp only [hv, if_false, add_ok hv', bind_ok, add_ok hn]
    by_cases hfull : s.sampled + 1 ≥ s.bucket
    · simp [hfull, div_ok hb, Rs.tryU64, hmean]
    · simp [hfull]

end BS.Gen

namespace BS.Gen
open BS.Impl

/-! ### `ByteSeries::push_line` (the order of its checks and effects) -/

/-- carrying out what the translated `push_line` returns: an error leaves everything as it was; else the
new range, then `push_data` on the series' own files, then every cache level's `process` -/
def runPushLine (dir : Dir) (s : Sess) (r : R ((SeriesView × List CatchUp) × Unit)) : Dir × R Sess :=
  match r with
  | .error (.err c) => (dir, .error (.err (c ++ "/" ++ c)))
  | .error .panic => (dir, .error .panic)
  | .ok ((v, acts), _) =>
    match acts with
    | [CatchUp.push t l, CatchUp.cache t2 l2] =>
      match pushData dir.main s.d t l with
      | .error f => (dir, .error (wrapErr "Pushing" f))
      | .ok (main', d') =>
        match pushLine.go t2 l2 { dir with main := main' } [] s.caches with
        | (dir', .error f) => (dir', .error f)
        | (dir', .ok caches') => (dir', .ok { s with d := d', range := v.range, caches := caches' })
    | _ => (dir, .error .panic)

/-- **`push_line` as translated from the current source is the model's `pushLine`**: the length check
first, then the range update (the append rule), and only then - in this order - the series' own
`push_data` and the caches; a refusal returns before anything was touched -/
theorem push_line_tie (dir : Dir) (s : Sess) (ts : Nat) (pl : Bytes) :
    pushLine dir s ts pl = runPushLine dir s (ByteSeries_push_line ⟨s.d.view, s.range⟩ ts pl) := by
  unfold pushLine ByteSeries_push_line runPushLine
  by_cases hl : pl.length ≠ s.d.p
  · simp [hl, DataSess.view]
  · simp only [hl, if_false, DataSess.view, time_range_update_tie]
    cases hr : rangeUpdate s.range ts with
    | error f =>
      unfold rangeUpdate at hr
      split at hr
      · split at hr
        · cases hr; simp
        · cases hr
      · cases hr
    | ok r' =>
      simp only [bind_ok, pure_eq_ok, List.nil_append, List.cons_append]
      cases pushData dir.main s.d ts pl with
      | error f => rfl
      | ok r => rfl

/-! ### the write path: `Index::update` and `Data::push_data` -/

/-- carrying out the `write_all` calls of the write path on the model's store, in order -/
def applyWrites (st : Store) : List IoW → Store
  | [] => st
  | .dataWrite b :: r => applyWrites { st with data := appendTo st.data b } r
  | .indexWrite b :: r => applyWrites { st with index := appendTo st.index b } r

/-- what the translated `push_data` returns, carried out: the writes on the store, the changed fields in the session -/
def runPushData (st : Store) (d : DataSess) (r : R ((DataView × List IoW) × Unit)) : R (Store × DataSess) :=
  match r with
  | .ok ((v, tr), _) =>
    .ok (applyWrites st tr, { d with dataLen := v.dataLen, entries := v.entries, lastFull := v.lastFull, lastTime := v.lastTime })
  | .error f => .error f

theorem appendTo_appendTo (f : Option Bytes) (a b : Bytes) : appendTo (appendTo f a) b = appendTo f (a ++ b) := by
  cases f <;> simp [appendTo]

theorem index_update_tie (i : Index) (ts off : Nat) :
    Index_update i ts off = .ok ((⟨i.entries ++ [⟨ts, off⟩], some ts⟩, [.indexWrite (le8 ts), .indexWrite (le8 off)]), ()) := by
  simp [Index_update, MetaPos_to_le_bytes, le8, bind_ok, pure_eq_ok]

/-- **`Data::push_data` as translated from the current source is the model's `pushData`**: the out-of-order
refusal, the test that opens a new section (`> MAX_SMALL_TS`), the index entry written BEFORE the section, the
section's bytes (`meta::write`), the line's two delta bytes and payload, and the new `data_len`, `last_time`
and index fields. Side conditions: the caller's slice holds a payload (`push_line` checks the length first) and
the file stays below 2^64 bytes -/
theorem push_data_tie (st : Store) (d : DataSess) (ts : Nat) (line : Bytes)
    (hp : d.p < 2^60) (hl : d.p ≤ line.length) (hlen : d.dataLen + Impl.metaSize d.p + Impl.lineSize d.p < 2^64) :
    runPushData st d (Data_push_data d.view ts line) = Impl.pushData st d ts line := by
  have hp2 : d.p + 2 < 2^64 := by omega
  have hnew : ∀ (tr0 : List IoW), tr0 = [] →
      runPushData st d (do
        let t3 ← (Index_update (Rs.indexOf d.view) ts d.view.dataLen)
        let self := (Rs.withIndex d.view t3.1.1)
        let trace_ := tr0 ++ t3.1.2
        let t4 ← (write (BS.leN 8 ts) self.p)
        let trace_ := trace_ ++ [(IoW.dataWrite t4.1)]
        let written ← (pure t4.2 : R Nat)
        let t5 ← (Rs.add self.dataLen written)
        let self := { self with dataLen := t5 }
        let small_ts := 0
        let trace_ := trace_ ++ [(IoW.dataWrite (BS.le2 small_ts))]
        let t6 ← (Rs.slice line 0 self.p)
        let trace_ := trace_ ++ [(IoW.dataWrite t6)]
        let t7 ← (PayloadSize_line_size self.p)
        let t8 ← (Rs.add self.dataLen t7)
        let self := { self with dataLen := t8 }
        let self := { self with lastTime := (some ts) }
        pure ((self, trace_), ())) =
      .ok ({ st with index := appendTo st.index (encIEntry ⟨ts, d.dataLen⟩),
                     data := appendTo st.data (metaWrite d.p ts ++ le2 0 ++ line.take d.p) },
           { d with entries := d.entries ++ [⟨ts, d.dataLen⟩], lastFull := some ts,
                    dataLen := d.dataLen + metaSize d.p + lineSize d.p, lastTime := some ts }) := by
    intro tr0 h0
    subst h0
    have hw := write_tie ts d.p hp
    simp only [le8] at hw
    have h1 : d.dataLen + Impl.metaSize d.p < 2^64 := by omega
    simp [index_update_tie, Rs.indexOf, Rs.withIndex, DataSess.view, hw, bind_ok, pure_eq_ok, add_ok h1,
      line_size_tie d.p hp2, add_ok hlen, Rs.slice, hl, runPushData, applyWrites, appendTo_appendTo, encIEntry, le8]
  unfold Data_push_data Impl.pushData
  cases hlf : d.lastFull with
  | none =>
    have := hnew [] rfl
    simp only [Rs.indexOf, DataSess.view, hlf, Option.mapM_none, bind_ok, pure_eq_ok] at this ⊢
    simpa using this
  | some lf =>
    by_cases hlt : ts < lf
    · simp [Rs.indexOf, DataSess.view, hlf, Option.mapM_some, Rs.checkedSub, Rs.okOr, hlt, Nat.not_le.mpr hlt, runPushData]
    · have hle : lf ≤ ts := Nat.le_of_not_lt hlt
      by_cases hbig : Impl.maxSmallTs < ts - lf
      · have := hnew [] rfl
        simp only [Rs.indexOf, DataSess.view, hlf, bind_ok, pure_eq_ok] at this
        simp [Rs.indexOf, DataSess.view, hlf, Option.mapM_some, Rs.checkedSub, Rs.okOr, hle, hlt, hbig, MAX_SMALL_TS_tie, bind_ok, pure_eq_ok]
        simpa using this
      · have h16 : ts - lf < 65536 := by have : Impl.maxSmallTs = 65534 := rfl; omega
        have h1 : d.dataLen + Impl.lineSize d.p < 2^64 := by omega
        simp [Rs.indexOf, DataSess.view, hlf, Option.mapM_some, Rs.checkedSub, Rs.okOr, hle, hlt, hbig, MAX_SMALL_TS_tie, bind_ok, pure_eq_ok,
          Rs.tryU16, h16, Rs.slice, hl, line_size_tie d.p hp2, add_ok h1, runPushData, applyWrites, appendTo_appendTo]

/-! ### the open-time tail repair: `FileWithInlineMeta::new` -/

theorem repair_incomplete_last_write_tie (d : Bytes) (p : Nat) (hp : p + 2 < 2^64) :
    repair_incomplete_last_write d p = .ok (dropPartialLine p d, ()) := by
  have hls : Impl.lineSize p ≠ 0 := by simp [Impl.lineSize]
  have hle : d.length % Impl.lineSize p ≤ d.length := Nat.mod_le _ _
  unfold repair_incomplete_last_write dropPartialLine
  simp only [line_size_tie p hp, bind_ok, pure_eq_ok, Rs.rem, hls, if_false]
  by_cases h0 : d.length % Impl.lineSize p > 0
  · simp [h0, sub_ok hle, Rs.setLen, bind_ok]
  · have : d.length % Impl.lineSize p = 0 := by omega
    simp [this]

theorem repaired_is_only_meta_tie (d : Bytes) (p : Nat) (hp : p < 2^60) :
    repaired_is_only_meta d p = .ok (if d.length ≤ Impl.metaSize p then ([], true) else (d, false)) := by
  unfold repaired_is_only_meta
  simp only [metainfo_size_tie p hp, bind_ok, pure_eq_ok]
  by_cases h : d.length ≤ Impl.metaSize p <;> simp [h, Rs.setLen]

/-- **`FileWithInlineMeta::new` as translated from the current source is the model's `repairData`**: nothing on an
empty file; else drop the partial last line, empty the file when no more than a section is left (`<=`), then the
two stages that look for a torn section at the end - in this order, each ending the repair when it cut something.
The labeled block with its `break`s is translated as a loop that runs once.  The two last stages are written with
iterator adaptors outside the subset: their calls stand for the model's functions (tied by the correspondence) -/
theorem file_new_tie (d : Bytes) (p : Nat) (hp : p < 2^60) :
    FileWithInlineMeta_new d p = .ok (repairData p d, ⟨repairData p d, p⟩) := by
  have hp2 : p + 2 < 2^64 := by omega
  unfold FileWithInlineMeta_new repairData
  by_cases h0 : d.length = 0
  · have hd : d = [] := List.eq_nil_of_length_eq_zero h0
    simp [hd, bind_ok, pure_eq_ok]
  · have hd : d ≠ [] := by intro h; simp [h] at h0
    simp only [h0, if_false, repair_incomplete_last_write_tie _ p hp2, repaired_is_only_meta_tie _ p hp, bind_ok, pure_eq_ok]
    by_cases h1 : (dropPartialLine p d).length ≤ Impl.metaSize p
    · simp [h1, hd, bind_ok, pure_eq_ok]
    · cases h2 : removePartialMeta p (dropPartialLine p d) with
      | some d2 => simp [h1, h2, hd, Rs.optStep, bind_ok, pure_eq_ok]
      | none =>
        cases h3 : removeStartOfMeta p (dropPartialLine p d) with
        | some d3 => simp [h1, h2, h3, hd, Rs.optStep, bind_ok, pure_eq_ok]
        | none => simp [h1, h2, h3, hd, Rs.optStep, bind_ok, pure_eq_ok]


end BS.Gen
