/-
  T10: the series header written by `SeriesParams::to_text` (+ user header) is parsed back
  by `check_and_split_off_user_header` to exactly the payload size and user header, for
  every payload size and every user header (which may contain the parser's own patterns).
-/
import BS.Impl.Header
import BS.Proofs.Bytes

namespace BS.Impl
open BS

/-! ### `str::find` -/

theorem isPrefixOf_append_right (pat : Bytes) : ∀ (X C : Bytes), pat.length ≤ X.length →
    pat.isPrefixOf (X ++ C) = pat.isPrefixOf X := by
  induction pat with
  | nil => intro X C _; simp [List.isPrefixOf]
  | cons a pat ih =>
    intro X C h
    cases X with
    | nil => simp at h
    | cons x X =>
      simp only [List.cons_append, List.isPrefixOf]
      rw [ih X C (by simpa using h)]

theorem isPrefixOf_self_append (pat C : Bytes) : pat.isPrefixOf (pat ++ C) = true := by
  induction pat with
  | nil => simp [List.isPrefixOf]
  | cons a pat ih => simp [List.isPrefixOf, ih]

theorem findSub_go_at (pat : Bytes) : ∀ (A rest : Bytes) (i fuel : Nat), A.length < fuel →
    (∀ j < A.length, pat.isPrefixOf (A.drop j ++ rest) = false) → pat.isPrefixOf rest = true →
    findSub.go pat (A ++ rest) i fuel = some (i + A.length) := by
  intro A
  induction A with
  | nil =>
    intro rest i fuel hf _ hp
    obtain ⟨fuel', rfl⟩ : ∃ f', fuel = f' + 1 := ⟨fuel - 1, by simp at hf; omega⟩
    rw [findSub.go.eq_def]
    simp [hp]
  | cons a A ih =>
    intro rest i fuel hf hno hp
    obtain ⟨fuel', rfl⟩ : ∃ f', fuel = f' + 1 := ⟨fuel - 1, by simp at hf; omega⟩
    have h0 := hno 0 (by simp)
    simp only [List.drop_zero, List.cons_append] at h0
    simp only [List.cons_append]
    rw [findSub.go.eq_def]
    simp only [h0, Bool.false_eq_true, if_false]
    rw [ih rest (i + 1) fuel' (by simp at hf; omega) (fun j hj => by
      have := hno (j + 1) (by simp; omega)
      simpa using this) hp]
    simp only [List.length_cons, Option.some.injEq]; omega

/-- the first occurrence: nothing matches before position `A.length` -/
theorem findSub_at (pat A rest : Bytes)
    (hno : ∀ j < A.length, pat.isPrefixOf (A.drop j ++ rest) = false) (hp : pat.isPrefixOf rest = true) :
    findSub pat (A ++ rest) = some A.length := by
  unfold findSub
  rw [findSub_go_at pat A rest 0 _ (by simp; omega) hno hp]
  simp

/-- … for a literal prefix `A`: decided on `A ++ pat` alone -/
theorem findSub_lit (pat A C : Bytes)
    (hno : ∀ j < A.length, pat.isPrefixOf ((A ++ pat).drop j) = false) :
    findSub pat (A ++ (pat ++ C)) = some A.length := by
  apply findSub_at
  · intro j hj
    have h := hno j hj
    rw [List.drop_append_of_le_length (by omega)] at h
    rw [← List.append_assoc, isPrefixOf_append_right pat (A.drop j ++ pat) C (by simp)]
    exact h
  · exact isPrefixOf_self_append pat C

theorem isPrefixOf_getElem (pat : Bytes) : ∀ (X : Bytes) (k : Nat) (c : UInt8), pat.isPrefixOf X = true →
    pat[k]? = some c → X[k]? = some c := by
  induction pat with
  | nil => intro X k c _ h; simp at h
  | cons a pat ih =>
    intro X k c hp hk
    cases X with
    | nil => simp [List.isPrefixOf] at hp
    | cons x X =>
      simp only [List.isPrefixOf, Bool.and_eq_true, beq_iff_eq] at hp
      cases k with
      | zero => simp at hk ⊢; rw [← hk, hp.1]
      | succ k => simp at hk ⊢; exact ih X k c hp.2 hk

/-! ### decimal digits -/

def isDigit (c : UInt8) : Prop := 48 ≤ c.toNat ∧ c.toNat ≤ 57

theorem digit_toNat (d : Nat) (h : d < 10) : ((48 + d).toUInt8).toNat = 48 + d := by
  simp [Nat.toUInt8, UInt8.toNat_ofNat']; omega

theorem natDigits_digits (n : Nat) : ∀ c ∈ natDigits n, isDigit c := by
  induction n using Nat.strongRecOn with
  | ind n ih =>
    rw [natDigits]
    by_cases h : n < 10
    · simp only [h, if_true, List.mem_singleton]
      intro c hc; subst hc
      unfold isDigit; rw [digit_toNat n h]; omega
    · simp only [h, if_false, List.mem_append, List.mem_singleton]
      intro c hc
      rcases hc with hc | rfl
      · exact ih (n / 10) (by omega) c hc
      · unfold isDigit; rw [digit_toNat _ (Nat.mod_lt _ (by omega))]
        have := Nat.mod_lt n (show 0 < 10 by omega); omega

theorem natDigits_ne_nil (n : Nat) : natDigits n ≠ [] := by
  rw [natDigits]; split <;> simp

theorem natDigits_length_le (k : Nat) : ∀ n, n < 10 ^ (k + 1) → (natDigits n).length ≤ k + 1 := by
  induction k with
  | zero => intro n h; rw [natDigits]; simp at h; simp [h]
  | succ k ih =>
    intro n h
    rw [natDigits]
    by_cases h10 : n < 10
    · simp [h10]
    · simp only [h10, if_false, List.length_append, List.length_cons, List.length_nil]
      have : n / 10 < 10 ^ (k + 1) := by
        rw [Nat.div_lt_iff_lt_mul (by omega)]
        rw [Nat.pow_succ] at h; exact h
      have := ih (n / 10) this
      omega

theorem foldl_natDigits (n : Nat) : (natDigits n).foldl decStep (some 0) = some n := by
  induction n using Nat.strongRecOn with
  | ind n ih =>
    rw [natDigits]
    by_cases h : n < 10
    · simp only [h, if_true, List.foldl_cons, List.foldl_nil, decStep]
      rw [digit_toNat n h]
      have : 48 ≤ 48 + n ∧ 48 + n ≤ 57 := by omega
      simp [this]
    · simp only [h, if_false, List.foldl_append, List.foldl_cons, List.foldl_nil]
      rw [ih (n / 10) (by omega)]
      simp only [decStep]
      have hm := Nat.mod_lt n (show 0 < 10 by omega)
      rw [digit_toNat _ hm]
      have : 48 ≤ 48 + n % 10 ∧ 48 + n % 10 ≤ 57 := by omega
      simp only [this, and_self, if_true]
      congr 1
      have := Nat.div_add_mod n 10
      omega

/-- `str::parse` reads back what `to_string` wrote -/
theorem parseDec_natDigits (limit n : Nat) (h : n ≤ limit) : parseDec limit (natDigits n) = some n := by
  have hne := natDigits_ne_nil n
  have hd := natDigits_digits n
  unfold parseDec
  have hfold := foldl_natDigits n
  cases hb : natDigits n with
  | nil => exact absurd hb hne
  | cons c t =>
    have hc : isDigit c := hd c (by rw [hb]; simp)
    have hc43 : c ≠ 43 := by
      intro h43; subst h43; unfold isDigit at hc; simp at hc
    have hstrip : stripPlus (c :: t) = c :: t := by
      unfold stripPlus
      split
      · rename_i t' heq
        simp only [List.cons.injEq] at heq
        exact absurd heq.1 hc43
      · rfl
    simp only [hstrip, List.isEmpty_cons, Bool.false_eq_true, if_false]
    rw [hb] at hfold
    rw [hfold]
    simp [h]

end BS.Impl

namespace BS.Impl
open BS

/-! ### the preamble text, split at the parser's patterns -/

def pre1 : Bytes := Gen.textPre.take (Gen.textPre.length - Gen.versionStart.length)
def mid1 : Bytes := (Gen.textMid.drop Gen.versionEnd.length).take
  (Gen.textMid.length - Gen.versionEnd.length - Gen.payloadStart.length)
def post1 : Bytes := Gen.textPost.drop Gen.payloadEnd.length
/-- what the parser sees of the text after the payload size: `header[4..text_len]` ends 4 bytes early -/
def post1' : Bytes := post1.take (post1.length - 4)

theorem textPre_split : Gen.textPre = pre1 ++ Gen.versionStart := by decide +kernel
theorem textMid_split : Gen.textMid = Gen.versionEnd ++ (mid1 ++ Gen.payloadStart) := by decide +kernel
theorem textPost_split : Gen.textPost = Gen.payloadEnd ++ post1 := by decide +kernel
theorem post1_len : 4 ≤ post1.length := by decide +kernel
theorem version_digits : natDigits Gen.version = [49] := by
  rw [natDigits]; simp [Gen.version]

/-- everything in front of the payload-size digits -/
def A4 : Bytes := pre1 ++ (Gen.versionStart ++ ([49] ++ (Gen.versionEnd ++ (mid1 ++ Gen.payloadStart))))

theorem no_earlier_versionStart :
    ∀ j < pre1.length, Gen.versionStart.isPrefixOf ((pre1 ++ Gen.versionStart).drop j) = false := by decide +kernel
theorem no_earlier_versionEnd :
    ∀ j < (pre1 ++ (Gen.versionStart ++ [49])).length,
      Gen.versionEnd.isPrefixOf (((pre1 ++ (Gen.versionStart ++ [49])) ++ Gen.versionEnd).drop j) = false := by decide +kernel
theorem no_earlier_payloadStart :
    ∀ j < (pre1 ++ (Gen.versionStart ++ ([49] ++ (Gen.versionEnd ++ mid1)))).length,
      Gen.payloadStart.isPrefixOf (((pre1 ++ (Gen.versionStart ++ ([49] ++ (Gen.versionEnd ++ mid1)))) ++ Gen.payloadStart).drop j) = false := by
  decide +kernel
/-- `payloadEnd` does not occur in the literal text before the digits (windows that fit) -/
theorem no_earlier_payloadEnd_lit :
    ∀ j < A4.length, Gen.payloadEnd.length ≤ A4.length - j → Gen.payloadEnd.isPrefixOf (A4.drop j) = false := by
  decide +kernel
theorem payloadEnd_nondigit : ∀ k < Gen.payloadEnd.length, ∀ c, Gen.payloadEnd[k]? = some c → ¬ isDigit c := by
  unfold isDigit; decide +kernel
theorem lit_ascii : (∀ c ∈ A4, c.toNat < 128) ∧ (∀ c ∈ Gen.payloadEnd ++ post1', c.toNat < 128) := by
  constructor <;> decide +kernel

end BS.Impl

namespace BS.Impl
open BS

theorem slice_mid (X M R : Bytes) : ((X ++ (M ++ R)).take (X.length + M.length)).drop X.length = M := by
  rw [← List.append_assoc, List.take_append_of_le_length (by simp)]
  rw [show X.length + M.length = (X ++ M).length by simp, List.take_length]
  simp

/-- the text the parser looks at, for payload size `p` -/
def seenText (p : Nat) : Bytes :=
  pre1 ++ (Gen.versionStart ++ ([49] ++ (Gen.versionEnd ++ (mid1 ++ (Gen.payloadStart ++
    (natDigits p ++ (Gen.payloadEnd ++ post1')))))))

theorem seenText_A4 (p : Nat) : seenText p = A4 ++ (natDigits p ++ (Gen.payloadEnd ++ post1')) := by
  simp [seenText, A4, List.append_assoc]

/-- the full text `to_text` writes (without its length prefix) -/
def fullText (p : Nat) : Bytes :=
  Gen.textPre ++ natDigits Gen.version ++ Gen.textMid ++ natDigits p ++ Gen.textPost

theorem fullText_eq (p : Nat) : fullText p = A4 ++ (natDigits p ++ (Gen.payloadEnd ++ post1)) := by
  unfold fullText
  rw [version_digits, textPre_split, textMid_split, textPost_split]
  simp [A4, List.append_assoc]

theorem take_but4 (X P : Bytes) (h : 4 ≤ P.length) :
    (X ++ P).take ((X ++ P).length - 4) = X ++ P.take (P.length - 4) := by
  have hlen : (X ++ P).length - 4 = X.length + (P.length - 4) := by
    simp only [List.length_append]; omega
  rw [hlen, List.take_append, List.take_of_length_le (by omega)]
  congr 1
  rw [show X.length + (P.length - 4) - X.length = P.length - 4 by omega]

theorem fullText_take (p : Nat) : (fullText p).take ((fullText p).length - 4) = seenText p := by
  rw [fullText_eq, seenText_A4]
  have := take_but4 (A4 ++ (natDigits p ++ Gen.payloadEnd)) post1 post1_len
  simp only [List.append_assoc] at this
  rw [this]
  rfl

theorem find_versionStart (p : Nat) : findSub Gen.versionStart (seenText p) = some pre1.length := by
  unfold seenText
  exact findSub_lit _ _ _ no_earlier_versionStart

theorem find_versionEnd (p : Nat) :
    findSub Gen.versionEnd (seenText p) = some (pre1.length + Gen.versionStart.length + 1) := by
  have : seenText p = (pre1 ++ (Gen.versionStart ++ [49])) ++ (Gen.versionEnd ++ (mid1 ++ (Gen.payloadStart ++
      (natDigits p ++ (Gen.payloadEnd ++ post1'))))) := by simp [seenText, List.append_assoc]
  rw [this, findSub_lit _ _ _ no_earlier_versionEnd]
  simp [Nat.add_assoc]

theorem find_payloadStart (p : Nat) : findSub Gen.payloadStart (seenText p) =
    some (A4.length - Gen.payloadStart.length) := by
  have : seenText p = (pre1 ++ (Gen.versionStart ++ ([49] ++ (Gen.versionEnd ++ mid1)))) ++ (Gen.payloadStart ++
      (natDigits p ++ (Gen.payloadEnd ++ post1'))) := by simp [seenText, List.append_assoc]
  rw [this, findSub_lit _ _ _ no_earlier_payloadStart]
  simp only [A4, List.length_append, List.length_cons, List.length_nil, Option.some.injEq]
  omega

/-- the end pattern of the payload size is first found right after the digits, whatever they are -/
theorem find_payloadEnd (p : Nat) :
    findSub Gen.payloadEnd (seenText p) = some (A4.length + (natDigits p).length) := by
  rw [seenText_A4, ← List.append_assoc]
  rw [findSub_at Gen.payloadEnd (A4 ++ natDigits p) (Gen.payloadEnd ++ post1') ?_ (isPrefixOf_self_append _ _)]
  · simp
  · intro j hj
    -- a window overlapping the digits holds a digit where the pattern has none
    have hdig := natDigits_digits p
    have hne := natDigits_ne_nil p
    by_cases hfit : j < A4.length ∧ Gen.payloadEnd.length ≤ A4.length - j
    · -- entirely inside the literal text
      have := no_earlier_payloadEnd_lit j hfit.1 hfit.2
      rw [List.drop_append_of_le_length (by omega), List.append_assoc,
        isPrefixOf_append_right _ _ _ (by simp; omega)]
      exact this
    · -- overlaps the digits: position `k` of the window is a digit
      cases hpre : Gen.payloadEnd.isPrefixOf (List.drop j (A4 ++ natDigits p) ++ (Gen.payloadEnd ++ post1')) with
      | false => rfl
      | true =>
        exfalso
        let k := A4.length - j
        have hk : k < Gen.payloadEnd.length := by
          show A4.length - j < _
          by_cases hjl : j < A4.length
          · have := hfit; simp only [hjl, true_and, Nat.not_le] at this; exact this
          · have : A4.length - j = 0 := by omega
            rw [this]; decide
        obtain ⟨c, hc⟩ : ∃ c, Gen.payloadEnd[k]? = some c := by
          cases h : Gen.payloadEnd[k]? with
          | some c => exact ⟨c, rfl⟩
          | none => rw [List.getElem?_eq_none_iff] at h; omega
        have hwin := isPrefixOf_getElem _ _ k c hpre hc
        -- the window's element k is element (j + k - A4.length) of the digits
        have hlen : (A4 ++ natDigits p).length = A4.length + (natDigits p).length := by simp
        have hj' : j < A4.length + (natDigits p).length := by rw [← hlen]; exact hj
        have hdpos : 0 < (natDigits p).length := List.length_pos_iff.mpr hne
        have hget : (List.drop j (A4 ++ natDigits p) ++ (Gen.payloadEnd ++ post1'))[k]? =
            (natDigits p)[j + k - A4.length]? := by
          rw [List.getElem?_append_left (by
            rw [List.length_drop, hlen]; show A4.length - j < _; omega)]
          rw [List.getElem?_drop, List.getElem?_append_right (by show A4.length ≤ j + (A4.length - j); omega)]
        rw [hget] at hwin
        have hmem : c ∈ natDigits p := List.mem_of_getElem? hwin
        exact payloadEnd_nondigit k hk c hc (hdig c hmem)

end BS.Impl

namespace BS.Impl
open BS

theorem parse_version (p : Nat) :
    parseBetween Gen.versionStart Gen.versionEnd (seenText p) 65535 = .ok Gen.version := by
  unfold parseBetween
  rw [find_versionStart, find_versionEnd]
  simp only
  have hlt : ¬ (pre1.length + Gen.versionStart.length + 1 < pre1.length + Gen.versionStart.length) := by omega
  simp only [hlt, if_false]
  have hsl : ((seenText p).take (pre1.length + Gen.versionStart.length + 1)).drop (pre1.length + Gen.versionStart.length)
      = natDigits Gen.version := by
    have : seenText p = (pre1 ++ Gen.versionStart) ++ ([49] ++ (Gen.versionEnd ++ (mid1 ++ (Gen.payloadStart ++
        (natDigits p ++ (Gen.payloadEnd ++ post1')))))) := by simp [seenText, List.append_assoc]
    rw [this, version_digits]
    have := slice_mid (pre1 ++ Gen.versionStart) [49] (Gen.versionEnd ++ (mid1 ++ (Gen.payloadStart ++
        (natDigits p ++ (Gen.payloadEnd ++ post1')))))
    simpa using this
  rw [hsl, parseDec_natDigits 65535 Gen.version (by decide)]

theorem parse_payload (p : Nat) (hp : p ≤ u64Max) :
    parseBetween Gen.payloadStart Gen.payloadEnd (seenText p) u64Max = .ok p := by
  unfold parseBetween
  rw [find_payloadStart, find_payloadEnd]
  simp only
  have hps : Gen.payloadStart.length ≤ A4.length := by
    simp only [A4, List.length_append]; omega
  have hs : A4.length - Gen.payloadStart.length + Gen.payloadStart.length = A4.length := by omega
  rw [hs]
  have hlt : ¬ (A4.length + (natDigits p).length < A4.length) := by omega
  simp only [hlt, if_false]
  have hsl : ((seenText p).take (A4.length + (natDigits p).length)).drop A4.length = natDigits p := by
    rw [seenText_A4]; exact slice_mid _ _ _
  rw [hsl, parseDec_natDigits u64Max p hp]

theorem seenText_ascii (p : Nat) : (seenText p).any (fun c => decide (c.toNat ≥ 128)) = false := by
  rw [seenText_A4]
  rw [Bool.eq_false_iff]
  intro h
  rw [List.any_eq_true] at h
  obtain ⟨c, hc, hge⟩ := h
  simp only [decide_eq_true_eq] at hge
  simp only [List.mem_append] at hc
  rcases hc with hc | hc | hc
  · have := lit_ascii.1 c hc; omega
  · have := natDigits_digits p c hc; unfold isDigit at this; omega
  · have := lit_ascii.2 c (by simpa using hc); omega

theorem fullText_length_lt (p : Nat) (hp : p ≤ u64Max) : 4 ≤ (fullText p).length ∧ (fullText p).length < 256 ^ 4 := by
  have hd : (natDigits p).length ≤ 20 := natDigits_length_le 19 p (by unfold u64Max at hp; omega)
  rw [fullText_eq]
  have h1 : A4.length = 280 := by decide +kernel
  have h2 : (Gen.payloadEnd ++ post1).length = 936 := by decide +kernel
  simp only [List.length_append] at h2 ⊢
  omega

/-- **T10: the header round trip.**  What `to_text` + user header writes,
`check_and_split_off_user_header` reads back as exactly the payload size and the user
header — for every payload size a `usize` holds and every user header, whatever bytes it
contains — and it refuses any other demanded payload size with `PayloadSizeChanged`. -/
theorem header_roundtrip (p : Nat) (hp : p ≤ u64Max) (user : Bytes) (want : Option Nat) :
    checkAndSplitHeader (toText p ++ user) want =
      match want with
      | none => .ok (p, user)
      | some w => if p ≠ w then .error (.err "Parameters/PayloadSizeChanged") else .ok (p, user) := by
  have htext : toText p = leN 4 (fullText p).length ++ fullText p := rfl
  obtain ⟨hlen4, hlenlt⟩ := fullText_length_lt p hp
  have hleN : (leN 4 (fullText p).length).length = 4 := leN_length 4 _
  have htake4 : (toText p ++ user).take 4 = leN 4 (fullText p).length := by
    rw [htext, List.append_assoc]; exact List.take_left' hleN
  have hhlen : (toText p ++ user).length = 4 + (fullText p).length + user.length := by
    rw [htext]; simp only [List.length_append, hleN]
  have htextLen : unN ((toText p ++ user).take 4) = (fullText p).length := by
    rw [htake4, unN_leN 4 _ hlenlt]
  have hseen : ((toText p ++ user).take (fullText p).length).drop 4 = seenText p := by
    rw [htext, List.append_assoc, List.drop_take, List.drop_left' hleN,
      List.take_append_of_le_length (by omega)]
    exact fullText_take p
  have hrest : (toText p ++ user).drop ((fullText p).length + 4) = user := by
    rw [htext]
    exact List.drop_left' (by simp only [List.length_append, hleN]; omega)
  unfold checkAndSplitHeader
  have c1 : ¬ (toText p ++ user).length < 4 := by omega
  simp only [c1, if_false, htextLen]
  have c2 : ¬ (fullText p).length > (toText p ++ user).length := by omega
  have c3 : ¬ (fullText p).length < 4 := by omega
  simp only [c2, c3, if_false, hseen, seenText_ascii, Bool.false_eq_true, bind, Except.bind,
    parse_version, parse_payload p hp, ne_eq, not_true_eq_false, hrest]
  have c4 : ¬ (fullText p).length + 4 > (toText p ++ user).length := by omega
  cases want with
  | none => simp only [c4, if_false]
  | some w =>
    simp only
    by_cases hw : p = w
    · subst hw; simp only [ne_eq, not_true_eq_false, if_false, c4]
    · simp only [ne_eq, hw, not_false_eq_true, if_true]

end BS.Impl
