/-
  Totality (C19): in every state satisfying the session invariant — the empty series
  included — every query returns a value or an error, never a panic, for every argument.
-/
import BS.Proofs.ReadRange
import BS.Proofs.IndexOpen
import BS.Proofs.Paging

namespace BS.Impl
open BS

/-- on an empty series every seek is the range error `EmptyFile` -/
theorem seek_empty (hdr ihdr : Bytes) (dir : Dir) (s : Sess) (hinv : SessInv hdr ihdr dir s []) (region : Bytes)
    (sb eb : Bound) : apiSeek region s.d sb eb = .error (.err "InvalidRange/EmptyFile") := by
  have hent : s.d.entries = [] := by
    rw [hinv.data.entries]; simp [Spec.sections, Spec.sectionsFrom, toIEntries]
  unfold apiSeek roughPos checkedStartTime dataRange
  simp only [DataSess.view, hent, List.head?_nil, bind, Except.bind, pure, Except.pure, wrapErr]
  rfl

/-- **no query panics**, for any history (empty or not), any bounds, any `n` -/
theorem queries_total (hdr ihdr : Bytes) (dir : Dir) (s : Sess) (xs : List Entry)
    (hinv : SessInv hdr ihdr dir s xs)
    (hsize : (Spec.encode s.d.p xs).length / lineSize s.d.p ≤ 2^32) :
    (∀ sb eb, apiReadAll dir s sb eb ≠ .error .panic) ∧
    (∀ n sb eb, apiReadFirstN dir s n sb eb ≠ .error .panic) ∧
    (∀ n sb eb, apiReadN dir s n sb eb ≠ .error .panic) ∧
    (∀ sb eb, apiNLines dir s sb eb ≠ .error .panic) ∧
    (∀ sb eb, apiReadFirstN dir s 0 sb eb = .ok []) ∧
    (∀ sb eb, apiReadN dir s 0 sb eb = .ok []) ∧
    dataLenLines s.d = .ok xs.length ∧
    lastLineOf (mainRegion dir s) s.d s.cb ≠ .error .panic := by
  have hlen := len_spec hdr ihdr dir s xs hinv
  have hfn0 : ∀ sb eb, apiReadFirstN dir s 0 sb eb = .ok [] := by
    intro sb eb; unfold apiReadFirstN; simp [pure, Except.pure]
  have hrn0 : ∀ sb eb, apiReadN dir s 0 sb eb = .ok [] := by
    intro sb eb; unfold apiReadN
    simp [hinv.nocache, pure, Except.pure, bind, Except.bind, lensSorted]
  cases xs with
  | nil =>
    have hseek := seek_empty hdr ihdr dir s hinv
    refine ⟨?_, ?_, ?_, ?_, hfn0, hrn0, hlen, ?_⟩
    · intro sb eb; unfold apiReadAll
      simp [hseek, bind, Except.bind]
    · intro n sb eb; unfold apiReadFirstN
      by_cases hn : n = 0
      · simp [hn, pure, Except.pure]
      · simp [hn, hseek, bind, Except.bind]
    · intro n sb eb; unfold apiReadN
      by_cases hn : n = 0
      · simp [hn, hinv.nocache, pure, Except.pure, bind, Except.bind, lensSorted]
      · simp [hn, hinv.nocache, pure, Except.pure, bind, Except.bind, selectLevel, selectLevel.go, levelData, readNTail, lensSorted, hseek]
    · intro sb eb; unfold apiNLines; rw [hseek]; simp
    · unfold lastLineOf
      have : s.d.lastFull = none := by rw [hinv.data.lastFull]; rfl
      simp [this]
  | cons e es =>
    refine ⟨?_, ?_, ?_, ?_, hfn0, hrn0, hlen, ?_⟩
    · intro sb eb
      rcases readAll_range hdr ihdr dir s e es hinv sb eb with h | ⟨_, c, h⟩ <;> rw [h] <;> simp
    · intro n sb eb
      by_cases hn : n = 0
      · subst hn; rw [hfn0]; simp
      · rcases readFirstN_range hdr ihdr dir s e es hinv n (by omega) sb eb with h | ⟨_, c, h⟩ <;> rw [h] <;> simp
    · intro n sb eb
      by_cases hn : n = 0
      · subst hn; rw [hrn0]; simp
      · rcases readN_range_nocache hdr ihdr dir s e es hinv n (by omega) sb eb hsize with ⟨b, _, h, _⟩ | ⟨_, c, h⟩ <;>
          rw [h] <;> simp
    · intro sb eb
      rcases nLines_range hdr ihdr dir s e es hinv sb eb with ⟨_, h | ⟨c, h⟩⟩ | ⟨_, m, _, h⟩ <;> rw [h] <;> simp
    · -- the last line
      obtain ⟨ys, l, hys⟩ : ∃ ys l, e :: es = ys ++ [l] :=
        ⟨(e :: es).dropLast, (e :: es).getLast (by simp), (List.dropLast_concat_getLast (by simp)).symm⟩
      have hregion : mainRegion dir s = Spec.encode s.d.p (e :: es) := by
        unfold mainRegion Store.region
        rw [hinv.data.data, hinv.data.hdrLen]; simp
      rw [hregion, hys]
      have hv := hinv.valid
      rw [hys] at hv
      rw [lastLine_canonical s.d.p ys l hv s.cb s.d rfl (by rw [← hys]; exact hinv.data.dataLen)
        (by rw [← hys]; exact hinv.data.lastFull)]
      simp

end BS.Impl
