/-
  T7 assembled: under the session invariant `read_all(range)` returns exactly the entries
  inside the bounds, for every pair of bounds.
-/
import BS.Proofs.Seek

namespace BS.Impl

open Spec in
/-- the model's bounds are the specification's bounds -/
def toSpecBound : Bound → Spec.Bound
  | .incl t => .incl t
  | .excl t => .excl t
  | .unb => .unb

theorem encFrom_cons_length_ge (p : Nat) (full : Option Nat) (x : Entry) (rest : List Entry) (hx : x.pl.length = p) :
    lineSize p ≤ (Spec.encFrom p full (x :: rest)).length := by
  match full with
  | none =>
    simp only [Spec.encFrom, List.length_append, encLine_length, hx, lineSize]; omega
  | some f =>
    simp only [Spec.encFrom]
    split
    · simp only [List.length_append, encLine_length, hx, lineSize]; omega
    · simp only [List.length_append, encLine_length, hx, lineSize]; omega

theorem offA_strict (p : Nat) (xs : List Entry) (hv : Valid p xs) (i j : Nat) (hij : i < j) (hj : j ≤ xs.length) :
    offA p xs i + lineSize p ≤ offA p xs j := by
  have hreg := congrArg List.length (region_between p xs i j (Nat.le_of_lt hij) hj)
  have hmono := offA_mono p xs i j (Nat.le_of_lt hij)
  have hle := offA_le_length p xs j
  rw [List.length_take, List.length_drop] at hreg
  have hilt : i < xs.length := by omega
  have hmid : (xs.drop i).take (j - i) = xs[i] :: (xs.drop (i + 1)).take (j - i - 1) := by
    rw [List.drop_eq_getElem_cons hilt]
    have : j - i = (j - i - 1) + 1 := by omega
    rw [this, List.take_succ_cons]; simp
  rw [hmid] at hreg
  have := encFrom_cons_length_ge p (fullAt xs i) xs[i] ((xs.drop (i + 1)).take (j - i - 1))
    ((hv.2 _ (List.getElem_mem hilt)).2)
  omega

theorem offA_strict_B (p : Nat) (xs : List Entry) (hv : Valid p xs) (i j : Nat) (hij : i < j) (hj : j ≤ xs.length)
    (e : Entry) (hopen : Opens xs i e) :
    offA p xs i + metaSize p + lineSize p ≤ offA p xs j := by
  obtain ⟨hbytes, hle⟩ := region_between_B p xs i j hij hj e hopen
  have hlen := congrArg List.length hbytes
  rw [List.length_take, List.length_drop] at hlen
  have hle2 := offA_le_length p xs j
  have hilt : i < xs.length := by omega
  have hmid : (xs.drop i).take (j - i) = xs[i] :: (xs.drop (i + 1)).take (j - i - 1) := by
    rw [List.drop_eq_getElem_cons hilt]
    have : j - i = (j - i - 1) + 1 := by omega
    rw [this, List.take_succ_cons]; simp
  rw [hmid] at hlen
  have := encFrom_cons_length_ge p (some e.ts) xs[i] ((xs.drop (i + 1)).take (j - i - 1))
    ((hv.2 _ (List.getElem_mem hilt)).2)
  omega

/-- in a sorted list, the entries from index `i` on are not older than the entry at `i` -/
theorem drop_ge_of_get (xs : List Entry) (hs : Sorted xs) (i : Nat) (a : Nat)
    (h : ∀ x, xs[i]? = some x → a ≤ x.ts) : ∀ y ∈ xs.drop i, a ≤ y.ts := by
  intro y hy
  obtain ⟨n, hn⟩ := List.getElem?_of_mem hy
  rw [List.getElem?_drop] at hn
  by_cases h0 : n = 0
  · subst h0; exact h y (by simpa using hn)
  · have hi : i < xs.length := by
      have := (List.getElem?_eq_some_iff.mp hn).1; omega
    have := sorted_get_lt xs hs i (i + n) xs[i] y (by omega) (List.getElem?_eq_getElem hi) hn
    have := h xs[i] (List.getElem?_eq_getElem hi)
    omega

theorem drop_gt_of_get (xs : List Entry) (hs : Sorted xs) (j : Nat) (b : Nat)
    (h : ∀ x, xs[j]? = some x → b < x.ts) : ∀ y ∈ xs.drop j, b < y.ts := by
  intro y hy
  obtain ⟨n, hn⟩ := List.getElem?_of_mem hy
  rw [List.getElem?_drop] at hn
  by_cases h0 : n = 0
  · subst h0; exact h y (by simpa using hn)
  · have hj : j < xs.length := by
      have := (List.getElem?_eq_some_iff.mp hn).1; omega
    have := sorted_get_lt xs hs j (j + n) xs[j] y (by omega) (List.getElem?_eq_getElem hj) hn
    have := h xs[j] (List.getElem?_eq_getElem hj)
    omega

/-- the entries between the two boundaries are exactly those within `[a, b]` -/
theorem filter_between (xs : List Entry) (hs : Sorted xs) (a b i j : Nat)
    (hi1 : ∀ x ∈ xs.take i, x.ts < a) (hi2 : ∀ x, xs[i]? = some x → a ≤ x.ts)
    (hj1 : ∀ x ∈ xs.take j, x.ts ≤ b) (hj2 : ∀ x, xs[j]? = some x → b < x.ts) :
    xs.filter (fun x => decide (a ≤ x.ts) && decide (x.ts ≤ b)) = (xs.drop i).take (j - i) := by
  have hge := drop_ge_of_get xs hs i a hi2
  have hgt := drop_gt_of_get xs hs j b hj2
  have hsplit : xs = xs.take i ++ xs.drop i := (List.take_append_drop i xs).symm
  conv => lhs; rw [hsplit]
  rw [List.filter_append]
  have h1 : (xs.take i).filter (fun x => decide (a ≤ x.ts) && decide (x.ts ≤ b)) = [] := by
    rw [List.filter_eq_nil_iff]
    intro x hx
    have := hi1 x hx
    simp; omega
  rw [h1, List.nil_append]
  by_cases hij : j ≤ i
  · have : j - i = 0 := by omega
    rw [this, List.take_zero, List.filter_eq_nil_iff]
    intro x hx
    have hxj : x ∈ xs.drop j := by
      have : xs.drop i = (xs.drop j).drop (i - j) := by rw [List.drop_drop]; congr 1; omega
      rw [this] at hx
      exact List.mem_of_mem_drop hx
    have := hgt x hxj
    simp; omega
  · have hsplit2 : xs.drop i = (xs.drop i).take (j - i) ++ xs.drop j := by
      have : xs.drop j = (xs.drop i).drop (j - i) := by rw [List.drop_drop]; congr 1; omega
      rw [this, List.take_append_drop]
    conv => lhs; rw [hsplit2]
    rw [List.filter_append]
    have h2 : (xs.drop j).filter (fun x => decide (a ≤ x.ts) && decide (x.ts ≤ b)) = [] := by
      rw [List.filter_eq_nil_iff]
      intro x hx
      have := hgt x hx
      simp; omega
    rw [h2, List.append_nil, List.filter_eq_self]
    intro x hx
    have hxa := hge x (List.mem_of_mem_take hx)
    have hxb : x.ts ≤ b := by
      apply hj1
      -- x is among the first j entries
      have : (xs.drop i).take (j - i) = (xs.take j).drop i := by
        rw [List.drop_take]
      rw [this] at hx
      exact List.mem_of_mem_drop hx
    simp [hxa, hxb]

end BS.Impl

namespace BS.Impl

def inRange (a b : Nat) (x : Entry) : Bool := decide (a ≤ x.ts) && decide (x.ts ≤ b)

/-- **core of T7**: a correct start and a correct end bracket exactly the entries in `[a, b]` -/
theorem read_between_ok (p : Nat) (xs : List Entry) (hv : Valid p xs) (a b Bs Be sf : Nat)
    (hS : StartOK p xs a Bs sf) (hE : EndOK p xs b Be) :
    (Be ≤ Bs → xs.filter (inRange a b) = []) ∧
    (Bs < Be → ∀ {σ : Type} (cb : Option Bool) (proc : σ → Nat → Bytes → PRes σ) (ps : σ),
        readRegion p cb proc ps (Spec.encode p xs) Bs Be sf = foldProc proc ps (xs.filter (inRange a b))) := by
  obtain ⟨i, hile, hi1, hi2, hBs⟩ := hS
  obtain ⟨j, hjle, hj1, hj2, hBe⟩ := hE
  have hfilter := filter_between xs hv.1 a b i j hi1 hi2 hj1 hj2
  have hfun : (fun x : Entry => decide (a ≤ x.ts) && decide (x.ts ≤ b)) = inRange a b := rfl
  rw [hfun] at hfilter
  subst hBe
  constructor
  · intro hle
    rw [hfilter]
    have hji : j ≤ i := by
      rcases Nat.lt_or_ge i j with hij | hij
      · exfalso
        rcases hBs with ⟨rfl, _⟩ | ⟨e, hopen, rfl, _⟩
        · have := offA_strict p xs hv i j hij hjle
          have := lineSize_pos p; omega
        · have := offA_strict_B p xs hv i j hij hjle e hopen
          have := lineSize_pos p; omega
      · exact hij
    have : j - i = 0 := by omega
    rw [this, List.take_zero]
  · intro hlt σ cb proc ps
    have hij : i < j := by
      rcases Nat.lt_or_ge i j with hij | hij
      · exact hij
      · exfalso
        have hmono := offA_mono p xs j i hij
        rcases hBs with ⟨rfl, _⟩ | ⟨e, hopen, rfl, _⟩ <;> omega
    rw [hfilter]
    rcases hBs with ⟨rfl, hfull⟩ | ⟨e, hopen, rfl, rfl⟩
    · exact readRegion_between p cb proc ps xs hv i j (Nat.le_of_lt hij) hjle sf hfull
    · exact readRegion_between_B p cb proc ps xs hv i j hij hjle e hopen

end BS.Impl

namespace BS.Impl

/-! ### the bounds -/

def startOf (sb : Bound) (first : Nat) : Option Nat :=
  match sb with
  | .incl t => some (max t first)
  | .excl t => if t + 1 < 2^64 then some (max (t + 1) first) else none
  | .unb => some first

def endOf (eb : Bound) (last : Nat) : Option Nat :=
  match eb with
  | .incl t => some (min t last)
  | .excl t => if t = 0 then none else some (min (t - 1) last)
  | .unb => some last

theorem checkedStartTime_eq (v : DataView) (first last : Nat) (hr : dataRange v = .ok (some (first, last)))
    (hfl : first ≤ last) (sb : Bound) :
    checkedStartTime v sb =
      match startOf sb first with
      | none => .error (.err "StartAfterData")
      | some a => if a > last then .error (.err "StartAfterData") else .ok a := by
  unfold checkedStartTime startOf
  simp only [hr, bind, Except.bind, pure, Except.pure]
  cases sb with
  | incl t => simp
  | excl t => by_cases h : t + 1 < 2^64 <;> simp [h]
  | unb =>
    have : ¬ (max first first > last) := by simp; omega
    simp [this]

theorem checkedEndTime_eq (v : DataView) (first last : Nat) (hr : dataRange v = .ok (some (first, last)))
    (hfl : first ≤ last) (eb : Bound) :
    checkedEndTime v eb =
      match endOf eb last with
      | none => .error (.err "StopBeforeData")
      | some b => if b < first then .error (.err "StopBeforeData") else .ok b := by
  unfold checkedEndTime endOf
  simp only [hr, bind, Except.bind, pure, Except.pure]
  cases eb with
  | incl t => simp
  | excl t => by_cases h : t = 0 <;> simp [h]
  | unb =>
    have : ¬ (min last last < first) := by simp; omega
    simp [this]

/-- for entries between `first` and `last` the bound tests are the clamped comparisons -/
theorem okStart_iff (sb : Bound) (first x : Nat) (hx : first ≤ x) (hx64 : x < 2^64) :
    (toSpecBound sb).okStart x = match startOf sb first with
      | none => false
      | some a => decide (a ≤ x) := by
  cases sb with
  | incl t => simp [toSpecBound, Spec.Bound.okStart, startOf]; omega
  | excl t =>
    by_cases h : t + 1 < 2^64
    · simp [toSpecBound, Spec.Bound.okStart, startOf, h]; omega
    · simp [toSpecBound, Spec.Bound.okStart, startOf, h]; omega
  | unb => simp [toSpecBound, Spec.Bound.okStart, startOf, hx]

theorem okEnd_iff (eb : Bound) (last x : Nat) (hx : x ≤ last) :
    (toSpecBound eb).okEnd x = match endOf eb last with
      | none => false
      | some b => decide (x ≤ b) := by
  cases eb with
  | incl t => simp [toSpecBound, Spec.Bound.okEnd, endOf]; omega
  | excl t =>
    by_cases h : t = 0
    · simp [toSpecBound, Spec.Bound.okEnd, endOf, h]
    · simp [toSpecBound, Spec.Bound.okEnd, endOf, h]; omega
  | unb => simp [toSpecBound, Spec.Bound.okEnd, endOf, hx]

end BS.Impl

namespace BS.Impl

theorem seekCtx_of_inv (hdr ihdr : Bytes) (dir : Dir) (s : Sess) (xs : List Entry)
    (hinv : SessInv hdr ihdr dir s xs) : SeekCtx s.d.p xs s.d.view := by
  refine ⟨hinv.valid, rfl, hinv.data.dataLen, ?_⟩
  show s.d.entries = _
  rw [hinv.data.entries]
  unfold Spec.sections
  rw [sections_groups]

theorem getLast_ge (e : Entry) (es : List Entry) (hs : Sorted (e :: es)) :
    ∀ x ∈ e :: es, e.ts ≤ x.ts ∧ x.ts ≤ ((e :: es).getLast (by simp)).ts := by
  intro x hx
  constructor
  · simp only [List.mem_cons] at hx
    rcases hx with rfl | hx
    · exact Nat.le_refl _
    · exact Nat.le_of_lt ((List.pairwise_cons.mp hs).1 x hx)
  · obtain ⟨n, hn⟩ := List.getElem?_of_mem hx
    have hlen : n < (e :: es).length := (List.getElem?_eq_some_iff.mp hn).1
    have hlast : (e :: es)[(e :: es).length - 1]? = some ((e :: es).getLast (by simp)) := by
      rw [List.getLast_eq_getElem]; exact List.getElem?_eq_getElem (by simp)
    by_cases hnl : n = (e :: es).length - 1
    · rw [hnl, hlast] at hn; cases hn; exact Nat.le_refl _
    · exact Nat.le_of_lt (sorted_get_lt _ hs n _ x _ (by omega) hn hlast)

theorem refineStart_only (v : DataView) (d : Bytes) (r r' : RoughPos) (h1 : r.startTs = r'.startTs)
    (h2 : r.startArea = r'.startArea) (h3 : r.startFull = r'.startFull) : refineStart v d r = refineStart v d r' := by
  unfold refineStart; rw [h1, h2, h3]

theorem refineEnd_only (v : DataView) (d : Bytes) (r r' : RoughPos) (h1 : r.endTs = r'.endTs)
    (h2 : r.endArea = r'.endArea) (h3 : r.endFull = r'.endFull) : refineEnd v d r = refineEnd v d r' := by
  unfold refineEnd; rw [h1, h2, h3]

/-- start area for any start bound (including the unbounded one) -/
theorem start_any (hdr ihdr : Bytes) (dir : Dir) (s : Sess) (e : Entry) (es : List Entry)
    (hinv : SessInv hdr ihdr dir s (e :: es)) (sb : Bound) (a : Nat) (hso : startOf sb e.ts = some a)
    (hal : a ≤ ((e :: es).getLast (by simp)).ts) :
    ∃ sa sf Bs,
      startAreaOf s.d.view sb a = .ok (sa, sf) ∧
      StartOK s.d.p (e :: es) a Bs sf ∧
      ∀ r : RoughPos, r.startTs = a → r.startArea = sa → r.startFull = sf →
        refineStart s.d.view (Spec.encode s.d.p (e :: es)) r = .ok Bs := by
  have ctx := seekCtx_of_inv hdr ihdr dir s (e :: es) hinv
  have hv := hinv.valid
  have hlastmem : ((e :: es).getLast (by simp)) ∈ e :: es := List.getLast_mem _
  have hafirst : e.ts ≤ a := by
    cases sb with
    | incl t => simp [startOf] at hso; omega
    | excl t =>
      simp only [startOf] at hso
      split at hso
      · simp at hso; omega
      · simp at hso
    | unb => simp [startOf] at hso; omega
  have hgen : ∃ sa sf Bs, startSearchBounds s.d.view a = .ok (sa, sf) ∧
      StartOK s.d.p (e :: es) a Bs sf ∧
      ∀ r : RoughPos, r.startTs = a → r.startArea = sa → r.startFull = sf →
        refineStart s.d.view (Spec.encode s.d.p (e :: es)) r = .ok Bs := by
    obtain ⟨sa, sf, Bs, h1, h2, h3⟩ := start_correct s.d.p (e :: es) s.d.view ctx a
      (by intro x hx; simp at hx; subst hx; exact hafirst) ⟨_, hlastmem, hal⟩ 0 (.found 0) 0
    refine ⟨sa, sf, Bs, h1, h3, fun r r1 r2 r3 => ?_⟩
    rw [refineStart_only _ _ r ⟨a, sa, sf, 0, .found 0, 0⟩ r1 r2 r3]; exact h2
  cases sb with
  | incl t => exact hgen
  | excl t => exact hgen
  | unb =>
    obtain ⟨rest, hsec⟩ := sections_cons s.d.p e es
    have hent : s.d.entries = ⟨e.ts, 0⟩ :: toIEntries rest := by
      rw [hinv.data.entries, hsec]; simp [toIEntries]
    have ha : a = e.ts := by simp [startOf] at hso; omega
    subst ha
    refine ⟨.found (lineStart s.d.p 0), e.ts, metaSize s.d.p, by simp [startAreaOf, DataSess.view, hent], ?_, ?_⟩
    · refine ⟨0, by simp, by simp, ?_, Or.inr ⟨e, ⟨by simp, Or.inl (by simp [fullAt, lastFullFrom])⟩, ?_, rfl⟩⟩
      · intro x hx; simp at hx; subst hx; exact Nat.le_refl _
      · simp [offA, Spec.encode, Spec.encFrom]
    · intro r r1 r2 r3
      unfold refineStart; rw [r2]; simp [lineStart, pure, Except.pure]

/-- end area for any end bound (including the unbounded one) -/
theorem end_any (hdr ihdr : Bytes) (dir : Dir) (s : Sess) (e : Entry) (es : List Entry)
    (hinv : SessInv hdr ihdr dir s (e :: es)) (eb : Bound) (b : Nat)
    (heo : endOf eb ((e :: es).getLast (by simp)).ts = some b) (hbf : e.ts ≤ b) :
    ∃ ea ef Be,
      endAreaOf s.d.view eb b = .ok (ea, ef) ∧
      EndOK s.d.p (e :: es) b Be ∧
      ∀ r : RoughPos, r.endTs = b → r.endArea = ea → r.endFull = ef →
        refineEnd s.d.view (Spec.encode s.d.p (e :: es)) r = .ok Be := by
  have ctx := seekCtx_of_inv hdr ihdr dir s (e :: es) hinv
  have hv := hinv.valid
  have hbnd := getLast_ge e es hv.1
  have hlastmem : ((e :: es).getLast (by simp)) ∈ e :: es := List.getLast_mem _
  have hblast : b ≤ ((e :: es).getLast (by simp)).ts := by
    cases eb with
    | incl t => simp [endOf] at heo; omega
    | excl t =>
      simp only [endOf] at heo
      split at heo
      · simp at heo
      · simp at heo; omega
    | unb => simp [endOf] at heo; omega
  have hgen : ∃ ea ef Be, endSearchBounds s.d.view b = .ok (ea, ef) ∧
      EndOK s.d.p (e :: es) b Be ∧
      ∀ r : RoughPos, r.endTs = b → r.endArea = ea → r.endFull = ef →
        refineEnd s.d.view (Spec.encode s.d.p (e :: es)) r = .ok Be := by
    obtain ⟨ea, ef, Be, h1, h2, h3⟩ := end_correct s.d.p (e :: es) s.d.view ctx b
      (by intro x hx; simp at hx; subst hx; exact hbf) ⟨_, hlastmem, hblast⟩ 0 (.found 0) 0
    refine ⟨ea, ef, Be, h1, h3, fun r r1 r2 r3 => ?_⟩
    rw [refineEnd_only _ _ r ⟨0, .found 0, 0, b, ea, ef⟩ r1 r2 r3]; exact h2
  cases eb with
  | incl t => exact hgen
  | excl t => exact hgen
  | unb =>
    have hb : b = ((e :: es).getLast (by simp)).ts := by simp [endOf] at heo; omega
    obtain ⟨lf, hlf⟩ : ∃ lf, s.d.lastFull = some lf := by
      rw [hinv.data.lastFull]
      cases h : lastFullFrom none (e :: es) with
      | none => simp [lastFullFrom_none_iff] at h
      | some v => exact ⟨v, rfl⟩
    have hpl : ∀ x ∈ e :: es, x.pl.length = s.d.p := fun x hx => (hv.2 x hx).2
    have hlen := encode_length s.d.p (e :: es) hpl
    have hdl : s.d.dataLen = (Spec.encode s.d.p (e :: es)).length := hinv.data.dataLen
    have hge : lineSize s.d.p ≤ s.d.dataLen := by
      rw [hdl, hlen]; simp only [List.length_cons]; rw [Nat.mul_add]; omega
    refine ⟨.found (s.d.dataLen - lineSize s.d.p), lf, s.d.dataLen, ?_, ?_, ?_⟩
    · have : ¬ (s.d.dataLen < lineSize s.d.p) := by omega
      simp [endAreaOf, DataSess.view, hlf, this]
    · refine ⟨(e :: es).length, Nat.le_refl _, ?_, by simp, ?_⟩
      · intro x hx
        rw [List.take_length] at hx
        rw [hb]; exact (hbnd x hx).2
      · rw [hdl]; simp [offA]
    · intro r r1 r2 r3
      unfold refineEnd; rw [r2]
      simp only [pure, Except.pure, DataSess.view]
      congr 1; omega

/-- what `RoughPos::new(..)?.refine(..)?` yields for a pair of bounds -/
inductive SeekOutcome (p : Nat) (xs : List Entry) (want : List Entry) : R (Option Pos) → Prop where
  | rangeError (c : String) (hw : want = []) : SeekOutcome p xs want (.error (.err ("InvalidRange/" ++ c)))
  | nothing (hw : want = []) : SeekOutcome p xs want (.ok none)
  | pos (ps : Pos) (hlt : ps.start < ps.stop)
      (hread : ∀ {σ : Type} (cb : Option Bool) (proc : σ → Nat → Bytes → PRes σ) (st : σ),
        readRegion p cb proc st (Spec.encode p xs) ps.start ps.stop ps.firstFull = foldProc proc st want)
      (hlines : ∃ i j e, i < j ∧ j ≤ xs.length ∧ want = (xs.drop i).take (j - i) ∧ ps.stop = offA p xs j ∧
        ((ps.start = offA p xs i) ∨ (Opens xs i e ∧ ps.start = offA p xs i + metaSize p))) :
      SeekOutcome p xs want (.ok (some ps))

/-- **T7: the seek is correct for every pair of bounds** -/
theorem apiSeek_spec (hdr ihdr : Bytes) (dir : Dir) (s : Sess) (e : Entry) (es : List Entry)
    (hinv : SessInv hdr ihdr dir s (e :: es)) (sb eb : Bound) :
    SeekOutcome s.d.p (e :: es) (Spec.filterBounds (toSpecBound sb) (toSpecBound eb) (e :: es))
      (apiSeek (mainRegion dir s) s.d sb eb) := by
  have hv := hinv.valid
  have hbnd := getLast_ge e es hv.1
  have hregion : mainRegion dir s = Spec.encode s.d.p (e :: es) := by
    unfold mainRegion Store.region
    rw [hinv.data.data, hinv.data.hdrLen]; simp
  obtain ⟨rest, hsec⟩ := sections_cons s.d.p e es
  have hent : s.d.entries = ⟨e.ts, 0⟩ :: toIEntries rest := by
    rw [hinv.data.entries, hsec]; simp [toIEntries]
  have hlt : s.d.lastTime = some (((e :: es).getLast (by simp)).ts) := by
    rw [hinv.data.lastTime]; simp [List.getLast?_eq_getLast]
  have hrange : dataRange s.d.view = .ok (some (e.ts, ((e :: es).getLast (by simp)).ts)) := by
    unfold dataRange; simp [DataSess.view, hent, hlt]
  have hfl : e.ts ≤ ((e :: es).getLast (by simp)).ts := (hbnd e (by simp)).2
  have hwant : Spec.filterBounds (toSpecBound sb) (toSpecBound eb) (e :: es) =
      (e :: es).filter fun x =>
        (match startOf sb e.ts with | none => false | some a => decide (a ≤ x.ts)) &&
        (match endOf eb ((e :: es).getLast (by simp)).ts with | none => false | some b => decide (x.ts ≤ b)) := by
    unfold Spec.filterBounds
    apply List.filter_congr
    intro x hx
    rw [okStart_iff sb e.ts x.ts (hbnd x hx).1 (hv.2 x hx).1, okEnd_iff eb _ x.ts (hbnd x hx).2]
  unfold apiSeek roughPos
  rw [checkedStartTime_eq s.d.view _ _ hrange hfl sb, checkedEndTime_eq s.d.view _ _ hrange hfl eb]
  simp only [bind, Except.bind]
  cases hso : startOf sb e.ts with
  | none =>
    simp only [wrapErr]
    exact .rangeError "StartAfterData" (by rw [hwant, hso]; simp)
  | some a =>
    simp only
    by_cases ha : a > ((e :: es).getLast (by simp)).ts
    · simp only [ha, if_true, wrapErr]
      refine .rangeError "StartAfterData" ?_
      rw [hwant, hso, List.filter_eq_nil_iff]
      intro x hx
      have := (hbnd x hx).2
      simp; intro h; omega
    · simp only [ha, if_false]
      cases heo : endOf eb ((e :: es).getLast (by simp)).ts with
      | none =>
        simp only [wrapErr]
        exact .rangeError "StopBeforeData" (by rw [hwant, heo]; simp)
      | some b =>
        simp only
        by_cases hb : b < e.ts
        · simp only [hb, if_true, wrapErr]
          refine .rangeError "StopBeforeData" ?_
          rw [hwant, heo, List.filter_eq_nil_iff]
          intro x hx
          have := (hbnd x hx).1
          simp; intro _; omega
        · simp only [hb, if_false]
          by_cases hab : a > b
          · simp only [hab, if_true, wrapErr]
            refine .rangeError "StartBeforeStop" ?_
            rw [hwant, hso, heo, List.filter_eq_nil_iff]
            intro x hx
            simp; intro h; omega
          · simp only [hab, if_false]
            have hwant' : Spec.filterBounds (toSpecBound sb) (toSpecBound eb) (e :: es)
                = (e :: es).filter (inRange a b) := by
              rw [hwant, hso, heo]; rfl
            obtain ⟨sa, sf, Bs, hs1, hs2, hs3⟩ := start_any hdr ihdr dir s e es hinv sb a hso (by omega)
            obtain ⟨ea, ef, Be, he1, he2, he3⟩ := end_any hdr ihdr dir s e es hinv eb b heo (by omega)
            rw [hs1]
            simp only
            rw [he1]
            simp only [pure, Except.pure, refine, bind, Except.bind]
            rw [hregion, hs3 _ rfl rfl rfl, he3 _ rfl rfl rfl]
            simp only
            obtain ⟨hempty, hread⟩ := read_between_ok s.d.p (e :: es) hv a b Bs Be sf hs2 he2
            by_cases hle : Be ≤ Bs
            · simp only [hle, if_true]
              exact .nothing (by rw [hwant', hempty hle])
            · simp only [hle, if_false]
              refine .pos _ (by simp; omega) ?_ ?_
              · intro σ cb proc st
                rw [hwant']
                exact hread (by omega) cb proc st
              · -- the boundaries, for the line count
                obtain ⟨i, hile, hi1, hi2, hBs⟩ := hs2
                obtain ⟨j, hjle, hj1, hj2, hBe⟩ := he2
                have hfilter := filter_between (e :: es) hv.1 a b i j hi1 hi2 hj1 hj2
                have hij : i < j := by
                  rcases Nat.lt_or_ge i j with hij | hij
                  · exact hij
                  · exfalso
                    have hmono := offA_mono s.d.p (e :: es) j i hij
                    rcases hBs with ⟨rfl, _⟩ | ⟨e', hopen, rfl, _⟩ <;> omega
                rcases hBs with ⟨rfl, _⟩ | ⟨e', hopen, rfl, _⟩
                · exact ⟨i, j, e, hij, hjle, by rw [hwant']; exact hfilter, hBe, Or.inl rfl⟩
                · exact ⟨i, j, e', hij, hjle, by rw [hwant']; exact hfilter, hBe, Or.inr ⟨hopen, rfl⟩⟩

/-- **C02: a range read returns exactly the entries inside the bounds** (or, when there are
none, an empty result or a range error) -/
theorem readAll_range (hdr ihdr : Bytes) (dir : Dir) (s : Sess) (e : Entry) (es : List Entry)
    (hinv : SessInv hdr ihdr dir s (e :: es)) (sb eb : Bound) :
    apiReadAll dir s sb eb = .ok (Spec.filterBounds (toSpecBound sb) (toSpecBound eb) (e :: es)) ∨
    (Spec.filterBounds (toSpecBound sb) (toSpecBound eb) (e :: es) = [] ∧
      ∃ c, apiReadAll dir s sb eb = .error (.err ("InvalidRange/" ++ c))) := by
  have hregion : mainRegion dir s = Spec.encode s.d.p (e :: es) := by
    unfold mainRegion Store.region
    rw [hinv.data.data, hinv.data.hdrLen]; simp
  have hspec := apiSeek_spec hdr ihdr dir s e es hinv sb eb
  unfold apiReadAll
  simp only [bind, Except.bind, pure, Except.pure]
  generalize hseek : apiSeek (mainRegion dir s) s.d sb eb = r at hspec
  cases hspec with
  | rangeError c hw => right; exact ⟨hw, c, rfl⟩
  | nothing hw => left; simp [hw]
  | pos ps hlt hread _ =>
    left
    simp only
    unfold dataReadAll
    rw [hregion, hread s.cb collectProc {}]
    have hsub : (Spec.filterBounds (toSpecBound sb) (toSpecBound eb) (e :: es)).Sublist (e :: es) := by
      unfold Spec.filterBounds; exact List.filter_sublist
    obtain ⟨l, hl⟩ := fold_collect_init _ (sorted_sublist hsub hinv.valid.1)
    simp [hl]

/-- **C13: `read_first_n` over any range returns the first `min n k` entries of what `read_all` returns** -/
theorem readFirstN_range (hdr ihdr : Bytes) (dir : Dir) (s : Sess) (e : Entry) (es : List Entry)
    (hinv : SessInv hdr ihdr dir s (e :: es)) (n : Nat) (hn : 1 ≤ n) (sb eb : Bound) :
    apiReadFirstN dir s n sb eb = .ok ((Spec.filterBounds (toSpecBound sb) (toSpecBound eb) (e :: es)).take n) ∨
    (Spec.filterBounds (toSpecBound sb) (toSpecBound eb) (e :: es) = [] ∧
      ∃ c, apiReadFirstN dir s n sb eb = .error (.err ("InvalidRange/" ++ c))) := by
  have hregion : mainRegion dir s = Spec.encode s.d.p (e :: es) := by
    unfold mainRegion Store.region
    rw [hinv.data.data, hinv.data.hdrLen]; simp
  have hspec := apiSeek_spec hdr ihdr dir s e es hinv sb eb
  unfold apiReadFirstN
  have hn0 : ¬ n = 0 := by omega
  simp only [hn0, if_false, bind, Except.bind, pure, Except.pure]
  generalize hseek : apiSeek (mainRegion dir s) s.d sb eb = r at hspec
  cases hspec with
  | rangeError c hw => right; exact ⟨hw, c, rfl⟩
  | nothing hw => left; simp [hw]
  | pos ps hlt hread _ =>
    left
    simp only
    unfold dataReadFirstN
    rw [hregion, hread s.cb firstNProc { n := n }]
    have h := fold_firstN_out n hn (Spec.filterBounds (toSpecBound sb) (toSpecBound eb) (e :: es))
    obtain ⟨h1, h2⟩ := fold_firstN (Spec.filterBounds (toSpecBound sb) (toSpecBound eb) (e :: es)) { n := n } (by simp; omega)
    by_cases hlen : (Spec.filterBounds (toSpecBound sb) (toSpecBound eb) (e :: es)).length < n
    · rw [h1 (by simpa using hlen)]
      simp [List.take_of_length_le (Nat.le_of_lt hlen)]
    · rw [h2 (by simp; omega)]
      simp

end BS.Impl

namespace BS.Impl

theorem sectionsFrom_length_le (p : Nat) (xs : List Entry) : ∀ full off,
    (Spec.sectionsFrom p full off xs).length ≤ xs.length := by
  induction xs with
  | nil => intro full off; cases full <;> simp [Spec.sectionsFrom]
  | cons x xs ih =>
    intro full off
    match full with
    | none => simp only [Spec.sectionsFrom, List.length_cons]; have := ih (some x.ts) (off + Spec.secSize p + Spec.lineSize p); omega
    | some f =>
      simp only [Spec.sectionsFrom]
      split
      · simp only [List.length_cons]; have := ih (some f) (off + Spec.lineSize p); omega
      · simp only [List.length_cons]; have := ih (some x.ts) (off + Spec.secSize p + Spec.lineSize p); omega

/-- the byte length of a sought range: the lines of the selected entries plus the
sections they open (counted from the full timestamp `F` in effect at the start) -/
theorem pos_bytes (p : Nat) (xs : List Entry) (hv : Valid p xs) (want : List Entry) (ps : Pos)
    (hlines : ∃ i j e, i < j ∧ j ≤ xs.length ∧ want = (xs.drop i).take (j - i) ∧ ps.stop = offA p xs j ∧
      ((ps.start = offA p xs i) ∨ (Opens xs i e ∧ ps.start = offA p xs i + metaSize p))) :
    ∃ F, ps.stop - ps.start = lineSize p * want.length + metaSize p * (Spec.sectionsFrom p F 0 want).length := by
  obtain ⟨i, j, e, hij, hj, hw, hstop, hstart⟩ := hlines
  have hsub : want.Sublist xs := by rw [hw]; exact (List.take_sublist _ _).trans (List.drop_sublist _ _)
  have hpl : ∀ x ∈ want, x.pl.length = p := fun x hx => (hv.2 x (hsub.subset hx)).2
  rcases hstart with h | ⟨hopen, h⟩
  · refine ⟨fullAt xs i, ?_⟩
    have hreg := congrArg List.length (region_between p xs i j (Nat.le_of_lt hij) hj)
    rw [List.length_take, List.length_drop, ← hw, encFrom_length p want hpl (fullAt xs i) 0] at hreg
    have := offA_le_length p xs j
    have := offA_mono p xs i j (Nat.le_of_lt hij)
    rw [hstop, h]; omega
  · refine ⟨some e.ts, ?_⟩
    obtain ⟨hbytes, hle⟩ := region_between_B p xs i j hij hj e hopen
    have hreg := congrArg List.length hbytes
    rw [List.length_take, List.length_drop, ← hw, encFrom_length p want hpl (some e.ts) 0] at hreg
    have := offA_le_length p xs j
    rw [hstop, h]; omega

/-- **C14: the reported line count** is the number of lines a read returns plus
`lines_per_metainfo` for each section opened by one of those lines (the header of the
first line's own section is not counted when the read starts after it) -/
theorem nLines_range (hdr ihdr : Bytes) (dir : Dir) (s : Sess) (e : Entry) (es : List Entry)
    (hinv : SessInv hdr ihdr dir s (e :: es)) (sb eb : Bound) :
    let want := Spec.filterBounds (toSpecBound sb) (toSpecBound eb) (e :: es)
    (want = [] ∧ (apiNLines dir s sb eb = .ok 0 ∨ ∃ c, apiNLines dir s sb eb = .error (.err ("InvalidRange/" ++ c)))) ∨
    (want ≠ [] ∧ ∃ m, m ≤ want.length ∧ apiNLines dir s sb eb = .ok (want.length + lpm s.d.p * m)) := by
  intro want
  have hspec := apiSeek_spec hdr ihdr dir s e es hinv sb eb
  unfold apiNLines
  generalize hseek : apiSeek (mainRegion dir s) s.d sb eb = r at hspec
  cases hspec with
  | rangeError c hw =>
    left
    refine ⟨hw, ?_⟩
    split
    · left; rfl
    · rename_i f _ heq
      right
      simp only [Except.error.injEq] at heq
      exact ⟨c, by rw [← heq]⟩
    · rename_i heq; simp at heq
    · rename_i heq; simp at heq
  | nothing hw => left; exact ⟨hw, Or.inl rfl⟩
  | pos ps hlt hread hlines =>
    right
    have hne : want ≠ [] := by
      obtain ⟨i, j, _, hij, hj, hw, _, _⟩ := hlines
      intro h
      have hlen : (((e :: es).drop i).take (j - i)).length = 0 := by
        rw [← hw]; show want.length = 0; rw [h]; rfl
      rw [List.length_take, List.length_drop] at hlen
      omega
    refine ⟨hne, ?_⟩
    obtain ⟨F, hbytes⟩ := pos_bytes s.d.p (e :: es) hinv.valid want ps hlines
    refine ⟨(Spec.sectionsFrom s.d.p F 0 want).length, sectionsFrom_length_le _ _ _ _, ?_⟩
    simp only [Pos.lines, hbytes, metaSize]
    congr 1
    have hls := lineSize_pos s.d.p
    have : lineSize s.d.p * want.length + lpm s.d.p * lineSize s.d.p * (Spec.sectionsFrom s.d.p F 0 want).length
        = lineSize s.d.p * (want.length + lpm s.d.p * (Spec.sectionsFrom s.d.p F 0 want).length) := by
      rw [Nat.mul_add, Nat.mul_comm (lpm s.d.p) (lineSize s.d.p), Nat.mul_assoc]
    rw [this, Nat.mul_div_cancel_left _ hls]

end BS.Impl

namespace BS.Impl

/-- **C10: a resampling read without caches** returns the uniform bucket means of exactly the
lines a full read of the range returns, for one bucket size `b ≥ 1`, and at most `2n` of them -/
theorem readN_range_nocache (hdr ihdr : Bytes) (dir : Dir) (s : Sess) (e : Entry) (es : List Entry)
    (hinv : SessInv hdr ihdr dir s (e :: es)) (n : Nat) (hn : 1 ≤ n) (sb eb : Bound)
    (hsize : (Spec.encode s.d.p (e :: es)).length / lineSize s.d.p ≤ 2^32) :
    let want := Spec.filterBounds (toSpecBound sb) (toSpecBound eb) (e :: es)
    (∃ b, 1 ≤ b ∧ apiReadN dir s n sb eb = .ok (Spec.bucketMeans b (Spec.linMean s.d.p) want) ∧
        (Spec.bucketMeans b (Spec.linMean s.d.p) want).length ≤ 2 * n) ∨
    (want = [] ∧ ∃ c, apiReadN dir s n sb eb = .error (.err ("InvalidRange/" ++ c))) := by
  intro want
  have hregion : mainRegion dir s = Spec.encode s.d.p (e :: es) := by
    unfold mainRegion Store.region
    rw [hinv.data.data, hinv.data.hdrLen]; simp
  have hspec := apiSeek_spec hdr ihdr dir s e es hinv sb eb
  unfold apiReadN
  have hn0 : ¬ n = 0 := by omega
  simp only [hinv.nocache, List.mapM_nil, pure, Except.pure, bind, Except.bind, List.zip_nil_left, List.all_nil,
    Bool.not_true, Bool.false_eq_true, if_false, hn0, selectLevel, selectLevel.go, levelData, ↓reduceIte, readNTail,
    lensSorted]
  generalize hseek : apiSeek (mainRegion dir s) s.d sb eb = r at hspec
  cases hspec with
  | rangeError c hw => right; exact ⟨hw, c, rfl⟩
  | nothing hw =>
    left
    refine ⟨1, Nat.le_refl _, ?_, ?_⟩
    · show _ = Except.ok (Spec.bucketMeans 1 (Spec.linMean s.d.p) want)
      have : want = [] := hw
      rw [this, bucketMeans_short _ _ _ (by simp)]
    · have : want = [] := hw
      rw [this, bucketMeans_short _ _ _ (by simp)]; simp
  | pos ps hlt hread hlines =>
    left
    simp only
    obtain ⟨F, hbytes⟩ := pos_bytes s.d.p (e :: es) hinv.valid want ps hlines
    have hls := lineSize_pos s.d.p
    -- the seek's line count bounds the number of entries from above and the file size bounds it
    have hlines_ge : want.length ≤ ps.lines s.d.p := by
      unfold Pos.lines
      rw [hbytes, Nat.le_div_iff_mul_le hls, Nat.mul_comm]
      omega
    have hlines_le : ps.lines s.d.p ≤ 2^32 := by
      unfold Pos.lines
      obtain ⟨i, j, _, _, hj, _, hstop, _⟩ := hlines
      have := offA_le_length s.d.p (e :: es) j
      have h1 : ps.stop - ps.start ≤ (Spec.encode s.d.p (e :: es)).length := by omega
      exact Nat.le_trans (Nat.div_le_div_right h1) hsize
    have hb1 : 1 ≤ max 1 (ps.lines s.d.p / n) := Nat.le_max_left _ _
    have hb2 : max 1 (ps.lines s.d.p / n) ≤ 2^32 := by
      apply Nat.max_le.mpr
      exact ⟨by omega, Nat.le_trans (Nat.div_le_self _ _) hlines_le⟩
    refine ⟨max 1 (ps.lines s.d.p / n), hb1, ?_, ?_⟩
    · unfold dataReadResampling
      have : ¬ max 1 (ps.lines s.d.p / n) = 0 := by omega
      simp only [this, if_false]
      rw [hregion, hread s.cb samplerProc _]
      obtain ⟨s', h1, h2⟩ := fold_sampler_init s.d.p _ hb1 hb2
        (Spec.filterBounds (toSpecBound sb) (toSpecBound eb) (e :: es))
      rw [h1]
      simp only
      rw [h2]
    · have hblen : (Spec.bucketMeans (max 1 (ps.lines s.d.p / n)) (Spec.linMean s.d.p) want).length
          = want.length / max 1 (ps.lines s.d.p / n) := by
        have : 0 < max 1 (ps.lines s.d.p / n) := hb1
        clear hbytes hlines_ge hread hlines hseek
        generalize max 1 (ps.lines s.d.p / n) = B at this ⊢
        generalize want = w
        fun_induction Spec.bucketMeans B (Spec.linMean s.d.p) w
        next xs h =>
          rcases h with h | h
          · omega
          · simp [Nat.div_eq_of_lt h]
        next xs h b ih =>
          have hlen : B ≤ xs.length := by omega
          simp only [List.length_cons, ih, List.length_drop]
          have hx : xs.length = (xs.length - B) + B := by omega
          conv => rhs; rw [hx, Nat.add_div_right _ this]
      rw [hblen]
      -- at most 2n
      by_cases h0 : ps.lines s.d.p / n = 0
      · have hl : ps.lines s.d.p < 1 * n := (Nat.div_lt_iff_lt_mul (by omega)).mp (by omega)
        simp [h0]; omega
      · have hb : 1 ≤ ps.lines s.d.p / n := Nat.pos_of_ne_zero h0
        have hmax : max 1 (ps.lines s.d.p / n) = ps.lines s.d.p / n := Nat.max_eq_right hb
        rw [hmax]
        have h1 : ps.lines s.d.p < (ps.lines s.d.p / n + 1) * n :=
          (Nat.div_lt_iff_lt_mul (by omega)).mp (Nat.lt_succ_self _)
        have h2 : (ps.lines s.d.p / n + 1) * n ≤ 2 * n * (ps.lines s.d.p / n) := by
          have : ps.lines s.d.p / n + 1 ≤ 2 * (ps.lines s.d.p / n) := by
            generalize ps.lines s.d.p / n = q at hb; omega
          calc (ps.lines s.d.p / n + 1) * n ≤ (2 * (ps.lines s.d.p / n)) * n := Nat.mul_le_mul_right n this
            _ = 2 * n * (ps.lines s.d.p / n) := by
              rw [Nat.mul_assoc, Nat.mul_comm (ps.lines s.d.p / n) n, ← Nat.mul_assoc]
        apply Nat.div_le_of_le_mul
        rw [Nat.mul_comm]
        omega

end BS.Impl
