/-
  C09 at the level of the API: reopening a series with its cache configuration.
-/
import BS.Proofs.CacheOpen

namespace BS.Impl
open BS

/-- the states of one cache level's files, relative to the source history `xs`, that the
open theorem covers: absent, or what a session left of the bucket means of `xs` with the
data file cut after any number of bytes and the index in any legitimate prior state -/
def CacheReopenOK (p B : Nat) (xs : List Entry) (st : Store) : Prop :=
  (st.data = none ∧ st.index = none) ∨
  -- cut off inside its own file header (a crash while it was created); the index file may be anything
  fileOpenExisting st.data = .error (.err "UnexpectedEof") ∨
  (TailClean p (Spec.bucketMeans B (Spec.linMean p) xs) ∧
   (Spec.encode p (Spec.bucketMeans B (Spec.linMean p) xs)).length < 2^64 ∧
   ∃ n, st.data = some (cacheHdr B ++ (Spec.encode p (Spec.bucketMeans B (Spec.linMean p) xs)).take n) ∧
     IndexState p (Spec.bucketMeans B (Spec.linMean p) xs) st.index)

theorem cacheOpenOrCreate_correct (shdr sihdr : Bytes) (dir : Dir) (src : DataSess) (xs : List Entry) (B : Nat)
    (cb : Option Bool)
    (hsrc : DataInv shdr sihdr dir.main src xs) (hv : Valid src.p xs)
    (hB : 1 ≤ B) (hB32 : B ≤ 2^32) (hH : (cacheUserHeader B).length ≤ 65535)
    (hst : CacheReopenOK src.p B xs (dir.cache B)) :
    ∃ dir' c, cacheOpenOrCreate dir B src cb = (dir', .ok c) ∧ c.B = B ∧ c.d.p = src.p ∧ dir'.main = dir.main ∧
      (∀ B', B' ≠ B → dir'.cache B' = dir.cache B') ∧
      CacheInv (cacheHdr B) cacheIhdr (dir'.cache B) c xs := by
  rcases hst with hfree | heof | ⟨hc, hsize, n, hdata, hix⟩
  · obtain ⟨dir', c, hcreate, h⟩ := cacheCreate_correct shdr sihdr dir src xs B cb hsrc hv hB hB32 hH hfree
    refine ⟨dir', c, ?_, h⟩
    unfold cacheOpenOrCreate
    simp only [hfree.1, fileOpenExisting]
    exact hcreate
  · -- torn inside its header: both files are removed, then the cache is created from the source
    have hsrc' : DataInv shdr sihdr (dir.setCache B { dir.cache B with data := none, index := none }).main src xs := by
      rw [Dir.main_setCache]; exact hsrc
    have hfree' : ((dir.setCache B { dir.cache B with data := none, index := none }).cache B).data = none ∧
        ((dir.setCache B { dir.cache B with data := none, index := none }).cache B).index = none := by
      rw [Dir.cache_setCache_same]; exact ⟨rfl, rfl⟩
    obtain ⟨dir', c, hcreate, hcB, hcp, hmain, hother, hinv⟩ :=
      cacheCreate_correct shdr sihdr _ src xs B cb hsrc' hv hB hB32 hH hfree'
    refine ⟨dir', c, ?_, hcB, hcp, by rw [hmain, Dir.main_setCache], ?_, hinv⟩
    · unfold cacheOpenOrCreate
      rw [heof]
      exact hcreate
    · intro B' hne
      rw [hother B' hne, Dir.cache_setCache_other _ _ _ _ hne]
  · obtain ⟨dir', c, hopen, h⟩ := cacheOpen_correct shdr sihdr dir src xs B cb hsrc hv hB hB32 hH hc hsize n hdata hix
    refine ⟨dir', c, ?_, h⟩
    have hfo : fileOpenExisting (dir.cache B).data = .ok (4 + (cacheUserHeader B).length, cacheUserHeader B) := by
      rw [hdata]; exact outerHdr_open _ _ hH
    unfold cacheOpenOrCreate
    rw [hfo]
    exact hopen

/-- every configured level is opened, repaired, caught up or created -/
theorem openCaches_reopen (shdr sihdr : Bytes) (src : DataSess) (xs : List Entry) (cb : Option Bool)
    (hv : Valid src.p xs) :
    ∀ (Bs : List Nat) (done : List CacheSess) (dir : Dir),
    DataInv shdr sihdr dir.main src xs →
    CacheCfgOK (done.reverse.map (·.B) ++ Bs) →
    (∀ B ∈ Bs, CacheReopenOK src.p B xs (dir.cache B)) →
    (∀ c ∈ done, c.d.p = src.p ∧ CacheInv (cacheHdr c.B) cacheIhdr (dir.cache c.B) c xs) →
    ∃ dir' cs, openCaches false dir src cb Bs done = (dir', .ok cs) ∧ dir'.main = dir.main ∧
      cs.map (·.B) = done.reverse.map (·.B) ++ Bs ∧
      ∀ c ∈ cs, c.d.p = src.p ∧ CacheInv (cacheHdr c.B) cacheIhdr (dir'.cache c.B) c xs := by
  intro Bs
  induction Bs with
  | nil =>
    intro done dir _ _ _ hdone
    refine ⟨dir, done.reverse, by simp [openCaches], rfl, by simp, ?_⟩
    intro c hc; exact hdone c (by simpa using hc)
  | cons B Bs ih =>
    intro done dir hsrc hcfg hst hdone
    obtain ⟨hnd, hok⟩ := hcfg
    obtain ⟨hB1, hB32, hhdr⟩ := hok B (by simp)
    obtain ⟨dir1, c, hstep, hcB, hcp, hmain1, hother1, hinv1⟩ :=
      cacheOpenOrCreate_correct shdr sihdr dir src xs B cb hsrc hv hB1 hB32 hhdr (hst B (by simp))
    have hneB_done : ∀ x ∈ done, x.B ≠ B := by
      intro x hx
      exact (List.pairwise_append.mp hnd).2.2 x.B (by simp; exact ⟨x, hx, rfl⟩) B (by simp)
    have hneB_Bs : ∀ B' ∈ Bs, B' ≠ B := by
      intro B' hB'
      have h2 := (List.pairwise_append.mp hnd).2.1
      exact fun h => (List.pairwise_cons.mp h2).1 B' hB' h.symm
    have hcfg' : CacheCfgOK ((c :: done).reverse.map (·.B) ++ Bs) := by
      constructor
      · simpa [hcB] using hnd
      · intro B' hB'; apply hok; simpa [hcB] using hB'
    have hst' : ∀ B' ∈ Bs, CacheReopenOK src.p B' xs (dir1.cache B') := by
      intro B' hB'
      rw [hother1 B' (hneB_Bs B' hB')]
      exact hst B' (by simp [hB'])
    have hdone' : ∀ x ∈ c :: done, x.d.p = src.p ∧ CacheInv (cacheHdr x.B) cacheIhdr (dir1.cache x.B) x xs := by
      intro x hx
      simp only [List.mem_cons] at hx
      rcases hx with rfl | hx
      · exact ⟨hcp, by rw [hcB]; exact hinv1⟩
      · rw [hother1 x.B (hneB_done x hx)]; exact hdone x hx
    have hsrc1 : DataInv shdr sihdr dir1.main src xs := by rw [hmain1]; exact hsrc
    obtain ⟨dir', cs, hopen, hmain', hBs', hall⟩ := ih (c :: done) dir1 hsrc1 hcfg' hst' hdone'
    refine ⟨dir', cs, ?_, by rw [hmain', hmain1], by simpa [hcB] using hBs', hall⟩
    rw [openCaches]
    simp only [Bool.false_eq_true, if_false, hstep]
    exact hopen

/-- **reopening through the API with a cache configuration**: source cut at any byte / intact,
its index in any legitimate state; every configured cache absent or left by a session over
the surviving source lines, cut at any byte, its index in any legitimate state. -/
theorem apiOpen_recovers_caches (p : Nat) (hp : p ≤ u64Max) (user : Bytes) (hH : (toText p ++ user).length ≤ 65535)
    (xs : List Entry) (hvx : Valid p xs) (hc : TailClean p xs) (hsize : (Spec.encode p xs).length < 2^64)
    (n : Nat) (dir : Dir) (cb : Option Bool)
    (hdata : dir.main.data = some (seriesHdr p user ++ (Spec.encode p xs).take n))
    (hix : IndexState p xs dir.main.index)
    (pOpt : Option Nat) (hpo : pOpt = none ∨ pOpt = some p)
    (hOpt : Option Bytes) (hho : hOpt = none ∨ hOpt = some user)
    (Bs : List Nat) (hcfg : CacheCfgOK Bs)
    (hcaches : ∀ B ∈ Bs, CacheReopenOK p B (xs.take (Spec.linesWithin p xs n)) (dir.cache B)) :
    ∃ dir' s, apiOpen dir pOpt hOpt Bs cb = (dir', .ok (s, user)) ∧ s.d.p = p ∧ s.cb = cb ∧
      s.caches.map (·.B) = Bs ∧
      SessInvC (seriesHdr p user) ihdr dir' s (xs.take (Spec.linesWithin p xs n)) := by
  have hlenH : (seriesHdr p user).length = 4 + (toText p ++ user).length := outerHdr_length _
  obtain ⟨st', d, hopen, hdp, hinv⟩ :=
    dataOpen_recovers p xs hvx hc hsize (seriesHdr p user) n dir.main cb hdata hix
  rw [hlenH] at hopen
  have hvy : Valid p (xs.take (Spec.linesWithin p xs n)) :=
    ⟨List.Pairwise.sublist (List.take_sublist _ _) hvx.1, fun x hx => hvx.2 x (List.mem_of_mem_take hx)⟩
  generalize xs.take (Spec.linesWithin p xs n) = ys at hinv hvy hcaches
  have hvd : Valid d.p ys := by rw [hdp]; exact hvy
  have hcaches' : ∀ B ∈ Bs, CacheReopenOK d.p B ys (({ dir with main := st' } : Dir).cache B) := by
    intro B hB; rw [hdp]; exact hcaches B hB
  obtain ⟨dir', cs, hoc, hmain, hBs, hall⟩ :=
    openCaches_reopen (seriesHdr p user) ihdr d ys cb hvd Bs [] { dir with main := st' } hinv
      (by simpa using hcfg) hcaches' (by simp)
  unfold apiOpen
  rw [hdata]
  unfold seriesHdr
  rw [outerHdr_open _ _ hH]
  simp only
  have hsplit : checkAndSplitHeader (toText p ++ user) pOpt = .ok (p, user) := by
    rw [header_roundtrip p hp user pOpt]
    rcases hpo with rfl | rfl <;> simp
  rw [hsplit]
  simp only [hopen]
  have hrange : rangeFromData d = .ok (firstLast ys) := by
    unfold rangeFromData
    rw [hinv.entries, hinv.lastTime, hdp]
    cases ys with
    | nil => simp [Spec.sections, Spec.sectionsFrom, toIEntries, firstLast]
    | cons e es =>
      obtain ⟨rest, hsec⟩ := sections_cons p e es
      rw [hsec]
      simp only [toIEntries, List.map_cons, List.head?_cons]
      have : (e :: es).getLast? = some ((e :: es).getLast (by simp)) := List.getLast?_eq_some_getLast _
      simp [this, firstLast]
  rw [hrange]
  simp only [hoc]
  have hfin : headerResult hOpt user = .ok user := by
    unfold headerResult
    rcases hho with rfl | rfl <;> simp
  rw [hfin]
  refine ⟨_, _, rfl, hdp, rfl, by simpa using hBs, ?_⟩
  constructor
  · show DataInv _ _ dir'.main d ys
    rw [hmain]; exact hinv
  · rfl
  · exact hvd
  · show (cs.map (·.B)).Pairwise (· ≠ ·)
    rw [hBs]; simpa using hcfg.1
  · exact hall

/-- what a session leaves on disk is a legitimate starting point for the next open -/
theorem sessInvC_reopenOK (hdr ihdr' : Bytes) (dir : Dir) (s : Sess) (xs : List Entry)
    (hinv : SessInvC hdr ihdr' dir s xs)
    (hclean : ∀ c ∈ s.caches, TailClean s.d.p (Spec.bucketMeans c.B (Spec.linMean s.d.p) xs) ∧
      (Spec.encode s.d.p (Spec.bucketMeans c.B (Spec.linMean s.d.p) xs)).length < 2^64) :
    ∀ B ∈ s.caches.map (·.B), CacheReopenOK s.d.p B xs (dir.cache B) := by
  intro B hB
  obtain ⟨c, hc, rfl⟩ := List.mem_map.mp hB
  obtain ⟨hcp, hci⟩ := hinv.caches c hc
  right; right
  refine ⟨(hclean c hc).1, (hclean c hc).2, (Spec.encode s.d.p (Spec.bucketMeans c.B (Spec.linMean s.d.p) xs)).length, ?_, ?_⟩
  · rw [List.take_length, hci.data.data, hcp]
  · rw [hci.data.index, hcp]
    have := IndexState.cut (p := s.d.p) (xs := Spec.bucketMeans c.B (Spec.linMean s.d.p) xs)
      (Spec.encIndex (Spec.sections s.d.p (Spec.bucketMeans c.B (Spec.linMean s.d.p) xs))).length
    rw [List.take_length] at this
    unfold cacheIhdr; rw [← ihdr_eq]; exact this

end BS.Impl

namespace BS.Impl
open BS

/-- **one round of "append anything, close, reopen with the same cache configuration"** keeps
the session invariant (source and every cache level); all files come out byte-identical. -/
theorem round_preserves (p : Nat) (hp : p ≤ u64Max) (user : Bytes) (hH : (toText p ++ user).length ≤ 65535)
    (dir : Dir) (s : Sess) (xs : List Entry) (hsp : s.d.p = p)
    (hinv : SessInvC (seriesHdr p user) ihdr dir s xs)
    (atts : List (Nat × Bytes)) (hts : ∀ a ∈ atts, a.1 < 2^64)
    (hcfg : CacheCfgOK (s.caches.map (·.B)))
    (hc : TailClean p (acceptAll p xs atts)) (hsize : (Spec.encode p (acceptAll p xs atts)).length < 2^64)
    (hcc : ∀ B ∈ s.caches.map (·.B),
      TailClean p (Spec.bucketMeans B (Spec.linMean p) (acceptAll p xs atts)) ∧
      (Spec.encode p (Spec.bucketMeans B (Spec.linMean p) (acceptAll p xs atts))).length < 2^64)
    (cb : Option Bool) (pOpt : Option Nat) (hpo : pOpt = none ∨ pOpt = some p)
    (hOpt : Option Bytes) (hho : hOpt = none ∨ hOpt = some user) :
    ∃ dir1 s1 dir2 s2, pushAll dir s atts = some (dir1, s1) ∧
      apiOpen dir1 pOpt hOpt (s.caches.map (·.B)) cb = (dir2, .ok (s2, user)) ∧
      s2.d.p = p ∧ s2.caches.map (·.B) = s.caches.map (·.B) ∧
      SessInvC (seriesHdr p user) ihdr dir2 s2 (acceptAll p xs atts) ∧
      dir2.main.data = dir1.main.data ∧
      (∀ B ∈ s.caches.map (·.B), (dir2.cache B).data = (dir1.cache B).data) := by
  obtain ⟨dir1, s1, hall, hp1, _, hBs1, hinv1⟩ := pushAll_inv _ _ atts dir s xs hinv hts
  rw [hsp] at hinv1
  have hp1' : s1.d.p = p := by rw [hp1, hsp]
  generalize hys : acceptAll p xs atts = ys at *
  have hv : Valid p ys := by have := hinv1.valid; rw [hp1'] at this; exact this
  have hfull := linesWithin_full p ys (fun x hx => (hv.2 x hx).2)
  have hdata : dir1.main.data = some (seriesHdr p user ++ (Spec.encode p ys).take (Spec.encode p ys).length) := by
    rw [List.take_length, hinv1.data.data, hp1']
  have hix : IndexState p ys dir1.main.index := by
    rw [hinv1.data.index, hp1']
    have := IndexState.cut (p := p) (xs := ys) (Spec.encIndex (Spec.sections p ys)).length
    rw [List.take_length] at this
    exact this
  have hok := sessInvC_reopenOK _ _ dir1 s1 ys hinv1 (by
    intro c hc'
    rw [hp1']
    exact hcc c.B (by rw [← hBs1]; exact List.mem_map.mpr ⟨c, hc', rfl⟩))
  rw [hp1', hBs1] at hok
  have hok' : ∀ B ∈ s.caches.map (·.B),
      CacheReopenOK p B (ys.take (Spec.linesWithin p ys (Spec.encode p ys).length)) (dir1.cache B) := by
    intro B hB; rw [hfull, List.take_length]; exact hok B hB
  obtain ⟨dir2, s2, hopen, hp2, _, hBs2, hinv2⟩ :=
    apiOpen_recovers_caches p hp user hH ys hv hc hsize _ dir1 cb hdata hix pOpt hpo hOpt hho
      (s.caches.map (·.B)) hcfg hok'
  rw [hfull, List.take_length] at hinv2
  refine ⟨dir1, s1, dir2, s2, hall, hopen, hp2, hBs2, hinv2, ?_, ?_⟩
  · rw [hinv2.data.data, hinv1.data.data, hp2, hp1']
  · intro B hB
    have h1 : B ∈ s1.caches.map (·.B) := by rw [hBs1]; exact hB
    have h2 : B ∈ s2.caches.map (·.B) := by rw [hBs2]; exact hB
    obtain ⟨c1, hc1, rfl⟩ := List.mem_map.mp h1
    obtain ⟨c2, hc2, hcB⟩ := List.mem_map.mp h2
    obtain ⟨hcp1, hci1⟩ := hinv1.caches c1 hc1
    obtain ⟨hcp2, hci2⟩ := hinv2.caches c2 hc2
    rw [← hcB, hci2.data.data, hcB, hci1.data.data, hcp1, hcp2, hp1', hp2]

end BS.Impl
