/-
  C07, reverse direction, in its widest reading: a conformant file may carry, in front of an entry,
  a section whose full time lies BEFORE that entry (a writer that stores the full time on its own
  schedule): the entry's own 16-bit time is then not zero.  The library never writes that, and
  `Proofs/AnyLayout.lean` (sections that carry the entry's own time) is the special case `lead = 0`.
  Here: the library's reader over the whole data region, and the specification's independent reference
  decoder, return exactly the history for every such layout.
-/
import BS.Proofs.AnyLayout

namespace BS.Spec

/-- lead of the optional section in front of an entry (`none`: no optional section) -/
def leadOf (o : Option Nat) : Nat := o.getD 0

/-- every documented layout: a section precedes the first line and every line whose distance to the
last full time does not fit 16 bits; it MAY precede any other line (`some d`); the full time it
carries lies `d` before the entry (`d = 0`: the entry's own time) -/
def encFromL (p : Nat) : Option Nat → List (Option Nat × Entry) → Bytes
  | _, [] => []
  | none, (o, e) :: es =>
    encSection p (e.ts - leadOf o) ++ encLine (leadOf o) e.pl ++ encFromL p (some (e.ts - leadOf o)) es
  | some f, (o, e) :: es =>
    if o = none ∧ e.ts - f ≤ maxDelta then encLine (e.ts - f) e.pl ++ encFromL p (some f) es
    else encSection p (e.ts - leadOf o) ++ encLine (leadOf o) e.pl ++ encFromL p (some (e.ts - leadOf o)) es

def encodeL (p : Nat) (fx : List (Option Nat × Entry)) : Bytes := encFromL p none fx

/-- a lead is at most the entry's time and fits 16 bits -/
def LeadOK (fx : List (Option Nat × Entry)) : Prop := ∀ x ∈ fx, leadOf x.1 ≤ x.2.ts ∧ leadOf x.1 ≤ 65534

end BS.Spec

namespace BS.Impl
open BS

variable {σ : Type}

/-- the layouts of `AnyLayout.lean` are the ones whose optional sections have lead 0 -/
theorem encFromL_of_W (p : Nat) (fx : List (Bool × Entry)) : ∀ full,
    Spec.encFromL p full (fx.map fun x => (if x.1 then some 0 else none, x.2)) = Spec.encFromW p full fx := by
  induction fx with
  | nil => intro full; cases full <;> simp [Spec.encFromL, Spec.encFromW]
  | cons be es ih =>
    obtain ⟨b, e⟩ := be
    intro full
    cases full with
    | none => cases b <;> simp [Spec.encFromL, Spec.encFromW, Spec.leadOf, ih]
    | some f => cases b <;> simp [Spec.encFromL, Spec.encFromW, Spec.leadOf, ih]

def encLinesL (p : Nat) : Option Nat → List (Option Nat × Entry) → List Bytes
  | _, [] => []
  | none, (o, e) :: es =>
    metaWriteLines p (e.ts - Spec.leadOf o) ++ dataLine (Spec.leadOf o) e.pl :: encLinesL p (some (e.ts - Spec.leadOf o)) es
  | some f, (o, e) :: es =>
    if o = none ∧ e.ts - f ≤ 65534 then dataLine (e.ts - f) e.pl :: encLinesL p (some f) es
    else metaWriteLines p (e.ts - Spec.leadOf o) ++ dataLine (Spec.leadOf o) e.pl :: encLinesL p (some (e.ts - Spec.leadOf o)) es

theorem encLinesL_flatten (p : Nat) (fx : List (Option Nat × Entry)) :
    ∀ full, (encLinesL p full fx).flatten = Spec.encFromL p full fx := by
  induction fx with
  | nil => intro full; cases full <;> simp [encLinesL, Spec.encFromL]
  | cons be es ih =>
    obtain ⟨o, e⟩ := be
    intro full
    match full with
    | none =>
      simp [encLinesL, Spec.encFromL, ih, spec_encSection, metaWrite, dataLine, Spec.encLine]
    | some f =>
      by_cases hd : o = none ∧ e.ts - f ≤ 65534
      · have hd' : o = none ∧ e.ts - f ≤ Spec.maxDelta := hd
        simp only [encLinesL, Spec.encFromL, if_pos hd, if_pos hd', List.flatten_cons, ih]
        simp [dataLine, Spec.encLine]
      · have hd' : ¬ (o = none ∧ e.ts - f ≤ Spec.maxDelta) := hd
        simp only [encLinesL, Spec.encFromL, if_neg hd, if_neg hd', List.flatten_append, List.flatten_cons, ih]
        simp [spec_encSection, metaWrite, dataLine, Spec.encLine]

theorem encLinesL_length (p : Nat) (fx : List (Option Nat × Entry)) (hp : ∀ x ∈ fx, x.2.pl.length = p) :
    ∀ full, ∀ l ∈ encLinesL p full fx, l.length = lineSize p := by
  induction fx with
  | nil => intro full l hl; simp [encLinesL] at hl
  | cons be es ih =>
    obtain ⟨o, e⟩ := be
    have hpe : e.pl.length = p := hp (o, e) (by simp)
    have hpes : ∀ x ∈ es, x.2.pl.length = p := fun x hx => hp x (by simp [hx])
    have hdl : ∀ d, (dataLine d e.pl).length = lineSize p := by
      intro d; simp [dataLine, le2, lineSize, hpe]; omega
    intro full l hl
    match full with
    | none =>
      simp only [encLinesL, List.mem_append, List.mem_cons] at hl
      rcases hl with hl | rfl | hl
      · exact metaWriteLines_length p _ l hl
      · exact hdl _
      · exact ih hpes _ l hl
    | some f =>
      simp only [encLinesL] at hl
      split at hl
      · simp only [List.mem_cons] at hl
        rcases hl with rfl | hl
        · exact hdl _
        · exact ih hpes _ l hl
      · simp only [List.mem_append, List.mem_cons] at hl
        rcases hl with hl | rfl | hl
        · exact metaWriteLines_length p _ l hl
        · exact hdl _
        · exact ih hpes _ l hl

/-- scanning any conformant layout, leads included = the processor folded over the entries -/
theorem scan_encLinesL (p : Nat) (cb : Option Bool) (proc : σ → Nat → Bytes → PRes σ) (fx : List (Option Nat × Entry)) :
    ∀ (full : Option Nat) (st : RSt σ),
      Sorted (fx.map (·.2)) → (∀ x ∈ fx, x.2.ts < 2^64) → Spec.LeadOK fx → st.skip = false →
      (∀ f, full = some f → st.full = f ∧ ∀ x ∈ fx, f ≤ x.2.ts) →
      match foldProc proc st.ps (fx.map (·.2)) with
      | .ok ps' => ∃ f', scan p cb proc st (encLinesL p full fx) = .ok (⟨f', ps', false⟩, 0)
      | .error e => scan p cb proc st (encLinesL p full fx) = .error e := by
  induction fx with
  | nil =>
    intro full st _ _ _ hs _
    simp only [List.map_nil, foldProc, encLinesL, scan_nil]
    exact ⟨st.full, by cases st; simp_all⟩
  | cons be es ih =>
    obtain ⟨o, e⟩ := be
    intro full st hsort hb hlead hs hf
    simp only [List.map_cons] at hsort ⊢
    have hes : Sorted (es.map (·.2)) := (List.pairwise_cons.mp hsort).2
    have hlt : ∀ x ∈ es, e.ts < x.2.ts := fun x hx =>
      (List.pairwise_cons.mp hsort).1 x.2 (List.mem_map.mpr ⟨x, hx, rfl⟩)
    have hbe : e.ts < 2^64 := hb (o, e) (by simp)
    have hbes : ∀ x ∈ es, x.2.ts < 2^64 := fun x hx => hb x (by simp [hx])
    have hles : Spec.LeadOK es := fun x hx => hlead x (by simp [hx])
    obtain ⟨hd1, hd2⟩ := hlead (o, e) (by simp)
    simp only at hd1 hd2
    have hback : e.ts - Spec.leadOf o + Spec.leadOf o = e.ts := by omega
    have newsec :
        match foldProc proc st.ps (e :: es.map (·.2)) with
        | .ok ps' => ∃ f', scan p cb proc st (metaWriteLines p (e.ts - Spec.leadOf o) ++ dataLine (Spec.leadOf o) e.pl :: encLinesL p (some (e.ts - Spec.leadOf o)) es) = .ok (⟨f', ps', false⟩, 0)
        | .error err => scan p cb proc st (metaWriteLines p (e.ts - Spec.leadOf o) ++ dataLine (Spec.leadOf o) e.pl :: encLinesL p (some (e.ts - Spec.leadOf o)) es) = .error err := by
      rw [scan_section p cb proc (e.ts - Spec.leadOf o) (by omega),
          scan_dataLine p cb proc _ (Spec.leadOf o) e.pl _ hd2 rfl (by simp only; omega)]
      simp only [foldProc, hback]
      cases hp : proc st.ps e.ts e.pl with
      | cont s =>
        simp only
        have := ih (some (e.ts - Spec.leadOf o)) { full := e.ts - Spec.leadOf o, ps := s, skip := false } hes hbes hles rfl
          (by intro f hf'; cases hf'; exact ⟨rfl, fun x hx => by have := hlt x hx; omega⟩)
        exact this
      | halt s => simp
      | fault => simp
    match full with
    | none => simpa [encLinesL] using newsec
    | some f =>
      obtain ⟨hfull, hfle⟩ := hf f rfl
      by_cases hd : o = none ∧ e.ts - f ≤ 65534
      · simp only [encLinesL, if_pos hd]
        have hfe : f ≤ e.ts := hfle (o, e) (by simp)
        have hsum : st.full + (e.ts - f) = e.ts := by omega
        rw [scan_dataLine p cb proc st (e.ts - f) e.pl _ hd.2 hs (by omega)]
        simp only [foldProc, hsum]
        cases hp : proc st.ps e.ts e.pl with
        | cont s =>
          simp only
          have := ih (some f) { st with ps := s } hes hbes hles hs
            (by intro f' hf'; cases hf'; exact ⟨hfull, fun x hx => Nat.le_trans hfe (Nat.le_of_lt (hlt x hx))⟩)
          exact this
        | halt s => simp
        | fault => simp
      · simp only [encLinesL, if_neg hd]
        exact newsec

theorem readChunked_anyLayoutLead (p k : Nat) (hk : 0 < k) (cb : Option Bool) (proc : σ → Nat → Bytes → PRes σ)
    (ps : σ) (f : Nat) (fx : List (Option Nat × Entry)) (hs : Sorted (fx.map (·.2))) (hb : ∀ x ∈ fx, x.2.ts < 2^64)
    (hlead : Spec.LeadOK fx) (hf : ∀ x ∈ fx, f ≤ x.2.ts) :
    (readChunked p k cb proc ⟨f, ps, false⟩ [] (encLinesL p (some f) fx)).map (·.ps) = foldProc proc ps (fx.map (·.2)) := by
  rw [readChunked_eq p k hk]
  have h := scan_encLinesL p cb proc fx (some f) ⟨f, ps, false⟩ hs hb hlead rfl
    (by intro f' hf'; cases hf'; exact ⟨rfl, hf⟩)
  split
  · rename_i hnil
    cases fx with
    | nil => simp [foldProc, Except.map]
    | cons be es =>
      exfalso
      obtain ⟨o, e⟩ := be
      simp only [encLinesL] at hnil
      split at hnil <;> simp at hnil
  · simp only [List.nil_append]
    cases hfold : foldProc proc ps (fx.map (·.2)) with
    | ok ps' =>
      simp only [hfold] at h
      obtain ⟨f', hf'⟩ := h
      simp [hf', Except.map]
    | error e =>
      simp only [hfold] at h
      simp [h, Except.map]

theorem encodeL_cons (p : Nat) (o : Option Nat) (e : Entry) (es : List (Option Nat × Entry))
    (hd1 : Spec.leadOf o ≤ e.ts) (hd2 : Spec.leadOf o ≤ 65534) :
    Spec.encodeL p ((o, e) :: es) =
      metaWrite p (e.ts - Spec.leadOf o) ++ (encLinesL p (some (e.ts - Spec.leadOf o)) ((none, e) :: es)).flatten := by
  unfold Spec.encodeL
  rw [← encLinesL_flatten]
  have hsub : e.ts - (e.ts - Spec.leadOf o) = Spec.leadOf o := by omega
  have hc : (none : Option Nat) = none ∧ e.ts - (e.ts - Spec.leadOf o) ≤ 65534 := ⟨rfl, by omega⟩
  simp only [encLinesL, if_pos hc, hsub]
  simp [metaWrite, hd2]

/-- **`read_with_processor` over the whole data region of ANY conformant layout, leads included**: from
just after the first section, with the full time that section carries, the processor is fed exactly
the history - for every processor, payload size and callback setting -/
theorem readRegion_anyLayoutLead (p : Nat) (cb : Option Bool) (proc : σ → Nat → Bytes → PRes σ) (ps : σ)
    (o : Option Nat) (e : Entry) (es : List (Option Nat × Entry)) (hv : Valid p (e :: es.map (·.2)))
    (hlead : Spec.LeadOK ((o, e) :: es)) :
    readRegion p cb proc ps (Spec.encodeL p ((o, e) :: es)) (metaSize p) (Spec.encodeL p ((o, e) :: es)).length
        (e.ts - Spec.leadOf o)
      = foldProc proc ps (e :: es.map (·.2)) := by
  obtain ⟨hsort, hall⟩ := hv
  obtain ⟨hd1, hd2⟩ := hlead (o, e) (by simp)
  simp only at hd1 hd2
  have hmem : ∀ x ∈ (none, e) :: es, x.2 ∈ e :: es.map (·.2) := by
    intro x hx
    simp only [List.mem_cons] at hx
    rcases hx with rfl | hx
    · simp
    · exact List.mem_cons_of_mem _ (List.mem_map.mpr ⟨x, hx, rfl⟩)
  have hb : ∀ x ∈ (none, e) :: es, x.2.ts < 2^64 := fun x hx => (hall _ (hmem x hx)).1
  have hpl : ∀ x ∈ (none, e) :: es, x.2.pl.length = p := fun x hx => (hall _ (hmem x hx)).2
  have hl' : Spec.LeadOK ((none, e) :: es) := by
    intro x hx
    simp only [List.mem_cons] at hx
    rcases hx with rfl | hx
    · simp [Spec.leadOf]
    · exact hlead x (by simp [hx])
  have hf : ∀ x ∈ (none, e) :: es, e.ts - Spec.leadOf o ≤ x.2.ts := by
    intro x hx
    simp only [List.mem_cons] at hx
    rcases hx with rfl | hx
    · simp only; omega
    · have := (List.pairwise_cons.mp hsort).1 x.2 (List.mem_map.mpr ⟨x, hx, rfl⟩); omega
  unfold readRegion
  have hlen : metaSize p ≤ (Spec.encodeL p ((o, e) :: es)).length := by
    rw [encodeL_cons p o e es hd1 hd2, List.length_append, metaWrite_length]; omega
  simp only [show ¬ ((Spec.encodeL p ((o, e) :: es)).length < metaSize p) by omega, if_false]
  have hregion : ((Spec.encodeL p ((o, e) :: es)).drop (metaSize p)).take ((Spec.encodeL p ((o, e) :: es)).length - metaSize p)
      = (encLinesL p (some (e.ts - Spec.leadOf o)) ((none, e) :: es)).flatten := by
    rw [encodeL_cons p o e es hd1 hd2, List.drop_append_of_le_length (by rw [metaWrite_length]; omega)]
    rw [← metaWrite_length p (e.ts - Spec.leadOf o), List.drop_length, List.nil_append]
    apply List.take_of_length_le
    simp [List.length_append, metaWrite_length]
  rw [hregion, toLines_flatten _ _ (lineSize_pos p) (encLinesL_length p _ hpl _)]
  have h := readChunked_anyLayoutLead p (chunkLines p) (chunkLines_pos p) cb proc ps (e.ts - Spec.leadOf o) ((none, e) :: es)
    hsort hb hl' hf
  simp only [List.map_cons] at h
  cases hr : readChunked p (chunkLines p) cb proc ⟨e.ts - Spec.leadOf o, ps, false⟩ [] (encLinesL p (some (e.ts - Spec.leadOf o)) ((none, e) :: es)) with
  | ok st => simp [hr, Except.map] at h; simp [h]
  | error err => simp [hr, Except.map] at h; simp [h]

/-- the reference decoder reads back every conformant layout, leads included -/
theorem refDecodeLines_encLinesL (p : Nat) (fx : List (Option Nat × Entry)) :
    ∀ (full : Option Nat), Sorted (fx.map (·.2)) → (∀ x ∈ fx, x.2.ts < 2^64) → Spec.LeadOK fx →
      (∀ f, full = some f → ∀ x ∈ fx, f ≤ x.2.ts) →
      Spec.refDecodeLines p full (encLinesL p full fx) = some (fx.map (·.2)) := by
  induction fx with
  | nil => intro full _ _ _ _; simp [encLinesL, Spec.refDecodeLines]
  | cons be es ih =>
    obtain ⟨o, e⟩ := be
    intro full hsort hb hlead hf
    simp only [List.map_cons] at hsort ⊢
    have hes : Sorted (es.map (·.2)) := (List.pairwise_cons.mp hsort).2
    have hlt : ∀ x ∈ es, e.ts < x.2.ts := fun x hx =>
      (List.pairwise_cons.mp hsort).1 x.2 (List.mem_map.mpr ⟨x, hx, rfl⟩)
    have hbe : e.ts < 2^64 := hb (o, e) (by simp)
    have hbes : ∀ x ∈ es, x.2.ts < 2^64 := fun x hx => hb x (by simp [hx])
    have hles : Spec.LeadOK es := fun x hx => hlead x (by simp [hx])
    obtain ⟨hd1, hd2⟩ := hlead (o, e) (by simp)
    simp only at hd1 hd2
    have hback : e.ts - Spec.leadOf o + Spec.leadOf o = e.ts := by omega
    have newsec : Spec.refDecodeLines p full (metaWriteLines p (e.ts - Spec.leadOf o) ++ dataLine (Spec.leadOf o) e.pl :: encLinesL p (some (e.ts - Spec.leadOf o)) es)
        = some (e :: es.map (·.2)) := by
      rw [refDecode_section p (e.ts - Spec.leadOf o) (by omega), refDecode_dataLine p _ (Spec.leadOf o) e.pl _ hd2,
        ih (some (e.ts - Spec.leadOf o)) hes hbes hles (by intro f hf' x hx; cases hf'; have := hlt x hx; omega)]
      simp [hback]
    cases full with
    | none => simpa [encLinesL] using newsec
    | some f =>
      have hfe : f ≤ e.ts := hf f rfl (o, e) (by simp)
      by_cases hd : o = none ∧ e.ts - f ≤ 65534
      · simp only [encLinesL, if_pos hd]
        rw [refDecode_dataLine p f (e.ts - f) e.pl _ hd.2,
          ih (some f) hes hbes hles (by intro f' hf' x hx; cases hf'; exact Nat.le_trans hfe (Nat.le_of_lt (hlt x hx)))]
        have : f + (e.ts - f) = e.ts := by omega
        simp [this]
      · simp only [encLinesL, if_neg hd]
        exact newsec

theorem encodeL_length_mod (p : Nat) (fx : List (Option Nat × Entry)) (hp : ∀ x ∈ fx, x.2.pl.length = p) :
    (Spec.encodeL p fx).length % Spec.lineSize p = 0 := by
  unfold Spec.encodeL
  rw [← encLinesL_flatten, List.length_flatten]
  have h := encLinesL_length p fx hp none
  generalize encLinesL p none fx = L at h
  induction L with
  | nil => simp
  | cons l L ih =>
    simp only [List.map_cons, List.sum_cons]
    rw [h l (by simp)]
    have := ih (fun x hx => h x (by simp [hx]))
    have hls : Spec.lineSize p = lineSize p := rfl
    rw [hls] at this ⊢
    rw [Nat.add_mod, this]; simp

/-- **C07 (←), widest reading: an independent reader that knows only the documented layout decodes
every conformant data region**, whatever full times its sections carry, to exactly the history -/
theorem refDecode_encodeL (p : Nat) (fx : List (Option Nat × Entry)) (hv : Valid p (fx.map (·.2)))
    (hlead : Spec.LeadOK fx) :
    Spec.refDecode p (Spec.encodeL p fx) = some (fx.map (·.2)) := by
  obtain ⟨hsort, hall⟩ := hv
  have hpl : ∀ x ∈ fx, x.2.pl.length = p := fun x hx => (hall x.2 (List.mem_map.mpr ⟨x, hx, rfl⟩)).2
  unfold Spec.refDecode
  rw [encodeL_length_mod p fx hpl]
  simp only [if_true]
  have : Spec.encodeL p fx = (encLinesL p none fx).flatten := by
    unfold Spec.encodeL; rw [encLinesL_flatten]
  rw [this]
  show Spec.refDecodeLines p none (toLines (lineSize p) _) = _
  rw [toLines_flatten _ _ (lineSize_pos p) (encLinesL_length p fx hpl none)]
  exact refDecodeLines_encLinesL p fx none hsort
    (fun x hx => (hall x.2 (List.mem_map.mpr ⟨x, hx, rfl⟩)).1) hlead (by intro f hf; cases hf)

end BS.Impl
