/-
  T7: the seek (`RoughPos::new` + `refine`) on a canonical series returns the byte range
  that holds exactly the entries inside the requested bounds.
-/
import BS.Proofs.Groups

namespace BS.Impl

/-! ### positions of group `k`, in terms of entry indices of `xs` -/

def pre (G : List (List Entry)) (k : Nat) : Nat := ((G.take k).flatten).length

structure GroupAt (p : Nat) (xs : List Entry) (k : Nat) (g : List Entry) (e : Entry) (o : Nat) : Prop where
  head : ∃ rest, g = e :: rest
  within : ∀ x ∈ g, x.ts - e.ts ≤ 65534
  split : xs = ((groups xs).take k).flatten ++ g ++ ((groups xs).drop (k + 1)).flatten
  offHead : offA p xs (pre (groups xs) k) = o
  opens : Opens xs (pre (groups xs) k) e
  offLine : ∀ r, 1 ≤ r → r ≤ g.length → offA p xs (pre (groups xs) k + r) = o + metaSize p + r * lineSize p
  fullLine : ∀ r, 1 ≤ r → r ≤ g.length → fullAt xs (pre (groups xs) k + r) = some e.ts

theorem take_pre_add (xs : List Entry) (k : Nat) (g : List Entry) (hg : (groups xs)[k]? = some g) (r : Nat)
    (hr : r ≤ g.length) :
    xs = ((groups xs).take k).flatten ++ g ++ ((groups xs).drop (k + 1)).flatten ∧
    xs.take (pre (groups xs) k + r) = ((groups xs).take k).flatten ++ g.take r := by
  have hk : k < (groups xs).length := by
    rcases List.getElem?_eq_some_iff.mp hg with ⟨h, _⟩; exact h
  have hG : groups xs = (groups xs).take k ++ g :: (groups xs).drop (k + 1) := by
    have h1 : (groups xs).drop k = g :: (groups xs).drop (k + 1) := by
      rw [List.drop_eq_getElem_cons hk]
      rcases List.getElem?_eq_some_iff.mp hg with ⟨_, h2⟩
      rw [h2]
    rw [← h1, List.take_append_drop]
  have hxs : xs = ((groups xs).take k).flatten ++ g ++ ((groups xs).drop (k + 1)).flatten := by
    conv => lhs; rw [← groups_flatten xs, hG]
    simp [List.flatten_append]
  refine ⟨hxs, ?_⟩
  have h : (((groups xs).take k).flatten ++ g ++ ((groups xs).drop (k + 1)).flatten).take
      (((groups xs).take k).flatten.length + r) = ((groups xs).take k).flatten ++ g.take r := by
    rw [List.append_assoc, List.take_append, List.take_of_length_le (by omega)]
    simp only [Nat.add_sub_cancel_left]
    rw [List.take_append_of_le_length hr]
  rw [← hxs] at h
  exact h

theorem group_at (p : Nat) (xs : List Entry) (hpl : ∀ x ∈ xs, x.pl.length = p) (k : Nat) (g : List Entry) (f o : Nat)
    (hg : (groups xs)[k]? = some g) (hs : (secsOf p 0 (groups xs))[k]? = some (f, o)) :
    ∃ e, f = e.ts ∧ GroupAt p xs k g e o := by
  obtain ⟨e, rest, hge, hf, hwithin, hoff, hbnd, hr⟩ :=
    group_position p xs [] (Or.inl rfl) hpl k g f o hg hs
  refine ⟨e, hf, ?_⟩
  have hsplit0 := (take_pre_add xs k g hg 0 (Nat.zero_le _))
  have htake0 : xs.take (pre (groups xs) k) = ((groups xs).take k).flatten := by
    have := hsplit0.2; simpa using this
  refine ⟨⟨rest, hge⟩, hwithin, hsplit0.1, ?_, ?_, ?_, ?_⟩
  · unfold offA; rw [htake0]
    have := hoff; simp [Spec.encode, Spec.encFrom] at this; simpa [Spec.encode] using this
  · constructor
    · have hxs := hsplit0.1
      have h : (((groups xs).take k).flatten ++ g ++ ((groups xs).drop (k + 1)).flatten)[
          ((groups xs).take k).flatten.length]? = some e := by
        rw [List.append_assoc, List.getElem?_append_right (Nat.le_refl _)]
        simp [hge]
      rw [← hxs] at h
      exact h
    · unfold fullAt; rw [htake0]
      simp only [List.nil_append] at hbnd
      rcases hbnd with h | ⟨f', hf', hfar⟩
      · exact Or.inl h
      · right; exact ⟨f', hf', hfar e (rest ++ ((groups xs).drop (k + 1)).flatten) (by simp [hge])⟩
  · intro r hr1 hr2
    obtain ⟨h1, _⟩ := hr r hr1 hr2
    unfold offA
    rw [(take_pre_add xs k g hg r hr2).2]
    simp only [List.nil_append] at h1
    have : (Spec.encode p ([] : List Entry)).length = 0 := by simp [Spec.encode, Spec.encFrom]
    rw [h1, this]; omega
  · intro r hr1 hr2
    obtain ⟨_, h2⟩ := hr r hr1 hr2
    unfold fullAt
    rw [(take_pre_add xs k g hg r hr2).2]
    simpa using h2

end BS.Impl

namespace BS.Impl

/-- bytes from just after the header entry `i` opens up to boundary `j` -/
theorem region_between_B (p : Nat) (xs : List Entry) (i j : Nat) (hij : i < j) (hj : j ≤ xs.length) (e : Entry)
    (hopen : Opens xs i e) :
    ((Spec.encode p xs).drop (offA p xs i + metaSize p)).take (offA p xs j - (offA p xs i + metaSize p))
      = Spec.encFrom p (some e.ts) ((xs.drop i).take (j - i)) ∧
    offA p xs i + metaSize p ≤ offA p xs j := by
  obtain ⟨hget, hfull⟩ := hopen
  have hilt : i < xs.length := by
    rcases List.getElem?_eq_some_iff.mp hget with ⟨h, _⟩; exact h
  have hmid : (xs.drop i).take (j - i) = e :: (xs.drop (i + 1)).take (j - i - 1) := by
    have hd : xs.drop i = e :: xs.drop (i + 1) := by
      rw [List.drop_eq_getElem_cons hilt]
      obtain ⟨_, h2⟩ := List.getElem?_eq_some_iff.mp hget
      rw [h2]
    rw [hd]
    have : j - i = (j - i - 1) + 1 := by omega
    rw [this, List.take_succ_cons]
    simp
  have hreg := region_between p xs i j (Nat.le_of_lt hij) hj
  have henc : Spec.encFrom p (fullAt xs i) ((xs.drop i).take (j - i)) =
      metaWrite p e.ts ++ Spec.encFrom p (some e.ts) ((xs.drop i).take (j - i)) := by
    rw [hmid]; exact encFrom_opens p _ e _ hfull
  have hlenA : offA p xs j - offA p xs i = metaSize p + (Spec.encFrom p (some e.ts) ((xs.drop i).take (j - i))).length := by
    have := congrArg List.length hreg
    rw [henc, List.length_append, metaWrite_length] at this
    rw [← this, List.length_take, List.length_drop]
    have hle := offA_le_length p xs j
    have hmono := offA_mono p xs i j (Nat.le_of_lt hij)
    omega
  have hmono' := offA_mono p xs i j (Nat.le_of_lt hij)
  refine ⟨?_, by omega⟩
  rw [← List.drop_drop]
  have h1 : ((Spec.encode p xs).drop (offA p xs i)).take (offA p xs j - offA p xs i)
      = metaWrite p e.ts ++ Spec.encFrom p (some e.ts) ((xs.drop i).take (j - i)) := by rw [hreg, henc]
  have h2 := congrArg (List.drop (metaSize p)) h1
  rw [List.drop_take, List.drop_append_of_le_length (by rw [metaWrite_length]; omega)] at h2
  rw [← metaWrite_length p e.ts, List.drop_length, List.nil_append, metaWrite_length] at h2
  have : offA p xs j - (offA p xs i + metaSize p) = offA p xs j - offA p xs i - metaSize p := by omega
  rw [this]; exact h2

theorem unN_take2_encLine (d : Nat) (pl : Bytes) (hd : d < 65536) : unN ((Spec.encLine d pl).take 2) = d := by
  obtain ⟨a, b, h⟩ := le2_shape d
  have := unN_le2 d hd
  simp [Spec.encLine, h] at this ⊢
  exact this

/-- the 16-bit values the seek scans in group `k` are the deltas of its entries -/
theorem group_smallTss (p : Nat) (xs : List Entry) (hv : Valid p xs) (k : Nat) (g : List Entry) (e : Entry) (o : Nat)
    (hg : (groups xs)[k]? = some g) (ga : GroupAt p xs k g e o) :
    smallTss p (Spec.encode p xs) (o + metaSize p) (o + metaSize p + g.length * lineSize p)
      = g.map fun x => x.ts - e.ts := by
  obtain ⟨rest, hge⟩ := ga.head
  have hglen : 1 ≤ g.length := by rw [hge]; simp
  have hsplit := take_pre_add xs k g hg g.length (Nat.le_refl _)
  have hjle : pre (groups xs) k + g.length ≤ xs.length := by
    have := congrArg List.length hsplit.1
    simp only [List.length_append] at this
    unfold pre; omega
  have hB := region_between_B p xs (pre (groups xs) k) (pre (groups xs) k + g.length) (by omega) hjle e ga.opens
  rw [ga.offHead, ga.offLine g.length hglen (Nat.le_refl _)] at hB
  have hmid : (xs.drop (pre (groups xs) k)).take (pre (groups xs) k + g.length - pre (groups xs) k) = g := by
    rw [Nat.add_sub_cancel_left]
    have h : ((((groups xs).take k).flatten ++ g ++ ((groups xs).drop (k + 1)).flatten).drop
        (((groups xs).take k).flatten.length)).take g.length = g := by
      rw [List.append_assoc, List.drop_append_of_le_length (Nat.le_refl _), List.drop_length, List.nil_append,
        List.take_append_of_le_length (Nat.le_refl _), List.take_length]
    rw [← hsplit.1] at h
    exact h
  rw [hmid] at hB
  unfold smallTss
  have hsub : o + metaSize p + g.length * lineSize p - (o + metaSize p) = g.length * lineSize p := by omega
  have hsub2 : o + metaSize p + g.length * lineSize p - (o + metaSize p) = o + metaSize p + g.length * lineSize p - (o + metaSize p) := rfl
  rw [hB.1]
  have hwithin := encFrom_within p e.ts g ga.within []
  simp only [List.append_nil, Spec.encFrom] at hwithin
  rw [hwithin]
  have hpl : ∀ x ∈ g, x.pl.length = p := by
    intro x hx
    apply (hv.2 x _).2
    rw [hsplit.1]; simp [hx]
  have hlines : ∀ l ∈ g.map (fun x => Spec.encLine (x.ts - e.ts) x.pl), l.length = lineSize p := by
    intro l hl
    simp only [List.mem_map] at hl
    obtain ⟨x, hx, rfl⟩ := hl
    rw [encLine_length, hpl x hx]; rfl
  rw [toLines_flatten _ _ (lineSize_pos p) hlines, List.map_map]
  apply List.map_congr_left
  intro x hx
  simp only [Function.comp]
  exact unN_take2_encLine _ _ (by have := ga.within x hx; omega)

end BS.Impl

namespace BS.Impl

/-! ### binary search and prefix counting -/

theorem takeWhile_prefix_get {α} (q : α → Bool) (l : List α) (m : Nat) (x : α)
    (hm : m < (l.takeWhile q).length) (hx : l[m]? = some x) : q x = true := by
  induction l generalizing m with
  | nil => simp at hm
  | cons a t ih =>
    simp only [List.takeWhile_cons] at hm
    split at hm
    · rename_i ha
      cases m with
      | zero => simp at hx; subst hx; exact ha
      | succ m => simp at hx hm; exact ih m hm hx
    · simp at hm

theorem takeWhile_length_le' {α} (q : α → Bool) (l : List α) : (l.takeWhile q).length ≤ l.length := by
  induction l with
  | nil => simp
  | cons a t ih => simp only [List.takeWhile_cons]; split <;> simp <;> omega

theorem takeWhile_stop {α} (q : α → Bool) (l : List α) (x : α)
    (h : l[(l.takeWhile q).length]? = some x) : q x = false := by
  induction l with
  | nil => simp at h
  | cons a t ih =>
    simp only [List.takeWhile_cons] at h
    split at h
    · simp at h; exact ih h
    · rename_i ha; simp at h; subst h; simpa using ha

theorem bsearch_spec (es : List IEntry) (t : Nat) :
    (bsearch es t).2 ≤ es.length ∧
    (∀ m x, m < (bsearch es t).2 → es[m]? = some x → x.ts < t) ∧
    (∀ x, es[(bsearch es t).2]? = some x → t ≤ x.ts ∧ ((bsearch es t).1 = true ↔ x.ts = t)) ∧
    (es[(bsearch es t).2]? = none → (bsearch es t).1 = false) := by
  have hk : (bsearch es t).2 = (es.takeWhile fun e => decide (e.ts < t)).length := by
    unfold bsearch; simp only; split <;> rfl
  refine ⟨by rw [hk]; exact takeWhile_length_le' _ _, ?_, ?_, ?_⟩
  · intro m x hm hx
    rw [hk] at hm
    simpa using takeWhile_prefix_get _ es m x hm hx
  · intro x hx
    rw [hk] at hx
    have hstop := takeWhile_stop _ es x hx
    simp only [decide_eq_false_iff_not, Nat.not_lt] at hstop
    refine ⟨hstop, ?_⟩
    unfold bsearch
    simp only [hx]
    simp
  · intro hnone
    rw [hk] at hnone
    unfold bsearch
    simp only [hnone]

theorem findIdx?_takeWhile {α} (q : α → Bool) (l : List α) :
    l.findIdx? q = if (l.takeWhile (fun x => !q x)).length < l.length
      then some (l.takeWhile (fun x => !q x)).length else none := by
  induction l with
  | nil => simp
  | cons a t ih =>
    simp only [List.findIdx?_cons, List.takeWhile_cons]
    cases hq : q a
    · simp only [Bool.not_false, if_true, List.length_cons, Bool.false_eq_true, if_false]
      rw [ih]
      split <;> simp_all
    · simp

theorem pre_succ (G : List (List Entry)) (k : Nat) (g : List Entry) (hg : G[k]? = some g) :
    pre G (k + 1) = pre G k + g.length := by
  unfold pre
  have hk : k < G.length := by
    rcases List.getElem?_eq_some_iff.mp hg with ⟨h, _⟩; exact h
  rw [List.take_succ, hg]
  simp

/-- entries strictly before group `k` are older than its first entry; entries of the group are not -/
theorem group_order (p : Nat) (xs : List Entry) (hs : Sorted xs) (k : Nat) (g : List Entry) (e : Entry) (o : Nat)
    (ga : GroupAt p xs k g e o) :
    (∀ x ∈ ((groups xs).take k).flatten, x.ts < e.ts) ∧ (∀ x ∈ g, e.ts ≤ x.ts) ∧ Sorted g ∧
    (∀ x ∈ g, ∀ y ∈ ((groups xs).drop (k + 1)).flatten, x.ts < y.ts) := by
  obtain ⟨rest, hge⟩ := ga.head
  have hsplit := ga.split
  have hs' : Sorted (((groups xs).take k).flatten ++ g ++ ((groups xs).drop (k + 1)).flatten) := by
    rw [← hsplit]; exact hs
  have h1 := List.pairwise_append.mp hs'
  have h2 := List.pairwise_append.mp h1.1
  refine ⟨fun x hx => h2.2.2 x hx e (by simp [hge]), ?_, h2.2.1, ?_⟩
  · intro x hx
    rw [hge] at hx h2
    simp only [List.mem_cons] at hx
    rcases hx with rfl | hx
    · exact Nat.le_refl _
    · exact Nat.le_of_lt ((List.pairwise_cons.mp h2.2.1).1 x hx)
  · intro x hx y hy
    exact h1.2.2 x (by simp [hx]) y hy

end BS.Impl

namespace BS.Impl

theorem tw_len_start (g : List Entry) (e t : Nat) (h : ∀ x ∈ g, e ≤ x.ts) (ht : e < t) :
    ((g.map fun x => x.ts - e).takeWhile fun d => !decide (d ≥ t - e)).length
      = (g.takeWhile fun x => decide (x.ts < t)).length := by
  induction g with
  | nil => simp
  | cons x g ih =>
    have hx := h x (by simp)
    simp only [List.map_cons, List.takeWhile_cons]
    by_cases hlt : x.ts < t
    · have h1 : (!decide (x.ts - e ≥ t - e)) = true := by simp; omega
      simp only [h1, hlt, decide_true, if_true, List.length_cons]
      rw [ih (fun y hy => h y (by simp [hy]))]
    · have h1 : (!decide (x.ts - e ≥ t - e)) = false := by simp; omega
      simp [hlt]; omega

/-- number of entries of `g` older than `t` -/
def cntLt (g : List Entry) (t : Nat) : Nat := (g.takeWhile fun x => decide (x.ts < t)).length

theorem cntLt_le (g : List Entry) (t : Nat) : cntLt g t ≤ g.length := takeWhile_length_le' _ _

/-- **`find_read_start` inside group `k`**: it lands on the first line of the group that
is not older than `t` (or on the end of the group). -/
theorem findReadStart_group (p : Nat) (xs : List Entry) (hv : Valid p xs) (k : Nat) (g : List Entry) (e : Entry) (o : Nat)
    (hg : (groups xs)[k]? = some g) (ga : GroupAt p xs k g e o) (t : Nat) (ht : e.ts < t) :
    findReadStart p (Spec.encode p xs) (t - e.ts) (o + metaSize p) (o + metaSize p + g.length * lineSize p)
      = o + metaSize p + cntLt g t * lineSize p ∧ 1 ≤ cntLt g t := by
  obtain ⟨rest, hge⟩ := ga.head
  have hord := group_order p xs hv.1 k g e o ga
  have hr1 : 1 ≤ cntLt g t := by
    unfold cntLt; rw [hge]; simp [List.takeWhile_cons, ht]
  refine ⟨?_, hr1⟩
  unfold findReadStart
  have hls := lineSize_pos p
  by_cases hone : o + metaSize p + g.length * lineSize p ≤ o + metaSize p + lineSize p
  · simp only [hone, if_true]
    have hlen : g.length = 1 := by
      have h1 : g.length * lineSize p ≤ 1 * lineSize p := by omega
      have := Nat.le_of_mul_le_mul_right h1 hls
      have : 1 ≤ g.length := by rw [hge]; simp
      omega
    have := cntLt_le g t
    have : cntLt g t = 1 := by omega
    rw [this, hlen]
  · simp only [hone, if_false]
    rw [group_smallTss p xs hv k g e o hg ga, findIdx?_takeWhile]
    have htw := tw_len_start g e.ts t hord.2.1 ht
    simp only [List.length_map]
    rw [htw]
    have hc : (List.takeWhile (fun x => decide (x.ts < t)) g).length = cntLt g t := rfl
    rw [hc]
    by_cases hlt : cntLt g t < g.length
    · simp [hlt]
    · have := cntLt_le g t
      have : cntLt g t = g.length := by omega
      simp [hlt, this]

end BS.Impl

namespace BS.Impl

/-- what the seek needs to know about the `Data` it runs on: it holds the canonical files of `xs` -/
structure SeekCtx (p : Nat) (xs : List Entry) (v : DataView) : Prop where
  valid : Valid p xs
  p_eq : v.p = p
  dataLen : v.dataLen = (Spec.encode p xs).length
  entries : v.entries = toIEntries (secsOf p 0 (groups xs))

/-- byte `B` with full timestamp `full` is a correct place to start reading the entries `≥ t` -/
def StartOK (p : Nat) (xs : List Entry) (t B full : Nat) : Prop :=
  ∃ i, i ≤ xs.length ∧ (∀ x ∈ xs.take i, x.ts < t) ∧ (∀ x, xs[i]? = some x → t ≤ x.ts) ∧
    ((B = offA p xs i ∧ ∀ f', fullAt xs i = some f' → full = f') ∨
     (∃ e, Opens xs i e ∧ B = offA p xs i + metaSize p ∧ full = e.ts))

theorem secsOf_length (p : Nat) (G : List (List Entry)) : ∀ off, (secsOf p off G).length = G.length := by
  induction G with
  | nil => intro off; simp [secsOf]
  | cons g gs ih => intro off; simp [secsOf, ih]

theorem entry_group (p : Nat) (xs : List Entry) (v : DataView) (ctx : SeekCtx p xs v) (k : Nat) (x : IEntry)
    (hx : v.entries[k]? = some x) :
    ∃ g e, (groups xs)[k]? = some g ∧ x.ts = e.ts ∧ GroupAt p xs k g e x.off := by
  rw [ctx.entries] at hx
  simp only [toIEntries, List.getElem?_map, Option.map_eq_some_iff] at hx
  obtain ⟨⟨f, o⟩, hs, rfl⟩ := hx
  have hk : k < (groups xs).length := by
    have := (List.getElem?_eq_some_iff.mp hs).1
    rwa [secsOf_length] at this
  obtain ⟨g, hg⟩ : ∃ g, (groups xs)[k]? = some g := ⟨_, List.getElem?_eq_getElem hk⟩
  obtain ⟨e, hf, ga⟩ := group_at p xs (fun y hy => (ctx.valid.2 y hy).2) k g f o hg hs
  exact ⟨g, e, hg, hf, ga⟩

theorem take_takeWhile_length {α} (q : α → Bool) (l : List α) : l.take (l.takeWhile q).length = l.takeWhile q := by
  induction l with
  | nil => simp
  | cons a t ih =>
    simp only [List.takeWhile_cons]
    split
    · simp [ih]
    · simp

theorem mem_takeWhile_sat {α} (q : α → Bool) (l : List α) (x : α) (h : x ∈ l.takeWhile q) : q x = true := by
  induction l with
  | nil => simp at h
  | cons a t ih =>
    simp only [List.takeWhile_cons] at h
    split at h
    · rename_i ha
      simp only [List.mem_cons] at h
      rcases h with rfl | h
      · exact ha
      · exact ih h
    · simp at h

/-- landing inside (or at the end of) group `k` after counting its entries older than `t` -/
theorem startOK_in_group (p : Nat) (xs : List Entry) (hv : Valid p xs) (k : Nat) (g : List Entry) (e : Entry) (o : Nat)
    (hg : (groups xs)[k]? = some g) (ga : GroupAt p xs k g e o) (t : Nat) (ht : e.ts < t)
    (hnext : cntLt g t = g.length → ∀ x, xs[pre (groups xs) k + g.length]? = some x → t ≤ x.ts) :
    StartOK p xs t (o + metaSize p + cntLt g t * lineSize p) e.ts := by
  have hord := group_order p xs hv.1 k g e o ga
  have hr1 : 1 ≤ cntLt g t := by
    obtain ⟨rest, hge⟩ := ga.head
    unfold cntLt; rw [hge]; simp [ht]
  have hrle := cntLt_le g t
  have htk := take_pre_add xs k g hg (cntLt g t) hrle
  refine ⟨pre (groups xs) k + cntLt g t, ?_, ?_, ?_, Or.inl ⟨?_, ?_⟩⟩
  · have := congrArg List.length htk.1
    simp only [List.length_append] at this
    unfold pre; omega
  · intro x hx
    rw [htk.2] at hx
    simp only [List.mem_append] at hx
    rcases hx with hx | hx
    · have := hord.1 x hx; omega
    · -- a prefix cut by takeWhile
      have hpre : g.take (cntLt g t) = g.takeWhile fun x => decide (x.ts < t) :=
        take_takeWhile_length _ g
      rw [hpre] at hx
      have := mem_takeWhile_sat _ g x hx
      simpa using this
  · intro x hx
    by_cases hlt : cntLt g t < g.length
    · -- xs[pre + r] = g[r], where takeWhile stopped
      have hget : xs[pre (groups xs) k + cntLt g t]? = g[cntLt g t]? := by
        have h : (((groups xs).take k).flatten ++ g ++ ((groups xs).drop (k + 1)).flatten)[
            ((groups xs).take k).flatten.length + cntLt g t]? = g[cntLt g t]? := by
          rw [List.append_assoc, List.getElem?_append_right (by omega)]
          simp only [Nat.add_sub_cancel_left]
          rw [List.getElem?_append_left hlt]
        rw [← htk.1] at h
        exact h
      rw [hget] at hx
      have := takeWhile_stop (fun (x : Entry) => decide (x.ts < t)) g x hx
      simpa using this
    · have heq : cntLt g t = g.length := by omega
      rw [heq] at hx
      exact hnext heq x hx
  · rw [ga.offLine _ hr1 hrle]
  · intro f' hf'
    rw [ga.fullLine _ hr1 hrle] at hf'
    exact (Option.some.inj hf')

end BS.Impl

namespace BS.Impl

theorem groupAt_zero_head (p : Nat) (xs : List Entry) (g : List Entry) (e : Entry) (o : Nat)
    (ga : GroupAt p xs 0 g e o) : xs.head? = some e := by
  have := ga.opens.1
  simp only [pre, List.take_zero, List.flatten_nil, List.length_nil] at this
  cases xs with
  | nil => simp at this
  | cons x xs => simpa using this

/-- the whole of `xs` up to and including group `k` -/
theorem take_through_group (xs : List Entry) (k : Nat) (g : List Entry) (hg : (groups xs)[k]? = some g) :
    xs.take (pre (groups xs) (k + 1)) = ((groups xs).take k).flatten ++ g := by
  rw [pre_succ _ k g hg]
  have := (take_pre_add xs k g hg g.length (Nat.le_refl _)).2
  simpa using this

/-- **T7, start side**: for a start time inside the data range the seek picks a correct start -/
theorem start_correct (p : Nat) (xs : List Entry) (v : DataView) (ctx : SeekCtx p xs v) (t : Nat)
    (hfirst : ∀ x, xs.head? = some x → x.ts ≤ t) (hlast : ∃ l ∈ xs, t ≤ l.ts)
    (et : Nat) (ea : EndArea) (ef : Nat) :
    ∃ sa sf B, startSearchBounds v t = .ok (sa, sf) ∧
      refineStart v (Spec.encode p xs) ⟨t, sa, sf, et, ea, ef⟩ = .ok B ∧ StartOK p xs t B sf := by
  obtain ⟨hkle, hB1, hB2, hB3⟩ := bsearch_spec v.entries t
  have hv := ctx.valid
  unfold startSearchBounds
  simp only
  cases hek : v.entries[(bsearch v.entries t).2]? with
  | some x =>
    obtain ⟨htx, hhit⟩ := hB2 x hek
    obtain ⟨g, e, hg, hxe, ga⟩ := entry_group p xs v ctx _ x hek
    have hord := group_order p xs hv.1 _ g e x.off ga
    by_cases hit : (bsearch v.entries t).1 = true
    · -- exact hit on a section timestamp
      have hxt : x.ts = t := hhit.mp hit
      simp only [hit, if_true]
      refine ⟨_, _, _, rfl, rfl, ?_⟩
      refine ⟨pre (groups xs) (bsearch v.entries t).2, ?_, ?_, ?_, Or.inr ⟨e, ga.opens, ?_, ?_⟩⟩
      · have := (List.getElem?_eq_some_iff.mp ga.opens.1).1; omega
      · intro y hy
        have h0 := (take_pre_add xs _ g hg 0 (Nat.zero_le _)).2
        simp only [Nat.add_zero, List.take_zero, List.append_nil] at h0
        rw [h0] at hy
        have := hord.1 y hy; omega
      · intro y hy
        rw [ga.opens.1] at hy; cases hy; omega
      · simp only [lineStart, ctx.p_eq, ga.offHead]
      · omega
    · have hit' : (bsearch v.entries t).1 = false := by simpa using hit
      have hlt : t < x.ts := by
        have : x.ts ≠ t := fun h => hit (hhit.mpr h)
        omega
      simp only [hit', Bool.false_eq_true, if_false]
      by_cases hk0 : (bsearch v.entries t).2 = 0
      · -- impossible: the first section starts at the first entry, which is not after t
        exfalso
        rw [hk0] at hg ga
        have hh := groupAt_zero_head p xs g e x.off ga
        have := hfirst e hh
        omega
      · have hnl : (bsearch v.entries t).2 ≠ v.entries.length := by
          have := (List.getElem?_eq_some_iff.mp hek).1; omega
        simp only [hk0, hnl, if_false]
        -- the section before
        obtain ⟨k', hk'⟩ : ∃ k', (bsearch v.entries t).2 = k' + 1 := ⟨(bsearch v.entries t).2 - 1, by omega⟩
        rw [hk'] at hek hg ga ⊢
        simp only [Nat.add_sub_cancel]
        have hprev_ex : k' < v.entries.length := by omega
        obtain ⟨pv, hpv⟩ : ∃ pv, v.entries[k']? = some pv := ⟨_, List.getElem?_eq_getElem hprev_ex⟩
        obtain ⟨g', e', hg', hpe, ga'⟩ := entry_group p xs v ctx k' pv hpv
        have hord' := group_order p xs hv.1 k' g' e' pv.off ga'
        have hpvlt : pv.ts < t := hB1 k' pv (by omega) hpv
        simp only [hpv, hek]
        have htake := take_through_group xs k' g' hg'
        have hxoff : x.off = pv.off + metaSize p + g'.length * lineSize p := by
          have h1 := ga.offHead
          rw [pre_succ _ k' g' hg'] at h1
          have hglen : 1 ≤ g'.length := by obtain ⟨r, hr⟩ := ga'.head; rw [hr]; simp
          rw [ga'.offLine g'.length hglen (Nat.le_refl _)] at h1
          omega
        have hnext_ge : ∀ y, xs[pre (groups xs) k' + g'.length]? = some y → t ≤ y.ts := by
          intro y hy
          rw [← pre_succ _ k' g' hg', ga.opens.1] at hy
          cases hy; omega
        by_cases hgap : inGap t pv.ts = true
        · simp only [hgap, if_true]
          refine ⟨_, _, _, rfl, rfl, ?_⟩
          refine ⟨pre (groups xs) (k' + 1), ?_, ?_, ?_, Or.inr ⟨e, ga.opens, ?_, ?_⟩⟩
          · have := (List.getElem?_eq_some_iff.mp ga.opens.1).1; omega
          · intro y hy
            rw [htake] at hy
            simp only [List.mem_append] at hy
            have hg2 : t > pv.ts + 65534 := by
              simpa [inGap, maxSmallTs_eq] using hgap
            rcases hy with hy | hy
            · have := hord'.1 y hy; omega
            · have := ga'.within y hy; omega
          · intro y hy
            rw [ga.opens.1] at hy; cases hy; omega
          · simp only [lineStart, ctx.p_eq, ga.offHead]
          · exact hxe
        · have hgap' : inGap t pv.ts = false := by simpa using hgap
          have hnge : ¬ t ≥ x.ts := by omega
          simp only [hgap', Bool.false_eq_true, if_false, hnge]
          have hsmall : t - pv.ts ≤ 65534 := by
            have : ¬ t > pv.ts + 65534 := by simpa [inGap, maxSmallTs_eq] using hgap'
            omega
          have hso : smallOf t pv.ts = .ok (t - pv.ts) := by
            unfold smallOf
            have h1 : ¬ t < pv.ts := by omega
            have h2 : ¬ t - pv.ts > maxSmallTs := by rw [maxSmallTs_eq]; omega
            simp [h1, h2]
          have hfr := findReadStart_group p xs hv k' g' e' pv.off hg' ga' t (by omega)
          refine ⟨_, _, pv.off + metaSize p + cntLt g' t * lineSize p, rfl, ?_, ?_⟩
          · simp only [refineStart, hso, bind, Except.bind, pure, Except.pure, lineStart, ctx.p_eq, hxoff]
            rw [hpe, hfr.1]
          · rw [hpe]
            exact startOK_in_group p xs hv k' g' e' pv.off hg' ga' t (by omega) (fun _ => hnext_ge)
  | none =>
    have hit' : (bsearch v.entries t).1 = false := hB3 hek
    have hklen : (bsearch v.entries t).2 = v.entries.length := by
      have := List.getElem?_eq_none_iff.mp hek; omega
    simp only [hit', Bool.false_eq_true, if_false]
    -- the index is not empty
    obtain ⟨l, hl, htl⟩ := hlast
    have hne : xs ≠ [] := by intro h; rw [h] at hl; simp at hl
    have hGne : (groups xs) ≠ [] := by
      intro h
      have := groups_flatten xs
      rw [h] at this
      simp at this
      exact hne this
    have helen : v.entries.length = (groups xs).length := by
      rw [ctx.entries]; simp [toIEntries, secsOf_length]
    have hpos : 0 < v.entries.length := by
      rw [helen]; exact List.length_pos_iff.mpr hGne
    have hl0 : ¬ v.entries.length = 0 := by omega
    simp only [hklen, hl0, if_false, if_true]
    obtain ⟨pv, hpv⟩ : ∃ pv, v.entries[v.entries.length - 1]? = some pv :=
      ⟨_, List.getElem?_eq_getElem (by omega)⟩
    obtain ⟨g', e', hg', hpe, ga'⟩ := entry_group p xs v ctx _ pv hpv
    have hord' := group_order p xs hv.1 _ g' e' pv.off ga'
    have hpvlt : pv.ts < t := hB1 _ pv (by omega) hpv
    simp only [hpv]
    -- the last group runs to the end of the data
    have hdrop : (groups xs).drop (v.entries.length - 1 + 1) = [] := by
      apply List.drop_eq_nil_of_le; omega
    have hsplit := ga'.split
    rw [hdrop] at hsplit
    simp only [List.flatten_nil, List.append_nil] at hsplit
    have hlenx : xs.length = pre (groups xs) (v.entries.length - 1) + g'.length := by
      have := congrArg List.length hsplit
      simp only [List.length_append] at this
      unfold pre; omega
    have hglen : 1 ≤ g'.length := by obtain ⟨r, hr⟩ := ga'.head; rw [hr]; simp
    have hdl : v.dataLen = pv.off + metaSize p + g'.length * lineSize p := by
      rw [ctx.dataLen, ← ga'.offLine g'.length hglen (Nat.le_refl _), ← hlenx]
      unfold offA; simp
    have hlmem : l ∈ ((groups xs).take (v.entries.length - 1)).flatten ∨ l ∈ g' := by
      rw [hsplit] at hl; simpa using hl
    have hsmall : t - pv.ts ≤ 65534 := by
      rcases hlmem with h | h
      · have := hord'.1 l h; omega
      · have := ga'.within l h; omega
    have hso : smallOf t pv.ts = .ok (t - pv.ts) := by
      unfold smallOf
      have h1 : ¬ t < pv.ts := by omega
      have h2 : ¬ t - pv.ts > maxSmallTs := by rw [maxSmallTs_eq]; omega
      simp [h1, h2]
    have hfr := findReadStart_group p xs hv _ g' e' pv.off hg' ga' t (by omega)
    refine ⟨_, _, pv.off + metaSize p + cntLt g' t * lineSize p, rfl, ?_, ?_⟩
    · simp only [refineStart, hso, bind, Except.bind, pure, Except.pure, lineStart, ctx.p_eq, hdl]
      rw [hpe, hfr.1]
    · rw [hpe]
      refine startOK_in_group p xs hv _ g' e' pv.off hg' ga' t (by omega) ?_
      intro _ y hy
      rw [← hlenx] at hy
      simp at hy

end BS.Impl

namespace BS.Impl

/-! ### end side -/

/-- byte `B` is the correct place to stop reading the entries `≤ t` -/
def EndOK (p : Nat) (xs : List Entry) (t B : Nat) : Prop :=
  ∃ j, j ≤ xs.length ∧ (∀ x ∈ xs.take j, x.ts ≤ t) ∧ (∀ x, xs[j]? = some x → t < x.ts) ∧ B = offA p xs j

theorem findIdx?_first {α} (q : α → Bool) (X : List α) (a : α) (Y : List α)
    (hX : ∀ x ∈ X, q x = false) (ha : q a = true) : (X ++ a :: Y).findIdx? q = some X.length := by
  induction X with
  | nil => simp [List.findIdx?_cons, ha]
  | cons x X ih =>
    have hx : q x = false := hX x (by simp)
    simp only [List.cons_append, List.findIdx?_cons, hx, Bool.false_eq_true, if_false, List.length_cons]
    rw [ih (fun y hy => hX y (by simp [hy]))]
    simp

theorem findIdx?_none {α} (q : α → Bool) (X : List α) (hX : ∀ x ∈ X, q x = false) : X.findIdx? q = none := by
  induction X with
  | nil => simp
  | cons x X ih =>
    have hx : q x = false := hX x (by simp)
    simp only [List.findIdx?_cons, hx, Bool.false_eq_true, if_false]
    rw [ih (fun y hy => hX y (by simp [hy]))]
    simp

/-- `rposition` on a list whose satisfying elements form a non-empty prefix `A` -/
theorem rposition_prefix (q : Nat → Bool) (A B : List Nat) (hA : ∀ x ∈ A, q x = true) (hB : ∀ x ∈ B, q x = false)
    (hne : A ≠ []) : rposition q (A ++ B) = some (A.length - 1) := by
  unfold rposition
  obtain ⟨a, A', hA'⟩ : ∃ a A', A.reverse = a :: A' := by
    cases h : A.reverse with
    | nil => simp at h; exact absurd h hne
    | cons a A' => exact ⟨a, A', rfl⟩
  have hrev : (A ++ B).reverse = B.reverse ++ a :: A' := by simp [hA']
  rw [hrev, findIdx?_first q B.reverse a A' (by intro x hx; exact hB x (by simpa using hx))
    (hA a (by have : a ∈ A.reverse := by rw [hA']; simp
              simpa using this))]
  simp only [List.length_reverse, List.length_append]
  have : 0 < A.length := List.length_pos_iff.mpr hne
  congr 1; omega

/-- number of entries of `g` not newer than `t` -/
def cntLe (g : List Entry) (t : Nat) : Nat := (g.takeWhile fun x => decide (x.ts ≤ t)).length

theorem cntLe_le (g : List Entry) (t : Nat) : cntLe g t ≤ g.length := takeWhile_length_le' _ _

theorem dropWhile_sorted_all (g : List Entry) (t : Nat) (hs : Sorted g) :
    ∀ x ∈ g.dropWhile (fun x => decide (x.ts ≤ t)), t < x.ts := by
  induction g with
  | nil => simp
  | cons a g ih =>
    have hsg : Sorted g := (List.pairwise_cons.mp hs).2
    have hlt : ∀ y ∈ g, a.ts < y.ts := (List.pairwise_cons.mp hs).1
    simp only [List.dropWhile_cons]
    split
    · exact ih hsg
    · rename_i ha
      have hat : t < a.ts := by simpa using ha
      intro x hx
      simp only [List.mem_cons] at hx
      rcases hx with rfl | hx
      · exact hat
      · have := hlt x hx; omega

/-- **`find_read_end` inside group `k`**: it lands just after the last line not newer than `t` -/
theorem findReadEnd_group (p : Nat) (xs : List Entry) (hv : Valid p xs) (k : Nat) (g : List Entry) (e : Entry) (o : Nat)
    (hg : (groups xs)[k]? = some g) (ga : GroupAt p xs k g e o) (t : Nat) (ht : e.ts ≤ t) :
    findReadEnd p (Spec.encode p xs) (t - e.ts) (o + metaSize p) (o + metaSize p + g.length * lineSize p)
      = .ok (o + metaSize p + cntLe g t * lineSize p) ∧ 1 ≤ cntLe g t := by
  obtain ⟨rest, hge⟩ := ga.head
  have hord := group_order p xs hv.1 k g e o ga
  have hr1 : 1 ≤ cntLe g t := by
    unfold cntLe; rw [hge]; simp [ht]
  refine ⟨?_, hr1⟩
  unfold findReadEnd
  have hnot : ¬ (o + metaSize p + g.length * lineSize p < o + metaSize p) := by omega
  simp only [hnot, if_false]
  rw [group_smallTss p xs hv k g e o hg ga]
  -- split the deltas at the takeWhile point
  have hsplit : g = g.takeWhile (fun x => decide (x.ts ≤ t)) ++ g.dropWhile (fun x => decide (x.ts ≤ t)) :=
    (List.takeWhile_append_dropWhile).symm
  have hA : ∀ d ∈ (g.takeWhile (fun x => decide (x.ts ≤ t))).map (fun x => x.ts - e.ts),
      (fun d => decide (d ≤ t - e.ts)) d = true := by
    intro d hd
    simp only [List.mem_map] at hd
    obtain ⟨x, hx, rfl⟩ := hd
    have := mem_takeWhile_sat _ g x hx
    simp only [decide_eq_true_eq] at this ⊢
    omega
  have hB : ∀ d ∈ (g.dropWhile (fun x => decide (x.ts ≤ t))).map (fun x => x.ts - e.ts),
      (fun d => decide (d ≤ t - e.ts)) d = false := by
    intro d hd
    simp only [List.mem_map] at hd
    obtain ⟨x, hx, rfl⟩ := hd
    have hgt := dropWhile_sorted_all g t hord.2.2.1 x hx
    have hxe : e.ts ≤ x.ts := hord.2.1 x (by
      have : x ∈ g := by rw [hsplit]; exact List.mem_append_right _ hx
      exact this)
    simp only [decide_eq_false_iff_not, Nat.not_le]
    omega
  have hmap : g.map (fun x => x.ts - e.ts) =
      (g.takeWhile (fun x => decide (x.ts ≤ t))).map (fun x => x.ts - e.ts) ++
      (g.dropWhile (fun x => decide (x.ts ≤ t))).map (fun x => x.ts - e.ts) := by
    conv => lhs; rw [hsplit]
    rw [List.map_append]
  have hne : (g.takeWhile (fun x => decide (x.ts ≤ t))).map (fun x => x.ts - e.ts) ≠ [] := by
    intro h
    have := congrArg List.length h
    simp only [List.length_map, List.length_nil] at this
    unfold cntLe at hr1; omega
  rw [hmap, rposition_prefix _ _ _ hA hB hne]
  simp only [List.length_map]
  have hc : (g.takeWhile (fun x => decide (x.ts ≤ t))).length = cntLe g t := rfl
  rw [hc]
  have : cntLe g t - 1 + 1 = cntLe g t := by omega
  rw [this]

theorem sorted_get_lt (xs : List Entry) (hs : Sorted xs) (i j : Nat) (a b : Entry) (hij : i < j)
    (ha : xs[i]? = some a) (hb : xs[j]? = some b) : a.ts < b.ts := by
  obtain ⟨hi, hai⟩ := List.getElem?_eq_some_iff.mp ha
  obtain ⟨hj, hbj⟩ := List.getElem?_eq_some_iff.mp hb
  have := List.pairwise_iff_getElem.mp hs i j hi hj hij
  rw [hai, hbj] at this
  exact this

/-- landing inside (or at the end of) group `k` after counting its entries not newer than `t` -/
theorem endOK_in_group (p : Nat) (xs : List Entry) (hv : Valid p xs) (k : Nat) (g : List Entry) (e : Entry) (o : Nat)
    (hg : (groups xs)[k]? = some g) (ga : GroupAt p xs k g e o) (t : Nat) (ht : e.ts ≤ t)
    (hnext : cntLe g t = g.length → ∀ x, xs[pre (groups xs) k + g.length]? = some x → t < x.ts) :
    EndOK p xs t (o + metaSize p + cntLe g t * lineSize p) := by
  have hord := group_order p xs hv.1 k g e o ga
  have hr1 : 1 ≤ cntLe g t := by
    obtain ⟨rest, hge⟩ := ga.head
    unfold cntLe; rw [hge]; simp [ht]
  have hrle := cntLe_le g t
  have htk := take_pre_add xs k g hg (cntLe g t) hrle
  refine ⟨pre (groups xs) k + cntLe g t, ?_, ?_, ?_, ?_⟩
  · have := congrArg List.length htk.1
    simp only [List.length_append] at this
    unfold pre; omega
  · intro x hx
    rw [htk.2] at hx
    simp only [List.mem_append] at hx
    rcases hx with hx | hx
    · have := hord.1 x hx; omega
    · have hpre : g.take (cntLe g t) = g.takeWhile fun x => decide (x.ts ≤ t) := take_takeWhile_length _ g
      rw [hpre] at hx
      have := mem_takeWhile_sat _ g x hx
      simpa using this
  · intro x hx
    by_cases hlt : cntLe g t < g.length
    · have hget : xs[pre (groups xs) k + cntLe g t]? = g[cntLe g t]? := by
        have h : (((groups xs).take k).flatten ++ g ++ ((groups xs).drop (k + 1)).flatten)[
            ((groups xs).take k).flatten.length + cntLe g t]? = g[cntLe g t]? := by
          rw [List.append_assoc, List.getElem?_append_right (by omega)]
          simp only [Nat.add_sub_cancel_left]
          rw [List.getElem?_append_left hlt]
        rw [← htk.1] at h
        exact h
      rw [hget] at hx
      have := takeWhile_stop (fun (x : Entry) => decide (x.ts ≤ t)) g x hx
      simpa using this
    · have heq : cntLe g t = g.length := by omega
      rw [heq] at hx
      exact hnext heq x hx
  · rw [ga.offLine _ hr1 hrle]

end BS.Impl

namespace BS.Impl

/-- **T7, end side**: for an end time inside the data range the seek picks a correct end -/
theorem end_correct (p : Nat) (xs : List Entry) (v : DataView) (ctx : SeekCtx p xs v) (t : Nat)
    (hfirst : ∀ x, xs.head? = some x → x.ts ≤ t) (hlast : ∃ l ∈ xs, t ≤ l.ts)
    (st : Nat) (sa : StartArea) (sf : Nat) :
    ∃ ea ef B, endSearchBounds v t = .ok (ea, ef) ∧
      refineEnd v (Spec.encode p xs) ⟨st, sa, sf, t, ea, ef⟩ = .ok B ∧ EndOK p xs t B := by
  obtain ⟨hkle, hB1, hB2, hB3⟩ := bsearch_spec v.entries t
  have hv := ctx.valid
  unfold endSearchBounds
  simp only
  cases hek : v.entries[(bsearch v.entries t).2]? with
  | some x =>
    obtain ⟨htx, hhit⟩ := hB2 x hek
    obtain ⟨g, e, hg, hxe, ga⟩ := entry_group p xs v ctx _ x hek
    have hord := group_order p xs hv.1 _ g e x.off ga
    by_cases hit : (bsearch v.entries t).1 = true
    · -- exact hit: read up to and including the first line of that section
      have hxt : x.ts = t := hhit.mp hit
      simp only [hit, if_true]
      refine ⟨_, _, _, rfl, rfl, ?_⟩
      have hglen : 1 ≤ g.length := by obtain ⟨r, hr⟩ := ga.head; rw [hr]; simp
      have htk := take_pre_add xs _ g hg 1 hglen
      refine ⟨pre (groups xs) (bsearch v.entries t).2 + 1, ?_, ?_, ?_, ?_⟩
      · have := (List.getElem?_eq_some_iff.mp ga.opens.1).1; omega
      · intro y hy
        rw [htk.2] at hy
        obtain ⟨rest, hge⟩ := ga.head
        simp only [hge, List.take_succ_cons, List.take_zero, List.mem_append, List.mem_singleton] at hy
        rcases hy with hy | rfl
        · have := hord.1 y hy; omega
        · omega
      · intro y hy
        have := sorted_get_lt xs hv.1 _ _ e y (Nat.lt_succ_self _) ga.opens.1 hy
        omega
      · simp only [lineStart, ctx.p_eq]
        rw [ga.offLine 1 (Nat.le_refl _) hglen]
        omega
    · have hit' : (bsearch v.entries t).1 = false := by simpa using hit
      have hlt : t < x.ts := by
        have : x.ts ≠ t := fun h => hit (hhit.mpr h)
        omega
      simp only [hit', Bool.false_eq_true, if_false]
      by_cases hk0 : (bsearch v.entries t).2 = 0
      · exfalso
        rw [hk0] at hg ga
        have hh := groupAt_zero_head p xs g e x.off ga
        have := hfirst e hh
        omega
      · have hnl : (bsearch v.entries t).2 ≠ v.entries.length := by
          have := (List.getElem?_eq_some_iff.mp hek).1; omega
        simp only [hk0, hnl, if_false]
        obtain ⟨k', hk'⟩ : ∃ k', (bsearch v.entries t).2 = k' + 1 := ⟨(bsearch v.entries t).2 - 1, by omega⟩
        rw [hk'] at hek hg ga ⊢
        simp only [Nat.add_sub_cancel]
        have hprev_ex : k' < v.entries.length := by omega
        obtain ⟨pv, hpv⟩ : ∃ pv, v.entries[k']? = some pv := ⟨_, List.getElem?_eq_getElem hprev_ex⟩
        obtain ⟨g', e', hg', hpe, ga'⟩ := entry_group p xs v ctx k' pv hpv
        have hord' := group_order p xs hv.1 k' g' e' pv.off ga'
        have hpvlt : pv.ts < t := hB1 k' pv (by omega) hpv
        simp only [hpv, hek]
        have htake := take_through_group xs k' g' hg'
        have hxoff : x.off = pv.off + metaSize p + g'.length * lineSize p := by
          have h1 := ga.offHead
          rw [pre_succ _ k' g' hg'] at h1
          have hglen : 1 ≤ g'.length := by obtain ⟨r, hr⟩ := ga'.head; rw [hr]; simp
          rw [ga'.offLine g'.length hglen (Nat.le_refl _)] at h1
          omega
        have hnext_gt : ∀ y, xs[pre (groups xs) k' + g'.length]? = some y → t < y.ts := by
          intro y hy
          rw [← pre_succ _ k' g' hg', ga.opens.1] at hy
          cases hy; omega
        by_cases hgap : inGap t pv.ts = true
        · simp only [hgap, if_true]
          refine ⟨_, _, _, rfl, rfl, ?_⟩
          refine ⟨pre (groups xs) (k' + 1), ?_, ?_, ?_, ?_⟩
          · have := (List.getElem?_eq_some_iff.mp ga.opens.1).1; omega
          · intro y hy
            rw [htake] at hy
            simp only [List.mem_append] at hy
            have hg2 : t > pv.ts + 65534 := by
              simpa [inGap, maxSmallTs_eq] using hgap
            rcases hy with hy | hy
            · have := hord'.1 y hy; omega
            · have := ga'.within y hy; omega
          · intro y hy
            rw [ga.opens.1] at hy; cases hy; omega
          · exact ga.offHead.symm
        · have hgap' : inGap t pv.ts = false := by simpa using hgap
          simp only [hgap', Bool.false_eq_true, if_false]
          have hsmall : t - pv.ts ≤ 65534 := by
            have : ¬ t > pv.ts + 65534 := by simpa [inGap, maxSmallTs_eq] using hgap'
            omega
          have hso : smallOf t pv.ts = .ok (t - pv.ts) := by
            unfold smallOf
            have h1 : ¬ t < pv.ts := by omega
            have h2 : ¬ t - pv.ts > maxSmallTs := by rw [maxSmallTs_eq]; omega
            simp [h1, h2]
          have hfr := findReadEnd_group p xs hv k' g' e' pv.off hg' ga' t (by omega)
          refine ⟨_, _, pv.off + metaSize p + cntLe g' t * lineSize p, rfl, ?_, ?_⟩
          · simp only [refineEnd, hso, bind, Except.bind, pure, Except.pure, lineStart, ctx.p_eq, hxoff]
            rw [hpe, hfr.1]
          · exact endOK_in_group p xs hv k' g' e' pv.off hg' ga' t (by omega) (fun _ => hnext_gt)
  | none =>
    have hit' : (bsearch v.entries t).1 = false := hB3 hek
    have hklen : (bsearch v.entries t).2 = v.entries.length := by
      have := List.getElem?_eq_none_iff.mp hek; omega
    simp only [hit', Bool.false_eq_true, if_false]
    obtain ⟨l, hl, htl⟩ := hlast
    have hne : xs ≠ [] := by intro h; rw [h] at hl; simp at hl
    have hGne : (groups xs) ≠ [] := by
      intro h
      have := groups_flatten xs
      rw [h] at this
      simp at this
      exact hne this
    have helen : v.entries.length = (groups xs).length := by
      rw [ctx.entries]; simp [toIEntries, secsOf_length]
    have hpos : 0 < v.entries.length := by
      rw [helen]; exact List.length_pos_iff.mpr hGne
    have hl0 : ¬ v.entries.length = 0 := by omega
    simp only [hklen, hl0, if_false, if_true]
    obtain ⟨pv, hpv⟩ : ∃ pv, v.entries[v.entries.length - 1]? = some pv :=
      ⟨_, List.getElem?_eq_getElem (by omega)⟩
    obtain ⟨g', e', hg', hpe, ga'⟩ := entry_group p xs v ctx _ pv hpv
    have hord' := group_order p xs hv.1 _ g' e' pv.off ga'
    have hpvlt : pv.ts < t := hB1 _ pv (by omega) hpv
    simp only [hpv]
    have hdrop : (groups xs).drop (v.entries.length - 1 + 1) = [] := by
      apply List.drop_eq_nil_of_le; omega
    have hsplit := ga'.split
    rw [hdrop] at hsplit
    simp only [List.flatten_nil, List.append_nil] at hsplit
    have hlenx : xs.length = pre (groups xs) (v.entries.length - 1) + g'.length := by
      have := congrArg List.length hsplit
      simp only [List.length_append] at this
      unfold pre; omega
    have hglen : 1 ≤ g'.length := by obtain ⟨r, hr⟩ := ga'.head; rw [hr]; simp
    have hdl : v.dataLen = pv.off + metaSize p + g'.length * lineSize p := by
      rw [ctx.dataLen, ← ga'.offLine g'.length hglen (Nat.le_refl _), ← hlenx]
      unfold offA; simp
    have hlmem : l ∈ ((groups xs).take (v.entries.length - 1)).flatten ∨ l ∈ g' := by
      rw [hsplit] at hl; simpa using hl
    have hsmall : t - pv.ts ≤ 65534 := by
      rcases hlmem with h | h
      · have := hord'.1 l h; omega
      · have := ga'.within l h; omega
    have hso : smallOf t pv.ts = .ok (t - pv.ts) := by
      unfold smallOf
      have h1 : ¬ t < pv.ts := by omega
      have h2 : ¬ t - pv.ts > maxSmallTs := by rw [maxSmallTs_eq]; omega
      simp [h1, h2]
    have hfr := findReadEnd_group p xs hv _ g' e' pv.off hg' ga' t (by omega)
    refine ⟨_, _, pv.off + metaSize p + cntLe g' t * lineSize p, rfl, ?_, ?_⟩
    · simp only [refineEnd, hso, bind, Except.bind, pure, Except.pure, lineStart, ctx.p_eq, hdl]
      rw [hpe, hfr.1]
    · refine endOK_in_group p xs hv _ g' e' pv.off hg' ga' t (by omega) ?_
      intro _ y hy
      rw [← hlenx] at hy
      simp at hy

end BS.Impl
