/-
  Under the session invariant: size formula, `len`, unbounded seek, full read, last line.
-/
import BS.Proofs.Session

namespace BS.Impl

/-- C15 size: every line costs `p+2` bytes, every section `lines_per_metainfo` more lines -/
theorem encFrom_length (p : Nat) (xs : List Entry) (hp : ∀ x ∈ xs, x.pl.length = p) : ∀ full off,
    (Spec.encFrom p full xs).length =
      lineSize p * xs.length + metaSize p * (Spec.sectionsFrom p full off xs).length := by
  induction xs with
  | nil => intro full off; cases full <;> simp [Spec.encFrom, Spec.sectionsFrom]
  | cons x xs ih =>
    intro full off
    have hx : x.pl.length = p := hp x (by simp)
    have hxs : ∀ y ∈ xs, y.pl.length = p := fun y hy => hp y (by simp [hy])
    match full with
    | none =>
      simp only [Spec.encFrom, Spec.sectionsFrom, List.length_append, encSection_length, encLine_length, hx,
        List.length_cons, ih hxs (some x.ts) (off + Spec.secSize p + Spec.lineSize p), lineSize]
      rw [Nat.mul_add, Nat.mul_add]; omega
    | some f =>
      by_cases hd : x.ts - f ≤ Spec.maxDelta
      · simp only [Spec.encFrom, Spec.sectionsFrom, if_pos hd, List.length_append, encLine_length, hx,
          List.length_cons, ih hxs (some f) (off + Spec.lineSize p), lineSize]
        rw [Nat.mul_add]; omega
      · simp only [Spec.encFrom, Spec.sectionsFrom, if_neg hd, List.length_append, encSection_length,
          encLine_length, hx, List.length_cons,
          ih hxs (some x.ts) (off + Spec.secSize p + Spec.lineSize p), lineSize]
        rw [Nat.mul_add, Nat.mul_add]; omega

theorem encode_length (p : Nat) (xs : List Entry) (hp : ∀ x ∈ xs, x.pl.length = p) :
    (Spec.encode p xs).length = lineSize p * xs.length + metaSize p * (Spec.sections p xs).length :=
  encFrom_length p xs hp none 0

/-- **C12: `len()` is the number of accepted lines** -/
theorem len_spec (hdr ihdr : Bytes) (dir : Dir) (s : Sess) (xs : List Entry) (hinv : SessInv hdr ihdr dir s xs) :
    dataLenLines s.d = .ok xs.length := by
  have hpl : ∀ x ∈ xs, x.pl.length = s.d.p := fun x hx => (hinv.valid.2 x hx).2
  unfold dataLenLines
  rw [hinv.data.dataLen, hinv.data.entries, encode_length _ _ hpl]
  simp only [toIEntries, List.length_map, metaSize]
  have hls : 0 < lineSize s.d.p := lineSize_pos _
  have hdiv : (lineSize s.d.p * xs.length + lpm s.d.p * lineSize s.d.p * (Spec.sections s.d.p xs).length) / lineSize s.d.p
      = xs.length + lpm s.d.p * (Spec.sections s.d.p xs).length := by
    have : lineSize s.d.p * xs.length + lpm s.d.p * lineSize s.d.p * (Spec.sections s.d.p xs).length
        = lineSize s.d.p * (xs.length + lpm s.d.p * (Spec.sections s.d.p xs).length) := by
      rw [Nat.mul_add, Nat.mul_comm (lpm s.d.p) (lineSize s.d.p), Nat.mul_assoc]
    rw [this, Nat.mul_div_cancel_left _ hls]
  rw [hdiv, Nat.mul_comm (Spec.sections s.d.p xs).length]
  have : ¬ (xs.length + lpm s.d.p * (Spec.sections s.d.p xs).length < lpm s.d.p * (Spec.sections s.d.p xs).length) := by omega
  simp [this]

theorem sections_cons (p : Nat) (e : Entry) (es : List Entry) :
    ∃ rest, Spec.sections p (e :: es) = (e.ts, 0) :: rest := by
  simp [Spec.sections, Spec.sectionsFrom]

/-- the `Pos` an unbounded range seeks to: from after the first section to the end -/
theorem seek_unbounded (hdr ihdr : Bytes) (dir : Dir) (s : Sess) (e : Entry) (es : List Entry)
    (hinv : SessInv hdr ihdr dir s (e :: es)) (region : Bytes) :
    apiSeek region s.d .unb .unb = .ok (some ⟨metaSize s.d.p, s.d.dataLen, e.ts⟩) := by
  obtain ⟨rest, hsec⟩ := sections_cons s.d.p e es
  have hent : s.d.entries = ⟨e.ts, 0⟩ :: toIEntries rest := by
    rw [hinv.data.entries, hsec]; simp [toIEntries]
  have hlt : s.d.lastTime = some (((e :: es).getLast (by simp)).ts) := by
    rw [hinv.data.lastTime]; simp [List.getLast?_eq_getLast]
  obtain ⟨lf, hlf⟩ : ∃ lf, s.d.lastFull = some lf := by
    rw [hinv.data.lastFull]
    cases h : lastFullFrom none (e :: es) with
    | none => simp [lastFullFrom_none_iff] at h
    | some v => exact ⟨v, rfl⟩
  have hpl : ∀ x ∈ e :: es, x.pl.length = s.d.p := fun x hx => (hinv.valid.2 x hx).2
  have hlen := encode_length s.d.p (e :: es) hpl
  rw [hsec] at hlen
  simp only [List.length_cons] at hlen
  have hdl : s.d.dataLen = lineSize s.d.p * (es.length + 1) + metaSize s.d.p * (rest.length + 1) := by
    rw [hinv.data.dataLen, hlen]
  have hlast_ge : e.ts ≤ ((e :: es).getLast (by simp)).ts := by
    have hs := hinv.valid.1
    cases es with
    | nil => simp
    | cons y ys =>
      have hmem : (e :: y :: ys).getLast (by simp) ∈ y :: ys := by
        rw [List.getLast_cons (by simp)]; exact List.getLast_mem _
      exact Nat.le_of_lt ((List.pairwise_cons.mp hs).1 _ hmem)
  have hms : 0 < lineSize s.d.p := lineSize_pos _
  unfold apiSeek roughPos checkedStartTime checkedEndTime dataRange
  simp only [DataSess.view, hent, List.head?_cons, hlt, hlf, bind, Except.bind, pure, Except.pure]
  have h1 : ¬ (max e.ts e.ts > ((e :: es).getLast (by simp)).ts) := by simp; omega
  have h2 : ¬ (min ((e :: es).getLast (by simp)).ts ((e :: es).getLast (by simp)).ts < e.ts) := by simp; omega
  have h3 : ¬ (max e.ts e.ts > min ((e :: es).getLast (by simp)).ts ((e :: es).getLast (by simp)).ts) := by simp; omega
  simp only [h1, h2, h3, if_false]
  have h4 : ¬ (s.d.dataLen < lineSize s.d.p) := by
    rw [hdl, Nat.mul_add]; omega
  simp only [startAreaOf, endAreaOf, List.head?_cons, h4, if_false, refine, refineStart, refineEnd, lineStart, Nat.zero_add, bind, Except.bind, pure, Except.pure]
  have h5 : s.d.dataLen - lineSize s.d.p + lineSize s.d.p = s.d.dataLen := by omega
  have h6 : ¬ (s.d.dataLen ≤ metaSize s.d.p) := by
    rw [hdl, Nat.mul_add, Nat.mul_add]; omega
  simp [h5, h6]

/-- **C01, end to end on the model of the API**: under the session invariant a full read
(`read_all(..)`) returns exactly the accepted history. -/
theorem readAll_unbounded (hdr ihdr : Bytes) (dir : Dir) (s : Sess) (e : Entry) (es : List Entry)
    (hinv : SessInv hdr ihdr dir s (e :: es)) :
    apiReadAll dir s .unb .unb = .ok (e :: es) := by
  have hregion : mainRegion dir s = Spec.encode s.d.p (e :: es) := by
    unfold mainRegion Store.region
    rw [hinv.data.data, hinv.data.hdrLen]
    simp
  unfold apiReadAll
  simp only [bind, Except.bind, pure, Except.pure]
  rw [seek_unbounded hdr ihdr dir s e es hinv]
  simp only
  rw [hregion, hinv.data.dataLen]
  have := BS.Impl.readRegion_canonical s.d.p s.cb collectProc {} e es hinv.valid
  unfold dataReadAll
  rw [this]
  obtain ⟨l, hl⟩ := fold_collect_init (e :: es) hinv.valid.1
  simp [hl]

end BS.Impl
