/-
  C11: `read_n` on a session with caches — level selection cannot panic, and the result is
  the resampling read of ONE stored level (the source or one of the caches).
-/
import BS.Proofs.Total
import BS.Proofs.CacheSession
import BS.Proofs.CacheOpen
import BS.Props.C11

namespace BS.Impl
open BS

/-- whatever `RoughPos::new` returns, `estimate_lines` has a value for it -/
theorem roughPos_estimate_ok (v : DataView) (sb eb : Bound) (r : RoughPos) (p dl : Nat)
    (h : roughPos v sb eb = .ok r) : ∃ est, estimateLines p dl r = .ok est := by
  apply BS.Props.C11.estimate_total
  rintro ⟨s, a, b, hs, he⟩
  unfold roughPos at h
  simp only [bind, Except.bind] at h
  cases h1 : checkedStartTime v sb with
  | error f => simp [h1] at h
  | ok startTs =>
    cases h2 : checkedEndTime v eb with
    | error f => simp [h1, h2] at h
    | ok endTs =>
      simp only [h1, h2] at h
      by_cases hgt : startTs > endTs
      · simp [hgt] at h
      · simp only [hgt, if_false] at h
        cases h3 : startAreaOf v sb startTs with
        | error f => simp [h3] at h
        | ok sa =>
          cases h4 : endAreaOf v eb endTs with
          | error f => simp [h3, h4] at h
          | ok ea =>
            simp only [h3, h4, pure, Except.pure, Except.ok.injEq] at h
            subst h
            simp only at hs he
            -- both areas come from the index search
            have hsb : startSearchBounds v startTs = .ok (.tillEnd s, sa.2) := by
              unfold startAreaOf at h3
              cases sb with
              | unb =>
                simp only at h3
                split at h3
                · simp only [Except.ok.injEq] at h3; rw [← h3] at hs; simp at hs
                · simp at h3
              | incl t => simp only at h3; rw [h3, ← hs]
              | excl t => simp only at h3; rw [h3, ← hs]
            have heb : endSearchBounds v endTs = .ok (.window a b, ea.2) := by
              unfold endAreaOf at h4
              cases eb with
              | unb =>
                simp only at h4
                split at h4
                · split at h4
                  · simp at h4
                  · simp only [Except.ok.injEq] at h4; rw [← h4] at he; simp at he
                · simp at h4
              | incl t => simp only at h4; rw [h4, ← he]
              | excl t => simp only at h4; rw [h4, ← he]
            exact BS.Props.C11.unreachable_arm v startTs endTs (by omega) s sa.2 a b ea.2 hsb heb

end BS.Impl

namespace BS.Impl
open BS

theorem apiReadN_nocache_eq (dir : Dir) (s : Sess) (n : Nat) (sb eb : Bound) (hc : s.caches = []) (hn : n ≠ 0) :
    apiReadN dir s n sb eb = readNTail (mainRegion dir s) s.d s.cb n sb eb := by
  unfold apiReadN
  simp [hc, hn, pure, Except.pure, bind, Except.bind, selectLevel, selectLevel.go, levelData, lensSorted]

/-- what the tail of `read_n` returns on one stored level holding history `M` -/
def TailResult (p n : Nat) (M : List Entry) (sb eb : Bound) (r : R (List Entry)) : Prop :=
  (∃ b, 1 ≤ b ∧ r = .ok (Spec.bucketMeans b (Spec.linMean p) (Spec.filterBounds (toSpecBound sb) (toSpecBound eb) M)) ∧
      (Spec.bucketMeans b (Spec.linMean p) (Spec.filterBounds (toSpecBound sb) (toSpecBound eb) M)).length ≤ 2 * n) ∨
  (Spec.filterBounds (toSpecBound sb) (toSpecBound eb) M = [] ∧ ∃ c, r = .error (.err ("InvalidRange/" ++ c)))

/-- a `Data` with its files, seen as a cache-less session -/
theorem sessInv_of_dataInv (hdr ihdr : Bytes) (st : Store) (d : DataSess) (M : List Entry) (cb : Option Bool)
    (hinv : DataInv hdr ihdr st d M) (hv : Valid d.p M) :
    SessInv hdr ihdr { main := st } { d := d, range := firstLast M, caches := [], cb := cb } M :=
  ⟨hinv, rfl, rfl, hv⟩

theorem readNTail_level (hdr ihdr : Bytes) (st : Store) (d : DataSess) (M : List Entry) (cb : Option Bool)
    (hinv : DataInv hdr ihdr st d M) (hv : Valid d.p M) (n : Nat) (hn : 1 ≤ n) (sb eb : Bound)
    (hsize : (Spec.encode d.p M).length / lineSize d.p ≤ 2^32) :
    TailResult d.p n M sb eb (readNTail (st.region d.hdrLen) d cb n sb eb) := by
  have hs := sessInv_of_dataInv hdr ihdr st d M cb hinv hv
  have heq := apiReadN_nocache_eq { main := st } { d := d, range := firstLast M, caches := [], cb := cb } n sb eb rfl (by omega)
  have hreg : mainRegion ({ main := st } : Dir) { d := d, range := firstLast M, caches := [], cb := cb } = st.region d.hdrLen := rfl
  rw [hreg] at heq
  simp only at heq
  rw [← heq]
  cases M with
  | nil =>
    right
    refine ⟨by simp [Spec.filterBounds], "EmptyFile", ?_⟩
    rw [heq]
    unfold readNTail
    rw [seek_empty hdr ihdr _ _ hs]
    rfl
  | cons e es =>
    have := readN_range_nocache hdr ihdr _ _ e es hs n hn sb eb hsize
    exact this

theorem roughPos_no_panic (hdr ihdr : Bytes) (st : Store) (d : DataSess) (M : List Entry)
    (hinv : DataInv hdr ihdr st d M) (hv : Valid d.p M) (sb eb : Bound) :
    roughPos d.view sb eb ≠ .error .panic := by
  intro hp
  have hs := sessInv_of_dataInv hdr ihdr st d M none hinv hv
  cases M with
  | nil =>
    have := seek_empty hdr ihdr _ _ hs [] sb eb
    unfold apiSeek at this
    simp only at this
    rw [hp] at this
    simp [wrapErr] at this
  | cons e es =>
    have hspec := apiSeek_spec hdr ihdr _ _ e es hs sb eb
    unfold apiSeek at hspec
    simp only at hspec
    rw [hp] at hspec
    simp only [wrapErr] at hspec
    cases hspec

theorem selectLevel_ok (s : Sess) (n : Nat) (sb eb : Bound)
    (hnp : ∀ c ∈ s.caches, roughPos c.d.view sb eb ≠ .error .panic) :
    ∃ lvl, lvl ≤ s.caches.length ∧ selectLevel s n sb eb = .ok lvl := by
  unfold selectLevel
  have : ∀ (cs : List CacheSess) (lvl : Nat), (∀ c ∈ cs, roughPos c.d.view sb eb ≠ .error .panic) →
      ∃ l, lvl ≤ l ∧ l ≤ lvl + cs.length ∧ selectLevel.go n sb eb lvl cs = .ok l := by
    intro cs
    induction cs with
    | nil => intro lvl _; exact ⟨lvl, Nat.le_refl _, by simp, rfl⟩
    | cons c cs ih =>
      intro lvl h
      rw [selectLevel.go]
      cases hr : roughPos c.d.view sb eb with
      | error f =>
        cases f with
        | panic => exact absurd hr (h c (by simp))
        | err m => exact ⟨lvl, Nat.le_refl _, by simp, rfl⟩
      | ok r =>
        obtain ⟨est, hest⟩ := roughPos_estimate_ok c.d.view sb eb r c.d.p c.d.dataLen hr
        simp only [hest]
        by_cases h1 : est.max < n
        · exact ⟨lvl, Nat.le_refl _, by simp, by simp [h1]⟩
        · by_cases h2 : est.min < n
          · exact ⟨lvl, Nat.le_refl _, by simp, by simp [h1, h2]⟩
          · obtain ⟨l, hl1, hl2, hgo⟩ := ih (lvl + 1) (fun c' hc' => h c' (by simp [hc']))
            exact ⟨l, by omega, by simp; omega, by simp [h1, h2, hgo]⟩
  obtain ⟨l, _, hl, hgo⟩ := this s.caches 0 hnp
  exact ⟨l, by omega, hgo⟩

theorem lens_sorted (N : Nat) : ∀ (Bs : List Nat), Bs.Pairwise (· ≤ ·) → (∀ B ∈ Bs, 0 < B) →
    lensSorted (Bs.map (N / ·)) = true := by
  unfold lensSorted
  intro Bs
  induction Bs with
  | nil => intro _ _; rfl
  | cons a Bs ih =>
    intro hp hpos
    cases Bs with
    | nil => rfl
    | cons b Bs =>
      have hab : a ≤ b := (List.pairwise_cons.mp hp).1 b (by simp)
      have := ih (List.pairwise_cons.mp hp).2 (fun B hB => hpos B (by simp [hB]))
      simp only [List.map_cons, List.drop_succ_cons, List.drop_zero, List.zip_cons_cons, List.all_cons,
        Bool.and_eq_true, decide_eq_true_eq] at this ⊢
      exact ⟨Nat.div_le_div_left hab (hpos a (by simp)), this⟩

theorem mapM_lens (hdr : Nat → Bytes) (ihdr' : Bytes) (dir : Dir) (p : Nat) (xs : List Entry) :
    ∀ (cs : List CacheSess),
    (∀ c ∈ cs, c.d.p = p ∧ CacheInv (hdr c.B) ihdr' (dir.cache c.B) c xs) → Valid p xs →
    cs.mapM (fun c => dataLenLines c.d) = .ok (cs.map fun c => xs.length / c.B) := by
  intro cs
  induction cs with
  | nil => intro _ _; rfl
  | cons c cs ih =>
    intro h hv
    obtain ⟨hcp, hci⟩ := h c (by simp)
    have hBpos : 0 < c.B := hci.Bpos
    have hvM : Valid c.d.p (Spec.bucketMeans c.B (Spec.linMean c.d.p) xs) := by
      apply valid_bucketMeans _ _ hBpos; rw [hcp]; exact hv
    have hl := len_of_dataInv _ _ _ _ _ hci.data hvM
    rw [bucketMeans_len c.B _ hBpos _ xs rfl] at hl
    simp only [List.mapM_cons, hl, bind, Except.bind, ih (fun c' hc' => h c' (by simp [hc'])) hv, pure, Except.pure,
      List.map_cons]

end BS.Impl

namespace BS.Impl
open BS

/-- **C11: `read_n` on a session with caches.**  With cache levels listed by increasing
bucket size, `read_n(n ≥ 1, range)` never panics, selects ONE stored level — the series
itself or one of its caches — and returns what the resampling read of that level returns:
uniform bucket means (one bucket size `b ≥ 1`) of exactly the stored lines of that level
inside the bounds, at most `2n` of them; an empty result or a range error when that level
has no line in range. -/
theorem readN_caches (hdr ihdr' : Bytes) (dir : Dir) (s : Sess) (xs : List Entry)
    (hinv : SessInvC hdr ihdr' dir s xs)
    (hsorted : (s.caches.map (·.B)).Pairwise (· ≤ ·))
    (n : Nat) (hn : 1 ≤ n) (sb eb : Bound)
    (hsize0 : (Spec.encode s.d.p xs).length / lineSize s.d.p ≤ 2^32)
    (hsizes : ∀ c ∈ s.caches,
      (Spec.encode s.d.p (Spec.bucketMeans c.B (Spec.linMean s.d.p) xs)).length / lineSize s.d.p ≤ 2^32) :
    ∃ lvl M, lvl ≤ s.caches.length ∧
      ((lvl = 0 ∧ M = xs) ∨
       (∃ c, 0 < lvl ∧ s.caches[lvl - 1]? = some c ∧ M = Spec.bucketMeans c.B (Spec.linMean s.d.p) xs)) ∧
      TailResult s.d.p n M sb eb (apiReadN dir s n sb eb) := by
  have hlens := mapM_lens (fun B => cacheHdr B) cacheIhdr dir s.d.p xs s.caches hinv.caches hinv.valid
  have hpos : ∀ B ∈ s.caches.map (·.B), 0 < B := by
    intro B hB
    obtain ⟨c, hc, rfl⟩ := List.mem_map.mp hB
    exact (hinv.caches c hc).2.Bpos
  have hsortedLens := lens_sorted xs.length (s.caches.map (·.B)) hsorted hpos
  rw [List.map_map] at hsortedLens
  have hnp : ∀ c ∈ s.caches, roughPos c.d.view sb eb ≠ .error .panic := by
    intro c hc
    obtain ⟨hcp, hci⟩ := hinv.caches c hc
    exact roughPos_no_panic _ _ _ _ _ hci.data
      (by apply valid_bucketMeans _ _ hci.Bpos; rw [hcp]; exact hinv.valid) sb eb
  obtain ⟨lvl, hlvl, hsel⟩ := selectLevel_ok s n sb eb hnp
  have hn0 : ¬ n = 0 := by omega
  have hrun : apiReadN dir s n sb eb = readNTail (levelData dir s lvl).1 (levelData dir s lvl).2 s.cb n sb eb := by
    unfold apiReadN
    have h2 : lensSorted (List.map (fun c => xs.length / c.B) s.caches) = true := by
      have h2 := hsortedLens
      simp only [Function.comp_def] at h2
      exact h2
    simp only [hlens, bind, Except.bind, pure, Except.pure, h2, Bool.not_true, Bool.false_eq_true, hsel, hn0, if_false]
  by_cases h0 : lvl = 0
  · refine ⟨0, xs, by omega, Or.inl ⟨rfl, rfl⟩, ?_⟩
    rw [hrun, h0]
    have : levelData dir s 0 = (dir.main.region s.d.hdrLen, s.d) := by simp [levelData, mainRegion]
    rw [this]
    exact readNTail_level hdr ihdr' dir.main s.d xs s.cb hinv.data hinv.valid n hn sb eb hsize0
  · obtain ⟨c, hc⟩ : ∃ c, s.caches[lvl - 1]? = some c := by
      have : lvl - 1 < s.caches.length := by omega
      exact ⟨s.caches[lvl - 1], List.getElem?_eq_getElem this⟩
    have hcm : c ∈ s.caches := List.mem_of_getElem? hc
    obtain ⟨hcp, hci⟩ := hinv.caches c hcm
    refine ⟨lvl, Spec.bucketMeans c.B (Spec.linMean s.d.p) xs, hlvl, Or.inr ⟨c, by omega, hc, rfl⟩, ?_⟩
    rw [hrun]
    have : levelData dir s lvl = ((dir.cache c.B).region c.d.hdrLen, c.d) := by simp [levelData, h0, hc]
    rw [this]
    have hvM : Valid c.d.p (Spec.bucketMeans c.B (Spec.linMean c.d.p) xs) := by
      apply valid_bucketMeans _ _ hci.Bpos; rw [hcp]; exact hinv.valid
    have := readNTail_level _ _ _ c.d _ s.cb hci.data hvM n hn sb eb (by rw [hcp]; exact hsizes c hcm)
    rw [hcp] at this
    exact this

end BS.Impl
