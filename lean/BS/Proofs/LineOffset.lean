/-
  `Index::line_pos` / `Data::line_pos` (model: `lineOffset`): the byte position and section
  timestamp from which reading the source yields exactly the lines from number `k` on.
-/
import BS.Proofs.Seek

namespace BS.Impl
open BS

/-- `lineOffset.go` expressed over groups and a running count of lines instead of offsets -/
def locate (p k : Nat) : Nat → Nat → List (List Entry) → Option (Nat × Nat) → Option (Nat × Nat)
  | _, _, [], best => best
  | off, N, g :: gs, best =>
    if N ≤ k then
      locate p k (off + metaSize p + g.length * lineSize p) (N + g.length) gs
        (some (off + metaSize p + (k - N) * lineSize p, (g.head?.map (·.ts)).getD 0))
    else best

theorem go_eq_locate (d : DataSess) (k : Nat) : ∀ (gs : List (List Entry)) (i N off : Nat) (best : Option (Nat × Nat)),
    off = i * metaSize d.p + N * lineSize d.p →
    lineOffset.go d k (lineSize d.p) i best (toIEntries (secsOf d.p off gs)) = locate d.p k off N gs best := by
  intro gs
  induction gs with
  | nil => intro i N off best _; simp [secsOf, toIEntries, lineOffset.go, locate]
  | cons g gs ih =>
    intro i N off best hoff
    have hls := lineSize_pos d.p
    have hbefore : off / lineSize d.p - i * lpm d.p = N := by
      rw [hoff, metaSize, ← Nat.mul_assoc, ← Nat.add_mul, Nat.mul_div_cancel _ hls]; omega
    simp only [secsOf, toIEntries, List.map_cons, lineOffset.go, locate, hbefore]
    by_cases hk : N ≤ k
    · simp only [hk, if_true]
      have := ih (i + 1) (N + g.length) (off + metaSize d.p + g.length * lineSize d.p)
        (some (off + metaSize d.p + (k - N) * lineSize d.p, (g.head?.map (·.ts)).getD 0))
        (by rw [hoff, Nat.add_mul, Nat.add_mul]; omega)
      simp only [toIEntries] at this
      exact this
    · simp only [hk, if_false]

theorem locate_lt (p k : Nat) (gs : List (List Entry)) (off N : Nat) (best : Option (Nat × Nat)) (h : k < N) :
    locate p k off N gs best = best := by
  cases gs with
  | nil => rfl
  | cons g gs => simp [locate, show ¬ N ≤ k by omega]

theorem locate_spec (p k : Nat) : ∀ (gs : List (List Entry)) (off N : Nat) (best : Option (Nat × Nat)),
    (∀ g ∈ gs, g ≠ []) → N ≤ k → k < N + gs.flatten.length →
    ∃ j g f o, gs[j]? = some g ∧ (secsOf p off gs)[j]? = some (f, o) ∧
      N + pre gs j ≤ k ∧ k < N + pre gs j + g.length ∧
      locate p k off N gs best = some (o + metaSize p + (k - (N + pre gs j)) * lineSize p, f) := by
  intro gs
  induction gs with
  | nil => intro off N best _ h1 h2; simp at h2; omega
  | cons g gs ih =>
    intro off N best hne h1 h2
    simp only [locate, h1, if_true]
    by_cases hin : k < N + g.length
    · refine ⟨0, g, (g.head?.map (·.ts)).getD 0, off, by simp, by simp [secsOf], by simpa [pre] using h1, by simpa [pre] using hin, ?_⟩
      rw [locate_lt p k gs _ _ _ hin]
      simp [pre]
    · have h2' : k < N + g.length + gs.flatten.length := by
        simp only [List.flatten_cons, List.length_append] at h2; omega
      obtain ⟨j, g', f, o, hg', hs', hlo, hhi, hloc⟩ :=
        ih (off + metaSize p + g.length * lineSize p) (N + g.length)
          (some (off + metaSize p + (k - N) * lineSize p, (g.head?.map (·.ts)).getD 0))
          (fun x hx => hne x (by simp [hx])) (by omega) h2'
      have hpre : pre (g :: gs) (j + 1) = g.length + pre gs j := by simp [pre]
      refine ⟨j + 1, g', f, o, by simpa using hg', by simpa [secsOf] using hs', by rw [hpre]; omega,
        by rw [hpre]; omega, ?_⟩
      rw [hloc, hpre]
      have : k - (N + g.length + pre gs j) = k - (N + (g.length + pre gs j)) := by omega
      rw [this]

theorem groups_ne_nil (xs : List Entry) : ∀ g ∈ groups xs, g ≠ [] := by
  fun_induction groups xs
  next => simp
  next e es ih =>
    intro g hg
    simp only [List.mem_cons] at hg
    rcases hg with rfl | hg
    · simp
    · exact ih g hg

/-- **`line_pos` is right**: for every line number `k` of a canonical file, reading from the
returned position with the returned section timestamp to the end of the file feeds a
processor exactly the lines from number `k` on. -/
theorem lineOffset_spec (hdr ihdr : Bytes) (st : Store) (d : DataSess) (xs : List Entry)
    (hinv : DataInv hdr ihdr st d xs) (hv : Valid d.p xs) (k : Nat) (hk : k < xs.length) :
    ∃ start full, lineOffset d k = some (start, full) ∧
      ∀ {σ : Type} (cb : Option Bool) (proc : σ → Nat → Bytes → PRes σ) (ps : σ),
        readRegion d.p cb proc ps (Spec.encode d.p xs) start (Spec.encode d.p xs).length full
          = foldProc proc ps (xs.drop k) := by
  have hpl : ∀ x ∈ xs, x.pl.length = d.p := fun x hx => (hv.2 x hx).2
  have hent : d.entries = toIEntries (secsOf d.p 0 (groups xs)) := by
    rw [hinv.entries]; unfold Spec.sections; rw [sections_groups]
  have hflat : (groups xs).flatten.length = xs.length := by rw [groups_flatten]
  obtain ⟨j, g, f, o, hg, hs, hlo, hhi, hloc⟩ :=
    locate_spec d.p k (groups xs) 0 0 none (groups_ne_nil xs) (Nat.zero_le _) (by rw [hflat]; omega)
  simp only [Nat.zero_add] at hlo hhi hloc
  obtain ⟨e, hf, hga⟩ := group_at d.p xs hpl j g f o hg hs
  have hoffEnd : offA d.p xs xs.length = (Spec.encode d.p xs).length := by
    unfold offA; rw [List.take_length]
  refine ⟨o + metaSize d.p + (k - pre (groups xs) j) * lineSize d.p, f, ?_, ?_⟩
  · unfold lineOffset
    simp only [hent]
    rw [go_eq_locate d k (groups xs) 0 0 0 none (by simp), hloc]
  · intro σ cb proc ps
    by_cases hr : k = pre (groups xs) j
    · -- line `k` opens section `j`: start right after its header
      have h := readRegion_between_B d.p cb proc ps xs hv k xs.length hk (Nat.le_refl _) e (by rw [hr]; exact hga.opens)
      rw [hoffEnd, hr, hga.offHead, ← hf] at h
      rw [hr]
      simp only [Nat.sub_self, Nat.zero_mul, Nat.add_zero]
      rw [h]
      congr 1
      rw [List.take_of_length_le (by simp)]
    · have hr1 : 1 ≤ k - pre (groups xs) j := by omega
      have hr2 : k - pre (groups xs) j ≤ g.length := by omega
      have hoff := hga.offLine _ hr1 hr2
      have hfull := hga.fullLine _ hr1 hr2
      have hkk : pre (groups xs) j + (k - pre (groups xs) j) = k := by omega
      rw [hkk] at hoff hfull
      have h := readRegion_between d.p cb proc ps xs hv k xs.length (Nat.le_of_lt hk) (Nat.le_refl _) f
        (by intro f' hf'; rw [hfull] at hf'; simp only [Option.some.injEq] at hf'; rw [hf, hf'])
      rw [hoffEnd, hoff] at h
      rw [h]
      congr 1
      rw [List.take_of_length_le (by simp)]

end BS.Impl
