/-
  T3: the buffered reader with carry-over equals the one-pass scanner, for every
  chunk size ≥ 1, every byte content, every processor and every callback answer.
-/
import BS.Impl.Reader
import BS.Proofs.Bytes

namespace BS.Impl

variable {σ : Type}

theorem scan_nil (p cb) (proc : σ → Nat → Bytes → PRes σ) (st) : scan p cb proc st [] = .ok (st, 0) := by
  rw [scan.eq_def]

theorem scan_data (p cb) (proc : σ → Nat → Bytes → PRes σ) (st l rest) (h : isMarker l = false) :
    scan p cb proc st (l :: rest) =
      if st.skip then scan p cb proc st rest
      else match procLine proc st l with
        | .ok st' => scan p cb proc st' rest
        | .error e => .error e := by
  rw [scan.eq_def]; simp [h]
  split
  · rfl
  · split <;> split <;> simp_all

theorem scan_marker_last (p cb) (proc : σ → Nat → Bytes → PRes σ) (st l) (h : isMarker l = true) :
    scan p cb proc st [l] = .ok (st, 1) := by
  rw [scan.eq_def]; simp [h]

theorem scan_lone (p cb) (proc : σ → Nat → Bytes → PRes σ) (st l l2 rest) (h : isMarker l = true) (h2 : isMarker l2 = false) :
    scan p cb proc st (l :: l2 :: rest) =
      if cb = some true then scan p cb proc { st with skip := true } rest else .error (.corrupt st.ps) := by
  rw [scan.eq_def]; simp [h, h2]

theorem scan_pair (p cb) (proc : σ → Nat → Bytes → PRes σ) (st l l2 rest) (h : isMarker l = true) (h2 : isMarker l2 = true) :
    scan p cb proc st (l :: l2 :: rest) =
      if rest.length < rawCount p then .ok (st, 2 + rest.length)
      else scan p cb proc { st with full := metaTs p l l2 (rest.take (rawCount p)), skip := false } (rest.drop (rawCount p)) := by
  rw [scan.eq_def]; simp [h, h2]

theorem drop_cons_sub {α} (l : α) (rest : List α) (n : Nat) (h : n ≤ rest.length) :
    (l :: rest).drop ((l :: rest).length - n) = rest.drop (rest.length - n) := by
  have : (l :: rest).length - n = (rest.length - n) + 1 := by simp; omega
  rw [this, List.drop_succ_cons]

/-- clean split: what `scan` leaves pending is a suffix of its input, and scanning
more input afterwards is the same as resuming on that suffix -/
theorem scan_split (p : Nat) (cb : Option Bool) (proc : σ → Nat → Bytes → PRes σ) (st : RSt σ) (A : List Bytes) :
    ∀ st' n, scan p cb proc st A = .ok (st', n) →
      n ≤ A.length ∧ ∀ X, scan p cb proc st (A ++ X) = scan p cb proc st' (A.drop (A.length - n) ++ X) := by
  fun_induction scan p cb proc st A <;> intro st' n h
  next st =>
    simp at h; obtain ⟨rfl, rfl⟩ := h; simp
  next st l rest hm hskip ih =>
    -- data line, skipping
    obtain ⟨hn, hX⟩ := ih st' n h
    have hm' : isMarker l = false := by simpa using hm
    refine ⟨by simp; omega, fun X => ?_⟩
    rw [List.cons_append, scan_data _ _ _ _ _ _ hm', if_pos hskip, hX X, drop_cons_sub _ _ _ hn]
  next st l rest hm hskip st1 hp ih =>
    obtain ⟨hn, hX⟩ := ih st' n h
    have hm' : isMarker l = false := by simpa using hm
    refine ⟨by simp; omega, fun X => ?_⟩
    rw [List.cons_append, scan_data _ _ _ _ _ _ hm', if_neg hskip, hp]
    simp only
    rw [hX X, drop_cons_sub _ _ _ hn]
  next => simp at h
  next st l hm =>
    simp at h; obtain ⟨rfl, rfl⟩ := h; simp
  next st l hm l2 rest hm2 hcb ih =>
    obtain ⟨hn, hX⟩ := ih st' n h
    have hm' : isMarker l = true := by simpa using hm
    have hm2' : isMarker l2 = false := by simpa using hm2
    refine ⟨by simp; omega, fun X => ?_⟩
    rw [List.cons_append, List.cons_append, scan_lone _ _ _ _ _ _ _ hm' hm2', if_pos hcb]
    rw [hX X, drop_cons_sub _ _ _ (by simp; omega), drop_cons_sub _ _ _ hn]
  next => simp at h
  next st l hm l2 rest hm2 hlen =>
    simp at h; obtain ⟨rfl, rfl⟩ := h
    refine ⟨by simp; omega, fun X => ?_⟩
    have : (l :: l2 :: rest).length - (2 + rest.length) = 0 := by simp; omega
    rw [this]; rfl
  next st l hm l2 rest hm2 hlen ih =>
    obtain ⟨hn, hX⟩ := ih st' n h
    have hm' : isMarker l = true := by simpa using hm
    have hm2' : isMarker l2 = true := by simpa using hm2
    have hlen' : rawCount p ≤ rest.length := by omega
    simp only [List.length_drop] at hn hX
    refine ⟨by simp; omega, fun X => ?_⟩
    rw [List.cons_append, List.cons_append, scan_pair _ _ _ _ _ _ _ hm' hm2']
    have h1 : ¬ ((rest ++ X).length < rawCount p) := by simp; omega
    rw [if_neg h1, List.take_append_of_le_length hlen', List.drop_append_of_le_length hlen', hX X]
    rw [drop_cons_sub _ _ _ (by simp; omega), drop_cons_sub _ _ _ (by omega)]
    congr 2
    rw [List.drop_drop]
    congr 1
    omega

/-- an early stop is stable under more input -/
theorem scan_error (p : Nat) (cb : Option Bool) (proc : σ → Nat → Bytes → PRes σ) (st : RSt σ) (A : List Bytes) :
    ∀ e, scan p cb proc st A = .error e → ∀ X, scan p cb proc st (A ++ X) = .error e := by
  fun_induction scan p cb proc st A <;> intro e h
  next => simp at h
  next st l rest hm hskip ih =>
    have hm' : isMarker l = false := by simpa using hm
    intro X
    rw [List.cons_append, scan_data _ _ _ _ _ _ hm', if_pos hskip]; exact ih e h X
  next st l rest hm hskip st1 hp ih =>
    have hm' : isMarker l = false := by simpa using hm
    intro X
    rw [List.cons_append, scan_data _ _ _ _ _ _ hm', if_neg hskip, hp]; exact ih e h X
  next st l rest hm hskip e' hp =>
    have hm' : isMarker l = false := by simpa using hm
    intro X
    rw [List.cons_append, scan_data _ _ _ _ _ _ hm', if_neg hskip, hp]; exact h
  next => simp at h
  next st l hm l2 rest hm2 hcb ih =>
    have hm' : isMarker l = true := by simpa using hm
    have hm2' : isMarker l2 = false := by simpa using hm2
    intro X
    rw [List.cons_append, List.cons_append, scan_lone _ _ _ _ _ _ _ hm' hm2', if_pos hcb]; exact ih e h X
  next st l hm l2 rest hm2 hcb =>
    have hm' : isMarker l = true := by simpa using hm
    have hm2' : isMarker l2 = false := by simpa using hm2
    intro X
    rw [List.cons_append, List.cons_append, scan_lone _ _ _ _ _ _ _ hm' hm2', if_neg hcb]; exact h
  next => simp at h
  next st l hm l2 rest hm2 hlen ih =>
    have hm' : isMarker l = true := by simpa using hm
    have hm2' : isMarker l2 = true := by simpa using hm2
    have hlen' : rawCount p ≤ rest.length := by omega
    intro X
    rw [List.cons_append, List.cons_append, scan_pair _ _ _ _ _ _ _ hm' hm2']
    have h1 : ¬ ((rest ++ X).length < rawCount p) := by simp; omega
    rw [if_neg h1, List.take_append_of_le_length hlen', List.drop_append_of_le_length hlen']
    exact ih e h X

/-- T3: the chunked reader equals the one-pass scanner, for every chunk size ≥ 1 -/
theorem readChunked_eq (p k : Nat) (hk : 0 < k) (cb : Option Bool) (proc : σ → Nat → Bytes → PRes σ)
    (st : RSt σ) (carry rest : List Bytes) :
    readChunked p k cb proc st carry rest =
      if rest = [] then .ok st
      else (scan p cb proc st (carry ++ rest)).map (·.1) := by
  fun_induction readChunked p k cb proc st carry rest
  next st carry rest h =>
    rcases h with h | h
    · simp [h]
    · omega
  next st carry rest h buf e he =>
    have hne : rest ≠ [] := fun h' => h (Or.inl h')
    simp only [hne, if_false]
    have hsplit : carry ++ rest = buf ++ rest.drop k := by
      simp [buf, List.append_assoc, List.take_append_drop]
    rw [hsplit, scan_error p cb proc st buf e he (rest.drop k)]; rfl
  next st carry rest h buf st' n hs ih =>
    have hne : rest ≠ [] := fun h' => h (Or.inl h')
    simp only [hne, if_false]
    rw [ih]
    obtain ⟨hn, hX⟩ := scan_split p cb proc st buf st' n hs
    have hsplit : carry ++ rest = buf ++ rest.drop k := by
      simp [buf, List.append_assoc, List.take_append_drop]
    rw [hsplit, hX (rest.drop k)]
    split
    · rename_i hd
      rw [hd, List.append_nil]
      have := hX []
      simp only [List.append_nil] at this
      rw [← this, hs]; rfl
    · rfl

/-- what is left pending never exceeds the section header the code reserves room for -/
theorem scan_pending_le (p : Nat) (cb : Option Bool) (proc : σ → Nat → Bytes → PRes σ) (st : RSt σ) (A : List Bytes) :
    ∀ st' n, scan p cb proc st A = .ok (st', n) → n < 2 + rawCount p ∨ n ≤ 1 := by
  fun_induction scan p cb proc st A <;> intro st' n h
  next => simp at h; omega
  next st l rest hm hskip ih => exact ih st' n h
  next st l rest hm hskip st1 hp ih => exact ih st' n h
  next => simp at h
  next => simp at h; omega
  next st l hm l2 rest hm2 hcb ih => exact ih st' n h
  next => simp at h
  next st l hm l2 rest hm2 hlen => simp at h; omega
  next st l hm l2 rest hm2 hlen ih => exact ih st' n h

end BS.Impl
