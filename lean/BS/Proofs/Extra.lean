/-
  Further corollaries: queries on sessions with caches, last line, queries do not write.
-/
import BS.Proofs.ReadNCaches
import BS.Proofs.Reopen

namespace BS.Impl
open BS

/-- forgetting the caches of a session: what every query except `read_n` sees -/
def Sess.noCaches (s : Sess) : Sess := { s with caches := [] }

theorem sessInv_noCaches (hdr ihdr' : Bytes) (dir : Dir) (s : Sess) (xs : List Entry)
    (h : SessInvC hdr ihdr' dir s xs) : SessInv hdr ihdr' dir s.noCaches xs :=
  ⟨h.data, h.range, rfl, h.valid⟩

theorem readAll_noCaches (dir : Dir) (s : Sess) (sb eb : Bound) :
    apiReadAll dir s sb eb = apiReadAll dir s.noCaches sb eb := rfl
theorem readFirstN_noCaches (dir : Dir) (s : Sess) (n : Nat) (sb eb : Bound) :
    apiReadFirstN dir s n sb eb = apiReadFirstN dir s.noCaches n sb eb := rfl
theorem nLines_noCaches (dir : Dir) (s : Sess) (sb eb : Bound) :
    apiNLines dir s sb eb = apiNLines dir s.noCaches sb eb := rfl

/-- **no query panics on a session with caches** -/
theorem queries_total_caches (hdr ihdr' : Bytes) (dir : Dir) (s : Sess) (xs : List Entry)
    (hinv : SessInvC hdr ihdr' dir s xs)
    (hsorted : (s.caches.map (·.B)).Pairwise (· ≤ ·))
    (hsize0 : (Spec.encode s.d.p xs).length / lineSize s.d.p ≤ 2^32)
    (hsizes : ∀ c ∈ s.caches,
      (Spec.encode s.d.p (Spec.bucketMeans c.B (Spec.linMean s.d.p) xs)).length / lineSize s.d.p ≤ 2^32) :
    (∀ sb eb, apiReadAll dir s sb eb ≠ .error .panic) ∧
    (∀ n sb eb, apiReadFirstN dir s n sb eb ≠ .error .panic) ∧
    (∀ n sb eb, apiReadN dir s n sb eb ≠ .error .panic) ∧
    (∀ sb eb, apiNLines dir s sb eb ≠ .error .panic) ∧
    dataLenLines s.d = .ok xs.length ∧
    lastLineOf (mainRegion dir s) s.d s.cb ≠ .error .panic := by
  have h0 := sessInv_noCaches hdr ihdr' dir s xs hinv
  obtain ⟨q1, q2, _, q4, _, _, q7, q8⟩ := queries_total hdr ihdr' dir s.noCaches xs h0 hsize0
  refine ⟨fun sb eb => by rw [readAll_noCaches]; exact q1 sb eb,
    fun n sb eb => by rw [readFirstN_noCaches]; exact q2 n sb eb, ?_,
    fun sb eb => by rw [nLines_noCaches]; exact q4 sb eb, q7, q8⟩
  intro n sb eb
  by_cases hn : n = 0
  · subst hn
    -- n = 0 after the ordering assert
    have hlens := mapM_lens (fun B => cacheHdr B) cacheIhdr dir s.d.p xs s.caches hinv.caches hinv.valid
    have hpos : ∀ B ∈ s.caches.map (·.B), 0 < B := by
      intro B hB
      obtain ⟨c, hc, rfl⟩ := List.mem_map.mp hB
      exact (hinv.caches c hc).2.Bpos
    have h2 := lens_sorted xs.length (s.caches.map (·.B)) hsorted hpos
    rw [List.map_map] at h2
    have h2' : lensSorted (List.map (fun c => xs.length / c.B) s.caches) = true := by
      simpa only [Function.comp_def] using h2
    unfold apiReadN
    simp [hlens, bind, Except.bind, pure, Except.pure, h2']
  · obtain ⟨lvl, M, _, _, hres⟩ := readN_caches hdr ihdr' dir s xs hinv hsorted n (by omega) sb eb hsize0 hsizes
    rcases hres with ⟨b, _, h, _⟩ | ⟨_, c, h⟩ <;> rw [h] <;> simp

/-- the last line through the API is the last accepted line -/
theorem lastLine_spec (hdr ihdr : Bytes) (dir : Dir) (s : Sess) (ys : List Entry) (l : Entry)
    (hinv : SessInv hdr ihdr dir s (ys ++ [l])) :
    lastLineOf (mainRegion dir s) s.d s.cb = .ok l := by
  have hregion : mainRegion dir s = Spec.encode s.d.p (ys ++ [l]) := by
    unfold mainRegion Store.region
    rw [hinv.data.data, hinv.data.hdrLen]; simp
  rw [hregion]
  exact lastLine_canonical s.d.p ys l hinv.valid s.cb s.d rfl hinv.data.dataLen hinv.data.lastFull

/-- queries leave every file alone: the directory of the world is unchanged -/
theorem queries_do_not_write (w : World) (op : Op)
    (hq : match op with
      | .readAll .. | .readFirstN .. | .readN .. | .nLines .. | .lastLine | .len | .isEmpty | .range
      | .payloadSize | .flush | .page .. | .files | .get .. => True
      | _ => False) :
    (step w op).1.dir = w.dir := by
  cases op <;> simp only at hq <;> simp only [step, withSess, finish]
  all_goals (try (split <;> try rfl))
  all_goals (try (split <;> rfl))
  all_goals (try rfl)

end BS.Impl
