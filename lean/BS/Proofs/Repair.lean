/-
  T4: the open-time tail repair of the data file.  A canonical data region cut at ANY byte
  length is repaired to exactly the canonical region of the entries that were completely
  written before the cut — provided no raw timestamp line looks like a marker line
  (`TailClean`; automatic for payload sizes ≥ 4).
-/
import BS.Proofs.Groups
import BS.Impl.Repair

namespace BS.Impl

/-! ### the repair at line granularity -/

def markerLine (p : Nat) : Bytes := marker ++ zeros p

/-- what the repair pipeline does, on a list of full lines -/
def repairLines (p : Nat) (Ls : List Bytes) : List Bytes :=
  if Ls.length ≤ lpm p then []
  else
    match firstMarkerPair (Ls.drop (Ls.length - lpm p) ++ [markerLine p]) with
    | some i => Ls.take (Ls.length - lpm p + i)
    | none => Ls

theorem flatten_length_uniform (ls : Nat) (L : List Bytes) (h : ∀ l ∈ L, l.length = ls) :
    L.flatten.length = L.length * ls := by
  induction L with
  | nil => simp
  | cons l L ih =>
    simp only [List.flatten_cons, List.length_append, List.length_cons]
    rw [ih (fun x hx => h x (by simp [hx])), h l (by simp), Nat.add_mul]; omega

theorem flatten_take_uniform (ls : Nat) (L : List Bytes) (h : ∀ l ∈ L, l.length = ls) (k : Nat) :
    L.flatten.take (k * ls) = (L.take k).flatten := by
  induction L generalizing k with
  | nil => simp
  | cons l L ih =>
    cases k with
    | zero => simp
    | succ k =>
      simp only [List.flatten_cons, List.take_succ_cons]
      have hl : l.length = ls := h l (by simp)
      rw [Nat.add_mul, Nat.one_mul, Nat.add_comm, List.take_append, List.take_of_length_le (by omega)]
      rw [hl, Nat.add_sub_cancel_left, ih (fun x hx => h x (by simp [hx]))]

theorem flatten_drop_uniform (ls : Nat) (L : List Bytes) (h : ∀ l ∈ L, l.length = ls) (k : Nat) :
    L.flatten.drop (k * ls) = (L.drop k).flatten := by
  induction L generalizing k with
  | nil => simp
  | cons l L ih =>
    cases k with
    | zero => simp
    | succ k =>
      simp only [List.flatten_cons, List.drop_succ_cons]
      have hl : l.length = ls := h l (by simp)
      rw [Nat.add_mul, Nat.one_mul, Nat.add_comm, ← List.drop_drop, List.drop_append_of_le_length (by omega)]
      rw [← hl, List.drop_length, List.nil_append, hl, ih (fun x hx => h x (by simp [hx]))]

theorem markerLine_length (p : Nat) : (markerLine p).length = lineSize p := by
  simp [markerLine, marker_eq, zeros, lineSize]

/-- `removed_start_of_meta_at_end` can never truncate (its `.all` runs over an exhausted iterator) -/
theorem removeStartOfMeta_none (p : Nat) (d : Bytes) : removeStartOfMeta p d = none := by
  unfold removeStartOfMeta
  simp only [List.take_nil, List.all_nil, Bool.not_true, Bool.and_false]
  split <;> simp

/-- the byte-level pipeline on `full lines ++ a partial line` is the line-level repair -/
theorem repairData_lines (p : Nat) (Ls : List Bytes) (rem : Bytes) (h : ∀ l ∈ Ls, l.length = lineSize p)
    (hrem : rem.length < lineSize p) :
    repairData p (Ls.flatten ++ rem) = (repairLines p Ls).flatten := by
  have hls := lineSize_pos p
  have hflen := flatten_length_uniform (lineSize p) Ls h
  unfold repairData
  by_cases h0 : (Ls.flatten ++ rem).length = 0
  · have hL : Ls = [] := by
      rw [List.length_append, hflen] at h0
      cases Ls with
      | nil => rfl
      | cons l L =>
        exfalso
        simp only [List.length_cons] at h0
        have : 0 < (L.length + 1) * lineSize p := Nat.mul_pos (by omega) hls
        omega
    subst hL
    have hr : rem = [] := by simpa using h0
    subst hr
    simp [repairLines]
  · simp only [h0, if_false]
    have hdrop : dropPartialLine p (Ls.flatten ++ rem) = Ls.flatten := by
      unfold dropPartialLine
      have hmod : (Ls.flatten ++ rem).length % lineSize p = rem.length := by
        rw [List.length_append, hflen, Nat.add_comm, Nat.add_mul_mod_self_right, Nat.mod_eq_of_lt hrem]
      rw [hmod, List.length_append, Nat.add_sub_cancel, List.take_append_of_le_length (Nat.le_refl _), List.take_length]
    rw [hdrop, hflen]
    unfold repairLines
    have hms : metaSize p = lpm p * lineSize p := rfl
    by_cases hle : Ls.length ≤ lpm p
    · have : Ls.length * lineSize p ≤ metaSize p := by rw [hms]; exact Nat.mul_le_mul_right _ hle
      simp [this, hle]
    · have hnle : ¬ Ls.length * lineSize p ≤ metaSize p := by
        rw [hms]; intro hc
        exact hle (Nat.le_of_mul_le_mul_right hc hls)
      simp only [hnle, hle, if_false]
      -- removePartialMeta
      have hcs : Ls.flatten.length - metaSize p = (Ls.length - lpm p) * lineSize p := by
        rw [hflen, hms, Nat.sub_mul]
      have hcheck : Ls.flatten.drop (Ls.flatten.length - metaSize p) ++ marker ++ zeros p
          = (Ls.drop (Ls.length - lpm p) ++ [markerLine p]).flatten := by
        rw [hcs, flatten_drop_uniform _ _ h]
        simp [markerLine, List.append_assoc]
      have hlines : ∀ l ∈ Ls.drop (Ls.length - lpm p) ++ [markerLine p], l.length = lineSize p := by
        intro l hl
        simp only [List.mem_append, List.mem_singleton] at hl
        rcases hl with hl | rfl
        · exact h l (List.mem_of_mem_drop hl)
        · exact markerLine_length p
      unfold removePartialMeta
      simp only
      rw [hcheck, toLines_flatten _ _ hls hlines]
      cases hf : firstMarkerPair (Ls.drop (Ls.length - lpm p) ++ [markerLine p]) with
      | some i =>
        simp only
        rw [hcs, ← Nat.add_mul, flatten_take_uniform _ _ h]
      | none =>
        simp only
        rw [removeStartOfMeta_none]

end BS.Impl

namespace BS.Impl

/-! ### marker pairs -/

/-- every element after the first is not a marker line -/
def Tnm (l : List Bytes) : Prop := ∀ x ∈ l.tail, isMarker x = false

theorem fmp_none_of_tnm (l : List Bytes) (h : Tnm l) : firstMarkerPair l = none := by
  induction l with
  | nil => simp [firstMarkerPair]
  | cons a t ih =>
    cases t with
    | nil => simp [firstMarkerPair]
    | cons b rest =>
      have hb : isMarker b = false := h b (by simp)
      simp only [firstMarkerPair, hb, Bool.and_false, Bool.false_eq_true, if_false]
      rw [ih (fun x hx => h x (by simp at hx ⊢; right; exact hx))]
      rfl

theorem tnm_drop (l : List Bytes) (h : Tnm l) (n : Nat) : Tnm (l.drop n) := by
  intro x hx
  apply h
  rw [List.tail_drop] at hx
  cases l with
  | nil => simp at hx
  | cons a t =>
    simp only [List.tail_cons] at hx ⊢
    exact List.mem_of_mem_drop hx

/-- after a block without marker pairs that does not end in a marker line, the first pair is found in what follows -/
theorem fmp_append (A B : List Bytes) (hA : Tnm A) (hlast : ∀ x, A.getLast? = some x → isMarker x = false) :
    firstMarkerPair (A ++ B) = (firstMarkerPair B).map (· + A.length) := by
  induction A with
  | nil => simp
  | cons a t ih =>
    cases t with
    | nil =>
      have ha : isMarker a = false := hlast a (by simp)
      cases B with
      | nil => simp [firstMarkerPair]
      | cons b rest =>
        simp only [List.cons_append, List.nil_append, firstMarkerPair, ha, Bool.false_and, Bool.false_eq_true, if_false,
          List.length_cons, List.length_nil]
    | cons b rest =>
      have hb : isMarker b = false := hA b (by simp)
      have ih' := ih (fun x hx => hA x (by simp at hx ⊢; right; exact hx))
        (fun x hx => hlast x (by simpa using hx))
      simp only [List.cons_append, firstMarkerPair, hb, Bool.and_false, Bool.false_eq_true, if_false]
      simp only [List.cons_append] at ih'
      rw [ih']
      cases firstMarkerPair B <;> simp [Nat.add_assoc]

theorem isMarker_markerLine (p : Nat) : isMarker (markerLine p) = true := by
  simp [markerLine, marker_eq, isMarker]

/-! ### the canonical lines, entry by entry from the end -/

theorem encLines_append (p : Nat) (a b : List Entry) : ∀ full,
    encLines p full (a ++ b) = encLines p full a ++ encLines p (lastFullFrom full a) b := by
  induction a with
  | nil => intro full; cases full <;> simp [lastFullFrom, encLines]
  | cons x a ih =>
    intro full
    match full with
    | none => simp [encLines, lastFullFrom, ih]
    | some f =>
      by_cases hd : x.ts - f ≤ 65534
      · simp only [List.cons_append, encLines, lastFullFrom, if_pos hd, ih]
      · simp only [List.cons_append, encLines, lastFullFrom, if_neg hd, ih, List.append_assoc]

/-- no raw timestamp line of a section this history opens (or would open) looks like a marker line -/
def TailClean (p : Nat) (xs : List Entry) : Prop :=
  ∀ x ∈ xs, ∀ l ∈ (metaWriteLines p x.ts).drop 2, isMarker l = false

/-- for payload sizes of at least 4 a section has no raw lines: the condition is empty -/
theorem tailClean_of_ge4 (p : Nat) (hp : 4 ≤ p) (xs : List Entry) : TailClean p xs := by
  intro x _ l hl
  obtain ⟨q, rfl⟩ : ∃ q, p = q + 4 := ⟨p - 4, by omega⟩
  simp [metaWriteLines] at hl

theorem section_lines_tnm (p ts : Nat) (hts : ts < 2^64) (hclean : ∀ l ∈ (metaWriteLines p ts).drop 2, isMarker l = false)
    (D : Bytes) (hD : isMarker D = false) : Tnm ((metaWriteLines p ts ++ [D]).drop 1) := by
  obtain ⟨l1, l2, raws, hE, _⟩ := section_roundtrip p ts hts
  rw [hE] at hclean ⊢
  simp only [List.drop_succ_cons, List.drop_zero] at hclean
  intro x hx
  simp only [List.cons_append, List.drop_succ_cons, List.drop_zero, List.tail_cons, List.mem_append,
    List.mem_singleton] at hx
  rcases hx with hx | rfl
  · exact hclean x hx
  · exact hD

theorem snoc_induction {α} {P : List α → Prop} (h0 : P []) (hs : ∀ ys e, P ys → P (ys ++ [e])) : ∀ xs, P xs := by
  intro xs
  generalize hn : xs.length = n
  induction n generalizing xs with
  | zero =>
    have : xs = [] := List.eq_nil_of_length_eq_zero hn
    subst this; exact h0
  | succ n ih =>
    have hne : xs ≠ [] := by intro h; subst h; simp at hn
    have hsplit := List.dropLast_concat_getLast hne
    rw [← hsplit]
    apply hs
    apply ih
    simp [hn]

/-- **window claim**: the last `w ≤ lines_per_metainfo` lines of a complete canonical encoding
contain no marker line except possibly the first of them, and the encoding ends in a data line -/
theorem window_tnm (p : Nat) (xs : List Entry) (hb : ∀ x ∈ xs, x.ts < 2^64) (hc : TailClean p xs) :
    (∀ x, (encLines p none xs).getLast? = some x → isMarker x = false) ∧
    ∀ w, w ≤ lpm p → Tnm ((encLines p none xs).drop ((encLines p none xs).length - w)) := by
  revert hb hc
  refine snoc_induction (P := fun xs => (∀ x ∈ xs, x.ts < 2^64) → TailClean p xs →
    (∀ x, (encLines p none xs).getLast? = some x → isMarker x = false) ∧
    ∀ w, w ≤ lpm p → Tnm ((encLines p none xs).drop ((encLines p none xs).length - w))) ?_ ?_ xs
  · intro _ _; simp [encLines, Tnm]
  · intro ys e ih hb hc
    have hbys : ∀ x ∈ ys, x.ts < 2^64 := fun x hx => hb x (by simp [hx])
    have hcys : TailClean p ys := fun x hx => hc x (by simp [hx])
    obtain ⟨ihlast, ihw⟩ := ih hbys hcys
    rw [encLines_append]
    -- the lines of the last entry
    have hlast_entry : (encLines p (lastFullFrom none ys) [e] = [dataLine (e.ts - (lastFullFrom none ys).getD 0) e.pl] ∧
          e.ts - (lastFullFrom none ys).getD 0 ≤ 65534) ∨
        encLines p (lastFullFrom none ys) [e] = metaWriteLines p e.ts ++ [dataLine 0 e.pl] := by
      cases hF : lastFullFrom none ys with
      | none => right; simp [encLines]
      | some f =>
        by_cases hd : e.ts - f ≤ 65534
        · left; simp [encLines, hd]
        · right; simp [encLines, hd]
    rcases hlast_entry with ⟨hle, hd⟩ | hle
    · -- a plain line
      rw [hle]
      have hD : isMarker (dataLine (e.ts - (lastFullFrom none ys).getD 0) e.pl) = false := isMarker_dataLine _ _ hd
      refine ⟨by intro x hx; simp at hx; subst hx; exact hD, ?_⟩
      intro w hw
      cases w with
      | zero => simp [Tnm]
      | succ w =>
        have hlen : (encLines p none ys ++ [dataLine (e.ts - (lastFullFrom none ys).getD 0) e.pl]).length - (w + 1)
            = (encLines p none ys).length - w := by simp
        rw [hlen]
        by_cases hwl : w ≤ (encLines p none ys).length
        · rw [List.drop_append_of_le_length (by omega)]
          have := ihw w (by omega)
          intro x hx
          -- tail of (A ++ [D]) is (tail A) ++ [D] or [] when A = []
          cases hA : (encLines p none ys).drop ((encLines p none ys).length - w) with
          | nil => rw [hA] at hx; simp at hx
          | cons a t =>
            rw [hA] at hx this
            simp only [List.cons_append, List.tail_cons, List.mem_append, List.mem_singleton] at hx
            rcases hx with hx | rfl
            · exact this x (by simpa using hx)
            · exact hD
        · -- fewer lines than asked for: the whole list
          have h0 : (encLines p none ys).length - w = 0 := by omega
          rw [h0, List.drop_zero]
          have := ihw (encLines p none ys).length (by omega)
          simp only [Nat.sub_self, List.drop_zero] at this
          intro x hx
          cases hA : encLines p none ys with
          | nil => rw [hA] at hx; simp at hx
          | cons a t =>
            rw [hA] at hx this
            simp only [List.cons_append, List.tail_cons, List.mem_append, List.mem_singleton] at hx
            rcases hx with hx | rfl
            · exact this x (by simpa using hx)
            · exact hD
    · -- a section and its line
      rw [hle]
      have hD : isMarker (dataLine 0 e.pl) = false := isMarker_dataLine _ _ (by omega)
      have hte := hb e (by simp)
      have hce := hc e (by simp)
      refine ⟨by intro x hx; simp [List.getLast?_append] at hx; subst hx; exact hD, ?_⟩
      intro w hw
      have hslen : (metaWriteLines p e.ts ++ [dataLine 0 e.pl]).length = lpm p + 1 := by
        simp [metaWriteLines_count]
      have htn := section_lines_tnm p e.ts hte hce _ hD
      -- the last w ≤ lpm lines lie inside (section ++ [D]).drop 1
      have hdrop : (encLines p none ys ++ (metaWriteLines p e.ts ++ [dataLine 0 e.pl])).drop
          ((encLines p none ys ++ (metaWriteLines p e.ts ++ [dataLine 0 e.pl])).length - w)
          = ((metaWriteLines p e.ts ++ [dataLine 0 e.pl]).drop 1).drop (lpm p - w) := by
        rw [List.length_append, hslen, List.drop_append]
        have h1 : (encLines p none ys).length + (lpm p + 1) - w - (encLines p none ys).length = lpm p + 1 - w := by omega
        rw [h1, List.drop_eq_nil_of_le (by omega), List.nil_append, List.drop_drop]
        congr 1; omega
      rw [hdrop]
      exact tnm_drop _ htn _

end BS.Impl

namespace BS.Impl

/-! ### cutting the canonical lines after `q` lines -/

/-- number of entries whose lines fit completely into the first `q` lines -/
def fitFrom (p : Nat) : Option Nat → Nat → List Entry → Nat
  | _, _, [] => 0
  | none, q, e :: es => if lpm p + 1 ≤ q then 1 + fitFrom p (some e.ts) (q - (lpm p + 1)) es else 0
  | some f, q, e :: es =>
    if e.ts - f ≤ 65534 then (if 1 ≤ q then 1 + fitFrom p (some f) (q - 1) es else 0)
    else (if lpm p + 1 ≤ q then 1 + fitFrom p (some e.ts) (q - (lpm p + 1)) es else 0)

/-- a (possibly empty) proper prefix of the lines of a section: what a torn append leaves -/
def TornSection (p : Nat) (T : List Bytes) : Prop :=
  T = [] ∨ ∃ ts t, ts < 2^64 ∧ 1 ≤ t ∧ t ≤ lpm p ∧ T = (metaWriteLines p ts).take t

/-- **take decomposition**: the first `q` canonical lines are the complete lines of the entries
that fit, followed by a torn section (or nothing) -/
theorem take_decomp (p : Nat) (xs : List Entry) (hb : ∀ x ∈ xs, x.ts < 2^64) : ∀ (full : Option Nat) (q : Nat),
    ∃ T, TornSection p T ∧
      (encLines p full xs).take q = encLines p full (xs.take (fitFrom p full q xs)) ++ T := by
  induction xs with
  | nil => intro full q; exact ⟨[], Or.inl rfl, by cases full <;> simp [encLines, fitFrom]⟩
  | cons e es ih =>
    intro full q
    have hbe := hb e (by simp)
    have hbes : ∀ x ∈ es, x.ts < 2^64 := fun x hx => hb x (by simp [hx])
    have hcount := metaWriteLines_count p e.ts
    -- the case where `e` opens a section, shared
    have newsec : ∀ (F : Option Nat),
        encLines p F (e :: es) = metaWriteLines p e.ts ++ dataLine 0 e.pl :: encLines p (some e.ts) es →
        (∀ k, encLines p F (e :: es.take k) = metaWriteLines p e.ts ++ dataLine 0 e.pl :: encLines p (some e.ts) (es.take k)) →
        ∃ T, TornSection p T ∧ (encLines p F (e :: es)).take q =
          encLines p F ((e :: es).take (if lpm p + 1 ≤ q then 1 + fitFrom p (some e.ts) (q - (lpm p + 1)) es else 0)) ++ T := by
      intro F hF hFk
      by_cases hq : lpm p + 1 ≤ q
      · simp only [hq, if_true]
        obtain ⟨T, hT, hdec⟩ := ih hbes (some e.ts) (q - (lpm p + 1))
        refine ⟨T, hT, ?_⟩
        rw [hF, Nat.add_comm 1, List.take_succ_cons, hFk]
        rw [List.take_append, hcount, List.take_of_length_le (by rw [hcount]; omega)]
        have : q - lpm p = (q - (lpm p + 1)) + 1 := by omega
        rw [this, List.take_succ_cons, hdec]
        simp
      · simp only [hq, if_false, List.take_zero]
        by_cases hq0 : q = 0
        · subst hq0; exact ⟨[], Or.inl rfl, by cases F <;> simp [encLines]⟩
        · refine ⟨(metaWriteLines p e.ts).take q, Or.inr ⟨e.ts, q, hbe, by omega, by omega, rfl⟩, ?_⟩
          rw [hF, List.take_append_of_le_length (by rw [hcount]; omega)]
          cases F <;> simp [encLines]
    match full with
    | none =>
      simp only [fitFrom]
      exact newsec none (by simp [encLines]) (by intro k; simp [encLines])
    | some f =>
      by_cases hd : e.ts - f ≤ 65534
      · simp only [fitFrom, if_pos hd]
        by_cases hq : 1 ≤ q
        · simp only [hq, if_true]
          obtain ⟨T, hT, hdec⟩ := ih hbes (some f) (q - 1)
          refine ⟨T, hT, ?_⟩
          have : q = (q - 1) + 1 := by omega
          rw [Nat.add_comm 1, List.take_succ_cons]
          simp only [encLines, if_pos hd]
          conv => lhs; rw [this, List.take_succ_cons, hdec]
          simp
        · have hq0 : q = 0 := by omega
          subst hq0
          exact ⟨[], Or.inl rfl, by simp [encLines]⟩
      · simp only [fitFrom, if_neg hd]
        exact newsec (some f) (by simp [encLines, hd]) (by intro k; simp [encLines, hd])

/-- **the repair removes exactly a torn section from behind complete entries** -/
theorem repairLines_torn (p : Nat) (ys : List Entry) (hb : ∀ x ∈ ys, x.ts < 2^64) (hc : TailClean p ys)
    (T : List Bytes) (hT : TornSection p T) :
    repairLines p (encLines p none ys ++ T) = encLines p none ys := by
  obtain ⟨hlastC, hwin⟩ := window_tnm p ys hb hc
  have hTlen : T.length ≤ lpm p := by
    rcases hT with rfl | ⟨ts, t, _, _, ht, rfl⟩
    · simp
    · rw [List.length_take, metaWriteLines_count]; omega
  unfold repairLines
  by_cases hle : (encLines p none ys ++ T).length ≤ lpm p
  · simp only [hle, if_true]
    -- then nothing was complete
    cases ys with
    | nil => simp [encLines]
    | cons e es =>
      exfalso
      simp only [encLines, List.length_append, List.length_cons, metaWriteLines_count] at hle
      omega
  · simp only [hle, if_false]
    generalize hC : encLines p none ys = C at hle hlastC hwin ⊢
    have hlen : (C ++ T).length = C.length + T.length := List.length_append
    have hCge : lpm p - T.length ≤ C.length := by omega
    -- the window: the last (lpm - |T|) lines of C, then T, then the artificial marker line
    have hwindow : (C ++ T).drop ((C ++ T).length - lpm p) = C.drop (C.length - (lpm p - T.length)) ++ T := by
      rw [hlen, List.drop_append]
      have h1 : C.length + T.length - lpm p = C.length - (lpm p - T.length) := by omega
      have h2 : C.length - (lpm p - T.length) - C.length = 0 := by omega
      rw [h1, h2, List.drop_zero]
    rw [hwindow]
    have hW0 := hwin (lpm p - T.length) (by omega)
    have hW0last : ∀ x, (C.drop (C.length - (lpm p - T.length))).getLast? = some x → isMarker x = false := by
      intro x hx
      apply hlastC
      cases hd : C.drop (C.length - (lpm p - T.length)) with
      | nil => rw [hd] at hx; simp at hx
      | cons a t =>
        rw [List.getLast?_drop] at hx
        split at hx
        · simp at hx
        · exact hx
    rw [List.append_assoc, fmp_append _ _ hW0 hW0last]
    have hW0len : (C.drop (C.length - (lpm p - T.length))).length = lpm p - T.length := by
      rw [List.length_drop]; omega
    rcases hT with rfl | ⟨ts, t, hts, ht1, ht2, rfl⟩
    · -- nothing torn: no pair at all
      simp only [List.nil_append, firstMarkerPair, Option.map_none, List.append_nil]
    · -- a torn section: the first pair is at its start
      obtain ⟨l1, l2, raws, hE, _, hm1, hm2, _⟩ := section_roundtrip p ts hts
      have hpair : firstMarkerPair ((metaWriteLines p ts).take t ++ [markerLine p]) = some 0 := by
        rw [hE]
        obtain ⟨t', rfl⟩ : ∃ t', t = t' + 1 := ⟨t - 1, by omega⟩
        cases t' with
        | zero => simp [firstMarkerPair, hm1, isMarker_markerLine]
        | succ t'' => simp [firstMarkerPair, hm1, hm2]
      rw [hpair]
      simp only [Option.map_some, Nat.zero_add, hW0len]
      have hTl : ((metaWriteLines p ts).take t).length = t := by
        rw [List.length_take, metaWriteLines_count]; omega
      rw [hlen, hTl]
      have : C.length + t - lpm p + (lpm p - t) = C.length := by omega
      rw [this, List.take_append_of_le_length (Nat.le_refl _), List.take_length]

end BS.Impl

namespace BS.Impl

theorem fitFrom_eq_linesWithin (p : Nat) (xs : List Entry) : ∀ (full : Option Nat) (off n : Nat), off ≤ n →
    Spec.linesWithinFrom p full off n xs = fitFrom p full ((n - off) / lineSize p) xs := by
  have hls := lineSize_pos p
  have hsec : Spec.secSize p + Spec.lineSize p = (lpm p + 1) * lineSize p := by
    rw [spec_secSize]; show metaSize p + lineSize p = _; unfold metaSize; rw [Nat.add_mul]; omega
  have key : ∀ (off n c : Nat), off ≤ n → (off + c * lineSize p ≤ n ↔ c ≤ (n - off) / lineSize p) := by
    intro off n c h
    rw [Nat.le_div_iff_mul_le hls]; omega
  have key2 : ∀ (off n c : Nat), off + c * lineSize p ≤ n →
      (n - (off + c * lineSize p)) / lineSize p = (n - off) / lineSize p - c := by
    intro off n c h
    have : n - off = (n - (off + c * lineSize p)) + c * lineSize p := by omega
    rw [this, Nat.add_mul_div_right _ _ hls, Nat.add_sub_cancel]
  induction xs with
  | nil => intro full off n _; cases full <;> simp [Spec.linesWithinFrom, fitFrom]
  | cons e es ih =>
    intro full off n hoff
    have sec_case : (if off + Spec.secSize p + Spec.lineSize p ≤ n then
          1 + Spec.linesWithinFrom p (some e.ts) (off + Spec.secSize p + Spec.lineSize p) n es else 0)
        = (if lpm p + 1 ≤ (n - off) / lineSize p then 1 + fitFrom p (some e.ts) ((n - off) / lineSize p - (lpm p + 1)) es else 0) := by
      rw [Nat.add_assoc, hsec]
      by_cases h : off + (lpm p + 1) * lineSize p ≤ n
      · have h' := (key off n (lpm p + 1) hoff).mp h
        simp only [h, h', if_true]
        rw [ih (some e.ts) _ n h, key2 off n _ h]
      · have h' : ¬ lpm p + 1 ≤ (n - off) / lineSize p := fun hc => h ((key off n _ hoff).mpr hc)
        simp [h, h']
    match full with
    | none => simp only [Spec.linesWithinFrom, fitFrom]; exact sec_case
    | some f =>
      by_cases hd : e.ts - f ≤ Spec.maxDelta
      · have hd' : e.ts - f ≤ 65534 := hd
        simp only [Spec.linesWithinFrom, fitFrom, if_pos hd, if_pos hd']
        have hl1 : Spec.lineSize p = 1 * lineSize p := by simp; rfl
        by_cases h : off + Spec.lineSize p ≤ n
        · have h2 : off + 1 * lineSize p ≤ n := by rw [← hl1]; exact h
          have h' := (key off n 1 hoff).mp h2
          simp only [h, h', if_true]
          rw [ih (some f) _ n h]
          have := key2 off n 1 h2
          rw [← hl1] at this
          rw [this]
        · have h' : ¬ 1 ≤ (n - off) / lineSize p := by
            intro hc
            have := (key off n 1 hoff).mpr hc
            rw [← hl1] at this; exact h this
          simp [h, h']
      · have hd' : ¬ e.ts - f ≤ 65534 := hd
        simp only [Spec.linesWithinFrom, fitFrom, if_neg hd, if_neg hd']
        exact sec_case

theorem flatten_take_partial (ls : Nat) (hls : 0 < ls) (L : List Bytes) (h : ∀ l ∈ L, l.length = ls) (n : Nat) :
    ∃ rem, rem.length < ls ∧ L.flatten.take n = (L.take (n / ls)).flatten ++ rem := by
  have hn : n = (n / ls) * ls + n % ls := by rw [Nat.mul_comm]; exact (Nat.div_add_mod n ls).symm
  refine ⟨(L.flatten.drop ((n / ls) * ls)).take (n % ls), ?_, ?_⟩
  · rw [List.length_take]
    have := Nat.mod_lt n hls
    omega
  · conv => lhs; rw [hn, List.take_add]
    rw [flatten_take_uniform ls L h]

/-- **T4 / C05: tail repair after a cut at any byte length.**  The canonical data region of a
valid history whose sections have no marker-like raw line, cut to its first `n` bytes, is
repaired to exactly the canonical region of the entries that were completely written. -/
theorem repair_cut (p : Nat) (xs : List Entry) (hv : Valid p xs) (hc : TailClean p xs) (n : Nat) :
    repairData p ((Spec.encode p xs).take n) = Spec.encode p (xs.take (Spec.linesWithin p xs n)) := by
  obtain ⟨hsort, hall⟩ := hv
  have hpl : ∀ x ∈ xs, x.pl.length = p := fun x hx => (hall x hx).2
  have hb : ∀ x ∈ xs, x.ts < 2^64 := fun x hx => (hall x hx).1
  have hls := lineSize_pos p
  have hL := encLines_length p xs hpl none
  have henc : Spec.encode p xs = (encLines p none xs).flatten := by
    unfold Spec.encode; rw [encLines_flatten]
  obtain ⟨rem, hrem, htake⟩ := flatten_take_partial (lineSize p) hls (encLines p none xs) hL n
  rw [henc, htake]
  rw [repairData_lines p _ rem (fun l hl => hL l (List.mem_of_mem_take hl)) hrem]
  obtain ⟨T, hT, hdec⟩ := take_decomp p xs hb none (n / lineSize p)
  rw [hdec]
  have hk : Spec.linesWithin p xs n = fitFrom p none (n / lineSize p) xs := by
    unfold Spec.linesWithin
    rw [fitFrom_eq_linesWithin p xs none 0 n (Nat.zero_le _)]; simp
  rw [hk]
  have hsubb : ∀ x ∈ xs.take (fitFrom p none (n / lineSize p) xs), x.ts < 2^64 :=
    fun x hx => hb x (List.mem_of_mem_take hx)
  have hsubc : TailClean p (xs.take (fitFrom p none (n / lineSize p) xs)) :=
    fun x hx => hc x (List.mem_of_mem_take hx)
  rw [repairLines_torn p _ hsubb hsubc T hT]
  unfold Spec.encode; rw [encLines_flatten]

/-- every entry fits into the whole region -/
theorem linesWithin_full (p : Nat) (xs : List Entry) (hpl : ∀ x ∈ xs, x.pl.length = p) :
    Spec.linesWithin p xs (Spec.encode p xs).length = xs.length := by
  unfold Spec.linesWithin Spec.encode
  have : ∀ (ys : List Entry) (full : Option Nat) (off n : Nat), (∀ x ∈ ys, x.pl.length = p) →
      off + (Spec.encFrom p full ys).length ≤ n → Spec.linesWithinFrom p full off n ys = ys.length := by
    intro ys
    induction ys with
    | nil => intro full off n _ _; cases full <;> simp [Spec.linesWithinFrom]
    | cons e es ih =>
      intro full off n hp hn
      have he : e.pl.length = p := hp e (by simp)
      have hes : ∀ x ∈ es, x.pl.length = p := fun x hx => hp x (by simp [hx])
      match full with
      | none =>
        simp only [Spec.encFrom, List.length_append, encSection_length, encLine_length, he] at hn
        have h1 : off + Spec.secSize p + Spec.lineSize p ≤ n := by
          rw [spec_secSize]; show off + metaSize p + (p + 2) ≤ n; omega
        simp only [Spec.linesWithinFrom, h1, if_true, List.length_cons]
        rw [ih (some e.ts) _ n hes (by rw [spec_secSize]; show off + metaSize p + (p + 2) + _ ≤ n; omega)]
        omega
      | some f =>
        by_cases hd : e.ts - f ≤ Spec.maxDelta
        · simp only [Spec.encFrom, if_pos hd, List.length_append, encLine_length, he] at hn
          have h1 : off + Spec.lineSize p ≤ n := by show off + (p + 2) ≤ n; omega
          simp only [Spec.linesWithinFrom, if_pos hd, h1, if_true, List.length_cons]
          rw [ih (some f) _ n hes (by show off + (p + 2) + _ ≤ n; omega)]
          omega
        · simp only [Spec.encFrom, if_neg hd, List.length_append, encSection_length, encLine_length, he] at hn
          have h1 : off + Spec.secSize p + Spec.lineSize p ≤ n := by
            rw [spec_secSize]; show off + metaSize p + (p + 2) ≤ n; omega
          simp only [Spec.linesWithinFrom, if_neg hd, h1, if_true, List.length_cons]
          rw [ih (some e.ts) _ n hes (by rw [spec_secSize]; show off + metaSize p + (p + 2) + _ ≤ n; omega)]
          omega
  exact this xs none 0 _ hpl (by simp)

/-- an intact region is left alone -/
theorem repair_intact (p : Nat) (xs : List Entry) (hv : Valid p xs) (hc : TailClean p xs) :
    repairData p (Spec.encode p xs) = Spec.encode p xs := by
  have h := repair_cut p xs hv hc (Spec.encode p xs).length
  rw [List.take_length] at h
  rw [h, linesWithin_full p xs (fun x hx => (hv.2 x hx).2), List.take_length]

end BS.Impl
