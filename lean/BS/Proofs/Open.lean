/-
  T4 + T6 assembled: `Data::open_existing` on a data file cut at any byte length with the index
  file in any legitimate prior state re-establishes the data invariant for the fully written
  prefix.
-/
import BS.Proofs.IndexOpen

namespace BS.Impl

/-- `last_meta_timestamp` finds the timestamp of the last section of a canonical region -/
def LastMetaExact (p : Nat) (ys : List Entry) : Prop :=
  lastMetaTs p (Spec.encode p ys) = .ok (lastSecTs p ys)

/-- **C05 / C04: `Data::open_existing` recovers the fully written prefix.** -/
theorem dataOpen_correct (p : Nat) (xs : List Entry) (hvx : Valid p xs) (hc : TailClean p xs)
    (hsize : (Spec.encode p xs).length < 2^64) (hdr : Bytes) (n : Nat) (st : Store) (cb : Option Bool)
    (hdata : st.data = some (hdr ++ (Spec.encode p xs).take n)) (hix : IndexState p xs st.index)
    (hlm : LastMetaExact p (xs.take (Spec.linesWithin p xs n))) :
    ∃ st' d, dataOpenExisting st p hdr.length cb = (st', .ok d) ∧ d.p = p ∧
      DataInv hdr ihdr st' d (xs.take (Spec.linesWithin p xs n)) := by
  generalize hk : Spec.linesWithin p xs n = k at hlm ⊢
  have hvy : Valid p (xs.take k) :=
    ⟨List.Pairwise.sublist (List.take_sublist _ _) hvx.1, fun x hx => hvx.2 x (List.mem_of_mem_take hx)⟩
  unfold dataOpenExisting
  simp only [hdata]
  have hdrop : (hdr ++ (Spec.encode p xs).take n).drop hdr.length = (Spec.encode p xs).take n := by simp
  have htake : (hdr ++ (Spec.encode p xs).take n).take hdr.length = hdr := by simp
  rw [hdrop, htake, repair_cut p xs hvx hc n, hk]
  unfold LastMetaExact at hlm
  rw [hlm]
  simp only
  have hix' : IndexState p xs ({ st with data := some (hdr ++ Spec.encode p (xs.take k)) } : Store).index := hix
  obtain ⟨part', hopen⟩ := indexOpen_correct p hdr.length xs hvx k hsize
    { st with data := some (hdr ++ Spec.encode p (xs.take k)) } hix'
  rw [hopen]
  simp only
  -- the last line
  by_cases hyn : xs.take k = []
  · rw [hyn]
    have hnd : lastLineOf (Spec.encode p []) (openedData p hdr.length []) cb = .error (.err "NoData") := by
      simp [lastLineOf, openedData, lastFullFrom]
    rw [hnd]
    refine ⟨_, _, rfl, rfl, ?_⟩
    constructor <;> simp [openedData, Spec.encode, Spec.encFrom, Spec.sections, Spec.sectionsFrom, Spec.encIndex,
        toIEntries, lastFullFrom, ihdr]
  · obtain ⟨ys', e, hye⟩ : ∃ ys' e, xs.take k = ys' ++ [e] := by
      have := List.dropLast_concat_getLast hyn
      exact ⟨_, _, this.symm⟩
    have hv' : Valid p (ys' ++ [e]) := by rw [← hye]; exact hvy
    have hll := lastLine_canonical p ys' e hv' cb (openedData p hdr.length (ys' ++ [e])) rfl rfl rfl
    rw [hye, hll]
    refine ⟨_, _, rfl, rfl, ?_⟩
    constructor
    · rfl
    · rfl
    · rfl
    · rfl
    · rfl
    · rfl
    · rfl
    · simp

end BS.Impl
