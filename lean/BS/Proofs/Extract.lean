/-
  T5: the buffered section scan of the index rebuild (`extract_entries_inner`, `meta()`)
  equals a single pass over all lines, for every chunk size ≥ 1; and on the canonical
  encoding that single pass finds exactly the sections the writer opened.
-/
import BS.Impl.Index
import BS.Proofs.Push

namespace BS.Impl

theorem metaScan_nil (p idx) : metaScan p idx [] = ([], 0) := by rw [metaScan.eq_def]

theorem metaScan_data (p idx l rest) (h : isMarker l = false) :
    metaScan p idx (l :: rest) = metaScan p (idx + 1) rest := by
  rw [metaScan.eq_def]; simp [h]

theorem metaScan_marker_last (p idx l) (h : isMarker l = true) : metaScan p idx [l] = ([], 1) := by
  rw [metaScan.eq_def]; simp [h]

theorem metaScan_lone (p idx l l2 rest) (h : isMarker l = true) (h2 : isMarker l2 = false) :
    metaScan p idx (l :: l2 :: rest) = metaScan p (idx + 2) rest := by
  rw [metaScan.eq_def]; simp [h, h2]

theorem metaScan_pair (p idx l l2 rest) (h : isMarker l = true) (h2 : isMarker l2 = true) :
    metaScan p idx (l :: l2 :: rest) =
      if rest.length < rawCount p then ([], 2 + rest.length)
      else
        let r := metaScan p (idx + 2 + rawCount p) (rest.drop (rawCount p))
        ((idx, metaTs p l l2 (rest.take (rawCount p))) :: r.1, r.2) := by
  rw [metaScan.eq_def]; simp [h, h2]

/-- clean split for the section scan -/
theorem metaScan_split (p : Nat) (idx : Nat) (A : List Bytes) :
    ∀ found n, metaScan p idx A = (found, n) →
      n ≤ A.length ∧ ∀ X, metaScan p idx (A ++ X) =
        (found ++ (metaScan p (idx + (A.length - n)) (A.drop (A.length - n) ++ X)).1,
         (metaScan p (idx + (A.length - n)) (A.drop (A.length - n) ++ X)).2) := by
  fun_induction metaScan p idx A <;> intro found n h
  next idx =>
    simp at h; obtain ⟨rfl, rfl⟩ := h; simp
  next idx l rest hm ih =>
    obtain ⟨hn, hX⟩ := ih found n h
    have hm' : isMarker l = false := by simpa using hm
    refine ⟨by simp; omega, fun X => ?_⟩
    rw [List.cons_append, metaScan_data _ _ _ _ hm', hX X, drop_cons_sub _ _ _ hn]
    have : idx + 1 + (rest.length - n) = idx + ((l :: rest).length - n) := by simp; omega
    rw [this]
  next idx l hm =>
    simp at h; obtain ⟨rfl, rfl⟩ := h; simp
  next idx l hm l2 rest hm2 ih =>
    obtain ⟨hn, hX⟩ := ih found n h
    have hm' : isMarker l = true := by simpa using hm
    have hm2' : isMarker l2 = false := by simpa using hm2
    refine ⟨by simp; omega, fun X => ?_⟩
    rw [List.cons_append, List.cons_append, metaScan_lone _ _ _ _ _ hm' hm2', hX X,
      drop_cons_sub _ _ _ (by simp; omega), drop_cons_sub _ _ _ hn]
    have : idx + 2 + (rest.length - n) = idx + ((l :: l2 :: rest).length - n) := by simp; omega
    rw [this]
  next idx l hm l2 rest hm2 hlen =>
    simp at h; obtain ⟨rfl, rfl⟩ := h
    refine ⟨by simp; omega, fun X => ?_⟩
    have : (l :: l2 :: rest).length - (2 + rest.length) = 0 := by simp; omega
    rw [this]; simp
  next idx l hm l2 rest hm2 hlen r ih =>
    have hm' : isMarker l = true := by simpa using hm
    have hm2' : isMarker l2 = true := by simpa using hm2
    have hlen' : rawCount p ≤ rest.length := by omega
    simp only [Prod.mk.injEq] at h
    obtain ⟨hf, hn'⟩ := h
    obtain ⟨hn, hX⟩ := ih r.1 r.2 rfl
    simp only [List.length_drop] at hn hX
    subst hn'
    refine ⟨by simp; omega, fun X => ?_⟩
    rw [List.cons_append, List.cons_append, metaScan_pair _ _ _ _ _ hm' hm2']
    have h1 : ¬ ((rest ++ X).length < rawCount p) := by simp; omega
    rw [if_neg h1, List.take_append_of_le_length hlen', List.drop_append_of_le_length hlen']
    simp only
    rw [hX X, ← hf]
    rw [drop_cons_sub _ _ _ (by simp; omega), drop_cons_sub _ _ _ (by omega)]
    have e1 : idx + 2 + rawCount p + (rest.length - rawCount p - r.2) = idx + ((l :: l2 :: rest).length - r.2) := by
      simp; omega
    have e2 : (rest.drop (rawCount p)).drop (rest.length - rawCount p - r.2) = rest.drop (rest.length - r.2) := by
      rw [List.drop_drop]; congr 1; omega
    rw [e1, e2]
    simp

/-- T5a: the buffered section scan equals the single pass, for every chunk size ≥ 1 -/
theorem extractChunked_eq (p k : Nat) (hk : 0 < k) (idx : Nat) (carry rest : List Bytes) :
    extractChunked p k idx carry rest =
      if rest = [] then [] else (metaScan p idx (carry ++ rest)).1 := by
  fun_induction extractChunked p k idx carry rest
  next idx carry rest h =>
    rcases h with h | h
    · simp [h]
    · omega
  next idx carry rest h buf r ih =>
    have hne : rest ≠ [] := fun h' => h (Or.inl h')
    simp only [hne, if_false]
    rw [ih]
    obtain ⟨hn, hX⟩ := metaScan_split p idx buf r.1 r.2 rfl
    have hsplit : carry ++ rest = buf ++ rest.drop k := by
      simp [buf, List.append_assoc, List.take_append_drop]
    rw [hsplit, hX (rest.drop k)]
    have hnil : (metaScan p (idx + (buf.length - r.2)) (List.drop (buf.length - r.2) buf)).1 = [] := by
      have h0 := hX []
      simp only [List.append_nil] at h0
      have h1 : (metaScan p idx buf).1 = r.1 := rfl
      rw [h0] at h1
      simp only at h1
      have := congrArg List.length h1
      simp only [List.length_append] at this
      exact List.eq_nil_of_length_eq_zero (by omega)
    split
    · rename_i hd
      simp [hd, hnil]
    · rfl

/-! ### the single pass on the canonical encoding -/

/-- sections as (line index, timestamp) -/
def secLinesFrom (p : Nat) : Option Nat → Nat → List Entry → List (Nat × Nat)
  | _, _, [] => []
  | none, idx, e :: es => (idx, e.ts) :: secLinesFrom p (some e.ts) (idx + lpm p + 1) es
  | some f, idx, e :: es =>
    if e.ts - f ≤ 65534 then secLinesFrom p (some f) (idx + 1) es
    else (idx, e.ts) :: secLinesFrom p (some e.ts) (idx + lpm p + 1) es

theorem metaScan_section (p idx ts : Nat) (h : ts < 2^64) (X : List Bytes) :
    metaScan p idx (metaWriteLines p ts ++ X) =
      ((idx, ts) :: (metaScan p (idx + lpm p) X).1, (metaScan p (idx + lpm p) X).2) := by
  obtain ⟨l1, l2, raws, hE, hlen, hm1, hm2, hts⟩ := section_roundtrip p ts h
  rw [hE, List.cons_append, List.cons_append, metaScan_pair _ _ _ _ _ hm1 hm2]
  have h1 : ¬ ((raws ++ X).length < rawCount p) := by simp; omega
  rw [if_neg h1, List.take_append_of_le_length (by omega), List.drop_append_of_le_length (by omega)]
  rw [← hlen, List.take_length, List.drop_length, hts, lpm_eq, hlen]
  simp [Nat.add_assoc]

/-- T5b: on canonical lines the scan finds exactly the writer's sections, nothing pending -/
theorem metaScan_encLines (p : Nat) (xs : List Entry) : ∀ (full : Option Nat) (idx : Nat),
    (∀ x ∈ xs, x.ts < 2^64) →
    metaScan p idx (encLines p full xs) = (secLinesFrom p full idx xs, 0) := by
  induction xs with
  | nil => intro full idx _; cases full <;> simp [encLines, secLinesFrom, metaScan_nil]
  | cons e es ih =>
    intro full idx hb
    have hbe : e.ts < 2^64 := hb e (by simp)
    have hbes : ∀ x ∈ es, x.ts < 2^64 := fun x hx => hb x (by simp [hx])
    have newsec : metaScan p idx (metaWriteLines p e.ts ++ dataLine 0 e.pl :: encLines p (some e.ts) es)
        = ((idx, e.ts) :: secLinesFrom p (some e.ts) (idx + lpm p + 1) es, 0) := by
      rw [metaScan_section p idx e.ts hbe, metaScan_data _ _ _ _ (isMarker_dataLine 0 e.pl (by omega)),
        ih (some e.ts) _ hbes]
    match full with
    | none => simpa [encLines, secLinesFrom] using newsec
    | some f =>
      by_cases hd : e.ts - f ≤ 65534
      · simp only [encLines, secLinesFrom, if_pos hd]
        rw [metaScan_data _ _ _ _ (isMarker_dataLine _ e.pl hd), ih (some f) _ hbes]
      · simp only [encLines, secLinesFrom, if_neg hd]
        exact newsec

/-- line indices are byte offsets divided by the line size -/
theorem secLinesFrom_offsets (p : Nat) (xs : List Entry) : ∀ (full : Option Nat) (idx : Nat),
    (secLinesFrom p full idx xs).map (fun (i, ts) => (ts, i * lineSize p))
      = Spec.sectionsFrom p full (idx * lineSize p) xs := by
  induction xs with
  | nil => intro full idx; cases full <;> simp [secLinesFrom, Spec.sectionsFrom]
  | cons e es ih =>
    intro full idx
    have hoff : (idx + lpm p + 1) * lineSize p = idx * lineSize p + Spec.secSize p + Spec.lineSize p := by
      rw [spec_secSize]; show _ = _ + metaSize p + lineSize p
      unfold metaSize; rw [Nat.add_mul, Nat.add_mul]; omega
    have hoff1 : (idx + 1) * lineSize p = idx * lineSize p + Spec.lineSize p := by
      show _ = _ + lineSize p; rw [Nat.add_mul]; omega
    match full with
    | none => simp [secLinesFrom, Spec.sectionsFrom, ih, hoff]
    | some f =>
      by_cases hd : e.ts - f ≤ Spec.maxDelta
      · have hd' : e.ts - f ≤ 65534 := hd
        simp only [secLinesFrom, Spec.sectionsFrom, if_pos hd, if_pos hd', ih, hoff1]
      · have hd' : ¬ e.ts - f ≤ 65534 := hd
        simp only [secLinesFrom, Spec.sectionsFrom, if_neg hd, if_neg hd', List.map_cons, ih, hoff]

/-- **T5: rebuilding the index from a canonical data region yields exactly the
incrementally maintained entries**, for every file length and every chunk size. -/
theorem extractEntries_canonical (p : Nat) (xs : List Entry) (hv : Valid p xs) :
    extractEntries p (Spec.encode p xs) = toIEntries (Spec.sections p xs) := by
  obtain ⟨hsort, hall⟩ := hv
  have hpl : ∀ x ∈ xs, x.pl.length = p := fun x hx => (hall x hx).2
  have hb : ∀ x ∈ xs, x.ts < 2^64 := fun x hx => (hall x hx).1
  unfold extractEntries extractEntriesInner
  simp only [List.drop_zero, Nat.sub_zero, List.take_length]
  have henc : Spec.encode p xs = (encLines p none xs).flatten := by
    unfold Spec.encode; rw [encLines_flatten]
  rw [henc, toLines_flatten _ _ (lineSize_pos p) (encLines_length p xs hpl none)]
  have hk : 0 < chunkLinesExtract p := by
    unfold chunkLinesExtract
    have hb' : 0 < lineSize p := lineSize_pos p
    have := nextMultiple_ge Gen.chunkExtract (lineSize p) (by simp [Gen.chunkExtract]) hb'
    exact Nat.div_pos this hb'
  rw [extractChunked_eq p _ hk]
  simp only [List.nil_append]
  rw [metaScan_encLines p xs none 0 hb]
  have hoffs := secLinesFrom_offsets p xs none 0
  simp only [Nat.zero_mul] at hoffs
  unfold Spec.sections toIEntries
  rw [← hoffs]
  split
  · rename_i hnil
    cases xs with
    | nil => simp [secLinesFrom]
    | cons e es => simp [encLines] at hnil
  · simp [List.map_map, Function.comp_def]

end BS.Impl
