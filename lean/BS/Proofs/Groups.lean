/-
  The canonical encoding seen as a sequence of groups: one group per full-timestamp
  section, holding the entries whose delta to that section's timestamp fits in 16 bits.
  This is the structure the seek code navigates (index entry k ↔ group k).
-/
import BS.Proofs.Between

namespace BS.Impl

/-- entries from the front that still fit under full timestamp `f`, and the rest -/
def takeGroup (f : Nat) : List Entry → List Entry × List Entry
  | [] => ([], [])
  | e :: es =>
    if e.ts - f ≤ 65534 then
      let r := takeGroup f es
      (e :: r.1, r.2)
    else ([], e :: es)

theorem takeGroup_append (f : Nat) (xs : List Entry) : (takeGroup f xs).1 ++ (takeGroup f xs).2 = xs := by
  induction xs with
  | nil => simp [takeGroup]
  | cons e es ih =>
    simp only [takeGroup]
    split
    · simp [ih]
    · simp

theorem takeGroup_snd_length (f : Nat) (xs : List Entry) : (takeGroup f xs).2.length ≤ xs.length := by
  have := congrArg List.length (takeGroup_append f xs)
  simp only [List.length_append] at this
  omega

/-- the groups of a history: each starts with the entry that opens a section -/
def groups : List Entry → List (List Entry)
  | [] => []
  | e :: es => (e :: (takeGroup e.ts es).1) :: groups (takeGroup e.ts es).2
termination_by xs => xs.length
decreasing_by
  have := takeGroup_snd_length e.ts es
  simp only [List.length_cons]; omega

theorem groups_flatten (xs : List Entry) : (groups xs).flatten = xs := by
  fun_induction groups xs
  next => simp
  next e es ih =>
    simp only [List.flatten_cons, ih, List.cons_append]
    rw [takeGroup_append]

theorem takeGroup_fst_within (f : Nat) (xs : List Entry) : ∀ x ∈ (takeGroup f xs).1, x.ts - f ≤ 65534 := by
  induction xs with
  | nil => simp [takeGroup]
  | cons e es ih =>
    simp only [takeGroup]
    split
    · rename_i h
      intro x hx
      simp only [List.mem_cons] at hx
      rcases hx with rfl | hx
      · exact h
      · exact ih x hx
    · simp

theorem takeGroup_snd_head (f : Nat) (xs : List Entry) : ∀ y ys, (takeGroup f xs).2 = y :: ys → ¬ y.ts - f ≤ 65534 := by
  induction xs with
  | nil => simp [takeGroup]
  | cons e es ih =>
    simp only [takeGroup]
    split
    · exact ih
    · rename_i h
      intro y ys hy
      simp only [List.cons.injEq] at hy
      rw [← hy.1]; exact h

/-- encoding the entries of one group under its own timestamp: plain lines -/
theorem encFrom_within (p f : Nat) (g : List Entry) (h : ∀ x ∈ g, x.ts - f ≤ 65534) (rest : List Entry) :
    Spec.encFrom p (some f) (g ++ rest) =
      (g.map fun x => Spec.encLine (x.ts - f) x.pl).flatten ++ Spec.encFrom p (some f) rest := by
  induction g with
  | nil => simp
  | cons x g ih =>
    have hx : x.ts - f ≤ Spec.maxDelta := h x (by simp)
    simp only [List.cons_append, Spec.encFrom, if_pos hx, List.map_cons, List.flatten_cons, List.append_assoc]
    rw [ih (fun y hy => h y (by simp [hy]))]

theorem lastFullFrom_within (f : Nat) (g : List Entry) (h : ∀ x ∈ g, x.ts - f ≤ 65534) :
    lastFullFrom (some f) g = some f := by
  induction g with
  | nil => simp [lastFullFrom]
  | cons x g ih =>
    have hx : x.ts - f ≤ 65534 := h x (by simp)
    simp only [lastFullFrom, if_pos hx]
    exact ih (fun y hy => h y (by simp [hy]))

/-- a new section is opened whether or not there was a full timestamp before, if the delta does not fit -/
theorem encFrom_far (p f : Nat) (e : Entry) (es : List Entry) (h : ¬ e.ts - f ≤ 65534) :
    Spec.encFrom p (some f) (e :: es) = Spec.encFrom p none (e :: es) := by
  have h' : ¬ e.ts - f ≤ Spec.maxDelta := h
  simp [Spec.encFrom, h']

theorem lastFullFrom_far (f : Nat) (e : Entry) (es : List Entry) (h : ¬ e.ts - f ≤ 65534) :
    lastFullFrom (some f) (e :: es) = lastFullFrom none (e :: es) := by
  simp [lastFullFrom, h]

theorem sectionsFrom_far (p f off : Nat) (e : Entry) (es : List Entry) (h : ¬ e.ts - f ≤ 65534) :
    Spec.sectionsFrom p (some f) off (e :: es) = Spec.sectionsFrom p none off (e :: es) := by
  have h' : ¬ e.ts - f ≤ Spec.maxDelta := h
  simp [Spec.sectionsFrom, h']

theorem sectionsFrom_within (p f off : Nat) (g : List Entry) (h : ∀ x ∈ g, x.ts - f ≤ 65534) (rest : List Entry) :
    Spec.sectionsFrom p (some f) off (g ++ rest) = Spec.sectionsFrom p (some f) (off + g.length * Spec.lineSize p) rest := by
  induction g generalizing off with
  | nil => simp
  | cons x g ih =>
    have hx : x.ts - f ≤ Spec.maxDelta := h x (by simp)
    simp only [List.cons_append, Spec.sectionsFrom, if_pos hx, List.length_cons]
    rw [ih _ (fun y hy => h y (by simp [hy]))]
    congr 1
    rw [Nat.add_mul]; omega

/-- (timestamp, byte offset) of each group, laid out one after the other from `off` -/
def secsOf (p : Nat) : Nat → List (List Entry) → List (Nat × Nat)
  | _, [] => []
  | off, g :: gs => ((g.head?.map (·.ts)).getD 0, off) :: secsOf p (off + metaSize p + g.length * lineSize p) gs

/-- **the index of the canonical encoding lists the groups** -/
theorem sections_groups (p : Nat) (xs : List Entry) : ∀ off,
    Spec.sectionsFrom p none off xs = secsOf p off (groups xs) := by
  fun_induction groups xs
  next => intro off; simp [Spec.sectionsFrom, secsOf]
  next e es ih =>
    intro off
    have hsplit : es = (takeGroup e.ts es).1 ++ (takeGroup e.ts es).2 := (takeGroup_append e.ts es).symm
    simp only [secsOf, List.head?_cons, Option.map_some, Option.getD_some, List.length_cons]
    conv => lhs; rw [hsplit]
    simp only [Spec.sectionsFrom]
    rw [sectionsFrom_within p e.ts _ _ (takeGroup_fst_within e.ts es)]
    have hoff : off + Spec.secSize p + Spec.lineSize p + (takeGroup e.ts es).1.length * Spec.lineSize p
        = off + metaSize p + ((takeGroup e.ts es).1.length + 1) * lineSize p := by
      rw [spec_secSize]; show _ + _ + lineSize p + _ * lineSize p = _
      rw [Nat.add_mul]; omega
    rw [hoff]
    cases hrest : (takeGroup e.ts es).2 with
    | nil => simp [Spec.sectionsFrom, groups, secsOf]
    | cons y ys =>
      rw [sectionsFrom_far p e.ts _ y ys (takeGroup_snd_head e.ts es y ys hrest), ← hrest]
      exact congrArg _ (ih _)

end BS.Impl

namespace BS.Impl

theorem secsOf_shift (p : Nat) (G : List (List Entry)) : ∀ off,
    secsOf p off G = (secsOf p 0 G).map fun s => (s.1, off + s.2) := by
  induction G with
  | nil => intro off; simp [secsOf]
  | cons g gs ih =>
    intro off
    simp only [secsOf, List.map_cons, Nat.add_zero, Nat.zero_add]
    rw [ih (off + metaSize p + g.length * lineSize p), ih (metaSize p + g.length * lineSize p)]
    simp [List.map_map, Function.comp_def, Nat.add_assoc]

/-- `A` ends at a group boundary of `A ++ xs`: the first entry of `xs` opens a section -/
def Bnd (A xs : List Entry) : Prop :=
  lastFullFrom none A = none ∨ ∃ f, lastFullFrom none A = some f ∧ ∀ y ys, xs = y :: ys → ¬ y.ts - f ≤ 65534

/-- encoding continues after `A` as if from scratch when the next entry opens a section -/
theorem encFrom_bnd (p : Nat) (A xs : List Entry) (h : Bnd A xs) :
    Spec.encFrom p (lastFullFrom none A) xs = Spec.encFrom p none xs := by
  rcases h with h | ⟨f, hf, hfar⟩
  · rw [h]
  · rw [hf]
    cases xs with
    | nil => simp [Spec.encFrom]
    | cons y ys => exact encFrom_far p f y ys (hfar y ys rfl)

theorem lastFullFrom_bnd (A xs : List Entry) (h : Bnd A xs) (hne : xs ≠ []) :
    lastFullFrom (lastFullFrom none A) xs = lastFullFrom none xs := by
  rcases h with h | ⟨f, hf, hfar⟩
  · rw [h]
  · rw [hf]
    cases xs with
    | nil => exact absurd rfl hne
    | cons y ys => exact lastFullFrom_far f y ys (hfar y ys rfl)

theorem encode_group_prefix (p : Nat) (e : Entry) (a : List Entry) (ha : ∀ x ∈ a, x.ts - e.ts ≤ 65534)
    (hpl : ∀ x ∈ e :: a, x.pl.length = p) (r : Nat) (hr : 1 ≤ r) (hr2 : r ≤ (e :: a).length) :
    (Spec.encFrom p none ((e :: a).take r)).length = metaSize p + r * lineSize p ∧
    lastFullFrom none ((e :: a).take r) = some e.ts := by
  obtain ⟨r', rfl⟩ : ∃ r', r = r' + 1 := ⟨r - 1, by omega⟩
  simp only [List.take_succ_cons]
  have hw : ∀ x ∈ a.take r', x.ts - e.ts ≤ 65534 := fun x hx => ha x (List.mem_of_mem_take hx)
  constructor
  · simp only [Spec.encFrom]
    have h := encFrom_within p e.ts (a.take r') hw []
    simp only [List.append_nil, Spec.encFrom] at h
    rw [h, List.length_append, List.length_append, encSection_length, encLine_length, hpl e (by simp)]
    have hlines : ((a.take r').map fun x => Spec.encLine (x.ts - e.ts) x.pl).flatten.length = (a.take r').length * lineSize p := by
      have hplt : ∀ x ∈ a.take r', x.pl.length = p := fun x hx => hpl x (by simp [List.mem_of_mem_take hx])
      generalize a.take r' = L at hplt
      induction L with
      | nil => simp
      | cons x L ih =>
        simp only [List.map_cons, List.flatten_cons, List.length_append, encLine_length, List.length_cons]
        rw [ih (fun y hy => hplt y (by simp [hy])), hplt x (by simp), Nat.add_mul]
        simp [lineSize]; omega
    rw [hlines, List.length_take]
    simp only [List.length_cons] at hr2
    have : min r' a.length = r' := by omega
    rw [this, lineSize, Nat.add_mul]; omega
  · simp only [lastFullFrom]
    exact lastFullFrom_within e.ts _ hw

/-- **Bridging lemma**: position `k` groups plus `r` lines into group `k` of the canonical
encoding, expressed through the index offsets. -/
theorem group_position (p : Nat) (xs : List Entry) : ∀ (A : List Entry), Bnd A xs →
    (∀ x ∈ xs, x.pl.length = p) →
    ∀ (k : Nat) (g : List Entry) (f o : Nat), (groups xs)[k]? = some g → (secsOf p 0 (groups xs))[k]? = some (f, o) →
      ∃ e rest, g = e :: rest ∧ f = e.ts ∧ (∀ x ∈ g, x.ts - e.ts ≤ 65534) ∧
        (Spec.encode p (A ++ ((groups xs).take k).flatten)).length = (Spec.encode p A).length + o ∧
        Bnd (A ++ ((groups xs).take k).flatten) (g ++ ((groups xs).drop (k + 1)).flatten) ∧
        ∀ r, 1 ≤ r → r ≤ g.length →
          (Spec.encode p (A ++ ((groups xs).take k).flatten ++ g.take r)).length
              = (Spec.encode p A).length + o + metaSize p + r * lineSize p ∧
          lastFullFrom none (A ++ ((groups xs).take k).flatten ++ g.take r) = some e.ts := by
  fun_induction groups xs
  next => intro A _ _ k g f o hg; simp at hg
  next e es ih =>
    intro A hbnd hpl k g f o hg hs
    have hsplit : es = (takeGroup e.ts es).1 ++ (takeGroup e.ts es).2 := (takeGroup_append e.ts es).symm
    have hw := takeGroup_fst_within e.ts es
    have hplg : ∀ x ∈ e :: (takeGroup e.ts es).1, x.pl.length = p := by
      intro x hx
      apply hpl
      simp only [List.mem_cons] at hx ⊢
      rcases hx with rfl | hx
      · left; rfl
      · right; rw [hsplit]; exact List.mem_append_left _ hx
    have hplb : ∀ x ∈ (takeGroup e.ts es).2, x.pl.length = p := by
      intro x hx; apply hpl; right; rw [hsplit]; exact List.mem_append_right _ hx
    cases k with
    | zero =>
      simp only [List.getElem?_cons_zero, Option.some.injEq] at hg
      simp only [secsOf, List.getElem?_cons_zero, Option.some.injEq, List.head?_cons, Option.map_some,
        Option.getD_some, Prod.mk.injEq] at hs
      obtain ⟨hf, ho⟩ := hs
      subst hg
      refine ⟨e, _, rfl, hf.symm, ?_, by simp [← ho], ?_, ?_⟩
      · intro x hx
        simp only [List.mem_cons] at hx
        rcases hx with rfl | hx
        · omega
        · exact hw x hx
      · simp only [List.take_zero, List.flatten_nil, List.append_nil]
        rcases hbnd with h | ⟨f', hf', hfar⟩
        · exact Or.inl h
        · right; exact ⟨f', hf', fun y ys hy => by
            simp only [List.cons_append, List.cons.injEq] at hy
            exact hfar e es (by rfl) |> fun h => by rw [← hy.1]; exact h⟩
      · intro r hr1 hr2
        simp only [List.take_zero, List.flatten_nil, List.append_nil]
        have hb' : Bnd A ((e :: (takeGroup e.ts es).1).take r) := by
          rcases hbnd with h | ⟨f', hf', hfar⟩
          · exact Or.inl h
          · right; refine ⟨f', hf', fun y ys hy => ?_⟩
            obtain ⟨r', rfl⟩ : ∃ r', r = r' + 1 := ⟨r - 1, by omega⟩
            simp only [List.take_succ_cons, List.cons.injEq] at hy
            rw [← hy.1]; exact hfar e es rfl
        obtain ⟨h1, h2⟩ := encode_group_prefix p e _ hw hplg r hr1 hr2
        constructor
        · unfold Spec.encode
          rw [encFrom_append, encFrom_bnd p A _ hb', List.length_append, h1, ← ho]; omega
        · rw [lastFullFrom_append, lastFullFrom_bnd A _ hb' (by
            obtain ⟨r', rfl⟩ : ∃ r', r = r' + 1 := ⟨r - 1, by omega⟩
            simp), h2]
    | succ k =>
      simp only [List.getElem?_cons_succ] at hg
      simp only [secsOf, List.getElem?_cons_succ, Nat.zero_add] at hs
      rw [secsOf_shift] at hs
      simp only [List.getElem?_map, Option.map_eq_some_iff] at hs
      obtain ⟨⟨f0, o0⟩, hs0, hfo⟩ := hs
      simp only [Prod.mk.injEq] at hfo
      obtain ⟨rfl, rfl⟩ := hfo
      -- the first group, completely written
      have hfull0 := encode_group_prefix p e _ hw hplg (e :: (takeGroup e.ts es).1).length (by simp) (Nat.le_refl _)
      simp only [List.take_length] at hfull0
      obtain ⟨hlen0, hlf0⟩ := hfull0
      have hbndA : Bnd A (e :: (takeGroup e.ts es).1) := by
        rcases hbnd with h | ⟨f', hf', hfar⟩
        · exact Or.inl h
        · right; refine ⟨f', hf', fun y ys hy => ?_⟩
          simp only [List.cons.injEq] at hy
          rw [← hy.1]; exact hfar e es rfl
      have hlfA : lastFullFrom none (A ++ e :: (takeGroup e.ts es).1) = some e.ts := by
        rw [lastFullFrom_append, lastFullFrom_bnd A _ hbndA (by simp), hlf0]
      have hbnd' : Bnd (A ++ e :: (takeGroup e.ts es).1) (takeGroup e.ts es).2 := by
        right
        exact ⟨e.ts, hlfA, fun y ys hy => takeGroup_snd_head e.ts es y ys hy⟩
      have hlenA : (Spec.encode p (A ++ e :: (takeGroup e.ts es).1)).length
          = (Spec.encode p A).length + metaSize p + (e :: (takeGroup e.ts es).1).length * lineSize p := by
        unfold Spec.encode
        rw [encFrom_append, encFrom_bnd p A _ hbndA, List.length_append, hlen0]; omega
      obtain ⟨e', rest', hg', hf', hwithin, hoff, hb2, hr⟩ := ih (A ++ e :: (takeGroup e.ts es).1) hbnd' hplb k g f0 o0 hg hs0
      refine ⟨e', rest', hg', hf', hwithin, ?_, ?_, ?_⟩
      · simp only [List.take_succ_cons, List.flatten_cons]
        rw [← List.append_assoc, hoff, hlenA]
        simp only [List.length_cons]; omega
      · simp only [List.take_succ_cons, List.flatten_cons, List.drop_succ_cons]
        rw [← List.append_assoc]; exact hb2
      · intro r hr1 hr2
        obtain ⟨h1, h2⟩ := hr r hr1 hr2
        simp only [List.take_succ_cons, List.flatten_cons]
        rw [← List.append_assoc A]
        refine ⟨?_, h2⟩
        rw [h1, hlenA]
        simp only [List.length_cons]; omega

end BS.Impl
