/-
  C07 (forward), whole file: the independent reference reader of Spec.lean takes a file written in
  the library's format apart (header lengths, preamble text, payload size, user header) and decodes it.
-/
import BS.Proofs.HeaderRT
import BS.Proofs.SpecDecode

namespace BS.Impl
open BS

/-- the preamble text with an arbitrary tail after the payload-size end pattern -/
def textWith (p : Nat) (C : Bytes) : Bytes := A4 ++ (natDigits p ++ (Gen.payloadEnd ++ C))

theorem fullText_with (p : Nat) : fullText p = textWith p post1 := fullText_eq p

theorem findW_payloadStart (p : Nat) (C : Bytes) :
    findSub Gen.payloadStart (textWith p C) = some (A4.length - Gen.payloadStart.length) := by
  have : textWith p C = (pre1 ++ (Gen.versionStart ++ ([49] ++ (Gen.versionEnd ++ mid1)))) ++ (Gen.payloadStart ++
      (natDigits p ++ (Gen.payloadEnd ++ C))) := by simp [textWith, A4, List.append_assoc]
  rw [this, findSub_lit _ _ _ no_earlier_payloadStart]
  simp only [A4, List.length_append, List.length_cons, List.length_nil, Option.some.injEq]
  omega

theorem findW_payloadEnd (p : Nat) (C : Bytes) :
    findSub Gen.payloadEnd (textWith p C) = some (A4.length + (natDigits p).length) := by
  unfold textWith
  rw [← List.append_assoc]
  rw [findSub_at Gen.payloadEnd (A4 ++ natDigits p) (Gen.payloadEnd ++ C) ?_ (isPrefixOf_self_append _ _)]
  · simp
  · intro j hj
    have hdig := natDigits_digits p
    have hne := natDigits_ne_nil p
    by_cases hfit : j < A4.length ∧ Gen.payloadEnd.length ≤ A4.length - j
    · have := no_earlier_payloadEnd_lit j hfit.1 hfit.2
      rw [List.drop_append_of_le_length (by omega), List.append_assoc,
        isPrefixOf_append_right _ _ _ (by simp; omega)]
      exact this
    · cases hpre : Gen.payloadEnd.isPrefixOf (List.drop j (A4 ++ natDigits p) ++ (Gen.payloadEnd ++ C)) with
      | false => rfl
      | true =>
        exfalso
        let k := A4.length - j
        have hk : k < Gen.payloadEnd.length := by
          show A4.length - j < _
          by_cases hjl : j < A4.length
          · have := hfit; simp only [hjl, true_and, Nat.not_le] at this; exact this
          · have : A4.length - j = 0 := by omega
            rw [this]; decide
        obtain ⟨c, hc⟩ : ∃ c, Gen.payloadEnd[k]? = some c := by
          cases h : Gen.payloadEnd[k]? with
          | some c => exact ⟨c, rfl⟩
          | none => rw [List.getElem?_eq_none_iff] at h; omega
        have hwin := isPrefixOf_getElem _ _ k c hpre hc
        have hlen : (A4 ++ natDigits p).length = A4.length + (natDigits p).length := by simp
        have hj' : j < A4.length + (natDigits p).length := by rw [← hlen]; exact hj
        have hdpos : 0 < (natDigits p).length := List.length_pos_iff.mpr hne
        have hget : (List.drop j (A4 ++ natDigits p) ++ (Gen.payloadEnd ++ C))[k]? =
            (natDigits p)[j + k - A4.length]? := by
          rw [List.getElem?_append_left (by
            rw [List.length_drop, hlen]; show A4.length - j < _; omega)]
          rw [List.getElem?_drop, List.getElem?_append_right (by show A4.length ≤ j + (A4.length - j); omega)]
        rw [hget] at hwin
        have hmem : c ∈ natDigits p := List.mem_of_getElem? hwin
        exact payloadEnd_nondigit k hk c hc (hdig c hmem)

end BS.Impl

namespace BS.Spec
open BS BS.Impl

theorem findSub_eq : @Spec.findSub = @Impl.findSub := by
  funext pat b
  unfold Spec.findSub Impl.findSub
  have : ∀ (fuel : Nat) (b : Bytes) (i : Nat), Spec.findSub.go pat b i fuel = Impl.findSub.go pat b i fuel := by
    intro fuel
    induction fuel with
    | zero => intro b i; rw [Spec.findSub.go.eq_def, Impl.findSub.go.eq_def]
    | succ n ih =>
      intro b i
      rw [Spec.findSub.go.eq_def, Impl.findSub.go.eq_def]
      simp only
      split
      · rfl
      · cases b with
        | nil => rfl
        | cons x t => exact ih t (i+1)
  exact this _ _ _

theorem natDigits_eq (n : Nat) : Spec.natDigits n = Impl.natDigits n := by
  induction n using Nat.strongRecOn with
  | ind n ih =>
    rw [Spec.natDigits, Impl.natDigits]
    by_cases h : n < 10
    · simp [h]
    · simp only [h, if_false]; rw [ih (n / 10) (by omega)]

theorem preambleText_eq (p : Nat) : Spec.preambleText p = Impl.fullText p := by
  unfold Spec.preambleText Impl.fullText
  rw [natDigits_eq, natDigits_eq]

theorem parseNat_digits (n : Nat) : Spec.parseNat? (Impl.natDigits n) = some n := by
  unfold Spec.parseNat?
  have hne := natDigits_ne_nil n
  cases hb : Impl.natDigits n with
  | nil => exact absurd hb hne
  | cons c t =>
    simp only [List.isEmpty_cons, Bool.false_eq_true, if_false]
    have := foldl_natDigits n
    rw [hb] at this
    exact this

/-- **the independent reference reader takes a library-format file apart**: user header,
payload size and data region, for every payload size and every user header -/
theorem refSplitFile_dataFile (p : Nat) (hp : p ≤ u64Max) (user region : Bytes)
    (hH : (Spec.innerHeader p user).length ≤ 65535) :
    Spec.refSplitFile (Spec.fileHeader p user ++ region) = some (user, p, region) := by
  obtain ⟨hlen4, hlenlt⟩ := fullText_length_lt p hp
  have htext := preambleText_eq p
  have hl2 : (leN 2 (Spec.innerHeader p user).length).length = 2 := leN_length 2 _
  have hl4 : (leN 4 (Spec.preambleText p).length).length = 4 := leN_length 4 _
  have hinner : Spec.innerHeader p user = leN 4 (Spec.preambleText p).length ++ Spec.preambleText p ++ user := rfl
  have hinlen : (Spec.innerHeader p user).length = 4 + (Spec.preambleText p).length + user.length := by
    rw [hinner]; simp only [List.length_append, hl4]
  have hfile : Spec.fileHeader p user ++ region =
      leN 2 (Spec.innerHeader p user).length ++ (Gen.lineEnds ++ (Spec.innerHeader p user ++ region)) := by
    simp [Spec.fileHeader, Spec.outerHeader, List.append_assoc]
  have hle : (Gen.lineEnds).length = 2 := by decide
  unfold Spec.refSplitFile
  rw [hfile]
  have hflen : (leN 2 (Spec.innerHeader p user).length ++ (Gen.lineEnds ++ (Spec.innerHeader p user ++ region))).length
      = 4 + (Spec.innerHeader p user).length + region.length := by
    simp only [List.length_append, hl2, hle]; omega
  have c1 : ¬ (4 + (Spec.innerHeader p user).length + region.length < 4) := by omega
  have htake2 : (leN 2 (Spec.innerHeader p user).length ++ (Gen.lineEnds ++ (Spec.innerHeader p user ++ region))).take 2
      = leN 2 (Spec.innerHeader p user).length := List.take_left' hl2
  have hun2 : unN (leN 2 (Spec.innerHeader p user).length) = (Spec.innerHeader p user).length :=
    unN_leN 2 _ (by omega)
  have hdrop4 : (leN 2 (Spec.innerHeader p user).length ++ (Gen.lineEnds ++ (Spec.innerHeader p user ++ region))).drop 4
      = Spec.innerHeader p user ++ region := by
    rw [← List.append_assoc]
    exact List.drop_left' (by simp only [List.length_append, hl2, hle])
  simp only [hflen, c1, if_false, htake2, hun2, hdrop4]
  have c2 : ¬ (4 + (Spec.innerHeader p user).length + region.length < 4 + (Spec.innerHeader p user).length) := by omega
  simp only [c2, if_false, List.take_left' rfl]
  have c3 : ¬ ((Spec.innerHeader p user).length < 4) := by omega
  have htake4 : (Spec.innerHeader p user).take 4 = leN 4 (Spec.preambleText p).length := by
    rw [hinner, List.append_assoc]; exact List.take_left' hl4
  have hun4 : unN (leN 4 (Spec.preambleText p).length) = (Spec.preambleText p).length :=
    unN_leN 4 _ (by rw [htext]; exact hlenlt)
  simp only [c3, if_false, htake4, hun4]
  have c4 : ¬ ((Spec.innerHeader p user).length < 4 + (Spec.preambleText p).length) := by omega
  simp only [c4, if_false]
  have hdropin : (Spec.innerHeader p user).drop 4 = Spec.preambleText p ++ user := by
    rw [hinner, List.append_assoc]; exact List.drop_left' hl4
  have htxt : ((Spec.innerHeader p user).drop 4).take (Spec.preambleText p).length = Spec.preambleText p := by
    rw [hdropin]; exact List.take_left' rfl
  have husr : (Spec.innerHeader p user).drop (4 + (Spec.preambleText p).length) = user := by
    rw [hinner]
    exact List.drop_left' (by simp only [List.length_append, hl4])
  rw [htxt, husr, htext, fullText_with, findSub_eq, findW_payloadStart, findW_payloadEnd]
  simp only
  have hps : Gen.payloadStart.length ≤ A4.length := by
    simp only [A4, List.length_append]; omega
  have hs : A4.length - Gen.payloadStart.length + Gen.payloadStart.length = A4.length := by omega
  rw [hs]
  have hsl : ((textWith p post1).take (A4.length + (Impl.natDigits p).length)).drop A4.length = Impl.natDigits p :=
    slice_mid A4 (Impl.natDigits p) (Gen.payloadEnd ++ post1)
  rw [hsl, parseNat_digits]
  have hrest : (leN 2 (Spec.innerHeader p user).length ++ (Gen.lineEnds ++ (Spec.innerHeader p user ++ region))).drop
      (4 + (Spec.innerHeader p user).length) = region := by
    have h2 : leN 2 (Spec.innerHeader p user).length ++ (Gen.lineEnds ++ (Spec.innerHeader p user ++ region)) =
        (leN 2 (Spec.innerHeader p user).length ++ Gen.lineEnds ++ Spec.innerHeader p user) ++ region := by
      simp only [List.append_assoc]
    rw [h2]
    exact List.drop_left' (by simp only [List.length_append, hl2, hle])
  rw [hrest]

/-- **C07 (→), whole file**: the independent reference decoder — which knows only the documented
layout — decodes the canonical file of any valid history to exactly (user header, payload size,
history) -/
theorem refDecodeFile_dataFile (p : Nat) (hp : p ≤ u64Max) (user : Bytes) (xs : List Entry) (hv : Valid p xs)
    (hH : (Spec.innerHeader p user).length ≤ 65535) :
    Spec.refDecodeFile (Spec.dataFile p user xs) = some (user, p, xs) := by
  unfold Spec.refDecodeFile Spec.dataFile
  rw [refSplitFile_dataFile p hp user _ hH]
  simp only
  rw [refDecode_encode p xs hv]

end BS.Spec
