/-
  The three processors folded over a list of entries:
  `read` collects them, `read_first_n` takes a prefix, `read_resampling` forms bucket means.
-/
import BS.Proofs.Roundtrip

namespace BS.Impl

/-! ### collect (`read`) -/

theorem fold_collect (xs : List Entry) : ∀ (s : Collect),
    Sorted xs → (∀ x ∈ xs, s.last < x.ts ∨ x.ts = 0 ∧ s.last = 0) →
    ∃ l, foldProc collectProc s xs = .ok { last := l, out := s.out ++ xs } := by
  induction xs with
  | nil => intro s _ _; exact ⟨s.last, by simp [foldProc]⟩
  | cons e es ih =>
    intro s hsort hlast
    have hes : Sorted es := (List.pairwise_cons.mp hsort).2
    have hlt : ∀ x ∈ es, e.ts < x.ts := (List.pairwise_cons.mp hsort).1
    have hcond : e.ts > s.last ∨ e.ts = 0 := by
      rcases hlast e (by simp) with h | ⟨h, _⟩
      · exact Or.inl h
      · exact Or.inr h
    simp only [foldProc, collectProc, hcond, if_true]
    obtain ⟨l, hl⟩ := ih { last := e.ts, out := s.out ++ [e] } hes (fun x hx => Or.inl (hlt x hx))
    exact ⟨l, by simpa using hl⟩

/-- a full read of a strictly increasing history returns exactly that history -/
theorem fold_collect_init (xs : List Entry) (h : Sorted xs) :
    ∃ l, foldProc collectProc {} xs = .ok { last := l, out := xs } := by
  have := fold_collect xs {} h (by
    intro x _
    by_cases hx : x.ts = 0
    · exact Or.inr ⟨hx, rfl⟩
    · exact Or.inl (by show 0 < x.ts; omega))
  simpa using this

/-! ### first n (`read_first_n`) -/

theorem fold_firstN (xs : List Entry) : ∀ (s : FirstN), s.nRead < s.n →
    (xs.length < s.n - s.nRead →
      foldProc firstNProc s xs = .ok { s with nRead := s.nRead + xs.length, out := s.out ++ xs }) ∧
    (s.n - s.nRead ≤ xs.length →
      foldProc firstNProc s xs = .error (.halted { s with nRead := s.n, out := s.out ++ xs.take (s.n - s.nRead) })) := by
  induction xs with
  | nil =>
    intro s hn
    refine ⟨fun _ => by simp [foldProc], fun h => ?_⟩
    simp at h; omega
  | cons e es ih =>
    intro s hn
    by_cases hlast : s.nRead + 1 ≥ s.n
    · -- this entry is the n-th
      have hn1 : s.n - s.nRead = 1 := by omega
      refine ⟨fun h => by simp at h; omega, fun _ => ?_⟩
      simp only [foldProc, firstNProc, hlast, if_true, hn1, List.take_succ_cons, List.take_zero]
      have : s.nRead + 1 = s.n := by omega
      simp [this]
    · have hlt : s.nRead + 1 < s.n := by omega
      obtain ⟨ih1, ih2⟩ := ih { s with nRead := s.nRead + 1, out := s.out ++ [e] } hlt
      simp only [foldProc, firstNProc, hlast, if_false]
      constructor
      · intro h
        simp only [List.length_cons] at h
        rw [ih1 (by simp; omega)]
        simp [Nat.add_assoc, Nat.add_comm 1]
      · intro h
        simp only [List.length_cons] at h
        rw [ih2 (by simp; omega)]
        have : s.n - s.nRead = (s.n - (s.nRead + 1)) + 1 := by omega
        simp [this]

/-- `read_first_n` with n ≥ 1 returns the first n entries (all of them if there are fewer) -/
theorem fold_firstN_out (n : Nat) (hn : 1 ≤ n) (xs : List Entry) :
    (match foldProc firstNProc { n := n } xs with
     | .ok c => c.out
     | .error (.halted c) => c.out
     | .error _ => []) = xs.take n := by
  obtain ⟨h1, h2⟩ := fold_firstN xs { n := n } (by simp; omega)
  by_cases hlen : xs.length < n
  · rw [h1 (by simpa using hlen)]
    simp [List.take_of_length_le (Nat.le_of_lt hlen)]
  · rw [h2 (by simp; omega)]
    simp

end BS.Impl

namespace BS.Impl

/-! ### bucket means (`read_resampling`, `Sampler::process`) -/

theorem linDecode_lt (pl : Bytes) : linDecode pl < 2^32 := by
  have h := unN_lt (pl.take 4)
  have h2 : (pl.take 4).length ≤ 4 := by simp; omega
  have : (256 : Nat) ^ (pl.take 4).length ≤ 256 ^ 4 := Nat.pow_le_pow_right (by omega) h2
  unfold linDecode
  omega

theorem spec_linDecode (pl : Bytes) : Spec.linDecode pl = linDecode pl := rfl
theorem spec_linEncode (p v : Nat) : Spec.linEncode p v = linEncode p v := rfl
theorem spec_linDecode_fn : Spec.linDecode = linDecode := rfl

theorem sum_linDecode_le (pls : List Bytes) : (pls.map linDecode).sum ≤ pls.length * (2^32 - 1) := by
  induction pls with
  | nil => simp
  | cons x xs ih =>
    simp only [List.map_cons, List.sum_cons, List.length_cons]
    have := linDecode_lt x
    rw [Nat.add_mul]; omega

/-- the sampler's accumulator represents the pending (incomplete) bucket `pend` -/
def SamplerRep (s : Sampler) (pend : List Entry) : Prop :=
  s.sampled = pend.length ∧ s.tsSum = (pend.map (·.ts)).sum ∧ s.vSum = (pend.map (linDecode ·.pl)).sum
    ∧ pend.length < s.bucket

theorem bucketMeans_step_full (B : Nat) (mean : List Bytes → Bytes) (b rest : List Entry) (hB : b.length = B) (hpos : 0 < B) :
    Spec.bucketMeans B mean (b ++ rest) =
      ⟨(b.map (·.ts)).sum / B, mean (b.map (·.pl))⟩ :: Spec.bucketMeans B mean rest := by
  rw [Spec.bucketMeans]
  have : ¬ (B = 0 ∨ (b ++ rest).length < B) := by simp; omega
  simp only [this, dite_false]
  rw [List.take_append_of_le_length (by omega), List.drop_append_of_le_length (by omega)]
  simp [← hB]

theorem bucketMeans_short (B : Nat) (mean : List Bytes → Bytes) (xs : List Entry) (h : xs.length < B) :
    Spec.bucketMeans B mean xs = [] := by
  rw [Spec.bucketMeans]; simp [h]

theorem fold_sampler (p : Nat) (xs : List Entry) : ∀ (s : Sampler) (pend : List Entry),
    SamplerRep s pend → s.p = p → s.bucket ≤ 2^32 →
    ∃ s', foldProc samplerProc s xs = .ok s' ∧
      s'.out = s.out ++ Spec.bucketMeans s.bucket (Spec.linMean p) (pend ++ xs) ∧
      s'.bucket = s.bucket ∧ s'.p = s.p ∧
      SamplerRep s' ((pend ++ xs).drop ((pend ++ xs).length / s.bucket * s.bucket)) := by
  induction xs with
  | nil =>
    intro s pend hrep _ _
    obtain ⟨h1, h2, h3, h4⟩ := hrep
    refine ⟨s, by simp [foldProc], ?_, rfl, rfl, ?_⟩
    · simp [bucketMeans_short _ _ _ h4]
    · have : pend.length / s.bucket = 0 := Nat.div_eq_of_lt h4
      simp [this]; exact ⟨h1, h2, h3, h4⟩
  | cons e es ih =>
    intro s pend hrep hp hB
    obtain ⟨h1, h2, h3, h4⟩ := hrep
    have hv : ¬ (s.vSum + linDecode e.pl ≥ 2^64) := by
      have := sum_linDecode_le (pend.map (·.pl))
      simp only [List.map_map, List.length_map] at this
      have hd := linDecode_lt e.pl
      have : s.vSum ≤ pend.length * (2^32 - 1) := by rw [h3]; exact this
      have hpb : pend.length * (2^32 - 1) ≤ 2^32 * (2^32 - 1) := Nat.mul_le_mul_right _ (by omega)
      omega
    simp only [foldProc, samplerProc, hv, if_false]
    by_cases hfull : s.sampled + 1 ≥ s.bucket
    · -- bucket complete
      have hlen : (pend ++ [e]).length = s.bucket := by simp; omega
      simp only [hfull, if_true]
      obtain ⟨s', hs', hout, hb', hp', hrep'⟩ := ih
        { s with tsSum := 0, vSum := 0, sampled := 0,
                 out := s.out ++ [⟨(s.tsSum + e.ts) / s.bucket, linEncode s.p ((s.vSum + linDecode e.pl) / s.bucket)⟩] }
        [] ⟨by simp, by simp, by simp, by simp; omega⟩ hp hB
      refine ⟨s', hs', ?_, hb', hp', ?_⟩
      · rw [hout]
        have happ : pend ++ e :: es = (pend ++ [e]) ++ es := by simp
        rw [happ, bucketMeans_step_full _ _ _ _ hlen (by omega)]
        have hl1 : pend.length + 1 = s.bucket := by simpa using hlen
        have hent : (⟨(s.tsSum + e.ts) / s.bucket, linEncode s.p ((s.vSum + linDecode e.pl) / s.bucket)⟩ : Entry) =
            ⟨((pend ++ [e]).map (·.ts)).sum / s.bucket, Spec.linMean p ((pend ++ [e]).map (·.pl))⟩ := by
          simp only [Spec.linMean, spec_linEncode, spec_linDecode_fn, List.map_append, List.sum_append, List.map_map,
            List.map_cons, List.map_nil, List.sum_cons, List.sum_nil, Nat.add_zero, List.length_append,
            List.length_map, List.length_cons, List.length_nil, Nat.zero_add, hl1, h2, h3, hp]
          rfl
        simp [hent]
      · -- the pending remainder is the same after removing one full bucket
        have happ : pend ++ e :: es = (pend ++ [e]) ++ es := by simp
        simp only [List.nil_append] at hrep'
        rw [happ]
        have hl : ((pend ++ [e]) ++ es).length = s.bucket + es.length := by
          rw [List.length_append, hlen]
        have hdiv : (s.bucket + es.length) / s.bucket = es.length / s.bucket + 1 := by
          rw [Nat.add_comm, Nat.add_div_right _ (by omega)]
        have hdrop : ((pend ++ [e]) ++ es).drop (((pend ++ [e]) ++ es).length / s.bucket * s.bucket)
            = es.drop (es.length / s.bucket * s.bucket) := by
          rw [hl, hdiv, Nat.add_mul, Nat.one_mul, Nat.add_comm _ s.bucket, ← List.drop_drop]
          congr 1
          rw [List.drop_append_of_le_length (by omega)]
          have : (pend ++ [e]).drop s.bucket = [] := by rw [← hlen]; exact List.drop_length
          rw [this]; rfl
        rw [hdrop]; exact hrep'
    · simp only [hfull, if_false]
      have hlt : pend.length + 1 < s.bucket := by omega
      obtain ⟨s', hs', hout, hb', hp', hrep'⟩ := ih
        { s with tsSum := s.tsSum + e.ts, vSum := s.vSum + linDecode e.pl, sampled := s.sampled + 1 }
        (pend ++ [e]) ⟨by simp [h1], by simp [h2], by simp [h3], by simpa using hlt⟩ hp hB
      refine ⟨s', hs', ?_, hb', hp', ?_⟩
      · simpa using hout
      · simpa using hrep'

/-- a resampling pass over entries `xs` with bucket size `B` emits exactly the bucket means -/
theorem fold_sampler_init (p B : Nat) (hB0 : 0 < B) (hB : B ≤ 2^32) (xs : List Entry) :
    ∃ s', foldProc samplerProc { bucket := B, p := p } xs = .ok s' ∧
      s'.out = Spec.bucketMeans B (Spec.linMean p) xs := by
  obtain ⟨s', h1, h2, _, _, _⟩ := fold_sampler p xs { bucket := B, p := p } [] ⟨rfl, rfl, rfl, by simpa using hB0⟩ rfl hB
  exact ⟨s', h1, by simpa using h2⟩

end BS.Impl
