/-
  Reading any stretch of a canonical data region that starts and ends at entry
  boundaries is the processor folded over the entries in between.
-/
import BS.Proofs.Accessors

namespace BS.Impl

variable {σ : Type}

theorem lastFullFrom_append (a b : List Entry) : ∀ full,
    lastFullFrom full (a ++ b) = lastFullFrom (lastFullFrom full a) b := by
  induction a with
  | nil => intro full; simp [lastFullFrom]
  | cons x a ih =>
    intro full
    match full with
    | none => simp [lastFullFrom, ih]
    | some f =>
      by_cases hd : x.ts - f ≤ 65534
      · simp only [List.cons_append, lastFullFrom, if_pos hd, ih]
      · simp only [List.cons_append, lastFullFrom, if_neg hd, ih]

theorem encFrom_append (p : Nat) (a b : List Entry) : ∀ full,
    Spec.encFrom p full (a ++ b) = Spec.encFrom p full a ++ Spec.encFrom p (lastFullFrom full a) b := by
  induction a with
  | nil => intro full; cases full <;> simp [lastFullFrom, Spec.encFrom]
  | cons x a ih =>
    intro full
    match full with
    | none => simp [Spec.encFrom, lastFullFrom, ih]
    | some f =>
      by_cases hd : x.ts - f ≤ Spec.maxDelta
      · have hd' : x.ts - f ≤ 65534 := hd
        simp only [List.cons_append, Spec.encFrom, lastFullFrom, if_pos hd, if_pos hd', ih, List.append_assoc]
      · have hd' : ¬ x.ts - f ≤ 65534 := hd
        simp only [List.cons_append, Spec.encFrom, lastFullFrom, if_neg hd, if_neg hd', ih, List.append_assoc]

/-- byte offset of the boundary before entry `i` (before the section header, if entry `i` opens one) -/
def offA (p : Nat) (xs : List Entry) (i : Nat) : Nat := (Spec.encode p (xs.take i)).length

/-- last full timestamp in effect at the boundary before entry `i` -/
def fullAt (xs : List Entry) (i : Nat) : Option Nat := lastFullFrom none (xs.take i)

theorem sorted_take_drop (xs : List Entry) (hs : Sorted xs) (i : Nat) :
    ∀ a ∈ xs.take i, ∀ b ∈ xs.drop i, a.ts < b.ts := by
  have h : Sorted (xs.take i ++ xs.drop i) := by rw [List.take_append_drop]; exact hs
  exact (List.pairwise_append.mp h).2.2

theorem sorted_sublist {xs ys : List Entry} (h : ys.Sublist xs) (hs : Sorted xs) : Sorted ys :=
  List.Pairwise.sublist h hs

/-- generalisation of `readChunked_canonical` to an optional last full timestamp -/
theorem readChunked_canonical' (p k : Nat) (hk : 0 < k) (cb : Option Bool) (proc : σ → Nat → Bytes → PRes σ)
    (ps : σ) (f : Nat) (full : Option Nat) (xs : List Entry) (hs : Sorted xs) (hb : ∀ x ∈ xs, x.ts < 2^64)
    (hf : ∀ f', full = some f' → f = f' ∧ ∀ x ∈ xs, f' ≤ x.ts) :
    (readChunked p k cb proc ⟨f, ps, false⟩ [] (encLines p full xs)).map (·.ps) = foldProc proc ps xs := by
  rw [readChunked_eq p k hk]
  have h := scan_encLines p cb proc xs full ⟨f, ps, false⟩ hs hb rfl
    (by intro f' hf'; obtain ⟨h1, h2⟩ := hf f' hf'; exact ⟨h1, h2⟩)
  split
  · rename_i hnil
    cases xs with
    | nil => simp [foldProc, Except.map]
    | cons e es =>
      exfalso
      cases full with
      | none =>
        obtain ⟨l1, l2, raws, hE, _⟩ := section_roundtrip p e.ts (hb e (by simp))
        simp [encLines, hE] at hnil
      | some g =>
        simp only [encLines] at hnil
        split at hnil
        · simp at hnil
        · obtain ⟨l1, l2, raws, hE, _⟩ := section_roundtrip p e.ts (hb e (by simp))
          simp [hE] at hnil
  · simp only [List.nil_append]
    cases hfold : foldProc proc ps xs with
    | ok ps' =>
      simp only [hfold] at h
      obtain ⟨f', hf'⟩ := h
      simp [hf', Except.map]
    | error e =>
      simp only [hfold] at h
      simp [h, Except.map]

/-- the bytes between two entry boundaries are the canonical encoding of the entries in between -/
theorem region_between (p : Nat) (xs : List Entry) (i j : Nat) (hij : i ≤ j) (hj : j ≤ xs.length) :
    ((Spec.encode p xs).drop (offA p xs i)).take (offA p xs j - offA p xs i)
      = Spec.encFrom p (fullAt xs i) ((xs.drop i).take (j - i)) := by
  have hsplit : xs = xs.take i ++ ((xs.drop i).take (j - i) ++ (xs.drop i).drop (j - i)) := by
    rw [List.take_append_drop, List.take_append_drop]
  have htakej : xs.take j = xs.take i ++ (xs.drop i).take (j - i) := by
    have : j = i + (j - i) := by omega
    conv => lhs; rw [this]
    rw [List.take_add]
  unfold offA fullAt
  have henc : Spec.encode p xs = Spec.encode p (xs.take i) ++
      (Spec.encFrom p (lastFullFrom none (xs.take i)) ((xs.drop i).take (j - i)) ++
       Spec.encFrom p (lastFullFrom (lastFullFrom none (xs.take i)) ((xs.drop i).take (j - i))) ((xs.drop i).drop (j - i))) := by
    conv => lhs; rw [hsplit]
    unfold Spec.encode
    rw [encFrom_append, encFrom_append]
  have hencj : Spec.encode p (xs.take j) = Spec.encode p (xs.take i) ++
      Spec.encFrom p (lastFullFrom none (xs.take i)) ((xs.drop i).take (j - i)) := by
    rw [htakej]; unfold Spec.encode; rw [encFrom_append]
  rw [henc, hencj, List.drop_append_of_le_length (Nat.le_refl _), List.drop_length, List.nil_append]
  rw [List.length_append, Nat.add_sub_cancel_left, List.take_append_of_le_length (Nat.le_refl _), List.take_length]

/-- **reading between two entry boundaries, starting before a possible section header** -/
theorem readRegion_between (p : Nat) (cb : Option Bool) (proc : σ → Nat → Bytes → PRes σ) (ps : σ)
    (xs : List Entry) (hv : Valid p xs) (i j : Nat) (hij : i ≤ j) (hj : j ≤ xs.length) (f : Nat)
    (hf : ∀ f', fullAt xs i = some f' → f = f') :
    readRegion p cb proc ps (Spec.encode p xs) (offA p xs i) (offA p xs j) f
      = foldProc proc ps ((xs.drop i).take (j - i)) := by
  obtain ⟨hsort, hall⟩ := hv
  have hmid_sub : ((xs.drop i).take (j - i)).Sublist xs :=
    (List.take_sublist _ _).trans (List.drop_sublist _ _)
  have hsm : Sorted ((xs.drop i).take (j - i)) := sorted_sublist hmid_sub hsort
  have hbm : ∀ x ∈ (xs.drop i).take (j - i), x.ts < 2^64 := fun x hx => (hall x (hmid_sub.subset hx)).1
  have hplm : ∀ x ∈ (xs.drop i).take (j - i), x.pl.length = p := fun x hx => (hall x (hmid_sub.subset hx)).2
  have hmono : offA p xs i ≤ offA p xs j := by
    unfold offA
    have htakej : xs.take j = xs.take i ++ (xs.drop i).take (j - i) := by
      have : j = i + (j - i) := by omega
      conv => lhs; rw [this]
      rw [List.take_add]
    rw [htakej]; unfold Spec.encode; rw [encFrom_append, List.length_append]; omega
  unfold readRegion
  simp only [show ¬ (offA p xs j < offA p xs i) by omega, if_false]
  rw [region_between p xs i j hij hj, ← encLines_flatten,
    toLines_flatten _ _ (lineSize_pos p) (encLines_length p _ hplm _)]
  have hfull : ∀ f', fullAt xs i = some f' → f = f' ∧ ∀ x ∈ (xs.drop i).take (j - i), f' ≤ x.ts := by
    intro f' hf'
    refine ⟨hf f' hf', fun x hx => ?_⟩
    rcases lastFullFrom_mem (xs.take i) none f' hf' with h | ⟨y, hy, rfl⟩
    · simp at h
    · exact Nat.le_of_lt (sorted_take_drop xs hsort i y hy x (List.mem_of_mem_take hx))
  have h := readChunked_canonical' p (chunkLines p) (chunkLines_pos p) cb proc ps f (fullAt xs i) _ hsm hbm hfull
  cases hr : readChunked p (chunkLines p) cb proc ⟨f, ps, false⟩ [] (encLines p (fullAt xs i) ((xs.drop i).take (j - i))) with
  | ok st => simp [hr, Except.map] at h; simp [h]
  | error err => simp [hr, Except.map] at h; simp [h]

end BS.Impl

namespace BS.Impl

variable {σ : Type}

theorem offA_mono (p : Nat) (xs : List Entry) (i j : Nat) (hij : i ≤ j) : offA p xs i ≤ offA p xs j := by
  unfold offA
  have htakej : xs.take j = xs.take i ++ (xs.drop i).take (j - i) := by
    have : j = i + (j - i) := by omega
    conv => lhs; rw [this]
    rw [List.take_add]
  rw [htakej]; unfold Spec.encode; rw [encFrom_append, List.length_append]; omega

theorem offA_le_length (p : Nat) (xs : List Entry) (j : Nat) : offA p xs j ≤ (Spec.encode p xs).length := by
  unfold offA
  have hsplit : xs = xs.take j ++ xs.drop j := (List.take_append_drop j xs).symm
  conv => rhs; rw [hsplit]
  unfold Spec.encode; rw [encFrom_append, List.length_append]; omega

/-- entry `i` of `xs` opens a full-timestamp section in the canonical encoding -/
def Opens (xs : List Entry) (i : Nat) (e : Entry) : Prop :=
  xs[i]? = some e ∧ (fullAt xs i = none ∨ ∃ f, fullAt xs i = some f ∧ ¬ e.ts - f ≤ 65534)

theorem encFrom_opens (p : Nat) (full : Option Nat) (e : Entry) (es : List Entry)
    (h : full = none ∨ ∃ f, full = some f ∧ ¬ e.ts - f ≤ 65534) :
    Spec.encFrom p full (e :: es) = metaWrite p e.ts ++ Spec.encFrom p (some e.ts) (e :: es) := by
  have hself : Spec.encFrom p (some e.ts) (e :: es) = Spec.encLine 0 e.pl ++ Spec.encFrom p (some e.ts) es := by
    simp [Spec.encFrom, Spec.maxDelta]
  rw [hself]
  rcases h with rfl | ⟨f, rfl, hd⟩
  · simp [Spec.encFrom, spec_encSection]
  · have hd' : ¬ e.ts - f ≤ Spec.maxDelta := hd
    simp only [Spec.encFrom, if_neg hd', spec_encSection, List.append_assoc]

/-- **reading between two entry boundaries, starting just after the section header entry `i` opens** -/
theorem readRegion_between_B (p : Nat) (cb : Option Bool) (proc : σ → Nat → Bytes → PRes σ) (ps : σ)
    (xs : List Entry) (hv : Valid p xs) (i j : Nat) (hij : i < j) (hj : j ≤ xs.length) (e : Entry)
    (hopen : Opens xs i e) :
    readRegion p cb proc ps (Spec.encode p xs) (offA p xs i + metaSize p) (offA p xs j) e.ts
      = foldProc proc ps ((xs.drop i).take (j - i)) := by
  obtain ⟨hsort, hall⟩ := hv
  obtain ⟨hget, hfull⟩ := hopen
  have hilt : i < xs.length := by
    rcases List.getElem?_eq_some_iff.mp hget with ⟨h, _⟩; exact h
  have hmid : (xs.drop i).take (j - i) = e :: (xs.drop (i + 1)).take (j - i - 1) := by
    have hd : xs.drop i = e :: xs.drop (i + 1) := by
      rw [List.drop_eq_getElem_cons hilt]
      have := List.getElem?_eq_some_iff.mp hget
      obtain ⟨_, h2⟩ := this
      rw [h2]
    rw [hd]
    have : j - i = (j - i - 1) + 1 := by omega
    rw [this, List.take_succ_cons]
    simp
  have hmid_sub : ((xs.drop i).take (j - i)).Sublist xs :=
    (List.take_sublist _ _).trans (List.drop_sublist _ _)
  have hsm : Sorted ((xs.drop i).take (j - i)) := sorted_sublist hmid_sub hsort
  have hbm : ∀ x ∈ (xs.drop i).take (j - i), x.ts < 2^64 := fun x hx => (hall x (hmid_sub.subset hx)).1
  have hplm : ∀ x ∈ (xs.drop i).take (j - i), x.pl.length = p := fun x hx => (hall x (hmid_sub.subset hx)).2
  -- the bytes of the stretch, and what is left after the header
  have hreg := region_between p xs i j (Nat.le_of_lt hij) hj
  have henc : Spec.encFrom p (fullAt xs i) ((xs.drop i).take (j - i)) =
      metaWrite p e.ts ++ Spec.encFrom p (some e.ts) ((xs.drop i).take (j - i)) := by
    rw [hmid]; exact encFrom_opens p _ e _ hfull
  have hlenA : offA p xs j - offA p xs i = metaSize p + (Spec.encFrom p (some e.ts) ((xs.drop i).take (j - i))).length := by
    have := congrArg List.length hreg
    rw [henc, List.length_append, metaWrite_length] at this
    rw [← this, List.length_take, List.length_drop]
    have hle := offA_le_length p xs j
    have hmono := offA_mono p xs i j (Nat.le_of_lt hij)
    omega
  unfold readRegion
  have hmono' := offA_mono p xs i j (Nat.le_of_lt hij)
  have hnot : ¬ (offA p xs j < offA p xs i + metaSize p) := by omega
  simp only [hnot, if_false]
  have hbytes : ((Spec.encode p xs).drop (offA p xs i + metaSize p)).take (offA p xs j - (offA p xs i + metaSize p))
      = Spec.encFrom p (some e.ts) ((xs.drop i).take (j - i)) := by
    rw [← List.drop_drop]
    have h1 : ((Spec.encode p xs).drop (offA p xs i)).take (offA p xs j - offA p xs i)
        = metaWrite p e.ts ++ Spec.encFrom p (some e.ts) ((xs.drop i).take (j - i)) := by rw [hreg, henc]
    have h2 := congrArg (List.drop (metaSize p)) h1
    rw [List.drop_take, List.drop_append_of_le_length (by rw [metaWrite_length]; omega)] at h2
    rw [← metaWrite_length p e.ts, List.drop_length, List.nil_append, metaWrite_length] at h2
    have : offA p xs j - (offA p xs i + metaSize p) = offA p xs j - offA p xs i - metaSize p := by omega
    rw [this]; exact h2
  rw [hbytes, ← encLines_flatten, toLines_flatten _ _ (lineSize_pos p) (encLines_length p _ hplm _)]
  have hfull' : ∀ f', (some e.ts) = some f' → e.ts = f' ∧ ∀ x ∈ (xs.drop i).take (j - i), f' ≤ x.ts := by
    intro f' hf'
    cases hf'
    refine ⟨rfl, fun x hx => ?_⟩
    rw [hmid] at hx
    simp only [List.mem_cons] at hx
    rcases hx with rfl | hx
    · exact Nat.le_refl _
    · have hsorted : Sorted (e :: (xs.drop (i + 1)).take (j - i - 1)) := by rw [← hmid]; exact hsm
      exact Nat.le_of_lt ((List.pairwise_cons.mp hsorted).1 x hx)
  have h := readChunked_canonical' p (chunkLines p) (chunkLines_pos p) cb proc ps e.ts (some e.ts) _ hsm hbm hfull'
  cases hr : readChunked p (chunkLines p) cb proc ⟨e.ts, ps, false⟩ [] (encLines p (some e.ts) ((xs.drop i).take (j - i))) with
  | ok st => simp [hr, Except.map] at h; simp [h]
  | error err => simp [hr, Except.map] at h; simp [h]

end BS.Impl
