/-
  The linear-time `pushrun` of the model equals its definition (one `push_line` per line).
-/
import BS.Impl.World

namespace BS.Impl
open BS

theorem appendTo_append (f : Option Bytes) (a b : Bytes) : appendTo (appendTo f a) b = appendTo f (a ++ b) := by
  cases f <;> simp [appendTo]

theorem appendTo_nil (f : Option Bytes) : appendTo f [] = f := by
  cases f <;> simp [appendTo]

/-- `push_data` never reads the files: it is its delta applied to them -/
theorem pushData_eq_delta (st : Store) (d : DataSess) (ts : Nat) (line : Bytes) :
    pushData st d ts line =
      match pushDelta d ts line with
      | .ok (a, b, d') => .ok ({ st with data := appendTo st.data a, index := appendTo st.index b }, d')
      | .error f => .error f := by
  unfold pushData pushDelta
  cases d.lastFull with
  | none => simp
  | some lf =>
    simp only
    by_cases h1 : ts < lf
    · simp [h1]
    · by_cases h2 : ts - lf > maxSmallTs
      · simp [h1, h2]
      · simp [h1, h2, appendTo_nil]

theorem pushLine_eq_delta (dir : Dir) (s : Sess) (ts : Nat) (pl : Bytes) (hc : s.caches = []) :
    pushLine dir s ts pl =
      match pushLineDelta s ts pl with
      | .ok (a, b, s') => (dir.appendMain a b, .ok s')
      | .error f => (dir, .error f) := by
  unfold pushLine pushLineDelta
  by_cases hl : pl.length ≠ s.d.p
  · simp [hl]
  · simp only [hl, if_false]
    cases hr : rangeUpdate s.range ts with
    | error f => simp
    | ok range' =>
      simp only [pushData_eq_delta]
      cases hd : pushDelta s.d ts pl with
      | error f => simp
      | ok v =>
        obtain ⟨a, b, d'⟩ := v
        simp [hc, pushLine.go, Dir.appendMain]

theorem appendMain_appendMain (dir : Dir) (a b a' b' : Bytes) :
    (dir.appendMain a b).appendMain a' b' = dir.appendMain (a ++ a') (b ++ b') := by
  simp [Dir.appendMain, appendTo_append]

theorem pushLineDelta_caches (s : Sess) (ts : Nat) (pl : Bytes) (a b : Bytes) (s' : Sess)
    (h : pushLineDelta s ts pl = .ok (a, b, s')) : s'.caches = s.caches ∧ s'.d.p = s.d.p := by
  unfold pushLineDelta at h
  split at h
  · simp at h
  · split at h
    · simp at h
    · split at h
      · simp at h
      · rename_i a0 b0 d' hd
        simp only [Except.ok.injEq, Prod.mk.injEq] at h
        obtain ⟨_, _, rfl⟩ := h
        refine ⟨rfl, ?_⟩
        unfold pushDelta at hd
        split at hd
        · simp at hd; rw [← hd.2.2]
        · split at hd
          · simp at hd
          · split at hd <;> (simp at hd; rw [← hd.2.2])

/-- **the fast run equals the defining run** (sessions without caches) -/
theorem pushRunFast_eq (stp count : Nat) (dir0 : Dir) : ∀ (fuel i ts : Nat) (seed : UInt64) (s : Sess)
    (accD accI : List Bytes), s.caches = [] →
    pushRunFast stp count dir0 i fuel ts seed s accD accI =
      pushRunSlow stp count i fuel ts seed (dir0.appendMain accD.reverse.flatten accI.reverse.flatten) s := by
  intro fuel
  induction fuel with
  | zero => intro i ts seed s accD accI _; simp [pushRunFast, pushRunSlow]
  | succ fuel ih =>
    intro i ts seed s accD accI hc
    rw [pushRunFast, pushRunSlow]
    simp only [pushLine_eq_delta _ s ts _ hc]
    cases hd : pushLineDelta s ts (lcgBytes s.d.p seed).1 with
    | error f =>
      cases f with
      | panic => simp
      | err c => simp
    | ok v =>
      obtain ⟨a, b, s'⟩ := v
      have hc' := (pushLineDelta_caches s ts _ a b s' hd).1
      simp only
      by_cases hts : ts + stp < 2^64
      · simp only [hts, if_true]
        rw [ih (i + 1) (ts + stp) _ s' (a :: accD) (b :: accI) (by rw [hc', hc])]
        simp [appendMain_appendMain]
      · simp only [hts, if_false]
        simp [appendMain_appendMain]

/-- the `pushrun` step of the model is the defining run, whatever the session -/
theorem pushrun_step_eq (w : World) (s : Sess) (ts0 stp count seed : Nat) (hs : w.sess = some s) :
    step w (.pushrun ts0 stp count seed) =
      (let r := pushRunSlow stp count 0 count ts0 (UInt64.ofNat seed) w.dir s
       ({ w with dir := r.dir, sess := r.sess }, r.out)) := by
  simp only [step, withSess, hs]
  by_cases hc : s.caches.isEmpty = true
  · have hc' : s.caches = [] := List.isEmpty_iff.mp hc
    simp only [hc, if_true]
    rw [pushRunFast_eq stp count w.dir count 0 ts0 _ s [] [] hc']
    simp [Dir.appendMain, appendTo_nil]
  · simp [hc]

end BS.Impl
