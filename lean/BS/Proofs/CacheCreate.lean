/-
  T13 (second half): a cache filled by `DownSampledData::create` over existing data, and
  caches fed by `ByteSeries::push_line`, hold exactly the bucket means of the source.
-/
import BS.Proofs.Cache
import BS.Proofs.Region
import BS.Proofs.Session
import BS.Proofs.Accessors

namespace BS.Impl
open BS

/-! ### the directory of cache stores -/

def updCache (B : Nat) (s : Store) : Nat × Store → Nat × Store := fun (b, x) => if b == B then (b, s) else (b, x)

theorem find_updCache_same (B : Nat) (s : Store) : ∀ (l : List (Nat × Store)), l.any (·.1 == B) = true →
    (l.map (updCache B s)).find? (·.1 == B) = some (B, s)
  | [], h => by simp at h
  | (b, v) :: xs, h => by
    by_cases hb : b = B
    · subst hb; simp [updCache]
    · have hb' : (b == B) = false := by simpa using hb
      simp only [List.any_cons, hb', Bool.false_or] at h
      simp only [List.map_cons, updCache, hb', Bool.false_eq_true, if_false, List.find?_cons]
      exact find_updCache_same B s xs h

theorem find_updCache_other (B B' : Nat) (s : Store) (hne : B' ≠ B) : ∀ (l : List (Nat × Store)),
    (l.map (updCache B s)).find? (·.1 == B') = l.find? (·.1 == B')
  | [] => rfl
  | (b, v) :: xs => by
    by_cases hb : b = B
    · subst hb
      have hbb : (b == B') = false := by simpa using (fun h : b = B' => hne h.symm)
      simp only [List.map_cons, updCache, beq_self_eq_true, if_true, List.find?_cons, hbb]
      exact find_updCache_other b B' s hne xs
    · have hb' : (b == B) = false := by simpa using hb
      simp only [List.map_cons, updCache, hb', Bool.false_eq_true, if_false, List.find?_cons]
      cases hbb : b == B' with
      | true => rfl
      | false => exact find_updCache_other B B' s hne xs

theorem Dir.setCache_eq (d : Dir) (B : Nat) (s : Store) :
    d.setCache B s = if d.caches.any (·.1 == B) then { d with caches := d.caches.map (updCache B s) }
      else { d with caches := d.caches ++ [(B, s)] } := rfl

theorem Dir.cache_setCache_same (d : Dir) (B : Nat) (s : Store) : (d.setCache B s).cache B = s := by
  rw [Dir.setCache_eq]
  unfold Dir.cache
  by_cases h : d.caches.any (·.1 == B) = true
  · simp only [h, if_true]
    rw [find_updCache_same B s _ h]
  · simp only [h, Bool.false_eq_true, if_false]
    have hn : ∀ x ∈ d.caches, (x.1 == B) = false := by
      intro x hx
      cases hxb : x.1 == B with
      | false => rfl
      | true => exact absurd (List.any_eq_true.mpr ⟨x, hx, hxb⟩) h
    rw [List.find?_append]
    have : d.caches.find? (·.1 == B) = none := by
      rw [List.find?_eq_none]; intro x hx; simp [hn x hx]
    simp [this]

theorem Dir.cache_setCache_other (d : Dir) (B B' : Nat) (s : Store) (hne : B' ≠ B) :
    (d.setCache B s).cache B' = d.cache B' := by
  rw [Dir.setCache_eq]
  unfold Dir.cache
  by_cases h : d.caches.any (·.1 == B) = true
  · simp only [h, if_true]
    rw [find_updCache_other B B' s hne]
  · simp only [h, Bool.false_eq_true, if_false]
    rw [List.find?_append]
    have hB : ((B == B') = false) := by simpa using (fun h : B = B' => hne h.symm)
    cases hf : d.caches.find? (·.1 == B') with
    | some v => simp
    | none => simp [hB]

theorem Dir.main_setCache (d : Dir) (B : Nat) (s : Store) : (d.setCache B s).main = d.main := by
  unfold Dir.setCache; split <;> rfl

/-! ### replaying source lines through `process` -/

/-- folding `process` over further source lines extends the invariant -/
theorem createProc_fold (hdr ihdr : Bytes) : ∀ (ys : List Entry) (st : Store) (c : CacheSess) (xs : List Entry) (prev : Nat),
    CacheInv hdr ihdr st c xs → Valid c.d.p (xs ++ ys) → (prev = 0 ∨ ∀ y ∈ ys, prev < y.ts) →
    ∃ s', foldProc createProc { st := st, c := c, prev := prev } ys = .ok s' ∧ s'.c.B = c.B ∧ s'.c.d.p = c.d.p ∧
      s'.failed = none ∧ CacheInv hdr ihdr s'.st s'.c (xs ++ ys) := by
  intro ys
  induction ys with
  | nil =>
    intro st c xs prev hinv _ _
    exact ⟨_, rfl, rfl, rfl, rfl, by simpa using hinv⟩
  | cons y ys ih =>
    intro st c xs prev hinv hv hprev
    have hv1 : Valid c.d.p (xs ++ [y]) := by
      constructor
      · have := hv.1
        rw [show xs ++ y :: ys = (xs ++ [y]) ++ ys by simp] at this
        exact (List.pairwise_append.mp this).1
      · intro x hx; exact hv.2 x (by simp at hx ⊢; rcases hx with h | h <;> simp [h])
    obtain ⟨st', c', hstep, hB, hp, hinv'⟩ := cacheProcess_inv hdr ihdr st c xs y hinv hv1
    have hcond : y.ts > prev ∨ prev = 0 := by
      rcases hprev with h | h
      · exact Or.inr h
      · exact Or.inl (h y (by simp))
    have hnext : y.ts = 0 ∨ ∀ z ∈ ys, y.ts < z.ts := by
      right
      intro z hz
      have hs := hv.1
      have := (List.pairwise_append.mp hs).2.1
      exact (List.pairwise_cons.mp this).1 z hz
    have hv2 : Valid c'.d.p ((xs ++ [y]) ++ ys) := by rw [hp]; simpa using hv
    obtain ⟨s', hfold, hB', hp', hf', hinv''⟩ := ih st' c' (xs ++ [y]) y.ts hinv' hv2 hnext
    refine ⟨s', ?_, by rw [hB', hB], by rw [hp', hp], hf', by simpa using hinv''⟩
    unfold foldProc createProc
    simp only [hcond, not_true_eq_false, if_false, hstep]
    exact hfold

/-! ### `Data::new` and `DownSampledData::create` -/

/-- the bytes `FileWithHeader::new` puts in front of the content -/
def outerHdr (header : Bytes) : Bytes := leN 2 header.length ++ Gen.lineEnds ++ header

theorem outerHdr_length (header : Bytes) : (outerHdr header).length = 4 + header.length := by
  simp [outerHdr, leN_length, Gen.lineEnds]; omega

/-- `Data::new` on a free path: both files exist afterwards and hold the empty history -/
theorem dataNew_inv (st : Store) (p : Nat) (header : Bytes) (hlen : header.length ≤ 65535)
    (hd : st.data = none) (hi : st.index = none) :
    ∃ st' d, dataNew st p header = (st', .ok d) ∧ d.p = p ∧ st'.part = st.part ∧
      DataInv (outerHdr header) (outerHdr []) st' d [] := by
  unfold dataNew fileNew
  have h1 : ¬ header.length > 65535 := by omega
  simp only [h1, if_false, hd, hi, List.length_nil, show ¬ (0 > 65535) by omega]
  refine ⟨_, _, rfl, rfl, rfl, ?_⟩
  constructor
  · simp [outerHdr, Spec.encode, Spec.encFrom]
  · simp [outerHdr, Spec.sections, Spec.sectionsFrom, Spec.encIndex]
  · simp [outerHdr_length]
  · simp [outerHdr_length]
  · simp [Spec.encode, Spec.encFrom]
  · simp [Spec.sections, Spec.sectionsFrom, toIEntries]
  · simp [lastFullFrom]
  · simp

/-- header of a cache's data file / index file -/
def cacheHdr (B : Nat) : Bytes := outerHdr (cacheUserHeader B)
def cacheIhdr : Bytes := outerHdr []

theorem bucketMeans_nil (B : Nat) (mean : List Bytes → Bytes) : Spec.bucketMeans B mean [] = [] := by
  rw [Spec.bucketMeans]
  by_cases h : B = 0
  · simp [h]
  · have : ([] : List Entry).length < B := by simp; omega
    simp [this]

/-- **T13b: `DownSampledData::create` over existing data of any length** leaves a cache that
holds exactly the bucket means of the source history (and an accumulator holding the
incomplete trailing bucket) -/
theorem cacheCreate_correct (shdr sihdr : Bytes) (dir : Dir) (src : DataSess) (xs : List Entry) (B : Nat)
    (cb : Option Bool)
    (hsrc : DataInv shdr sihdr dir.main src xs) (hv : Valid src.p xs)
    (hB : 1 ≤ B) (hB32 : B ≤ 2^32) (hhdr : (cacheUserHeader B).length ≤ 65535)
    (hfree : (dir.cache B).data = none ∧ (dir.cache B).index = none) :
    ∃ dir' c, cacheCreate dir B src cb = (dir', .ok c) ∧ c.B = B ∧ c.d.p = src.p ∧ dir'.main = dir.main ∧
      (∀ B', B' ≠ B → dir'.cache B' = dir.cache B') ∧
      CacheInv (cacheHdr B) cacheIhdr (dir'.cache B) c xs := by
  obtain ⟨st0, d0, hnew, hp0, _, hinv0⟩ := dataNew_inv (dir.cache B) src.p (cacheUserHeader B) hhdr hfree.1 hfree.2
  have hc0 : CacheInv (cacheHdr B) cacheIhdr st0 { B := B, d := d0 } [] := by
    constructor
    · show DataInv (cacheHdr B) cacheIhdr st0 d0 (Spec.bucketMeans B (Spec.linMean d0.p) [])
      rw [bucketMeans_nil]; exact hinv0
    · rfl
    · exact hB
    · exact hB32
    · simp
    · simp [pendOf]
    · simp [pendOf]
  unfold cacheCreate
  rw [hnew]
  simp only
  cases xs with
  | nil =>
    have hent : src.entries.head? = none := by
      rw [hsrc.entries]; simp [Spec.sections, Spec.sectionsFrom, toIEntries]
    simp only [hent]
    refine ⟨_, _, rfl, rfl, hp0, Dir.main_setCache _ _ _, ?_, ?_⟩
    · intro B' hne; exact Dir.cache_setCache_other _ _ _ _ hne
    · rw [Dir.cache_setCache_same]; exact hc0
  | cons e es =>
    obtain ⟨rest, hsec⟩ := sections_cons src.p e es
    have hent : src.entries.head? = some ⟨e.ts, 0⟩ := by
      rw [hsrc.entries, hsec]; simp [toIEntries]
    simp only [hent]
    have hregion : (dir.setCache B st0).main.region src.hdrLen = Spec.encode src.p (e :: es) := by
      rw [Dir.main_setCache]
      unfold Store.region
      rw [hsrc.data, hsrc.hdrLen]
      simp
    have hv' : Valid ({ B := B, d := d0 } : CacheSess).d.p ([] ++ (e :: es)) := by
      simpa [hp0] using hv
    obtain ⟨s', hfold, hB', hp', _, hinv'⟩ :=
      createProc_fold (cacheHdr B) cacheIhdr (e :: es) st0 { B := B, d := d0 } [] 0 hc0 hv' (Or.inl rfl)
    have hread := readRegion_canonical src.p cb createProc
      ({ st := st0, c := { B := B, d := d0 }, prev := 0 } : CreateSt) e es hv
    unfold feedCache
    rw [hregion, hsrc.dataLen]
    simp only [lineStart, Nat.zero_add]
    rw [hread, hfold]
    simp only
    refine ⟨_, _, rfl, hB', by rw [hp']; exact hp0, ?_, ?_, ?_⟩
    · rw [Dir.main_setCache, Dir.main_setCache]
    · intro B' hne
      rw [Dir.cache_setCache_other _ _ _ _ hne, Dir.cache_setCache_other _ _ _ _ hne]
    · rw [Dir.cache_setCache_same]; simpa using hinv'

end BS.Impl
