/-
  T6: opening the index against a (repaired) canonical data region.  Whatever legitimate
  prior state the index file is in — intact, absent, cut at any byte length, lagging, one or
  more entries ahead, shorter than its header — the resulting entries and index file are
  exactly those of the data.
-/
import BS.Proofs.Repair
import BS.Proofs.Extract

namespace BS.Impl

/-! ### index bytes -/

theorem parseIndex_encIndex (secs : List (Nat × Nat)) (h : ∀ s ∈ secs, s.1 < 2^64 ∧ s.2 < 2^64) :
    parseIndex (Spec.encIndex secs) = toIEntries secs := by
  unfold parseIndex Spec.encIndex toIEntries
  have hlines : ∀ l ∈ secs.map (fun s => le8 s.1 ++ le8 s.2), l.length = Gen.indexEntry := by
    intro l hl
    simp only [List.mem_map] at hl
    obtain ⟨s, _, rfl⟩ := hl
    simp [le8, Gen.indexEntry]
  rw [toLines_flatten _ _ (by simp [Gen.indexEntry]) hlines, List.map_map]
  apply List.map_congr_left
  intro s hs
  obtain ⟨h1, h2⟩ := h s hs
  simp only [Function.comp]
  have e1 : (le8 s.1 ++ le8 s.2).take 8 = le8 s.1 := by
    rw [List.take_append_of_le_length (by simp [le8])]; exact List.take_of_length_le (by simp [le8])
  have e2 : (le8 s.1 ++ le8 s.2).drop 8 = le8 s.2 := by
    rw [List.drop_append_of_le_length (by simp [le8])]
    have : (le8 s.1).drop 8 = [] := List.drop_eq_nil_of_le (by simp [le8])
    rw [this]; simp
  rw [e1, e2, unN_le8 _ h1, unN_le8 _ h2]

theorem encIndex_length (secs : List (Nat × Nat)) : (Spec.encIndex secs).length = 16 * secs.length := by
  unfold Spec.encIndex
  induction secs with
  | nil => simp
  | cons s t ih => simp only [List.map_cons, List.flatten_cons, List.length_append, ih, List.length_cons]; simp [le8]; omega

theorem encIndex_take (secs : List (Nat × Nat)) (m : Nat) :
    (Spec.encIndex secs).take (16 * m) = Spec.encIndex (secs.take m) := by
  unfold Spec.encIndex
  have hlines : ∀ l ∈ secs.map (fun s => le8 s.1 ++ le8 s.2), l.length = 16 := by
    intro l hl
    simp only [List.mem_map] at hl
    obtain ⟨s, _, rfl⟩ := hl
    simp [le8]
  rw [Nat.mul_comm, flatten_take_uniform 16 _ hlines, List.map_take]

theorem sectionsFrom_append (p : Nat) (a b : List Entry) (hp : ∀ x ∈ a, x.pl.length = p) : ∀ full off,
    Spec.sectionsFrom p full off (a ++ b) =
      Spec.sectionsFrom p full off a ++
        Spec.sectionsFrom p (lastFullFrom full a) (off + (Spec.encFrom p full a).length) b := by
  induction a with
  | nil => intro full off; cases full <;> simp [lastFullFrom, Spec.encFrom, Spec.sectionsFrom]
  | cons x a ih =>
    intro full off
    have hx : x.pl.length = p := hp x (by simp)
    have hxs : ∀ y ∈ a, y.pl.length = p := fun y hy => hp y (by simp [hy])
    have hsec : Spec.secSize p = metaSize p := spec_secSize p
    have hls : Spec.lineSize p = p + 2 := rfl
    match full with
    | none =>
      simp only [List.cons_append, Spec.sectionsFrom, Spec.encFrom, lastFullFrom, ih hxs, List.length_append,
        encSection_length, encLine_length, hx, hsec, hls]
      simp [Nat.add_assoc]
    | some f =>
      by_cases hd : x.ts - f ≤ Spec.maxDelta
      · have hd' : x.ts - f ≤ 65534 := hd
        simp only [List.cons_append, Spec.sectionsFrom, Spec.encFrom, lastFullFrom, if_pos hd, if_pos hd',
          ih hxs, List.length_append, encLine_length, hx, hls]
        simp [Nat.add_assoc]
      · have hd' : ¬ x.ts - f ≤ 65534 := hd
        simp only [List.cons_append, Spec.sectionsFrom, Spec.encFrom, lastFullFrom, if_neg hd, if_neg hd',
          ih hxs, List.length_append, encSection_length, encLine_length, hx, hsec, hls]
        simp [Nat.add_assoc]

/-- the sections of a prefix of the history are a prefix of the sections -/
theorem sections_take (p : Nat) (xs : List Entry) (hp : ∀ x ∈ xs, x.pl.length = p) (k : Nat) :
    Spec.sections p (xs.take k) = (Spec.sections p xs).take (Spec.sections p (xs.take k)).length := by
  have hsplit : xs = xs.take k ++ xs.drop k := (List.take_append_drop k xs).symm
  have h := sectionsFrom_append p (xs.take k) (xs.drop k) (fun x hx => hp x (List.mem_of_mem_take hx)) none 0
  rw [← hsplit] at h
  unfold Spec.sections
  rw [h, List.take_append_of_le_length (Nat.le_refl _), List.take_length]

end BS.Impl

namespace BS.Impl

/-- offsets and timestamps of the sections, bounded by the data -/
theorem sectionsFrom_bounds (p : Nat) (xs : List Entry) (hp : ∀ x ∈ xs, x.pl.length = p) : ∀ full off,
    ∀ s ∈ Spec.sectionsFrom p full off xs,
      off ≤ s.2 ∧ s.2 + metaSize p + lineSize p ≤ off + (Spec.encFrom p full xs).length ∧ ∃ x ∈ xs, x.ts = s.1 := by
  induction xs with
  | nil => intro full off s hs; cases full <;> simp [Spec.sectionsFrom] at hs
  | cons x xs ih =>
    intro full off s hs
    have hx : x.pl.length = p := hp x (by simp)
    have hxs : ∀ y ∈ xs, y.pl.length = p := fun y hy => hp y (by simp [hy])
    have hsec : Spec.secSize p = metaSize p := spec_secSize p
    have hls : Spec.lineSize p = lineSize p := rfl
    have newsec : s ∈ (x.ts, off) :: Spec.sectionsFrom p (some x.ts) (off + Spec.secSize p + Spec.lineSize p) xs →
        off ≤ s.2 ∧ s.2 + metaSize p + lineSize p ≤ off + (Spec.encSection p x.ts ++ Spec.encLine 0 x.pl ++ Spec.encFrom p (some x.ts) xs).length
          ∧ ∃ y ∈ x :: xs, y.ts = s.1 := by
      intro hs
      simp only [List.mem_cons] at hs
      simp only [List.length_append, encSection_length, encLine_length, hx]
      rcases hs with rfl | hs
      · exact ⟨Nat.le_refl _, by simp [lineSize]; omega, x, by simp, rfl⟩
      · obtain ⟨h1, h2, y, hy, hys⟩ := ih hxs _ _ s hs
        rw [hsec, hls] at h1 h2
        exact ⟨by omega, by simp [lineSize] at h2 ⊢; omega, y, by simp [hy], hys⟩
    match full with
    | none =>
      simp only [Spec.sectionsFrom] at hs
      simpa [Spec.encFrom] using newsec hs
    | some f =>
      by_cases hd : x.ts - f ≤ Spec.maxDelta
      · simp only [Spec.sectionsFrom, if_pos hd] at hs
        obtain ⟨h1, h2, y, hy, hys⟩ := ih hxs _ _ s hs
        rw [hls] at h1 h2
        simp only [Spec.encFrom, if_pos hd, List.length_append, encLine_length, hx]
        exact ⟨by omega, by simp [lineSize] at h2 ⊢; omega, y, by simp [hy], hys⟩
      · simp only [Spec.sectionsFrom, if_neg hd] at hs
        simpa [Spec.encFrom, hd] using newsec hs

/-- section timestamps are strictly increasing -/
theorem sections_ts_sorted (p : Nat) (xs : List Entry) (hs : Sorted xs) : ∀ full off,
    (Spec.sectionsFrom p full off xs).Pairwise (fun a b => a.1 < b.1) ∧
    ∀ s ∈ Spec.sectionsFrom p full off xs, ∃ x ∈ xs, x.ts = s.1 := by
  induction xs with
  | nil => intro full off; cases full <;> simp [Spec.sectionsFrom]
  | cons x xs ih =>
    intro full off
    have hsx : Sorted xs := (List.pairwise_cons.mp hs).2
    have hlt : ∀ y ∈ xs, x.ts < y.ts := (List.pairwise_cons.mp hs).1
    have newsec : ∀ off', ((x.ts, off) :: Spec.sectionsFrom p (some x.ts) off' xs).Pairwise (fun a b => a.1 < b.1) ∧
        ∀ s ∈ (x.ts, off) :: Spec.sectionsFrom p (some x.ts) off' xs, ∃ y ∈ x :: xs, y.ts = s.1 := by
      intro off'
      obtain ⟨h1, h2⟩ := ih hsx (some x.ts) off'
      constructor
      · rw [List.pairwise_cons]
        refine ⟨fun s hs' => ?_, h1⟩
        obtain ⟨y, hy, hys⟩ := h2 s hs'
        rw [← hys]; exact hlt y hy
      · intro s hs'
        simp only [List.mem_cons] at hs'
        rcases hs' with rfl | hs'
        · exact ⟨x, by simp, rfl⟩
        · obtain ⟨y, hy, hys⟩ := h2 s hs'
          exact ⟨y, by simp [hy], hys⟩
    match full with
    | none => simp only [Spec.sectionsFrom]; exact newsec _
    | some f =>
      by_cases hd : x.ts - f ≤ Spec.maxDelta
      · simp only [Spec.sectionsFrom, if_pos hd]
        obtain ⟨h1, h2⟩ := ih hsx (some f) (off + Spec.lineSize p)
        exact ⟨h1, fun s hs' => by obtain ⟨y, hy, hys⟩ := h2 s hs'; exact ⟨y, by simp [hy], hys⟩⟩
      · simp only [Spec.sectionsFrom, if_neg hd]; exact newsec _

end BS.Impl

namespace BS.Impl

theorem pairwise_get_inj (secs : List (Nat × Nat)) (hs : secs.Pairwise (fun a b => a.1 < b.1)) (i j : Nat)
    (a b : Nat × Nat) (ha : secs[i]? = some a) (hb : secs[j]? = some b) (h : a.1 = b.1) : i = j := by
  obtain ⟨hi, hai⟩ := List.getElem?_eq_some_iff.mp ha
  obtain ⟨hj, hbj⟩ := List.getElem?_eq_some_iff.mp hb
  rcases Nat.lt_trichotomy i j with hlt | heq | hgt
  · have := List.pairwise_iff_getElem.mp hs i j hi hj hlt
    rw [hai, hbj] at this; omega
  · exact heq
  · have := List.pairwise_iff_getElem.mp hs j i hj hi hgt
    rw [hai, hbj] at this; omega

/-- **`check_and_repair` on any byte prefix of the full index**: if it accepts, what it leaves
is exactly the index of the first `m'` sections (those present in the data) -/
theorem indexCheck_prefix (secsX : List (Nat × Nat)) (hsorted : secsX.Pairwise (fun a b => a.1 < b.1))
    (hbnd : ∀ s ∈ secsX, s.1 < 2^64 ∧ s.2 < 2^64) (m' : Nat) (n lls t : Nat)
    (s' : Nat × Nat) (hs' : secsX[m' - 1]? = some s') (hm' : 1 ≤ m') (ht : s'.1 = t) (hoff : s'.2 ≤ lls) :
    ∃ chk, indexCheck 4 ((Spec.encIndex secsX).take n) (some lls) (some t) = .ok chk ∧
      (chk.ok = true → chk.region = Spec.encIndex (secsX.take m')) := by
  unfold indexCheck
  simp only
  -- the region cut back to whole entries: the first m entries
  have hlen := encIndex_length secsX
  let m := min n (16 * secsX.length) / 16
  have hr1 : ((Spec.encIndex secsX).take n).take (((Spec.encIndex secsX).take n).length - ((Spec.encIndex secsX).take n).length % 16)
      = Spec.encIndex (secsX.take m) := by
    rw [List.length_take, hlen, List.take_take]
    have h16 : min n (16 * secsX.length) - min n (16 * secsX.length) % 16 = 16 * m := by
      show _ = 16 * (min n (16 * secsX.length) / 16)
      have := Nat.div_add_mod (min n (16 * secsX.length)) 16
      omega
    rw [h16]
    have hmin : min (16 * m) n = 16 * m := by
      have : 16 * m ≤ min n (16 * secsX.length) := by
        show 16 * (min n (16 * secsX.length) / 16) ≤ _
        exact Nat.mul_div_le _ _
      omega
    rw [hmin, encIndex_take]
  rw [hr1]
  have hmle : m ≤ secsX.length := by
    show min n (16 * secsX.length) / 16 ≤ secsX.length
    have : min n (16 * secsX.length) ≤ 16 * secsX.length := Nat.min_le_right _ _
    omega
  have hr1len : (Spec.encIndex (secsX.take m)).length = 16 * m := by
    rw [encIndex_length, List.length_take]; congr 1; omega
  rw [hr1len]
  by_cases hm0 : m = 0
  · have : 4 + 16 * m < 16 := by omega
    simp only [this, if_true]
    exact ⟨_, rfl, by simp⟩
  · have h1 : ¬ 4 + 16 * m < 16 := by omega
    have h2 : ¬ 16 * m < 16 := by omega
    simp only [h1, h2, if_false]
    -- the last of the m entries
    obtain ⟨sl, hsl⟩ : ∃ sl, secsX[m - 1]? = some sl := ⟨_, List.getElem?_eq_getElem (by omega)⟩
    have hlast : (Spec.encIndex (secsX.take m)).drop (16 * m - 16) = le8 sl.1 ++ le8 sl.2 := by
      have hsplit : secsX.take m = secsX.take (m - 1) ++ [sl] := by
        have : m = (m - 1) + 1 := by omega
        conv => lhs; rw [this]
        rw [List.take_succ, hsl]; simp
      rw [hsplit]
      unfold Spec.encIndex
      rw [List.map_append, List.flatten_append]
      have hl : ((secsX.take (m - 1)).map fun s => le8 s.1 ++ le8 s.2).flatten.length = 16 * m - 16 := by
        have := encIndex_length (secsX.take (m - 1))
        unfold Spec.encIndex at this
        rw [this, List.length_take]
        have : min (m - 1) secsX.length = m - 1 := by omega
        rw [this]; omega
      rw [List.drop_append_of_le_length (by omega), ← hl, List.drop_length]
      simp
    rw [hlast]
    obtain ⟨hb1, hb2⟩ := hbnd sl (List.mem_of_getElem? hsl)
    have e1 : (le8 sl.1 ++ le8 sl.2).take 8 = le8 sl.1 := by
      rw [List.take_append_of_le_length (by simp [le8])]; exact List.take_of_length_le (by simp [le8])
    have e2 : (le8 sl.1 ++ le8 sl.2).drop 8 = le8 sl.2 := by
      rw [List.drop_append_of_le_length (by simp [le8])]
      have : (le8 sl.1).drop 8 = [] := List.drop_eq_nil_of_le (by simp [le8])
      rw [this]; simp
    rw [e1, e2, unN_le8 _ hb1, unN_le8 _ hb2]
    refine ⟨_, rfl, ?_⟩
    intro hok
    simp only [beq_iff_eq] at hok
    -- accepted: the last kept entry carries the timestamp of section m'-1, so m = m'
    have hidx : m' - 1 = m - 1 := pairwise_get_inj secsX hsorted _ _ s' sl hs' hsl (by omega)
    have hmm : m = m' := by omega
    have hsame : sl = s' := by
      rw [hidx] at hs'; rw [hsl] at hs'; exact Option.some.inj hs'
    have hnd : ¬ sl.2 > lls := by rw [hsame]; omega
    simp only [hnd, if_false, hmm]

end BS.Impl

namespace BS.Impl

theorem lastFull_sections (p : Nat) (xs : List Entry) : ∀ full off,
    lastFullFrom full xs = match (Spec.sectionsFrom p full off xs).getLast? with
      | some s => some s.1
      | none => full := by
  induction xs with
  | nil => intro full off; cases full <;> simp [lastFullFrom, Spec.sectionsFrom]
  | cons x xs ih =>
    intro full off
    have newsec : ∀ off', lastFullFrom (some x.ts) xs =
        match ((x.ts, off) :: Spec.sectionsFrom p (some x.ts) off' xs).getLast? with
        | some s => some s.1
        | none => full := by
      intro off'
      rw [ih (some x.ts) off']
      cases h : Spec.sectionsFrom p (some x.ts) off' xs with
      | nil => simp
      | cons a t =>
        rw [List.getLast?_cons_cons, List.getLast?_eq_getLast (l := a :: t) (by simp)]
    match full with
    | none => simp only [lastFullFrom, Spec.sectionsFrom]; exact newsec _
    | some f =>
      by_cases hd : x.ts - f ≤ Spec.maxDelta
      · have hd' : x.ts - f ≤ 65534 := hd
        simp only [lastFullFrom, Spec.sectionsFrom, if_pos hd, if_pos hd']
        exact ih (some f) _
      · have hd' : ¬ x.ts - f ≤ 65534 := hd
        simp only [lastFullFrom, Spec.sectionsFrom, if_neg hd, if_neg hd']
        exact newsec _

/-- the timestamp of the last section of the canonical encoding -/
def lastSecTs (p : Nat) (ys : List Entry) : Option Nat := ((Spec.sections p ys).getLast?).map (·.1)

theorem lastSecTs_eq (p : Nat) (ys : List Entry) : lastSecTs p ys = lastFullFrom none ys := by
  unfold lastSecTs Spec.sections
  rw [lastFull_sections p ys none 0]
  cases (Spec.sectionsFrom p none 0 ys).getLast? <;> simp

/-- reading the last line of a canonical region with the last full timestamp gives the last entry -/
theorem lastLine_canonical (p : Nat) (ys : List Entry) (e : Entry) (hv : Valid p (ys ++ [e])) (cb : Option Bool)
    (d : DataSess) (hp : d.p = p) (hdl : d.dataLen = (Spec.encode p (ys ++ [e])).length)
    (hlf : d.lastFull = lastFullFrom none (ys ++ [e])) :
    lastLineOf (Spec.encode p (ys ++ [e])) d cb = .ok e := by
  have hpl : ∀ x ∈ ys ++ [e], x.pl.length = p := fun x hx => (hv.2 x hx).2
  have hple : e.pl.length = p := hpl e (by simp)
  have htake : (ys ++ [e]).take ys.length = ys := by simp
  have hoffA : offA p (ys ++ [e]) ys.length = (Spec.encode p ys).length := by unfold offA; rw [htake]
  have hoffB : offA p (ys ++ [e]) (ys ++ [e]).length = (Spec.encode p (ys ++ [e])).length := by
    unfold offA; rw [List.take_length]
  have hfullAt : fullAt (ys ++ [e]) ys.length = lastFullFrom none ys := by unfold fullAt; rw [htake]
  have hmid : ((ys ++ [e]).drop ys.length).take ((ys ++ [e]).length - ys.length) = [e] := by simp
  have hsnoc : Spec.encode p (ys ++ [e]) = Spec.encode p ys ++ Spec.encFrom p (lastFullFrom none ys) [e] := by
    unfold Spec.encode; rw [encFrom_snoc]
  have hget : (ys ++ [e])[ys.length]? = some e := by simp
  unfold lastLineOf
  rw [hlf, lastFullFrom_snoc, hp, hdl]
  have hls := lineSize_pos p
  cases hF : lastFullFrom none ys with
  | none =>
    -- e is the very first entry and opens the first section
    have hlen : (Spec.encode p (ys ++ [e])).length = (Spec.encode p ys).length + metaSize p + lineSize p := by
      rw [hsnoc, hF, List.length_append]
      simp [Spec.encFrom, encSection_length, encLine_length, hple, lineSize]; omega
    simp only [lastFullFrom]
    have hnot : ¬ (Spec.encode p (ys ++ [e])).length < lineSize p := by omega
    simp only [hnot, if_false]
    have hstart : (Spec.encode p (ys ++ [e])).length - lineSize p = offA p (ys ++ [e]) ys.length + metaSize p := by
      rw [hoffA]; omega
    rw [hstart, ← hoffB]
    have hopen : Opens (ys ++ [e]) ys.length e := ⟨hget, Or.inl (by rw [hfullAt, hF])⟩
    rw [readRegion_between_B p cb collectProc {} (ys ++ [e]) hv ys.length _ (by simp) (Nat.le_refl _) e hopen, hmid]
    have : e.ts > 0 ∨ e.ts = 0 := by omega
    simp [foldProc, collectProc, this]
  | some f =>
    have hfe : f ≤ e.ts := by
      rcases lastFullFrom_mem ys none f hF with h | ⟨x, hx, rfl⟩
      · simp at h
      · exact Nat.le_of_lt (sorted_snoc_last ys e hv.1 x hx)
    by_cases hd : e.ts - f ≤ 65534
    · have hlen : (Spec.encode p (ys ++ [e])).length = (Spec.encode p ys).length + lineSize p := by
        have hd' : e.ts - f ≤ Spec.maxDelta := hd
        rw [hsnoc, hF, List.length_append]
        simp [Spec.encFrom, hd', encLine_length, hple, lineSize]
      simp only [lastFullFrom, if_pos hd]
      have hnot : ¬ (Spec.encode p (ys ++ [e])).length < lineSize p := by omega
      simp only [hnot, if_false]
      have hstart : (Spec.encode p (ys ++ [e])).length - lineSize p = offA p (ys ++ [e]) ys.length := by
        rw [hoffA]; omega
      rw [hstart, ← hoffB]
      rw [readRegion_between p cb collectProc {} (ys ++ [e]) hv ys.length _ (by simp) (Nat.le_refl _) f
        (by intro f' hf'; rw [hfullAt, hF] at hf'; exact (Option.some.inj hf')), hmid]
      have : e.ts > 0 ∨ e.ts = 0 := by omega
      simp [foldProc, collectProc, this]
    · have hlen : (Spec.encode p (ys ++ [e])).length = (Spec.encode p ys).length + metaSize p + lineSize p := by
        have hd' : ¬ e.ts - f ≤ Spec.maxDelta := hd
        rw [hsnoc, hF, List.length_append]
        simp [Spec.encFrom, hd', encSection_length, encLine_length, hple, lineSize]; omega
      simp only [lastFullFrom, if_neg hd]
      have hnot : ¬ (Spec.encode p (ys ++ [e])).length < lineSize p := by omega
      simp only [hnot, if_false]
      have hstart : (Spec.encode p (ys ++ [e])).length - lineSize p = offA p (ys ++ [e]) ys.length + metaSize p := by
        rw [hoffA]; omega
      rw [hstart, ← hoffB]
      have hopen : Opens (ys ++ [e]) ys.length e := ⟨hget, Or.inr ⟨f, by rw [hfullAt, hF], hd⟩⟩
      rw [readRegion_between_B p cb collectProc {} (ys ++ [e]) hv ys.length _ (by simp) (Nat.le_refl _) e hopen, hmid]
      have : e.ts > 0 ∨ e.ts = 0 := by omega
      simp [foldProc, collectProc, this]

end BS.Impl

namespace BS.Impl

/-- the header of an index file -/
def ihdr : Bytes := [0, 0, 10, 10]

/-- legitimate prior states of the index file of a series whose full history is `xs` -/
inductive IndexState (p : Nat) (xs : List Entry) : Option Bytes → Prop where
  | absent : IndexState p xs none
  | short (b : Bytes) (hlen : b.length < 4) (hpre : b <+: ihdr) : IndexState p xs (some b)
  | cut (n : Nat) : IndexState p xs (some (ihdr ++ (Spec.encIndex (Spec.sections p xs)).take n))

/-- the `Data` the open has to produce for history `ys` (before the last line is read) -/
def openedData (p off : Nat) (ys : List Entry) : DataSess :=
  { p := p, hdrLen := off, ihdrLen := 4, dataLen := (Spec.encode p ys).length,
    entries := toIEntries (Spec.sections p ys), lastFull := lastFullFrom none ys, lastTime := none }

theorem rebuild_correct (st : Store) (p : Nat) (ys : List Entry) (hv : Valid p ys) :
    rebuildIndex st p (Spec.encode p ys) =
      ({ st with index := some (ihdr ++ Spec.encIndex (Spec.sections p ys)), part := none },
       toIEntries (Spec.sections p ys), 4) := by
  unfold rebuildIndex
  rw [extractEntries_canonical p ys hv]
  have : (toIEntries (Spec.sections p ys)).map encIEntry = (Spec.sections p ys).map fun s => le8 s.1 ++ le8 s.2 := by
    simp [toIEntries, List.map_map, Function.comp_def, encIEntry]
  simp only [this]
  rfl

theorem toIEntries_getLast (secs : List (Nat × Nat)) :
    (toIEntries secs).getLast?.map (·.ts) = secs.getLast?.map (·.1) := by
  unfold toIEntries
  rw [List.getLast?_map]
  cases secs.getLast? <;> simp

/-- **T6: opening the index** against the canonical region of `ys` (a prefix of the full history
`xs`) from any legitimate prior state of the index file, given the last full timestamp found
in the data: entries and index file come out exactly as those of `ys`. -/
theorem indexOpen_correct (p off : Nat) (xs : List Entry) (hvx : Valid p xs) (k : Nat)
    (hsize : (Spec.encode p xs).length < 2^64) (st : Store) (hix : IndexState p xs st.index) :
    ∃ part', indexOpen st p off (Spec.encode p (xs.take k)) (lastSecTs p (xs.take k)) =
      ({ st with index := some (ihdr ++ Spec.encIndex (Spec.sections p (xs.take k))), part := part' },
       .ok (openedData p off (xs.take k))) := by
  generalize hys : xs.take k = ys
  have hvy : Valid p ys := by
    rw [← hys]
    exact ⟨List.Pairwise.sublist (List.take_sublist _ _) hvx.1, fun x hx => hvx.2 x (List.mem_of_mem_take hx)⟩
  have hplx : ∀ x ∈ xs, x.pl.length = p := fun x hx => (hvx.2 x hx).2
  have hlf : (toIEntries (Spec.sections p ys)).getLast?.map (·.ts) = lastFullFrom none ys := by
    rw [toIEntries_getLast]; exact lastSecTs_eq p ys
  have hreb : ∀ st' : Store, viaRebuild st' p off (Spec.encode p ys) =
      ({ st' with index := some (ihdr ++ Spec.encIndex (Spec.sections p ys)), part := none },
       .ok (openedData p off ys)) := by
    intro st'
    unfold viaRebuild
    simp only [rebuild_correct st' p ys hvy, hlf, openedData]
  unfold indexOpen
  simp only
  generalize hixe : st.index = ix at hix
  cases hix with
  | absent =>
    simp only [fileOpenExisting]
    exact ⟨none, by rw [hreb]⟩
  | short b hlen hpre =>
    have herr : ∃ f, fileOpenExisting (some b) = .error f := by
      unfold fileOpenExisting
      by_cases h2 : b.length < 2
      · simp [h2]
      · simp only [h2, if_false]
        obtain ⟨t, ht⟩ := hpre
        have hb2 : b.take 2 = [0, 0] := by
          have : (b ++ t).take 2 = [0, 0] := by rw [ht]; rfl
          rwa [List.take_append_of_le_length (by omega)] at this
        have : b.length < 4 + unN (b.take 2) := by rw [hb2]; simp [unN]; omega
        simp [this]
    obtain ⟨f, hf⟩ := herr
    simp only [hf]
    exact ⟨none, by rw [hreb]⟩
  | cut n =>
    have hopen : fileOpenExisting (some (ihdr ++ (Spec.encIndex (Spec.sections p xs)).take n)) = .ok (4, []) := by
      unfold fileOpenExisting
      have hl : ¬ (ihdr ++ (Spec.encIndex (Spec.sections p xs)).take n).length < 2 := by simp [ihdr]
      have hu : unN ((ihdr ++ (Spec.encIndex (Spec.sections p xs)).take n).take 2) = 0 := by simp [ihdr, unN]
      have hl2 : ¬ (ihdr ++ (Spec.encIndex (Spec.sections p xs)).take n).length < 4 + 0 := by simp [ihdr]
      simp only [hl, if_false, hu, hl2]
      simp [ihdr]
    simp only [hopen]
    have hdrop : (ihdr ++ (Spec.encIndex (Spec.sections p xs)).take n).drop 4 = (Spec.encIndex (Spec.sections p xs)).take n := by
      simp [ihdr]
    have htake : (ihdr ++ (Spec.encIndex (Spec.sections p xs)).take n).take 4 = ihdr := by
      simp [ihdr]
    simp only [hdrop, htake]
    by_cases hyn : ys = []
    · -- empty data: the index is emptied
      subst hyn
      have hls := lineSize_pos p
      have hd0 : (Spec.encode p ([] : List Entry)).length = 0 := by simp [Spec.encode, Spec.encFrom]
      have hnot : ¬ (Spec.encode p ([] : List Entry)).length ≥ lineSize p := by omega
      simp only [hnot, if_false, indexCheck]
      refine ⟨st.part, ?_⟩
      simp [parseIndex, toLines_nil, openedData, Spec.sections, Spec.sectionsFrom, Spec.encIndex, toIEntries,
        lastFullFrom, hixe]
    · have hply : ∀ x ∈ ys, x.pl.length = p := fun x hx => (hvy.2 x hx).2
      have hsecY : Spec.sections p ys = (Spec.sections p xs).take (Spec.sections p ys).length := by
        rw [← hys]; exact sections_take p xs hplx k
      have hsecne : Spec.sections p ys ≠ [] := by
        cases h : ys with
        | nil => exact absurd h hyn
        | cons a t => simp [Spec.sections, Spec.sectionsFrom]
      obtain ⟨sl, hsl⟩ : ∃ sl, (Spec.sections p ys).getLast? = some sl := by
        cases h : (Spec.sections p ys).getLast? with
        | none => simp [List.getLast?_eq_none_iff] at h; exact absurd h hsecne
        | some s => exact ⟨s, rfl⟩
      have hbound := sectionsFrom_bounds p ys hply none 0 sl (List.mem_of_getLast? hsl)
      have hls := lineSize_pos p
      have hdlge : (Spec.encode p ys).length ≥ lineSize p := by
        have := hbound.2.1
        simp only [Nat.zero_add] at this
        unfold Spec.encode; omega
      have hv : lastSecTs p ys = some sl.1 := by unfold lastSecTs; rw [hsl]; rfl
      simp only [hdlge, if_true, hv]
      have hsortX := (sections_ts_sorted p xs hvx.1 none 0).1
      have hbndX : ∀ s ∈ Spec.sections p xs, s.1 < 2^64 ∧ s.2 < 2^64 := by
        intro s hs
        obtain ⟨_, h2, x, hx, hxs⟩ := sectionsFrom_bounds p xs hplx none 0 s hs
        refine ⟨by rw [← hxs]; exact (hvx.2 x hx).1, ?_⟩
        simp only [Nat.zero_add] at h2
        unfold Spec.encode at hsize; omega
      have hmpos : 1 ≤ (Spec.sections p ys).length := List.length_pos_iff.mpr hsecne
      have hslX : (Spec.sections p xs)[(Spec.sections p ys).length - 1]? = some sl := by
        have h1 : (Spec.sections p ys)[(Spec.sections p ys).length - 1]? = some sl := by
          rw [← hsl, List.getLast?_eq_getElem?]
        have h2 : ((Spec.sections p xs).take (Spec.sections p ys).length)[(Spec.sections p ys).length - 1]? = some sl := by
          rw [← hsecY]; exact h1
        rw [List.getElem?_take] at h2
        split at h2
        · exact h2
        · simp at h2
      have hoffle : sl.2 ≤ (Spec.encode p ys).length - lineSize p := by
        have := hbound.2.1
        simp only [Nat.zero_add] at this
        unfold Spec.encode; omega
      obtain ⟨chk, hchk, hok⟩ := indexCheck_prefix (Spec.sections p xs) hsortX hbndX (Spec.sections p ys).length n
        ((Spec.encode p ys).length - lineSize p) sl.1 sl hslX hmpos rfl hoffle
      rw [hchk]
      simp only
      by_cases hc : chk.ok = true
      · have hreg := hok hc
        rw [← hsecY] at hreg
        have hbndY : ∀ s ∈ Spec.sections p ys, s.1 < 2^64 ∧ s.2 < 2^64 := by
          intro s hs
          apply hbndX
          rw [hsecY] at hs
          exact List.mem_of_mem_take hs
        refine ⟨st.part, ?_⟩
        simp only [hc, if_true, hreg, parseIndex_encIndex _ hbndY, hlf, openedData]
      · simp only [hc, Bool.false_eq_true, if_false]
        exact ⟨none, by rw [hreb]⟩

end BS.Impl
