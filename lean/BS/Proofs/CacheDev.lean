/-
  C09, last clause continued: after `open` kept the one straddling bucket `z` of a cache that
  ran ahead of a torn source, every later append keeps the cache equal to that of an
  uninterrupted session in every bucket except that one.
-/
import BS.Proofs.CacheAhead

namespace BS.Impl
open BS

/-- phase 1: the source lines the kept bucket `z` (position `q`) already accounts for are
still being skipped -/
structure CacheSkipping (hdr ihdr : Bytes) (st : Store) (c : CacheSess) (xs : List Entry) (q : Nat) (z : Entry) : Prop where
  data : DataInv hdr ihdr st c.d (Spec.bucketMeans c.B (Spec.linMean c.d.p) (xs.take (q * c.B)) ++ [z])
  valid : Valid c.d.p (Spec.bucketMeans c.B (Spec.linMean c.d.p) (xs.take (q * c.B)) ++ [z])
  lo : q * c.B ≤ xs.length
  hi : xs.length < (q + 1) * c.B
  skip : c.skip = (q + 1) * c.B - xs.length
  Bpos : 1 ≤ c.B
  Ble : c.B ≤ 2^32
  inBin : c.inBin = 0
  tsSum : c.tsSum = 0
  vSum : c.vSum = 0
  zle : ∃ l, xs.getLast? = some l ∧ z.ts ≤ l.ts

/-- phase 2: the cache is that of an uninterrupted session except for bucket `q`, which holds `z` -/
structure CacheDev (hdr ihdr : Bytes) (st : Store) (c : CacheSess) (xs : List Entry) (q : Nat) (z : Entry) : Prop where
  data : DataInv hdr ihdr st c.d ((Spec.bucketMeans c.B (Spec.linMean c.d.p) xs).set q z)
  valid : Valid c.d.p ((Spec.bucketMeans c.B (Spec.linMean c.d.p) xs).set q z)
  full : (q + 1) * c.B ≤ xs.length
  skip0 : c.skip = 0
  Bpos : 1 ≤ c.B
  Ble : c.B ≤ 2^32
  inBin : c.inBin = xs.length % c.B
  tsSum : c.tsSum = ((pendOf c.B xs).map (·.ts)).sum
  vSum : c.vSum = ((pendOf c.B xs).map (linDecode ·.pl)).sum
  zle : ∃ i, ∃ h : i < xs.length, i < (q + 1) * c.B ∧ z.ts ≤ xs[i].ts

theorem set_last_eq (L : List Entry) (q : Nat) (z : Entry) (h : L.length = q + 1) : L.set q z = L.take q ++ [z] := by
  apply List.ext_getElem
  · simp [h]
  · intro i h1 h2
    rw [List.getElem_set]
    by_cases hi : q = i
    · subst hi
      rw [List.getElem_append_right (by simp; omega)]
      simp
    · have hlt : i < q := by simp [h] at h1; omega
      simp only [hi, if_false]
      rw [List.getElem_append_left (by simp; omega), List.getElem_take]

/-- one source line while skipping: nothing is written; either the skipping goes on or the
kept bucket is now a complete bucket of the history -/
theorem skipping_step (hdr ihdr : Bytes) (st : Store) (c : CacheSess) (xs : List Entry) (q : Nat) (z e : Entry)
    (hinv : CacheSkipping hdr ihdr st c xs q z) (hv : Valid c.d.p (xs ++ [e])) :
    ∃ c', cacheProcess st c e.ts e.pl = .ok (st, c') ∧ c'.B = c.B ∧ c'.d = c.d ∧
      (CacheSkipping hdr ihdr st c' (xs ++ [e]) q z ∨ CacheDev hdr ihdr st c' (xs ++ [e]) q z) := by
  have hB : 0 < c.B := hinv.Bpos
  have hskip : c.skip > 0 := by rw [hinv.skip]; have := hinv.hi; omega
  obtain ⟨l, hl, hzl⟩ := hinv.zle
  have hlmem : l ∈ xs := List.mem_of_getLast? hl
  have hle : l.ts < e.ts := sorted_snoc_last xs e hv.1 l hlmem
  have htake : (xs ++ [e]).take (q * c.B) = xs.take (q * c.B) := List.take_append_of_le_length hinv.lo
  refine ⟨{ c with skip := c.skip - 1 }, ?_, rfl, rfl, ?_⟩
  · unfold cacheProcess; simp only [hskip, if_true]
  · by_cases hmore : xs.length + 1 < (q + 1) * c.B
    · left
      constructor
      · show DataInv hdr ihdr st c.d _; rw [htake]; exact hinv.data
      · show Valid c.d.p _; rw [htake]; exact hinv.valid
      · simp only [List.length_append, List.length_cons, List.length_nil]; have := hinv.lo; omega
      · simp only [List.length_append, List.length_cons, List.length_nil]; exact hmore
      · show c.skip - 1 = _
        simp only [List.length_append, List.length_cons, List.length_nil]; rw [hinv.skip]; omega
      · exact hinv.Bpos
      · exact hinv.Ble
      · exact hinv.inBin
      · exact hinv.tsSum
      · exact hinv.vSum
      · exact ⟨e, by simp, by omega⟩
    · right
      have hlen : (xs ++ [e]).length = (q + 1) * c.B := by
        simp only [List.length_append, List.length_cons, List.length_nil]; have := hinv.hi; omega
      have hMlen : (Spec.bucketMeans c.B (Spec.linMean c.d.p) (xs ++ [e])).length = q + 1 := by
        rw [bucketMeans_len c.B _ hB _ _ rfl, hlen, Nat.mul_div_cancel _ hB]
      have hset : (Spec.bucketMeans c.B (Spec.linMean c.d.p) (xs ++ [e])).set q z
          = Spec.bucketMeans c.B (Spec.linMean c.d.p) (xs.take (q * c.B)) ++ [z] := by
        rw [set_last_eq _ q z hMlen, ← bucketMeans_take c.B _ hB q (xs ++ [e]) (by rw [hlen, Nat.add_mul]; omega), htake]
      have hpend : pendOf c.B (xs ++ [e]) = [] := by
        unfold pendOf
        rw [hlen, Nat.mul_div_cancel _ hB]
        apply List.drop_eq_nil_of_le; rw [hlen]; exact Nat.le_refl _
      constructor
      · show DataInv hdr ihdr st c.d _; rw [hset]; exact hinv.data
      · show Valid c.d.p _; rw [hset]; exact hinv.valid
      · rw [hlen]; exact Nat.le_refl _
      · show c.skip - 1 = 0; rw [hinv.skip]; simp only [List.length_append, List.length_cons, List.length_nil] at hlen; omega
      · exact hinv.Bpos
      · exact hinv.Ble
      · show c.inBin = _; rw [hinv.inBin, hlen, Nat.mul_mod_left]
      · show c.tsSum = _; rw [hinv.tsSum, hpend]; rfl
      · show c.vSum = _; rw [hinv.vSum, hpend]; rfl
      · have hxpos : 0 < xs.length := List.length_pos_of_mem hlmem
        refine ⟨xs.length - 1, by simp; omega, ?_, ?_⟩
        · show xs.length - 1 < (q + 1) * c.B
          simp only [List.length_append, List.length_cons, List.length_nil] at hlen; omega
        · rw [List.getElem_append_left (by omega)]
          have : xs[xs.length - 1] = l := by
            have := List.getLast?_eq_getElem? (l := xs)
            rw [hl] at this
            have h2 := List.getElem?_eq_getElem (l := xs) (i := xs.length - 1) (by omega)
            rw [h2] at this; injection this with this; exact this.symm
          rw [this]; exact hzl

/-- one source line after the skipping: exactly as in an uninterrupted session, bucket `q` aside -/
theorem dev_step (hdr ihdr : Bytes) (st : Store) (c : CacheSess) (xs : List Entry) (q : Nat) (z e : Entry)
    (hinv : CacheDev hdr ihdr st c xs q z) (hv : Valid c.d.p (xs ++ [e])) :
    ∃ st' c', cacheProcess st c e.ts e.pl = .ok (st', c') ∧ c'.B = c.B ∧ c'.d.p = c.d.p ∧
      CacheDev hdr ihdr st' c' (xs ++ [e]) q z := by
  have hB := hinv.Bpos
  have hplen := pendOf_length c.B xs
  have hmodlt := Nat.mod_lt xs.length hB
  have hsdm := succ_div_mod xs.length c.B hB
  have hfull' : (q + 1) * c.B ≤ (xs ++ [e]).length := by
    simp only [List.length_append, List.length_cons, List.length_nil]; have := hinv.full; omega
  have hqL : q < (Spec.bucketMeans c.B (Spec.linMean c.d.p) xs).length := by
    rw [bucketMeans_len c.B _ hB _ xs rfl]
    exact (Nat.le_div_iff_mul_le hB).mpr hinv.full
  obtain ⟨i, hi, hiq, hzi⟩ := hinv.zle
  have hzle' : ∃ i, ∃ h : i < (xs ++ [e]).length, i < (q + 1) * c.B ∧ z.ts ≤ (xs ++ [e])[i].ts :=
    ⟨i, by simp; omega, hiq, by rw [List.getElem_append_left hi]; exact hzi⟩
  -- the value sum cannot overflow
  have hvlt : ¬ (c.vSum + linDecode e.pl ≥ 2^64) := by
    have h1 := sum_linDecode_le ((pendOf c.B xs).map (·.pl))
    simp only [List.map_map, List.length_map] at h1
    have h2 : c.vSum ≤ (pendOf c.B xs).length * (2^32 - 1) := by rw [hinv.vSum]; exact h1
    have h3 := linDecode_lt e.pl
    have h4 : (pendOf c.B xs).length * (2^32 - 1) ≤ 2^32 * (2^32 - 1) :=
      Nat.mul_le_mul_right _ (by have := hinv.Ble; omega)
    omega
  unfold cacheProcess
  have hskip : ¬ c.skip > 0 := by rw [hinv.skip0]; omega
  simp only [hskip, if_false, hvlt]
  by_cases hfull : c.inBin + 1 ≥ c.B
  · -- the bucket is complete
    have hr : xs.length % c.B + 1 = c.B := by rw [hinv.inBin] at hfull; omega
    obtain ⟨hdiv, hmod⟩ := hsdm.1 hr
    have hB0 : ¬ c.B = 0 := by omega
    simp only [hfull, if_true, hB0, if_false]
    have hq : xs.length + 1 - c.B = xs.length / c.B * c.B := by
      have := Nat.div_add_mod xs.length c.B
      have : c.B * (xs.length / c.B) = xs.length / c.B * c.B := Nat.mul_comm _ _
      omega
    have hlastB : (xs ++ [e]).drop (xs.length + 1 - c.B) = pendOf c.B xs ++ [e] := by
      unfold pendOf
      rw [hq, List.drop_append_of_le_length (Nat.div_mul_le_self _ _)]
    have hsnoc := bucketMeans_snoc c.B (Spec.linMean c.d.p) hB xs e
    rw [if_pos hmod, hlastB] at hsnoc
    have hts_eq : ((pendOf c.B xs ++ [e]).map (·.ts)).sum = c.tsSum + e.ts := by
      simp [hinv.tsSum]
    have hpl_eq : Spec.linMean c.d.p ((pendOf c.B xs ++ [e]).map (·.pl)) = linEncode c.d.p ((c.vSum + linDecode e.pl) / c.B) := by
      unfold Spec.linMean
      rw [spec_linEncode, spec_linDecode_fn]
      simp only [List.map_append, List.map_map, List.sum_append, List.map_cons, List.map_nil, List.sum_cons,
        List.sum_nil, Nat.add_zero, List.length_append, List.length_map, List.length_cons, List.length_nil, hplen, hr]
      rw [hinv.vSum]; rfl
    rw [hts_eq, hpl_eq] at hsnoc
    have hassert : ¬ ((c.tsSum + e.ts) / c.B > e.ts) := by
      have hle : ∀ t ∈ (pendOf c.B xs ++ [e]).map (·.ts), t ≤ e.ts := by
        intro t ht
        simp only [List.mem_map, List.mem_append, List.mem_singleton] at ht
        obtain ⟨y, hy, rfl⟩ := ht
        rcases hy with hy | rfl
        · exact Nat.le_of_lt (sorted_snoc_last xs e hv.1 y (List.mem_of_mem_drop hy))
        · exact Nat.le_refl _
      have := sum_div_le_of_le _ e.ts hle (by simp)
      simp only [List.length_map, List.length_append, List.length_cons, List.length_nil, hplen, hr] at this
      rw [hts_eq] at this
      omega
    simp only [hassert, if_false]
    -- the new mean is newer than the kept bucket: all its lines come after line `i`
    have hxi_lt : ∀ t ∈ (pendOf c.B xs ++ [e]).map (·.ts), xs[i].ts + 1 ≤ t := by
      intro t ht
      simp only [List.mem_map, List.mem_append, List.mem_singleton] at ht
      obtain ⟨y, hy, rfl⟩ := ht
      rcases hy with hy | rfl
      · unfold pendOf at hy
        obtain ⟨j, hj⟩ := List.getElem?_of_mem hy
        rw [List.getElem?_drop] at hj
        have hstart : (q + 1) * c.B ≤ xs.length / c.B * c.B :=
          Nat.mul_le_mul_right _ ((Nat.le_div_iff_mul_le hB).mpr hinv.full)
        exact sorted_get_lt xs (List.pairwise_append.mp hv.1).1 i _ xs[i] y (by omega)
          (List.getElem?_eq_getElem hi) hj
      · exact sorted_snoc_last xs y hv.1 xs[i] (List.getElem_mem hi)
    have hmean_gt : z.ts < (c.tsSum + e.ts) / c.B := by
      have := le_sum_div_of_ge _ (xs[i].ts + 1) hxi_lt (by simp)
      simp only [List.length_map, List.length_append, List.length_cons, List.length_nil, hplen, hr] at this
      rw [hts_eq] at this
      omega
    have hvm0 : Valid c.d.p (Spec.bucketMeans c.B (Spec.linMean c.d.p) xs ++
        [⟨(c.tsSum + e.ts) / c.B, linEncode c.d.p ((c.vSum + linDecode e.pl) / c.B)⟩]) := by
      rw [← hsnoc]; exact valid_bucketMeans c.d.p c.B hB _ hv
    have hvm : Valid c.d.p ((Spec.bucketMeans c.B (Spec.linMean c.d.p) xs).set q z ++
        [⟨(c.tsSum + e.ts) / c.B, linEncode c.d.p ((c.vSum + linDecode e.pl) / c.B)⟩]) := by
      constructor
      · apply List.pairwise_append.mpr
        refine ⟨hinv.valid.1, by simp, ?_⟩
        intro a ha b hb
        simp only [List.mem_singleton] at hb
        subst hb
        rcases List.mem_or_eq_of_mem_set ha with ha | rfl
        · exact sorted_snoc_last _ _ hvm0.1 a ha
        · exact hmean_gt
      · intro x hx
        rcases List.mem_append.mp hx with hx | hx
        · exact hinv.valid.2 x hx
        · exact hvm0.2 x (List.mem_append_right _ hx)
    obtain ⟨st', d', hpush, hp', hinv'⟩ := pushData_inv hdr ihdr st c.d _ _ hinv.data hvm
    simp only at hpush
    rw [hpush]
    have hsetsnoc : (Spec.bucketMeans c.B (Spec.linMean c.d.p) (xs ++ [e])).set q z
        = (Spec.bucketMeans c.B (Spec.linMean c.d.p) xs).set q z ++
          [⟨(c.tsSum + e.ts) / c.B, linEncode c.d.p ((c.vSum + linDecode e.pl) / c.B)⟩] := by
      rw [hsnoc, List.set_append, if_pos hqL]
    have hmul : (xs.length / c.B + 1) * c.B = xs.length + 1 := by
      have := Nat.div_add_mod xs.length c.B
      rw [Nat.add_mul, Nat.mul_comm (xs.length / c.B) c.B]; omega
    refine ⟨_, _, rfl, rfl, hp', ?_⟩
    constructor
    · show DataInv hdr ihdr st' d' ((Spec.bucketMeans c.B (Spec.linMean d'.p) (xs ++ [e])).set q z)
      rw [hp', hsetsnoc]; exact hinv'
    · show Valid d'.p ((Spec.bucketMeans c.B (Spec.linMean d'.p) (xs ++ [e])).set q z)
      rw [hp', hsetsnoc]; exact hvm
    · exact hfull'
    · exact hinv.skip0
    · exact hinv.Bpos
    · exact hinv.Ble
    · simp [hmod]
    · simp only [pendOf, List.length_append, List.length_cons, List.length_nil, hdiv]
      rw [hmul, List.drop_eq_nil_of_le (by simp)]; simp
    · simp only [pendOf, List.length_append, List.length_cons, List.length_nil, hdiv]
      rw [hmul, List.drop_eq_nil_of_le (by simp)]; simp
    · exact hzle'
  · -- the bucket stays incomplete
    have hr : xs.length % c.B + 1 < c.B := by rw [hinv.inBin] at hfull; omega
    obtain ⟨hdiv, hmod⟩ := hsdm.2 hr
    simp only [hfull, if_false]
    have hsnoc := bucketMeans_snoc c.B (Spec.linMean c.d.p) hB xs e
    have hmod0 : ¬ (xs.length + 1) % c.B = 0 := by rw [hmod]; omega
    rw [if_neg hmod0, List.append_nil] at hsnoc
    have hpend : pendOf c.B (xs ++ [e]) = pendOf c.B xs ++ [e] := by
      unfold pendOf
      simp only [List.length_append, List.length_cons, List.length_nil, hdiv]
      rw [List.drop_append_of_le_length (Nat.div_mul_le_self _ _)]
    refine ⟨_, _, rfl, rfl, rfl, ?_⟩
    constructor
    · simp only; rw [hsnoc]; exact hinv.data
    · simp only; rw [hsnoc]; exact hinv.valid
    · exact hfull'
    · exact hinv.skip0
    · exact hinv.Bpos
    · exact hinv.Ble
    · simp [hinv.inBin, hmod]
    · simp [hpend, hinv.tsSum]
    · simp [hpend, hinv.vSum]
    · exact hzle'

/-- a cache with a kept bucket, in either phase -/
def CacheKept (hdr ihdr : Bytes) (st : Store) (c : CacheSess) (xs : List Entry) (q : Nat) (z : Entry) : Prop :=
  CacheSkipping hdr ihdr st c xs q z ∨ CacheDev hdr ihdr st c xs q z

theorem kept_step (hdr ihdr : Bytes) (st : Store) (c : CacheSess) (xs : List Entry) (q : Nat) (z e : Entry)
    (hinv : CacheKept hdr ihdr st c xs q z) (hv : Valid c.d.p (xs ++ [e])) :
    ∃ st' c', cacheProcess st c e.ts e.pl = .ok (st', c') ∧ c'.B = c.B ∧ c'.d.p = c.d.p ∧
      CacheKept hdr ihdr st' c' (xs ++ [e]) q z := by
  rcases hinv with h | h
  · obtain ⟨c', h1, h2, h3, h4⟩ := skipping_step hdr ihdr st c xs q z e h hv
    exact ⟨st, c', h1, h2, by rw [h3], h4⟩
  · obtain ⟨st', c', h1, h2, h3, h4⟩ := dev_step hdr ihdr st c xs q z e h hv
    exact ⟨st', c', h1, h2, h3, Or.inr h4⟩

/-- source lines fed to one cache, one after the other -/
def feedLines (st : Store) (c : CacheSess) : List Entry → R (Store × CacheSess)
  | [] => .ok (st, c)
  | e :: es =>
    match cacheProcess st c e.ts e.pl with
    | .ok (st', c') => feedLines st' c' es
    | .error f => .error f

/-- **the kept bucket stays the only deviation**, for every continuation of the history -/
theorem kept_forever (hdr ihdr : Bytes) : ∀ (ys : List Entry) (st : Store) (c : CacheSess) (xs : List Entry) (q : Nat) (z : Entry),
    CacheKept hdr ihdr st c xs q z → Valid c.d.p (xs ++ ys) →
    ∃ st' c', feedLines st c ys = .ok (st', c') ∧ c'.B = c.B ∧ c'.d.p = c.d.p ∧
      CacheKept hdr ihdr st' c' (xs ++ ys) q z := by
  intro ys
  induction ys with
  | nil => intro st c xs q z h _; exact ⟨st, c, rfl, rfl, rfl, by simpa using h⟩
  | cons y ys ih =>
    intro st c xs q z h hv
    have hv1 : Valid c.d.p (xs ++ [y]) := by
      have : xs ++ y :: ys = (xs ++ [y]) ++ ys := by simp
      rw [this] at hv; exact valid_prefix _ _ _ hv
    obtain ⟨st1, c1, h1, hB1, hp1, hk1⟩ := kept_step hdr ihdr st c xs q z y h hv1
    have hv2 : Valid c1.d.p ((xs ++ [y]) ++ ys) := by rw [hp1]; simpa using hv
    obtain ⟨st2, c2, h2, hB2, hp2, hk2⟩ := ih st1 c1 (xs ++ [y]) q z hk1 hv2
    refine ⟨st2, c2, ?_, by rw [hB2, hB1], by rw [hp2, hp1], by simpa using hk2⟩
    simp only [feedLines, h1]; exact h2

/-- what `CacheKept` says about the cache file: it decodes to a history that agrees with the
bucket means of the source in every position except `q` -/
theorem kept_content (hdr ihdr : Bytes) (st : Store) (c : CacheSess) (xs : List Entry) (q : Nat) (z : Entry)
    (h : CacheKept hdr ihdr st c xs q z) :
    ∃ L, st.data = some (hdr ++ Spec.encode c.d.p L) ∧ Valid c.d.p L ∧
      ∀ i, i ≠ q → L[i]? = (Spec.bucketMeans c.B (Spec.linMean c.d.p) xs)[i]? := by
  rcases h with h | h
  · have hB : 0 < c.B := h.Bpos
    have hM : Spec.bucketMeans c.B (Spec.linMean c.d.p) (xs.take (q * c.B))
        = Spec.bucketMeans c.B (Spec.linMean c.d.p) xs := by
      rw [bucketMeans_take c.B _ hB q xs h.lo]
      apply List.take_of_length_le
      rw [bucketMeans_len c.B _ hB _ xs rfl]
      have := h.hi
      exact Nat.le_of_lt_succ ((Nat.div_lt_iff_lt_mul hB).mpr this)
    have hlen : (Spec.bucketMeans c.B (Spec.linMean c.d.p) xs).length = q := by
      rw [bucketMeans_len c.B _ hB _ xs rfl]
      apply Nat.le_antisymm
      · exact Nat.le_of_lt_succ ((Nat.div_lt_iff_lt_mul hB).mpr h.hi)
      · exact (Nat.le_div_iff_mul_le hB).mpr h.lo
    refine ⟨_, h.data.data, h.valid, ?_⟩
    intro i hi
    rw [hM]
    by_cases hlt : i < q
    · rw [List.getElem?_append_left (by omega)]
    · rw [List.getElem?_eq_none (by simp; omega), List.getElem?_eq_none (by omega)]
  · refine ⟨_, h.data.data, h.valid, ?_⟩
    intro i hi
    rw [List.getElem?_set_ne (Ne.symm hi)]

/-- the state `open` leaves when it keeps the straddling bucket is the start of phase 1 -/
theorem kept_after_open (hdr ihdr : Bytes) (st : Store) (c : CacheSess) (xs : List Entry) (z : Entry)
    (hB : 1 ≤ c.B) (hB32 : c.B ≤ 2^32)
    (hdata : DataInv hdr ihdr st c.d (Spec.bucketMeans c.B (Spec.linMean c.d.p) xs ++ [z]))
    (hvalid : Valid c.d.p (Spec.bucketMeans c.B (Spec.linMean c.d.p) xs ++ [z]))
    (hr : xs.length % c.B ≠ 0) (hskip : c.skip = c.B - xs.length % c.B)
    (h1 : c.inBin = 0) (h2 : c.tsSum = 0) (h3 : c.vSum = 0) (hz : ∀ l ∈ xs.getLast?, z.ts ≤ l.ts) :
    CacheKept hdr ihdr st c xs (xs.length / c.B) z := by
  left
  have hBp : 0 < c.B := hB
  have hdm := Nat.div_add_mod xs.length c.B
  have hml := Nat.mod_lt xs.length hBp
  have hcomm : c.B * (xs.length / c.B) = xs.length / c.B * c.B := Nat.mul_comm _ _
  have hM : Spec.bucketMeans c.B (Spec.linMean c.d.p) (xs.take (xs.length / c.B * c.B))
      = Spec.bucketMeans c.B (Spec.linMean c.d.p) xs := by
    rw [bucketMeans_take c.B _ hBp _ xs (Nat.div_mul_le_self _ _)]
    apply List.take_of_length_le
    rw [bucketMeans_len c.B _ hBp _ xs rfl]; exact Nat.le_refl _
  have hne : xs ≠ [] := by intro h; subst h; simp at hr
  obtain ⟨l, hl⟩ : ∃ l, xs.getLast? = some l := by
    cases hg : xs.getLast? with
    | none => exact absurd (List.getLast?_eq_none_iff.mp hg) hne
    | some v => exact ⟨v, rfl⟩
  constructor
  · rw [hM]; exact hdata
  · rw [hM]; exact hvalid
  · exact Nat.div_mul_le_self _ _
  · rw [Nat.add_mul]; omega
  · rw [hskip, Nat.add_mul]; omega
  · exact hB
  · exact hB32
  · exact h1
  · exact h2
  · exact h3
  · exact ⟨l, hl, hz l (by rw [hl]; rfl)⟩

end BS.Impl
