/-
  C09, last clause: a cache that ran ahead of a torn source (`repair::add_missing_data`:
  empty and rebuild, or keep the one straddling bucket).
-/
import BS.Proofs.CacheOpen

namespace BS.Impl
open BS

/-- the same cache handle with another `last_time` in its `Data` -/
def CacheSess.setLT (c : CacheSess) (t : Option Nat) : CacheSess := { c with d := { c.d with lastTime := t } }

theorem pushData_lastTime (st : Store) (d : DataSess) (t : Option Nat) (ts : Nat) (l : Bytes) :
    pushData st { d with lastTime := t } ts l = pushData st d ts l := by
  unfold pushData
  cases hlf : d.lastFull with
  | none => rfl
  | some lf =>
    simp only

/-- `process` looks at `last_time` of the cache's `Data` nowhere: a different value is either
overwritten (a bucket was written) or carried along unchanged -/
theorem cacheProcess_setLT (st : Store) (c : CacheSess) (t : Option Nat) (ts : Nat) (l : Bytes) :
    cacheProcess st (c.setLT t) ts l = cacheProcess st c ts l ∨
    ∃ c', cacheProcess st c ts l = .ok (st, c') ∧ cacheProcess st (c.setLT t) ts l = .ok (st, c'.setLT t) := by
  obtain ⟨B, d, inBin, tsSum, vSum, skip⟩ := c
  simp only [CacheSess.setLT, cacheProcess]
  by_cases hs : skip > 0
  · right
    simp only [hs, if_true]
    exact ⟨_, rfl, rfl⟩
  · simp only [hs, if_false]
    by_cases hv : vSum + linDecode l ≥ 2^64
    · left; simp only [hv, if_true]
    · simp only [hv, if_false]
      by_cases hfull : inBin + 1 ≥ B
      · left
        simp only [hfull, if_true]
        by_cases hB0 : B = 0
        · simp only [hB0, if_true]
        · simp only [hB0, if_false]
          by_cases hr : (tsSum + ts) / B > ts
          · simp only [hr, if_true]
          · simp only [hr, if_false]
            rw [pushData_lastTime]
      · right
        simp only [hfull, if_false]
        exact ⟨_, rfl, rfl⟩

/-- the cache invariant, except that `last_time` of the cache's `Data` may be stale -/
def CacheInvLT (hdr ihdr : Bytes) (st : Store) (c : CacheSess) (xs : List Entry) : Prop :=
  ∃ c', CacheInv hdr ihdr st c' xs ∧ (c = c' ∨ ∃ t, c = c'.setLT t)

theorem cacheProcess_invLT (hdr ihdr : Bytes) (st : Store) (c : CacheSess) (xs : List Entry) (e : Entry)
    (hinv : CacheInvLT hdr ihdr st c xs) (hv : Valid c.d.p (xs ++ [e])) :
    ∃ st' c'', cacheProcess st c e.ts e.pl = .ok (st', c'') ∧ c''.B = c.B ∧ c''.d.p = c.d.p ∧
      CacheInvLT hdr ihdr st' c'' (xs ++ [e]) := by
  obtain ⟨c', hinv', hor⟩ := hinv
  rcases hor with rfl | ⟨t, rfl⟩
  · obtain ⟨st1, c1, h1, h2, h3, h4⟩ := cacheProcess_inv hdr ihdr st c xs e hinv' hv
    exact ⟨st1, c1, h1, h2, h3, c1, h4, Or.inl rfl⟩
  · have hv' : Valid c'.d.p (xs ++ [e]) := hv
    obtain ⟨st1, c1, h1, h2, h3, h4⟩ := cacheProcess_inv hdr ihdr st c' xs e hinv' hv'
    rcases cacheProcess_setLT st c' t e.ts e.pl with heq | ⟨c2, hc2, hset⟩
    · exact ⟨st1, c1, by rw [heq, h1], h2, h3, c1, h4, Or.inl rfl⟩
    · rw [h1] at hc2
      injection hc2 with hc2
      injection hc2 with hst hcc
      subst hst; subst hcc
      exact ⟨st1, c1.setLT t, hset, h2, h3, c1, h4, Or.inr ⟨t, rfl⟩⟩

theorem createProc_foldLT (hdr ihdr : Bytes) : ∀ (ys : List Entry) (st : Store) (c : CacheSess) (xs : List Entry) (prev : Nat),
    CacheInvLT hdr ihdr st c xs → Valid c.d.p (xs ++ ys) → (prev = 0 ∨ ∀ y ∈ ys, prev < y.ts) →
    ∃ s', foldProc createProc { st := st, c := c, prev := prev } ys = .ok s' ∧ s'.c.B = c.B ∧ s'.c.d.p = c.d.p ∧
      s'.failed = none ∧ CacheInvLT hdr ihdr s'.st s'.c (xs ++ ys) := by
  intro ys
  induction ys with
  | nil =>
    intro st c xs prev hinv _ _
    exact ⟨_, rfl, rfl, rfl, rfl, by simpa using hinv⟩
  | cons y ys ih =>
    intro st c xs prev hinv hv hprev
    have hv1 : Valid c.d.p (xs ++ [y]) := by
      constructor
      · have := hv.1
        rw [show xs ++ y :: ys = (xs ++ [y]) ++ ys by simp] at this
        exact (List.pairwise_append.mp this).1
      · intro x hx; exact hv.2 x (by simp at hx ⊢; rcases hx with h | h <;> simp [h])
    obtain ⟨st', c', hstep, hB, hp, hinv'⟩ := cacheProcess_invLT hdr ihdr st c xs y hinv hv1
    have hcond : y.ts > prev ∨ prev = 0 := by
      rcases hprev with h | h
      · exact Or.inr h
      · exact Or.inl (h y (by simp))
    have hnext : y.ts = 0 ∨ ∀ z ∈ ys, y.ts < z.ts := by
      right
      intro z hz
      have hs := hv.1
      have := (List.pairwise_append.mp hs).2.1
      exact (List.pairwise_cons.mp this).1 z hz
    have hv2 : Valid c'.d.p ((xs ++ [y]) ++ ys) := by rw [hp]; simpa using hv
    obtain ⟨s', hfold, hB', hp', hf', hinv''⟩ := ih st' c' (xs ++ [y]) y.ts hinv' hv2 hnext
    refine ⟨s', ?_, by rw [hB', hB], by rw [hp', hp], hf', by simpa using hinv''⟩
    unfold foldProc createProc
    simp only [hcond, not_true_eq_false, if_false, hstep]
    exact hfold

/-- `Data::clear` of an intact `Data`: both files cut back to their headers -/
theorem cleared_inv (hdr ihdr : Bytes) (st : Store) (d : DataSess) (xs : List Entry)
    (hinv : DataInv hdr ihdr st d xs) :
    DataInv hdr ihdr { st with data := st.data.map (·.take d.hdrLen), index := st.index.map (·.take d.ihdrLen) }
      { d with dataLen := 0, entries := [], lastFull := none, lastTime := none } [] := by
  constructor
  · show st.data.map (·.take d.hdrLen) = _
    rw [hinv.data, hinv.hdrLen]
    simp [Spec.encode, Spec.encFrom]
  · show st.index.map (·.take d.ihdrLen) = _
    rw [hinv.index, hinv.ihdrLen]
    simp [Spec.sections, Spec.sectionsFrom, Spec.encIndex]
  · exact hinv.hdrLen
  · exact hinv.ihdrLen
  · simp [Spec.encode, Spec.encFrom]
  · simp [Spec.sections, Spec.sectionsFrom, toIEntries]
  · simp [lastFullFrom]
  · simp

theorem valid_prefix (p : Nat) (xs ys : List Entry) (hv : Valid p (xs ++ ys)) : Valid p xs :=
  ⟨(List.pairwise_append.mp hv.1).1, fun x hx => hv.2 x (by simp [hx])⟩

/-- **C09, last clause: a cache that ran ahead of a torn source.**  The source survived as
`xs`; the cache of bucket size `B` on disk was written by a session that had seen the longer
history `xs ++ lost` (its data file possibly cut itself, at any byte; its index in any
legitimate prior state) and holds MORE buckets than the surviving lines fill.  Opening
succeeds.  Either the cache is rebuilt to exactly the state of an uninterrupted session over
`xs` (only `last_time` of an EMPTY rebuilt cache may be stale), or — when exactly the one bucket
straddling the end of the surviving lines is ahead and it is not newer than the last surviving
line — that one bucket `z` is kept behind the exact bucket means of `xs`, and the handle skips
the source lines `z` already accounts for. -/
theorem cacheOpen_ahead (shdr sihdr : Bytes) (dir : Dir) (src : DataSess) (xs lost : List Entry) (B : Nat)
    (cb : Option Bool)
    (hsrc : DataInv shdr sihdr dir.main src xs) (hvy : Valid src.p (xs ++ lost))
    (hB : 1 ≤ B) (hB32 : B ≤ 2^32) (hH : (cacheUserHeader B).length ≤ 65535)
    (hc : TailClean src.p (Spec.bucketMeans B (Spec.linMean src.p) (xs ++ lost)))
    (hsize : (Spec.encode src.p (Spec.bucketMeans B (Spec.linMean src.p) (xs ++ lost))).length < 2^64)
    (n : Nat)
    (hdata : (dir.cache B).data = some (cacheHdr B ++
      (Spec.encode src.p (Spec.bucketMeans B (Spec.linMean src.p) (xs ++ lost))).take n))
    (hix : IndexState src.p (Spec.bucketMeans B (Spec.linMean src.p) (xs ++ lost)) (dir.cache B).index)
    (hahead : xs.length < Spec.linesWithin src.p (Spec.bucketMeans B (Spec.linMean src.p) (xs ++ lost)) n * B) :
    ∃ dir' c, cacheOpen dir B src cb = (dir', .ok c) ∧ c.B = B ∧ c.d.p = src.p ∧ dir'.main = dir.main ∧
      (∀ B', B' ≠ B → dir'.cache B' = dir.cache B') ∧
      (CacheInvLT (cacheHdr B) cacheIhdr (dir'.cache B) c xs ∨
       ∃ z, DataInv (cacheHdr B) cacheIhdr (dir'.cache B) c.d (Spec.bucketMeans B (Spec.linMean src.p) xs ++ [z]) ∧
         Valid src.p (Spec.bucketMeans B (Spec.linMean src.p) xs ++ [z]) ∧
         xs.length % B ≠ 0 ∧ c.skip = B - xs.length % B ∧ c.inBin = 0 ∧ c.tsSum = 0 ∧ c.vSum = 0 ∧
         ∀ l ∈ xs.getLast?, z.ts ≤ l.ts) := by
  have hBpos : 0 < B := hB
  have hv : Valid src.p xs := valid_prefix _ _ _ hvy
  generalize hM : Spec.bucketMeans B (Spec.linMean src.p) (xs ++ lost) = M at *
  have hvM : Valid src.p M := by rw [← hM]; exact valid_bucketMeans src.p B hBpos _ hvy
  have hlenH : (cacheHdr B).length = 4 + (cacheUserHeader B).length := outerHdr_length _
  obtain ⟨st1, d, hopen, hdp, hinvd⟩ :=
    dataOpen_recovers src.p M hvM hc hsize (cacheHdr B) n (dir.cache B) cb hdata hix
  rw [hlenH] at hopen
  generalize hk : Spec.linesWithin src.p M n = k at hinvd hahead
  have hkle : k ≤ M.length := by rw [← hk]; exact linesWithin_le src.p M n
  have hvMk : Valid d.p (M.take k) := by
    rw [hdp]
    exact ⟨List.Pairwise.sublist (List.take_sublist _ _) hvM.1, fun x hx => hvM.2 x (List.mem_of_mem_take hx)⟩
  have hclen : dataLenLines d = .ok k := by
    rw [len_of_dataInv _ _ _ _ _ hinvd hvMk, List.length_take, Nat.min_eq_left hkle]
  have hslen : dataLenLines src = .ok xs.length := len_of_dataInv _ _ _ _ _ hsrc hv
  have hinvd' : DataInv (cacheHdr B) cacheIhdr st1 d (M.take k) := by
    unfold cacheIhdr; rw [← ihdr_eq]; exact hinvd
  have hfo : fileOpenExisting (dir.cache B).data
      = .ok (4 + (cacheUserHeader B).length, cacheUserHeader B) := by
    rw [hdata]; exact outerHdr_open _ _ hH
  have hgt : k * B > xs.length := hahead
  unfold cacheOpen
  simp only [hfo, hopen, hclen, hslen]
  generalize hnew : cacheNewer d.lastTime src.lastTime = newer
  by_cases hah : (decide (k * B ≥ xs.length + B) || (decide (k * B > xs.length) && newer)) = true
  · -- the cache is emptied and filled again from the first source line
    simp only [hah, if_true]
    have hcl := cleared_inv _ _ _ _ _ hinvd'
    have hc0 : CacheInvLT (cacheHdr B) cacheIhdr
        { st1 with data := st1.data.map (·.take d.hdrLen), index := st1.index.map (·.take d.ihdrLen) }
        { B := B, d := { d with dataLen := 0, entries := [], lastFull := none } } [] := by
      refine ⟨{ B := B, d := { d with dataLen := 0, entries := [], lastFull := none, lastTime := none } }, ?_,
        Or.inr ⟨d.lastTime, rfl⟩⟩
      constructor
      · show DataInv _ _ _ _ (Spec.bucketMeans B (Spec.linMean d.p) [])
        rw [bucketMeans_nil]; exact hcl
      · rfl
      · exact hB
      · exact hB32
      · simp
      · simp [pendOf]
      · simp [pendOf]
    by_cases hdone : 0 ≥ xs.length
    · have hxs : xs = [] := List.length_eq_zero_iff.mp (by omega)
      subst hxs
      simp only [List.length_nil, ge_iff_le, Nat.le_refl, if_true, Nat.sub_self]
      refine ⟨_, _, rfl, rfl, hdp, ?_, ?_, Or.inl ?_⟩
      · rw [Dir.main_setCache, Dir.main_setCache]
      · intro B' hne; rw [Dir.cache_setCache_other _ _ _ _ hne, Dir.cache_setCache_other _ _ _ _ hne]
      · rw [Dir.cache_setCache_same]; exact hc0
    · rw [if_neg hdone]
      have hpos : 0 < xs.length := by omega
      obtain ⟨start, full, hlo, hread⟩ := lineOffset_spec shdr sihdr dir.main src xs hsrc hv 0 hpos
      rw [hlo]
      simp only
      have hregion : ∀ sx sy, ((dir.setCache B sx).setCache B sy).main.region src.hdrLen = Spec.encode src.p xs := by
        intro sx sy
        rw [Dir.main_setCache, Dir.main_setCache]
        unfold Store.region
        rw [hsrc.data, hsrc.hdrLen]; simp
      have hv' : Valid ({ B := B, d := { d with dataLen := 0, entries := [], lastFull := none } } : CacheSess).d.p
          ([] ++ xs.drop 0) := by
        show Valid d.p ([] ++ xs.drop 0); rw [hdp]; simpa using hv
      obtain ⟨s', hfold, hB', hp', _, hinv'⟩ :=
        createProc_foldLT (cacheHdr B) cacheIhdr (xs.drop 0) _ _ [] 0 hc0 hv' (Or.inl rfl)
      unfold feedCache
      rw [hregion, hsrc.dataLen, hread cb createProc _, hfold]
      simp only
      refine ⟨_, _, rfl, hB', by rw [hp']; exact hdp, ?_, ?_, Or.inl ?_⟩
      · rw [Dir.main_setCache, Dir.main_setCache, Dir.main_setCache]
      · intro B' hne
        rw [Dir.cache_setCache_other _ _ _ _ hne, Dir.cache_setCache_other _ _ _ _ hne, Dir.cache_setCache_other _ _ _ _ hne]
      · rw [Dir.cache_setCache_same]; simpa using hinv'
  · -- the one straddling bucket is kept
    have hah' : (decide (k * B ≥ xs.length + B) || (decide (k * B > xs.length) && newer)) = false := by
      simpa using hah
    simp only [hah', Bool.false_eq_true, if_false]
    have hnw : newer = false := by
      cases newer with
      | false => rfl
      | true => simp [hgt] at hah'
    have hnotwhole : ¬ (k * B ≥ xs.length + B) := by
      intro h; simp [h] at hah'
    have hdone : k * B ≥ xs.length := by omega
    rw [if_pos hdone]
    -- k = xs.length / B + 1 and the last bucket is not full
    have hdm := Nat.div_add_mod xs.length B
    have hml := Nat.mod_lt xs.length hBpos
    generalize hq : xs.length / B = q at hdm
    generalize hr : xs.length % B = r at hdm hml
    have hcomm : B * q = q * B := Nat.mul_comm _ _
    have hk1 : q < k := by
      apply Nat.lt_of_mul_lt_mul_right (a := B); omega
    have hk2 : k < q + 2 := by
      apply Nat.lt_of_mul_lt_mul_right (a := B); rw [Nat.add_mul]; omega
    have hkq : k = q + 1 := by omega
    subst hkq
    have hqB : (q + 1) * B = q * B + B := by rw [Nat.add_mul, Nat.one_mul]
    have hr0 : r ≠ 0 := by omega
    have hqM : q < M.length := by omega
    have hMq : M.take q = Spec.bucketMeans B (Spec.linMean src.p) xs := by
      rw [← hM, ← bucketMeans_take B _ hBpos q (xs ++ lost) (by rw [List.length_append]; omega),
        List.take_append_of_le_length (by omega), bucketMeans_take B _ hBpos q xs (by omega)]
      apply List.take_of_length_le
      rw [bucketMeans_len B _ hBpos _ xs rfl, hq]; exact Nat.le_refl _
    have hMk : M.take (q + 1) = Spec.bucketMeans B (Spec.linMean src.p) xs ++ [M[q]] := by
      rw [List.take_add_one, hMq, List.getElem?_eq_getElem hqM]; rfl
    refine ⟨_, _, rfl, rfl, hdp, ?_, ?_, Or.inr ⟨M[q], ?_, ?_, hr0, ?_, rfl, rfl, rfl, ?_⟩⟩
    · rw [Dir.main_setCache, Dir.main_setCache]
    · intro B' hne; rw [Dir.cache_setCache_other _ _ _ _ hne, Dir.cache_setCache_other _ _ _ _ hne]
    · rw [Dir.cache_setCache_same, ← hMk]; exact hinvd'
    · rw [← hMk, ← hdp]; exact hvMk
    · show (q + 1) * B - xs.length = B - r; omega
    · intro l hl
      have hdl : d.lastTime = some M[q].ts := by
        rw [hinvd.lastTime, hMk]; simp
      have hsl : src.lastTime = some l.ts := by
        rw [hsrc.lastTime, Option.mem_def.mp hl]; rfl
      rw [hdl, hsl, hnw] at hnew
      simp only [cacheNewer, decide_eq_false_iff_not] at hnew
      omega

/-- the same through `open_or_create` -/
theorem cacheOpenOrCreate_ahead (shdr sihdr : Bytes) (dir : Dir) (src : DataSess) (xs lost : List Entry) (B : Nat)
    (cb : Option Bool)
    (hsrc : DataInv shdr sihdr dir.main src xs) (hvy : Valid src.p (xs ++ lost))
    (hB : 1 ≤ B) (hB32 : B ≤ 2^32) (hH : (cacheUserHeader B).length ≤ 65535)
    (hc : TailClean src.p (Spec.bucketMeans B (Spec.linMean src.p) (xs ++ lost)))
    (hsize : (Spec.encode src.p (Spec.bucketMeans B (Spec.linMean src.p) (xs ++ lost))).length < 2^64)
    (n : Nat)
    (hdata : (dir.cache B).data = some (cacheHdr B ++
      (Spec.encode src.p (Spec.bucketMeans B (Spec.linMean src.p) (xs ++ lost))).take n))
    (hix : IndexState src.p (Spec.bucketMeans B (Spec.linMean src.p) (xs ++ lost)) (dir.cache B).index)
    (hahead : xs.length < Spec.linesWithin src.p (Spec.bucketMeans B (Spec.linMean src.p) (xs ++ lost)) n * B) :
    ∃ dir' c, cacheOpenOrCreate dir B src cb = (dir', .ok c) ∧ c.B = B ∧ c.d.p = src.p ∧ dir'.main = dir.main ∧
      (∀ B', B' ≠ B → dir'.cache B' = dir.cache B') ∧
      (CacheInvLT (cacheHdr B) cacheIhdr (dir'.cache B) c xs ∨
       ∃ z, DataInv (cacheHdr B) cacheIhdr (dir'.cache B) c.d (Spec.bucketMeans B (Spec.linMean src.p) xs ++ [z]) ∧
         Valid src.p (Spec.bucketMeans B (Spec.linMean src.p) xs ++ [z]) ∧
         xs.length % B ≠ 0 ∧ c.skip = B - xs.length % B ∧ c.inBin = 0 ∧ c.tsSum = 0 ∧ c.vSum = 0 ∧
         ∀ l ∈ xs.getLast?, z.ts ≤ l.ts) := by
  have hfo : fileOpenExisting (dir.cache B).data
      = .ok (4 + (cacheUserHeader B).length, cacheUserHeader B) := by
    rw [hdata]; exact outerHdr_open _ _ hH
  have : cacheOpenOrCreate dir B src cb = cacheOpen dir B src cb := by
    unfold cacheOpenOrCreate; rw [hfo]
  rw [this]
  exact cacheOpen_ahead shdr sihdr dir src xs lost B cb hsrc hvy hB hB32 hH hc hsize n hdata hix hahead

end BS.Impl
