/-
  The paging loop (`read_first_n` from one past the last timestamp seen, until nothing
  is left) visits every line exactly once.
-/
import BS.Proofs.ReadRange

namespace BS.Impl
open BS

/-- a start bound after the last line is the range error `StartAfterData` -/
theorem readFirstN_after_data (hdr ihdr : Bytes) (dir : Dir) (s : Sess) (e : Entry) (es : List Entry)
    (hinv : SessInv hdr ihdr dir s (e :: es)) (n : Nat) (hn : 1 ≤ n) (r : Nat)
    (hr : ((e :: es).getLast (by simp)).ts < r) :
    apiReadFirstN dir s n (.incl r) .unb = .error (.err "InvalidRange/StartAfterData") := by
  obtain ⟨rest, hsec⟩ := sections_cons s.d.p e es
  have hent : s.d.entries = ⟨e.ts, 0⟩ :: toIEntries rest := by
    rw [hinv.data.entries, hsec]; simp [toIEntries]
  have hlt : s.d.lastTime = some (((e :: es).getLast (by simp)).ts) := by
    rw [hinv.data.lastTime]; simp [List.getLast?_eq_getLast]
  have hn0 : ¬ n = 0 := by omega
  unfold apiReadFirstN apiSeek roughPos checkedStartTime dataRange
  have h1 : max r e.ts > ((e :: es).getLast (by simp)).ts := by
    have : r ≤ max r e.ts := Nat.le_max_left _ _
    omega
  simp only [hn0, if_false, DataSess.view, hent, List.head?_cons, hlt, bind, Except.bind, pure, Except.pure, h1, if_true,
    wrapErr]
  rfl

theorem filter_from (xs : List Entry) (k r : Nat)
    (h1 : ∀ x ∈ xs.take k, x.ts < r) (h2 : ∀ x ∈ xs.drop k, r ≤ x.ts) :
    Spec.filterBounds (.incl r) .unb xs = xs.drop k := by
  unfold Spec.filterBounds
  conv => lhs; rw [← List.take_append_drop k xs]
  rw [List.filter_append]
  have ha : (xs.take k).filter (fun x => (Spec.Bound.incl r).okStart x.ts && Spec.Bound.unb.okEnd x.ts) = [] := by
    rw [List.filter_eq_nil_iff]
    intro x hx
    have := h1 x hx
    simp [Spec.Bound.okStart, Spec.Bound.okEnd]; omega
  have hb : (xs.drop k).filter (fun x => (Spec.Bound.incl r).okStart x.ts && Spec.Bound.unb.okEnd x.ts) = xs.drop k := by
    rw [List.filter_eq_self]
    intro x hx
    have := h2 x hx
    simp [Spec.Bound.okStart, Spec.Bound.okEnd]; omega
  rw [ha, hb, List.nil_append]

/-- **paging visits every line exactly once**, for every page size `n ≥ 1` -/
theorem pageLoop_all (hdr ihdr : Bytes) (dir : Dir) (s : Sess) (e : Entry) (es : List Entry)
    (hinv : SessInv hdr ihdr dir s (e :: es)) (n : Nat) (hn : 1 ≤ n) :
    ∀ (fuel k r : Nat), k ≤ (e :: es).length → (e :: es).length - k + 2 ≤ fuel →
      (k = 0 → r = e.ts) →
      (∀ x ∈ (e :: es).take k, x.ts < r) → (∀ x ∈ (e :: es).drop k, r ≤ x.ts) →
      pageLoop dir s n fuel r ((e :: es).take k) = .ok (e :: es) := by
  have hsort := hinv.valid.1
  have hbound : ∀ x ∈ e :: es, x.ts < 2^64 := fun x hx => (hinv.valid.2 x hx).1
  intro fuel
  induction fuel with
  | zero => intro k r hk hf; omega
  | succ fuel ih =>
    intro k r hk hf hk0 h1 h2
    generalize hxs : e :: es = xs at *
    rw [pageLoop]
    by_cases hend : k = xs.length
    · -- nothing left: the start bound is after the data
      subst hend
      have hk1 : xs.length ≠ 0 := by rw [← hxs]; simp
      have hlast : (xs.getLast (by rw [← hxs]; simp)).ts < r :=
        h1 _ (by rw [List.take_length]; exact List.getLast_mem _)
      have hne : xs ≠ [] := by rw [← hxs]; simp
      have := readFirstN_after_data hdr ihdr dir s e es (by rw [hxs]; exact hinv) n hn r (by
        have : (e :: es).getLast (by simp) = xs.getLast hne := by subst hxs; rfl
        rw [this]; exact hlast)
      rw [this]
      simp
    · have hklt : k < xs.length := by omega
      have hdrop_ne : xs.drop k ≠ [] := by
        intro h
        have := congrArg List.length h
        simp at this; omega
      have hfilter := filter_from xs k r h1 h2
      have hread := readFirstN_range hdr ihdr dir s e es (by rw [hxs]; exact hinv) n hn (.incl r) .unb
      rw [hxs] at hread
      simp only [toSpecBound] at hread
      rw [hfilter] at hread
      rcases hread with hread | ⟨hnil, _⟩
      · rw [hread]
        -- the page is non-empty
        obtain ⟨y, ys, hys⟩ : ∃ y ys, (xs.drop k).take n = y :: ys := by
          cases hd : xs.drop k with
          | nil => exact absurd hd hdrop_ne
          | cons y rest =>
            obtain ⟨n', rfl⟩ : ∃ n', n = n' + 1 := ⟨n - 1, by omega⟩
            exact ⟨y, rest.take n', by simp⟩
        rw [hys]
        simp only
        rw [← hys]
        -- acc' = xs.take k'
        have hacc : xs.take k ++ (xs.drop k).take n = xs.take (k + n) := by
          rw [List.take_add]
        rw [hacc]
        have hk'pos : 0 < min (k + n) xs.length := by omega
        have htk : xs.take (k + n) = xs.take (min (k + n) xs.length) := by
          rw [List.take_eq_take_iff]; omega
        rw [htk]
        have hk'le : min (k + n) xs.length ≤ xs.length := by omega
        have hk'gt : k < min (k + n) xs.length := by omega
        generalize min (k + n) xs.length = k' at *
        have hne' : xs.take k' ≠ [] := by
          have hlen : (xs.take k').length = k' := by rw [List.length_take]; omega
          intro h; rw [h] at hlen; simp at hlen; omega
        rw [List.getLast?_eq_some_getLast hne']
        simp only
        have hlmem : (xs.take k').getLast hne' ∈ xs.take k' := List.getLast_mem _
        have hsplit : Sorted (xs.take k' ++ xs.drop k') := by rw [List.take_append_drop]; exact hsort
        have htk_sorted : Sorted (xs.take k') := (List.pairwise_append.mp hsplit).1
        have hle_last : ∀ x ∈ xs.take k', x.ts ≤ ((xs.take k').getLast hne').ts := by
          intro x hx
          obtain ⟨init, hinit⟩ : ∃ init, xs.take k' = init ++ [(xs.take k').getLast hne'] :=
            ⟨(xs.take k').dropLast, (List.dropLast_concat_getLast hne').symm⟩
          rw [hinit] at hx htk_sorted
          simp only [List.mem_append, List.mem_singleton] at hx
          rcases hx with hx | rfl
          · exact Nat.le_of_lt ((List.pairwise_append.mp htk_sorted).2.2 x hx _ (by simp))
          · exact Nat.le_refl _
        have hgt_last : ∀ y ∈ xs.drop k', ((xs.take k').getLast hne').ts < y.ts :=
          fun y hy => (List.pairwise_append.mp hsplit).2.2 _ hlmem y hy
        by_cases hmax : ((xs.take k').getLast hne').ts + 1 < 2^64
        · simp only [hmax, if_true]
          apply ih k' _ hk'le (by omega) (by omega)
          · intro x hx; have := hle_last x hx; omega
          · intro y hy; have := hgt_last y hy; omega
        · simp only [hmax, if_false]
          -- the last line seen carries the largest timestamp there is: nothing follows
          have hdnil : xs.drop k' = [] := by
            cases hd : xs.drop k' with
            | nil => rfl
            | cons y rest =>
              have hy : y ∈ xs.drop k' := by rw [hd]; simp
              have h3 := hgt_last y hy
              have h4 := hbound y (List.mem_of_mem_drop hy)
              omega
          have : xs.take k' = xs := by
            have := List.take_append_drop k' xs
            rw [hdnil, List.append_nil] at this; exact this
          rw [this]
      · exact absurd hnil hdrop_ne

end BS.Impl
