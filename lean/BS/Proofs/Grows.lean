/-
  C16 at the level of a session: `push_line` only appends, in every file of the series and
  of every cache level.
-/
import BS.Props.C16
import BS.Proofs.CacheCreate

namespace BS.Impl
open BS BS.Props.C16

/-- every file of the directory only grew at its end -/
def StoreGrows (a b : Store) : Prop := Grows a.data b.data ∧ Grows a.index b.index ∧ b.part = a.part

def DirGrows (d d' : Dir) : Prop := StoreGrows d.main d'.main ∧ ∀ B, StoreGrows (d.cache B) (d'.cache B)

theorem storeGrows_refl (a : Store) : StoreGrows a a := ⟨grows_refl _, grows_refl _, rfl⟩
theorem storeGrows_trans {a b c : Store} (h1 : StoreGrows a b) (h2 : StoreGrows b c) : StoreGrows a c :=
  ⟨grows_trans h1.1 h2.1, grows_trans h1.2.1 h2.2.1, by rw [h2.2.2, h1.2.2]⟩
theorem dirGrows_refl (d : Dir) : DirGrows d d := ⟨storeGrows_refl _, fun _ => storeGrows_refl _⟩
theorem dirGrows_trans {a b c : Dir} (h1 : DirGrows a b) (h2 : DirGrows b c) : DirGrows a c :=
  ⟨storeGrows_trans h1.1 h2.1, fun B => storeGrows_trans (h1.2 B) (h2.2 B)⟩

theorem dirGrows_setCache (d : Dir) (B : Nat) (st' : Store) (h : StoreGrows (d.cache B) st') :
    DirGrows d (d.setCache B st') := by
  refine ⟨by rw [Dir.main_setCache]; exact storeGrows_refl _, fun B' => ?_⟩
  by_cases hb : B' = B
  · subst hb; rw [Dir.cache_setCache_same]; exact h
  · rw [Dir.cache_setCache_other _ _ _ _ hb]; exact storeGrows_refl _

theorem pushGo_grows (ts : Nat) (pl : Bytes) : ∀ (cs done : List CacheSess) (dir dir' : Dir) (r : R (List CacheSess)),
    pushLine.go ts pl dir done cs = (dir', r) → DirGrows dir dir' := by
  intro cs
  induction cs with
  | nil =>
    intro done dir dir' r h
    simp only [pushLine.go, Prod.mk.injEq] at h
    rw [← h.1]; exact dirGrows_refl _
  | cons c cs ih =>
    intro done dir dir' r h
    rw [pushLine.go] at h
    cases hp : cacheProcess (dir.cache c.B) c ts pl with
    | error f =>
      simp only [hp, Prod.mk.injEq] at h
      rw [← h.1]; exact dirGrows_refl _
    | ok v =>
      obtain ⟨st', c'⟩ := v
      simp only [hp] at h
      have hg := cacheProcess_appends _ _ _ _ _ _ hp
      exact dirGrows_trans (dirGrows_setCache dir c.B st' hg) (ih _ _ _ _ h)

/-- **`push_line` only appends**: whatever it returns (accepted, refused, or failing half
way through the cache levels), every file of the series and of every cache has its previous
content as a prefix; no file is created, deleted, truncated or rewritten. -/
theorem pushLine_grows (dir : Dir) (s : Sess) (ts : Nat) (pl : Bytes) (dir' : Dir) (r : R Sess)
    (h : pushLine dir s ts pl = (dir', r)) : DirGrows dir dir' := by
  unfold pushLine at h
  split at h
  · simp only [Prod.mk.injEq] at h; rw [← h.1]; exact dirGrows_refl _
  · split at h
    · simp only [Prod.mk.injEq] at h; rw [← h.1]; exact dirGrows_refl _
    · split at h
      · simp only [Prod.mk.injEq] at h; rw [← h.1]; exact dirGrows_refl _
      · rename_i main' d' hpd
        have hmain := pushData_appends _ _ _ _ _ _ hpd
        have h1 : DirGrows dir { dir with main := main' } := ⟨hmain, fun B => storeGrows_refl _⟩
        cases hgo : pushLine.go ts pl { dir with main := main' } [] s.caches with
        | mk dir2 r2 =>
          have h2 := pushGo_grows ts pl s.caches [] _ _ _ hgo
          simp only [hgo] at h
          cases r2 with
          | error f => simp only [Prod.mk.injEq] at h; rw [← h.1]; exact dirGrows_trans h1 h2
          | ok cs => simp only [Prod.mk.injEq] at h; rw [← h.1]; exact dirGrows_trans h1 h2

end BS.Impl
