/-
  Helper lemmas about the byte-level codecs and `chunks_exact`.
-/
import BS.Bytes

namespace BS

theorem unN_leN (k n : Nat) (h : n < 256 ^ k) : unN (leN k n) = n := by
  induction k generalizing n with
  | zero => simp at h; simp [leN, unN, h]
  | succ k ih =>
    simp only [leN, unN]
    rw [ih (n / 256) (by rw [Nat.pow_succ] at h; omega)]
    simp [UInt8.toNat_ofNat']
    omega

@[simp] theorem leN_length (k n : Nat) : (leN k n).length = k := by
  induction k generalizing n with
  | zero => simp [leN]
  | succ k ih => simp [leN, ih]

theorem unN_lt (b : Bytes) : unN b < 256 ^ b.length := by
  induction b with
  | nil => simp [unN]
  | cons x xs ih =>
    simp only [unN, List.length_cons, Nat.pow_succ]
    have := x.toNat_lt
    omega

theorem le8_shape (ts : Nat) : ∃ a b c d e f g h, le8 ts = [a,b,c,d,e,f,g,h] := by
  simp [le8, leN]

theorem le2_shape (n : Nat) : ∃ a b, le2 n = [a, b] := by
  simp [le2, leN]

theorem unN_le8 (ts : Nat) (h : ts < 2^64) : unN (le8 ts) = ts :=
  unN_leN 8 ts (by simpa using h)

theorem unN_le2 (n : Nat) (h : n < 65536) : unN (le2 n) = n :=
  unN_leN 2 n (by simpa using h)

/-- a line whose first two bytes encode a delta ≤ 65534 is not a marker line -/
theorem isMarker_le2_append (d : Nat) (rest : Bytes) (h : d ≤ 65534) : isMarker (le2 d ++ rest) = false := by
  simp only [le2, leN, List.cons_append, List.nil_append, isMarker]
  cases h1 : (UInt8.ofNat (d % 256) == 0xFF) <;> cases h2 : (UInt8.ofNat (d / 256 % 256) == 0xFF) <;> simp
  have h1' := congrArg UInt8.toNat (eq_of_beq h1)
  have h2' := congrArg UInt8.toNat (eq_of_beq h2)
  simp [UInt8.toNat_ofNat'] at h1' h2'
  omega

/-! ### toLines -/

theorem toLines_nil (ls : Nat) : toLines ls [] = [] := by
  rw [toLines]; simp

theorem toLines_cons_line (ls : Nat) (l rest : Bytes) (hl : l.length = ls) (hpos : 0 < ls) :
    toLines ls (l ++ rest) = l :: toLines ls rest := by
  rw [toLines]
  have : ¬ (ls = 0 ∨ (l ++ rest).length < ls) := by simp; omega
  simp only [this, dite_false]
  rw [List.take_append_of_le_length (by omega), List.drop_append_of_le_length (by omega)]
  simp [← hl]

/-- splitting the concatenation of full lines gives the lines back -/
theorem toLines_flatten (ls : Nat) (L : List Bytes) (hpos : 0 < ls) (h : ∀ l ∈ L, l.length = ls) :
    toLines ls L.flatten = L := by
  induction L with
  | nil => simp [toLines_nil]
  | cons l L ih =>
    simp only [List.flatten_cons]
    rw [toLines_cons_line ls l _ (h l (by simp)) hpos, ih (fun x hx => h x (by simp [hx]))]

theorem toLines_flatten_append (ls : Nat) (L : List Bytes) (rest : Bytes) (hpos : 0 < ls) (h : ∀ l ∈ L, l.length = ls) :
    toLines ls (L.flatten ++ rest) = L ++ toLines ls rest := by
  induction L with
  | nil => simp
  | cons l L ih =>
    simp only [List.flatten_cons, List.append_assoc, List.cons_append]
    rw [toLines_cons_line ls l _ (h l (by simp)) hpos, ih (fun x hx => h x (by simp [hx]))]

theorem toLines_short (ls : Nat) (b : Bytes) (h : b.length < ls) : toLines ls b = [] := by
  rw [toLines]; simp [h]

theorem toLines_length_mem (ls : Nat) (b : Bytes) : ∀ l ∈ toLines ls b, l.length = ls := by
  fun_induction toLines ls b
  next => simp
  next b h ih =>
    intro l hl
    simp only [List.mem_cons] at hl
    rcases hl with rfl | hl
    · simp; omega
    · exact ih l hl

end BS
