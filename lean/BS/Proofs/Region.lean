/-
  Byte level: `read_with_processor` over the data region the canonical writer
  produced is the processor folded over the appended entries.
-/
import BS.Proofs.Procs

namespace BS.Impl

variable {σ : Type}

theorem nextMultiple_ge (a b : Nat) (ha : 0 < a) (hb : 0 < b) : b ≤ nextMultiple a b := by
  unfold nextMultiple
  have h1 : 1 ≤ (a + b - 1) / b := by
    rw [Nat.le_div_iff_mul_le hb]; omega
  calc b = 1 * b := by simp
    _ ≤ (a + b - 1) / b * b := Nat.mul_le_mul_right b h1

theorem chunkLines_pos (p : Nat) : 0 < chunkLines p := by
  unfold chunkLines
  have hb : 0 < lineSize p := by unfold lineSize; omega
  have := nextMultiple_ge Gen.chunkRead (lineSize p) (by simp [Gen.chunkRead]) hb
  exact Nat.div_pos this hb

theorem lineSize_pos (p : Nat) : 0 < lineSize p := by unfold lineSize; omega

/-- T1∘T3 at line level: the buffered reader over the canonical lines = the fold -/
theorem readChunked_canonical (p k : Nat) (hk : 0 < k) (cb : Option Bool) (proc : σ → Nat → Bytes → PRes σ)
    (ps : σ) (f : Nat) (xs : List Entry) (hs : Sorted xs) (hb : ∀ x ∈ xs, x.ts < 2^64) (hf : ∀ x ∈ xs, f ≤ x.ts) :
    (readChunked p k cb proc ⟨f, ps, false⟩ [] (encLines p (some f) xs)).map (·.ps) = foldProc proc ps xs := by
  rw [readChunked_eq p k hk]
  have h := scan_encLines p cb proc xs (some f) ⟨f, ps, false⟩ hs hb rfl
    (by intro f' hf'; cases hf'; exact ⟨rfl, hf⟩)
  split
  · rename_i hnil
    cases xs with
    | nil => simp [foldProc, Except.map]
    | cons e es =>
      exfalso
      simp only [encLines] at hnil
      split at hnil <;> simp at hnil
  · simp only [List.nil_append]
    cases hfold : foldProc proc ps xs with
    | ok ps' =>
      simp only [hfold] at h
      obtain ⟨f', hf'⟩ := h
      simp [hf', Except.map]
    | error e =>
      simp only [hfold] at h
      simp [h, Except.map]

/-- the data region of a canonical file, split after its first section -/
theorem encode_cons (p : Nat) (e : Entry) (es : List Entry) :
    Spec.encode p (e :: es) = metaWrite p e.ts ++ (encLines p (some e.ts) (e :: es)).flatten := by
  unfold Spec.encode
  rw [← encLines_flatten]
  simp [encLines, metaWrite]

/-- `read_with_processor` from just after the first section to the end of a canonical
data region, with that section's timestamp, is the processor folded over all entries -/
theorem readRegion_canonical (p : Nat) (cb : Option Bool) (proc : σ → Nat → Bytes → PRes σ) (ps : σ)
    (e : Entry) (es : List Entry) (hv : Valid p (e :: es)) :
    readRegion p cb proc ps (Spec.encode p (e :: es)) (metaSize p) (Spec.encode p (e :: es)).length e.ts
      = foldProc proc ps (e :: es) := by
  obtain ⟨hsort, hall⟩ := hv
  have hb : ∀ x ∈ e :: es, x.ts < 2^64 := fun x hx => (hall x hx).1
  have hpl : ∀ x ∈ e :: es, x.pl.length = p := fun x hx => (hall x hx).2
  have hf : ∀ x ∈ e :: es, e.ts ≤ x.ts := by
    intro x hx
    simp only [List.mem_cons] at hx
    rcases hx with rfl | hx
    · exact Nat.le_refl _
    · exact Nat.le_of_lt ((List.pairwise_cons.mp hsort).1 x hx)
  unfold readRegion
  have hlen : metaSize p ≤ (Spec.encode p (e :: es)).length := by
    rw [encode_cons, List.length_append, metaWrite_length]; omega
  simp only [show ¬ ((Spec.encode p (e :: es)).length < metaSize p) by omega, if_false]
  have hregion : ((Spec.encode p (e :: es)).drop (metaSize p)).take ((Spec.encode p (e :: es)).length - metaSize p)
      = (encLines p (some e.ts) (e :: es)).flatten := by
    rw [encode_cons, List.drop_append_of_le_length (by rw [metaWrite_length]; omega)]
    rw [← metaWrite_length p e.ts, List.drop_length, List.nil_append]
    apply List.take_of_length_le
    simp [List.length_append, metaWrite_length]
  rw [hregion, toLines_flatten _ _ (lineSize_pos p) (encLines_length p _ hpl _)]
  have h := readChunked_canonical p (chunkLines p) (chunkLines_pos p) cb proc ps e.ts (e :: es) hsort hb hf
  cases hr : readChunked p (chunkLines p) cb proc ⟨e.ts, ps, false⟩ [] (encLines p (some e.ts) (e :: es)) with
  | ok st => simp [hr, Except.map] at h; simp [h]
  | error err => simp [hr, Except.map] at h; simp [h]

end BS.Impl
