/-
  The five section layouts: what `meta::write` emits is read back by `meta::read`,
  consists of full lines, starts with two marker lines, and is byte-for-byte the
  section of the documented format (`Spec.encSection`).
-/
import BS.Impl.Layout
import BS.Spec
import BS.Proofs.Bytes

namespace BS.Impl

theorem marker_eq : marker = [0xFF, 0xFF] := by
  simp [marker, Gen.marker0, Gen.marker1]

theorem lpm_eq (p : Nat) : lpm p = 2 + rawCount p := by
  match p with
  | 0 => simp [lpm, rawCount, Gen.lpm0]
  | 1 => simp [lpm, rawCount, Gen.lpm1]
  | 2 => simp [lpm, rawCount, Gen.lpm2]
  | 3 => simp [lpm, rawCount, Gen.lpm3]
  | p+4 => simp [lpm, rawCount, Gen.lpm4]

theorem maxSmallTs_eq : maxSmallTs = 65534 := by simp [maxSmallTs, Gen.maxSmallTs]

/-- what `meta::write` emits is read back by `meta::read` (match form) -/
theorem section_roundtrip' (p ts : Nat) (h : ts < 2^64) :
    match metaWriteLines p ts with
    | l1 :: l2 :: raws => raws.length = rawCount p ∧ isMarker l1 = true ∧ isMarker l2 = true
                          ∧ metaTs p l1 l2 raws = ts
    | _ => False := by
  have hr := unN_le8 ts h
  obtain ⟨a,b,c,d,e,f,g,h', ht⟩ := le8_shape ts
  rw [ht] at hr
  match p with
  | 0 => simp [metaWriteLines, ht, rawCount, isMarker, metaTs, marker_eq, hr]
  | 1 => simp [metaWriteLines, ht, rawCount, isMarker, metaTs, marker_eq, hr]
  | 2 => simp [metaWriteLines, ht, rawCount, isMarker, metaTs, marker_eq, hr]
  | 3 => simp [metaWriteLines, ht, rawCount, isMarker, metaTs, marker_eq, zeros, hr]
  | p+4 => simp [metaWriteLines, ht, rawCount, isMarker, metaTs, marker_eq, zeros, hr]

/-- what `meta::write` emits is read back by `meta::read` -/
theorem section_roundtrip (p ts : Nat) (h : ts < 2^64) :
    ∃ l1 l2 raws, metaWriteLines p ts = l1 :: l2 :: raws ∧ raws.length = rawCount p ∧
      isMarker l1 = true ∧ isMarker l2 = true ∧ metaTs p l1 l2 raws = ts := by
  have hs := section_roundtrip' p ts h
  generalize metaWriteLines p ts = E at hs
  match E, hs with
  | l1 :: l2 :: raws, ⟨h1, h2, h3, h4⟩ => exact ⟨l1, l2, raws, rfl, h1, h2, h3, h4⟩

/-- every line of a section is a full line -/
theorem metaWriteLines_length (p ts : Nat) : ∀ l ∈ metaWriteLines p ts, l.length = lineSize p := by
  obtain ⟨a,b,c,d,e,f,g,h', ht⟩ := le8_shape ts
  match p with
  | 0 => simp [metaWriteLines, ht, marker_eq, lineSize]
  | 1 => simp [metaWriteLines, ht, marker_eq, lineSize]
  | 2 => simp [metaWriteLines, ht, marker_eq, lineSize]
  | 3 => simp [metaWriteLines, ht, marker_eq, lineSize, zeros]
  | p+4 => simp [metaWriteLines, ht, marker_eq, lineSize, zeros]

theorem metaWriteLines_count (p ts : Nat) : (metaWriteLines p ts).length = lpm p := by
  match p with
  | 0 => simp [metaWriteLines, lpm, Gen.lpm0]
  | 1 => simp [metaWriteLines, lpm, Gen.lpm1]
  | 2 => simp [metaWriteLines, lpm, Gen.lpm2]
  | 3 => simp [metaWriteLines, lpm, Gen.lpm3]
  | p+4 => simp [metaWriteLines, lpm, Gen.lpm4]

theorem metaWrite_length (p ts : Nat) : (metaWrite p ts).length = metaSize p := by
  unfold metaWrite metaSize
  rw [List.length_flatten, ← metaWriteLines_count p ts]
  have h := metaWriteLines_length p ts
  generalize metaWriteLines p ts = L at h
  induction L with
  | nil => simp
  | cons x xs ih =>
    simp only [List.map_cons, List.sum_cons, List.length_cons]
    rw [ih (fun l hl => h l (by simp [hl])), h x (by simp)]
    rw [Nat.add_mul]; omega

/-! ### agreement with the documented format -/

theorem spec_rawLines (p : Nat) : Spec.rawLines p = rawCount p := by
  match p with
  | 0 => simp [Spec.rawLines, Spec.spill, Spec.inMarker, Spec.lineSize, rawCount]
  | 1 => simp [Spec.rawLines, Spec.spill, Spec.inMarker, Spec.lineSize, rawCount]
  | 2 => simp [Spec.rawLines, Spec.spill, Spec.inMarker, Spec.lineSize, rawCount]
  | 3 => simp [Spec.rawLines, Spec.spill, Spec.inMarker, Spec.lineSize, rawCount]
  | p+4 =>
    have : min (p + 4) 4 = 4 := by omega
    simp [Spec.rawLines, Spec.spill, Spec.inMarker, Spec.lineSize, rawCount, this]

theorem spec_secLines (p : Nat) : Spec.secLines p = lpm p := by
  rw [Spec.secLines, spec_rawLines, lpm_eq]

theorem spec_secSize (p : Nat) : Spec.secSize p = metaSize p := by
  rw [Spec.secSize, spec_secLines]; rfl

/-- `meta::write` produces exactly the section of the documented format -/
theorem spec_encSection (p ts : Nat) : Spec.encSection p ts = metaWrite p ts := by
  obtain ⟨a,b,c,d,e,f,g,h', ht⟩ := le8_shape ts
  match p with
  | 0 => simp [Spec.encSection, metaWrite, metaWriteLines, ht, marker_eq, Spec.inMarker, Spec.rawLines, Spec.spill, Spec.lineSize, zeros]
  | 1 => simp [Spec.encSection, metaWrite, metaWriteLines, ht, marker_eq, Spec.inMarker, Spec.rawLines, Spec.spill, Spec.lineSize, zeros]
  | 2 => simp [Spec.encSection, metaWrite, metaWriteLines, ht, marker_eq, Spec.inMarker, Spec.rawLines, Spec.spill, Spec.lineSize, zeros]
  | 3 => simp [Spec.encSection, metaWrite, metaWriteLines, ht, marker_eq, Spec.inMarker, Spec.rawLines, Spec.spill, Spec.lineSize, zeros]
  | p+4 =>
    have h4 : min (p + 4) 4 = 4 := by omega
    have hdiv : (p + 5) / (p + 4 + 2) = 0 := Nat.div_eq_of_lt (by omega)
    simp [Spec.encSection, hdiv, metaWrite, metaWriteLines, ht, marker_eq, Spec.inMarker, Spec.rawLines, Spec.spill, Spec.lineSize, zeros, h4]

end BS.Impl
