/-
  End to end on the model of the API: create → any appends → (crash at any byte | close)
  → reopen.  Composition of the history theorem, the header round trip and the open theorems.
-/
import BS.Proofs.ApiOpen

namespace BS.Impl
open BS

theorem sessInv_of_C (hdr ihdr : Bytes) (dir : Dir) (s : Sess) (xs : List Entry)
    (h : SessInvC hdr ihdr dir s xs) (hc : s.caches = []) : SessInv hdr ihdr dir s xs :=
  ⟨h.data, h.range, hc, h.valid⟩

theorem acceptAll_valid (p : Nat) : ∀ (atts : List (Nat × Bytes)) (xs : List Entry), Valid p xs →
    (∀ a ∈ atts, a.1 < 2^64) → Valid p (acceptAll p xs atts) := by
  intro atts
  induction atts with
  | nil => intro xs h _; exact h
  | cons a atts ih =>
    intro xs hv hts
    obtain ⟨ts, pl⟩ := a
    simp only [acceptAll]
    split
    · rename_i hacc
      apply ih _ _ (fun a ha => hts a (by simp [ha]))
      exact valid_snoc p xs ⟨ts, pl⟩ hv ((newer_iff xs ts).mp hacc.2) (hts (ts, pl) (by simp)) hacc.1
    · exact ih _ hv (fun a ha => hts a (by simp [ha]))

/-- **create, append anything, crash anywhere or close, reopen** (series without caches):
`builder.open` — payload size demanded or retrieved, header demanded or any — succeeds and
re-establishes the session invariant for exactly the lines that were completely written;
for an intact file (`n` ≥ its length) that is the whole accepted history. -/
theorem reopen_after_any_history (p : Nat) (hp : p ≤ u64Max) (hdr : Option Bytes)
    (hH : (toText p ++ hdr.getD []).length ≤ 65535) (atts : List (Nat × Bytes)) (hts : ∀ a ∈ atts, a.1 < 2^64)
    (hc : TailClean p (acceptAll p [] atts)) (hsize : (Spec.encode p (acceptAll p [] atts)).length < 2^64)
    (n : Nat) (ix : Option Bytes) (hix : IndexState p (acceptAll p [] atts) ix)
    (cb : Option Bool) (pOpt : Option Nat) (hpo : pOpt = none ∨ pOpt = some p)
    (hOpt : Option Bytes) (hho : hOpt = none ∨ hOpt = some (hdr.getD [])) :
    ∃ dir0 s0 dir1 s1, apiNew {} p hdr [] = (dir0, .ok (s0, hdr.getD [])) ∧
      pushAll dir0 s0 atts = some (dir1, s1) ∧
      -- the files as the crash (or the close) left them: data cut after `n` bytes of its region
      ∀ data', data' = (dir1.main.data.map fun b => b.take ((seriesHdr p (hdr.getD [])).length + n)) →
      ∃ dir2 s2, apiOpen { dir1 with main := { dir1.main with data := data', index := ix } } pOpt hOpt [] cb
          = (dir2, .ok (s2, hdr.getD [])) ∧ s2.d.p = p ∧
        SessInv (seriesHdr p (hdr.getD [])) ihdr dir2 s2
          ((acceptAll p [] atts).take (Spec.linesWithin p (acceptAll p [] atts) n)) := by
  obtain ⟨dir0, s0, hnew, hp0, _, hBs0, hinv0⟩ := apiNew_inv p hdr [] hH ⟨by simp, by simp⟩
  obtain ⟨dir1, s1, hall, hp1, _, hBs1, hinv1⟩ := pushAll_inv _ _ atts dir0 s0 [] hinv0 hts
  rw [hp0] at hinv1
  refine ⟨dir0, s0, dir1, s1, hnew, hall, ?_⟩
  intro data' hd'
  have hdata1 := hinv1.data.data
  have hps : s1.d.p = p := by rw [hp1, hp0]
  rw [hps] at hdata1
  have hdata : ({ dir1 with main := { dir1.main with data := data', index := ix } } : Dir).main.data =
      some (seriesHdr p (hdr.getD []) ++ (Spec.encode p (acceptAll p [] atts)).take n) := by
    simp only [hd', hdata1, Option.map_some]
    rw [List.take_append, List.take_of_length_le (by omega)]
    simp
  have hv := acceptAll_valid p atts [] (by simp [Valid]) hts
  obtain ⟨dir2, s2, hopen, hp2, _, _, hinv2⟩ :=
    apiOpen_recovers p hp (hdr.getD []) hH (acceptAll p [] atts) hv hc hsize n
      { dir1 with main := { dir1.main with data := data', index := ix } } cb hdata hix pOpt hpo hOpt hho
  exact ⟨dir2, s2, hopen, hp2, hinv2⟩

end BS.Impl
