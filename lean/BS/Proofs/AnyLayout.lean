/-
  C07, reverse direction: ANY v1-conformant layout of a history — full-timestamp sections
  wherever the writer liked, not only where the canonical writer puts them — is read back
  to exactly that history, by the library's reader and by the independent reference decoder.
-/
import BS.Proofs.SpecDecode
import BS.Proofs.Extract

namespace BS.Spec

/-- every documented way of laying out a history: a section must precede the first line and
every line whose distance to the last full timestamp does not fit 16 bits; it MAY precede
any other line (`true` flag).  The canonical writer is the all-`false` case. -/
def encFromW (p : Nat) : Option Nat → List (Bool × Entry) → Bytes
  | _, [] => []
  | none, (_, e) :: es => encSection p e.ts ++ encLine 0 e.pl ++ encFromW p (some e.ts) es
  | some f, (b, e) :: es =>
    if b = false ∧ e.ts - f ≤ maxDelta then encLine (e.ts - f) e.pl ++ encFromW p (some f) es
    else encSection p e.ts ++ encLine 0 e.pl ++ encFromW p (some e.ts) es

def encodeW (p : Nat) (fx : List (Bool × Entry)) : Bytes := encFromW p none fx

/-- (full timestamp, byte offset) of every section of that layout -/
def sectionsFromW (p : Nat) : Option Nat → Nat → List (Bool × Entry) → List (Nat × Nat)
  | _, _, [] => []
  | none, off, (_, e) :: es => (e.ts, off) :: sectionsFromW p (some e.ts) (off + secSize p + lineSize p) es
  | some f, off, (b, e) :: es =>
    if b = false ∧ e.ts - f ≤ maxDelta then sectionsFromW p (some f) (off + lineSize p) es
    else (e.ts, off) :: sectionsFromW p (some e.ts) (off + secSize p + lineSize p) es

def sectionsW (p : Nat) (fx : List (Bool × Entry)) : List (Nat × Nat) := sectionsFromW p none 0 fx

end BS.Spec

namespace BS.Impl
open BS

variable {σ : Type}

theorem encFromW_canonical (p : Nat) (xs : List Entry) : ∀ full,
    Spec.encFromW p full (xs.map fun e => (false, e)) = Spec.encFrom p full xs := by
  induction xs with
  | nil => intro full; cases full <;> simp [Spec.encFromW, Spec.encFrom]
  | cons e es ih =>
    intro full
    cases full with
    | none => simp [Spec.encFromW, Spec.encFrom, ih]
    | some f =>
      simp only [List.map_cons, Spec.encFromW, Spec.encFrom, true_and, ih]

/-- the same at line granularity -/
def encLinesW (p : Nat) : Option Nat → List (Bool × Entry) → List Bytes
  | _, [] => []
  | none, (_, e) :: es => metaWriteLines p e.ts ++ dataLine 0 e.pl :: encLinesW p (some e.ts) es
  | some f, (b, e) :: es =>
    if b = false ∧ e.ts - f ≤ 65534 then dataLine (e.ts - f) e.pl :: encLinesW p (some f) es
    else metaWriteLines p e.ts ++ dataLine 0 e.pl :: encLinesW p (some e.ts) es

theorem encLinesW_flatten (p : Nat) (fx : List (Bool × Entry)) :
    ∀ full, (encLinesW p full fx).flatten = Spec.encFromW p full fx := by
  induction fx with
  | nil => intro full; cases full <;> simp [encLinesW, Spec.encFromW]
  | cons be es ih =>
    obtain ⟨b, e⟩ := be
    intro full
    match full with
    | none =>
      simp [encLinesW, Spec.encFromW, ih, spec_encSection, metaWrite, dataLine, Spec.encLine]
    | some f =>
      by_cases hd : b = false ∧ e.ts - f ≤ 65534
      · have hd' : b = false ∧ e.ts - f ≤ Spec.maxDelta := hd
        simp only [encLinesW, Spec.encFromW, if_pos hd, if_pos hd', List.flatten_cons, ih]
        simp [dataLine, Spec.encLine]
      · have hd' : ¬ (b = false ∧ e.ts - f ≤ Spec.maxDelta) := hd
        simp only [encLinesW, Spec.encFromW, if_neg hd, if_neg hd', List.flatten_append, List.flatten_cons, ih]
        simp [spec_encSection, metaWrite, dataLine, Spec.encLine]

theorem encLinesW_length (p : Nat) (fx : List (Bool × Entry)) (hp : ∀ x ∈ fx, x.2.pl.length = p) :
    ∀ full, ∀ l ∈ encLinesW p full fx, l.length = lineSize p := by
  induction fx with
  | nil => intro full l hl; simp [encLinesW] at hl
  | cons be es ih =>
    obtain ⟨b, e⟩ := be
    have hpe : e.pl.length = p := hp (b, e) (by simp)
    have hpes : ∀ x ∈ es, x.2.pl.length = p := fun x hx => hp x (by simp [hx])
    have hdl : ∀ d, (dataLine d e.pl).length = lineSize p := by
      intro d; simp [dataLine, le2, lineSize, hpe]; omega
    intro full l hl
    match full with
    | none =>
      simp only [encLinesW, List.mem_append, List.mem_cons] at hl
      rcases hl with hl | rfl | hl
      · exact metaWriteLines_length p e.ts l hl
      · exact hdl 0
      · exact ih hpes _ l hl
    | some f =>
      simp only [encLinesW] at hl
      split at hl
      · simp only [List.mem_cons] at hl
        rcases hl with rfl | hl
        · exact hdl _
        · exact ih hpes _ l hl
      · simp only [List.mem_append, List.mem_cons] at hl
        rcases hl with hl | rfl | hl
        · exact metaWriteLines_length p e.ts l hl
        · exact hdl 0
        · exact ih hpes _ l hl

/-- scanning any conformant layout = the processor folded over the entries -/
theorem scan_encLinesW (p : Nat) (cb : Option Bool) (proc : σ → Nat → Bytes → PRes σ) (fx : List (Bool × Entry)) :
    ∀ (full : Option Nat) (st : RSt σ),
      Sorted (fx.map (·.2)) → (∀ x ∈ fx, x.2.ts < 2^64) → st.skip = false →
      (∀ f, full = some f → st.full = f ∧ ∀ x ∈ fx, f ≤ x.2.ts) →
      match foldProc proc st.ps (fx.map (·.2)) with
      | .ok ps' => ∃ f', scan p cb proc st (encLinesW p full fx) = .ok (⟨f', ps', false⟩, 0)
      | .error e => scan p cb proc st (encLinesW p full fx) = .error e := by
  induction fx with
  | nil =>
    intro full st _ _ hs _
    simp only [List.map_nil, foldProc, encLinesW, scan_nil]
    exact ⟨st.full, by cases st; simp_all⟩
  | cons be es ih =>
    obtain ⟨b, e⟩ := be
    intro full st hsort hb hs hf
    simp only [List.map_cons] at hsort ⊢
    have hes : Sorted (es.map (·.2)) := (List.pairwise_cons.mp hsort).2
    have hlt : ∀ x ∈ es, e.ts < x.2.ts := fun x hx =>
      (List.pairwise_cons.mp hsort).1 x.2 (List.mem_map.mpr ⟨x, hx, rfl⟩)
    have hbe : e.ts < 2^64 := hb (b, e) (by simp)
    have hbes : ∀ x ∈ es, x.2.ts < 2^64 := fun x hx => hb x (by simp [hx])
    have newsec :
        match foldProc proc st.ps (e :: es.map (·.2)) with
        | .ok ps' => ∃ f', scan p cb proc st (metaWriteLines p e.ts ++ dataLine 0 e.pl :: encLinesW p (some e.ts) es) = .ok (⟨f', ps', false⟩, 0)
        | .error err => scan p cb proc st (metaWriteLines p e.ts ++ dataLine 0 e.pl :: encLinesW p (some e.ts) es) = .error err := by
      rw [scan_section p cb proc e.ts hbe,
          scan_dataLine p cb proc _ 0 e.pl _ (by omega) rfl (by simpa using hbe)]
      simp only [foldProc, Nat.add_zero]
      cases hp : proc st.ps e.ts e.pl with
      | cont s =>
        simp only
        have := ih (some e.ts) { full := e.ts, ps := s, skip := false } hes hbes rfl
          (by intro f hf'; cases hf'; exact ⟨rfl, fun x hx => Nat.le_of_lt (hlt x hx)⟩)
        exact this
      | halt s => simp
      | fault => simp
    match full with
    | none => simpa [encLinesW] using newsec
    | some f =>
      obtain ⟨hfull, hfle⟩ := hf f rfl
      by_cases hd : b = false ∧ e.ts - f ≤ 65534
      · simp only [encLinesW, if_pos hd]
        have hfe : f ≤ e.ts := hfle (b, e) (by simp)
        have hsum : st.full + (e.ts - f) = e.ts := by omega
        rw [scan_dataLine p cb proc st (e.ts - f) e.pl _ hd.2 hs (by omega)]
        simp only [foldProc, hsum]
        cases hp : proc st.ps e.ts e.pl with
        | cont s =>
          simp only
          have := ih (some f) { st with ps := s } hes hbes hs
            (by intro f' hf'; cases hf'; exact ⟨hfull, fun x hx => Nat.le_trans hfe (Nat.le_of_lt (hlt x hx))⟩)
          exact this
        | halt s => simp
        | fault => simp
      · simp only [encLinesW, if_neg hd]
        exact newsec

/-- the buffered reader over any conformant layout = the fold -/
theorem readChunked_anyLayout (p k : Nat) (hk : 0 < k) (cb : Option Bool) (proc : σ → Nat → Bytes → PRes σ)
    (ps : σ) (f : Nat) (fx : List (Bool × Entry)) (hs : Sorted (fx.map (·.2))) (hb : ∀ x ∈ fx, x.2.ts < 2^64)
    (hf : ∀ x ∈ fx, f ≤ x.2.ts) :
    (readChunked p k cb proc ⟨f, ps, false⟩ [] (encLinesW p (some f) fx)).map (·.ps) = foldProc proc ps (fx.map (·.2)) := by
  rw [readChunked_eq p k hk]
  have h := scan_encLinesW p cb proc fx (some f) ⟨f, ps, false⟩ hs hb rfl
    (by intro f' hf'; cases hf'; exact ⟨rfl, hf⟩)
  split
  · rename_i hnil
    cases fx with
    | nil => simp [foldProc, Except.map]
    | cons be es =>
      exfalso
      obtain ⟨b, e⟩ := be
      simp only [encLinesW] at hnil
      split at hnil <;> simp at hnil
  · simp only [List.nil_append]
    cases hfold : foldProc proc ps (fx.map (·.2)) with
    | ok ps' =>
      simp only [hfold] at h
      obtain ⟨f', hf'⟩ := h
      simp [hf', Except.map]
    | error e =>
      simp only [hfold] at h
      simp [h, Except.map]

theorem encodeW_cons (p : Nat) (b : Bool) (e : Entry) (es : List (Bool × Entry)) :
    Spec.encodeW p ((b, e) :: es) = metaWrite p e.ts ++ (encLinesW p (some e.ts) ((false, e) :: es)).flatten := by
  unfold Spec.encodeW
  rw [← encLinesW_flatten]
  simp [encLinesW, metaWrite]

/-- **`read_with_processor` over the whole data region of ANY conformant layout** (from just
after the first section, with that section's timestamp) is the processor folded over the
entries, for every processor, payload size and callback setting -/
theorem readRegion_anyLayout (p : Nat) (cb : Option Bool) (proc : σ → Nat → Bytes → PRes σ) (ps : σ)
    (b : Bool) (e : Entry) (es : List (Bool × Entry)) (hv : Valid p (e :: es.map (·.2))) :
    readRegion p cb proc ps (Spec.encodeW p ((b, e) :: es)) (metaSize p) (Spec.encodeW p ((b, e) :: es)).length e.ts
      = foldProc proc ps (e :: es.map (·.2)) := by
  obtain ⟨hsort, hall⟩ := hv
  have hmem : ∀ x ∈ (false, e) :: es, x.2 ∈ e :: es.map (·.2) := by
    intro x hx
    simp only [List.mem_cons] at hx
    rcases hx with rfl | hx
    · simp
    · exact List.mem_cons_of_mem _ (List.mem_map.mpr ⟨x, hx, rfl⟩)
  have hb : ∀ x ∈ (false, e) :: es, x.2.ts < 2^64 := fun x hx => (hall _ (hmem x hx)).1
  have hpl : ∀ x ∈ (false, e) :: es, x.2.pl.length = p := fun x hx => (hall _ (hmem x hx)).2
  have hf : ∀ x ∈ (false, e) :: es, e.ts ≤ x.2.ts := by
    intro x hx
    simp only [List.mem_cons] at hx
    rcases hx with rfl | hx
    · exact Nat.le_refl _
    · exact Nat.le_of_lt ((List.pairwise_cons.mp hsort).1 x.2 (List.mem_map.mpr ⟨x, hx, rfl⟩))
  unfold readRegion
  have hlen : metaSize p ≤ (Spec.encodeW p ((b, e) :: es)).length := by
    rw [encodeW_cons, List.length_append, metaWrite_length]; omega
  simp only [show ¬ ((Spec.encodeW p ((b, e) :: es)).length < metaSize p) by omega, if_false]
  have hregion : ((Spec.encodeW p ((b, e) :: es)).drop (metaSize p)).take ((Spec.encodeW p ((b, e) :: es)).length - metaSize p)
      = (encLinesW p (some e.ts) ((false, e) :: es)).flatten := by
    rw [encodeW_cons, List.drop_append_of_le_length (by rw [metaWrite_length]; omega)]
    rw [← metaWrite_length p e.ts, List.drop_length, List.nil_append]
    apply List.take_of_length_le
    simp [List.length_append, metaWrite_length]
  rw [hregion, toLines_flatten _ _ (lineSize_pos p) (encLinesW_length p _ hpl _)]
  have h := readChunked_anyLayout p (chunkLines p) (chunkLines_pos p) cb proc ps e.ts ((false, e) :: es)
    hsort hb hf
  simp only [List.map_cons] at h
  cases hr : readChunked p (chunkLines p) cb proc ⟨e.ts, ps, false⟩ [] (encLinesW p (some e.ts) ((false, e) :: es)) with
  | ok st => simp [hr, Except.map] at h; simp [h]
  | error err => simp [hr, Except.map] at h; simp [h]

/-- the reference decoder reads back every conformant layout -/
theorem refDecodeLines_encLinesW (p : Nat) (fx : List (Bool × Entry)) :
    ∀ (full : Option Nat), Sorted (fx.map (·.2)) → (∀ x ∈ fx, x.2.ts < 2^64) →
      (∀ f, full = some f → ∀ x ∈ fx, f ≤ x.2.ts) →
      Spec.refDecodeLines p full (encLinesW p full fx) = some (fx.map (·.2)) := by
  induction fx with
  | nil => intro full _ _ _; simp [encLinesW, Spec.refDecodeLines]
  | cons be es ih =>
    obtain ⟨b, e⟩ := be
    intro full hsort hb hf
    simp only [List.map_cons] at hsort ⊢
    have hes : Sorted (es.map (·.2)) := (List.pairwise_cons.mp hsort).2
    have hlt : ∀ x ∈ es, e.ts < x.2.ts := fun x hx =>
      (List.pairwise_cons.mp hsort).1 x.2 (List.mem_map.mpr ⟨x, hx, rfl⟩)
    have hbe : e.ts < 2^64 := hb (b, e) (by simp)
    have hbes : ∀ x ∈ es, x.2.ts < 2^64 := fun x hx => hb x (by simp [hx])
    have newsec : Spec.refDecodeLines p full (metaWriteLines p e.ts ++ dataLine 0 e.pl :: encLinesW p (some e.ts) es)
        = some (e :: es.map (·.2)) := by
      rw [refDecode_section p e.ts hbe, refDecode_dataLine p e.ts 0 e.pl _ (by omega),
        ih (some e.ts) hes hbes (by intro f hf' x hx; cases hf'; exact Nat.le_of_lt (hlt x hx))]
      simp
    cases full with
    | none => simpa [encLinesW] using newsec
    | some f =>
      have hfe : f ≤ e.ts := hf f rfl (b, e) (by simp)
      by_cases hd : b = false ∧ e.ts - f ≤ 65534
      · simp only [encLinesW, if_pos hd]
        rw [refDecode_dataLine p f (e.ts - f) e.pl _ hd.2,
          ih (some f) hes hbes (by intro f' hf' x hx; cases hf'; exact Nat.le_trans hfe (Nat.le_of_lt (hlt x hx)))]
        have : f + (e.ts - f) = e.ts := by omega
        simp [this]
      · simp only [encLinesW, if_neg hd]
        exact newsec

theorem encodeW_length_mod (p : Nat) (fx : List (Bool × Entry)) (hp : ∀ x ∈ fx, x.2.pl.length = p) :
    (Spec.encodeW p fx).length % Spec.lineSize p = 0 := by
  unfold Spec.encodeW
  rw [← encLinesW_flatten, List.length_flatten]
  have h := encLinesW_length p fx hp none
  generalize encLinesW p none fx = L at h
  induction L with
  | nil => simp
  | cons l L ih =>
    simp only [List.map_cons, List.sum_cons]
    rw [h l (by simp)]
    have := ih (fun x hx => h x (by simp [hx]))
    have hls : Spec.lineSize p = lineSize p := rfl
    rw [hls] at this ⊢
    rw [Nat.add_mod, this]; simp

/-- **C07 (←): an independent reader that knows only the documented layout decodes every
conformant data region**, canonical or not, to exactly the history it lays out -/
theorem refDecode_encodeW (p : Nat) (fx : List (Bool × Entry)) (hv : Valid p (fx.map (·.2))) :
    Spec.refDecode p (Spec.encodeW p fx) = some (fx.map (·.2)) := by
  obtain ⟨hsort, hall⟩ := hv
  have hpl : ∀ x ∈ fx, x.2.pl.length = p := fun x hx => (hall x.2 (List.mem_map.mpr ⟨x, hx, rfl⟩)).2
  unfold Spec.refDecode
  rw [encodeW_length_mod p fx hpl]
  simp only [if_true]
  have : Spec.encodeW p fx = (encLinesW p none fx).flatten := by
    unfold Spec.encodeW; rw [encLinesW_flatten]
  rw [this]
  show Spec.refDecodeLines p none (toLines (lineSize p) _) = _
  rw [toLines_flatten _ _ (lineSize_pos p) (encLinesW_length p fx hpl none)]
  exact refDecodeLines_encLinesW p fx none hsort
    (fun x hx => (hall x.2 (List.mem_map.mpr ⟨x, hx, rfl⟩)).1) (by intro f hf; cases hf)

/-! ### the index rebuilt from any conformant layout -/

def secLinesFromW (p : Nat) : Option Nat → Nat → List (Bool × Entry) → List (Nat × Nat)
  | _, _, [] => []
  | none, idx, (_, e) :: es => (idx, e.ts) :: secLinesFromW p (some e.ts) (idx + lpm p + 1) es
  | some f, idx, (b, e) :: es =>
    if b = false ∧ e.ts - f ≤ 65534 then secLinesFromW p (some f) (idx + 1) es
    else (idx, e.ts) :: secLinesFromW p (some e.ts) (idx + lpm p + 1) es

theorem metaScan_encLinesW (p : Nat) (fx : List (Bool × Entry)) : ∀ (full : Option Nat) (idx : Nat),
    (∀ x ∈ fx, x.2.ts < 2^64) →
    metaScan p idx (encLinesW p full fx) = (secLinesFromW p full idx fx, 0) := by
  induction fx with
  | nil => intro full idx _; cases full <;> simp [encLinesW, secLinesFromW, metaScan_nil]
  | cons be es ih =>
    obtain ⟨b, e⟩ := be
    intro full idx hb
    have hbe : e.ts < 2^64 := hb (b, e) (by simp)
    have hbes : ∀ x ∈ es, x.2.ts < 2^64 := fun x hx => hb x (by simp [hx])
    have newsec : metaScan p idx (metaWriteLines p e.ts ++ dataLine 0 e.pl :: encLinesW p (some e.ts) es)
        = ((idx, e.ts) :: secLinesFromW p (some e.ts) (idx + lpm p + 1) es, 0) := by
      rw [metaScan_section p idx e.ts hbe, metaScan_data _ _ _ _ (isMarker_dataLine 0 e.pl (by omega)),
        ih (some e.ts) _ hbes]
    cases full with
    | none => simpa [encLinesW, secLinesFromW] using newsec
    | some f =>
      by_cases hd : b = false ∧ e.ts - f ≤ 65534
      · simp only [encLinesW, secLinesFromW, if_pos hd]
        rw [metaScan_data _ _ _ _ (isMarker_dataLine _ e.pl hd.2), ih (some f) _ hbes]
      · simp only [encLinesW, secLinesFromW, if_neg hd]
        exact newsec

theorem secLinesFromW_offsets (p : Nat) (fx : List (Bool × Entry)) : ∀ (full : Option Nat) (idx : Nat),
    (secLinesFromW p full idx fx).map (fun (i, ts) => (ts, i * lineSize p))
      = Spec.sectionsFromW p full (idx * lineSize p) fx := by
  induction fx with
  | nil => intro full idx; cases full <;> simp [secLinesFromW, Spec.sectionsFromW]
  | cons be es ih =>
    obtain ⟨b, e⟩ := be
    intro full idx
    have hoff : (idx + lpm p + 1) * lineSize p = idx * lineSize p + Spec.secSize p + Spec.lineSize p := by
      rw [spec_secSize]; show _ = _ + metaSize p + lineSize p
      unfold metaSize; rw [Nat.add_mul, Nat.add_mul]; omega
    have hoff1 : (idx + 1) * lineSize p = idx * lineSize p + Spec.lineSize p := by
      show _ = _ + lineSize p; rw [Nat.add_mul]; omega
    cases full with
    | none => simp [secLinesFromW, Spec.sectionsFromW, ih, hoff]
    | some f =>
      by_cases hd : b = false ∧ e.ts - f ≤ Spec.maxDelta
      · have hd' : b = false ∧ e.ts - f ≤ 65534 := hd
        simp only [secLinesFromW, Spec.sectionsFromW, if_pos hd, if_pos hd', ih, hoff1]
      · have hd' : ¬ (b = false ∧ e.ts - f ≤ 65534) := hd
        simp only [secLinesFromW, Spec.sectionsFromW, if_neg hd, if_neg hd', List.map_cons, ih, hoff]

/-- **the index rebuilt from ANY conformant data region lists exactly its sections** (timestamp
and byte offset of each), for every file length -/
theorem extractEntries_anyLayout (p : Nat) (fx : List (Bool × Entry)) (hv : Valid p (fx.map (·.2))) :
    extractEntries p (Spec.encodeW p fx) = toIEntries (Spec.sectionsW p fx) := by
  obtain ⟨hsort, hall⟩ := hv
  have hpl : ∀ x ∈ fx, x.2.pl.length = p := fun x hx => (hall x.2 (List.mem_map.mpr ⟨x, hx, rfl⟩)).2
  have hb : ∀ x ∈ fx, x.2.ts < 2^64 := fun x hx => (hall x.2 (List.mem_map.mpr ⟨x, hx, rfl⟩)).1
  unfold extractEntries extractEntriesInner
  simp only [List.drop_zero, Nat.sub_zero, List.take_length]
  have henc : Spec.encodeW p fx = (encLinesW p none fx).flatten := by
    unfold Spec.encodeW; rw [encLinesW_flatten]
  rw [henc, toLines_flatten _ _ (lineSize_pos p) (encLinesW_length p fx hpl none)]
  have hk : 0 < chunkLinesExtract p := by
    unfold chunkLinesExtract
    have hb' : 0 < lineSize p := lineSize_pos p
    have := nextMultiple_ge Gen.chunkExtract (lineSize p) (by simp [Gen.chunkExtract]) hb'
    exact Nat.div_pos this hb'
  rw [extractChunked_eq p _ hk]
  simp only [List.nil_append]
  rw [metaScan_encLinesW p fx none 0 hb]
  have hoffs := secLinesFromW_offsets p fx none 0
  simp only [Nat.zero_mul] at hoffs
  unfold Spec.sectionsW toIEntries
  rw [← hoffs]
  split
  · rename_i hnil
    cases fx with
    | nil => simp [secLinesFromW]
    | cons be es => obtain ⟨b, e⟩ := be; simp [encLinesW] at hnil
  · simp [List.map_map, Function.comp_def]

end BS.Impl
