/-
  T13c / C09: opening an existing cache — intact, or torn at any byte, index in any
  legitimate prior state — and catching it up with the source leaves the cache exactly as
  an uninterrupted session would have left it.
-/
import BS.Proofs.LineOffset
import BS.Proofs.CacheCreate
import BS.Proofs.LastMeta
import BS.Proofs.ApiOpen

namespace BS.Impl
open BS

theorem len_of_dataInv (hdr ihdr : Bytes) (st : Store) (d : DataSess) (xs : List Entry)
    (hinv : DataInv hdr ihdr st d xs) (hv : Valid d.p xs) : dataLenLines d = .ok xs.length := by
  have hpl : ∀ x ∈ xs, x.pl.length = d.p := fun x hx => (hv.2 x hx).2
  unfold dataLenLines
  rw [hinv.dataLen, hinv.entries, encode_length _ _ hpl]
  simp only [toIEntries, List.length_map, metaSize]
  have hls : 0 < lineSize d.p := lineSize_pos _
  have hdiv : (lineSize d.p * xs.length + lpm d.p * lineSize d.p * (Spec.sections d.p xs).length) / lineSize d.p
      = xs.length + lpm d.p * (Spec.sections d.p xs).length := by
    have : lineSize d.p * xs.length + lpm d.p * lineSize d.p * (Spec.sections d.p xs).length
        = lineSize d.p * (xs.length + lpm d.p * (Spec.sections d.p xs).length) := by
      rw [Nat.mul_add, Nat.mul_comm (lpm d.p) (lineSize d.p), Nat.mul_assoc]
    rw [this, Nat.mul_div_cancel_left _ hls]
  rw [hdiv, Nat.mul_comm (Spec.sections d.p xs).length]
  have : ¬ (xs.length + lpm d.p * (Spec.sections d.p xs).length < lpm d.p * (Spec.sections d.p xs).length) := by omega
  simp [this]

theorem linesWithinFrom_le (p : Nat) : ∀ (xs : List Entry) (full : Option Nat) (off d : Nat),
    Spec.linesWithinFrom p full off d xs ≤ xs.length := by
  intro xs
  induction xs with
  | nil => intro full off d; simp [Spec.linesWithinFrom]
  | cons e es ih =>
    intro full off d
    cases full with
    | none =>
      simp only [Spec.linesWithinFrom, List.length_cons]
      split
      · have := ih (some e.ts) (off + Spec.secSize p + Spec.lineSize p) d; omega
      · omega
    | some f =>
      simp only [Spec.linesWithinFrom, List.length_cons]
      split
      · split
        · have := ih (some f) (off + Spec.lineSize p) d; omega
        · omega
      · split
        · have := ih (some e.ts) (off + Spec.secSize p + Spec.lineSize p) d; omega
        · omega

theorem linesWithin_le (p : Nat) (xs : List Entry) (n : Nat) : Spec.linesWithin p xs n ≤ xs.length :=
  linesWithinFrom_le p xs none 0 n

theorem bucketMeans_len (B : Nat) (mean : List Bytes → Bytes) (hB : 0 < B) :
    ∀ (n : Nat) (xs : List Entry), xs.length = n → (Spec.bucketMeans B mean xs).length = xs.length / B := by
  intro n
  induction n using Nat.strongRecOn with
  | ind n ih =>
    intro xs hn
    rw [Spec.bucketMeans]
    by_cases h : B = 0 ∨ xs.length < B
    · have hlt : xs.length < B := by omega
      simp [h, Nat.div_eq_of_lt hlt]
    · simp only [h, dite_false, List.length_cons]
      have hge : B ≤ xs.length := by omega
      rw [ih (xs.drop B).length (by simp; omega) (xs.drop B) rfl]
      simp only [List.length_drop]
      have : xs.length = (xs.length - B) + B := by omega
      conv => rhs; rw [this, Nat.add_div_right _ hB]

/-- the first `k` bucket means are the bucket means of the first `k·B` lines -/
theorem bucketMeans_take (B : Nat) (mean : List Bytes → Bytes) (hB : 0 < B) : ∀ (k : Nat) (xs : List Entry),
    k * B ≤ xs.length → Spec.bucketMeans B mean (xs.take (k * B)) = (Spec.bucketMeans B mean xs).take k := by
  intro k
  induction k with
  | zero =>
    intro xs _
    simp only [Nat.zero_mul, List.take_zero]
    exact bucketMeans_nil B mean
  | succ k ih =>
    intro xs hk
    have hge : B ≤ xs.length := by rw [Nat.add_mul] at hk; omega
    have hlen : (xs.take ((k + 1) * B)).length = (k + 1) * B := by rw [List.length_take]; omega
    rw [Spec.bucketMeans]
    have h1 : ¬ (B = 0 ∨ (xs.take ((k + 1) * B)).length < B) := by rw [hlen, Nat.add_mul]; omega
    simp only [h1, dite_false]
    conv => rhs; rw [Spec.bucketMeans]
    have h2 : ¬ (B = 0 ∨ xs.length < B) := by omega
    simp only [h2, dite_false, List.take_succ_cons]
    have ht : (xs.take ((k + 1) * B)).take B = xs.take B := by
      rw [List.take_take]; congr 1; rw [Nat.add_mul]; omega
    have hd : (xs.take ((k + 1) * B)).drop B = (xs.drop B).take (k * B) := by
      rw [List.drop_take]; congr 1; rw [Nat.add_mul]; omega
    rw [ht, hd, ih (xs.drop B) (by rw [List.length_drop, Nat.add_mul] at *; omega)]

/-- **C09: `DownSampledData::open` + catch-up.**  The source holds history `xs`; the cache of
bucket size `B` on disk is what a session left of the bucket means `M` of `xs` — its data
file cut after ANY number of bytes (intact included), its index file in any legitimate prior
state.  Opening succeeds and the cache — files and accumulator — is exactly that of an
uninterrupted session over `xs`. -/
theorem cacheOpen_correct (shdr sihdr : Bytes) (dir : Dir) (src : DataSess) (xs : List Entry) (B : Nat)
    (cb : Option Bool)
    (hsrc : DataInv shdr sihdr dir.main src xs) (hv : Valid src.p xs)
    (hB : 1 ≤ B) (hB32 : B ≤ 2^32) (hH : (cacheUserHeader B).length ≤ 65535)
    (hc : TailClean src.p (Spec.bucketMeans B (Spec.linMean src.p) xs))
    (hsize : (Spec.encode src.p (Spec.bucketMeans B (Spec.linMean src.p) xs)).length < 2^64)
    (n : Nat)
    (hdata : (dir.cache B).data = some (cacheHdr B ++
      (Spec.encode src.p (Spec.bucketMeans B (Spec.linMean src.p) xs)).take n))
    (hix : IndexState src.p (Spec.bucketMeans B (Spec.linMean src.p) xs) (dir.cache B).index) :
    ∃ dir' c, cacheOpen dir B src cb = (dir', .ok c) ∧ c.B = B ∧ c.d.p = src.p ∧ dir'.main = dir.main ∧
      (∀ B', B' ≠ B → dir'.cache B' = dir.cache B') ∧
      CacheInv (cacheHdr B) cacheIhdr (dir'.cache B) c xs := by
  have hBpos : 0 < B := hB
  generalize hM : Spec.bucketMeans B (Spec.linMean src.p) xs = M at *
  have hvM : Valid src.p M := by rw [← hM]; exact valid_bucketMeans src.p B hBpos xs hv
  have hMlen : M.length = xs.length / B := by
    rw [← hM]; exact bucketMeans_len B _ hBpos _ xs rfl
  -- the cache's own files are opened and repaired
  have hlenH : (cacheHdr B).length = 4 + (cacheUserHeader B).length := outerHdr_length _
  obtain ⟨st1, d, hopen, hdp, hinvd⟩ :=
    dataOpen_recovers src.p M hvM hc hsize (cacheHdr B) n (dir.cache B) cb hdata hix
  rw [hlenH] at hopen
  generalize hk : Spec.linesWithin src.p M n = k at hinvd
  have hkle : k ≤ M.length := by rw [← hk]; exact linesWithin_le src.p M n
  have hvMk : Valid d.p (M.take k) := by
    rw [hdp]
    exact ⟨List.Pairwise.sublist (List.take_sublist _ _) hvM.1, fun x hx => hvM.2 x (List.mem_of_mem_take hx)⟩
  have hclen : dataLenLines d = .ok k := by
    rw [len_of_dataInv _ _ _ _ _ hinvd hvMk, List.length_take, Nat.min_eq_left hkle]
  have hslen : dataLenLines src = .ok xs.length := len_of_dataInv _ _ _ _ _ hsrc hv
  have hkB : k * B ≤ xs.length := by
    have : k * B ≤ xs.length / B * B := Nat.mul_le_mul_right _ (by omega)
    exact Nat.le_trans this (Nat.div_mul_le_self _ _)
  have hMk : M.take k = Spec.bucketMeans B (Spec.linMean src.p) (xs.take (k * B)) := by
    rw [bucketMeans_take B _ hBpos k xs hkB, hM]
  -- the invariant right after the open, for the first k·B source lines
  have hinv0 : CacheInv (cacheHdr B) cacheIhdr st1 { B := B, d := d } (xs.take (k * B)) := by
    have hl : (xs.take (k * B)).length = k * B := by rw [List.length_take]; omega
    constructor
    · show DataInv _ _ st1 d (Spec.bucketMeans B (Spec.linMean d.p) (xs.take (k * B)))
      rw [hdp, ← hMk]; unfold cacheIhdr; rw [← ihdr_eq]; exact hinvd
    · rfl
    · exact hB
    · exact hB32
    · show 0 = _; rw [hl, Nat.mul_mod_left]
    · show 0 = _; simp [pendOf, hl, Nat.mul_div_cancel _ hBpos]
    · show 0 = _; simp [pendOf, hl, Nat.mul_div_cancel _ hBpos]
  have hfo : fileOpenExisting (dir.cache B).data
      = .ok (4 + (cacheUserHeader B).length, cacheUserHeader B) := by
    rw [hdata]; exact outerHdr_open _ _ hH
  have hahead : ¬ (k * B ≥ xs.length + B) := by omega
  have hnotgt : ¬ (k * B > xs.length) := by omega
  unfold cacheOpen
  simp only [hfo, hopen, hclen, hslen, hahead, hnotgt, if_false, Bool.false_eq_true, decide_false, Bool.false_and,
    Bool.or_self]
  by_cases hdone : k * B ≥ xs.length
  · -- nothing to replay
    have hkeq : k * B = xs.length := by omega
    rw [if_pos hdone]
    refine ⟨_, _, rfl, rfl, hdp, ?_, ?_, ?_⟩
    · rw [Dir.main_setCache, Dir.main_setCache]
    · intro B' hne; rw [Dir.cache_setCache_other _ _ _ _ hne, Dir.cache_setCache_other _ _ _ _ hne]
    · rw [Dir.cache_setCache_same]
      have : xs.take (k * B) = xs := by rw [hkeq, List.take_length]
      rw [this] at hinv0
      have hs0 : k * B - xs.length = 0 := by omega
      rw [hs0]; exact hinv0
  · rw [if_neg hdone]
    have hklt : k * B < xs.length := by omega
    obtain ⟨start, full, hlo, hread⟩ := lineOffset_spec shdr sihdr dir.main src xs hsrc hv (k * B) hklt
    rw [hlo]
    simp only
    have hregion : ((dir.setCache B st1).setCache B st1).main.region src.hdrLen = Spec.encode src.p xs := by
      rw [Dir.main_setCache, Dir.main_setCache]
      unfold Store.region
      rw [hsrc.data, hsrc.hdrLen]; simp
    have hv' : Valid ({ B := B, d := d } : CacheSess).d.p (xs.take (k * B) ++ xs.drop (k * B)) := by
      rw [List.take_append_drop]; show Valid d.p xs; rw [hdp]; exact hv
    obtain ⟨s', hfold, hB', hp', _, hinv'⟩ :=
      createProc_fold (cacheHdr B) cacheIhdr (xs.drop (k * B)) st1 { B := B, d := d } (xs.take (k * B)) 0 hinv0 hv' (Or.inl rfl)
    unfold feedCache
    rw [hregion, hsrc.dataLen, hread cb createProc _, hfold]
    simp only
    rw [List.take_append_drop] at hinv'
    refine ⟨_, _, rfl, hB', by rw [hp']; exact hdp, ?_, ?_, ?_⟩
    · rw [Dir.main_setCache, Dir.main_setCache, Dir.main_setCache]
    · intro B' hne
      rw [Dir.cache_setCache_other _ _ _ _ hne, Dir.cache_setCache_other _ _ _ _ hne, Dir.cache_setCache_other _ _ _ _ hne]
    · rw [Dir.cache_setCache_same]; exact hinv'

end BS.Impl
