/-
  Whole histories: from `ByteSeries::new` (any cache configuration) through any sequence
  of append attempts, the session invariant holds for the accepted sub-history.
-/
import BS.Proofs.CacheSession

namespace BS.Impl
open BS

/-- is `ts` strictly newer than everything in `xs`? -/
def newer (xs : List Entry) (ts : Nat) : Bool :=
  match xs.getLast? with
  | none => true
  | some l => decide (l.ts < ts)

/-- SPECIFICATION of appending: an attempt is accepted iff its payload has the series'
length and its timestamp is strictly newer than the last accepted one -/
def acceptAll (p : Nat) : List Entry → List (Nat × Bytes) → List Entry
  | xs, [] => xs
  | xs, (ts, pl) :: rest =>
    if pl.length = p ∧ newer xs ts = true then acceptAll p (xs ++ [⟨ts, pl⟩]) rest
    else acceptAll p xs rest

/-- the implementation model run over a list of attempts (`none` = a panic) -/
def pushAll (dir : Dir) (s : Sess) : List (Nat × Bytes) → Option (Dir × Sess)
  | [] => some (dir, s)
  | (ts, pl) :: rest =>
    match pushLine dir s ts pl with
    | (dir', .ok s') => pushAll dir' s' rest
    | (_, .error .panic) => none
    | (dir', .error _) => pushAll dir' s rest

theorem newer_iff (xs : List Entry) (ts : Nat) : newer xs ts = true ↔ ∀ l, xs.getLast? = some l → l.ts < ts := by
  unfold newer
  cases xs.getLast? with
  | none => simp
  | some l => simp

/-- **every reachable state**: any sequence of append attempts (valid or not) from a state
satisfying the invariant ends, without panic, in a state satisfying the invariant for the
accepted sub-history — source files, index, `range`, and every cache level -/
theorem pushAll_inv (hdr ihdr : Bytes) : ∀ (atts : List (Nat × Bytes)) (dir : Dir) (s : Sess) (xs : List Entry),
    SessInvC hdr ihdr dir s xs → (∀ a ∈ atts, a.1 < 2^64) →
    ∃ dir' s', pushAll dir s atts = some (dir', s') ∧ s'.d.p = s.d.p ∧ s'.cb = s.cb ∧
      s'.caches.map (·.B) = s.caches.map (·.B) ∧
      SessInvC hdr ihdr dir' s' (acceptAll s.d.p xs atts) := by
  intro atts
  induction atts with
  | nil => intro dir s xs hinv _; exact ⟨dir, s, rfl, rfl, rfl, rfl, hinv⟩
  | cons a atts ih =>
    intro dir s xs hinv hts
    obtain ⟨ts, pl⟩ := a
    have hts0 : ts < 2^64 := hts (ts, pl) (by simp)
    have hts' : ∀ a ∈ atts, a.1 < 2^64 := fun a ha => hts a (by simp [ha])
    obtain ⟨h1, h2, h3⟩ := pushLine_caches hdr ihdr dir s xs ts pl hinv hts0
    by_cases hlen : pl.length = s.d.p
    · by_cases hnew : newer xs ts = true
      · obtain ⟨dir', s', hpush, hp', hcb', hBs', hinv'⟩ := h3 hlen ((newer_iff xs ts).mp hnew)
        obtain ⟨dir'', s'', hall, hp'', hcb'', hBs'', hinv''⟩ := ih dir' s' _ hinv' hts'
        refine ⟨dir'', s'', ?_, by rw [hp'', hp'], by rw [hcb'', hcb'], by rw [hBs'', hBs'], ?_⟩
        · simp only [pushAll, hpush]; exact hall
        · simp only [acceptAll, hlen, hnew, and_self, if_true]
          rw [hp'] at hinv''; exact hinv''
      · have hold : ∃ l, xs.getLast? = some l ∧ ts ≤ l.ts := by
          unfold newer at hnew
          cases hl : xs.getLast? with
          | none => simp [hl] at hnew
          | some l => simp [hl] at hnew; exact ⟨l, rfl, hnew⟩
        have hpush := h2 hlen hold
        obtain ⟨dir'', s'', hall, hp'', hcb'', hBs'', hinv''⟩ := ih dir s xs hinv hts'
        refine ⟨dir'', s'', ?_, hp'', hcb'', hBs'', ?_⟩
        · simp only [pushAll, hpush]; exact hall
        · simp only [acceptAll, hnew, and_false, if_false, Bool.false_eq_true]; exact hinv''
    · have hpush := h1 hlen
      obtain ⟨dir'', s'', hall, hp'', hcb'', hBs'', hinv''⟩ := ih dir s xs hinv hts'
      refine ⟨dir'', s'', ?_, hp'', hcb'', hBs'', ?_⟩
      · simp only [pushAll, hpush]; exact hall
      · simp only [acceptAll, hlen, false_and, if_false]; exact hinv''

/-! ### creating the caches -/

/-- configuration of cache levels the theorems cover: distinct bucket sizes between 1 and
2^32 whose file header fits the 16-bit length field -/
def CacheCfgOK (Bs : List Nat) : Prop :=
  Bs.Pairwise (· ≠ ·) ∧ ∀ B ∈ Bs, 1 ≤ B ∧ B ≤ 2^32 ∧ (cacheUserHeader B).length ≤ 65535

/-- `open_or_create` / `create` for every configured level when no cache file exists yet -/
theorem openCaches_fresh (create : Bool) (shdr sihdr : Bytes) (src : DataSess) (xs : List Entry) (cb : Option Bool)
    (hv : Valid src.p xs) :
    ∀ (Bs : List Nat) (done : List CacheSess) (dir : Dir),
    DataInv shdr sihdr dir.main src xs →
    CacheCfgOK (done.reverse.map (·.B) ++ Bs) →
    (∀ B ∈ Bs, (dir.cache B).data = none ∧ (dir.cache B).index = none) →
    (∀ c ∈ done, c.d.p = src.p ∧ CacheInv (cacheHdr c.B) cacheIhdr (dir.cache c.B) c xs) →
    ∃ dir' cs, openCaches create dir src cb Bs done = (dir', .ok cs) ∧ dir'.main = dir.main ∧
      cs.map (·.B) = done.reverse.map (·.B) ++ Bs ∧
      ∀ c ∈ cs, c.d.p = src.p ∧ CacheInv (cacheHdr c.B) cacheIhdr (dir'.cache c.B) c xs := by
  intro Bs
  induction Bs with
  | nil =>
    intro done dir _ _ _ hdone
    refine ⟨dir, done.reverse, by simp [openCaches], rfl, by simp, ?_⟩
    intro c hc; exact hdone c (by simpa using hc)
  | cons B Bs ih =>
    intro done dir hsrc hcfg hfree hdone
    obtain ⟨hnd, hok⟩ := hcfg
    obtain ⟨hB1, hB32, hhdr⟩ := hok B (by simp)
    have hfB := hfree B (by simp)
    obtain ⟨dir1, c, hcreate, hcB, hcp, hmain1, hother1, hinv1⟩ :=
      cacheCreate_correct shdr sihdr dir src xs B cb hsrc hv hB1 hB32 hhdr hfB
    have hstep : (if create then cacheCreate dir B src cb else cacheOpenOrCreate dir B src cb) = (dir1, .ok c) := by
      cases create with
      | true => simpa using hcreate
      | false =>
        simp only [Bool.false_eq_true, if_false]
        unfold cacheOpenOrCreate cacheOpen
        simp only [hfB.1, fileOpenExisting]
        exact hcreate
    have hneB_done : ∀ x ∈ done, x.B ≠ B := by
      intro x hx
      have := (List.pairwise_append.mp hnd).2.2 x.B (by simp; exact ⟨x, hx, rfl⟩) B (by simp)
      exact this
    have hneB_Bs : ∀ B' ∈ Bs, B' ≠ B := by
      intro B' hB'
      have h2 := (List.pairwise_append.mp hnd).2.1
      exact fun h => (List.pairwise_cons.mp h2).1 B' hB' h.symm
    have hcfg' : CacheCfgOK ((c :: done).reverse.map (·.B) ++ Bs) := by
      constructor
      · simpa [hcB] using hnd
      · intro B' hB'; apply hok; simpa [hcB] using hB'
    have hfree' : ∀ B' ∈ Bs, (dir1.cache B').data = none ∧ (dir1.cache B').index = none := by
      intro B' hB'
      rw [hother1 B' (hneB_Bs B' hB')]
      exact hfree B' (by simp [hB'])
    have hdone' : ∀ x ∈ c :: done, x.d.p = src.p ∧ CacheInv (cacheHdr x.B) cacheIhdr (dir1.cache x.B) x xs := by
      intro x hx
      simp only [List.mem_cons] at hx
      rcases hx with rfl | hx
      · exact ⟨hcp, by rw [hcB]; exact hinv1⟩
      · rw [hother1 x.B (hneB_done x hx)]; exact hdone x hx
    have hsrc1 : DataInv shdr sihdr dir1.main src xs := by rw [hmain1]; exact hsrc
    obtain ⟨dir', cs, hopen, hmain', hBs', hall⟩ := ih (c :: done) dir1 hsrc1 hcfg' hfree' hdone'
    refine ⟨dir', cs, ?_, by rw [hmain', hmain1], by simpa [hcB] using hBs', hall⟩
    rw [openCaches]
    simp only [hstep]
    exact hopen

/-- header of the series' own data file -/
def seriesHdr (p : Nat) (user : Bytes) : Bytes := outerHdr (toText p ++ user)

/-- **`ByteSeries::new` with any admissible cache configuration on a free path** establishes
the session invariant for the empty history -/
theorem apiNew_inv (p : Nat) (hdr : Option Bytes) (Bs : List Nat)
    (hlen : (toText p ++ hdr.getD []).length ≤ 65535) (hcfg : CacheCfgOK Bs) :
    ∃ dir s, apiNew {} p hdr Bs = (dir, .ok (s, hdr.getD [])) ∧ s.d.p = p ∧ s.cb = none ∧
      s.caches.map (·.B) = Bs ∧
      SessInvC (seriesHdr p (hdr.getD [])) (outerHdr []) dir s [] := by
  obtain ⟨st0, d0, hnew, hp0, _, hinv0⟩ := dataNew_inv ({} : Store) p (toText p ++ hdr.getD []) hlen rfl rfl
  have hv : Valid d0.p [] := by simp [Valid]
  have hfree : ∀ B ∈ Bs, ((({ main := st0 } : Dir)).cache B).data = none ∧ ((({ main := st0 } : Dir)).cache B).index = none := by
    intro B _; simp [Dir.cache]
  obtain ⟨dir', cs, hopen, hmain, hBs, hall⟩ :=
    openCaches_fresh true (seriesHdr p (hdr.getD [])) (outerHdr []) d0 [] none hv Bs [] { main := st0 }
      hinv0 (by simpa using hcfg) hfree (by simp)
  unfold apiNew
  simp only [show ({} : Dir).main = ({} : Store) from rfl, hnew]
  have : ({ ({} : Dir) with main := st0 } : Dir) = { main := st0 } := rfl
  rw [this, hopen]
  refine ⟨_, _, rfl, hp0, rfl, by simpa using hBs, ?_⟩
  constructor
  · show DataInv _ _ dir'.main d0 []
    rw [hmain]; exact hinv0
  · rfl
  · exact hv
  · show (cs.map (·.B)).Pairwise (· ≠ ·)
    rw [hBs]; simpa using hcfg.1
  · exact hall

end BS.Impl
