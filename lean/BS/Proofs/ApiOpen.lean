/-
  `builder.open` on the files a session left behind — intact or cut at any byte, index in
  any legitimate prior state — re-establishes the SESSION invariant: header and payload
  size are read back (T10), data and index are repaired (T4–T6), `range` is recomputed.
-/
import BS.Proofs.HeaderRT
import BS.Proofs.LastMeta
import BS.Proofs.History

namespace BS.Impl
open BS

theorem ihdr_eq : ihdr = outerHdr [] := by decide

theorem outerHdr_open (H region : Bytes) (hH : H.length ≤ 65535) :
    fileOpenExisting (some (outerHdr H ++ region)) = .ok (4 + H.length, H) := by
  unfold fileOpenExisting outerHdr
  have hl2 : (leN 2 H.length).length = 2 := leN_length 2 _
  have htake : (leN 2 H.length ++ Gen.lineEnds ++ H ++ region).take 2 = leN 2 H.length := by
    rw [List.append_assoc, List.append_assoc]; exact List.take_left' hl2
  have hun : unN (leN 2 H.length) = H.length := unN_leN 2 _ (by omega)
  have hlen : (leN 2 H.length ++ Gen.lineEnds ++ H ++ region).length = 4 + H.length + region.length := by
    simp only [List.length_append, hl2, Gen.lineEnds, List.length_cons, List.length_nil]
  simp only [htake, hun, hlen]
  have c1 : ¬ (4 + H.length + region.length < 2) := by omega
  have c2 : ¬ (4 + H.length + region.length < 4 + H.length) := by omega
  simp only [c1, c2, if_false]
  have hdrop : (leN 2 H.length ++ Gen.lineEnds ++ H ++ region).drop 4 = H ++ region := by
    rw [List.append_assoc]
    exact List.drop_left' (by simp only [List.length_append, hl2, Gen.lineEnds, List.length_cons, List.length_nil])
  rw [hdrop, List.take_left' rfl]

/-- **reopening through the API** (no caches configured): the files of a series with history
`xs`, data cut at ANY byte count `n` of its region (`n ≥` region length = intact), index in
any legitimate prior state; payload size demanded or retrieved, header demanded or any. -/
theorem apiOpen_recovers (p : Nat) (hp : p ≤ u64Max) (user : Bytes) (hH : (toText p ++ user).length ≤ 65535)
    (xs : List Entry) (hvx : Valid p xs) (hc : TailClean p xs) (hsize : (Spec.encode p xs).length < 2^64)
    (n : Nat) (dir : Dir) (cb : Option Bool)
    (hdata : dir.main.data = some (seriesHdr p user ++ (Spec.encode p xs).take n))
    (hix : IndexState p xs dir.main.index)
    (pOpt : Option Nat) (hpo : pOpt = none ∨ pOpt = some p)
    (hOpt : Option Bytes) (hho : hOpt = none ∨ hOpt = some user) :
    ∃ dir' s, apiOpen dir pOpt hOpt [] cb = (dir', .ok (s, user)) ∧ s.d.p = p ∧ s.cb = cb ∧
      dir'.caches = dir.caches ∧
      SessInv (seriesHdr p user) ihdr dir' s (xs.take (Spec.linesWithin p xs n)) := by
  have hlenH : (seriesHdr p user).length = 4 + (toText p ++ user).length := outerHdr_length _
  obtain ⟨st', d, hopen, hdp, hinv⟩ :=
    dataOpen_recovers p xs hvx hc hsize (seriesHdr p user) n dir.main cb hdata hix
  rw [hlenH] at hopen
  have hvy : Valid p (xs.take (Spec.linesWithin p xs n)) :=
    ⟨List.Pairwise.sublist (List.take_sublist _ _) hvx.1, fun x hx => hvx.2 x (List.mem_of_mem_take hx)⟩
  generalize xs.take (Spec.linesWithin p xs n) = ys at hinv hvy
  unfold apiOpen
  rw [hdata]
  unfold seriesHdr
  rw [outerHdr_open _ _ hH]
  simp only
  have hsplit : checkAndSplitHeader (toText p ++ user) pOpt = .ok (p, user) := by
    rw [header_roundtrip p hp user pOpt]
    rcases hpo with rfl | rfl <;> simp
  rw [hsplit]
  simp only [hopen]
  -- the time range
  have hrange : rangeFromData d = .ok (firstLast ys) := by
    unfold rangeFromData
    rw [hinv.entries, hinv.lastTime, hdp]
    cases ys with
    | nil => simp [Spec.sections, Spec.sectionsFrom, toIEntries, firstLast]
    | cons e es =>
      obtain ⟨rest, hsec⟩ := sections_cons p e es
      rw [hsec]
      simp only [toIEntries, List.map_cons, List.head?_cons]
      have : (e :: es).getLast? = some ((e :: es).getLast (by simp)) := List.getLast?_eq_some_getLast _
      simp [this, firstLast]
  rw [hrange]
  simp only [openCaches, List.reverse_nil]
  have hfin : headerResult hOpt user = .ok user := by
    unfold headerResult
    rcases hho with rfl | rfl <;> simp
  rw [hfin]
  refine ⟨_, _, rfl, hdp, rfl, rfl, ?_⟩
  exact ⟨hinv, rfl, rfl, by show Valid d.p ys; rw [hdp]; exact hvy⟩

/-- a different payload size demanded: refused with an error before anything is touched -/
theorem apiOpen_wrong_payload (p : Nat) (hp : p ≤ u64Max) (user : Bytes) (hH : (toText p ++ user).length ≤ 65535)
    (region : Bytes) (dir : Dir) (cb : Option Bool) (caches : List Nat)
    (hdata : dir.main.data = some (seriesHdr p user ++ region))
    (w : Nat) (hw : w ≠ p) (hOpt : Option Bytes) :
    apiOpen dir (some w) hOpt caches cb = (dir, .error (.err "Parameters/PayloadSizeChanged")) := by
  unfold apiOpen
  rw [hdata]
  unfold seriesHdr
  rw [outerHdr_open _ _ hH]
  simp only
  rw [header_roundtrip p hp user (some w)]
  have : p ≠ w := fun h => hw h.symm
  simp [this]

/-- a missing series: an error, nothing is created -/
theorem apiOpen_missing (dir : Dir) (hnone : dir.main.data = none) (pOpt : Option Nat) (hOpt : Option Bytes)
    (caches : List Nat) (cb : Option Bool) :
    apiOpen dir pOpt hOpt caches cb = (dir, .error (.err "Open/NotFound")) := by
  unfold apiOpen
  rw [hnone]
  simp [fileOpenExisting, wrapErr]

/-- creating over an existing series: an error, every file keeps its bytes -/
theorem apiNew_existing (dir : Dir) (b : Bytes) (hsome : dir.main.data = some b) (p : Nat) (hdr : Option Bytes)
    (caches : List Nat) :
    apiNew dir p hdr caches = (dir, .error (.err "Create/HeaderTooLarge")) ∨
    apiNew dir p hdr caches = (dir, .error (.err "Create/AlreadyExists")) := by
  unfold apiNew dataNew fileNew
  by_cases hl : (toText p ++ hdr.getD []).length > 65535
  · left; simp only [hl, if_true, wrapErr]; cases dir; rfl
  · right; simp only [hl, if_false, hsome, wrapErr]; cases dir; rfl

end BS.Impl
