/-
  T13 (process half): a downsample cache fed line by line through `DownSampledData::process`
  holds exactly the bucket means of what it was fed, as canonical files, with the incomplete
  bucket in its accumulator.
-/
import BS.Proofs.ReadRange

namespace BS.Impl

/-! ### bucket means of a history are a valid history -/

theorem sum_div_le_of_le (l : List Nat) (M : Nat) (h : ∀ x ∈ l, x ≤ M) (hne : l ≠ []) : l.sum / l.length ≤ M := by
  have hs : l.sum ≤ l.length * M := by
    induction l with
    | nil => simp
    | cons a t ih =>
      simp only [List.sum_cons, List.length_cons]
      have ha := h a (by simp)
      by_cases ht : t = []
      · subst ht; simp; omega
      · have := ih (fun x hx => h x (by simp [hx])) ht
        rw [Nat.add_mul]; omega
  have hpos : 0 < l.length := List.length_pos_iff.mpr hne
  exact Nat.div_le_of_le_mul hs

theorem le_sum_div_of_ge (l : List Nat) (m : Nat) (h : ∀ x ∈ l, m ≤ x) (hne : l ≠ []) : m ≤ l.sum / l.length := by
  have hs : l.length * m ≤ l.sum := by
    induction l with
    | nil => simp
    | cons a t ih =>
      simp only [List.sum_cons, List.length_cons]
      have ha := h a (by simp)
      by_cases ht : t = []
      · subst ht; simp; omega
      · have := ih (fun x hx => h x (by simp [hx])) ht
        rw [Nat.add_mul]; omega
  have hpos : 0 < l.length := List.length_pos_iff.mpr hne
  rw [Nat.le_div_iff_mul_le hpos, Nat.mul_comm]; exact hs

theorem linMean_length (p : Nat) (pls : List Bytes) : (Spec.linMean p pls).length = p := by
  unfold Spec.linMean Spec.linEncode
  simp [zeros]; omega

/-- every bucket mean lies between two entries of the list it was formed from -/
theorem bucketMeans_bounds (B : Nat) (mean : List Bytes → Bytes) (xs : List Entry) (hB : 0 < B) (hs : Sorted xs) :
    ∀ y ∈ Spec.bucketMeans B mean xs, (∃ a ∈ xs, a.ts ≤ y.ts) ∧ (∃ b ∈ xs, y.ts ≤ b.ts) := by
  fun_induction Spec.bucketMeans B mean xs
  next => simp
  next xs h b ih =>
    have hlen : B ≤ xs.length := by
      have h' := h; simp only [not_or, Nat.not_lt] at h'; exact h'.2
    intro y hy
    simp only [List.mem_cons] at hy
    rcases hy with rfl | hy
    · -- the mean of the first bucket
      have hbl : b.length = B := by
        show (xs.take B).length = B
        rw [List.length_take]; omega
      have hblen : (b.map (·.ts)).length = B := by rw [List.length_map, hbl]
      have hbne : (b.map (·.ts)) ≠ [] := by
        intro hn
        have := congrArg List.length hn
        rw [hblen] at this; simp at this; omega
      obtain ⟨x0, hx0⟩ : ∃ x0, b.head? = some x0 := by
        cases hb : b with
        | nil => simp [hb] at hbne
        | cons a t => exact ⟨a, rfl⟩
      have hx0b : x0 ∈ b := List.mem_of_head? hx0
      obtain ⟨xl, hxl⟩ : ∃ xl, b.getLast? = some xl := by
        cases hb : b.getLast? with
        | none => rw [List.getLast?_eq_none_iff] at hb; simp [hb] at hbne
        | some v => exact ⟨v, rfl⟩
      have hxlb : xl ∈ b := List.mem_of_getLast? hxl
      have hsb : Sorted b := List.Pairwise.sublist (List.take_sublist _ _) hs
      have hmin : ∀ t ∈ b.map (·.ts), x0.ts ≤ t := by
        intro t ht
        simp only [List.mem_map] at ht
        obtain ⟨z, hz, rfl⟩ := ht
        cases hb : b with
        | nil => rw [hb] at hz; simp at hz
        | cons a tl =>
          rw [hb] at hx0 hz hsb
          simp at hx0; subst hx0
          simp only [List.mem_cons] at hz
          rcases hz with rfl | hz
          · exact Nat.le_refl _
          · exact Nat.le_of_lt ((List.pairwise_cons.mp hsb).1 z hz)
      have hmax : ∀ t ∈ b.map (·.ts), t ≤ xl.ts := by
        intro t ht
        simp only [List.mem_map] at ht
        obtain ⟨z, hz, rfl⟩ := ht
        obtain ⟨n, hn⟩ := List.getElem?_of_mem hz
        have hnl : n < b.length := (List.getElem?_eq_some_iff.mp hn).1
        have hlast : b[b.length - 1]? = some xl := by rw [← hxl, List.getLast?_eq_getElem?]
        by_cases hnn : n = b.length - 1
        · rw [hnn, hlast] at hn; cases hn; exact Nat.le_refl _
        · exact Nat.le_of_lt (sorted_get_lt b hsb n _ z xl (by omega) hn hlast)
      refine ⟨⟨x0, List.mem_of_mem_take hx0b, ?_⟩, ⟨xl, List.mem_of_mem_take hxlb, ?_⟩⟩
      · have := le_sum_div_of_ge _ x0.ts hmin hbne
        rw [hblen] at this; exact this
      · have := sum_div_le_of_le _ xl.ts hmax hbne
        rw [hblen] at this; exact this
    · obtain ⟨⟨a, ha, hay⟩, ⟨c, hc, hyc⟩⟩ := ih (List.Pairwise.sublist (List.drop_sublist _ _) hs) y hy
      exact ⟨⟨a, List.mem_of_mem_drop ha, hay⟩, ⟨c, List.mem_of_mem_drop hc, hyc⟩⟩

end BS.Impl

namespace BS.Impl

/-- **bucket means of a valid history are a valid history** (strictly increasing, < 2^64, payload length p) -/
theorem valid_bucketMeans (p B : Nat) (hB : 0 < B) (xs : List Entry) (hv : Valid p xs) :
    Valid p (Spec.bucketMeans B (Spec.linMean p) xs) := by
  obtain ⟨hs, hall⟩ := hv
  constructor
  · -- strictly increasing
    have : ∀ zs : List Entry, Sorted zs → (Spec.bucketMeans B (Spec.linMean p) zs).Pairwise (fun a b => a.ts < b.ts) := by
      intro zs
      fun_induction Spec.bucketMeans B (Spec.linMean p) zs
      next => intro _; simp
      next zs h b ih =>
        intro hsz
        have hlen : B ≤ zs.length := by
          have h' := h; simp only [not_or, Nat.not_lt] at h'; exact h'.2
        rw [List.pairwise_cons]
        refine ⟨?_, ih (List.Pairwise.sublist (List.drop_sublist _ _) hsz)⟩
        intro y hy
        -- the first mean is at most some entry of the first bucket, y at least some entry after it
        have hfirst := bucketMeans_bounds B (Spec.linMean p) zs hB hsz
          ⟨(b.map (·.ts)).sum / B, Spec.linMean p (b.map (·.pl))⟩ (by
            rw [Spec.bucketMeans]; simp only [h, dite_false]; simp [b])
        obtain ⟨_, ⟨c, hc, hmc⟩⟩ := hfirst
        -- sharper: the first mean is bounded by an entry of the first bucket
        have hb1 := bucketMeans_bounds B (Spec.linMean p) (zs.take B) hB
          (List.Pairwise.sublist (List.take_sublist _ _) hsz)
          ⟨(b.map (·.ts)).sum / B, Spec.linMean p (b.map (·.pl))⟩ (by
            rw [Spec.bucketMeans]
            have hl : ¬ (B = 0 ∨ (zs.take B).length < B) := by
              rw [List.length_take]; omega
            simp only [hl, dite_false]
            have : (zs.take B).take B = zs.take B := by rw [List.take_take]; simp
            simp [this, b])
        obtain ⟨_, ⟨c1, hc1, hmc1⟩⟩ := hb1
        obtain ⟨⟨a, ha, hay⟩, _⟩ := bucketMeans_bounds B (Spec.linMean p) (zs.drop B) hB
          (List.Pairwise.sublist (List.drop_sublist _ _) hsz) y hy
        have := sorted_take_drop zs hsz B c1 hc1 a ha
        simp only at hmc1 hay ⊢
        omega
    exact this xs hs
  · intro y hy
    obtain ⟨_, ⟨b, hb, hyb⟩⟩ := bucketMeans_bounds B (Spec.linMean p) xs hB hs y hy
    refine ⟨by have := (hall b hb).1; omega, ?_⟩
    -- payload of a mean
    have : ∀ zs : List Entry, ∀ y ∈ Spec.bucketMeans B (Spec.linMean p) zs, y.pl.length = p := by
      intro zs
      fun_induction Spec.bucketMeans B (Spec.linMean p) zs
      next => simp
      next zs h b ih =>
        intro y hy
        simp only [List.mem_cons] at hy
        rcases hy with rfl | hy
        · exact linMean_length p _
        · exact ih y hy
    exact this xs y hy

/-- what one more entry adds to the bucket means -/
theorem bucketMeans_snoc (B : Nat) (mean : List Bytes → Bytes) (hB : 0 < B) (xs : List Entry) (e : Entry) :
    Spec.bucketMeans B mean (xs ++ [e]) = Spec.bucketMeans B mean xs ++
      (if (xs.length + 1) % B = 0 then
        [⟨(((xs ++ [e]).drop (xs.length + 1 - B)).map (·.ts)).sum / B, mean (((xs ++ [e]).drop (xs.length + 1 - B)).map (·.pl))⟩]
       else []) := by
  fun_induction Spec.bucketMeans B mean xs
  next xs h =>
    have hlt : xs.length < B := by rcases h with h | h <;> omega
    by_cases hfull : xs.length + 1 = B
    · -- the new entry completes the first bucket
      have hmod : (xs.length + 1) % B = 0 := by rw [hfull]; exact Nat.mod_self _
      rw [Spec.bucketMeans]
      have hl : ¬ (B = 0 ∨ (xs ++ [e]).length < B) := by simp; omega
      simp only [hl, dite_false, hmod, if_true, List.nil_append]
      have h1 : (xs ++ [e]).take B = xs ++ [e] := List.take_of_length_le (by simp; omega)
      have h2 : (xs ++ [e]).drop B = [] := List.drop_eq_nil_of_le (by simp; omega)
      have h3 : (xs ++ [e]).drop (xs.length + 1 - B) = xs ++ [e] := by
        have : xs.length + 1 - B = 0 := by omega
        rw [this, List.drop_zero]
      rw [h1, h2, h3, bucketMeans_short _ _ _ (by simp; omega)]
    · have hmod : ¬ (xs.length + 1) % B = 0 := by
        rw [Nat.mod_eq_of_lt (by omega)]; omega
      rw [bucketMeans_short _ _ _ (by simp; omega)]
      simp [hmod]
  next xs h b ih =>
    have hlen : B ≤ xs.length := by
      have h' := h; simp only [not_or, Nat.not_lt] at h'; exact h'.2
    rw [Spec.bucketMeans]
    have hl : ¬ (B = 0 ∨ (xs ++ [e]).length < B) := by simp; omega
    simp only [hl, dite_false]
    have h1 : (xs ++ [e]).take B = xs.take B := List.take_append_of_le_length hlen
    have h2 : (xs ++ [e]).drop B = xs.drop B ++ [e] := List.drop_append_of_le_length hlen
    rw [h1, h2, ih]
    simp only [List.cons_append, List.length_drop]
    have hmod : (xs.length - B + 1) % B = (xs.length + 1) % B := by
      have : xs.length + 1 = (xs.length - B + 1) + B := by omega
      rw [this, Nat.add_mod_right]
    rw [hmod]
    have hdrop : (xs.length + 1) % B = 0 →
        (xs.drop B ++ [e]).drop (xs.length - B + 1 - B) = (xs ++ [e]).drop (xs.length + 1 - B) := by
      intro hc
      rw [← h2, List.drop_drop]
      -- then xs.length + 1 ≥ 2B
      have : 2 * B ≤ xs.length + 1 := by
        have hd := Nat.div_add_mod (xs.length + 1) B
        rw [hc] at hd
        have hq : 2 ≤ (xs.length + 1) / B := by
          rcases Nat.lt_or_ge ((xs.length + 1) / B) 2 with hq | hq
          · have hq' : (xs.length + 1) / B ≤ 1 := by omega
            have : B * ((xs.length + 1) / B) ≤ B * 1 := Nat.mul_le_mul_left _ hq'
            omega
          · exact hq
        have : B * 2 ≤ B * ((xs.length + 1) / B) := Nat.mul_le_mul_left _ hq
        omega
      congr 1; omega
    split
    · rename_i hc; rw [hdrop hc]
    · rfl

end BS.Impl

namespace BS.Impl

/-- the pending (incomplete) bucket of a history -/
def pendOf (B : Nat) (xs : List Entry) : List Entry := xs.drop (xs.length / B * B)

theorem pendOf_length (B : Nat) (xs : List Entry) : (pendOf B xs).length = xs.length % B := by
  unfold pendOf
  rw [List.length_drop]
  have := Nat.div_add_mod xs.length B
  have : B * (xs.length / B) = xs.length / B * B := Nat.mul_comm _ _
  omega

theorem succ_div_mod (n B : Nat) (hB : 0 < B) :
    (n % B + 1 = B → (n + 1) / B = n / B + 1 ∧ (n + 1) % B = 0) ∧
    (n % B + 1 < B → (n + 1) / B = n / B ∧ (n + 1) % B = n % B + 1) := by
  have hd := Nat.div_add_mod n B
  have hm := Nat.mod_lt n hB
  constructor
  · intro h
    have : n + 1 = (n / B + 1) * B := by rw [Nat.add_mul, Nat.mul_comm (n / B) B]; omega
    rw [this]
    exact ⟨Nat.mul_div_cancel _ hB, Nat.mul_mod_left _ _⟩
  · intro h
    have : n + 1 = (n % B + 1) + n / B * B := by rw [Nat.mul_comm (n / B) B]; omega
    rw [this]
    constructor
    · rw [Nat.add_mul_div_right _ _ hB, Nat.div_eq_of_lt h]; omega
    · rw [Nat.add_mul_mod_self_right, Nat.mod_eq_of_lt h]

/-- a cache in memory and on disk holds the bucket means of `xs` and the accumulator its pending bucket -/
structure CacheInv (hdr ihdr : Bytes) (st : Store) (c : CacheSess) (xs : List Entry) : Prop where
  data : DataInv hdr ihdr st c.d (Spec.bucketMeans c.B (Spec.linMean c.d.p) xs)
  skip0 : c.skip = 0
  Bpos : 1 ≤ c.B
  Ble : c.B ≤ 2^32
  inBin : c.inBin = xs.length % c.B
  tsSum : c.tsSum = ((pendOf c.B xs).map (·.ts)).sum
  vSum : c.vSum = ((pendOf c.B xs).map (linDecode ·.pl)).sum

/-- **T13: one source line through `DownSampledData::process` keeps the cache invariant** -/
theorem cacheProcess_inv (hdr ihdr : Bytes) (st : Store) (c : CacheSess) (xs : List Entry) (e : Entry)
    (hinv : CacheInv hdr ihdr st c xs) (hv : Valid c.d.p (xs ++ [e])) :
    ∃ st' c', cacheProcess st c e.ts e.pl = .ok (st', c') ∧ c'.B = c.B ∧ c'.d.p = c.d.p ∧
      CacheInv hdr ihdr st' c' (xs ++ [e]) := by
  have hB := hinv.Bpos
  have hplen := pendOf_length c.B xs
  have hmodlt := Nat.mod_lt xs.length hB
  have hsdm := succ_div_mod xs.length c.B hB
  -- the value sum cannot overflow
  have hvlt : ¬ (c.vSum + linDecode e.pl ≥ 2^64) := by
    have h1 := sum_linDecode_le ((pendOf c.B xs).map (·.pl))
    simp only [List.map_map, List.length_map] at h1
    have h2 : c.vSum ≤ (pendOf c.B xs).length * (2^32 - 1) := by rw [hinv.vSum]; exact h1
    have h3 := linDecode_lt e.pl
    have h4 : (pendOf c.B xs).length * (2^32 - 1) ≤ 2^32 * (2^32 - 1) :=
      Nat.mul_le_mul_right _ (by have := hinv.Ble; omega)
    omega
  unfold cacheProcess
  have hskip : ¬ c.skip > 0 := by rw [hinv.skip0]; omega
  simp only [hskip, if_false, hvlt]
  by_cases hfull : c.inBin + 1 ≥ c.B
  · -- the bucket is complete
    have hr : xs.length % c.B + 1 = c.B := by rw [hinv.inBin] at hfull; omega
    obtain ⟨hdiv, hmod⟩ := hsdm.1 hr
    have hB0 : ¬ c.B = 0 := by omega
    simp only [hfull, if_true, hB0, if_false]
    -- the last B entries of xs ++ [e] are the pending bucket plus e
    have hlastB : (xs ++ [e]).drop (xs.length + 1 - c.B) = pendOf c.B xs ++ [e] := by
      unfold pendOf
      have hq : xs.length + 1 - c.B = xs.length / c.B * c.B := by
        have := Nat.div_add_mod xs.length c.B
        have : c.B * (xs.length / c.B) = xs.length / c.B * c.B := Nat.mul_comm _ _
        omega
      rw [hq, List.drop_append_of_le_length (Nat.div_mul_le_self _ _)]
    have hsnoc := bucketMeans_snoc c.B (Spec.linMean c.d.p) hB xs e
    rw [if_pos hmod, hlastB] at hsnoc
    have hts_eq : ((pendOf c.B xs ++ [e]).map (·.ts)).sum = c.tsSum + e.ts := by
      simp [hinv.tsSum]
    have hpl_eq : Spec.linMean c.d.p ((pendOf c.B xs ++ [e]).map (·.pl)) = linEncode c.d.p ((c.vSum + linDecode e.pl) / c.B) := by
      unfold Spec.linMean
      rw [spec_linEncode, spec_linDecode_fn]
      simp only [List.map_append, List.map_map, List.sum_append, List.map_cons, List.map_nil, List.sum_cons,
        List.sum_nil, Nat.add_zero, List.length_append, List.length_map, List.length_cons, List.length_nil, hplen, hr]
      rw [hinv.vSum]; rfl
    rw [hts_eq, hpl_eq] at hsnoc
    -- the assert: the mean is not newer than the newest line
    have hassert : ¬ ((c.tsSum + e.ts) / c.B > e.ts) := by
      have hle : ∀ t ∈ (pendOf c.B xs ++ [e]).map (·.ts), t ≤ e.ts := by
        intro t ht
        simp only [List.mem_map, List.mem_append, List.mem_singleton] at ht
        obtain ⟨z, hz, rfl⟩ := ht
        rcases hz with hz | rfl
        · exact Nat.le_of_lt (sorted_snoc_last xs e hv.1 z (List.mem_of_mem_drop hz))
        · exact Nat.le_refl _
      have := sum_div_le_of_le _ e.ts hle (by simp)
      simp only [List.length_map, List.length_append, List.length_cons, List.length_nil, hplen, hr] at this
      rw [hts_eq] at this
      omega
    simp only [hassert, if_false]
    -- push the mean into the cache's own data file
    have hvm : Valid c.d.p (Spec.bucketMeans c.B (Spec.linMean c.d.p) xs ++
        [⟨(c.tsSum + e.ts) / c.B, linEncode c.d.p ((c.vSum + linDecode e.pl) / c.B)⟩]) := by
      rw [← hsnoc]; exact valid_bucketMeans c.d.p c.B hB _ hv
    obtain ⟨st', d', hpush, hp', hinv'⟩ := pushData_inv hdr ihdr st c.d _ _ hinv.data hvm
    simp only at hpush
    rw [hpush]
    refine ⟨_, _, rfl, rfl, hp', ?_⟩
    constructor
    · show DataInv hdr ihdr st' d' (Spec.bucketMeans c.B (Spec.linMean d'.p) (xs ++ [e]))
      rw [hp', hsnoc]; exact hinv'
    · exact hinv.skip0
    · exact hinv.Bpos
    · exact hinv.Ble
    · simp [hmod]
    · simp only [pendOf, List.length_append, List.length_cons, List.length_nil, hdiv]
      have : (xs.length / c.B + 1) * c.B = xs.length + 1 := by
        have := Nat.div_add_mod xs.length c.B
        rw [Nat.add_mul, Nat.mul_comm (xs.length / c.B) c.B]; omega
      rw [this, List.drop_eq_nil_of_le (by simp)]; simp
    · simp only [pendOf, List.length_append, List.length_cons, List.length_nil, hdiv]
      have : (xs.length / c.B + 1) * c.B = xs.length + 1 := by
        have := Nat.div_add_mod xs.length c.B
        rw [Nat.add_mul, Nat.mul_comm (xs.length / c.B) c.B]; omega
      rw [this, List.drop_eq_nil_of_le (by simp)]; simp
  · -- the bucket stays incomplete
    have hr : xs.length % c.B + 1 < c.B := by rw [hinv.inBin] at hfull; omega
    obtain ⟨hdiv, hmod⟩ := hsdm.2 hr
    simp only [hfull, if_false]
    have hsnoc := bucketMeans_snoc c.B (Spec.linMean c.d.p) hB xs e
    have hmod0 : ¬ (xs.length + 1) % c.B = 0 := by rw [hmod]; omega
    rw [if_neg hmod0, List.append_nil] at hsnoc
    have hpend : pendOf c.B (xs ++ [e]) = pendOf c.B xs ++ [e] := by
      unfold pendOf
      simp only [List.length_append, List.length_cons, List.length_nil, hdiv]
      rw [List.drop_append_of_le_length (Nat.div_mul_le_self _ _)]
    refine ⟨_, _, rfl, rfl, rfl, ?_⟩
    constructor
    · simp only; rw [hsnoc]; exact hinv.data
    · exact hinv.skip0
    · exact hinv.Bpos
    · exact hinv.Ble
    · simp [hinv.inBin, hmod]
    · simp [hpend, hinv.tsSum]
    · simp [hpend, hinv.vSum]

end BS.Impl
