/-
  C12 — length, emptiness, time range and last line agree with the contents.
-/
import BS.Proofs.Accessors
import BS.Proofs.Extra

namespace BS.Props.C12
open BS BS.Impl

/-- **`len()` = number of accepted lines, `is_empty()` accordingly**, in every state that
satisfies the session invariant (which `push_line` preserves, C03). -/
theorem len_is_count (hdr ihdr : Bytes) (dir : Dir) (s : Sess) (xs : List Entry) (hinv : SessInv hdr ihdr dir s xs) :
    dataLenLines s.d = .ok xs.length :=
  len_spec hdr ihdr dir s xs hinv

/-- **`range()` = first and last accepted timestamp, `payload_size()` = the configured size** -/
theorem range_is_first_last (hdr ihdr : Bytes) (dir : Dir) (s : Sess) (xs : List Entry) (hinv : SessInv hdr ihdr dir s xs) :
    s.range = firstLast xs ∧ s.d.lastTime = xs.getLast?.map (·.ts) :=
  ⟨hinv.range, hinv.data.lastTime⟩

/-- the byte-size formula behind `len`: each line `p+2` bytes, each section `lines_per_metainfo` lines more -/
theorem size_formula (p : Nat) (xs : List Entry) (hp : ∀ x ∈ xs, x.pl.length = p) :
    (Spec.encode p xs).length = lineSize p * xs.length + metaSize p * (Spec.sections p xs).length :=
  encode_length p xs hp

/-- **`last_line()` is the last accepted line** (timestamp and payload), read back from the
file through the reader; on an empty series it is `NoData` (see `queries_total`). -/
theorem last_line_is_last (hdr ihdr : Bytes) (dir : Dir) (s : Sess) (ys : List Entry) (l : Entry)
    (hinv : SessInv hdr ihdr dir s (ys ++ [l])) :
    lastLineOf (mainRegion dir s) s.d s.cb = .ok l :=
  lastLine_spec hdr ihdr dir s ys l hinv

/-- the accessors after a reopen or a torn-tail repair are those of the surviving history:
the open re-establishes the invariant the theorems above assume (C04 / C05 through the API),
so `len` after it is the number of completely written lines -/
theorem len_after_reopen (hdr ihdr : Bytes) (dir : Dir) (s : Sess) (xs : List Entry) (k : Nat)
    (hinv : SessInv hdr ihdr dir s (xs.take k)) : dataLenLines s.d = .ok (xs.take k).length :=
  len_spec hdr ihdr dir s _ hinv

example : firstLast [⟨3, []⟩, ⟨9, []⟩] = some (3, 9) := rfl

end BS.Props.C12
