/-
  C05 — torn-tail recovery yields exactly the fully written prefix.
-/
import BS.Proofs.LastMeta
import BS.Proofs.Reopen

namespace BS.Props.C05
open BS BS.Impl

/-- **The data file after a cut at ANY byte length is repaired to exactly the fully written
prefix.**  For every payload size, every valid history `xs` whose sections have no
marker-like raw timestamp line (`TailClean`, see below), and every cut length `n`: the
open-time repair pipeline (`repair_incomplete_last_write`, `repaired_is_only_meta`,
`removed_partial_meta_at_end`, `removed_start_of_meta_at_end`) turns the first `n` bytes of
the canonical data region into the canonical data region of `xs.take k`, where `k` is the
number of entries whose bytes — section included — lie completely inside the first `n`
bytes.  No partial, phantom, re-timed or reordered line: the bytes ARE the canonical bytes
of the prefix, so everything proved about canonical files (C01, C02, C06, C12, C15) holds
for the repaired file. -/
theorem repair_yields_written_prefix (p : Nat) (xs : List Entry) (hv : Valid p xs) (hc : TailClean p xs) (n : Nat) :
    repairData p ((Spec.encode p xs).take n) = Spec.encode p (xs.take (Spec.linesWithin p xs n)) :=
  repair_cut p xs hv hc n

/-- **Opening after a crash recovers exactly the fully written prefix.**  The data file cut at
ANY byte length `n` of its data region and — independently — the index file in ANY legitimate
prior state (`IndexState`: absent; cut at any byte length, which covers intact, truncated,
lagging by any number of entries, and one or more entries ahead of the data because the
original history `xs` is longer than what survived; shorter than its own 4-byte header):
`Data::open_existing` succeeds and re-establishes the data invariant for `xs.take k`, `k` the
number of completely written entries.  The files on disk are then the canonical files of that
prefix, so further appends continue canonically (C03, C15) and round-trip (C01). -/
theorem open_recovers_written_prefix (p : Nat) (xs : List Entry) (hvx : Valid p xs) (hc : TailClean p xs)
    (hsize : (Spec.encode p xs).length < 2^64) (hdr : Bytes) (n : Nat) (st : Store) (cb : Option Bool)
    (hdata : st.data = some (hdr ++ (Spec.encode p xs).take n)) (hix : IndexState p xs st.index) :
    ∃ st' d, dataOpenExisting st p hdr.length cb = (st', .ok d) ∧ d.p = p ∧
      DataInv hdr ihdr st' d (xs.take (Spec.linesWithin p xs n)) :=
  dataOpen_recovers p xs hvx hc hsize hdr n st cb hdata hix

/-- `TailClean` is automatic for payload sizes of at least 4 (a section has no raw lines):
there the statement above is unconditional. -/
theorem repair_unconditional_ge4 (p : Nat) (hp : 4 ≤ p) (xs : List Entry) (hv : Valid p xs) (n : Nat) :
    repairData p ((Spec.encode p xs).take n) = Spec.encode p (xs.take (Spec.linesWithin p xs n)) :=
  repair_cut p xs hv (tailClean_of_ge4 p hp xs) n

/-- **The known finding, as a theorem about the model**: for payload size 0 the hypothesis
cannot be dropped — the intact one-line series at timestamp 65535 is truncated by the
repair (the witness replayed on the implementation by `findings/C04-marker-tail.ops`). -/
theorem tailClean_needed_counterexample :
    repairData 0 (Spec.encode 0 [⟨65535, []⟩]) ≠ Spec.encode 0 [⟨65535, []⟩] := by
  have hlines : Spec.encode 0 [⟨65535, []⟩] =
      ([[255, 255], [255, 255], [255, 255], [0, 0], [0, 0], [0, 0], [0, 0]] : List Bytes).flatten ++ [] := by
    decide
  rw [hlines, repairData_lines 0 _ [] (by decide) (by decide)]
  decide

/-- `removed_start_of_meta_at_end` can never truncate anything -/
theorem fourth_repair_stage_is_dead (p : Nat) (d : Bytes) : removeStartOfMeta p d = none :=
  removeStartOfMeta_none p d

/-- after the repair, an index rebuilt from the data is the exact index of the surviving
prefix (whatever the index file contained: this is the fallback path) -/
theorem rebuilt_index_of_repaired (p : Nat) (xs : List Entry) (hv : Valid p xs) (hc : TailClean p xs) (n : Nat) :
    extractEntries p (repairData p ((Spec.encode p xs).take n))
      = toIEntries (Spec.sections p (xs.take (Spec.linesWithin p xs n))) := by
  rw [repair_cut p xs hv hc n]
  apply extractEntries_canonical
  exact ⟨List.Pairwise.sublist (List.take_sublist _ _) hv.1, fun x hx => hv.2 x (List.mem_of_mem_take hx)⟩

/-- non-vacuity: a two-section history satisfies the hypotheses, for payload size 2 -/
example : Valid 2 [⟨5, [1, 2]⟩, ⟨70000, [3, 4]⟩] ∧ TailClean 2 [⟨5, [1, 2]⟩, ⟨70000, [3, 4]⟩] := by
  constructor
  · simp [Valid]
  · intro x hx l hl
    simp at hx
    rcases hx with rfl | rfl <;> (simp [metaWriteLines, le8, leN] at hl; subst hl; decide)

/-- **Through the whole API model: create, append anything, crash at ANY byte, reopen.**
The data file is cut after any number `n` of bytes of its region, the index file is in any
legitimate prior state; `builder.open` succeeds and yields a session whose history is exactly
the completely written lines `take (linesWithin n)` of what was accepted: every read, count
and accessor then answers for that prefix (C01, C02, C12 …), and the next append follows
the acceptance rule relative to it (C03). -/
theorem api_open_recovers_prefix (p : Nat) (hp : p ≤ u64Max) (hdr : Option Bytes)
    (hH : (toText p ++ hdr.getD []).length ≤ 65535) (atts : List (Nat × Bytes)) (hts : ∀ a ∈ atts, a.1 < 2^64)
    (hc : TailClean p (acceptAll p [] atts)) (hsize : (Spec.encode p (acceptAll p [] atts)).length < 2^64)
    (n : Nat) (ix : Option Bytes) (hix : IndexState p (acceptAll p [] atts) ix)
    (cb : Option Bool) (pOpt : Option Nat) (hpo : pOpt = none ∨ pOpt = some p)
    (hOpt : Option Bytes) (hho : hOpt = none ∨ hOpt = some (hdr.getD [])) :
    ∃ dir0 s0 dir1 s1, apiNew {} p hdr [] = (dir0, .ok (s0, hdr.getD [])) ∧
      pushAll dir0 s0 atts = some (dir1, s1) ∧
      ∀ data', data' = (dir1.main.data.map fun b => b.take ((seriesHdr p (hdr.getD [])).length + n)) →
      ∃ dir2 s2, apiOpen { dir1 with main := { dir1.main with data := data', index := ix } } pOpt hOpt [] cb
          = (dir2, .ok (s2, hdr.getD [])) ∧ s2.d.p = p ∧
        SessInv (seriesHdr p (hdr.getD [])) ihdr dir2 s2
          ((acceptAll p [] atts).take (Spec.linesWithin p (acceptAll p [] atts) n)) :=
  reopen_after_any_history p hp hdr hH atts hts hc hsize n ix hix cb pOpt hpo hOpt hho

end BS.Props.C05
