/-
  C15 — canonical compact encoding.
-/
import BS.Proofs.Accessors

namespace BS.Props.C15
open BS BS.Impl

/-- **The data file is a pure function of header and accepted lines.**  Appending entry by
entry through `push_data` — whatever the intermediate states were — yields exactly
`header ++ encode p xs`, where `encode` opens a section for the first line and whenever
the distance to the last full timestamp exceeds 65534 and otherwise spends `p+2` bytes. -/
theorem push_keeps_canonical (hdr ihdr : Bytes) (st : Store) (d : DataSess) (xs : List Entry) (e : Entry)
    (hinv : DataInv hdr ihdr st d xs) (hv : Valid d.p (xs ++ [e])) :
    ∃ st' d', pushData st d e.ts e.pl = .ok (st', d') ∧
      st'.data = some (hdr ++ Spec.encode d.p (xs ++ [e])) := by
  obtain ⟨st', d', h1, h2, h3⟩ := pushData_inv hdr ihdr st d xs e hinv hv
  exact ⟨st', d', h1, by rw [h3.data, h2]⟩

/-- size: `(p+2)` bytes per line plus one section per required full timestamp -/
theorem size_formula (p : Nat) (xs : List Entry) (hp : ∀ x ∈ xs, x.pl.length = p) :
    (Spec.encode p xs).length = lineSize p * xs.length + metaSize p * (Spec.sections p xs).length :=
  encode_length p xs hp

/-- a section is opened exactly for the first line and when the delta cannot fit -/
theorem section_rule (p : Nat) (f : Nat) (e : Entry) :
    Spec.sectionsFrom p none 0 [e] = [(e.ts, 0)] ∧
    (e.ts - f ≤ 65534 → Spec.sectionsFrom p (some f) 0 [e] = []) ∧
    (¬ e.ts - f ≤ 65534 → Spec.sectionsFrom p (some f) 0 [e] = [(e.ts, 0)]) := by
  refine ⟨by simp [Spec.sectionsFrom], ?_, ?_⟩
  · intro h; simp [Spec.sectionsFrom, Spec.maxDelta, h]
  · intro h; simp [Spec.sectionsFrom, Spec.maxDelta, h]

example : Spec.sectionsFrom 2 (some 10) 0 [⟨65544, [0, 0]⟩] = [] := by
  simp [Spec.sectionsFrom, Spec.maxDelta]

end BS.Props.C15
