/-
  C19 — every public call returns a value or an error for every admissible argument.
  Property theorems only; helper lemmas live in BS/Proofs.
-/
import BS.Proofs.Total
import BS.Proofs.History
import BS.Proofs.Extra

namespace BS.Props.C19
open BS BS.Impl

/-- **No query panics, zero samples are zero samples.**  In every state satisfying the
session invariant for ANY history — the empty series, one line, timestamps 0 and 2^64-1,
payload size 0 or larger than the read buffer — and for EVERY pair of bounds (inclusive,
exclusive, unbounded; at either extreme; inverted; empty) and EVERY `n` (0 included):
`read_all`, `read_first_n`, `read_n`, `n_lines_between`, `len`, `last_line` return a value
or an error, never a panic; `read_first_n(0)` and `read_n(0)` return nothing.
(`hsize`: the file holds at most 2^32 lines — the u64 value sums of the integer resampler.) -/
theorem queries_never_panic (hdr ihdr : Bytes) (dir : Dir) (s : Sess) (xs : List Entry)
    (hinv : SessInv hdr ihdr dir s xs)
    (hsize : (Spec.encode s.d.p xs).length / lineSize s.d.p ≤ 2^32) :
    (∀ sb eb, apiReadAll dir s sb eb ≠ .error .panic) ∧
    (∀ n sb eb, apiReadFirstN dir s n sb eb ≠ .error .panic) ∧
    (∀ n sb eb, apiReadN dir s n sb eb ≠ .error .panic) ∧
    (∀ sb eb, apiNLines dir s sb eb ≠ .error .panic) ∧
    (∀ sb eb, apiReadFirstN dir s 0 sb eb = .ok []) ∧
    (∀ sb eb, apiReadN dir s 0 sb eb = .ok []) ∧
    dataLenLines s.d = .ok xs.length ∧
    lastLineOf (mainRegion dir s) s.d s.cb ≠ .error .panic :=
  queries_total hdr ihdr dir s xs hinv hsize

/-- **… also on a session with caches** (levels listed by increasing bucket size): no query
panics; `read_n` included, for every `n` (0 returns nothing after the ordering assert passed). -/
theorem queries_never_panic_with_caches (hdr ihdr' : Bytes) (dir : Dir) (s : Sess) (xs : List Entry)
    (hinv : SessInvC hdr ihdr' dir s xs)
    (hsorted : (s.caches.map (·.B)).Pairwise (· ≤ ·))
    (hsize0 : (Spec.encode s.d.p xs).length / lineSize s.d.p ≤ 2^32)
    (hsizes : ∀ c ∈ s.caches,
      (Spec.encode s.d.p (Spec.bucketMeans c.B (Spec.linMean s.d.p) xs)).length / lineSize s.d.p ≤ 2^32) :
    (∀ sb eb, apiReadAll dir s sb eb ≠ .error .panic) ∧
    (∀ n sb eb, apiReadFirstN dir s n sb eb ≠ .error .panic) ∧
    (∀ n sb eb, apiReadN dir s n sb eb ≠ .error .panic) ∧
    (∀ sb eb, apiNLines dir s sb eb ≠ .error .panic) ∧
    dataLenLines s.d = .ok xs.length ∧
    lastLineOf (mainRegion dir s) s.d s.cb ≠ .error .panic :=
  queries_total_caches hdr ihdr' dir s xs hinv hsorted hsize0 hsizes

/-- **No append panics, whatever is appended**: creating a series (any payload size, header
that fits, any admissible cache configuration) and making any sequence of append attempts —
any timestamps below 2^64 in any order, payloads of any length — never panics; every attempt
is accepted or refused with an error, and the state stays within the invariant. -/
theorem appends_never_panic (p : Nat) (hdr : Option Bytes) (Bs : List Nat) (atts : List (Nat × Bytes))
    (hlen : (toText p ++ hdr.getD []).length ≤ 65535) (hcfg : CacheCfgOK Bs)
    (hts : ∀ a ∈ atts, a.1 < 2^64) :
    ∃ dir0 s0 dir s, apiNew {} p hdr Bs = (dir0, .ok (s0, hdr.getD [])) ∧
      pushAll dir0 s0 atts = some (dir, s) ∧
      SessInvC (seriesHdr p (hdr.getD [])) (outerHdr []) dir s (acceptAll p [] atts) := by
  obtain ⟨dir0, s0, hnew, hp0, _, _, hinv0⟩ := apiNew_inv p hdr Bs hlen hcfg
  obtain ⟨dir, s, hall, _, _, _, hinv⟩ := pushAll_inv _ _ atts dir0 s0 [] hinv0 hts
  rw [hp0] at hinv
  exact ⟨dir0, s0, dir, s, hnew, hall, hinv⟩

/-- a header that does not fit the 16-bit length field is an error, not a panic, and
creates nothing (after the fix) -/
theorem oversized_header_is_error (dir : Dir) (p : Nat) (hdr : Option Bytes) (Bs : List Nat)
    (hlen : (toText p ++ hdr.getD []).length > 65535) :
    apiNew dir p hdr Bs = (dir, .error (.err "Create/HeaderTooLarge")) := by
  unfold apiNew dataNew fileNew
  simp only [hlen, if_true, wrapErr]
  cases dir; rfl

/-- non-vacuity: the empty history satisfies the size hypothesis -/
example : (Spec.encode 3 []).length / lineSize 3 ≤ 2^32 := by simp [Spec.encode, Spec.encFrom]

end BS.Props.C19
