/-
  C16 — append-only on disk, at the level of a session (second file: needs the cache directory lemmas).
-/
import BS.Proofs.Grows
import BS.Proofs.Extra

namespace BS.Props.C16
open BS BS.Impl

/-- **`push_line` only appends.**  Whatever it returns — accepted, refused, or failing half
way through the cache levels — every file of the series and of every cache level has its
previous content as a prefix afterwards; no file is created, deleted, truncated or rewritten.
No hypothesis on the state: this holds for any directory and any session. -/
theorem push_line_only_appends (dir : Dir) (s : Sess) (ts : Nat) (pl : Bytes) (dir' : Dir) (r : R Sess)
    (h : pushLine dir s ts pl = (dir', r)) : DirGrows dir dir' :=
  pushLine_grows dir s ts pl dir' r h

/-- **Reads, counts and accessors never write**: every query operation of the model leaves the
directory exactly as it was (they are functions of the directory that do not return one; this
theorem states it for the whole step function, so a query added later is covered too). -/
theorem queries_never_write (w : World) (op : Op)
    (hq : match op with
      | .readAll .. | .readFirstN .. | .readN .. | .nLines .. | .lastLine | .len | .isEmpty | .range
      | .payloadSize | .flush | .page .. | .files | .get .. => True
      | _ => False) :
    (step w op).1.dir = w.dir :=
  queries_do_not_write w op hq

end BS.Props.C16
