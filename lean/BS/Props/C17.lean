/-
  C17 — create/open contract: header and payload size are stored and enforced.
  Property theorems only; helper lemmas live in BS/Proofs.
-/
import BS.Proofs.Reopen

namespace BS.Props.C17
open BS BS.Impl

/-- **The header round trip.**  What creation writes — the text preamble with the payload
size, then the user header byte for byte — is read back by
`check_and_split_off_user_header` as exactly that payload size and that user header: for
EVERY payload size a `usize` holds and EVERY user header (any bytes, including the parser's
own patterns, digits, non-UTF-8); a different demanded payload size is refused with
`PayloadSizeChanged`, never accepted, never a panic. -/
theorem header_and_size_stored_and_enforced (p : Nat) (hp : p ≤ u64Max) (user : Bytes) (want : Option Nat) :
    checkAndSplitHeader (toText p ++ user) want =
      match want with
      | none => .ok (p, user)
      | some w => if p ≠ w then .error (.err "Parameters/PayloadSizeChanged") else .ok (p, user) :=
  header_roundtrip p hp user want

/-- **Create then reopen returns the same header and size** (through the whole API model,
after any appends, intact file `n ≥ length` or torn anywhere): with the payload size
demanded or retrieved and the header demanded or any, `builder.open` succeeds, returns the
stored header, the stored payload size and the stored lines. -/
theorem reopen_returns_header_and_size (p : Nat) (hp : p ≤ u64Max) (hdr : Option Bytes)
    (hH : (toText p ++ hdr.getD []).length ≤ 65535) (atts : List (Nat × Bytes)) (hts : ∀ a ∈ atts, a.1 < 2^64)
    (hc : TailClean p (acceptAll p [] atts)) (hsize : (Spec.encode p (acceptAll p [] atts)).length < 2^64)
    (n : Nat) (ix : Option Bytes) (hix : IndexState p (acceptAll p [] atts) ix)
    (cb : Option Bool) (pOpt : Option Nat) (hpo : pOpt = none ∨ pOpt = some p)
    (hOpt : Option Bytes) (hho : hOpt = none ∨ hOpt = some (hdr.getD [])) :
    ∃ dir0 s0 dir1 s1, apiNew {} p hdr [] = (dir0, .ok (s0, hdr.getD [])) ∧
      pushAll dir0 s0 atts = some (dir1, s1) ∧
      ∀ data', data' = (dir1.main.data.map fun b => b.take ((seriesHdr p (hdr.getD [])).length + n)) →
      ∃ dir2 s2, apiOpen { dir1 with main := { dir1.main with data := data', index := ix } } pOpt hOpt [] cb
          = (dir2, .ok (s2, hdr.getD [])) ∧ s2.d.p = p ∧
        SessInv (seriesHdr p (hdr.getD [])) ihdr dir2 s2
          ((acceptAll p [] atts).take (Spec.linesWithin p (acceptAll p [] atts) n)) :=
  reopen_after_any_history p hp hdr hH atts hts hc hsize n ix hix cb pOpt hpo hOpt hho

/-- **A different payload size demanded**: an error, and the directory is returned as it
was — nothing repaired, truncated or created. -/
theorem wrong_payload_size_is_error (p : Nat) (hp : p ≤ u64Max) (user : Bytes)
    (hH : (toText p ++ user).length ≤ 65535) (region : Bytes) (dir : Dir) (cb : Option Bool) (caches : List Nat)
    (hdata : dir.main.data = some (seriesHdr p user ++ region))
    (w : Nat) (hw : w ≠ p) (hOpt : Option Bytes) :
    apiOpen dir (some w) hOpt caches cb = (dir, .error (.err "Parameters/PayloadSizeChanged")) :=
  apiOpen_wrong_payload p hp user hH region dir cb caches hdata w hw hOpt

/-- **Opening a missing series fails and creates nothing.** -/
theorem open_missing_creates_nothing (dir : Dir) (hnone : dir.main.data = none) (pOpt : Option Nat)
    (hOpt : Option Bytes) (caches : List Nat) (cb : Option Bool) :
    apiOpen dir pOpt hOpt caches cb = (dir, .error (.err "Open/NotFound")) :=
  apiOpen_missing dir hnone pOpt hOpt caches cb

/-- **Creating over an existing series fails and leaves its files untouched.** -/
theorem create_over_existing_untouched (dir : Dir) (b : Bytes) (hsome : dir.main.data = some b) (p : Nat)
    (hdr : Option Bytes) (caches : List Nat) :
    apiNew dir p hdr caches = (dir, .error (.err "Create/HeaderTooLarge")) ∨
    apiNew dir p hdr caches = (dir, .error (.err "Create/AlreadyExists")) :=
  apiNew_existing dir b hsome p hdr caches

/-- **A create that fails because the header does not fit leaves no files behind** (after the fix). -/
theorem oversized_header_creates_nothing (dir : Dir) (p : Nat) (hdr : Option Bytes) (Bs : List Nat)
    (hlen : (toText p ++ hdr.getD []).length > 65535) :
    apiNew dir p hdr Bs = (dir, .error (.err "Create/HeaderTooLarge")) := by
  unfold apiNew dataNew fileNew
  simp only [hlen, if_true, wrapErr]
  cases dir; rfl

/-- non-vacuity: payload size 0 with an empty header fits -/
example : (toText 0 ++ ([] : Bytes)).length ≤ 65535 := by decide +kernel

end BS.Props.C17
