/-
  C09 — caches survive reopen and are repaired to the same state.
  Property theorems only; helper lemmas live in BS/Proofs.
-/
import BS.Proofs.CacheReopen
import BS.Proofs.AnyMix
import BS.Proofs.CacheDev
import BS.Proofs.CacheGen

namespace BS.Props.C09
open BS BS.Impl

/-- **A missing or torn cache is brought back to exactly the state of an uninterrupted
session.**  The source holds any valid history `xs`.  The cache of bucket size `B` is either
absent, or what a session left of the bucket means of `xs` with its data file cut after ANY
number of bytes of its region (0 … intact), or cut off inside its own file header (after the fix), and its index in any legitimate prior state (absent, cut at any
byte, lagging).  `open_or_create` succeeds, and afterwards the cache's data file is byte for
byte `header ++ encode (bucketMeans B xs)`, its index canonical, its accumulator holds the
incomplete trailing bucket — for EVERY line count of the source (not only multiples of `B`),
every bucket size `1 ≤ B ≤ 2^32`, every payload size and timestamp magnitude. -/
theorem cache_restored_on_open (shdr sihdr : Bytes) (dir : Dir) (src : DataSess) (xs : List Entry) (B : Nat)
    (cb : Option Bool)
    (hsrc : DataInv shdr sihdr dir.main src xs) (hv : Valid src.p xs)
    (hB : 1 ≤ B) (hB32 : B ≤ 2^32) (hH : (cacheUserHeader B).length ≤ 65535)
    (hst : CacheReopenOK src.p B xs (dir.cache B)) :
    ∃ dir' c, cacheOpenOrCreate dir B src cb = (dir', .ok c) ∧ c.B = B ∧ c.d.p = src.p ∧ dir'.main = dir.main ∧
      (∀ B', B' ≠ B → dir'.cache B' = dir.cache B') ∧
      (dir'.cache B).data = some (cacheHdr B ++ Spec.encode src.p (Spec.bucketMeans B (Spec.linMean src.p) xs)) ∧
      c.inBin = xs.length % B ∧
      CacheInv (cacheHdr B) cacheIhdr (dir'.cache B) c xs := by
  obtain ⟨dir', c, hopen, hcB, hcp, hmain, hother, hinv⟩ :=
    cacheOpenOrCreate_correct shdr sihdr dir src xs B cb hsrc hv hB hB32 hH hst
  refine ⟨dir', c, hopen, hcB, hcp, hmain, hother, ?_, ?_, hinv⟩
  · have := hinv.data.data; rw [hcB, hcp] at this; exact this
  · have := hinv.inBin; rw [hcB] at this; exact this

/-- **Any mix of appends and reopens equals one uninterrupted session.**  One round — any
sequence of append attempts, close, `builder.open` with the same cache configuration —
re-establishes the session invariant for the accepted history in the source and in EVERY
cache level, and leaves the source file and every intact cache file byte-identical.  The
invariant pins every file to a function of the accepted history alone (the same function
`caches_exact_in_one_session` (C08) gives for a single session), so after any number of
rounds each cache is identical to the one an uninterrupted session would have produced.
Hypotheses `hc`/`hcc`: no marker-like raw timestamp line (empty for payload ≥ 4; the
recorded known finding), files below 2^64 bytes. -/
theorem append_close_reopen_keeps_caches (p : Nat) (hp : p ≤ u64Max) (user : Bytes)
    (hH : (toText p ++ user).length ≤ 65535)
    (dir : Dir) (s : Sess) (xs : List Entry) (hsp : s.d.p = p)
    (hinv : SessInvC (seriesHdr p user) ihdr dir s xs)
    (atts : List (Nat × Bytes)) (hts : ∀ a ∈ atts, a.1 < 2^64)
    (hcfg : CacheCfgOK (s.caches.map (·.B)))
    (hc : TailClean p (acceptAll p xs atts)) (hsize : (Spec.encode p (acceptAll p xs atts)).length < 2^64)
    (hcc : ∀ B ∈ s.caches.map (·.B),
      TailClean p (Spec.bucketMeans B (Spec.linMean p) (acceptAll p xs atts)) ∧
      (Spec.encode p (Spec.bucketMeans B (Spec.linMean p) (acceptAll p xs atts))).length < 2^64)
    (cb : Option Bool) (pOpt : Option Nat) (hpo : pOpt = none ∨ pOpt = some p)
    (hOpt : Option Bytes) (hho : hOpt = none ∨ hOpt = some user) :
    ∃ dir1 s1 dir2 s2, pushAll dir s atts = some (dir1, s1) ∧
      apiOpen dir1 pOpt hOpt (s.caches.map (·.B)) cb = (dir2, .ok (s2, user)) ∧
      s2.d.p = p ∧ s2.caches.map (·.B) = s.caches.map (·.B) ∧
      SessInvC (seriesHdr p user) ihdr dir2 s2 (acceptAll p xs atts) ∧
      dir2.main.data = dir1.main.data ∧
      (∀ B ∈ s.caches.map (·.B), (dir2.cache B).data = (dir1.cache B).data) :=
  round_preserves p hp user hH dir s xs hsp hinv atts hts hcfg hc hsize hcc cb pOpt hpo hOpt hho

/-- **Any mix of appends and reopens, as one theorem** (payload sizes ≥ 4, where `TailClean` is
void).  Create a series with any admissible cache configuration; then perform ANY sequence of
append attempts (any timestamps and payloads) and close/reopen steps (payload size demanded or
retrieved, header demanded or any, any callback setting).  Nothing panics, no open fails, and
at the end — hence after every prefix — the source files, the index, `range` and EVERY cache
level are exactly those of one uninterrupted session over the accepted lines: the session
invariant for `histAfter`, the history in which reopening changes nothing.  (`acts.length`
bounds the file sizes below 2^64 bytes.) -/
theorem any_mix_of_appends_and_reopens (p : Nat) (hp4 : 4 ≤ p) (hpu : p ≤ u64Max) (hdr : Option Bytes)
    (hH : (toText p ++ hdr.getD []).length ≤ 65535) (Bs : List Nat) (hcfg : CacheCfgOK Bs)
    (acts : List Act) (hN : acts.length * (lineSize p + metaSize p) < 2^64)
    (hok : ∀ a ∈ acts, ActOK p (hdr.getD []) a) :
    ∃ dir0 s0 dir s, apiNew {} p hdr Bs = (dir0, .ok (s0, hdr.getD [])) ∧
      runActs Bs dir0 s0 acts = some (dir, s) ∧
      SessInvC (seriesHdr p (hdr.getD [])) ihdr dir s (histAfter p [] acts) :=
  anyMix_from_creation p hp4 hpu hdr hH Bs hcfg acts hN hok

/-- **Reopen after a crash, caches included**: source data cut at any byte, its index in any
legitimate state, and every configured cache absent or torn at any byte relative to the
surviving source lines: the open succeeds and source and all caches are those of an
uninterrupted session over the surviving lines. -/
theorem reopen_repairs_source_and_caches (p : Nat) (hp : p ≤ u64Max) (user : Bytes)
    (hH : (toText p ++ user).length ≤ 65535)
    (xs : List Entry) (hvx : Valid p xs) (hc : TailClean p xs) (hsize : (Spec.encode p xs).length < 2^64)
    (n : Nat) (dir : Dir) (cb : Option Bool)
    (hdata : dir.main.data = some (seriesHdr p user ++ (Spec.encode p xs).take n))
    (hix : IndexState p xs dir.main.index)
    (pOpt : Option Nat) (hpo : pOpt = none ∨ pOpt = some p)
    (hOpt : Option Bytes) (hho : hOpt = none ∨ hOpt = some user)
    (Bs : List Nat) (hcfg : CacheCfgOK Bs)
    (hcaches : ∀ B ∈ Bs, CacheReopenOK p B (xs.take (Spec.linesWithin p xs n)) (dir.cache B)) :
    ∃ dir' s, apiOpen dir pOpt hOpt Bs cb = (dir', .ok (s, user)) ∧ s.d.p = p ∧ s.cb = cb ∧
      s.caches.map (·.B) = Bs ∧
      SessInvC (seriesHdr p user) ihdr dir' s (xs.take (Spec.linesWithin p xs n)) :=
  apiOpen_recovers_caches p hp user hH xs hvx hc hsize n dir cb hdata hix pOpt hpo hOpt hho Bs hcfg hcaches

/-- `line_pos`, the resume point of the catch-up, is exact for every line number -/
theorem resume_point_exact (hdr ihdr : Bytes) (st : Store) (d : DataSess) (xs : List Entry)
    (hinv : DataInv hdr ihdr st d xs) (hv : Valid d.p xs) (k : Nat) (hk : k < xs.length) :
    ∃ start full, lineOffset d k = some (start, full) ∧
      ∀ {σ : Type} (cb : Option Bool) (proc : σ → Nat → Bytes → PRes σ) (ps : σ),
        readRegion d.p cb proc ps (Spec.encode d.p xs) start (Spec.encode d.p xs).length full
          = foldProc proc ps (xs.drop k) :=
  lineOffset_spec hdr ihdr st d xs hinv hv k hk

/-- **A cache that ran ahead of a torn source never makes the open panic or fail.**  The source
survived as `xs`; the cache of bucket size `B` was written by a session that had seen the longer
history `xs ++ lost` (any lost lines), its data file possibly cut itself at ANY byte, its index
in any legitimate prior state, and it holds more buckets than the surviving lines fill.
`open_or_create` succeeds, and EITHER the cache is emptied and rebuilt to exactly the state of an
uninterrupted session over `xs` (`CacheInvLT`: the invariant of C08; only the in-memory
`last_time` of a rebuilt cache that is still EMPTY may be stale), OR exactly one bucket `z` —
the one straddling the end of the surviving lines, position `xs.length / B`, not newer than the
last surviving line — is kept behind the exact bucket means of `xs`, and the handle skips the
source lines that bucket already accounts for (`CacheKept`, phase 1). -/
theorem cache_ahead_of_torn_source (shdr sihdr : Bytes) (dir : Dir) (src : DataSess) (xs lost : List Entry) (B : Nat)
    (cb : Option Bool)
    (hsrc : DataInv shdr sihdr dir.main src xs) (hvy : Valid src.p (xs ++ lost))
    (hB : 1 ≤ B) (hB32 : B ≤ 2^32) (hH : (cacheUserHeader B).length ≤ 65535)
    (hc : TailClean src.p (Spec.bucketMeans B (Spec.linMean src.p) (xs ++ lost)))
    (hsize : (Spec.encode src.p (Spec.bucketMeans B (Spec.linMean src.p) (xs ++ lost))).length < 2^64)
    (n : Nat)
    (hdata : (dir.cache B).data = some (cacheHdr B ++
      (Spec.encode src.p (Spec.bucketMeans B (Spec.linMean src.p) (xs ++ lost))).take n))
    (hix : IndexState src.p (Spec.bucketMeans B (Spec.linMean src.p) (xs ++ lost)) (dir.cache B).index)
    (hahead : xs.length < Spec.linesWithin src.p (Spec.bucketMeans B (Spec.linMean src.p) (xs ++ lost)) n * B) :
    ∃ dir' c, cacheOpenOrCreate dir B src cb = (dir', .ok c) ∧ c.B = B ∧ c.d.p = src.p ∧ dir'.main = dir.main ∧
      (∀ B', B' ≠ B → dir'.cache B' = dir.cache B') ∧
      (CacheInvLT (cacheHdr B) cacheIhdr (dir'.cache B) c xs ∨
       ∃ z, CacheKept (cacheHdr B) cacheIhdr (dir'.cache B) c xs (xs.length / B) z) := by
  obtain ⟨dir', c, hopen, hcB, hcp, hmain, hother, hres⟩ :=
    cacheOpenOrCreate_ahead shdr sihdr dir src xs lost B cb hsrc hvy hB hB32 hH hc hsize n hdata hix hahead
  refine ⟨dir', c, hopen, hcB, hcp, hmain, hother, ?_⟩
  rcases hres with h | ⟨z, hd, hvz, hr, hsk, h1, h2, h3, hz⟩
  · exact Or.inl h
  · right
    refine ⟨z, ?_⟩
    rw [← hcB]
    apply kept_after_open
    · rw [hcB]; exact hB
    · rw [hcB]; exact hB32
    · rw [hcB, hcp]; exact hd
    · rw [hcB, hcp]; exact hvz
    · rw [hcB]; exact hr
    · rw [hcB]; exact hsk
    · exact h1
    · exact h2
    · exact h3
    · exact hz

/-- **At most the one straddling bucket deviates — for ever.**  From the state in which `open`
kept the straddling bucket `z` at position `q`, feed ANY further source lines `ys` (whatever
makes `xs ++ ys` a valid history): `process` never fails or panics, and afterwards the cache's
data file is `header ++ encode L` for a valid history `L` that agrees with the bucket means of
`xs ++ ys` — the cache of an uninterrupted session — in EVERY position except `q`. -/
theorem kept_bucket_is_the_only_deviation (hdr ihdr : Bytes) (st : Store) (c : CacheSess) (xs ys : List Entry)
    (q : Nat) (z : Entry)
    (h : CacheKept hdr ihdr st c xs q z) (hv : Valid c.d.p (xs ++ ys)) :
    ∃ st' c' L, feedLines st c ys = .ok (st', c') ∧ c'.B = c.B ∧ c'.d.p = c.d.p ∧
      st'.data = some (hdr ++ Spec.encode c.d.p L) ∧ Valid c.d.p L ∧
      ∀ i, i ≠ q → L[i]? = (Spec.bucketMeans c.B (Spec.linMean c.d.p) (xs ++ ys))[i]? := by
  obtain ⟨st', c', hfeed, hB', hp', hk⟩ := kept_forever hdr ihdr ys st c xs q z h hv
  obtain ⟨L, hL, hvL, hagree⟩ := kept_content hdr ihdr st' c' (xs ++ ys) q z hk
  rw [hB', hp'] at hagree
  rw [hp'] at hL hvL
  exact ⟨st', c', L, hfeed, hB', hp', hL, hvL, hagree⟩

/-! ### the repeated form: any number of crashes

`CacheInvD … xs L D`: the cache file is `header ++ encode L` for a valid history `L` that agrees
with the bucket means of the source history `xs` in every position outside the set `D` of
deviating buckets (`cache_state_meaning`); with `D` empty that is exactly the file of an
uninterrupted session (`no_deviation_is_exact`), and the invariant C08 proves from creation on
is the case `D = ∅` (`cacheInvD_of_cacheInv`).  The two theorems below make it an inductive
invariant of everything that can happen to a cache level: appends keep it with the same `D`;
a crash that loses ANY tail of the source and cuts the cache file at ANY byte, followed by
`open`, re-establishes it with `D` grown by at most the one bucket straddling the end of the
surviving lines.  So after any mix of appends, reopens and crashes the open never fails or
panics and at most one bucket per crash deviates from the uninterrupted-session state. -/

/-- appends keep the general invariant, `D` unchanged -/
theorem appends_keep_general_invariant (hdr ihdr : Bytes) (D : Nat → Prop) (ys : List Entry) (st : Store) (c : CacheSess)
    (xs L : List Entry) (h : CacheInvDLT hdr ihdr st c xs L D) (hv : Valid c.d.p (xs ++ ys)) :
    ∃ st' c' L', feedLines st c ys = .ok (st', c') ∧ c'.B = c.B ∧ c'.d.p = c.d.p ∧
      CacheInvDLT hdr ihdr st' c' (xs ++ ys) L' D :=
  feedLinesD hdr ihdr D ys st c xs L h hv

/-- **`open` after ANY crash.**  A session over the history `xs ++ lost` left a cache in the state
`CacheInvD … L0 D` (so its file is `header ++ encode L0`).  Crash: the source comes back as `xs`
(C05), the cache data file is cut at any byte `n`, its index is in any legitimate prior state.
`open_or_create` succeeds and re-establishes the invariant for `xs`; `D` grows by at most the
bucket `xs.length / B` straddling the end of the surviving lines. -/
theorem cache_reopened_after_any_crash (shdr sihdr : Bytes) (dir : Dir) (src : DataSess) (xs lost : List Entry)
    (B : Nat) (cb : Option Bool)
    (hsrc : DataInv shdr sihdr dir.main src xs) (hv : Valid src.p xs)
    (hB : 1 ≤ B) (hB32 : B ≤ 2^32) (hH : (cacheUserHeader B).length ≤ 65535)
    (st0 : Store) (c0 : CacheSess) (L0 : List Entry) (D : Nat → Prop)
    (hc0B : c0.B = B) (hc0p : c0.d.p = src.p)
    (hbefore : CacheInvDLT (cacheHdr B) cacheIhdr st0 c0 (xs ++ lost) L0 D)
    (hc : TailClean src.p L0) (hsize : (Spec.encode src.p L0).length < 2^64)
    (n : Nat) (hdata : (dir.cache B).data = some (cacheHdr B ++ (Spec.encode src.p L0).take n))
    (hix : IndexState src.p L0 (dir.cache B).index) :
    ∃ dir' c L', cacheOpenOrCreate dir B src cb = (dir', .ok c) ∧ c.B = B ∧ c.d.p = src.p ∧ dir'.main = dir.main ∧
      (∀ B', B' ≠ B → dir'.cache B' = dir.cache B') ∧
      CacheInvDLT (cacheHdr B) cacheIhdr (dir'.cache B) c xs L' (fun i => D i ∨ i = xs.length / B) := by
  obtain ⟨hag, hbd⟩ := crash_hyps _ _ st0 c0 xs lost L0 D hbefore
  obtain ⟨_, hvL, _⟩ := cacheInvD_content _ _ st0 c0 (xs ++ lost) L0 D hbefore
  rw [hc0B, hc0p] at hag
  rw [hc0B] at hbd
  rw [hc0p] at hvL
  have hfo : fileOpenExisting (dir.cache B).data
      = .ok (4 + (cacheUserHeader B).length, cacheUserHeader B) := by
    rw [hdata]; exact outerHdr_open _ _ hH
  have : cacheOpenOrCreate dir B src cb = cacheOpen dir B src cb := by
    unfold cacheOpenOrCreate; rw [hfo]
  rw [this]
  exact cacheOpenD shdr sihdr dir src xs B cb hsrc hv hB hB32 hH L0 D hvL hc hsize n hdata hix hag hbd

/-- what the general invariant says about the file -/
theorem cache_state_meaning (hdr ihdr : Bytes) (st : Store) (c : CacheSess) (xs L : List Entry) (D : Nat → Prop)
    (h : CacheInvDLT hdr ihdr st c xs L D) :
    st.data = some (hdr ++ Spec.encode c.d.p L) ∧ Valid c.d.p L ∧
      ∀ i, ¬ D i → L[i]? = (Spec.bucketMeans c.B (Spec.linMean c.d.p) xs)[i]? :=
  cacheInvD_content hdr ihdr st c xs L D h

/-- with no deviating bucket it is the uninterrupted-session file, byte for byte -/
theorem no_deviation_is_exact (hdr ihdr : Bytes) (st : Store) (c : CacheSess) (xs L : List Entry)
    (h : CacheInvDLT hdr ihdr st c xs L (fun _ => False)) :
    st.data = some (hdr ++ Spec.encode c.d.p (Spec.bucketMeans c.B (Spec.linMean c.d.p) xs)) :=
  (cacheInvD_exact hdr ihdr st c xs L h).2

/-- a cache file shorter than its declared header is one of the covered states -/
example (p B : Nat) (xs : List Entry) : CacheReopenOK p B xs { data := some [7] } :=
  Or.inr (Or.inl (by simp [fileOpenExisting]))

/-- non-vacuity: an absent cache is one of the covered states -/
example (p B : Nat) (xs : List Entry) : CacheReopenOK p B xs {} := Or.inl ⟨rfl, rfl⟩

end BS.Props.C09
