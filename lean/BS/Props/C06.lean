/-
  C06 — the sidecar index always matches the data file.
-/
import BS.Proofs.LastMeta

namespace BS.Props.C06
open BS BS.Impl

/-- **Incrementally maintained index = the sections of the data file**, file bytes and
in-memory entries alike: one accepted append keeps `index file = header ++ 16 bytes per
section (timestamp, offset) in file order` and `entries = sections`. -/
theorem incremental_index_exact (hdr ihdr : Bytes) (st : Store) (d : DataSess) (xs : List Entry) (e : Entry)
    (hinv : DataInv hdr ihdr st d xs) (hv : Valid d.p (xs ++ [e])) :
    ∃ st' d', pushData st d e.ts e.pl = .ok (st', d') ∧
      st'.index = some (ihdr ++ Spec.encIndex (Spec.sections d.p (xs ++ [e]))) ∧
      d'.entries = toIEntries (Spec.sections d.p (xs ++ [e])) := by
  obtain ⟨st', d', h1, h2, h3⟩ := pushData_inv hdr ihdr st d xs e hinv hv
  exact ⟨st', d', h1, by rw [h3.index, h2], by rw [h3.entries, h2]⟩

/-- **An index rebuilt from the data is identical to the incrementally maintained one**,
for every payload size, every valid history, every file length relative to the scan
buffer (the chunk size is the one extracted from the source; the equality below holds
for every chunk size, see `chunk_size_irrelevant`). -/
theorem rebuild_equals_incremental (p : Nat) (xs : List Entry) (hv : Valid p xs) :
    extractEntries p (Spec.encode p xs) = toIEntries (Spec.sections p xs) :=
  extractEntries_canonical p xs hv

/-- **No prior state of the index file influences the result of an open**: whatever legitimate
state it is in, the index half of `Data::open_existing` ends with the exact entries and the
exact index file of the data. -/
theorem prior_index_state_irrelevant (p off : Nat) (xs : List Entry) (hvx : Valid p xs) (k : Nat)
    (hsize : (Spec.encode p xs).length < 2^64) (st : Store) (hix : IndexState p xs st.index) :
    ∃ part', indexOpen st p off (Spec.encode p (xs.take k)) (lastSecTs p (xs.take k)) =
      ({ st with index := some (ihdr ++ Spec.encIndex (Spec.sections p (xs.take k))), part := part' },
       .ok (openedData p off (xs.take k))) :=
  indexOpen_correct p off xs hvx k hsize st hix

/-- the buffered section scan equals the single pass for every chunk size ≥ 1 and every content -/
theorem chunk_size_irrelevant (p k : Nat) (hk : 0 < k) (lines : List Bytes) :
    extractChunked p k 0 [] lines = if lines = [] then [] else (metaScan p 0 lines).1 := by
  simpa using extractChunked_eq p k hk 0 [] lines

/-- the index file written by a rebuild is byte-identical to the incremental one -/
theorem rebuilt_file_bytes (st : Store) (p : Nat) (xs : List Entry) (hv : Valid p xs) :
    (rebuildIndex st p (Spec.encode p xs)).1.index = some (Spec.indexFile p xs) ∧
    (rebuildIndex st p (Spec.encode p xs)).1.part = none := by
  unfold rebuildIndex
  rw [extractEntries_canonical p xs hv]
  constructor
  · simp only [Spec.indexFile, Spec.outerHeader, Spec.encIndex, toIEntries, List.map_map]
    have : (encIEntry ∘ fun (s : Nat × Nat) => (⟨s.1, s.2⟩ : IEntry)) = fun s => le8 s.1 ++ le8 s.2 := by
      funext s; simp [encIEntry]
    rw [this]; simp
  · rfl

example : toIEntries (Spec.sections 4 [⟨5, [1,2,3,4]⟩, ⟨70000, [0,0,0,0]⟩]) = [⟨5, 0⟩, ⟨70000, 18⟩] := by
  simp [toIEntries, Spec.sections, Spec.sectionsFrom, Spec.maxDelta, Spec.secSize, Spec.secLines, Spec.rawLines,
    Spec.spill, Spec.inMarker, Spec.lineSize]

end BS.Props.C06
