/-
  C11 — resampling reads through caches are total.
  (Transparency — the result is the resampling read of one stored level — is by
  construction of `apiReadN`: it selects a level and then runs the same `read_n` tail on
  it; C10's theorems then apply to that level.  The substantive part proved here is that
  level selection cannot panic.)
-/
import BS.Impl.World
import BS.Proofs.Seek

namespace BS.Props.C11
open BS BS.Impl

/-- **`estimate_lines` cannot fault except in the arm the code marks `unreachable!`**:
every other of the 16 start/end-area combinations yields a value (all differences
saturate). -/
theorem estimate_total (p dataLen : Nat) (r : RoughPos)
    (h : ¬ ∃ s a b, r.startArea = .tillEnd s ∧ r.endArea = .window a b) :
    ∃ est, estimateLines p dataLen r = .ok est := by
  unfold estimateLines
  cases hs : r.startArea <;> cases he : r.endArea <;> simp_all

/-- **The `unreachable!` arm is unreachable**: a start area "from here till the end of the
data" means every section starts before the start time; an end area "between two
sections" means some section starts at or after the end time; with start ≤ end (checked
by `RoughPos::new`) both cannot hold.  No assumption on the index contents. -/
theorem unreachable_arm (v : DataView) (startTs endTs : Nat) (hle : startTs ≤ endTs)
    (s fs a b fe : Nat)
    (h1 : startSearchBounds v startTs = .ok (.tillEnd s, fs))
    (h2 : endSearchBounds v endTs = .ok (.window a b, fe)) : False := by
  obtain ⟨_, hS1, hS2, _⟩ := bsearch_spec v.entries startTs
  obtain ⟨hEk, _, hE2, _⟩ := bsearch_spec v.entries endTs
  -- start: the binary search ran off the end, so every section is older than startTs
  have hall : ∀ (m : Nat) (x : IEntry), v.entries[m]? = some x → x.ts < startTs := by
    unfold startSearchBounds at h1
    simp only at h1
    split at h1
    · split at h1 <;> simp at h1
    · split at h1
      · split at h1 <;> simp at h1
      · split at h1
        · rename_i hlen
          intro m x hx
          have hm : m < v.entries.length := (List.getElem?_eq_some_iff.mp hx).1
          exact hS1 m x (by omega) hx
        · split at h1
          · split at h1
            · simp at h1
            · split at h1 <;> simp at h1
          · simp at h1
  -- end: the entry the search stopped at is not older than endTs
  unfold endSearchBounds at h2
  simp only at h2
  split at h2
  · split at h2 <;> simp at h2
  · split at h2
    · simp at h2
    · split at h2
      · split at h2 <;> simp at h2
      · split at h2
        · rename_i prev next hprev hnext
          have := (hE2 next hnext).1
          have := hall _ next hnext
          omega
        · simp at h2

example : ∃ est, estimateLines 4 100 ⟨5, .window 12 60, 0, 9, .window 12 60, 0⟩ = .ok est :=
  estimate_total 4 100 _ (by simp)

end BS.Props.C11
