/-
  C11 — resampling reads through caches are total.
  (Transparency — the result is the resampling read of one stored level — is by
  construction of `apiReadN`: it selects a level and then runs the same `read_n` tail on
  it; C10's theorems then apply to that level.  The substantive part proved here is that
  level selection cannot panic.)
-/
import BS.Impl.World

namespace BS.Props.C11
open BS BS.Impl

/-- **`estimate_lines` cannot fault except in the arm the code marks `unreachable!`**:
every other of the 16 start/end-area combinations yields a value (all differences
saturate). -/
theorem estimate_total (p dataLen : Nat) (r : RoughPos)
    (h : ¬ ∃ s a b, r.startArea = .tillEnd s ∧ r.endArea = .window a b) :
    ∃ est, estimateLines p dataLen r = .ok est := by
  unfold estimateLines
  cases hs : r.startArea <;> cases he : r.endArea <;> simp_all

theorem takeWhile_length_all {α} (q : α → Bool) (l : List α) (h : (l.takeWhile q).length = l.length) :
    ∀ x ∈ l, q x = true := by
  induction l with
  | nil => simp
  | cons a t ih =>
    simp only [List.takeWhile_cons] at h
    split at h
    · rename_i ha
      intro x hx
      simp only [List.mem_cons] at hx
      rcases hx with rfl | hx
      · exact ha
      · exact ih (by simpa using h) x hx
    · simp at h

theorem takeWhile_length_le {α} (q : α → Bool) (l : List α) : (l.takeWhile q).length ≤ l.length := by
  induction l with
  | nil => simp
  | cons a t ih =>
    simp only [List.takeWhile_cons]
    split <;> simp <;> omega

theorem getElem_takeWhile_length {α} (q : α → Bool) (l : List α) (x : α)
    (h : l[(l.takeWhile q).length]? = some x) : q x = false := by
  induction l with
  | nil => simp at h
  | cons a t ih =>
    simp only [List.takeWhile_cons] at h
    split at h
    · simp at h; exact ih h
    · rename_i ha; simp at h; subst h; simpa using ha

/-- **The `unreachable!` arm is unreachable**: a start area "from here till the end of the
data" means every section starts before the start time; an end area "between two
sections" means some section starts at or after the end time; with start ≤ end (checked
by `RoughPos::new`) both cannot hold.  No assumption on the index contents. -/
theorem unreachable_arm (v : DataView) (startTs endTs : Nat) (hle : startTs ≤ endTs)
    (s fs a b fe : Nat)
    (h1 : startSearchBounds v startTs = .ok (.tillEnd s, fs))
    (h2 : endSearchBounds v endTs = .ok (.window a b, fe)) : False := by
  -- start: the binary search ran off the end
  have hall : ∀ e ∈ v.entries, e.ts < startTs := by
    unfold startSearchBounds bsearch at h1
    simp only [bind, Except.bind, pure, Except.pure] at h1
    have key : (v.entries.takeWhile fun e => decide (e.ts < startTs)).length = v.entries.length := by
      generalize hi : (v.entries.takeWhile fun e => decide (e.ts < startTs)).length = i at h1
      cases hget : v.entries[i]? with
      | none =>
        have := List.getElem?_eq_none_iff.mp hget
        have hle' : i ≤ v.entries.length := by rw [← hi]; exact takeWhile_length_le _ _
        omega
      | some x =>
        exfalso
        simp only [hget] at h1
        by_cases hx : (x.ts == startTs) = true
        · simp [hx, getE, hget] at h1
        · simp only [hx] at h1
          by_cases hi0 : i = 0
          · simp [hi0, getE] at h1
            split at h1 <;> simp at h1
          · simp only [hi0, if_false, Bool.false_eq_true] at h1
            have hlt : i < v.entries.length := by
              have := List.getElem?_eq_some_iff.mp hget
              exact this.1
            have hne : ¬ i = v.entries.length := by omega
            simp only [hne, if_false, getE, hget] at h1
            split at h1
            · simp at h1
            · split at h1 <;> (try simp at h1) <;> (split at h1 <;> simp at h1)
    intro e he
    have := takeWhile_length_all _ _ key e he
    simpa using this
  -- end: the entry the binary search stopped at is not before the end time
  unfold endSearchBounds bsearch at h2
  simp only [bind, Except.bind, pure, Except.pure] at h2
  generalize hi : (v.entries.takeWhile fun e => decide (e.ts < endTs)).length = i at h2
  cases hget : v.entries[i]? with
  | none =>
    simp only [hget] at h2
    have hlen : i = v.entries.length := by
      have := List.getElem?_eq_none_iff.mp hget
      have hle' : i ≤ v.entries.length := by rw [← hi]; exact takeWhile_length_le _ _
      omega
    by_cases hi0 : i = 0
    · simp [hi0] at h2
    · simp [hi0, hlen, getE] at h2
      split at h2
      · simp at h2
      · cases hg : v.entries[v.entries.length - 1]? <;> simp [hg] at h2
  | some x =>
    have hx : ¬ x.ts < endTs := by
      have := getElem_takeWhile_length (fun e => decide (e.ts < endTs)) v.entries x (by rw [hi]; exact hget)
      simpa using this
    have hmem : x ∈ v.entries := List.mem_of_getElem? hget
    have := hall x hmem
    omega

example : ∃ est, estimateLines 4 100 ⟨5, .window 12 60, 0, 9, .window 12 60, 0⟩ = .ok est :=
  estimate_total 4 100 _ (by simp)

end BS.Props.C11
