/-
  C07 — files conform to the documented v1 format, in both directions.
-/
import BS.Proofs.SpecDecode
import BS.Proofs.SpecFile
import BS.Proofs.AnyLayout

namespace BS.Props.C07
open BS BS.Impl

/-- (→) **An independent reader decodes what the library writes.**  The reference decoder
of `BS/Spec.lean` knows only the documented layout (fixed-size lines, LE 16-bit deltas,
two marker lines opening each section, remaining timestamp bytes in raw lines); it shares
no definition with the model of the implementation.  For every payload size and every
valid history it decodes the canonical data region to exactly what was appended. -/
theorem reference_decoder_reads_canonical (p : Nat) (xs : List Entry) (hv : Valid p xs) :
    Spec.refDecode p (Spec.encode p xs) = some xs :=
  refDecode_encode p xs hv

/-- **The five section layouts of `meta::write` are the documented layout**, byte for
byte, for every payload size and every 64-bit timestamp. -/
theorem section_layout_is_documented (p ts : Nat) :
    metaWrite p ts = Spec.encSection p ts :=
  (spec_encSection p ts).symm

/-- `meta::read` inverts `meta::write` for every payload size and timestamp below 2^64,
and the section occupies exactly `lines_per_metainfo` full lines that start with two
marker lines. -/
theorem section_roundtrip (p ts : Nat) (h : ts < 2^64) :
    ∃ l1 l2 raws, metaWriteLines p ts = l1 :: l2 :: raws ∧ raws.length = rawCount p ∧
      isMarker l1 = true ∧ isMarker l2 = true ∧ metaTs p l1 l2 raws = ts ∧
      (metaWriteLines p ts).length = lpm p ∧ ∀ l ∈ metaWriteLines p ts, l.length = lineSize p := by
  obtain ⟨l1, l2, raws, h1, h2, h3, h4, h5⟩ := Impl.section_roundtrip p ts h
  exact ⟨l1, l2, raws, h1, h2, h3, h4, h5, metaWriteLines_count p ts, metaWriteLines_length p ts⟩

/-- (←) **The library's reader reads every canonically laid out region**: the model of
`read_with_processor` run over the canonical encoding feeds the processor exactly the
entries, whatever the processor is. -/
theorem reader_reads_canonical {σ : Type} (p : Nat) (cb : Option Bool) (proc : σ → Nat → Bytes → PRes σ) (ps : σ)
    (e : Entry) (es : List Entry) (hv : Valid p (e :: es)) :
    readRegion p cb proc ps (Spec.encode p (e :: es)) (metaSize p) (Spec.encode p (e :: es)).length e.ts
      = foldProc proc ps (e :: es) :=
  readRegion_canonical p cb proc ps e es hv

example : Valid 0 [⟨65535, []⟩, ⟨65536, []⟩] := by simp [Valid]

/-- **The whole file, forward direction.**  The independent reference decoder of `Spec.lean` —
which knows only the documented layout: a u16 header length, two newlines, a u32 text length, the
preamble text with the payload size in decimal, the user header, then lines and marker lines — takes
the canonical file of ANY valid history, for any payload size a usize holds and any user header
(any bytes, also ones that look like the preamble's own wording), and returns exactly
(user header, payload size, history).  Together with C15 (the library's file IS the canonical file,
byte for byte) this is "a file written by the library can be decoded by an independent reader". -/
theorem whole_file_decodes (p : Nat) (hp : p ≤ u64Max) (user : Bytes) (xs : List Entry) (hv : Valid p xs)
    (hH : (Spec.innerHeader p user).length ≤ 65535) :
    Spec.refDecodeFile (Spec.dataFile p user xs) = some (user, p, xs) :=
  Spec.refDecodeFile_dataFile p hp user xs hv hH

/-! ### reverse direction beyond what the library itself writes

`Spec.encodeW p fx` is ANY layout the documentation allows for the history `fx.map (·.2)`: a
full-timestamp section in front of the first line and of every line whose distance to the last
full timestamp does not fit 16 bits (it must), and in front of any other line the writer liked
(flag `true` — an earlier release, another implementation, a writer that starts a section per
session).  The canonical writer is the all-`false` case (`any_layout_generalises_canonical`). -/

theorem any_layout_generalises_canonical (p : Nat) (xs : List Entry) :
    Spec.encodeW p (xs.map fun e => (false, e)) = Spec.encode p xs :=
  encFromW_canonical p xs none

/-- (←) **The library's reader reads every conformant layout, canonical or not**: over the whole
data region it feeds the processor exactly the entries, whatever the processor, payload size,
callback setting, and wherever the optional sections sit (also at the end of a 16 KiB read
buffer: the reader's chunking is part of the model). -/
theorem reader_reads_any_layout {σ : Type} (p : Nat) (cb : Option Bool) (proc : σ → Nat → Bytes → PRes σ) (ps : σ)
    (b : Bool) (e : Entry) (es : List (Bool × Entry)) (hv : Valid p (e :: es.map (·.2))) :
    readRegion p cb proc ps (Spec.encodeW p ((b, e) :: es)) (metaSize p) (Spec.encodeW p ((b, e) :: es)).length e.ts
      = foldProc proc ps (e :: es.map (·.2)) :=
  readRegion_anyLayout p cb proc ps b e es hv

/-- (←) **The index the library rebuilds for a foreign file lists exactly that file's sections**
(full timestamp and byte offset of each), optional ones included — what `builder.open` does with
a v1 file that arrives without its sidecar index. -/
theorem index_rebuilt_for_any_layout (p : Nat) (fx : List (Bool × Entry)) (hv : Valid p (fx.map (·.2))) :
    extractEntries p (Spec.encodeW p fx) = toIEntries (Spec.sectionsW p fx) :=
  extractEntries_anyLayout p fx hv

/-- the independent reference decoder agrees: every conformant layout decodes to its history
(this is the oracle the differential check uses for planted foreign files) -/
theorem reference_decoder_reads_any_layout (p : Nat) (fx : List (Bool × Entry)) (hv : Valid p (fx.map (·.2))) :
    Spec.refDecode p (Spec.encodeW p fx) = some (fx.map (·.2)) :=
  refDecode_encodeW p fx hv

/-- a layout that is conformant but not canonical: a section in front of the second line
although its delta would fit -/
example : Spec.encodeW 0 [(false, ⟨5, []⟩), (true, ⟨6, []⟩)] ≠ Spec.encode 0 [⟨5, []⟩, ⟨6, []⟩] := by decide

end BS.Props.C07
