/-
  C09, all cache levels at once.  `Props/C09.lean` states the crash theorem for ONE cache level
  (`cache_reopened_after_any_crash`); here it is lifted over the whole cache configuration of a
  series (`openCaches`) and through `builder.open` (`apiOpen`): after a crash that tears the source
  at any byte and cuts EVERY cache file at its own byte, with every index file in any legitimate
  prior state, the open succeeds, the source is repaired to the completely written prefix and every
  level satisfies the general cache invariant again, its set of deviating buckets grown by at most
  the one bucket straddling the end of the surviving lines.
-/
import BS.Props.C09

namespace BS.Props.C09
open BS BS.Impl

/-- one cache level as a crash leaves it: a session over `xs ++ lost` had it in the state
`CacheInvDLT … L0 D` (file = header ++ encode L0, deviating buckets `D`); now the data file is cut
after `n` bytes and the index is in any legitimate prior state -/
def CrashedCache (p B : Nat) (xs lost : List Entry) (D : Nat → Prop) (st : Store) : Prop :=
  ∃ (st0 : Store) (c0 : CacheSess) (L0 : List Entry) (n : Nat),
    c0.B = B ∧ c0.d.p = p ∧ CacheInvDLT (cacheHdr B) cacheIhdr st0 c0 (xs ++ lost) L0 D ∧
    TailClean p L0 ∧ (Spec.encode p L0).length < 2^64 ∧
    st.data = some (cacheHdr B ++ (Spec.encode p L0).take n) ∧ IndexState p L0 st.index

/-- a level after the open: the general invariant for the surviving history, `D` grown by at most
the straddling bucket -/
def RepairedCache (dir : Dir) (xs : List Entry) (Dof : Nat → Nat → Prop) (c : CacheSess) : Prop :=
  ∃ L', CacheInvDLT (cacheHdr c.B) cacheIhdr (dir.cache c.B) c xs L' (fun i => Dof c.B i ∨ i = xs.length / c.B)

/-- **every level of the configuration, after any crash** -/
theorem openCaches_after_any_crash (shdr sihdr : Bytes) (src : DataSess) (xs lost : List Entry) (cb : Option Bool)
    (hv : Valid src.p xs) (Dof : Nat → Nat → Prop) :
    ∀ (Bs : List Nat) (done : List CacheSess) (dir : Dir),
    DataInv shdr sihdr dir.main src xs →
    CacheCfgOK (done.reverse.map (·.B) ++ Bs) →
    (∀ B ∈ Bs, CrashedCache src.p B xs lost (Dof B) (dir.cache B)) →
    (∀ c ∈ done, c.d.p = src.p ∧ RepairedCache dir xs Dof c) →
    ∃ dir' cs, openCaches false dir src cb Bs done = (dir', .ok cs) ∧ dir'.main = dir.main ∧
      cs.map (·.B) = done.reverse.map (·.B) ++ Bs ∧
      ∀ c ∈ cs, c.d.p = src.p ∧ RepairedCache dir' xs Dof c := by
  intro Bs
  induction Bs with
  | nil =>
    intro done dir _ _ _ hdone
    refine ⟨dir, done.reverse, by simp [openCaches], rfl, by simp, ?_⟩
    intro c hc; exact hdone c (by simpa using hc)
  | cons B Bs ih =>
    intro done dir hsrc hcfg hst hdone
    obtain ⟨hnd, hok⟩ := hcfg
    obtain ⟨hB1, hB32, hhdr⟩ := hok B (by simp)
    obtain ⟨st0, c0, L0, n, hc0B, hc0p, hbefore, hclean, hsize, hdata, hix⟩ := hst B (by simp)
    obtain ⟨dir1, c, L', hstep, hcB, hcp, hmain1, hother1, hinv1⟩ :=
      cache_reopened_after_any_crash shdr sihdr dir src xs lost B cb hsrc hv hB1 hB32 hhdr st0 c0 L0 (Dof B)
        hc0B hc0p hbefore hclean hsize n hdata hix
    have hneB_done : ∀ x ∈ done, x.B ≠ B := by
      intro x hx
      exact (List.pairwise_append.mp hnd).2.2 x.B (by simp; exact ⟨x, hx, rfl⟩) B (by simp)
    have hneB_Bs : ∀ B' ∈ Bs, B' ≠ B := by
      intro B' hB'
      have h2 := (List.pairwise_append.mp hnd).2.1
      exact fun h => (List.pairwise_cons.mp h2).1 B' hB' h.symm
    have hcfg' : CacheCfgOK ((c :: done).reverse.map (·.B) ++ Bs) := by
      constructor
      · simpa [hcB] using hnd
      · intro B' hB'; apply hok; simpa [hcB] using hB'
    have hst' : ∀ B' ∈ Bs, CrashedCache src.p B' xs lost (Dof B') (dir1.cache B') := by
      intro B' hB'
      rw [hother1 B' (hneB_Bs B' hB')]
      exact hst B' (by simp [hB'])
    have hdone' : ∀ x ∈ c :: done, x.d.p = src.p ∧ RepairedCache dir1 xs Dof x := by
      intro x hx
      simp only [List.mem_cons] at hx
      rcases hx with rfl | hx
      · exact ⟨hcp, L', by rw [hcB]; exact hinv1⟩
      · obtain ⟨h1, Lx, h2⟩ := hdone x hx
        exact ⟨h1, Lx, by rw [hother1 x.B (hneB_done x hx)]; exact h2⟩
    have hsrc1 : DataInv shdr sihdr dir1.main src xs := by rw [hmain1]; exact hsrc
    obtain ⟨dir', cs, hopen, hmain', hBs', hall⟩ := ih (c :: done) dir1 hsrc1 hcfg' hst' hdone'
    refine ⟨dir', cs, ?_, by rw [hmain', hmain1], by simpa [hcB] using hBs', hall⟩
    rw [openCaches]
    simp only [Bool.false_eq_true, if_false, hstep]
    exact hopen

/-- **`builder.open` after any crash, with the whole cache configuration.**  The series was created
with payload size `p` and header `user` and a session appended `xs`; every cache level `B` was in
the state `CacheInvDLT … (Dof B)` for `xs`.  Crash: the data file is cut after `n` bytes (the
completely written prefix `ys` survives, `lost` does not), its index is in any legitimate state,
every cache data file is cut at its own byte with its index in any legitimate state.  `builder.open`
with the same configuration succeeds; the source is the canonical file of `ys`; every level satisfies
the general invariant for `ys` with at most the straddling bucket added to its deviations. -/
theorem apiOpen_after_any_crash (p : Nat) (hp : p ≤ u64Max) (user : Bytes) (hH : (toText p ++ user).length ≤ 65535)
    (xs : List Entry) (hvx : Valid p xs) (hc : TailClean p xs) (hsize : (Spec.encode p xs).length < 2^64)
    (n : Nat) (dir : Dir) (cb : Option Bool)
    (hdata : dir.main.data = some (seriesHdr p user ++ (Spec.encode p xs).take n))
    (hix : IndexState p xs dir.main.index)
    (pOpt : Option Nat) (hpo : pOpt = none ∨ pOpt = some p)
    (hOpt : Option Bytes) (hho : hOpt = none ∨ hOpt = some user)
    (Bs : List Nat) (hcfg : CacheCfgOK Bs) (Dof : Nat → Nat → Prop)
    (hcaches : ∀ B ∈ Bs, CrashedCache p B (xs.take (Spec.linesWithin p xs n)) (xs.drop (Spec.linesWithin p xs n))
        (Dof B) (dir.cache B)) :
    ∃ dir' s, apiOpen dir pOpt hOpt Bs cb = (dir', .ok (s, user)) ∧ s.d.p = p ∧
      s.caches.map (·.B) = Bs ∧
      DataInv (seriesHdr p user) ihdr dir'.main s.d (xs.take (Spec.linesWithin p xs n)) ∧
      s.range = firstLast (xs.take (Spec.linesWithin p xs n)) ∧
      ∀ c ∈ s.caches, c.d.p = p ∧ RepairedCache dir' (xs.take (Spec.linesWithin p xs n)) Dof c := by
  have hlenH : (seriesHdr p user).length = 4 + (toText p ++ user).length := outerHdr_length _
  obtain ⟨st', d, hopen, hdp, hinv⟩ :=
    dataOpen_recovers p xs hvx hc hsize (seriesHdr p user) n dir.main cb hdata hix
  rw [hlenH] at hopen
  have hvy : Valid p (xs.take (Spec.linesWithin p xs n)) :=
    ⟨List.Pairwise.sublist (List.take_sublist _ _) hvx.1, fun x hx => hvx.2 x (List.mem_of_mem_take hx)⟩
  generalize xs.take (Spec.linesWithin p xs n) = ys at hinv hvy hcaches
  generalize xs.drop (Spec.linesWithin p xs n) = lost at hcaches
  have hvd : Valid d.p ys := by rw [hdp]; exact hvy
  have hcaches' : ∀ B ∈ Bs, CrashedCache d.p B ys lost (Dof B) (({ dir with main := st' } : Dir).cache B) := by
    intro B hB; rw [hdp]; exact hcaches B hB
  obtain ⟨dir', cs, hoc, hmain, hBs, hall⟩ :=
    openCaches_after_any_crash (seriesHdr p user) ihdr d ys lost cb hvd Dof Bs [] { dir with main := st' } hinv
      (by simpa using hcfg) hcaches' (by simp)
  unfold apiOpen
  rw [hdata]
  unfold seriesHdr
  rw [outerHdr_open _ _ hH]
  simp only
  have hsplit : checkAndSplitHeader (toText p ++ user) pOpt = .ok (p, user) := by
    rw [header_roundtrip p hp user pOpt]
    rcases hpo with rfl | rfl <;> simp
  rw [hsplit]
  simp only [hopen]
  have hrange : rangeFromData d = .ok (firstLast ys) := by
    unfold rangeFromData
    rw [hinv.entries, hinv.lastTime, hdp]
    cases ys with
    | nil => simp [Spec.sections, Spec.sectionsFrom, toIEntries, firstLast]
    | cons e es =>
      obtain ⟨rest, hsec⟩ := sections_cons p e es
      rw [hsec]
      simp only [toIEntries, List.map_cons, List.head?_cons]
      have : (e :: es).getLast? = some ((e :: es).getLast (by simp)) := List.getLast?_eq_some_getLast _
      simp [this, firstLast]
  rw [hrange]
  simp only [hoc]
  have hfin : headerResult hOpt user = .ok user := by
    unfold headerResult
    rcases hho with rfl | rfl <;> simp
  rw [hfin]
  refine ⟨_, _, rfl, hdp, by simpa using hBs, ?_, rfl, ?_⟩
  · show DataInv _ _ dir'.main d ys
    rw [hmain]; exact hinv
  · intro c hc'
    obtain ⟨h1, h2⟩ := hall c hc'
    exact ⟨by rw [h1, hdp], h2⟩

/-- the hypotheses are met by every cache an uninterrupted session leaves (C08's exact invariant):
cut its file anywhere, put its index in any legitimate state - that is a `CrashedCache` with no
deviating bucket yet -/
theorem crashedCache_of_session (p B : Nat) (xs lost : List Entry) (st0 : Store) (c0 : CacheSess)
    (hB : c0.B = B) (hp : c0.d.p = p) (hinv : CacheInv (cacheHdr B) cacheIhdr st0 c0 (xs ++ lost))
    (hv : Valid p (xs ++ lost))
    (hclean : TailClean p (Spec.bucketMeans B (Spec.linMean p) (xs ++ lost)))
    (hsize : (Spec.encode p (Spec.bucketMeans B (Spec.linMean p) (xs ++ lost))).length < 2^64)
    (n : Nat) (ix : Option Bytes) (hix : IndexState p (Spec.bucketMeans B (Spec.linMean p) (xs ++ lost)) ix) :
    CrashedCache p B xs lost (fun _ => False)
      { data := some (cacheHdr B ++ (Spec.encode p (Spec.bucketMeans B (Spec.linMean p) (xs ++ lost))).take n), index := ix } := by
  refine ⟨st0, c0, Spec.bucketMeans B (Spec.linMean p) (xs ++ lost), n, hB, hp, ?_, hclean, hsize, rfl, hix⟩
  have h := cacheInvD_of_cacheInv (cacheHdr B) cacheIhdr st0 c0 (xs ++ lost) hinv (by rw [hp]; exact hv)
  rw [hB, hp] at h
  exact ⟨c0, h, Or.inl rfl⟩

end BS.Props.C09
