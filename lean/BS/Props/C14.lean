/-
  C14 — the reported line count of a range is consistent with reading it.
-/
import BS.Proofs.ReadRange

namespace BS.Props.C14
open BS BS.Impl

/-- **`n_lines_between` vs `read_all`**, for every pair of bounds, under the session
invariant: when no entry lies inside the bounds the count is zero or a range error; otherwise
it is the number `k` of entries a read returns plus `lines_per_metainfo` for each of `m ≤ k`
sections — those opened by entries inside the range (the header of the first entry's own
section only when the read starts before it). -/
theorem count_consistent (hdr ihdr : Bytes) (dir : Dir) (s : Sess) (e : Entry) (es : List Entry)
    (hinv : SessInv hdr ihdr dir s (e :: es)) (sb eb : Bound) :
    let want := Spec.filterBounds (toSpecBound sb) (toSpecBound eb) (e :: es)
    (want = [] ∧ (apiNLines dir s sb eb = .ok 0 ∨ ∃ c, apiNLines dir s sb eb = .error (.err ("InvalidRange/" ++ c)))) ∨
    (want ≠ [] ∧ ∃ m, m ≤ want.length ∧ apiNLines dir s sb eb = .ok (want.length + lpm s.d.p * m)) :=
  nLines_range hdr ihdr dir s e es hinv sb eb

/-- the byte length of the sought range: selected lines plus the sections they open -/
theorem range_bytes (p : Nat) (xs : List Entry) (hv : Valid p xs) (want : List Entry) (ps : Pos)
    (hlines : ∃ i j e, i < j ∧ j ≤ xs.length ∧ want = (xs.drop i).take (j - i) ∧ ps.stop = offA p xs j ∧
      ((ps.start = offA p xs i) ∨ (Opens xs i e ∧ ps.start = offA p xs i + metaSize p))) :
    ∃ F, ps.stop - ps.start = lineSize p * want.length + metaSize p * (Spec.sectionsFrom p F 0 want).length :=
  pos_bytes p xs hv want ps hlines

example : (Pos.mk 12 60 0).lines 4 = 8 := by decide

end BS.Props.C14
