/-
  C01 — round-trip fidelity of a full read.
  Property theorems only; helper lemmas live in BS/Proofs.
-/
import BS.Proofs.Accessors

namespace BS.Props.C01
open BS BS.Impl

/-- **Full read = what was appended.**  For every payload size `p`, every strictly
increasing history below 2^64 with arbitrary payload bytes, every callback setting:
`Data::read_all` (16 KiB buffers, section carry-over, the monotonicity assert) over the
data region the canonical writer produced for that history — from just after the
first section to the end, which is the `Pos` an unbounded seek yields — returns exactly
the appended entries, in order; it does not panic and does not report corruption. -/
theorem full_read_roundtrip (p : Nat) (cb : Option Bool) (e : Entry) (es : List Entry)
    (hv : Valid p (e :: es)) (d : DataSess) (hd : d.p = p) :
    dataReadAll (Spec.encode p (e :: es)) d cb
      ⟨metaSize p, (Spec.encode p (e :: es)).length, e.ts⟩ = .ok (e :: es) := by
  unfold dataReadAll
  simp only [hd]
  rw [readRegion_canonical p cb collectProc {} e es hv]
  obtain ⟨l, hl⟩ := fold_collect_init (e :: es) hv.1
  simp [hl]

/-- **End to end on the model of the API**: in every state that satisfies the session
invariant for a non-empty history (established at creation, preserved by every accepted
`push_line` — C03), `read_all(..)` — seek with unbounded bounds, then the buffered read —
returns exactly that history. -/
theorem read_all_returns_history (hdr ihdr : Bytes) (dir : Dir) (s : Sess) (e : Entry) (es : List Entry)
    (hinv : SessInv hdr ihdr dir s (e :: es)) :
    apiReadAll dir s .unb .unb = .ok (e :: es) :=
  readAll_unbounded hdr ihdr dir s e es hinv

/-- **The buffer size is irrelevant** (and so is where sections fall relative to buffer
boundaries, how often in a row a boundary splits a section, and how large the file is):
for every number `k ≥ 1` of lines per refill, every line content, every processor and
every callback answer the buffered reader with carry-over computes what a single pass
over all lines computes. -/
theorem buffer_size_irrelevant {σ : Type} (p k : Nat) (hk : 0 < k) (cb : Option Bool)
    (proc : σ → Nat → Bytes → PRes σ) (st : RSt σ) (lines : List Bytes) :
    readChunked p k cb proc st [] lines =
      if lines = [] then .ok st else (scan p cb proc st lines).map (·.1) := by
  simpa using readChunked_eq p k hk cb proc st [] lines

/-- the carry never exceeds the room the real buffer reserves (5 lines) -/
theorem carry_fits (p : Nat) {σ : Type} (cb : Option Bool) (proc : σ → Nat → Bytes → PRes σ) (st st' : RSt σ)
    (A : List Bytes) (n : Nat) (h : scan p cb proc st A = .ok (st', n)) : n ≤ 5 := by
  have := scan_pending_le p cb proc st A st' n h
  have : rawCount p ≤ 4 := by unfold rawCount; split <;> omega
  omega

/-- non-vacuity: a history with two sections, a marker-like payload and the largest timestamp -/
example : Valid 2 [⟨5, [1, 2]⟩, ⟨70000, [255, 255]⟩, ⟨2^64 - 1, [0, 0]⟩] := by
  simp [Valid]

end BS.Props.C01
