/-
  C11 — resampling reads through caches (second file: the theorem that needs the cache invariant).
-/
import BS.Proofs.ReadNCaches

namespace BS.Props.C11
open BS BS.Impl

/-- **`read_n` through caches is the resampling read of one stored level.**  In every state
satisfying the session invariant with any number of cache levels (listed by increasing
bucket size, the documented precondition), for every `n ≥ 1` and EVERY pair of bounds:
no panic (ordering assert, level selection, `estimate_lines`, seek, read); a level
`lvl ≤ #caches` is chosen; and the result is exactly uniform bucket means (one `b ≥ 1`) of
the lines that level stores inside the bounds — so every returned timestamp lies within the
bounds and is a mean of stored lines of ONE level — at most `2n` of them; or an empty
selection / range error when the level has nothing in range.  The level's content itself is
pinned by C08/C09: cache `B` stores exactly `bucketMeans B history`. -/
theorem read_n_through_caches (hdr ihdr' : Bytes) (dir : Dir) (s : Sess) (xs : List Entry)
    (hinv : SessInvC hdr ihdr' dir s xs)
    (hsorted : (s.caches.map (·.B)).Pairwise (· ≤ ·))
    (n : Nat) (hn : 1 ≤ n) (sb eb : Bound)
    (hsize0 : (Spec.encode s.d.p xs).length / lineSize s.d.p ≤ 2^32)
    (hsizes : ∀ c ∈ s.caches,
      (Spec.encode s.d.p (Spec.bucketMeans c.B (Spec.linMean s.d.p) xs)).length / lineSize s.d.p ≤ 2^32) :
    ∃ lvl M, lvl ≤ s.caches.length ∧
      ((lvl = 0 ∧ M = xs) ∨
       (∃ c, 0 < lvl ∧ s.caches[lvl - 1]? = some c ∧ M = Spec.bucketMeans c.B (Spec.linMean s.d.p) xs)) ∧
      TailResult s.d.p n M sb eb (apiReadN dir s n sb eb) :=
  readN_caches hdr ihdr' dir s xs hinv hsorted n hn sb eb hsize0 hsizes

/-- level selection never panics and stays within the configured levels -/
theorem level_selection_total (s : Sess) (n : Nat) (sb eb : Bound)
    (hnp : ∀ c ∈ s.caches, roughPos c.d.view sb eb ≠ .error .panic) :
    ∃ lvl, lvl ≤ s.caches.length ∧ selectLevel s n sb eb = .ok lvl :=
  selectLevel_ok s n sb eb hnp

/-- `estimate_lines` has a value for whatever `RoughPos::new` returns -/
theorem estimate_total_for_any_seek (v : DataView) (sb eb : Bound) (r : RoughPos) (p dl : Nat)
    (h : roughPos v sb eb = .ok r) : ∃ est, estimateLines p dl r = .ok est :=
  roughPos_estimate_ok v sb eb r p dl h

theorem okStart_mono (b : Spec.Bound) (x y : Nat) (h : x ≤ y) (hx : b.okStart x = true) : b.okStart y = true := by
  cases b <;> simp [Spec.Bound.okStart] at hx ⊢ <;> omega

theorem okEnd_mono (b : Spec.Bound) (x y : Nat) (h : y ≤ x) (hx : b.okEnd x = true) : b.okEnd y = true := by
  cases b <;> simp [Spec.Bound.okEnd] at hx ⊢ <;> omega

/-- **the samples `read_n` returns have strictly increasing timestamps inside the bounds** -/
theorem samples_increasing_within_bounds (p n : Nat) (M : List Entry) (hv : Valid p M) (sb eb : Bound)
    (r : R (List Entry)) (h : TailResult p n M sb eb r) (out : List Entry) (hr : r = .ok out) :
    out.Pairwise (fun a b => a.ts < b.ts) ∧
    ∀ y ∈ out, (toSpecBound sb).okStart y.ts = true ∧ (toSpecBound eb).okEnd y.ts = true := by
  rcases h with ⟨b, hb, hres, _⟩ | ⟨_, c, hres⟩
  · rw [hr] at hres
    simp only [Except.ok.injEq] at hres
    subst hres
    have hsub : (Spec.filterBounds (toSpecBound sb) (toSpecBound eb) M).Sublist M := by
      unfold Spec.filterBounds; exact List.filter_sublist
    have hvf : Valid p (Spec.filterBounds (toSpecBound sb) (toSpecBound eb) M) :=
      ⟨List.Pairwise.sublist hsub hv.1, fun x hx => hv.2 x (hsub.subset hx)⟩
    refine ⟨(valid_bucketMeans p b hb _ hvf).1, ?_⟩
    intro y hy
    obtain ⟨⟨a, ha, hay⟩, ⟨c, hc, hyc⟩⟩ := bucketMeans_bounds b (Spec.linMean p) _ hb hvf.1 y hy
    have hfa : (toSpecBound sb).okStart a.ts = true := by
      have := (List.mem_filter.mp (by unfold Spec.filterBounds at ha; exact ha)).2
      simp only [Bool.and_eq_true] at this; exact this.1
    have hfc : (toSpecBound eb).okEnd c.ts = true := by
      have := (List.mem_filter.mp (by unfold Spec.filterBounds at hc; exact hc)).2
      simp only [Bool.and_eq_true] at this; exact this.2
    exact ⟨okStart_mono _ _ _ hay hfa, okEnd_mono _ _ _ hyc hfc⟩
  · rw [hr] at hres; simp at hres

end BS.Props.C11
