/-
  C13 — first-n reads are prefixes of full reads.
-/
import BS.Proofs.ReadRange
import BS.Proofs.Paging

namespace BS.Props.C13
open BS BS.Impl

/-- **`read_first_n` with n ≥ 1 over a canonical region returns the first `min n k`
of the `k` entries a full read returns**, for every payload size, history, buffer
position of the n-th line and callback setting; the early stop (`Err(ReachedN)`) is
not reported as an error. -/
theorem first_n_is_prefix (p n : Nat) (hn : 1 ≤ n) (cb : Option Bool)
    (e : Entry) (es : List Entry) (hv : Valid p (e :: es)) (d : DataSess) (hd : d.p = p) :
    dataReadFirstN (Spec.encode p (e :: es)) d cb n
      ⟨metaSize p, (Spec.encode p (e :: es)).length, e.ts⟩
      = .ok ((e :: es).take n) := by
  unfold dataReadFirstN
  simp only [hd]
  rw [readRegion_canonical p cb firstNProc _ e es hv]
  have h := fold_firstN_out n hn (e :: es)
  cases hf : foldProc firstNProc { n := n } (e :: es) with
  | ok c => simp [hf] at h; simp [h]
  | error err =>
    cases err with
    | halted c => simp [hf] at h; simp [h]
    | corrupt _ =>
      -- the fold never reports corruption
      obtain ⟨h1, h2⟩ := fold_firstN (e :: es) { n := n } (by simp; omega)
      by_cases hlen : (e :: es).length < n
      · rw [h1 (by simpa using hlen)] at hf; simp at hf
      · rw [h2 (by simp at hlen ⊢; omega)] at hf; simp at hf
    | panic =>
      obtain ⟨h1, h2⟩ := fold_firstN (e :: es) { n := n } (by simp; omega)
      by_cases hlen : (e :: es).length < n
      · rw [h1 (by simpa using hlen)] at hf; simp at hf
      · rw [h2 (by simp at hlen ⊢; omega)] at hf; simp at hf

/-- **For every pair of bounds**: `read_first_n(n, range)` with n ≥ 1 returns the first
`min n k` of the `k` entries `read_all(range)` returns (an empty result or a range error
when there are none), in every state satisfying the session invariant. -/
theorem first_n_of_any_range (hdr ihdr : Bytes) (dir : Dir) (s : Sess) (e : Entry) (es : List Entry)
    (hinv : SessInv hdr ihdr dir s (e :: es)) (n : Nat) (hn : 1 ≤ n) (sb eb : Bound) :
    apiReadFirstN dir s n sb eb = .ok ((Spec.filterBounds (toSpecBound sb) (toSpecBound eb) (e :: es)).take n) ∨
    (Spec.filterBounds (toSpecBound sb) (toSpecBound eb) (e :: es) = [] ∧
      ∃ c, apiReadFirstN dir s n sb eb = .error (.err ("InvalidRange/" ++ c))) :=
  readFirstN_range hdr ihdr dir s e es hinv n hn sb eb

/-- the same statement for the processor alone: any list of entries, any n ≥ 1 -/
theorem processor_takes_prefix (n : Nat) (hn : 1 ≤ n) (xs : List Entry) :
    (match foldProc firstNProc { n := n } xs with
     | .ok c => c.out
     | .error (.halted c) => c.out
     | .error _ => []) = xs.take n :=
  fold_firstN_out n hn xs

/-- **Paging visits every line exactly once, for every page size.**  In every state
satisfying the session invariant for a non-empty history, the loop of examples/read.rs —
`read_first_n(n, start..)`, then continue from one past the last timestamp seen, stop on
an empty page or `StartAfterData` or when the largest possible timestamp was seen — ends
(within `len + 3` rounds) having collected exactly the history, in order, for every page
size `n ≥ 1` (also larger than the series). -/
theorem paging_visits_every_line_once (hdr ihdr : Bytes) (dir : Dir) (s : Sess) (e : Entry) (es : List Entry)
    (hinv : SessInv hdr ihdr dir s (e :: es)) (n : Nat) (hn : 1 ≤ n) :
    pageLoop dir s n ((e :: es).length + 3) e.ts [] = .ok (e :: es) := by
  have := pageLoop_all hdr ihdr dir s e es hinv n hn ((e :: es).length + 3) 0 e.ts (by simp) (by simp) (fun _ => rfl)
    (by simp) (by
      intro x hx
      simp only [List.drop_zero, List.mem_cons] at hx
      rcases hx with rfl | hx
      · exact Nat.le_refl _
      · exact Nat.le_of_lt ((List.pairwise_cons.mp hinv.valid.1).1 x hx))
  simpa using this

example : ([⟨1, []⟩, ⟨2, []⟩, ⟨3, []⟩] : List Entry).take 2 = [⟨1, []⟩, ⟨2, []⟩] := by simp

end BS.Props.C13
