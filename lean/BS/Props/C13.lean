/-
  C13 — first-n reads are prefixes of full reads.
-/
import BS.Proofs.ReadRange

namespace BS.Props.C13
open BS BS.Impl

/-- **`read_first_n` with n ≥ 1 over a canonical region returns the first `min n k`
of the `k` entries a full read returns**, for every payload size, history, buffer
position of the n-th line and callback setting; the early stop (`Err(ReachedN)`) is
not reported as an error. -/
theorem first_n_is_prefix (p n : Nat) (hn : 1 ≤ n) (cb : Option Bool)
    (e : Entry) (es : List Entry) (hv : Valid p (e :: es)) (d : DataSess) (hd : d.p = p) :
    dataReadFirstN (Spec.encode p (e :: es)) d cb n
      ⟨metaSize p, (Spec.encode p (e :: es)).length, e.ts⟩
      = .ok ((e :: es).take n) := by
  unfold dataReadFirstN
  simp only [hd]
  rw [readRegion_canonical p cb firstNProc _ e es hv]
  have h := fold_firstN_out n hn (e :: es)
  cases hf : foldProc firstNProc { n := n } (e :: es) with
  | ok c => simp [hf] at h; simp [h]
  | error err =>
    cases err with
    | halted c => simp [hf] at h; simp [h]
    | corrupt =>
      -- the fold never reports corruption
      obtain ⟨h1, h2⟩ := fold_firstN (e :: es) { n := n } (by simp; omega)
      by_cases hlen : (e :: es).length < n
      · rw [h1 (by simpa using hlen)] at hf; simp at hf
      · rw [h2 (by simp at hlen ⊢; omega)] at hf; simp at hf
    | panic =>
      obtain ⟨h1, h2⟩ := fold_firstN (e :: es) { n := n } (by simp; omega)
      by_cases hlen : (e :: es).length < n
      · rw [h1 (by simpa using hlen)] at hf; simp at hf
      · rw [h2 (by simp at hlen ⊢; omega)] at hf; simp at hf

/-- **For every pair of bounds**: `read_first_n(n, range)` with n ≥ 1 returns the first
`min n k` of the `k` entries `read_all(range)` returns (an empty result or a range error
when there are none), in every state satisfying the session invariant. -/
theorem first_n_of_any_range (hdr ihdr : Bytes) (dir : Dir) (s : Sess) (e : Entry) (es : List Entry)
    (hinv : SessInv hdr ihdr dir s (e :: es)) (n : Nat) (hn : 1 ≤ n) (sb eb : Bound) :
    apiReadFirstN dir s n sb eb = .ok ((Spec.filterBounds (toSpecBound sb) (toSpecBound eb) (e :: es)).take n) ∨
    (Spec.filterBounds (toSpecBound sb) (toSpecBound eb) (e :: es) = [] ∧
      ∃ c, apiReadFirstN dir s n sb eb = .error (.err ("InvalidRange/" ++ c))) :=
  readFirstN_range hdr ihdr dir s e es hinv n hn sb eb

/-- the same statement for the processor alone: any list of entries, any n ≥ 1 -/
theorem processor_takes_prefix (n : Nat) (hn : 1 ≤ n) (xs : List Entry) :
    (match foldProc firstNProc { n := n } xs with
     | .ok c => c.out
     | .error (.halted c) => c.out
     | .error _ => []) = xs.take n :=
  fold_firstN_out n hn xs

example : ([⟨1, []⟩, ⟨2, []⟩, ⟨3, []⟩] : List Entry).take 2 = [⟨1, []⟩, ⟨2, []⟩] := by simp

end BS.Props.C13
