/-
  C04 — closing and reopening preserves the series exactly.
-/
import BS.Proofs.LastMeta

namespace BS.Props.C04
open BS BS.Impl

/-- **Reopening an intact series preserves everything and does not alter the data file.**
For every payload size, every valid history whose sections have no marker-like raw
timestamp line (`TailClean`: automatic for payload sizes ≥ 4, see C05), data smaller than
2^64 bytes, and the index file in ANY legitimate prior state (intact, missing, cut at any
byte length, lagging, shorter than its own header): `Data::open_existing` — tail repair,
backwards search for the last full timestamp, index check or rebuild, last-line read —
succeeds, leaves the data file byte-identical, and re-establishes the data invariant for the
whole history: canonical data file, exact index file and entries, `data_len`, last full
timestamp, last time.  Everything proved from the invariant (contents C01/C02, length and
range C12, acceptance rule C03, canonical continuation C15) therefore holds after any number
of close/reopen cycles. -/
theorem reopen_preserves (p : Nat) (xs : List Entry) (hvx : Valid p xs) (hc : TailClean p xs)
    (hsize : (Spec.encode p xs).length < 2^64) (hdr : Bytes) (st : Store) (cb : Option Bool)
    (hdata : st.data = some (hdr ++ Spec.encode p xs)) (hix : IndexState p xs st.index) :
    ∃ st' d, dataOpenExisting st p hdr.length cb = (st', .ok d) ∧ d.p = p ∧ DataInv hdr ihdr st' d xs ∧
      st'.data = st.data :=
  dataOpen_intact p xs hvx hc hsize hdr st cb hdata hix

/-- the tail repair is the identity on an intact data region -/
theorem repair_is_identity_on_intact (p : Nat) (xs : List Entry) (hv : Valid p xs) (hc : TailClean p xs) :
    repairData p (Spec.encode p xs) = Spec.encode p xs :=
  repair_intact p xs hv hc

/-- **`last_meta_timestamp` terminates, never panics and is exact** on every canonical region: the
window is larger than the overlap for every line size (the P7 fix), so the step back is
positive; it returns the timestamp of the last section. -/
theorem last_meta_timestamp_exact (p : Nat) (ys : List Entry) (hv : Valid p ys) (hc : TailClean p ys) :
    lastMetaTs p (Spec.encode p ys) = .ok (lastSecTs p ys) :=
  lastMeta_exact p ys hv hc

/-- the window of the backwards search is a whole number of lines and larger than a section, for every payload size -/
theorem window_larger_than_overlap (p : Nat) : ∃ Wl, lastMetaWindow p = Wl * lineSize p ∧ lpm p < Wl :=
  window_lines p

/-- non-vacuity: the intact index is one of the prior states (cut at its own length) -/
example (p : Nat) (xs : List Entry) :
    IndexState p xs (some (ihdr ++ (Spec.encIndex (Spec.sections p xs)).take (Spec.encIndex (Spec.sections p xs)).length)) :=
  IndexState.cut _

end BS.Props.C04
