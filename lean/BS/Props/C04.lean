/-
  C04 — closing and reopening preserves the series exactly.
-/
import BS.Proofs.LastMeta
import BS.Proofs.Reopen
import BS.Proofs.Total

namespace BS.Props.C04
open BS BS.Impl

/-- **Reopening an intact series preserves everything and does not alter the data file.**
For every payload size, every valid history whose sections have no marker-like raw
timestamp line (`TailClean`: automatic for payload sizes ≥ 4, see C05), data smaller than
2^64 bytes, and the index file in ANY legitimate prior state (intact, missing, cut at any
byte length, lagging, shorter than its own header): `Data::open_existing` — tail repair,
backwards search for the last full timestamp, index check or rebuild, last-line read —
succeeds, leaves the data file byte-identical, and re-establishes the data invariant for the
whole history: canonical data file, exact index file and entries, `data_len`, last full
timestamp, last time.  Everything proved from the invariant (contents C01/C02, length and
range C12, acceptance rule C03, canonical continuation C15) therefore holds after any number
of close/reopen cycles. -/
theorem reopen_preserves (p : Nat) (xs : List Entry) (hvx : Valid p xs) (hc : TailClean p xs)
    (hsize : (Spec.encode p xs).length < 2^64) (hdr : Bytes) (st : Store) (cb : Option Bool)
    (hdata : st.data = some (hdr ++ Spec.encode p xs)) (hix : IndexState p xs st.index) :
    ∃ st' d, dataOpenExisting st p hdr.length cb = (st', .ok d) ∧ d.p = p ∧ DataInv hdr ihdr st' d xs ∧
      st'.data = st.data :=
  dataOpen_intact p xs hvx hc hsize hdr st cb hdata hix

/-- the tail repair is the identity on an intact data region -/
theorem repair_is_identity_on_intact (p : Nat) (xs : List Entry) (hv : Valid p xs) (hc : TailClean p xs) :
    repairData p (Spec.encode p xs) = Spec.encode p xs :=
  repair_intact p xs hv hc

/-- **`last_meta_timestamp` terminates, never panics and is exact** on every canonical region: the
window is larger than the overlap for every line size (the P7 fix), so the step back is
positive; it returns the timestamp of the last section. -/
theorem last_meta_timestamp_exact (p : Nat) (ys : List Entry) (hv : Valid p ys) (hc : TailClean p ys) :
    lastMetaTs p (Spec.encode p ys) = .ok (lastSecTs p ys) :=
  lastMeta_exact p ys hv hc

/-- the window of the backwards search is a whole number of lines and larger than a section, for every payload size -/
theorem window_larger_than_overlap (p : Nat) : ∃ Wl, lastMetaWindow p = Wl * lineSize p ∧ lpm p < Wl :=
  window_lines p

/-- non-vacuity: the intact index is one of the prior states (cut at its own length) -/
example (p : Nat) (xs : List Entry) :
    IndexState p xs (some (ihdr ++ (Spec.encIndex (Spec.sections p xs)).take (Spec.encIndex (Spec.sections p xs)).length)) :=
  IndexState.cut _

/-- **Through the whole API model: create, append anything, close, reopen.**  For any payload
size, header, sequence of append attempts and any legitimate state of the index file, reopening
the intact series (payload size demanded or retrieved, header demanded or any) succeeds,
leaves the data file byte-identical and yields a session in which the history is exactly
the accepted lines — so `read_all(..)`, `len`, `range`, `last_line` and the append rule (C03)
are those of one uninterrupted session; repeating close/reopen any number of times is the
same statement again. -/
theorem api_reopen_preserves (p : Nat) (hp : p ≤ u64Max) (hdr : Option Bytes)
    (hH : (toText p ++ hdr.getD []).length ≤ 65535) (atts : List (Nat × Bytes)) (hts : ∀ a ∈ atts, a.1 < 2^64)
    (hc : TailClean p (acceptAll p [] atts)) (hsize : (Spec.encode p (acceptAll p [] atts)).length < 2^64)
    (ix : Option Bytes) (hix : IndexState p (acceptAll p [] atts) ix)
    (cb : Option Bool) (pOpt : Option Nat) (hpo : pOpt = none ∨ pOpt = some p)
    (hOpt : Option Bytes) (hho : hOpt = none ∨ hOpt = some (hdr.getD [])) :
    ∃ dir0 s0 dir1 s1, apiNew {} p hdr [] = (dir0, .ok (s0, hdr.getD [])) ∧
      pushAll dir0 s0 atts = some (dir1, s1) ∧
      ∃ dir2 s2, apiOpen { dir1 with main := { dir1.main with index := ix } } pOpt hOpt [] cb
          = (dir2, .ok (s2, hdr.getD [])) ∧ s2.d.p = p ∧ dir2.main.data = dir1.main.data ∧
        SessInv (seriesHdr p (hdr.getD [])) ihdr dir2 s2 (acceptAll p [] atts) := by
  obtain ⟨dir0, s0, dir1, s1, hnew, hall, hre⟩ := reopen_after_any_history p hp hdr hH atts hts hc hsize
    (Spec.encode p (acceptAll p [] atts)).length ix hix cb pOpt hpo hOpt hho
  refine ⟨dir0, s0, dir1, s1, hnew, hall, ?_⟩
  -- what the first session left behind
  obtain ⟨_, _, hnew', _, _, _, hinv0⟩ := apiNew_inv p hdr [] hH ⟨by simp, by simp⟩
  rw [hnew] at hnew'
  have hv := acceptAll_valid p atts [] (by simp [Valid]) hts
  have hfull := linesWithin_full p (acceptAll p [] atts) (fun x hx => (hv.2 x hx).2)
  obtain ⟨dir2, s2, hopen, hp2, hinv2⟩ := hre (dir1.main.data.map fun b =>
    b.take ((seriesHdr p (hdr.getD [])).length + (Spec.encode p (acceptAll p [] atts)).length)) rfl
  rw [hfull, List.take_length] at hinv2
  -- the cut at the full length is no cut
  have hd1 : dir1.main.data = some (seriesHdr p (hdr.getD []) ++ Spec.encode p (acceptAll p [] atts)) := by
    simp only [Prod.mk.injEq, Except.ok.injEq] at hnew'
    obtain ⟨hd0, hs0, _⟩ := hnew'
    subst hd0; subst hs0
    obtain ⟨_, _, hall', hp1, _, _, hinv1⟩ := pushAll_inv _ _ atts _ _ [] hinv0 hts
    rw [hall] at hall'
    simp only [Option.some.injEq, Prod.mk.injEq] at hall'
    obtain ⟨hd1, hs1⟩ := hall'
    subst hd1; subst hs1
    have := hinv1.data.data
    rw [hp1] at this
    have hp0 : s0.d.p = p := by
      have := hinv0.valid
      exact (by
        obtain ⟨_, _, hnew2, hp0, _⟩ := apiNew_inv p hdr [] hH ⟨by simp, by simp⟩
        rw [hnew] at hnew2
        simp only [Prod.mk.injEq, Except.ok.injEq] at hnew2
        rw [hnew2.2.1]; exact hp0)
    rw [hp0] at this; exact this
  have hsame : (dir1.main.data.map fun b =>
      b.take ((seriesHdr p (hdr.getD [])).length + (Spec.encode p (acceptAll p [] atts)).length)) = dir1.main.data := by
    rw [hd1]
    simp only [Option.map_some]
    rw [List.take_of_length_le (by simp)]
  rw [hsame] at hopen
  have hdir : ({ dir1 with main := { dir1.main with data := dir1.main.data, index := ix } } : Dir)
      = { dir1 with main := { dir1.main with index := ix } } := rfl
  rw [hdir] at hopen
  refine ⟨dir2, s2, hopen, hp2, ?_, hinv2⟩
  rw [hinv2.data.data, hp2, hd1]

/-- … and what a full read returns after that reopen is exactly the accepted history -/
theorem read_after_reopen (hdr ihdr : Bytes) (dir : Dir) (s : Sess) (e : Entry) (es : List Entry)
    (hinv : SessInv hdr ihdr dir s (e :: es)) : apiReadAll dir s .unb .unb = .ok (e :: es) :=
  readAll_unbounded hdr ihdr dir s e es hinv

end BS.Props.C04
