/-
  C14 ON THE TRANSLATED CODE: `ByteSeries::n_lines_between` as translated from the current source
  (BS/Generated/Core.lean: the match on the result of `RoughPos::new` with its `EmptyFile => Ok(0)` arm, `refine`,
  `.map(|pos| pos.lines(..)).unwrap_or(0)`) composed with the seek theorems of BS/Props/GenCore.lean.
  Kept in its own module: only the check of C14 builds it, so a change to `n_lines_between` does not disturb the others.
-/
import BS.Props.GenCore
namespace BS.Gen
open BS.Impl

theorem nl_err (v : DataView) (rg : Option (Nat × Nat)) (sb eb : Bound) (d : Bytes) (f : Fault)
    (h1 : RoughPos_new v sb eb = .error f) :
    ByteSeries_n_lines_between ⟨v, rg⟩ (sb, eb) d = if f = .err "EmptyFile" then .ok 0 else .error f := by
  unfold ByteSeries_n_lines_between
  simp only [h1]
  split
  · rename_i h; cases h
  · rename_i h; cases h; simp [bind_ok, pure_eq_ok]
  · rename_i other hne h
    cases h
    have : f ≠ .err "EmptyFile" := fun hf => hne (by rw [hf])
    simp [this]

theorem nl_ok (v : DataView) (rg : Option (Nat × Nat)) (sb eb : Bound) (d : Bytes) (r : RoughPos)
    (h1 : RoughPos_new v sb eb = .ok r) :
    ByteSeries_n_lines_between ⟨v, rg⟩ (sb, eb) d =
      match RoughPos_refine r v d with
      | .error f => .error f
      | .ok none => .ok 0
      | .ok (some pos) => Pos_lines pos v := by
  unfold ByteSeries_n_lines_between
  simp only [h1, bind_ok, pure_eq_ok]
  cases RoughPos_refine r v d with
  | error f => rfl
  | ok o =>
    cases o with
    | none => rfl
    | some pos =>
      simp only [bind_ok, Option.mapM_some]
      cases Pos_lines pos v <;> rfl

theorem apiNLines_err (dir : Dir) (s : Sess) (sb eb : Bound) (f : Fault)
    (h : apiSeek (mainRegion dir s) s.d sb eb = .error f) :
    apiNLines dir s sb eb = if f = .err "InvalidRange/EmptyFile" then .ok 0 else .error f := by
  unfold apiNLines
  rw [h]
  split
  · rename_i h2; cases h2; simp
  · rename_i g hne h2
    cases h2
    have : f ≠ .err "InvalidRange/EmptyFile" := fun hf => hne (by rw [hf])
    simp [this]
  · rename_i h2; cases h2
  · rename_i h2; cases h2

theorem apiNLines_ok (dir : Dir) (s : Sess) (sb eb : Bound) (o : Option Pos)
    (h : apiSeek (mainRegion dir s) s.d sb eb = .ok o) :
    apiNLines dir s sb eb = .ok (o.elim 0 (fun pos => pos.lines s.d.p)) := by
  unfold apiNLines
  rw [h]
  cases o <;> rfl

theorem wrap_invalid_empty (c : String) : ("InvalidRange" ++ "/" ++ c = "InvalidRange/EmptyFile") ↔ c = "EmptyFile" := by
  have h0 : "InvalidRange" ++ "/" ++ "EmptyFile" = "InvalidRange/EmptyFile" := by decide
  constructor
  · intro h
    rw [← h0] at h
    exact (String.append_right_inj _).mp h
  · intro h; rw [h, h0]

/-- **C14 on the translated code**: `ByteSeries::n_lines_between` AS TRANSLATED FROM THE CURRENT SOURCE is the model's
`apiNLines`: the same count for every pair of bounds, `0` for the empty-file refusal, and an error exactly when the
model has one (the translation drops the API's error wrapping, so the errors agree up to `wrapErr`) -/
theorem gen_n_lines_is_model (hdr ihdr : Bytes) (dir : Dir) (s : Sess) (e : Entry) (es : List Entry)
    (hinv : SessInv hdr ihdr dir s (e :: es)) (hp : s.d.p < 2^60)
    (hsz : (Spec.encode s.d.p (e :: es)).length + 2 * Impl.metaSize s.d.p + Impl.lineSize s.d.p < 2^64) (sb eb : Bound) :
    match ByteSeries_n_lines_between ⟨s.d.view, s.range⟩ (sb, eb) (mainRegion dir s), apiNLines dir s sb eb with
    | .ok a, .ok b => a = b
    | .error f, .error g => g = Impl.wrapErr "InvalidRange" f ∨ g = Impl.wrapErr "Seeking" f
    | _, _ => False := by
  have hspec := gen_seek_spec hdr ihdr dir s e es hinv hp hsz sb eb
  have hmodel := gen_seek_is_model (mainRegion dir s) s.d _ (fileFits_of_inv hdr ihdr dir.main s.d (e :: es) hinv.data hinv.valid hp hsz) sb eb
  have hp2 : s.d.view.p + 2 < 2^64 := by simp [DataSess.view]; omega
  cases h1 : RoughPos_new s.d.view sb eb with
  | error f =>
    simp only [h1] at hmodel
    rw [nl_err _ _ _ _ _ f h1, apiNLines_err dir s sb eb _ hmodel.symm]
    cases f with
    | panic => simp [Impl.wrapErr]
    | err c =>
      by_cases hc : c = "EmptyFile"
      · have := (wrap_invalid_empty c).mpr hc
        simp [Impl.wrapErr, hc, this]
      · have hne : ¬ "InvalidRange/" ++ c = "InvalidRange/EmptyFile" := by
          intro h
          have h0 : "InvalidRange/" ++ "EmptyFile" = "InvalidRange/EmptyFile" := by decide
          rw [← h0] at h
          exact hc ((String.append_right_inj _).mp h)
        simp [Impl.wrapErr, hc, hne]
  | ok r =>
    simp only [h1] at hmodel hspec
    rw [nl_ok _ _ _ _ _ r h1]
    cases h2 : RoughPos_refine r s.d.view (mainRegion dir s) with
    | error f =>
      simp only [h2] at hmodel
      rw [apiNLines_err dir s sb eb _ hmodel.symm]
      cases f with
      | panic => simp [Impl.wrapErr]
      | err c =>
        have hne : ¬ "Seeking/" ++ c = "InvalidRange/EmptyFile" := by
          intro h
          have h3 := congrArg String.toList h
          simp [String.toList_append] at h3
        simp [Impl.wrapErr, hne]
    | ok o =>
      simp only [h2] at hmodel hspec
      rw [apiNLines_ok dir s sb eb o hmodel.symm]
      cases o with
      | none => simp
      | some pos =>
        cases hspec with
        | pos _ hlt _ _ =>
          have hpl := pos_lines_tie pos s.d.view hp2 (Nat.le_of_lt hlt)
          simp only [hpl, Option.elim]
          simp [DataSess.view]
end BS.Gen
