/-
  C18 — corruption callback: error without consent, only genuine lines with consent.
-/
import BS.Proofs.Roundtrip

namespace BS.Props.C18
open BS BS.Impl

variable {σ : Type}

/-- **Without consent the read stops with a corruption error** exactly at a damaged
section (first marker line present, second missing), whatever precedes it (`A`, any
lines that scan cleanly), whatever follows, whatever the processor: callback absent or
answering `false`. -/
theorem no_consent_is_error (p : Nat) (cb : Option Bool) (hcb : cb ≠ some true)
    (proc : σ → Nat → Bytes → PRes σ) (st st' : RSt σ) (A : List Bytes) (m x : Bytes) (rest : List Bytes)
    (hA : scan p cb proc st A = .ok (st', 0)) (hm : isMarker m = true) (hx : isMarker x = false) :
    scan p cb proc st (A ++ m :: x :: rest) = .error (.corrupt st'.ps) := by
  obtain ⟨_, hX⟩ := scan_split p cb proc st A st' 0 hA
  rw [hX]
  simp only [Nat.sub_zero, List.drop_length, List.nil_append]
  rw [scan_lone _ _ _ _ _ _ _ hm hx, if_neg hcb]

/-- while skipping, lines that are not marker lines are dropped without reaching the processor -/
theorem skipping_drops (p : Nat) (cb : Option Bool) (proc : σ → Nat → Bytes → PRes σ) (st : RSt σ)
    (hs : st.skip = true) (D : List Bytes) (hD : ∀ l ∈ D, isMarker l = false) (Y : List Bytes) :
    scan p cb proc st (D ++ Y) = scan p cb proc st Y := by
  induction D with
  | nil => simp
  | cons l D ih =>
    rw [List.cons_append, scan_data _ _ _ _ _ _ (hD l (by simp)), if_pos hs]
    exact ih (fun l' hl' => hD l' (by simp [hl']))

/-- **With consent the read resumes at the next intact section and fabricates nothing**:
after the damaged section (`m`, `x`) every line up to the next intact section (`D`: no
marker lines) is dropped — the processor is not called for them at all — and reading
continues after that section with its timestamp, exactly as it would without damage. -/
theorem consent_resumes_at_next_section (p : Nat) (proc : σ → Nat → Bytes → PRes σ) (st st' : RSt σ)
    (A : List Bytes) (m x : Bytes) (D : List Bytes) (ts : Nat) (Y : List Bytes)
    (hA : scan p (some true) proc st A = .ok (st', 0)) (hm : isMarker m = true) (hx : isMarker x = false)
    (hD : ∀ l ∈ D, isMarker l = false) (hts : ts < 2^64) :
    scan p (some true) proc st (A ++ m :: x :: (D ++ metaWriteLines p ts ++ Y))
      = scan p (some true) proc { st' with full := ts, skip := false } Y := by
  obtain ⟨_, hX⟩ := scan_split p (some true) proc st A st' 0 hA
  rw [hX]
  simp only [Nat.sub_zero, List.drop_length, List.nil_append]
  rw [scan_lone _ _ _ _ _ _ _ hm hx, if_pos rfl, List.append_assoc,
    skipping_drops p _ proc _ rfl D hD, scan_section p _ proc ts hts]

/-- non-vacuity: a data line is not a marker line, a section starts with one -/
example : isMarker (dataLine 7 [1, 2]) = false ∧ isMarker ([0xFF, 0xFF, 3, 4] : Bytes) = true := by
  constructor
  · exact isMarker_dataLine 7 _ (by omega)
  · simp [isMarker]

end BS.Props.C18
