/-
  C02 — range reads return exactly the lines inside the requested bounds.
-/
import BS.Proofs.ReadRange

namespace BS.Props.C02
open BS BS.Impl

/-- **A range read returns exactly the stored lines inside the bounds.**  In every state
that satisfies the session invariant for a non-empty history (files = canonical files of
the history, memory in step; established at creation and preserved by every accepted
append, C03), for EVERY pair of bounds — inclusive, exclusive or unbounded, before,
inside or after the data, inside a time gap, exactly where a 16-bit delta runs out —
`read_all(range)` (bound normalisation and clamping, binary search of the index, 16-bit
scan inside a section, buffered read) returns exactly the entries whose timestamp
satisfies both bounds, in order.  When there are none the result is empty or one of
the range errors; it is never an error or empty when such entries exist. -/
theorem range_read_exact (hdr ihdr : Bytes) (dir : Dir) (s : Sess) (e : Entry) (es : List Entry)
    (hinv : SessInv hdr ihdr dir s (e :: es)) (sb eb : Bound) :
    apiReadAll dir s sb eb = .ok (Spec.filterBounds (toSpecBound sb) (toSpecBound eb) (e :: es)) ∨
    (Spec.filterBounds (toSpecBound sb) (toSpecBound eb) (e :: es) = [] ∧
      ∃ c, apiReadAll dir s sb eb = .error (.err ("InvalidRange/" ++ c))) :=
  readAll_range hdr ihdr dir s e es hinv sb eb

/-- the seek alone: for every pair of bounds it yields a range error or nothing (only when no
entry is inside the bounds) or a byte range from which EVERY processor is fed exactly the
entries inside the bounds -/
theorem seek_exact (hdr ihdr : Bytes) (dir : Dir) (s : Sess) (e : Entry) (es : List Entry)
    (hinv : SessInv hdr ihdr dir s (e :: es)) (sb eb : Bound) :
    SeekOutcome s.d.p (e :: es) (Spec.filterBounds (toSpecBound sb) (toSpecBound eb) (e :: es))
      (apiSeek (mainRegion dir s) s.d sb eb) :=
  apiSeek_spec hdr ihdr dir s e es hinv sb eb

/-- the start half and the end half of the seek, for start/end times inside the data range -/
theorem start_side (p : Nat) (xs : List Entry) (v : DataView) (ctx : SeekCtx p xs v) (t : Nat)
    (hfirst : ∀ x, xs.head? = some x → x.ts ≤ t) (hlast : ∃ l ∈ xs, t ≤ l.ts) (et : Nat) (ea : EndArea) (ef : Nat) :
    ∃ sa sf B, startSearchBounds v t = .ok (sa, sf) ∧
      refineStart v (Spec.encode p xs) ⟨t, sa, sf, et, ea, ef⟩ = .ok B ∧ StartOK p xs t B sf :=
  start_correct p xs v ctx t hfirst hlast et ea ef

theorem end_side (p : Nat) (xs : List Entry) (v : DataView) (ctx : SeekCtx p xs v) (t : Nat)
    (hfirst : ∀ x, xs.head? = some x → x.ts ≤ t) (hlast : ∃ l ∈ xs, t ≤ l.ts) (st : Nat) (sa : StartArea) (sf : Nat) :
    ∃ ea ef B, endSearchBounds v t = .ok (ea, ef) ∧
      refineEnd v (Spec.encode p xs) ⟨st, sa, sf, t, ea, ef⟩ = .ok B ∧ EndOK p xs t B :=
  end_correct p xs v ctx t hfirst hlast st sa sf

/-- non-vacuity: the specification's range selection on a history with a gap -/
example : Spec.filterBounds (.excl 10) (.incl 200000)
    [⟨0, []⟩, ⟨10, []⟩, ⟨200000, []⟩, ⟨200010, []⟩] = [⟨200000, []⟩] := by
  simp [Spec.filterBounds, Spec.Bound.okStart, Spec.Bound.okEnd]

end BS.Props.C02
