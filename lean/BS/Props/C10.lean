/-
  C10 — resampling reads return exact, uniform bucket means of the range.
-/
import BS.Proofs.ReadRange

namespace BS.Props.C10
open BS BS.Impl

/-- **The sampler emits exactly the bucket means.**  Feeding any list of entries to
`Sampler::process` with bucket size `1 ≤ B ≤ 2^32` produces the consecutive,
non-overlapping means of buckets of `B` entries (floor of the mean timestamp, the
resampler's mean value), drops only a trailing incomplete bucket and never overflows:
the timestamp sum is u128 in the code and unbounded here, the value sum stays below 2^64. -/
theorem sampler_is_bucket_means (p B : Nat) (hB0 : 0 < B) (hB : B ≤ 2^32) (xs : List Entry) :
    ∃ s', foldProc samplerProc { bucket := B, p := p } xs = .ok s' ∧
      s'.out = Spec.bucketMeans B (Spec.linMean p) xs :=
  fold_sampler_init p B hB0 hB xs

/-- **`read_resampling` over a canonical region = bucket means of what a full read returns.** -/
theorem resampling_read_of_region (p B : Nat) (hB0 : 0 < B) (hB : B ≤ 2^32) (cb : Option Bool)
    (e : Entry) (es : List Entry) (hv : Valid p (e :: es)) (d : DataSess) (hd : d.p = p) :
    dataReadResampling (Spec.encode p (e :: es)) d cb B
      ⟨metaSize p, (Spec.encode p (e :: es)).length, e.ts⟩
      = .ok (Spec.bucketMeans B (Spec.linMean p) (e :: es)) := by
  unfold dataReadResampling
  have : ¬ B = 0 := by omega
  simp only [this, if_false, hd]
  rw [readRegion_canonical p cb samplerProc _ e es hv]
  obtain ⟨s', h1, h2⟩ := fold_sampler_init p B hB0 hB (e :: es)
  simp [h1, h2]

/-- **`read_n` without caches, every pair of bounds**: under the session invariant, for
n ≥ 1 and a file of at most 2^32 lines, the result is the list of uniform bucket means — one
bucket size `b ≥ 1`, first bucket starting at the first line in range, only a trailing
incomplete bucket dropped — of exactly the lines a full read of the range returns, and has at
most `2n` elements; when no line is in range it is empty or a range error.  No sum
overflows: timestamps are summed in unbounded (in the code: 128-bit) arithmetic and the
value sum stays below 2^64 because `b ≤ 2^32`. -/
theorem read_n_of_any_range (hdr ihdr : Bytes) (dir : Dir) (s : Sess) (e : Entry) (es : List Entry)
    (hinv : SessInv hdr ihdr dir s (e :: es)) (n : Nat) (hn : 1 ≤ n) (sb eb : Bound)
    (hsize : (Spec.encode s.d.p (e :: es)).length / lineSize s.d.p ≤ 2^32) :
    let want := Spec.filterBounds (toSpecBound sb) (toSpecBound eb) (e :: es)
    (∃ b, 1 ≤ b ∧ apiReadN dir s n sb eb = .ok (Spec.bucketMeans b (Spec.linMean s.d.p) want) ∧
        (Spec.bucketMeans b (Spec.linMean s.d.p) want).length ≤ 2 * n) ∨
    (want = [] ∧ ∃ c, apiReadN dir s n sb eb = .error (.err ("InvalidRange/" ++ c))) :=
  readN_range_nocache hdr ihdr dir s e es hinv n hn sb eb hsize

/-- bucket means never return more buckets than `len / B` -/
theorem bucketMeans_length (B : Nat) (mean : List Bytes → Bytes) (xs : List Entry) (hB : 0 < B) :
    (Spec.bucketMeans B mean xs).length = xs.length / B := by
  fun_induction Spec.bucketMeans B mean xs
  next xs h =>
    rcases h with h | h
    · omega
    · simp [Nat.div_eq_of_lt h]
  next xs h b ih =>
    have hlen : B ≤ xs.length := by omega
    simp only [List.length_cons, ih, List.length_drop]
    have : xs.length = (xs.length - B) + B := by omega
    conv => rhs; rw [this, Nat.add_div_right _ hB]

/-- **At most 2n samples**: with the bucket size `max 1 (lines / n)` that `read_n` chooses
from the line count of the seek (`lines ≥` number of entries read), the number of
buckets is at most `2n`. -/
theorem at_most_2n (n lines k : Nat) (hn : 0 < n) (hk : k ≤ lines) :
    k / (max 1 (lines / n)) ≤ 2 * n := by
  by_cases h : lines / n = 0
  · have hl : lines < 1 * n := (Nat.div_lt_iff_lt_mul hn).mp (by omega)
    simp [h]; omega
  · have hb : 1 ≤ lines / n := Nat.pos_of_ne_zero h
    have hmax : max 1 (lines / n) = lines / n := Nat.max_eq_right hb
    rw [hmax]
    -- lines < (lines / n + 1) * n ≤ 2 * (lines / n) * n
    have h1 : lines < (lines / n + 1) * n := by
      have := Nat.lt_succ_self (lines / n)
      exact (Nat.div_lt_iff_lt_mul hn).mp this
    have h2 : (lines / n + 1) * n ≤ 2 * n * (lines / n) := by
      have : lines / n + 1 ≤ 2 * (lines / n) := by generalize lines / n = q at hb; omega
      calc (lines / n + 1) * n ≤ (2 * (lines / n)) * n := Nat.mul_le_mul_right n this
        _ = 2 * n * (lines / n) := by rw [Nat.mul_assoc, Nat.mul_comm (lines / n) n, ← Nat.mul_assoc]
    apply Nat.div_le_of_le_mul
    rw [Nat.mul_comm]
    omega

example : Spec.bucketMeans 2 (Spec.linMean 1) [⟨1, [10]⟩, ⟨4, [20]⟩, ⟨9, [1]⟩] = [⟨2, [15]⟩] := by
  simp [Spec.bucketMeans, Spec.linMean, Spec.linDecode, Spec.linEncode, unN, leN, zeros]

end BS.Props.C10
