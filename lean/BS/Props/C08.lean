/-
  C08 — each downsample cache holds exactly the bucket means of the source.
  Property theorems only; helper lemmas live in BS/Proofs.
-/
import BS.Proofs.History

namespace BS.Props.C08
open BS BS.Impl

/-! ### what "the bucket means" are -/

/-- the specification function has one entry per complete bucket … -/
theorem bucketMeans_length (B : Nat) (mean : List Bytes → Bytes) (hB : 0 < B) :
    ∀ (n : Nat) (xs : List Entry), xs.length = n → (Spec.bucketMeans B mean xs).length = xs.length / B := by
  intro n
  induction n using Nat.strongRecOn with
  | ind n ih =>
    intro xs hn
    rw [Spec.bucketMeans]
    by_cases h : B = 0 ∨ xs.length < B
    · have hlt : xs.length < B := by omega
      simp [h, Nat.div_eq_of_lt hlt]
    · simp only [h, dite_false, List.length_cons]
      have hge : B ≤ xs.length := by omega
      rw [ih (xs.drop B).length (by simp; omega) (xs.drop B) rfl]
      simp only [List.length_drop]
      have : xs.length = (xs.length - B) + B := by omega
      conv => rhs; rw [this, Nat.add_div_right _ hB]

/-- … and its `k`-th entry is the floor of the mean timestamp and the resampler's mean of
source lines `kB .. kB+B-1`; an incomplete trailing bucket contributes nothing -/
theorem bucketMeans_get (B : Nat) (mean : List Bytes → Bytes) (hB : 0 < B) :
    ∀ (k : Nat) (xs : List Entry), k < xs.length / B →
      (Spec.bucketMeans B mean xs)[k]? =
        some ⟨((((xs.drop (k * B)).take B).map (·.ts)).sum) / B, mean (((xs.drop (k * B)).take B).map (·.pl))⟩ := by
  intro k
  induction k with
  | zero =>
    intro xs hk
    have hge : B ≤ xs.length := by
      rcases Nat.lt_or_ge xs.length B with h | h
      · rw [Nat.div_eq_of_lt h] at hk; omega
      · exact h
    rw [Spec.bucketMeans]
    have h : ¬ (B = 0 ∨ xs.length < B) := by omega
    simp [h]
  | succ k ih =>
    intro xs hk
    have hge : B ≤ xs.length := by
      rcases Nat.lt_or_ge xs.length B with h | h
      · rw [Nat.div_eq_of_lt h] at hk; omega
      · exact h
    rw [Spec.bucketMeans]
    have h : ¬ (B = 0 ∨ xs.length < B) := by omega
    simp only [h, dite_false, List.getElem?_cons_succ]
    have hk' : k < (xs.drop B).length / B := by
      simp only [List.length_drop]
      have : xs.length = (xs.length - B) + B := by omega
      rw [this, Nat.add_div_right _ hB] at hk
      omega
    rw [ih (xs.drop B) hk', List.drop_drop]
    have : B + k * B = (k + 1) * B := by rw [Nat.add_mul]; omega
    rw [this]

/-! ### the caches hold exactly that -/

/-- **Filled while appending in one session, every level at once.**  Create a series with
any payload size, header and any admissible cache configuration (distinct bucket sizes
`1 ≤ B ≤ 2^32`), then make ANY sequence of append attempts with timestamps of any magnitude
below 2^64 (accepted or refused).  No call panics, and for every configured level `B` the
cache's data file is byte for byte the canonical file of the bucket means of the accepted
history — and its index the canonical index of that file. -/
theorem caches_exact_in_one_session (p : Nat) (hdr : Option Bytes) (Bs : List Nat) (atts : List (Nat × Bytes))
    (hlen : (toText p ++ hdr.getD []).length ≤ 65535) (hcfg : CacheCfgOK Bs)
    (hts : ∀ a ∈ atts, a.1 < 2^64) :
    ∃ dir0 s0 dir s, apiNew {} p hdr Bs = (dir0, .ok (s0, hdr.getD [])) ∧
      pushAll dir0 s0 atts = some (dir, s) ∧
      s.caches.map (·.B) = Bs ∧
      ∀ B ∈ Bs,
        (dir.cache B).data = some (cacheHdr B ++
          Spec.encode p (Spec.bucketMeans B (Spec.linMean p) (acceptAll p [] atts))) ∧
        (dir.cache B).index = some (cacheIhdr ++
          Spec.encIndex (Spec.sections p (Spec.bucketMeans B (Spec.linMean p) (acceptAll p [] atts)))) := by
  obtain ⟨dir0, s0, hnew, hp0, _, hBs0, hinv0⟩ := apiNew_inv p hdr Bs hlen hcfg
  obtain ⟨dir, s, hall, hp, _, hBs, hinv⟩ := pushAll_inv _ _ atts dir0 s0 [] hinv0 hts
  refine ⟨dir0, s0, dir, s, hnew, hall, by rw [hBs, hBs0], ?_⟩
  intro B hB
  have : B ∈ s.caches.map (·.B) := by rw [hBs, hBs0]; exact hB
  obtain ⟨c, hc, rfl⟩ := List.mem_map.mp this
  obtain ⟨hcp, hci⟩ := hinv.caches c hc
  have hcp' : c.d.p = p := by rw [hcp, hp, hp0]
  have hd := hci.data.data
  have hi := hci.data.index
  rw [hcp'] at hd hi
  rw [hp0] at hd hi
  exact ⟨hd, hi⟩

/-- **Created on first open over pre-existing data.**  For a source holding any valid
history `xs` (its files canonical), creating a cache of bucket size `B` — `create`, or
`open_or_create` finding no file — replays the whole source once and leaves exactly the
bucket means of `xs`, with the incomplete trailing bucket kept in the accumulator only. -/
theorem cache_created_over_existing_data (shdr sihdr : Bytes) (dir : Dir) (src : DataSess) (xs : List Entry) (B : Nat)
    (cb : Option Bool)
    (hsrc : DataInv shdr sihdr dir.main src xs) (hv : Valid src.p xs)
    (hB : 1 ≤ B) (hB32 : B ≤ 2^32) (hhdr : (cacheUserHeader B).length ≤ 65535)
    (hfree : (dir.cache B).data = none ∧ (dir.cache B).index = none) :
    ∃ dir' c, cacheOpenOrCreate dir B src cb = (dir', .ok c) ∧ cacheCreate dir B src cb = (dir', .ok c) ∧
      dir'.main = dir.main ∧
      (dir'.cache B).data = some (cacheHdr B ++ Spec.encode src.p (Spec.bucketMeans B (Spec.linMean src.p) xs)) ∧
      c.inBin = xs.length % B ∧ CacheInv (cacheHdr B) cacheIhdr (dir'.cache B) c xs := by
  obtain ⟨dir', c, hcreate, hcB, hcp, hmain, _, hinv⟩ :=
    cacheCreate_correct shdr sihdr dir src xs B cb hsrc hv hB hB32 hhdr hfree
  refine ⟨dir', c, ?_, hcreate, hmain, ?_, ?_, hinv⟩
  · unfold cacheOpenOrCreate cacheOpen
    simp only [hfree.1, fileOpenExisting]
    exact hcreate
  · have := hinv.data.data
    rw [hcB, hcp] at this; exact this
  · have := hinv.inBin
    rw [hcB] at this; exact this

/-- **Appending keeps a created cache exact**: whatever established the invariant (creation
in the same session, or creation over existing data), every later accepted append extends
source and caches in step (this is `pushAll_inv`, restated for one cache level). -/
theorem appending_keeps_caches_exact (hdr ihdr : Bytes) (dir : Dir) (s : Sess) (xs : List Entry) (atts : List (Nat × Bytes))
    (hinv : SessInvC hdr ihdr dir s xs) (hts : ∀ a ∈ atts, a.1 < 2^64) :
    ∃ dir' s', pushAll dir s atts = some (dir', s') ∧
      ∀ c ∈ s'.caches, (dir'.cache c.B).data = some (cacheHdr c.B ++
        Spec.encode c.d.p (Spec.bucketMeans c.B (Spec.linMean c.d.p) (acceptAll s.d.p xs atts))) := by
  obtain ⟨dir', s', hall, _, _, _, hinv'⟩ := pushAll_inv hdr ihdr atts dir s xs hinv hts
  exact ⟨dir', s', hall, fun c hc => (hinv'.caches c hc).2.data.data⟩

/-- non-vacuity: a two-level configuration satisfies the hypotheses -/
example : (CacheCfgOK [2, 10]) := by
  refine ⟨by decide, ?_⟩
  intro B hB
  simp only [List.mem_cons, List.mem_nil_iff, or_false] at hB
  rcases hB with rfl | rfl
  · refine ⟨by omega, by omega, ?_⟩; decide +kernel
  · refine ⟨by omega, by omega, ?_⟩; decide +kernel

end BS.Props.C08
