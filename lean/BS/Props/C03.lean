/-
  C03 — only strictly newer timestamps are accepted; refused appends change nothing.
-/
import BS.Proofs.Session

namespace BS.Props.C03
open BS BS.Impl

/-- **Acceptance rule and no-op refusal.**  In any state that satisfies the session
invariant for history `xs` (files = canonical files of `xs`, memory in step), for every
timestamp below 2^64 and every payload:
* wrong payload length ⇒ `WrongLineLength`, directory and session unchanged;
* right length but not strictly newer than the last accepted line ⇒ `TimeNotAfterLast`,
  directory and session unchanged (the result has no new session, the directory is the
  old one: every file keeps its bytes, `len`/`range`/contents are those of `xs`);
* right length and strictly newer (or the series is empty) ⇒ accepted, and the invariant
  holds again for `xs ++ [(ts, payload)]` — so the rule is the same after any number of
  accepted appends. -/
theorem accept_iff_strictly_newer (hdr ihdr : Bytes) (dir : Dir) (s : Sess) (xs : List Entry) (ts : Nat) (pl : Bytes)
    (hinv : SessInv hdr ihdr dir s xs) (hts : ts < 2^64) :
    (pl.length ≠ s.d.p → pushLine dir s ts pl = (dir, .error (.err "WrongLineLength/WrongLineLength"))) ∧
    (pl.length = s.d.p → (∃ l, xs.getLast? = some l ∧ ts ≤ l.ts) →
        pushLine dir s ts pl = (dir, .error (.err "TimeNotAfterLast/TimeNotAfterLast"))) ∧
    (pl.length = s.d.p → (∀ l, xs.getLast? = some l → l.ts < ts) →
        ∃ dir' s', pushLine dir s ts pl = (dir', .ok s') ∧ s'.d.p = s.d.p ∧ s'.cb = s.cb ∧
          SessInv hdr ihdr dir' s' (xs ++ [⟨ts, pl⟩])) :=
  pushLine_spec hdr ihdr dir s xs ts pl hinv hts

/-- the step function leaves the whole world untouched on a refused append -/
theorem refused_step_is_noop (w : World) (s : Sess) (ts : Nat) (pl : Bytes) (c : String)
    (hs : w.sess = some s) (h : pushLine w.dir s ts pl = (w.dir, .error (.err c))) :
    (step w (.push ts pl)).1 = w := by
  cases w
  simp_all [step, withSess]

/-- non-vacuity: the invariant holds for a fresh series (so the theorem applies from creation on) -/
example : firstLast [] = none := rfl

end BS.Props.C03
