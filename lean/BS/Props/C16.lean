/-
  C16 — append-only on disk: appends only add bytes.
  (That reads never write is true of the model by construction — reads are pure
  functions of the directory — and is carried by the differential file audit.)
-/
import BS.Impl.World

namespace BS.Props.C16
open BS BS.Impl

/-- an optional file only grows at the end (and is neither created nor deleted) -/
def Grows (a b : Option Bytes) : Prop :=
  match a, b with
  | some x, some y => x <+: y
  | none, none => True
  | _, _ => False

theorem grows_refl (a : Option Bytes) : Grows a a := by
  cases a <;> simp [Grows]

theorem grows_append (a : Option Bytes) (b : Bytes) : Grows a (appendTo a b) := by
  cases a <;> simp [Grows, appendTo]

theorem grows_trans {a b c : Option Bytes} (h1 : Grows a b) (h2 : Grows b c) : Grows a c := by
  cases a <;> cases b <;> cases c <;> simp_all [Grows]
  exact List.IsPrefix.trans h1 h2

/-- **`Data::push_data` only appends**: after an accepted append each of the data file,
the index file and the temporary index file has its previous content as a prefix. -/
theorem pushData_appends (st : Store) (d : DataSess) (ts : Nat) (line : Bytes) (st' : Store) (d' : DataSess)
    (h : pushData st d ts line = .ok (st', d')) :
    Grows st.data st'.data ∧ Grows st.index st'.index ∧ st'.part = st.part := by
  unfold pushData at h
  split at h
  · simp at h; obtain ⟨rfl, _⟩ := h
    exact ⟨grows_append _ _, grows_append _ _, rfl⟩
  · split at h
    · simp at h
    · split at h
      · simp at h; obtain ⟨rfl, _⟩ := h
        exact ⟨grows_append _ _, grows_append _ _, rfl⟩
      · simp at h; obtain ⟨rfl, _⟩ := h
        exact ⟨grows_append _ _, grows_refl _, rfl⟩

/-- a refused `push_data` (older than the last full timestamp) changes nothing: it has no result state -/
theorem pushData_error_no_state (st : Store) (d : DataSess) (ts : Nat) (line : Bytes) (f : Fault)
    (h : pushData st d ts line = .error f) : f = .err "OutOfOrder" := by
  unfold pushData at h
  split at h
  · simp at h
  · split at h
    · simpa using h.symm
    · split at h <;> simp at h

/-- **A cache only grows**: `DownSampledData::process` appends at most one line (and at
most one index entry) to the cache files. -/
theorem cacheProcess_appends (st : Store) (c : CacheSess) (ts : Nat) (line : Bytes) (st' : Store) (c' : CacheSess)
    (h : cacheProcess st c ts line = .ok (st', c')) :
    Grows st.data st'.data ∧ Grows st.index st'.index ∧ st'.part = st.part := by
  unfold cacheProcess at h
  split at h
  · simp at h; obtain ⟨rfl, _⟩ := h
    exact ⟨grows_refl _, grows_refl _, rfl⟩
  · dsimp only at h
    split at h
    · simp at h
    · split at h
      · split at h
        · simp at h
        · split at h
          · simp at h
          · split at h
            · simp at h
            · rename_i st2 d2 hp
              simp at h; obtain ⟨rfl, _⟩ := h
              exact pushData_appends _ _ _ _ _ _ hp
      · simp at h; obtain ⟨rfl, _⟩ := h
        exact ⟨grows_refl _, grows_refl _, rfl⟩

example : Grows (some [1, 2]) (appendTo (some [1, 2]) [3]) := by simp [Grows, appendTo]

end BS.Props.C16
