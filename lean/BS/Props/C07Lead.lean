/-
  C07, reverse direction, widest reading (see `Proofs/AnyLayoutLead.lean`): sections may carry a full
  time that lies before the entry they precede.
-/
import BS.Proofs.AnyLayoutLead

namespace BS.Props.C07
open BS BS.Impl

variable {σ : Type}

/-- **the library's reader reads every conformant layout, whatever full times its sections carry**:
over the whole data region `read_with_processor` feeds the processor exactly the history -/
theorem reader_reads_any_layout_with_leads (p : Nat) (cb : Option Bool) (proc : σ → Nat → Bytes → PRes σ) (ps : σ)
    (o : Option Nat) (e : Entry) (es : List (Option Nat × Entry)) (hv : Valid p (e :: es.map (·.2)))
    (hlead : Spec.LeadOK ((o, e) :: es)) :
    readRegion p cb proc ps (Spec.encodeL p ((o, e) :: es)) (metaSize p) (Spec.encodeL p ((o, e) :: es)).length
        (e.ts - Spec.leadOf o)
      = foldProc proc ps (e :: es.map (·.2)) :=
  readRegion_anyLayoutLead p cb proc ps o e es hv hlead

/-- **the specification's independent decoder agrees** -/
theorem reference_decoder_reads_any_layout_with_leads (p : Nat) (fx : List (Option Nat × Entry))
    (hv : Valid p (fx.map (·.2))) (hlead : Spec.LeadOK fx) :
    Spec.refDecode p (Spec.encodeL p fx) = some (fx.map (·.2)) :=
  refDecode_encodeL p fx hv hlead

/-- the layouts of `reader_reads_any_layout` (optional sections carrying the entry's own time) are the
special case of lead 0 -/
theorem leads_generalise_any_layout (p : Nat) (fx : List (Bool × Entry)) :
    Spec.encodeL p (fx.map fun x => (if x.1 then some 0 else none, x.2)) = Spec.encodeW p fx :=
  encFromL_of_W p fx none

/-- non-vacuity: a two-entry layout whose second entry follows a section 300 earlier than itself -/
example : Spec.LeadOK [(some 7, (⟨1000, [1, 2]⟩ : Entry)), (some 300, ⟨5000, [3, 4]⟩)] ∧
    Valid 2 ([(some 7, (⟨1000, [1, 2]⟩ : Entry)), (some 300, ⟨5000, [3, 4]⟩)].map (·.2)) := by
  constructor
  · intro x hx
    simp only [List.mem_cons, List.mem_nil_iff, or_false] at hx
    rcases hx with rfl | rfl <;> simp [Spec.leadOf]
  · constructor
    · simp
    · intro x hx
      simp only [List.map_cons, List.map_nil, List.mem_cons, List.mem_nil_iff, or_false] at hx
      rcases hx with rfl | rfl <;> simp

end BS.Props.C07
