/-
  PROPERTY-LEVEL STATEMENTS ABOUT THE TRANSLATED CODE.  `BS/Generated/Core.lean` is the Rust source
  of the decision / arithmetic core, translated on every run; `BS/Proofs/GenTie.lean` proves each
  translated function equal to the model's.  Here the two are composed with the property theorems, so
  that what is stated is about the functions as the source has them NOW: the seek (C02 / C13 / C14 /
  C10), `estimate_lines` (C11 / C19), `line_pos` (C09) and `meta::write` (C07 / C15).  The only added
  hypotheses are the 64-bit limits the model abstracts from (payload size below 2^60, data file below
  2^62 bytes), stated as `FileFits` and discharged from the session invariant by `fileFits_of_inv`.
-/
import BS.Proofs.GenTie
import BS.Proofs.ReadRange
import BS.Proofs.ReadNCaches
import BS.Proofs.LineOffset
import BS.Proofs.CacheOpen
import BS.Proofs.Push
import BS.Proofs.Repair
import BS.Props.C16

namespace BS.Gen
open BS.Impl

/-! ### positions handed out by `RoughPos::new` stay inside the file -/

def startAreaLe (B : Nat) : StartArea → Prop
  | .found p => p ≤ B
  | .clipped => True
  | .tillEnd p => p ≤ B
  | .window a b => a ≤ B ∧ b ≤ B
  | .gap p => p ≤ B

def endAreaLe (B : Nat) : EndArea → Prop
  | .found p => p ≤ B
  | .tillEnd p => p ≤ B
  | .window a b => a ≤ B ∧ b ≤ B
  | .gap p => p ≤ B

/-- every section header lies inside the first `B` bytes -/
def EntriesIn (p B : Nat) (entries : List IEntry) : Prop := ∀ e ∈ entries, e.off + Impl.metaSize p ≤ B

theorem startSearchBounds_le (v : DataView) (ts B : Nat) (h : EntriesIn v.p B v.entries) (a : StartArea) (f : Nat)
    (hr : Impl.startSearchBounds v ts = .ok (a, f)) : startAreaLe B a := by
  unfold Impl.startSearchBounds at hr
  dsimp only at hr
  have hm : ∀ (i : Nat) (e : IEntry), v.entries[i]? = some e → e.off + Impl.metaSize v.p ≤ B := fun i e he => h e (List.mem_of_getElem? he)
  split at hr
  · split at hr
    · rename_i e he; cases hr; exact hm _ _ he
    · cases hr
  · split at hr
    · split at hr
      · cases hr; trivial
      · cases hr
    · split at hr
      · split at hr
        · rename_i e he; cases hr; exact hm _ _ he
        · cases hr
      · split at hr
        · rename_i prev next hp hn
          have h1 := hm _ _ hp
          have h2 := hm _ _ hn
          split at hr
          · cases hr; exact h2
          · split at hr
            · cases hr; exact h2
            · cases hr; exact ⟨h1, by omega⟩
        · cases hr

theorem endSearchBounds_le (v : DataView) (ts B : Nat) (h : EntriesIn v.p B v.entries) (a : EndArea) (f : Nat)
    (hr : Impl.endSearchBounds v ts = .ok (a, f)) : endAreaLe B a := by
  unfold Impl.endSearchBounds at hr
  dsimp only at hr
  have hm : ∀ (i : Nat) (e : IEntry), v.entries[i]? = some e → e.off + Impl.metaSize v.p ≤ B := fun i e he => h e (List.mem_of_getElem? he)
  split at hr
  · split at hr
    · rename_i e he; cases hr; exact hm _ _ he
    · cases hr
  · split at hr
    · cases hr
    · split at hr
      · split at hr
        · rename_i e he; cases hr; exact hm _ _ he
        · cases hr
      · split at hr
        · rename_i prev next hp hn
          have h1 := hm _ _ hp
          have h2 := hm _ _ hn
          split at hr
          · cases hr; show next.off ≤ B; omega
          · cases hr; exact ⟨h1, by omega⟩
        · cases hr

theorem roughPos_le (v : DataView) (s e : Bound) (B : Nat) (r : RoughPos) (h : EntriesIn v.p B v.entries)
    (hd : v.dataLen ≤ B) (hm : Impl.metaSize v.p ≤ B) (hr : Impl.roughPos v s e = .ok r) :
    startAreaLe B r.startArea ∧ endAreaLe B r.endArea := by
  unfold Impl.roughPos at hr
  cases h1 : Impl.checkedStartTime v s with
  | error f => simp [h1] at hr
  | ok startTs =>
    cases h2 : Impl.checkedEndTime v e with
    | error f => simp [h1, h2] at hr
    | ok endTs =>
      simp only [h1, h2, bind_ok] at hr
      by_cases hgt : startTs > endTs
      · simp [hgt] at hr
      · simp only [hgt, if_false] at hr
        cases h3 : Impl.startAreaOf v s startTs with
        | error f => simp [h3] at hr
        | ok sa =>
          cases h4 : Impl.endAreaOf v e endTs with
          | error f => simp [h3, h4] at hr
          | ok ea =>
            simp only [h3, h4, bind_ok] at hr
            cases hr
            constructor
            · show startAreaLe B sa.1
              unfold Impl.startAreaOf at h3
              cases s with
              | unb =>
                simp only at h3
                split at h3
                · cases h3; show Impl.lineStart v.p 0 ≤ B; simp only [Impl.lineStart]; omega
                · cases h3
              | incl t => exact startSearchBounds_le v startTs B h sa.1 sa.2 h3
              | excl t => exact startSearchBounds_le v startTs B h sa.1 sa.2 h3
            · show endAreaLe B ea.1
              unfold Impl.endAreaOf at h4
              cases e with
              | unb =>
                simp only at h4
                split at h4
                · split at h4
                  · cases h4
                  · cases h4; show v.dataLen - Impl.lineSize v.p ≤ B; omega
                · cases h4
              | incl t => exact endSearchBounds_le v endTs B h ea.1 ea.2 h4
              | excl t => exact endSearchBounds_le v endTs B h ea.1 ea.2 h4

/-- what has to fit 64 bits for the model's unbounded arithmetic to be the code's: the section
headers and the data lie in the first `B` bytes, a section header and a line more still fit -/
structure FileFits (v : DataView) (B : Nat) : Prop where
  hp : v.p < 2^60
  entries : EntriesIn v.p B v.entries
  dataLen : v.dataLen ≤ B
  meta1 : Impl.metaSize v.p ≤ B
  room : B + Impl.metaSize v.p + Impl.lineSize v.p < 2^64
  gap : ∀ i e, i + 1 < v.entries.length → v.entries[i]? = some e → e.ts + 65534 < 2^64

theorem FileFits.indexFits {v : DataView} {B : Nat} (h : FileFits v B) : IndexFits v.p v.entries :=
  ⟨h.hp, fun e he => by have := h.entries e he; have := h.room; omega, h.gap⟩

/-- **the translated seek is the model's seek**: `RoughPos::new(..)?.refine(..)?` as translated from
the current source, with the error wrapping of the API, equals `apiSeek` of the model -/
theorem gen_seek_is_model (region : Bytes) (d : DataSess) (B : Nat) (hf : FileFits d.view B) (s e : Bound) :
    (match RoughPos_new d.view s e with
      | .error f => .error (Impl.wrapErr "InvalidRange" f)
      | .ok r =>
        match RoughPos_refine r d.view region with
        | .error f => .error (Impl.wrapErr "Seeking" f)
        | .ok pos => .ok pos) = Impl.apiSeek region d s e := by
  have h0 : 0 + Impl.metaSize d.view.p < 2^64 := by have := hf.meta1; have := hf.room; omega
  unfold Impl.apiSeek
  rw [rough_pos_new_tie d.view s e hf.indexFits h0]
  cases hr : Impl.roughPos d.view s e with
  | error f => rfl
  | ok r =>
    have hle := roughPos_le d.view s e B r hf.entries hf.dataLen hf.meta1 hr
    have hend : ∀ pos, r.endArea = EndArea.found pos → pos + (d.view.p + 2) < 2^64 := by
      intro pos hp
      have := hle.2
      rw [hp] at this
      have h2 : pos ≤ B := this
      have := hf.room
      simp only [Impl.lineSize] at this
      omega
    simp only
    rw [refine_tie d.view region r hf.hp h0 hend]
    cases Impl.refine d.view region r <;> rfl

/-! ### the side conditions hold for every file the library writes (below 2^62 bytes) -/

/-- every later section of the canonical encoding is more than 65534 after an earlier full time -/
theorem sectionsFrom_spaced (p : Nat) (xs : List Entry) : ∀ (full : Option Nat) (off : Nat),
    (∀ f, full = some f → ∀ s ∈ Spec.sectionsFrom p full off xs, f + 65534 < s.1) ∧
    (Spec.sectionsFrom p full off xs).Pairwise (fun a b => a.1 + 65534 < b.1) := by
  induction xs with
  | nil => intro full off; cases full <;> simp [Spec.sectionsFrom]
  | cons x xs ih =>
    intro full off
    have newsec : ∀ off', (∀ s ∈ Spec.sectionsFrom p (some x.ts) off' xs, x.ts + 65534 < s.1) ∧
        ((x.ts, off) :: Spec.sectionsFrom p (some x.ts) off' xs).Pairwise (fun a b => a.1 + 65534 < b.1) := by
      intro off'
      obtain ⟨h1, h2⟩ := ih (some x.ts) off'
      exact ⟨h1 x.ts rfl, List.pairwise_cons.mpr ⟨fun s hs => h1 x.ts rfl s hs, h2⟩⟩
    match full with
    | none =>
      simp only [Spec.sectionsFrom]
      exact ⟨fun f hf => (by cases hf), (newsec _).2⟩
    | some f =>
      by_cases hd : x.ts - f ≤ Spec.maxDelta
      · simp only [Spec.sectionsFrom, if_pos hd]
        obtain ⟨h1, h2⟩ := ih (some f) (off + Spec.lineSize p)
        exact ⟨fun f' hf' => by cases hf'; exact h1 f rfl, h2⟩
      · simp only [Spec.sectionsFrom, if_neg hd]
        have hx : f + 65534 < x.ts := by simp only [Spec.maxDelta] at hd; omega
        refine ⟨fun f' hf' s hs => ?_, (newsec _).2⟩
        cases hf'
        simp only [List.mem_cons] at hs
        rcases hs with rfl | hs
        · exact hx
        · have := (newsec (off + Spec.secSize p + Spec.lineSize p)).1 s hs; omega

theorem mem_toIEntries {secs : List (Nat × Nat)} {e : IEntry} (h : e ∈ toIEntries secs) :
    ∃ s ∈ secs, e = ⟨s.1, s.2⟩ := by
  simp only [toIEntries, List.mem_map] at h
  obtain ⟨s, hs, rfl⟩ := h
  exact ⟨s, hs, rfl⟩

/-- **`FileFits` for every state the session invariant describes** whose data file is below 2^62 bytes
(the only assumption: the 64-bit limits the model abstracts from) -/
theorem fileFits_of_inv (hdr ihdr : Bytes) (st : Store) (d : DataSess) (xs : List Entry)
    (hinv : DataInv hdr ihdr st d xs) (hv : Valid d.p xs) (hp : d.p < 2^60)
    (hsz : (Spec.encode d.p xs).length + 2 * Impl.metaSize d.p + Impl.lineSize d.p < 2^64) :
    FileFits d.view (d.dataLen + Impl.metaSize d.p) := by
  have hpl : ∀ x ∈ xs, x.pl.length = d.p := fun x hx => (hv.2 x hx).2
  have hdl := hinv.dataLen
  refine ⟨hp, ?_, ?_, ?_, ?_, ?_⟩
  · intro e he
    simp only [DataSess.view] at he ⊢
    rw [hinv.entries] at he
    obtain ⟨s, hs, rfl⟩ := mem_toIEntries he
    have := (sectionsFrom_bounds d.p xs hpl none 0 s hs).2.1
    simp only [Nat.zero_add] at this
    unfold Spec.encode at hdl
    show s.2 + Impl.metaSize d.p ≤ d.dataLen + Impl.metaSize d.p
    omega
  · simp only [DataSess.view]; omega
  · simp only [DataSess.view]; omega
  · simp only [DataSess.view]; omega
  · intro i e hi he
    simp only [DataSess.view] at hi he
    rw [hinv.entries] at hi he
    have hsp := (sectionsFrom_spaced d.p xs none 0).2
    have hbd := sectionsFrom_bounds d.p xs hpl none 0
    unfold Spec.sections at hi he
    generalize Spec.sectionsFrom d.p none 0 xs = S at hi he hsp hbd
    have hi : i + 1 < S.length := by simpa [toIEntries] using hi
    have hi0 : i < S.length := by omega
    have he' : e = ⟨(S[i]'hi0).1, (S[i]'hi0).2⟩ := by
      simp only [toIEntries, List.getElem?_map, List.getElem?_eq_getElem hi0, Option.map_some, Option.some.injEq] at he
      exact he.symm
    have hlt := List.pairwise_iff_getElem.mp hsp i (i + 1) hi0 hi (by omega)
    obtain ⟨x, hx, hxs⟩ := (hbd _ (List.getElem_mem hi)).2.2
    have := (hv.2 x hx).1
    rw [he']
    show (S[i]'hi0).1 + 65534 < 2 ^ 64
    omega

/-- **C02 / C13 / C14 / C10 on the translated code**: in every state of the session invariant the seek as
translated from the current source (`RoughPos::new(..)?.refine(..)?`) yields, for EVERY pair of bounds, a
range error / nothing exactly when no entry is in range, else the byte range whose lines are exactly the
entries in range -/
theorem gen_seek_spec (hdr ihdr : Bytes) (dir : Dir) (s : Sess) (e : Entry) (es : List Entry)
    (hinv : SessInv hdr ihdr dir s (e :: es)) (hp : s.d.p < 2^60)
    (hsz : (Spec.encode s.d.p (e :: es)).length + 2 * Impl.metaSize s.d.p + Impl.lineSize s.d.p < 2^64) (sb eb : Bound) :
    SeekOutcome s.d.p (e :: es) (Spec.filterBounds (toSpecBound sb) (toSpecBound eb) (e :: es))
      (match RoughPos_new s.d.view sb eb with
        | .error f => .error (Impl.wrapErr "InvalidRange" f)
        | .ok r =>
          match RoughPos_refine r s.d.view (mainRegion dir s) with
          | .error f => .error (Impl.wrapErr "Seeking" f)
          | .ok pos => .ok pos) := by
  rw [gen_seek_is_model (mainRegion dir s) s.d _ (fileFits_of_inv hdr ihdr dir.main s.d (e :: es) hinv.data hinv.valid hp hsz) sb eb]
  exact apiSeek_spec hdr ihdr dir s e es hinv sb eb

/-- **C11 / C19 on the translated code**: `estimate_lines` as translated from the current source cannot
panic (no underflow, no `unreachable!`) on anything the translated `RoughPos::new` returns -/
theorem gen_estimate_total (d : DataSess) (B : Nat) (hf : FileFits d.view B) (sb eb : Bound) (r : RoughPos)
    (hr : RoughPos_new d.view sb eb = .ok r) (dl : Nat) :
    ∃ est, RoughPos_estimate_lines r d.p dl = .ok est := by
  have h0 : 0 + Impl.metaSize d.view.p < 2^64 := by have := hf.meta1; have := hf.room; omega
  rw [rough_pos_new_tie d.view sb eb hf.indexFits h0] at hr
  have hle := roughPos_le d.view sb eb B r hf.entries hf.dataLen hf.meta1 hr
  have hfit : AreasFit d.p r := by
    have hroom := hf.room
    simp only [DataSess.view] at hroom
    constructor
    · intro a b hab
      have := hle.1; rw [hab] at this
      have h2 : b ≤ B := this.2
      omega
    · intro a ha
      have := hle.2; rw [ha] at this
      have h2 : a ≤ B := this
      omega
  rw [estimate_lines_tie d.p dl r hf.hp hfit]
  exact roughPos_estimate_ok d.view sb eb r d.p dl hr

/-! ### `line_pos` (C09: the resume point of the cache catch-up) -/

theorem secsOf_aligned (p : Nat) : ∀ (gs : List (List Entry)) (i N off : Nat), off = i * Impl.metaSize p + N * Impl.lineSize p →
    ∀ (j : Nat) (e : IEntry), (toIEntries (secsOf p off gs))[j]? = some e → (i + j) * Impl.lpm p ≤ e.off / Impl.lineSize p := by
  intro gs
  induction gs with
  | nil => intro i N off _ j e he; simp [secsOf, toIEntries] at he
  | cons g gs ih =>
    intro i N off hoff j e he
    have hls := lineSize_pos p
    cases j with
    | zero =>
      simp only [secsOf, toIEntries, List.map_cons, List.getElem?_cons_zero, Option.some.injEq] at he
      subst he
      show (i + 0) * Impl.lpm p ≤ off / Impl.lineSize p
      rw [Nat.add_zero, hoff, Impl.metaSize, ← Nat.mul_assoc, ← Nat.add_mul, Nat.mul_div_cancel _ hls]; omega
    | succ j =>
      simp only [secsOf, toIEntries, List.map_cons, List.getElem?_cons_succ] at he
      have := ih (i + 1) (N + g.length) (off + Impl.metaSize p + g.length * Impl.lineSize p)
        (by rw [hoff, Nat.add_mul, Nat.add_mul]; omega) j e (by simpa [toIEntries] using he)
      have e1 : i + (j + 1) = i + 1 + j := by omega
      rw [e1]; exact this

theorem linePosFits_of_inv (hdr ihdr : Bytes) (st : Store) (d : DataSess) (xs : List Entry)
    (hinv : DataInv hdr ihdr st d xs) (hv : Valid d.p xs) (hp : d.p < 2^60)
    (hsz : (Spec.encode d.p xs).length + Impl.metaSize d.p < 2^62) (n : Nat) (hn : n ≤ xs.length) :
    LinePosFits d.p n 0 d.entries := by
  have hpl : ∀ x ∈ xs, x.pl.length = d.p := fun x hx => (hv.2 x hx).2
  have hlen := encode_length d.p xs hpl
  have hls := lineSize_pos d.p
  have hent : d.entries = toIEntries (secsOf d.p 0 (groups xs)) := by
    rw [hinv.entries]; unfold Spec.sections; rw [sections_groups]
  refine ⟨hp, ?_, ?_⟩
  · have h1 : n * Impl.lineSize d.p ≤ xs.length * Impl.lineSize d.p := Nat.mul_le_mul_right _ hn
    have h2 : xs.length * Impl.lineSize d.p = Impl.lineSize d.p * xs.length := Nat.mul_comm _ _
    omega
  · intro j e he
    have hmem : e ∈ d.entries := List.mem_of_getElem? he
    have hjl : j < d.entries.length := by
      rcases Nat.lt_or_ge j d.entries.length with h | h
      · exact h
      · rw [List.getElem?_eq_none h] at he; cases he
    refine ⟨?_, ?_, ?_⟩
    · rw [hent] at he
      exact secsOf_aligned d.p (groups xs) 0 0 0 (by simp) j e he
    · rw [hinv.entries] at hmem
      obtain ⟨s, hs, rfl⟩ := mem_toIEntries hmem
      have := (sectionsFrom_bounds d.p xs hpl none 0 s hs).2.1
      simp only [Nat.zero_add] at this
      show s.2 + Impl.metaSize d.p < 2 ^ 63
      unfold Spec.encode at hsz
      omega
    · have hnsec : d.entries.length = (Spec.sections d.p xs).length := by rw [hinv.entries]; simp [toIEntries]
      have h1 : (0 + j) * Impl.lpm d.p ≤ (Spec.sections d.p xs).length * Impl.lpm d.p :=
        Nat.mul_le_mul_right _ (by omega)
      have h2 : (Spec.sections d.p xs).length * Impl.lpm d.p ≤ Impl.metaSize d.p * (Spec.sections d.p xs).length := by
        rw [Nat.mul_comm]
        apply Nat.mul_le_mul_right
        unfold Impl.metaSize
        exact Nat.le_mul_of_pos_right _ hls
      omega

/-- **C09 on the translated code**: `Data::line_pos` as translated from the current source returns, for
every existing line number `k`, the byte position and section timestamp from which reading the source to
its end feeds a processor exactly the lines from number `k` on (what the cache catch-up relies on) -/
theorem gen_line_pos_exact (hdr ihdr : Bytes) (st : Store) (d : DataSess) (xs : List Entry)
    (hinv : DataInv hdr ihdr st d xs) (hv : Valid d.p xs) (hp : d.p < 2^60)
    (hsz : (Spec.encode d.p xs).length + Impl.metaSize d.p < 2^62) (k : Nat) (hk : k < xs.length) :
    ∃ start full, Data_line_pos d.view k = .ok (some (start, full)) ∧
      ∀ {σ : Type} (cb : Option Bool) (proc : σ → Nat → Bytes → PRes σ) (ps : σ),
        readRegion d.p cb proc ps (Spec.encode d.p xs) start (Spec.encode d.p xs).length full
          = foldProc proc ps (xs.drop k) := by
  have hpl : ∀ x ∈ xs, x.pl.length = d.p := fun x hx => (hv.2 x hx).2
  obtain ⟨start, full, hlo, hread⟩ := lineOffset_spec hdr ihdr st d xs hinv hv k hk
  refine ⟨start, full, ?_, hread⟩
  have hfit := linePosFits_of_inv hdr ihdr st d xs hinv hv hp hsz k (by omega)
  have hn : d.entries.length * Impl.lpm d.p < 2^64 := by
    have hlen := encode_length d.p xs hpl
    have hls := lineSize_pos d.p
    have hnsec : d.entries.length = (Spec.sections d.p xs).length := by rw [hinv.entries]; simp [toIEntries]
    have h2 : (Spec.sections d.p xs).length * Impl.lpm d.p ≤ Impl.metaSize d.p * (Spec.sections d.p xs).length := by
      rw [Nat.mul_comm]
      apply Nat.mul_le_mul_right
      unfold Impl.metaSize
      exact Nat.le_mul_of_pos_right _ hls
    rw [hnsec]; omega
  rw [data_line_pos_tie d k hfit hn, len_of_dataInv hdr ihdr st d xs hinv hv]
  have : ¬ k ≥ xs.length := by omega
  simp [this, hlo]

/-- **C07 / C15 on the translated code**: `meta::write` as translated from the current source emits
exactly the section of the documented format (`Spec.encSection`, the independent encoder of the
specification) and reports its size -/
theorem gen_write_is_documented_section (ts p : Nat) (hp : p < 2^60) :
    write (le8 ts) p = .ok (Spec.encSection p ts, Spec.secSize p) := by
  rw [write_tie ts p hp, spec_encSection, spec_secSize]

/-- **C01 / C15 on the translated code**: one accepted append by `Data::push_data` AS TRANSLATED FROM THE CURRENT
SOURCE - its `write_all` calls carried out in order on the two files - leaves the data file, the index file and
the in-memory fields exactly what the documented format prescribes for the longer history (`DataInv`, stated over
`Spec.encode` / `Spec.encIndex`), for every history, payload size and line -/
theorem gen_push_data_keeps_documented_format (hdr ihdr : Bytes) (st : Store) (d : DataSess) (xs : List Entry) (e : Entry)
    (hinv : DataInv hdr ihdr st d xs) (hv : Valid d.p (xs ++ [e]))
    (hp : d.p < 2^60) (hlen : d.dataLen + Impl.metaSize d.p + Impl.lineSize d.p < 2^64) :
    ∃ st' d', runPushData st d (Data_push_data d.view e.ts e.pl) = .ok (st', d') ∧ d'.p = d.p ∧
      DataInv hdr ihdr st' d' (xs ++ [e]) := by
  have hl : d.p ≤ e.pl.length := by
    have := (hv.2 e (by simp)).2
    omega
  rw [push_data_tie st d e.ts e.pl hp hl hlen]
  exact pushData_inv hdr ihdr st d xs e hinv hv

/-- **C16 on the translated code**: whatever `Data::push_data` as translated from the current source does to the
files is an append: each file keeps its previous content as a prefix; a refusal is `OutOfOrder` and has no state -/
theorem gen_push_data_only_appends (st : Store) (d : DataSess) (ts : Nat) (line : Bytes)
    (hp : d.p < 2^60) (hl : d.p ≤ line.length) (hlen : d.dataLen + Impl.metaSize d.p + Impl.lineSize d.p < 2^64) :
    match runPushData st d (Data_push_data d.view ts line) with
    | .ok (st', _) => Props.C16.Grows st.data st'.data ∧ Props.C16.Grows st.index st'.index ∧ st'.part = st.part
    | .error f => f = .err "OutOfOrder" := by
  rw [push_data_tie st d ts line hp hl hlen]
  cases h : pushData st d ts line with
  | ok r => exact Props.C16.pushData_appends st d ts line r.1 r.2 h
  | error f => exact Props.C16.pushData_error_no_state st d ts line f h

/-- **C05 / C16 on the translated code**: the open-time repair `FileWithInlineMeta::new` AS TRANSLATED FROM THE
CURRENT SOURCE turns the canonical data region cut at ANY byte length into the canonical region of the completely
written prefix - no partial, phantom or re-timed line - for every history and payload size (its two iterator-written
stages stand for the model's functions) -/
theorem gen_open_repair_yields_written_prefix (p : Nat) (xs : List Entry) (hv : Valid p xs) (hc : TailClean p xs) (n : Nat)
    (hp : p < 2^60) :
    FileWithInlineMeta_new ((Spec.encode p xs).take n) p =
      .ok (Spec.encode p (xs.take (Spec.linesWithin p xs n)),
           ⟨Spec.encode p (xs.take (Spec.linesWithin p xs n)), p⟩) := by
  rw [file_new_tie _ p hp, repair_cut p xs hv hc n]

/-- **C04 on the translated code**: on an intact file the translated repair changes nothing -/
theorem gen_open_repair_identity_on_intact (p : Nat) (xs : List Entry) (hv : Valid p xs) (hc : TailClean p xs) (hp : p < 2^60) :
    FileWithInlineMeta_new (Spec.encode p xs) p = .ok (Spec.encode p xs, ⟨Spec.encode p xs, p⟩) := by
  rw [file_new_tie _ p hp, repair_intact p xs hv hc]

end BS.Gen
