/-
  Byte-level helpers shared by the specification and the model:
  little-endian codecs and `chunks_exact`.
  No imports: everything the driver links must stay Mathlib-free.
-/
namespace BS

abbrev Bytes := List UInt8

/-- little-endian encoding of `n` in `k` bytes (`n.to_le_bytes()[..k]`) -/
def leN : Nat → Nat → Bytes
  | 0, _ => []
  | k+1, n => UInt8.ofNat (n % 256) :: leN k (n / 256)

/-- little-endian decoding (`uN::from_le_bytes`) -/
def unN : Bytes → Nat
  | [] => 0
  | b :: bs => b.toNat + 256 * unN bs

def le2 (n : Nat) : Bytes := leN 2 n
def le8 (n : Nat) : Bytes := leN 8 n

def zeros (n : Nat) : Bytes := List.replicate n 0

/-- Rust `chunks_exact(ls)`: full chunks only, the remainder is dropped -/
def toLines (ls : Nat) (b : Bytes) : List Bytes :=
  if _h : ls = 0 ∨ b.length < ls then []
  else b.take ls :: toLines ls (b.drop ls)
termination_by b.length
decreasing_by
  simp only [List.length_drop]
  omega

/-- a line starts with the two marker bytes `FF FF` (`line[..2] == PREAMBLE`) -/
def isMarker : Bytes → Bool
  | a :: b :: _ => a == 0xFF && b == 0xFF
  | _ => false

def u64Max : Nat := 18446744073709551615

/-- one stored line as the API shows it: full timestamp and payload bytes -/
structure Entry where
  ts : Nat
  pl : Bytes
deriving Repr, DecidableEq, Inhabited

end BS

namespace BS

/-! ### a linear-time `toLines` for compiled code (`@[csimp]`: the compiler uses it in place
of the quadratic defining equation; the replacement is justified by the theorem below, checked
by the kernel like any other) -/

def toLinesGo (ls : Nat) : Nat → Bytes → List Bytes → List Bytes
  | 0, _, acc => acc.reverse
  | fuel+1, b, acc =>
    let l := b.take ls
    if l.length < ls then acc.reverse else toLinesGo ls fuel (b.drop ls) (l :: acc)

def toLinesFast (ls : Nat) (b : Bytes) : List Bytes :=
  if ls = 0 then [] else toLinesGo ls (b.length + 1) b []

theorem toLinesGo_eq (ls : Nat) (hls : 0 < ls) : ∀ (fuel : Nat) (b : Bytes) (acc : List Bytes), b.length < fuel →
    toLinesGo ls fuel b acc = acc.reverse ++ toLines ls b := by
  intro fuel
  induction fuel with
  | zero => intro b acc h; omega
  | succ fuel ih =>
    intro b acc h
    rw [toLinesGo, toLines]
    simp only [List.length_take]
    by_cases hb : b.length < ls
    · have h1 : min ls b.length < ls := by omega
      have h2 : ls = 0 ∨ b.length < ls := Or.inr hb
      simp [h1, h2]
    · have h1 : ¬ min ls b.length < ls := by omega
      have h2 : ¬ (ls = 0 ∨ b.length < ls) := by omega
      simp only [h1, h2, if_false, dite_false]
      rw [ih (b.drop ls) (b.take ls :: acc) (by simp only [List.length_drop]; omega)]
      simp

@[csimp] theorem toLines_eq_fast : @toLines = @toLinesFast := by
  funext ls b
  unfold toLinesFast
  by_cases h : ls = 0
  · subst h; rw [toLines]; simp
  · simp only [h, if_false]
    rw [toLinesGo_eq ls (by omega) _ b [] (by omega)]
    simp

end BS
