/-
  Byte-level helpers shared by the specification and the model:
  little-endian codecs and `chunks_exact`.
  No imports: everything the driver links must stay Mathlib-free.
-/
namespace BS

abbrev Bytes := List UInt8

/-- little-endian encoding of `n` in `k` bytes (`n.to_le_bytes()[..k]`) -/
def leN : Nat → Nat → Bytes
  | 0, _ => []
  | k+1, n => UInt8.ofNat (n % 256) :: leN k (n / 256)

/-- little-endian decoding (`uN::from_le_bytes`) -/
def unN : Bytes → Nat
  | [] => 0
  | b :: bs => b.toNat + 256 * unN bs

def le2 (n : Nat) : Bytes := leN 2 n
def le8 (n : Nat) : Bytes := leN 8 n

def zeros (n : Nat) : Bytes := List.replicate n 0

/-- Rust `chunks_exact(ls)`: full chunks only, the remainder is dropped -/
def toLines (ls : Nat) (b : Bytes) : List Bytes :=
  if _h : ls = 0 ∨ b.length < ls then []
  else b.take ls :: toLines ls (b.drop ls)
termination_by b.length
decreasing_by
  simp only [List.length_drop]
  omega

/-- a line starts with the two marker bytes `FF FF` (`line[..2] == PREAMBLE`) -/
def isMarker : Bytes → Bool
  | a :: b :: _ => a == 0xFF && b == 0xFF
  | _ => false

def u64Max : Nat := 18446744073709551615

/-- one stored line as the API shows it: full timestamp and payload bytes -/
structure Entry where
  ts : Nat
  pl : Bytes
deriving Repr, DecidableEq, Inhabited

end BS
