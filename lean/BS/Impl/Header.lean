/-
  MODEL of src/file.rs (`FileWithHeader::new`, `open_existing`, `OffsetFile`) and
  src/series/file_header.rs (`SeriesParams::to_text`, `from_text`,
  `check_and_split_off_user_header`).
-/
import BS.Impl.Layout

namespace BS.Impl

/-- `FileWithHeader::new` (after the fix: the header length is checked before the
file is created).  `existing` is the current content of the path, if any.
Returns the new file content and the data offset. -/
def fileNew (existing : Option Bytes) (header : Bytes) : R (Bytes × Nat) :=
  if header.length > 65535 then .error (.err "HeaderTooLarge")
  else match existing with
    | some _ => .error (.err "AlreadyExists")
    | none => .ok (leN 2 header.length ++ Gen.lineEnds ++ header, 4 + header.length)

/-- `FileWithHeader::open_existing`: (data offset, header bytes) -/
def fileOpenExisting (f : Option Bytes) : R (Nat × Bytes) :=
  match f with
  | none => .error (.err "NotFound")
  | some b =>
    if b.length < 2 then .error (.err "UnexpectedEof")
    else
      let hl := unN (b.take 2)
      if b.length < 4 + hl then .error (.err "UnexpectedEof")
      else .ok (4 + hl, (b.drop 4).take hl)

/-- `n.to_string()` as bytes: decimal digits, most significant first -/
def natDigits (n : Nat) : Bytes :=
  if n < 10 then [(48 + n).toUInt8] else natDigits (n / 10) ++ [(48 + n % 10).toUInt8]
termination_by n
decreasing_by omega

/-- `SeriesParams::to_text` (version is the constant 1) -/
def toText (p : Nat) : Bytes :=
  let text := Gen.textPre ++ natDigits Gen.version ++ Gen.textMid ++ natDigits p ++ Gen.textPost
  leN 4 text.length ++ text

/-- `str::find` on bytes -/
def findSub (pat b : Bytes) : Option Nat :=
  go b 0 (b.length + 1)
where
  go (b : Bytes) (i : Nat) : Nat → Option Nat
    | 0 => none
    | fuel+1 =>
      if pat.isPrefixOf b then some i
      else match b with
        | [] => none
        | _ :: t => go t (i+1) fuel

/-- a leading '+' is accepted by Rust's integer parser -/
def stripPlus : Bytes → Bytes
  | 43 :: t => t
  | b => b

/-- one decimal digit more; `none` once a non-digit was seen -/
def decStep (acc : Option Nat) (c : UInt8) : Option Nat :=
  match acc with
  | none => none
  | some n => if 48 ≤ c.toNat ∧ c.toNat ≤ 57 then some (n * 10 + (c.toNat - 48)) else none

/-- `str::parse::<usize/u16>()` for plain decimal digits; `limit` is the type's MAX -/
def parseDec (limit : Nat) (b : Bytes) : Option Nat :=
  let b := stripPlus b
  if b.isEmpty then none
  else
    match b.foldl decStep (some 0) with
    | some n => if n ≤ limit then some n else none
    | none => none

/-- `parse_version` / `parse_payload_size`: the text between two patterns -/
def parseBetween (startPat endPat text : Bytes) (limit : Nat) : R Nat :=
  match findSub startPat text with
  | none => .error (.err "Parameters/Other")
  | some i =>
    match findSub endPat text with
    | none => .error (.err "Parameters/Other")
    | some j =>
      let s := i + startPat.length
      if j < s then .error .panic                        -- `&text[start..end]` with start > end
      else match parseDec limit ((text.take j).drop s) with
        | some n => .ok n
        | none => .error (.err "Parameters/Other")

/-- `check_and_split_off_user_header`; `want` is `MustMatch(p)` or `Ignore` -/
def checkAndSplitHeader (header : Bytes) (want : Option Nat) : R (Nat × Bytes) :=
  if header.length < 4 then .error .panic                 -- `header[0..4]`
  else
    let textLen := unN (header.take 4)
    if textLen > header.length then .error .panic         -- the `assert!`
    else if textLen < 4 then .error .panic                -- `header[4..text_len]`
    else
      let text := (header.take textLen).drop 4
      if text.any (fun c => c.toNat ≥ 128) then .error (.err "Parameters/Other")   -- approximation of `from_utf8`
      else do
        let version ← parseBetween Gen.versionStart Gen.versionEnd text 65535
        let payload ← parseBetween Gen.payloadStart Gen.payloadEnd text u64Max
        if version ≠ Gen.version then .error (.err "Parameters/VersionMismatch")
        else
          match want with
          | some w => if payload ≠ w then .error (.err "Parameters/PayloadSizeChanged")
                      else if textLen + 4 > header.length then .error .panic   -- `drain`
                      else .ok (payload, header.drop (textLen + 4))
          | none => if textLen + 4 > header.length then .error .panic
                    else .ok (payload, header.drop (textLen + 4))

end BS.Impl
