/-
  MODEL of src/series/data/index.rs (`check_and_repair`, `open_existing`, `update`)
  and src/series/data/index/create.rs (`meta`, `extract_entries_inner`,
  `last_meta_timestamp`, `create_from_byteseries`).
-/
import BS.Impl.Layout

namespace BS.Impl

structure IEntry where
  ts : Nat
  off : Nat
deriving Repr, DecidableEq, Inhabited

/-- bytes appended to the index file by `Index::update` -/
def encIEntry (e : IEntry) : Bytes := le8 e.ts ++ le8 e.off

/-- `bytes.chunks_exact(16).map(..)` in `Index::open_existing` -/
def parseIndex (region : Bytes) : List IEntry :=
  (toLines Gen.indexEntry region).map fun l => ⟨unN (l.take 8), unN (l.drop 8)⟩

/-! ### `meta()`: find the sections in a buffer of lines -/

/-- One pass of `meta()` over `ls`, the first of which has absolute line index `idx`.
Returns the (line index, timestamp) of every complete section and the number of
trailing lines that belong to a section cut off by the end of the buffer.
A lone marker line followed by a non-marker line is skipped together with that line. -/
def metaScan (p : Nat) (idx : Nat) (ls : List Bytes) : List (Nat × Nat) × Nat :=
  match ls with
  | [] => ([], 0)
  | l :: rest =>
    if !isMarker l then metaScan p (idx + 1) rest
    else
      match rest with
      | [] => ([], 1)
      | l2 :: rest2 =>
        if !isMarker l2 then metaScan p (idx + 2) rest2
        else
          if rest2.length < rawCount p then ([], 2 + rest2.length)
          else
            let r := metaScan p (idx + 2 + rawCount p) (rest2.drop (rawCount p))
            ((idx, metaTs p l l2 (rest2.take (rawCount p))) :: r.1, r.2)
termination_by ls.length
decreasing_by all_goals simp_all <;> omega

/-- the buffered loop of `extract_entries_inner`: `k` fresh lines per refill, the
unfinished section carried to the front of the next buffer.  `idx` is the absolute
line index of the first line of `carry ++ rest`. -/
def extractChunked (p k : Nat) (idx : Nat) (carry rest : List Bytes) : List (Nat × Nat) :=
  if _h : rest = [] ∨ k = 0 then []
  else
    let buf := carry ++ rest.take k
    let r := metaScan p idx buf
    r.1 ++ extractChunked p k (idx + (buf.length - r.2)) (buf.drop (buf.length - r.2)) (rest.drop k)
termination_by rest.length
decreasing_by
  have : rest ≠ [] := by intro h'; exact _h (Or.inl h')
  have : 0 < rest.length := List.length_pos_iff.mpr this
  simp only [List.length_drop]; omega

def chunkLinesExtract (p : Nat) : Nat := nextMultiple Gen.chunkExtract (lineSize p) / lineSize p

/-- `extract_entries_inner(file, p, start, end)`: entries with offsets relative to `start` -/
def extractEntriesInner (p : Nat) (d : Bytes) (start stop : Nat) : List IEntry :=
  let region := (d.drop start).take (stop - start)
  (extractChunked p (chunkLinesExtract p) 0 [] (toLines (lineSize p) region)).map
    fun (i, ts) => ⟨ts, i * lineSize p⟩

def extractEntries (p : Nat) (d : Bytes) : List IEntry := extractEntriesInner p d 0 d.length

/-- window of `last_meta_timestamp` (after the fix: at least twice the overlap) -/
def lastMetaWindow (p : Nat) : Nat :=
  nextMultiple (max Gen.windowBytes (Gen.windowOverlapFactor * metaSize p)) (lineSize p)

/-- `last_meta_timestamp`: scan windows backwards from the end of the data -/
def lastMetaLoop (p : Nat) (d : Bytes) (start : Nat) : R (Option Nat) :=
  let window := lastMetaWindow p
  let overlap := metaSize p
  let stop := min (start + window) d.length
  if start = stop then .ok none
  else
    match (extractEntriesInner p d start stop).getLast? with
    | some e => .ok (some e.ts)
    | none =>
      if h : start = 0 then .error .panic                    -- the `assert!(start > 0)`
      else if h2 : overlap < window then
        lastMetaLoop p d ((start + overlap) - window)
      else .error .panic                                      -- no progress: would loop forever
termination_by start
decreasing_by omega

def lastMetaTs (p : Nat) (d : Bytes) : R (Option Nat) :=
  lastMetaLoop p d (d.length - lastMetaWindow p)

/-! ### `check_and_repair` of the index file -/

/-- Result of `Index::open_existing` on an index REGION (bytes after the 4-byte header):
the region as left on disk (the `set_len` calls happen even when the check then fails)
and either the entries or the fact that the index has to be rebuilt. -/
structure IndexCheck where
  region : Bytes
  ok : Bool

/-- `check_and_repair` followed by the read-back; `fileHdr` is the length of the index
file's own header (4): `seek(End(-16))` is relative to the real end of the file -/
def indexCheck (fileHdr : Nat) (region : Bytes) (lastLineStart : Option Nat) (lastFullInData : Option Nat) :
    R IndexCheck :=
  match lastLineStart with
  | none => .ok ⟨[], true⟩
  | some lls =>
    let r1 := region.take (region.length - region.length % 16)
    if fileHdr + r1.length < 16 then .ok ⟨r1, false⟩            -- seek before byte 0: error
    else if r1.length < 16 then
      -- the 16 bytes read overlap the header: the model does not follow that
      -- (cannot happen with the 4-byte header the library writes)
      .ok ⟨r1, false⟩
    else
      let last := r1.drop (r1.length - 16)
      let lastTs := unN (last.take 8)
      let lastOff := unN (last.drop 8)
      let r2 := if lastOff > lls then r1.take (r1.length - 16) else r1
      match lastFullInData with
      | none => .error .panic                                    -- the `.expect(..)`
      | some t => .ok ⟨r2, t == lastTs⟩

end BS.Impl
